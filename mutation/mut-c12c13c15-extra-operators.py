#!/usr/bin/env python3
"""extra mutation operators on top of /verif/tools/mutsweep.py (scratch; not a shared tool).
usage: same arguments as tools/mutsweep.py; only the x-kinds are kept unless --kinds is given."""
import ast, sys
sys.path.insert(0, "/verif/tools")
import mutsweep as M

INTNAMES = {"order", "s", "min_size", "max_size", "size", "n", "i", "count", "nd", "nu", "N", "num_nodes", "num_edges", "d", "r", "m", "mf", "rmf", "ms"}
STRSWAP = {"order": ["size"], "size": ["order"], "geq": ["gt", "eq", "leq"], "eq": ["geq", "neq"], "leq": ["lt"], "weight": ["weights"]}
ATTRSWAP = {"intersection": "union", "union": "intersection", "add": "discard", "all": "any", "any": "all", "sum": "mean", "mean": "sum",
            "zeros": "ones", "update": "difference_update", "difference": "union", "append": "remove", "eye": "ones", "ravel": "copy",
            "maximal": "singletons", "nodes": "edges", "edges": "nodes", "num_nodes": "num_edges", "num_edges": "num_nodes",
            "members": "ids", "items": "keys", "_edge": "_node", "_id_dict": "_bi_id_dict", "_bi_id_dict": "_id_dict"}
XBIN = {ast.Pow: ("**", "*"), ast.MatMult: ("@", "*"), ast.Mod: ("%", "//"), ast.BitAnd: ("&", "|"), ast.BitOr: ("|", "&")}


class XSites(M.Sites):
    def txt(self, n):
        a, b = self.span(n)
        return self.bsrc[a:b].decode("utf8")

    def visit_Call(self, node):
        a, b = self.span(node)
        # drop one keyword argument
        allargs = list(node.args) + [k for k in node.keywords]
        for k in node.keywords:
            if k.arg is None:
                continue
            ka, kb = self.pos(k.lineno, k.col_offset), self.pos(k.end_lineno, k.end_col_offset)
            pre = self.bsrc[a:ka]
            j = len(pre.rstrip())
            if pre.rstrip().endswith(b","):
                self.add("xkwdrop", node, a + j - 1, kb, "")
            else:
                post = self.bsrc[kb:b]
                t = post.lstrip()
                if t.startswith(b","):
                    self.add("xkwdrop", node, ka, kb + (len(post) - len(t)) + 1, "")
        # swap the first two positional arguments
        if len(node.args) >= 2 and not any(isinstance(x, ast.Starred) for x in node.args[:2]):
            a0, b0 = self.span(node.args[0])
            a1, b1 = self.span(node.args[1])
            mid = self.bsrc[b0:a1].decode("utf8")
            self.add("xargswap", node, a0, b1, self.txt(node.args[1]) + mid + self.txt(node.args[0]))
        # swap receiver and argument of a one-argument method call  A.dot(B) -> B.dot(A)
        f = node.func
        if isinstance(f, ast.Attribute) and f.attr in ("dot", "intersection", "issubset", "difference") and len(node.args) == 1:
            self.add("xrecvswap", node, a, b, f"({self.txt(node.args[0])}).{f.attr}({self.txt(f.value)})")
        super().visit_Call(node)

    def visit_Name(self, node):
        if isinstance(node.ctx, ast.Load) and node.id in INTNAMES:
            a, b = self.span(node)
            self.add("xoff", node, a, b, f"({node.id} + 1)")
            self.add("xoff", node, a, b, f"({node.id} - 1)")

    def visit_keyword(self, node):
        # do not off-by-one the keyword NAME; the value is visited
        self.visit(node.value)

    def visit_BinOp(self, node):
        if type(node.op) in XBIN:
            txt, new = XBIN[type(node.op)]
            self.between(node.left, node.right, txt, new, "xop", node)
        if isinstance(node.op, (ast.Add, ast.Sub, ast.Mult, ast.Div, ast.MatMult)) and not (
                isinstance(node.left, ast.Constant) and isinstance(node.left.value, str)):
            a, b = self.span(node)
            self.add("xopnd", node, a, b, "(" + self.txt(node.left) + ")")
            if not isinstance(node.op, ast.Div):
                self.add("xopnd", node, a, b, "(" + self.txt(node.right) + ")")
        super().visit_BinOp(node)

    def visit_UnaryOp(self, node):
        if isinstance(node.op, ast.USub):
            a, b = self.span(node)
            self.add("xneg", node, a, b, "(" + self.txt(node.operand) + ")")
        super().visit_UnaryOp(node)

    def visit_Constant(self, node):
        v = node.value
        a, b = self.span(node)
        if isinstance(v, str) and v in STRSWAP:
            q = self.bsrc[a:a + 1].decode()
            for w in STRSWAP[v]:
                self.add("xstr", node, a, b, q + w + q)
        elif isinstance(v, float):
            self.add("xfloat", node, a, b, repr(v + 1.0))
            self.add("xfloat", node, a, b, repr(v * 2))
        super().visit_Constant(node)

    def visit_Attribute(self, node):
        if node.attr in ATTRSWAP and isinstance(node.ctx, ast.Load):
            _, b = self.span(node)
            a = b - len(node.attr.encode())
            self.add("xattr", node, a, b, ATTRSWAP[node.attr])
        if node.attr == "T":
            a, b = self.span(node)
            self.add("xattr", node, a, b, self.txt(node.value))
        self.generic_visit(node)

    def visit_IfExp(self, node):
        a, b = self.span(node.test)
        self.add("xtern", node, a, b, "not (" + self.txt(node.test) + ")")
        self.generic_visit(node)

    def _comp(self, node):
        for g in node.generators:
            for c in g.ifs:
                a, b = self.span(c)
                self.add("xcompif", node, a, b, "True")
            a, b = self.span(g.iter)
            self.add("xloop", node, a, b, "list(" + self.txt(g.iter) + ")[1:]")
        self.generic_visit(node)
    visit_ListComp = visit_SetComp = visit_DictComp = visit_GeneratorExp = _comp

    def visit_For(self, node):
        a, b = self.span(node.iter)
        t = self.txt(node.iter)
        self.add("xloop", node, a, b, "list(" + t + ")[1:]")
        self.add("xloop", node, a, b, "list(" + t + ")[:-1]")
        self.add("xloop", node, a, b, "list(" + t + ")[::-1]")
        self.generic_visit(node)

    def visit_Return(self, node):
        if isinstance(node.value, ast.Tuple) and len(node.value.elts) == 2:
            e0, e1 = node.value.elts
            a, b = self.span(node.value)
            self.add("xretswap", node, a, b, "(" + self.txt(e1) + ", " + self.txt(e0) + ")")
        self.generic_visit(node)

    def visit_Assign(self, node):
        # x = expr  ->  tuple targets swapped:  a, b = ...  -> b, a = ...
        if len(node.targets) == 1 and isinstance(node.targets[0], ast.Tuple) and len(node.targets[0].elts) == 2 \
                and all(isinstance(e, ast.Name) for e in node.targets[0].elts):
            e0, e1 = node.targets[0].elts
            a, b = self.span(node.targets[0])
            if e0.id != e1.id:
                self.add("xtgtswap", node, a, b, e1.id + ", " + e0.id)
        super().visit_Assign(node)


M.Sites = XSites
if "--kinds" not in sys.argv:
    sys.argv += ["--kinds", "xkwdrop,xargswap,xrecvswap,xoff,xop,xopnd,xneg,xstr,xfloat,xattr,xtern,xcompif,xloop,xretswap,xtgtswap"]
M.main()
