#!/usr/bin/env python3
"""remut.py <file> <line> <kind> <nth> <props...>: re-create mutsweep mutant (nth match at line/kind) in my worktree, run checks.
   KEEP=1 leaves the mutant applied; props may be empty (just apply)."""
import sys, os, subprocess
sys.path.insert(0, "/verif/tools")
import mutsweep
WT = "/tmp/mut-c02c03/repo"
rel, line, kind, nth = sys.argv[1], int(sys.argv[2]), sys.argv[3], int(sys.argv[4])
props = sys.argv[5:]
subprocess.run(["git", "-C", WT, "checkout", "--", "."], check=True)
if os.environ.get("EXT"):
    sys.path.insert(0, "/tmp/mut-c02c03/bin")
    import sweep_ext
    mutsweep.sites_of = sweep_ext.sites_of
b, ss = mutsweep.sites_of(os.path.join("/repo", rel), None)
m = [s for s in ss if s["line"] == line and s["kind"] == kind][nth]
p = os.path.join(WT, rel)
orig = open(p, "rb").read()
open(p, "wb").write(orig[:m["a"]] + m["new"].encode() + orig[m["b"]:])
print("MUTANT", rel, line, m["func"], kind, repr(m["old"][:60]), "->", repr(m["new"][:60]), flush=True)
try:
    for pr in props:
        r = subprocess.run(["./check", pr], cwd="/verif", env=dict(os.environ, XGI_REPO=WT, VERIF_SEED=os.environ.get("VERIF_SEED", "0")), capture_output=True, text=True)
        v = [l[:230] for l in r.stdout.splitlines() if l.startswith(("VIOLATION", "KNOWN"))]
        print(" ", pr, "exit", r.returncode, *v[:4], sep="\n     ", flush=True)
        if r.returncode == 2:
            print(r.stdout[-1500:], r.stderr[-1500:])
finally:
    if not os.environ.get("KEEP"):
        subprocess.run(["git", "-C", WT, "checkout", "--", "."], check=True)
