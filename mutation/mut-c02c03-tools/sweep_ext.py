#!/usr/bin/env python3
"""Extended-operator sweep (scratch tool of mut-c02c03; drives tools/mutsweep.py unchanged).

Adds mutation kinds the stock tool does not have, aimed at the directed / simplicial bookkeeping:
  strswap : string constant "in" <-> "out"
  meth    : set-method swaps  union<->intersection, difference->union, remove->discard, add->discard,
            update->clear (attribute dict not filled), issubset/issuperset
  name    : variable swaps tail<->head, tail_set<->head_set, ed<->nd, idx<->uid, members<->member_set (loads only)
  strictcmp : `<` on sets -> `<=` is in the stock tool; here `frozenset(x)` -> `set(x)` and `set(x)` -> `frozenset(x)`
  arg     : boolean keyword defaults in signatures (strong=False -> True, remove_empty=True -> False, ...)
  ret     : `return` -> `pass` for bare returns inside loops/ifs
Only the new kinds are returned (the stock sites were swept already).  Same CLI as mutsweep.py.
"""
import ast
import os
import sys

sys.path.insert(0, "/verif/tools")
import mutsweep  # noqa: E402

METH = {"union": ["intersection"], "intersection": ["union"], "difference": ["union"], "remove": ["discard"],
        "add": ["discard"], "issubset": ["issuperset"], "keys": ["values"]}
NAMES = {"tail": "head", "head": "tail", "tail_set": "head_set", "head_set": "tail_set", "ed": "nd", "nd": "ed",
         "format2": "format4", "format4": "format2", "format1": "format3", "format3": "format1"}


class Ext(mutsweep.Sites):
    def visit_Constant(self, node):
        v = node.value
        if v in ("in", "out"):
            a, b = self.span(node)
            q = self.bsrc[a:a + 1].decode()
            self.add("strswap", node, a, b, q + ("out" if v == "in" else "in") + q)

    def visit_Call(self, node):
        f = node.func
        if isinstance(f, ast.Attribute) and f.attr in METH:
            a = self.pos(f.end_lineno, f.end_col_offset) - len(f.attr)
            b = self.pos(f.end_lineno, f.end_col_offset)
            for new in METH[f.attr]:
                self.add("meth", node, a, b, new)
        if isinstance(f, ast.Name) and f.id in ("frozenset", "set") and len(node.args) == 1:
            a, b = self.span(f)
            self.add("settype", node, a, b, "set" if f.id == "frozenset" else "frozenset")
        self.generic_visit(node)

    def visit_Name(self, node):
        if isinstance(node.ctx, ast.Load) and node.id in NAMES:
            a, b = self.span(node)
            self.add("name", node, a, b, NAMES[node.id])

    def visit_FunctionDef(self, node):
        self.stack.append(node.name)
        args = node.args
        pos = args.args[len(args.args) - len(args.defaults):]
        for arg, d in list(zip(pos, args.defaults)) + [(a_, d_) for a_, d_ in zip(args.kwonlyargs, args.kw_defaults) if d_ is not None]:
            if isinstance(d, ast.Constant) and isinstance(d.value, bool):
                a, b = self.span(d)
                self.add("arg", d, a, b, "False" if d.value else "True")
        self.stack.pop()
        super().visit_FunctionDef(node)
    visit_AsyncFunctionDef = visit_FunctionDef

    def visit_Return(self, node):
        if node.value is None:
            self.add("ret", node, *self.span(node), "pass")

    # the stock kinds are switched off
    def visit_Compare(self, node):
        self.generic_visit(node)

    def visit_BoolOp(self, node):
        self.generic_visit(node)

    def visit_UnaryOp(self, node):
        self.generic_visit(node)

    def visit_BinOp(self, node):
        self.generic_visit(node)

    def _stmt_delete(self, node):
        pass

    def visit_Delete(self, node):
        pass

    def visit_Break(self, node):
        pass

    def visit_Continue(self, node):
        pass

    def visit_If(self, node):
        self.generic_visit(node)


def sites_of(path, funcs):
    src = open(path, encoding="utf8").read()
    s = Ext(src, funcs)
    tree = ast.parse(src)
    for st in tree.body:
        if isinstance(st, (ast.FunctionDef, ast.ClassDef, ast.AsyncFunctionDef)):
            s.visit(st)
    return s.bsrc, s.out


if __name__ == "__main__":
    import json
    done = set()
    if "--done" in sys.argv:
        i = sys.argv.index("--done")
        for f in sys.argv[i + 1].split(","):
            for l in open(f):
                j = json.loads(l)
                done.add((j["line"], j["kind"], j["old"], j["new"], j["func"]))
        del sys.argv[i:i + 2]
    _all = sites_of

    def _rest(path, funcs):
        b, ss = _all(path, funcs)
        out, seen = [], {}
        for s_ in ss:
            k = (s_["line"], s_["kind"], s_["old"], s_["new"], s_["func"])
            seen[k] = seen.get(k, 0) + 1
            if k in done:
                continue
            out.append(s_)
        return b, out
    mutsweep.sites_of = _rest
    if len(sys.argv) > 1 and sys.argv[1] == "--list":
        for rel in sys.argv[2:]:
            _, ss = sites_of(os.path.join("/repo", rel), None)
            import collections
            print(rel, len(ss), collections.Counter(s["kind"] for s in ss))
            for s in ss:
                print("  ", s["line"], s["func"], s["kind"], repr(s["old"]), "->", repr(s["new"]))
    else:
        mutsweep.main()
