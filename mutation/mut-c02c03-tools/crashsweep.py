#!/usr/bin/env python3
"""crashsweep.py dhg|sc : for EVERY mutation site (stock + extended kinds, also those the tests kill) run the state-machine
harness (generator, executor, snapshot, predicate — no Lean) on the mutant and report harness exceptions / hangs."""
import os, subprocess, sys, json
sys.path.insert(0, "/verif/tools"); sys.path.insert(0, "/tmp/mut-c02c03/bin")
import mutsweep, sweep_ext
which = sys.argv[1]
rel = {"dhg": "xgi/core/dihypergraph.py", "sc": "xgi/core/simplicialcomplex.py"}[which]
WT = "/tmp/mut-c02c03/repo2"
if not os.path.isdir(WT):
    subprocess.run(["git", "-C", "/repo", "worktree", "add", "--detach", WT, "HEAD"], check=True, capture_output=True)
b, s1 = mutsweep.Sites and mutsweep.sites_of(os.path.join("/repo", rel), None)
_, s2 = sweep_ext.sites_of(os.path.join("/repo", rel), None)
sites = s1 + s2
INNER = r'''
import random, sys, traceback, json, copy
sys.path.insert(0, "/verif")
from harness import %(mod)s as M
from harness.props import %(prop)s as P
n = 0
for seed in range(%(nh)d):
    rng = random.Random(seed)
    ops = M.gen_history(rng, 1, 14, %(weights)s)
    H = M.factory()
    prev = P.derive(M.snapshot(H, "ok"))
    for op in ops:
        out, exc = M.apply_impl(H, op)
        snap = P.derive(M.snapshot(H, out))
        P.pred(snap, op, prev, exc)
        json.dumps(snap); json.dumps(M.to_request(op))
        prev = snap; n += 1
print("OK", n)
'''
inner = INNER % ({"mod": "dhg", "prop": "c02", "nh": 60, "weights": "None"} if which == "dhg" else
                 {"mod": "sc", "prop": "c03", "nh": 40, "weights": "P.WEIGHTS"})
p = os.path.join(WT, rel)
orig = open(os.path.join("/repo", rel), "rb").read()
bad = 0
try:
    for i, m in enumerate(sites):
        new = orig[:m["a"]] + m["new"].encode() + orig[m["b"]:]
        try:
            compile(new, p, "exec")
        except SyntaxError:
            continue
        open(p, "wb").write(new)
        try:
            r = subprocess.run(["/venv/bin/python", "-c", inner], cwd="/verif", capture_output=True, text=True, timeout=300,
                               env=dict(os.environ, PYTHONPATH=WT + ":/verif", PYTHONHASHSEED="1", VERIF_CALL_TIMEOUT="3"))
            ok = r.returncode == 0 and r.stdout.startswith("OK")
            tail = (r.stderr.strip().splitlines() or [""])[-1][:200]
        except subprocess.TimeoutExpired:
            ok, tail = False, "HARNESS TIMEOUT 300 s"
        if not ok:
            bad += 1
            fr = [l.strip() for l in r.stderr.splitlines() if l.strip().startswith("File \"/verif/harness")][-1:] if tail != "HARNESS TIMEOUT 300 s" else []
            print(f"CRASH {rel}:{m['line']} {m['func']} [{m['kind']}] {m['old'][:40]!r} -> {m['new'][:30]!r} :: {tail} {fr}", flush=True)
        if i % 50 == 0:
            print(f"... {i}/{len(sites)}", flush=True)
finally:
    open(p, "wb").write(orig)
print("done", len(sites), "sites,", bad, "crashes")
