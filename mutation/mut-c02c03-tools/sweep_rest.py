#!/usr/bin/env python3
"""run tools/mutsweep.py but skip sites already present in earlier result files (--done a.jsonl,b.jsonl)"""
import sys, json, os
sys.path.insert(0, "/verif/tools")
import mutsweep
done = set()
args = sys.argv[1:]
if "--done" in args:
    i = args.index("--done")
    for f in args[i+1].split(","):
        if os.path.exists(f):
            for l in open(f):
                j = json.loads(l)
                if j.get("result") in ("killed-by-tests", "caught", "SURVIVOR", "syntax-error"):
                    done.add((j["file"].split("/")[-1], j["line"], j["kind"], j["old"], j["new"]))
    del args[i:i+2]
orig = mutsweep.sites_of
def sites_of(path, funcs):
    b, ss = orig(path, funcs)
    base = os.path.basename(path)
    ss = [s for s in ss if (base, s["line"], s["kind"], s["old"], s["new"]) not in done]
    return b, ss
mutsweep.sites_of = sites_of
sys.argv = ["mutsweep.py"] + args
mutsweep.main()
