#!/usr/bin/env python3
"""extra mutation operators on top of /verif/tools/mutsweep.py (same driver, same output format):
role swaps (node<->edge names / attributes / strings, in<->out, tail<->head, nodetype<->edgetype), swapped call
arguments, dropped keyword arguments, dropped comprehension filters, loops that skip the first / last element,
boolean operands dropped, `if c` -> `if True` / `if False`, casts dropped (str(x) -> x, int(x) -> x, list(x) -> x),
union <-> intersection, keys/values."""
import ast
import os
import sys

sys.path.insert(0, "/verif/tools")
import mutsweep as M  # noqa

NAME_SWAP = {"nodetype": "edgetype", "edgetype": "nodetype", "node_column": "edge_column", "edge_column": "node_column",
             "nodelabels": "edgelabels", "edgelabels": "nodelabels", "rows": "cols", "cols": "rows", "u": "v", "v": "u",
             "n": "e", "e": "n", "i": "j", "j": "i", "node": "edge", "edge": "node", "nodes": "edges", "edges": "nodes",
             "tail": "head", "head": "tail", "node_dict": "edge_dict", "edge_dict": "node_dict", "node_id": "edge_id",
             "edge_id": "node_id", "num_nodes": "num_edges", "num_edges": "num_nodes", "node_data": "edge_data",
             "edge_data": "node_data", "key": "val", "val": "key", "idx": "dd", "nodes1": "nodes2", "nodes2": "nodes1"}
ATTR_SWAP = {"nodes": "edges", "edges": "nodes", "_node": "_edge", "_edge": "_node", "num_nodes": "num_edges",
             "num_edges": "num_nodes", "tail": "head", "head": "tail", "union": "intersection", "keys": "values",
             "members": "memberships", "memberships": "members", "_node_attr": "_edge_attr", "_edge_attr": "_node_attr",
             "isolates": "singletons", "row": "col", "col": "row", "set_node_attributes": "set_edge_attributes",
             "set_edge_attributes": "set_node_attributes", "add": "discard", "T": "real", "startswith": "endswith",
             "strip": "lstrip", "extend": "append", "dimembers": "members", "items": "keys"}
STR_SWAP = {"in": "out", "out": "in", "tail": "head", "head": "tail", "asc": "undirected", "undirected": "asc",
            "directed": "undirected", "node": "edge", "edge": "node", "nodes": "edges", "edges": "nodes",
            "node-data": "edge-data", "edge-data": "node-data", "order": "size", "gt": "geq", "w": "a", "wb": "ab",
            "r": "rb", "": " ", " ": "", "\n": "", "#": "%", "utf-8": "ascii", "Node ID": "Edge ID", "Edge ID": "Node ID"}
CASTS = {"str", "int", "list", "tuple", "frozenset", "repr", "float", "dict", "len"}


class XSites(M.Sites):
    def visit_Compare(self, node):
        self.generic_visit(node)

    def visit_BoolOp(self, node):
        a, b = self.span(node)
        for v in node.values:
            self.add("booldrop", node, a, b, self.bsrc[slice(*self.span(v))].decode("utf8"))
        self.generic_visit(node)

    def visit_UnaryOp(self, node):
        self.generic_visit(node)

    def visit_BinOp(self, node):
        self.generic_visit(node)

    def visit_Constant(self, node):
        v = node.value
        if isinstance(v, str) and v in STR_SWAP:
            a, b = self.span(node)
            self.add("str", node, a, b, repr(STR_SWAP[v]))

    def visit_JoinedStr(self, node):
        return

    def visit_Raise(self, node):
        return

    def visit_Name(self, node):
        if isinstance(node.ctx, ast.Load) and node.id in NAME_SWAP:
            a, b = self.span(node)
            self.add("name", node, a, b, NAME_SWAP[node.id])

    def visit_Attribute(self, node):
        if node.attr in ATTR_SWAP and isinstance(node.ctx, ast.Load):
            _, b = self.span(node)
            a = b - len(node.attr.encode())
            self.add("attr", node, a, b, ATTR_SWAP[node.attr])
        self.generic_visit(node)

    def visit_Call(self, node):
        f = node.func
        a, b = self.span(node)
        txt = lambda n: self.bsrc[slice(*self.span(n))].decode("utf8")
        if isinstance(f, ast.Name) and f.id in CASTS and len(node.args) == 1 and not node.keywords and f.id != "len":
            self.add("cast", node, a, b, "(" + txt(node.args[0]) + ")")
        if len(node.args) >= 2 and not any(isinstance(x, ast.Starred) for x in node.args[:2]):
            a0, b0 = self.span(node.args[0])
            a1, b1 = self.span(node.args[1])
            self.add("argswap", node, a0, b1, txt(node.args[1]) + self.bsrc[b0:a1].decode("utf8") + txt(node.args[0]))
        for kw in node.keywords:
            if kw.arg is None:
                continue
            ka, kb = self.span(kw)
            # drop `, k=v` (with the comma before it when there is one)
            pre = self.bsrc[a:ka].decode("utf8")
            i = pre.rstrip().rfind(",")
            if pre.rstrip().endswith(","):
                self.add("kwdrop", node, a + len(pre[:i].encode()), kb, "")
            elif pre.rstrip().endswith("("):
                post = self.bsrc[kb:b].decode("utf8")
                j = len(post) - len(post.lstrip())
                if post.lstrip().startswith(","):
                    self.add("kwdrop", node, ka, kb + j + 1, "")
                else:
                    self.add("kwdrop", node, ka, kb, "")
        self.generic_visit(node)

    def _comp(self, node):
        for g in node.generators:
            for c in g.ifs:
                ca, cb = self.span(c)
                self.add("filterdrop", node, ca, cb, "True")
            ia, ib = self.span(g.iter)
            it = self.bsrc[ia:ib].decode("utf8")
            self.add("skipfirst", node, ia, ib, f"list({it})[1:]")
            self.add("skiplast", node, ia, ib, f"list({it})[:-1]")
        self.generic_visit(node)
    visit_ListComp = visit_SetComp = visit_DictComp = visit_GeneratorExp = _comp

    def visit_For(self, node):
        ia, ib = self.span(node.iter)
        it = self.bsrc[ia:ib].decode("utf8")
        self.add("skipfirst", node, ia, ib, f"list({it})[1:]")
        self.add("skiplast", node, ia, ib, f"list({it})[:-1]")
        self.generic_visit(node)

    def _stmt_delete(self, node):
        return

    def visit_Break(self, node):
        return

    def visit_Continue(self, node):
        return

    def visit_If(self, node):
        a, b = self.span(node.test)
        self.add("iftrue", node, a, b, "True")
        self.add("iffalse", node, a, b, "False")
        self.generic_visit(node)

    def visit_IfExp(self, node):
        a, b = self.span(node.test)
        self.add("iftrue", node, a, b, "True")
        self.add("iffalse", node, a, b, "False")
        self.generic_visit(node)

    def visit_Return(self, node):
        self.generic_visit(node)

    def visit_Subscript(self, node):
        # x[a:b] -> x ; x[k] kept
        if isinstance(node.slice, ast.Slice):
            a, b = self.span(node)
            self.add("slicedrop", node, a, b, self.bsrc[slice(*self.span(node.value))].decode("utf8"))
        self.generic_visit(node)


def sites_of(path, funcs):
    src = open(path, encoding="utf8").read()
    s = XSites(src, funcs)
    tree = ast.parse(src)
    for st in tree.body:
        if isinstance(st, (ast.FunctionDef, ast.ClassDef, ast.AsyncFunctionDef)):
            s.visit(st)
    only = os.environ.get("MUTX_ONLY")
    if only:   # re-judge: keep the sites recorded as SURVIVOR / infra in the given result files
        import json
        keep = set()
        for f in only.split(","):
            for l in open(f):
                d = json.loads(l)
                if d["result"] in ("SURVIVOR", "infra"):
                    keep.add((d["file"], d["line"], d["func"], d["kind"], d["old"], d["new"]))
        rel = os.path.relpath(path, "/repo")
        s.out = [m for m in s.out if (rel, m["line"], m["func"], m["kind"], m["old"], m["new"]) in keep]
    # distinct (a, b, new)
    seen, out = set(), []
    for m in s.out:
        k = (m["a"], m["b"], m["new"])
        if k not in seen:
            seen.add(k)
            out.append(m)
    return s.bsrc, out


_full = M.tests_pass


def tests_pass(wt, deselect):
    """the pinned suite, nearest tests first (a kill is a kill; the full suite runs only when these pass)"""
    import os
    d = " ".join(f"--deselect '{i}'" for i in deselect)
    r = M.run(f"/venv/bin/python -m pytest -x -q -p no:cacheprovider --timeout=600 {d} tests/convert tests/readwrite "
              f"xgi/convert xgi/readwrite", cwd=wt, env=dict(os.environ, PYTHONPATH=wt))
    if r.returncode != 0:
        fails = [l.split()[1] for l in r.stdout.splitlines() if l.startswith(("FAILED ", "ERROR "))]
        return False, fails[:3] or [r.stdout[-200:]]
    return _full(wt, deselect)


M.tests_pass = tests_pass
M.sites_of = sites_of
if __name__ == "__main__":
    if sys.argv[1:2] == ["--list"]:
        for f in sys.argv[2:]:
            _, ss = sites_of("/repo/" + f, None)
            print(f, len(ss))
            for m in ss:
                print("  ", m["line"], m["func"], m["kind"], repr(m["old"][:50]), "->", repr(m["new"][:50]))
    else:
        M.main()
