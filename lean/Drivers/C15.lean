import XgiModel.C15.Drive
def main : IO Unit := Xgi.Proto.runDriver () Xgi.C15.Drive.handle
