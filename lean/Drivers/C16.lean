import XgiModel.C16.Drive
def main : IO Unit := Xgi.Proto.runDriver () Xgi.C16.Drive.handle
