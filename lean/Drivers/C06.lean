import XgiModel.C06.Drive
def main : IO Unit := Xgi.Proto.runDriver Xgi.C06.Drive.St.init Xgi.C06.Drive.handle
