import XgiModel.C06.Drive
def main : IO Unit := Xgi.Proto.runDriver Xgi.HG.empty Xgi.C06.Drive.handle
