import XgiModel.C10.Drive
def main : IO Unit := Xgi.Proto.runDriver () Xgi.C10.Drive.handle
