import XgiModel.C13.Drive
def main : IO Unit := Xgi.Proto.runDriver () Xgi.C13.Drive.handle
