import XgiModel.C13.Drive
def main : IO Unit := Xgi.Proto.runDriver (none : Xgi.C13.Drive.St) Xgi.C13.Drive.handle
