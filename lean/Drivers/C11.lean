import XgiModel.C11.Drive
def main : IO Unit := Xgi.Proto.runDriver () Xgi.C11.Drive.handle
