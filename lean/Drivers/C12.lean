import XgiModel.C12.Drive
def main : IO Unit := Xgi.Proto.runDriver () Xgi.C12.Drive.handle
