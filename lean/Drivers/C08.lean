import XgiModel.C08.Drive
def main : IO Unit := Xgi.Proto.runDriver () Xgi.C08.Drive.handle
