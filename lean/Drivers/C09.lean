import XgiModel.C09.Drive
def main : IO Unit := Xgi.Proto.runDriver () Xgi.C09.Drive.handle
