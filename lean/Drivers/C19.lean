import XgiModel.C19.Drive
def main : IO Unit := Xgi.Proto.runDriver () Xgi.C19.Drive.handle
