import XgiModel.C07.Drive
def main : IO Unit := Xgi.Proto.runDriver Xgi.C07.Drive.init Xgi.C07.Drive.handle
