import XgiModel.C14.Drive
def main : IO Unit := Xgi.Proto.runDriver () Xgi.C14.Drive.handle
