import XgiModel.Drive.HG
def main : IO Unit := Xgi.Proto.runDriver Xgi.HG.empty Xgi.HG.Drive.handle
