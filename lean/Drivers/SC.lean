import XgiModel.C03.Drive
def main : IO Unit := Xgi.Proto.runDriver Xgi.HG.empty Xgi.SC.Drive.handle
