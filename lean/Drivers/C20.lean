import XgiModel.C20.Drive
def main : IO Unit := Xgi.Proto.runDriver () Xgi.C20.Drive.handle
