import XgiModel.C17.Drive
def main : IO Unit := Xgi.Proto.runDriver () Xgi.C17.Drive.handle
