import XgiModel.C02.Drive
def main : IO Unit := Xgi.Proto.runDriver Xgi.DHG.empty Xgi.DHG.Drive.handle
