/-
  Base definitions shared by every model of xgi: Python IDs, attribute values,
  duplicate-free lists standing for Python sets, insertion-ordered dicts as
  (key list, total function).  No Mathlib.
-/
namespace Xgi

/-- Atomic Python IDs that the models cover: `int` and `str`. -/
inductive Atom where
  | int (i : Int)
  | str (s : String)
  deriving DecidableEq, Repr, Inhabited

/-- Python IDs: an atom, a tuple of atoms (produced by `merge_duplicate_edges(rename="tuple")`),
    or `None` (which `IDDict` rejects as a key). -/
inductive PyId where
  | atom (a : Atom)
  | tup (l : List Atom)
  | none
  deriving DecidableEq, Repr, Inhabited

abbrev PyId.int (i : Int) : PyId := .atom (.int i)
abbrev PyId.str (s : String) : PyId := .atom (.str s)

/-- attribute scalars; `opaque` carries the canonical JSON text of any other value -/
inductive Scalar where
  | int (i : Int)
  | str (s : String)
  | none
  | opaque (json : String)
  deriving DecidableEq, Repr, Inhabited

/-- attribute values: a scalar, or a Python set of scalars (produced by merge rule "union") -/
inductive Val where
  | sc (s : Scalar)
  | set (l : List Scalar)
  deriving DecidableEq, Repr, Inhabited

/-- attribute dict, in key insertion order -/
abbrev Attrs := List (String × Val)

/-! ### Python sets as duplicate-free lists -/

/-- `s.add(x)` -/
def ins {α} [DecidableEq α] (x : α) (l : List α) : List α := if x ∈ l then l else l ++ [x]
/-- `s.discard(x)` -/
def rm {α} [DecidableEq α] (x : α) (l : List α) : List α := l.filter (fun y => y ≠ x)
/-- `set(l)` keeping first occurrences -/
def dedup {α} [DecidableEq α] (l : List α) : List α := l.foldl (fun acc x => ins x acc) []

section
variable {α : Type} [DecidableEq α]

@[simp, grind =] theorem mem_ins {x y : α} {l : List α} : y ∈ ins x l ↔ y = x ∨ y ∈ l := by
  unfold ins; split <;> simp <;> grind
@[simp, grind =] theorem mem_rm {x y : α} {l : List α} : y ∈ rm x l ↔ y ≠ x ∧ y ∈ l := by
  unfold rm; simp; grind

theorem nodup_ins {x : α} {l : List α} (h : l.Nodup) : (ins x l).Nodup := by
  unfold ins; split
  · exact h
  · rw [List.nodup_append]; refine ⟨h, by simp, ?_⟩; intro a ha b hb; simp at hb; subst hb; grind
theorem nodup_rm {x : α} {l : List α} (h : l.Nodup) : (rm x l).Nodup := by
  unfold rm; exact List.Nodup.sublist List.filter_sublist h

theorem foldl_ins_mem (l acc : List α) (y : α) :
    y ∈ l.foldl (fun acc x => ins x acc) acc ↔ y ∈ acc ∨ y ∈ l := by
  induction l generalizing acc with
  | nil => simp
  | cons a t ih => simp [ih]; grind
theorem foldl_ins_nodup (l acc : List α) (h : acc.Nodup) :
    (l.foldl (fun acc x => ins x acc) acc).Nodup := by
  induction l generalizing acc with
  | nil => simpa
  | cons a t ih => exact ih _ (nodup_ins h)
@[simp, grind =] theorem mem_dedup {l : List α} {y : α} : y ∈ dedup l ↔ y ∈ l := by
  unfold dedup; rw [foldl_ins_mem]; simp
theorem nodup_dedup (l : List α) : (dedup l).Nodup := foldl_ins_nodup l [] List.nodup_nil
theorem length_rm_le (x : α) (l : List α) : (rm x l).length ≤ l.length := by
  unfold rm; exact List.length_filter_le _ _
end

/-! ### dict writes on total functions -/

/-- `d[k] = v` on the lookup function of a dict -/
def upd {κ β} [DecidableEq κ] (f : κ → β) (k : κ) (v : β) : κ → β := fun j => if j = k then v else f j

@[simp, grind =] theorem upd_apply {κ β} [DecidableEq κ] (f : κ → β) (k : κ) (v : β) (j : κ) :
    upd f k v j = if j = k then v else f j := rfl

/-! ### attribute dict operations -/

/-- `d[k] = v` (keeps the position of an existing key, appends a new one) -/
def Attrs.set (a : Attrs) (k : String) (v : Val) : Attrs :=
  if a.any (fun p => p.1 = k) then a.map (fun p => if p.1 = k then (k, v) else p) else a ++ [(k, v)]
/-- `d.update(b)` -/
def Attrs.update (a b : Attrs) : Attrs := b.foldl (fun acc p => Attrs.set acc p.1 p.2) a
/-- `d.get(k)` -/
def Attrs.get? (a : Attrs) (k : String) : Option Val := (a.find? (fun p => p.1 = k)).map (·.2)

end Xgi
