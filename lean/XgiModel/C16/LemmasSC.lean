/-
  C16 — helper lemmas: coin-flip generators, face closure, flag complexes, closed-form generators.
-/
import XgiModel.C16.LemmasMore

namespace Xgi.C16

/-! ### `pick` / random_hypergraph -/

theorem pick_spec {α} : ∀ (l : List α) (coins : List Bool) (r : List α) (rest : List Bool),
    pick l coins = some (r, rest) →
    r.Sublist l ∧ ((∀ c ∈ coins, c = false) → r = []) ∧ ((∀ c ∈ coins, c = true) → r = l) ∧ ∃ used, coins = used ++ rest := by
  intro l
  induction l with
  | nil => intro coins r rest h; simp [pick] at h; obtain ⟨rfl, rfl⟩ := h; simp
  | cons a t ih =>
    intro coins r rest h
    cases coins with
    | nil => simp [pick] at h
    | cons c cs =>
      simp only [pick] at h
      split at h
      · simp at h
      · rename_i r' rest' hrec
        simp at h; obtain ⟨rfl, rfl⟩ := h
        obtain ⟨h1, h2, h3, used, h4⟩ := ih cs r' rest' hrec
        refine ⟨?_, ?_, ?_, c :: used, by simp [h4]⟩
        · cases c
          · exact List.Sublist.cons a h1
          · exact List.Sublist.cons_cons a h1
        · intro hf
          have := hf c (by simp); subst this
          simpa using h2 (fun x hx => hf x (by simp [hx]))
        · intro ht
          have := ht c (by simp); subst this
          simpa using h3 (fun x hx => ht x (by simp [hx]))

theorem coinRandom_spec (n : Nat) : ∀ (sizes : List Nat) (coins : List Bool) (es : List (List Nat)) (rest : List Bool),
    coinRandom n sizes coins = some (es, rest) →
    (∀ e ∈ es, ∃ s ∈ sizes, e ∈ combinations n s) ∧ (sizes.Nodup → es.Nodup) ∧
    ((∀ c ∈ coins, c = false) → es = []) ∧
    ((∀ c ∈ coins, c = true) → ∀ s ∈ sizes, ∀ e ∈ combinations n s, e ∈ es) ∧ ∃ used, coins = used ++ rest := by
  intro sizes
  induction sizes with
  | nil => intro coins es rest h; simp [coinRandom] at h; obtain ⟨rfl, rfl⟩ := h; simp
  | cons size rs ih =>
    intro coins es rest h
    simp only [coinRandom] at h
    split at h
    · simp at h
    · rename_i es1 rest1 h1
      split at h
      · simp at h
      · rename_i es2 rest2 h2
        simp at h; obtain ⟨rfl, rfl⟩ := h
        obtain ⟨a1, a2, a3, used1, a4⟩ := pick_spec _ _ _ _ h1
        obtain ⟨b1, b2, b3, b4, used2, b5⟩ := ih rest1 es2 rest2 h2
        have sub1 : ∀ c ∈ rest1, c ∈ coins := fun c hc => by rw [a4]; simp [hc]
        refine ⟨?_, ?_, ?_, ?_, used1 ++ used2, by rw [a4, b5]; simp⟩
        · intro e he
          rw [List.mem_append] at he
          rcases he with he | he
          · exact ⟨size, by simp, a1.subset he⟩
          · obtain ⟨s, hs, hes⟩ := b1 e he
            exact ⟨s, by simp [hs], hes⟩
        · intro hnd
          rw [List.nodup_cons] at hnd
          rw [List.nodup_append]
          refine ⟨(nodup_combinations n size).sublist a1, b2 hnd.2, ?_⟩
          intro x hx y hy hxy
          subst hxy
          obtain ⟨s, hs, hes⟩ := b1 x hy
          have l1 := ((mem_combinations _ _ _).mp (a1.subset hx)).1
          have l2 := ((mem_combinations _ _ _).mp hes).1
          exact hnd.1 (by rw [← l1, l2]; exact hs)
        · intro hf
          rw [a2 hf, b3 (fun c hc => hf c (sub1 c hc))]
          rfl
        · intro ht s hs e he
          rw [List.mem_cons] at hs
          rw [List.mem_append]
          rcases hs with rfl | hs
          · left; rw [a3 ht]; exact he
          · right; exact b4 (fun c hc => ht c (sub1 c hc)) s hs e he

/-! ### faces and closure -/

theorem mem_sublists : ∀ (s t : List Nat), t ∈ sublists s ↔ t.Sublist s := by
  intro s
  induction s with
  | nil => intro t; simp [sublists]
  | cons a l ih =>
    intro t
    simp only [sublists, List.mem_append, List.mem_map, ih, List.sublist_cons_iff]
    constructor
    · rintro (h | ⟨r, hr, rfl⟩)
      · exact Or.inl h
      · exact Or.inr ⟨r, rfl, hr⟩
    · rintro (h | ⟨r, rfl, hr⟩)
      · exact Or.inl h
      · exact Or.inr ⟨r, hr, rfl⟩

theorem mem_faces (s t : List Nat) : t ∈ faces s ↔ t.Sublist s ∧ 2 ≤ t.length := by
  simp [faces, List.mem_filter, mem_sublists]

theorem mem_closure (S : List (List Nat)) (t : List Nat) : t ∈ closure S ↔ ∃ s ∈ S, t.Sublist s ∧ 2 ≤ t.length := by
  simp [closure, List.mem_flatMap, mem_faces]

theorem admissible_sublist {n : Nat} {s t : List Nat} (h : Admissible n s) (hs : t.Sublist s) : Admissible n t :=
  ⟨h.1.sublist hs, fun x hx => h.2 x (hs.subset hx)⟩

/-! ### flag complexes -/

theorem isClique_iff (adj : Nat → Nat → Bool) : ∀ (e : List Nat), isClique adj e = true ↔ e.Pairwise (fun a b => adj a b = true) := by
  intro e
  induction e with
  | nil => simp [isClique]
  | cons a l ih => simp [isClique, ih, List.pairwise_cons]

theorem mem_cliquesSizes (n : Nat) (adj : Nat → Nat → Bool) : ∀ (cnt start : Nat) (e : List Nat),
    e ∈ cliquesSizes n adj start cnt ↔
      (start ≤ e.length ∧ e.length < start + cnt) ∧ Admissible n e ∧ e.Pairwise (fun a b => adj a b = true) := by
  intro cnt
  induction cnt with
  | zero => intro start e; simp [cliquesSizes]
  | succ cnt ih =>
    intro start e
    simp only [cliquesSizes, List.mem_append, List.mem_filter, ih, mem_combinations, isClique_iff]
    constructor
    · rintro (⟨⟨h1, h2⟩, h3⟩ | ⟨h1, h2, h3⟩)
      · exact ⟨by omega, h2, h3⟩
      · exact ⟨by omega, h2, h3⟩
    · rintro ⟨h1, h2, h3⟩
      by_cases h : e.length = start
      · exact Or.inl ⟨⟨h, h2⟩, h3⟩
      · exact Or.inr ⟨by omega, h2, h3⟩

theorem nodup_cliquesSizes (n : Nat) (adj : Nat → Nat → Bool) : ∀ (cnt start : Nat), (cliquesSizes n adj start cnt).Nodup := by
  intro cnt
  induction cnt with
  | zero => intro start; simp [cliquesSizes]
  | succ cnt ih =>
    intro start
    simp only [cliquesSizes]
    rw [List.nodup_append]
    refine ⟨(nodup_combinations _ _).sublist List.filter_sublist, ih _, ?_⟩
    intro a ha b hb hab
    subst hab
    rw [List.mem_filter, mem_combinations] at ha
    rw [mem_cliquesSizes] at hb
    omega

/-! ### closed-form generators -/

theorem mod_two (x n : Nat) (h : x < 2 * n) : x % n = if x < n then x else x - n := by
  split
  · exact Nat.mod_eq_of_lt (by assumption)
  · rw [Nat.mod_eq_sub_mod (by omega), Nat.mod_eq_of_lt (by omega)]

theorem mem_ringLattice (n d k l : Nat) (e : List Nat) :
    e ∈ ringLattice n d k l ↔ ∃ node < n, ∃ j < k / 2,
      e = node :: (List.range (d - 1)).map (fun i => (node + 1 + j + l + i) % n) := by
  simp only [ringLattice, List.mem_flatMap, List.mem_range, List.mem_map]
  constructor
  · rintro ⟨node, hn, j, hj, rfl⟩; exact ⟨node, hn, j, hj, rfl⟩
  · rintro ⟨node, hn, j, hj, rfl⟩; exact ⟨node, hn, j, hj, rfl⟩

theorem length_ringLattice (n d k l : Nat) : (ringLattice n d k l).length = n * (k / 2) := by
  simp [ringLattice, List.length_flatMap]

theorem ring_edge_nodup (n d k l node j : Nat) (hn : node < n) (hj : j < k / 2) (hadm : l + k / 2 + d - 1 ≤ n) :
    (node :: (List.range (d - 1)).map (fun i => (node + 1 + j + l + i) % n)).Nodup := by
  rw [List.nodup_cons]
  constructor
  · intro hmem
    rw [List.mem_map] at hmem
    obtain ⟨i, hi, hx⟩ := hmem
    rw [List.mem_range] at hi
    rw [mod_two _ n (by omega)] at hx
    split at hx <;> omega
  · refine List.Nodup.map_on ?_ List.nodup_range
    intro x hx y hy hxy
    rw [List.mem_range] at hx hy
    rw [mod_two _ n (by omega), mod_two _ n (by omega)] at hxy
    split at hxy <;> split at hxy <;> omega

theorem mem_sunflower (l c m : Nat) (e : List Nat) :
    e ∈ sunflower l c m ↔ ∃ t < l, e = List.range c ++ (List.range (m - c)).map (fun i => c + t * (m - c) + i) := by
  simp only [sunflower, List.mem_map, List.mem_range]
  constructor
  · rintro ⟨t, ht, rfl⟩; exact ⟨t, ht, rfl⟩
  · rintro ⟨t, ht, rfl⟩; exact ⟨t, ht, rfl⟩

theorem mem_cliqueEdges (nStar nClique : Nat) : ∀ (cnt size : Nat) (e : List Nat),
    e ∈ cliqueEdges nStar nClique size cnt ↔ (size ≤ e.length ∧ e.length < size + cnt) ∧ e.Pairwise (· < ·) ∧
      ∀ x ∈ e, nStar ≤ x ∧ x < nStar + nClique := by
  intro cnt
  induction cnt with
  | zero => intro size e; simp [cliqueEdges]
  | succ cnt ih =>
    intro size e
    simp only [cliqueEdges, List.mem_append, ih, mem_combsAux]
    constructor
    · rintro (⟨h1, h2⟩ | ⟨h1, h2⟩)
      · exact ⟨by omega, h2⟩
      · exact ⟨by omega, h2⟩
    · rintro ⟨h1, h2⟩
      by_cases h : e.length = size
      · exact Or.inl ⟨h, h2⟩
      · exact Or.inr ⟨by omega, h2⟩

theorem nodup_cliqueEdges (nStar nClique : Nat) : ∀ (cnt size : Nat), (cliqueEdges nStar nClique size cnt).Nodup := by
  intro cnt
  induction cnt with
  | zero => intro size; simp [cliqueEdges]
  | succ cnt ih =>
    intro size
    simp only [cliqueEdges]
    rw [List.nodup_append]
    refine ⟨nodup_combsAux _ _ _, ih _, ?_⟩
    intro a ha b hb hab
    subst hab
    rw [mem_combsAux] at ha
    rw [mem_cliqueEdges] at hb
    omega

theorem nodup_starClique (nStar nClique dMax : Nat) (hs : 1 ≤ nStar) : (starClique nStar nClique dMax).Nodup := by
  unfold starClique
  rw [List.nodup_append]
  refine ⟨?_, nodup_cliqueEdges _ _ _ _, ?_⟩
  · rw [List.nodup_append]
    refine ⟨?_, by simp, ?_⟩
    · exact List.Nodup.map_on (fun x _ y _ h => by simpa using h) List.nodup_range
    · intro a ha b hb hab
      subst hab
      rw [List.mem_map] at ha
      obtain ⟨i, hi, rfl⟩ := ha
      rw [List.mem_range] at hi
      simp at hb
      omega
  · intro a ha b hb hab
    subst hab
    rw [mem_cliqueEdges] at hb
    have h0 : 0 ∈ a := by
      rw [List.mem_append, List.mem_map] at ha
      rcases ha with ⟨i, -, rfl⟩ | ha
      · simp
      · simp at ha; subst ha; simp
    have := hb.2.2 0 h0
    omega

/-! ### configuration model: edges are m-subsets of the keys -/

theorem foldl_eraseIdx_sublist : ∀ (ds s : List Nat), (ds.foldl (fun s i => s.eraseIdx i) s).Sublist s := by
  intro ds
  induction ds with
  | nil => intro s; simp
  | cons i rest ih => intro s; exact (ih _).trans (List.eraseIdx_sublist _ _)

theorem cfgLoop_edges (m : Nat) : ∀ (choices : List (List Nat)) (stubs : List Nat) (es : List (List Nat)),
    cfgLoop m stubs choices = some es → ∀ e ∈ es, e.length = m ∧ e.Nodup ∧ ∀ x ∈ e, x ∈ stubs := by
  intro choices
  induction choices with
  | nil =>
    intro stubs es h
    simp only [cfgLoop] at h
    split at h
    · simp at h; subst h; simp
    · simp at h
  | cons u us ih =>
    intro stubs es h
    simp only [cfgLoop] at h
    split at h
    · simp at h
    · split at h
      · rename_i hv
        split at h
        · simp at h
        · rename_i es' hrec
          have hrec' := ih _ _ hrec
          have hsub : ∀ x ∈ delStubs stubs u, x ∈ stubs := fun x hx => (foldl_eraseIdx_sublist _ _).subset hx
          simp only [validChoice, Bool.and_eq_true, decide_eq_true_eq, List.all_eq_true] at hv
          simp at h
          subst h
          intro e he
          have tailCase : e ∈ es' → e.length = m ∧ e.Nodup ∧ ∀ x ∈ e, x ∈ stubs := by
            intro he'
            obtain ⟨a, b, c⟩ := hrec' e he'
            exact ⟨a, b, fun x hx => hsub x (c x hx)⟩
          split at he
          · rename_i hlen
            rw [List.mem_cons] at he
            rcases he with rfl | he
            · refine ⟨by simpa using hlen, nodup_dedup _, ?_⟩
              intro x hx
              rw [mem_dedup, List.mem_map] at hx
              obtain ⟨i, hi, rfl⟩ := hx
              have hil : i < stubs.length := by simpa using hv.1.2 i hi
              simp [hil]
            · exact tailCase he
          · exact tailCase he
      · simp at h

theorem mem_stubsOf (v : Nat) (k : List (Nat × Nat)) (h : v ∈ stubsOf k) : v ∈ k.map (·.1) := by
  by_contra hn
  exact not_mem_stubsOf v k hn h

theorem bumpDeg_keys (k : List (Nat × Nat)) (bump : List Nat) : (bumpDeg k bump).map (·.1) = k.map (·.1) := by
  unfold bumpDeg
  rw [List.map_map]
  apply List.map_congr_left
  intro p _
  simp only [Function.comp]
  split <;> rfl

theorem mem_bumpDeg (k : List (Nat × Nat)) (bump : List Nat) (v d : Nat) (h : (v, d) ∈ k) :
    (v, d + (if v ∈ bump then 1 else 0)) ∈ bumpDeg k bump := by
  unfold bumpDeg
  rw [List.mem_map]
  refine ⟨(v, d), h, ?_⟩
  split <;> simp_all

end Xgi.C16
