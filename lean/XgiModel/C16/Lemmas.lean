/-
  C16 — helper lemmas for the decoders and reference enumerations (Mathlib allowed here).
-/
import XgiModel.C16.Gen
import Mathlib.Data.Nat.Choose.Basic
import Mathlib.Tactic.Ring
import Mathlib.Data.List.Nodup
import Mathlib.Data.List.Forall2

namespace Xgi.C16

theorem choose_eq (n k : Nat) : choose n k = Nat.choose n k := by
  induction n generalizing k with
  | zero => cases k <;> simp [choose]
  | succ n ih => cases k with
    | zero => simp [choose]
    | succ k => simp [choose, ih, Nat.choose_succ_succ]

theorem combsAux_zero (d lo : Nat) : combsAux d lo 0 = [[]] := by
  cases d <;> simp [combsAux]

theorem length_combsAux (d lo m : Nat) : (combsAux d lo m).length = choose d m := by
  induction d generalizing lo m with
  | zero => cases m <;> simp [combsAux, choose]
  | succ d ih => cases m with
    | zero => simp [combsAux, choose]
    | succ m => simp [combsAux, choose, ih]

theorem combInner_spec (n k : Nat) : ∀ (d cs r fuel : Nat), n = cs + d → 1 ≤ r → r ≤ choose d (k + 1) → d ≤ fuel →
    ∃ cs' r' d', combInner n k fuel cs r = some (cs', r') ∧ n = cs' + 1 + d' ∧ 1 ≤ r' ∧ r' ≤ choose d' k ∧
      ∀ x, (combsAux d' (cs' + 1) k)[r' - 1]? = some x → (combsAux d cs (k + 1))[r - 1]? = some (cs' :: x) := by
  intro d
  induction d with
  | zero => intro cs r fuel _ h1 h2 _; simp [choose] at h2; omega
  | succ d ih =>
    intro cs r fuel hn h1 h2 hf
    obtain ⟨f, rfl⟩ : ∃ f, fuel = f + 1 := ⟨fuel - 1, by omega⟩
    have hd : n - 1 - cs = d := by omega
    have hp : choose (d + 1) (k + 1) = choose d k + choose d (k + 1) := by simp [choose]
    unfold combInner
    rw [hd]
    by_cases h : r > choose d k
    · rw [if_pos h]
      obtain ⟨cs', r', d', e1, e2, e3, e4, e5⟩ := ih (cs + 1) (r - choose d k) f (by omega) (by omega) (by omega) (by omega)
      refine ⟨cs', r', d', e1, e2, e3, e4, ?_⟩
      intro x hx
      have := e5 x hx
      simp only [combsAux]
      rw [List.getElem?_append_right (by simp [length_combsAux]; omega)]
      simp only [List.length_map, length_combsAux]
      rw [show r - 1 - choose d k = r - choose d k - 1 by omega]
      exact this
    · rw [if_neg h]
      refine ⟨cs, r, d, rfl, by omega, h1, by omega, ?_⟩
      intro x hx
      simp only [combsAux]
      rw [List.getElem?_append_left (by simp [length_combsAux]; omega)]
      rw [List.getElem?_map, hx]; rfl

theorem combOuter_spec (n : Nat) : ∀ (k d lo r : Nat), n = lo + d → 1 ≤ r → r ≤ choose d k →
    ∃ l, combOuter n k lo r = some l ∧ (combsAux d lo k)[r - 1]? = some l := by
  intro k
  induction k with
  | zero =>
    intro d lo r _ h1 h2
    simp [choose] at h2
    have : r = 1 := by omega
    subst this
    exact ⟨[], by simp [combOuter], by simp [combsAux_zero]⟩
  | succ k ih =>
    intro d lo r hn h1 h2
    obtain ⟨cs', r', d', e1, e2, e3, e4, e5⟩ := combInner_spec n k d lo r (n + 1) hn h1 h2 (by omega)
    obtain ⟨l, hl1, hl2⟩ := ih d' (cs' + 1) r' e2 e3 e4
    refine ⟨cs' :: l, ?_, e5 l hl2⟩
    simp [combOuter, e1, hl1]

/-- decoding index `i < comb(n, m)` gives the `i`-th combination -/
theorem indexToEdgeComb_getElem? (n m i : Nat) (h : i < choose n m) :
    ∃ l, indexToEdgeComb n m i = some l ∧ (combinations n m)[i]? = some l := by
  obtain ⟨l, h1, h2⟩ := combOuter_spec n m n 0 (i + 1) (by omega) (by omega) (by omega)
  exact ⟨l, h1, by simpa [combinations] using h2⟩

/-! ### the reference enumeration `combinations` -/

theorem mem_combsAux (d : Nat) : ∀ (lo m : Nat) (l : List Nat),
    l ∈ combsAux d lo m ↔ l.length = m ∧ l.Pairwise (· < ·) ∧ ∀ x ∈ l, lo ≤ x ∧ x < lo + d := by
  induction d with
  | zero =>
    intro lo m l
    cases m with
    | zero => simp [combsAux]; intro h; subst h; simp
    | succ m =>
      simp only [combsAux, List.not_mem_nil, false_iff]
      rintro ⟨h1, -, h3⟩
      cases l with
      | nil => simp at h1
      | cons a t => have := h3 a (by simp); omega
  | succ d ih =>
    intro lo m l
    cases m with
    | zero => simp [combsAux]; intro h; subst h; simp
    | succ m =>
      simp only [combsAux, List.mem_append, List.mem_map, ih]
      constructor
      · rintro (⟨t, ⟨h1, h2, h3⟩, rfl⟩ | ⟨h1, h2, h3⟩)
        · refine ⟨by simp [h1], ?_, ?_⟩
          · rw [List.pairwise_cons]; exact ⟨fun x hx => by have := h3 x hx; omega, h2⟩
          · intro x hx; rw [List.mem_cons] at hx
            rcases hx with rfl | hx
            · omega
            · have := h3 x hx; omega
        · exact ⟨h1, h2, fun x hx => by have := h3 x hx; omega⟩
      · rintro ⟨h1, h2, h3⟩
        cases l with
        | nil => simp at h1
        | cons a t =>
          rw [List.pairwise_cons] at h2
          have ha := h3 a (by simp)
          by_cases hal : a = lo
          · subst hal
            left
            refine ⟨t, ⟨by simpa using h1, h2.2, ?_⟩, rfl⟩
            intro x hx
            have := h2.1 x hx; have := h3 x (by simp [hx]); omega
          · right
            refine ⟨h1, by rw [List.pairwise_cons]; exact h2, ?_⟩
            intro x hx; rw [List.mem_cons] at hx
            rcases hx with rfl | hx
            · omega
            · have := h2.1 x hx; have := h3 x (by simp [hx]); omega

theorem nodup_combsAux (d : Nat) : ∀ (lo m : Nat), (combsAux d lo m).Nodup := by
  induction d with
  | zero => intro lo m; cases m <;> simp [combsAux]
  | succ d ih =>
    intro lo m
    cases m with
    | zero => simp [combsAux]
    | succ m =>
      simp only [combsAux]
      rw [List.nodup_append]
      refine ⟨?_, ih _ _, ?_⟩
      · exact List.Nodup.map (fun a b h => by simpa using h) (ih _ _)
      · intro a ha b hb hab
        subst hab
        rw [List.mem_map] at ha
        obtain ⟨t, -, rfl⟩ := ha
        rw [mem_combsAux] at hb
        have := hb.2.2 lo (by simp)
        omega

/-! ### mixed-radix decoders -/

theorem range_mul_flatMap (a N : Nat) :
    List.range (a * N) = (List.range a).flatMap (fun q => (List.range N).map (fun j => q * N + j)) := by
  induction a with
  | zero => simp
  | succ a ih =>
    rw [Nat.succ_mul, List.range_add, ih, List.range_succ, List.flatMap_append]
    simp

theorem flatMap_congr' {α β} {l : List α} {f g : α → List β} (h : ∀ a ∈ l, f a = g a) :
    l.flatMap f = l.flatMap g := by
  induction l with
  | nil => rfl
  | cons a t ih =>
    simp only [List.flatMap_cons]
    rw [h a (by simp), ih (fun b hb => h b (by simp [hb]))]

theorem part_shift (rest : List Nat) : ∀ (q j : Nat),
    indexToEdgePartition rest (q * prodL rest + j) = indexToEdgePartition rest j := by
  induction rest with
  | nil => intro q j; rfl
  | cons t r ih =>
    intro q j
    simp only [indexToEdgePartition, prodL]
    congr 1
    · rcases Nat.eq_zero_or_pos (prodL r) with h0 | hpos
      · simp [h0]
      · rw [show q * (t * prodL r) + j = j + (q * t) * prodL r by ring, Nat.add_mul_div_right _ _ hpos]
        simp
    · rw [show q * (t * prodL r) + j = (q * t) * prodL r + j by ring]
      exact ih (q * t) j

theorem part_decode (sizes : List Nat) :
    (List.range (prodL sizes)).map (indexToEdgePartition sizes) = blockProduct sizes := by
  induction sizes with
  | nil => simp [prodL, indexToEdgePartition, blockProduct]
  | cons s rest ih =>
    simp only [prodL, blockProduct]
    rw [range_mul_flatMap, List.map_flatMap]
    apply flatMap_congr'
    intro q hq
    rw [← ih, List.map_map, List.map_map]
    apply List.map_congr_left
    intro j hj
    simp only [Function.comp, indexToEdgePartition]
    rw [List.mem_range] at hq hj
    rw [part_shift]
    congr 1
    rw [show q * prodL rest + j = j + q * prodL rest by ring, Nat.add_mul_div_right _ _ (by omega),
      Nat.div_eq_of_lt hj, Nat.zero_add, Nat.mod_eq_of_lt hq]

theorem prodL_replicate (m n : Nat) : prodL (List.replicate m n) = n ^ m := by
  induction m with
  | zero => rfl
  | succ m ih => simp [List.replicate_succ, prodL, ih, Nat.pow_succ, Nat.mul_comm]

theorem prod_eq_part (n m i : Nat) : indexToEdgeProd n m i = indexToEdgePartition (List.replicate m n) i := by
  induction m with
  | zero => rfl
  | succ m ih => simp [List.replicate_succ, indexToEdgeProd, indexToEdgePartition, prodL_replicate, ih]

theorem product_eq_block (n m : Nat) : product n m = blockProduct (List.replicate m n) := by
  induction m with
  | zero => rfl
  | succ m ih => simp [List.replicate_succ, product, blockProduct, ih]

theorem mem_blockProduct (sizes : List Nat) : ∀ l : List Nat,
    l ∈ blockProduct sizes ↔ List.Forall₂ (· < ·) l sizes := by
  induction sizes with
  | nil => intro l; simp [blockProduct]
  | cons s rest ih =>
    intro l
    simp only [blockProduct, List.mem_flatMap, List.mem_range, List.mem_map, ih]
    constructor
    · rintro ⟨a, ha, t, ht, rfl⟩; exact List.Forall₂.cons ha ht
    · intro h
      cases h with
      | cons ha ht => exact ⟨_, ha, _, ht, rfl⟩

theorem length_blockProduct (sizes : List Nat) : (blockProduct sizes).length = prodL sizes := by
  rw [← part_decode]; simp

theorem nodup_blockProduct (sizes : List Nat) : (blockProduct sizes).Nodup := by
  induction sizes with
  | nil => simp [blockProduct]
  | cons s rest ih =>
    simp only [blockProduct]
    rw [List.nodup_flatMap]
    refine ⟨fun a _ => List.Nodup.map (fun x y h => by simpa using h) ih, ?_⟩
    have : (List.range s).Pairwise (· ≠ ·) := List.nodup_range
    refine this.imp ?_
    intro a b hab x hx1 hx2
    rw [List.mem_map] at hx1 hx2
    obtain ⟨t1, -, rfl⟩ := hx1
    obtain ⟨t2, -, h⟩ := hx2
    simp at h
    exact hab h.1.symm

end Xgi.C16
