/-
  C16 helper lemmas for the Watts–Strogatz model (XgiModel/C16/GenRand.lean).
-/
import XgiModel.C16.GenRand
import XgiModel.C16.LemmasSC

namespace Xgi.C16

theorem foldl_min_mem (l : List Nat) (a : Nat) : l.foldl min a = a ∨ l.foldl min a ∈ l := by
  induction l generalizing a with
  | nil => simp
  | cons b l ih =>
    simp only [List.foldl_cons, List.mem_cons]
    rcases ih (min a b) with h | h
    · rw [h]
      rcases Nat.le_total a b with hab | hab
      · left; exact Nat.min_eq_left hab
      · right; left; exact Nat.min_eq_right hab
    · right; right; exact h

theorem foldl_min_le (l : List Nat) (a : Nat) : l.foldl min a ≤ a ∧ ∀ x ∈ l, l.foldl min a ≤ x := by
  induction l generalizing a with
  | nil => simp
  | cons b l ih =>
    simp only [List.foldl_cons, List.mem_cons]
    obtain ⟨h1, h2⟩ := ih (min a b)
    refine ⟨Nat.le_trans h1 (Nat.min_le_left a b), ?_⟩
    rintro x (rfl | hx)
    · exact Nat.le_trans h1 (Nat.min_le_right a x)
    · exact h2 x hx

/-- `minL` returns a member … -/
theorem minL_mem (e : List Nat) (h : e ≠ []) : minL e ∈ e := by
  cases e with
  | nil => exact absurd rfl h
  | cons a l =>
    simp only [minL, List.mem_cons]
    exact foldl_min_mem l a

/-- … which is a lower bound: it is `min(e)` -/
theorem minL_le (e : List Nat) (x : Nat) (hx : x ∈ e) : minL e ≤ x := by
  cases e with
  | nil => cases hx
  | cons a l =>
    simp only [minL]
    rcases List.mem_cons.mp hx with rfl | hx
    · exact (foldl_min_le l x).1
    · exact (foldl_min_le l a).2 x hx

theorem wsAdmissible_spec (n d node : Nat) (u : List Nat) (h : wsAdmissible n d node u = true) :
    u.length = d - 1 ∧ (∀ x ∈ u, x < n ∧ x ≠ node) ∧ u.Nodup := by
  unfold wsAdmissible at h
  simp only [Bool.and_eq_true, beq_iff_eq, List.all_eq_true, decide_eq_true_eq] at h
  exact ⟨h.1.1, h.1.2, h.2⟩

/-- what a rewired edge looks like -/
def Rewired (n d : Nat) (e a : List Nat) : Prop :=
  ∃ u, wsAdmissible n d (minL e) u = true ∧ a = u ++ [minL e]

/-- the lattice edges whose coin did not fire / fired, in order -/
def keptOf (L : List (List Nat)) (coins : List Bool) : List (List Nat) :=
  ((L.zip coins).filter (fun p => !p.2)).map (·.1)
def firedOf (L : List (List Nat)) (coins : List Bool) : List (List Nat) :=
  ((L.zip coins).filter (fun p => p.2)).map (·.1)

theorem wsLoop_spec (n d : Nat) : ∀ (L : List (List Nat)) (coins : List Bool) (chs : List (List Nat))
    (kept added : List (List Nat)), wsLoop n d L coins chs = .ok (kept, added) →
    coins.length = L.length ∧ kept = keptOf L coins ∧ List.Forall₂ (Rewired n d) (firedOf L coins) added ∧
    chs.length = added.length ∧ ((∃ c ∈ coins, c = true) → d ≤ n) := by
  intro L
  induction L with
  | nil =>
    intro coins chs kept added h
    cases coins <;> cases chs <;> simp [wsLoop] at h
    obtain ⟨rfl, rfl⟩ := h
    simp [keptOf, firedOf]
  | cons e es ih =>
    intro coins chs kept added h
    cases coins with
    | nil => simp [wsLoop] at h
    | cons c cs =>
      cases c with
      | false =>
        simp only [wsLoop] at h
        split at h
        · rename_i kept' added' hrec
          simp only [Res.ok.injEq, Prod.mk.injEq] at h
          obtain ⟨rfl, rfl⟩ := h
          obtain ⟨h1, h2, h3, h4, h5⟩ := ih cs chs kept' added' hrec
          refine ⟨by simp [h1], ?_, ?_, h4, ?_⟩
          · simp [keptOf, h2]
          · simpa [firedOf] using h3
          · rintro ⟨c, hc, rfl⟩
            simp only [List.mem_cons, Bool.true_eq_false, false_or] at hc
            exact h5 ⟨true, hc, rfl⟩
        · simp at h
        · simp at h
      | true =>
        simp only [wsLoop] at h
        split at h
        · simp at h
        · rename_i hnd
          cases chs with
          | nil => simp at h
          | cons u us =>
            simp only at h
            split at h
            · rename_i hadm
              split at h
              · rename_i kept' added' hrec
                simp only [Res.ok.injEq, Prod.mk.injEq] at h
                obtain ⟨rfl, rfl⟩ := h
                obtain ⟨h1, h2, h3, h4, h5⟩ := ih cs us kept' added' hrec
                refine ⟨by simp [h1], ?_, ?_, by simp [h4], fun _ => by omega⟩
                · simp [keptOf, h2]
                · simp only [firedOf, List.zip_cons_cons, List.filter_cons_of_pos, List.map_cons]
                  exact List.Forall₂.cons ⟨u, hadm, rfl⟩ (by simpa [firedOf] using h3)
              · simp at h
              · simp at h
            · simp at h

/-- the only exception of the loop is the `ValueError` of `np.random.choice` when fewer than `d - 1` other nodes exist -/
theorem wsLoop_err (n d : Nat) : ∀ (L : List (List Nat)) (coins : List Bool) (chs : List (List Nat)) (x : Err),
    wsLoop n d L coins chs = .err x → x = .value ∧ n < d ∧ ∃ c ∈ coins, c = true := by
  intro L
  induction L with
  | nil => intro coins chs x h; cases coins <;> cases chs <;> simp [wsLoop] at h
  | cons e es ih =>
    intro coins chs x h
    cases coins with
    | nil => simp [wsLoop] at h
    | cons c cs =>
      cases c with
      | false =>
        simp only [wsLoop] at h
        split at h
        · simp at h
        · rename_i y hrec
          simp only [Res.err.injEq] at h
          subst h
          obtain ⟨a, b, c, hc, rfl⟩ := ih cs chs y hrec
          exact ⟨a, b, true, by simp [hc], rfl⟩
        · simp at h
      | true =>
        simp only [wsLoop] at h
        split at h
        · rename_i hnd
          simp only [Res.err.injEq] at h
          exact ⟨h.symm, hnd, true, by simp, rfl⟩
        · cases chs with
          | nil => simp at h
          | cons u us =>
            simp only at h
            split at h
            · split at h
              · simp at h
              · rename_i y hrec
                simp only [Res.err.injEq] at h
                subst h
                obtain ⟨a, b, c, hc, rfl⟩ := ih cs us y hrec
                exact ⟨a, b, true, by simp, rfl⟩
              · simp at h
            · simp at h

/-- a rewired edge has exactly `d` distinct members, contains the smallest node of the edge it replaces, and all its
    members are nodes (when that smallest node is one) -/
theorem rewired_spec (n d : Nat) (e a : List Nat) (hd : 1 ≤ d) (h : Rewired n d e a) :
    a.length = d ∧ a.Nodup ∧ minL e ∈ a ∧ (minL e < n → ∀ x ∈ a, x < n) := by
  obtain ⟨u, hadm, rfl⟩ := h
  obtain ⟨h1, h2, h3⟩ := wsAdmissible_spec n d _ u hadm
  refine ⟨by simp [h1]; omega, ?_, by simp, ?_⟩
  · rw [List.nodup_append]
    refine ⟨h3, by simp, ?_⟩
    intro x hx y hy
    simp only [List.mem_singleton] at hy
    subst hy
    exact (h2 x hx).2
  · intro hm x hx
    simp only [List.mem_append, List.mem_singleton] at hx
    rcases hx with hx | rfl
    · exact (h2 x hx).1
    · exact hm

theorem keptOf_sublist (L : List (List Nat)) (coins : List Bool) : (keptOf L coins).Sublist L := by
  induction L generalizing coins with
  | nil => simp [keptOf]
  | cons e es ih =>
    cases coins with
    | nil => simp [keptOf]
    | cons c cs =>
      cases c
      · simpa [keptOf] using ih cs
      · simpa [keptOf] using (ih cs).cons e

theorem firedOf_sublist (L : List (List Nat)) (coins : List Bool) : (firedOf L coins).Sublist L := by
  induction L generalizing coins with
  | nil => simp [firedOf]
  | cons e es ih =>
    cases coins with
    | nil => simp [firedOf]
    | cons c cs =>
      cases c
      · simpa [firedOf] using (ih cs).cons e
      · simpa [firedOf] using ih cs

theorem length_kept_fired (L : List (List Nat)) (coins : List Bool) (h : coins.length = L.length) :
    (keptOf L coins).length + (firedOf L coins).length = L.length := by
  induction L generalizing coins with
  | nil => simp [keptOf, firedOf]
  | cons e es ih =>
    cases coins with
    | nil => simp at h
    | cons c cs =>
      have := ih cs (by simpa using h)
      cases c <;> simp [keptOf, firedOf] at this ⊢ <;> omega

theorem keptOf_all_false (L : List (List Nat)) (coins : List Bool) (h : coins.length = L.length)
    (hf : ∀ c ∈ coins, c = false) : keptOf L coins = L ∧ firedOf L coins = [] := by
  induction L generalizing coins with
  | nil => simp [keptOf, firedOf]
  | cons e es ih =>
    cases coins with
    | nil => simp at h
    | cons c cs =>
      have hc : c = false := hf c (by simp)
      subst hc
      obtain ⟨a, b⟩ := ih cs (by simpa using h) (fun c hc => hf c (by simp [hc]))
      simp [keptOf, firedOf] at a b ⊢
      exact ⟨a, b⟩

theorem keptOf_all_true (L : List (List Nat)) (coins : List Bool) (h : coins.length = L.length)
    (hf : ∀ c ∈ coins, c = true) : keptOf L coins = [] ∧ firedOf L coins = L := by
  induction L generalizing coins with
  | nil => simp [keptOf, firedOf]
  | cons e es ih =>
    cases coins with
    | nil => simp at h
    | cons c cs =>
      have hc : c = true := hf c (by simp)
      subst hc
      obtain ⟨a, b⟩ := ih cs (by simpa using h) (fun c hc => hf c (by simp [hc]))
      simp [keptOf, firedOf] at a b ⊢
      exact ⟨a, b⟩

/-- with all coins `False` and no choice the loop succeeds and keeps everything -/
theorem wsLoop_all_false (n d : Nat) (L : List (List Nat)) :
    wsLoop n d L (List.replicate L.length false) [] = .ok (L, []) := by
  induction L with
  | nil => simp [wsLoop]
  | cons e es ih => simp [List.replicate_succ, wsLoop, ih]

/-- members of a lattice edge are nodes, and the edge is not empty -/
theorem ringLattice_edge (n d k l : Nat) (e : List Nat) (he : e ∈ ringLattice n d k l) :
    e ≠ [] ∧ ∀ x ∈ e, x < n := by
  rw [mem_ringLattice] at he
  obtain ⟨node, hn, j, hj, rfl⟩ := he
  refine ⟨by simp, ?_⟩
  intro x hx
  rw [List.mem_cons, List.mem_map] at hx
  rcases hx with rfl | ⟨i, -, rfl⟩
  · exact hn
  · exact Nat.mod_lt _ (by omega)

theorem forall₂_right {α β} {R : α → β → Prop} {P : α → Prop} {Q : β → Prop} {l₁ : List α} {l₂ : List β}
    (h : List.Forall₂ R l₁ l₂) (hP : ∀ a ∈ l₁, P a) (hR : ∀ a b, P a → R a b → Q b) : ∀ b ∈ l₂, Q b := by
  induction h with
  | nil => simp
  | cons hab _ ih =>
    intro b hb
    rcases List.mem_cons.mp hb with rfl | hb
    · exact hR _ _ (hP _ (by simp)) hab
    · exact ih (fun a ha => hP a (by simp [ha])) b hb

end Xgi.C16
