/-
  C16, third part — the generated *network*: node list and edge list, the way each generator builds them.

  Every generator of xgi starts from an empty network and then
    * `H.add_nodes_from(labels)`       — labels not yet present are appended to the node dict in order,
    * `H.add_edge(e)` / `H.add_edges_from(es)` / `S.add_simplices_from(…)` / `H.add_node_to_edge(v, u)`
                                       — every member that is not yet a node becomes one,
  in a fixed order (`ring_lattice` builds `Hypergraph(edges)` first and adds `range(n)` afterwards, `sunflower` never
  adds nodes explicitly).  `build pre es post` is that construction; the per-generator functions below (`…Net`) are
  what the driver runs, so that "the node set is exactly the requested one" is a statement about the model and not
  about the driver (theorems `…_nodes` in Props/C16.lean).

  Also here: `_check_input_args` of `fast_random_hypergraph` / `random_hypergraph` (`inputRounds`): how the `ps` and
  `order` arguments (scalar or sequence) become the `(size, probability)` rounds.  No Mathlib.
-/
import XgiModel.C16.GenRand

namespace Xgi.C16

/-- a generated network as observed through `H.nodes` (view order) and `H.edges.members()` (id order) -/
structure GNet where
  nodes : List Nat
  edges : List (List Nat)
  deriving Repr, DecidableEq

/-- `H.add_nodes_from(ns)` on the node list -/
def addNodes (ns : List Nat) (nodes : List Nat) : List Nat := ns.foldl (fun acc x => ins x acc) nodes

/-- node side of adding the edges `es` one after the other: members that are not nodes yet become nodes -/
def addEdgesNodes (es : List (List Nat)) (nodes : List Nat) : List Nat := es.foldl (fun acc e => addNodes e acc) nodes

/-- empty network; `add_nodes_from(pre)`; the edges `es` in order; `add_nodes_from(post)` -/
def build (pre : List Nat) (es : List (List Nat)) (post : List Nat) : GNet :=
  { nodes := addNodes post (addEdgesNodes es (addNodes pre [])), edges := es }

def netOpt {α} (pre post : List Nat) : Option (List (List Nat) × α) → Option (GNet × α)
  | none => none
  | some (es, r) => some (build pre es post, r)

def netRes {α} (pre post : List Nat) : Res (List (List Nat) × α) → Res (GNet × α)
  | .ok (es, r) => .ok (build pre es post, r)
  | .err e => .err e
  | .stuck => .stuck

/-! ### `_check_input_args(ps, order)` followed by `zip(order, ps)` -/

/-- The rounds `(d + 1, p)` of `fast_random_hypergraph` / `random_hypergraph` for admissible argument shapes.
    `order = None` (`ps` a list / array): orders `1, 2, …, len(ps)`.  Otherwise `order` and `ps` are sequences of the
    same length (a different length is the `ValueError` of the check), or both scalars, which the code turns into
    `order = [order]; ps = [ps]` (the driver is handed these singleton lists). -/
def inputRounds (ps : List Prob) (order : Option (List Nat)) : Res (List (Nat × Prob)) :=
  match order with
  | none => .ok (List.zipWith (fun i p => (i + 2, p)) (List.range ps.length) ps)
  | some o => if o.length = ps.length then .ok (List.zipWith (fun d p => (d + 1, p)) o ps) else .err .value

/-! ### the generators as networks -/

/-- `fast_random_hypergraph(n, ps, order)` -/
def fastRandomNet (n : Nat) (ps : List Prob) (order : Option (List Nat)) (gaps : List Nat) : Res (GNet × List Nat) :=
  match inputRounds ps order with
  | .ok rounds => Res.ofOption (netOpt (List.range n) [] (fastRandom n rounds gaps))
  | .err e => .err e
  | .stuck => .stuck

/-- `random_hypergraph(n, ps, order)`; the probabilities enter through the coins only -/
def coinRandomNet (n : Nat) (ps : List Prob) (order : Option (List Nat)) (coins : List Bool) : Res (GNet × List Bool) :=
  match inputRounds ps order with
  | .ok rounds => Res.ofOption (netOpt (List.range n) [] (coinRandom n (rounds.map (·.1)) coins))
  | .err e => .err e
  | .stuck => .stuck

/-- `uniform_erdos_renyi_hypergraph(n, m, q, multiedges)` -/
def erdosRenyiNet (n m : Nat) (multi : Bool) (p : Prob) (gaps : List Nat) : Option (GNet × List Nat) :=
  netOpt (List.range n) [] (erdosRenyi n m multi p gaps)

/-- `uniform_erdos_renyi_hypergraph(n, m, k, p_type="degree", multiedges)` -/
def erdosRenyiDegNet (n m : Nat) (p : Rat) (multi : Bool) (gaps : List Nat) : Res (GNet × List Nat) :=
  netRes (List.range n) [] (erdosRenyiDeg n m p multi gaps)

/-- `uniform_HSBM(n, m, p, sizes)` with `n = sum(sizes)` -/
def hsbmNet (m : Nat) (sizes : List Nat) (ps : List Prob) (gaps : List Nat) : Option (GNet × List Nat) :=
  netOpt (List.range (sumL sizes)) [] (hsbm m sizes ps gaps)

/-- `uniform_HPPM(n, m, k, epsilon, rho)` -/
def hppmNet (n m : Nat) (k eps rho : Rat) (gaps : List Nat) : Res (GNet × List Nat) :=
  netRes (List.range n) [] (hppm n m k eps rho gaps)

/-- `complete_hypergraph(N, order=…)` -/
def completeOrderNet (n order : Nat) : GNet := build (List.range n) (completeOrder n order) []

/-- `complete_hypergraph(N, max_order=…, include_singletons=…)` -/
def completeMaxNet (n maxOrder : Nat) (singletons : Bool) : GNet := build (List.range n) (completeMax n maxOrder singletons) []

/-- `uniform_hypergraph_configuration_model(k, m)`: `H.add_nodes_from(k.keys())` -/
def configNet (k : List (Nat × Nat)) (m : Nat) (bump : List Nat) (choices : List (List Nat)) : Option GNet :=
  (configModel k m bump choices).map (fun es => build (k.map (·.1)) es [])

/-- `trivial_hypergraph(n)` / `empty_hypergraph()` -/
def trivialNet (n : Nat) : GNet := build (trivialNodes n) [] []

/-- `ring_lattice(n, d, k, l)`: `H = Hypergraph(edges); H.add_nodes_from(range(n))` -/
def ringLatticeNet (n d k l : Nat) : GNet := build [] (ringLattice n d k l) (List.range n)

/-- `sunflower(l, c, m)`: nodes only through the petals -/
def sunflowerNet (l c m : Nat) : GNet := build [] (sunflower l c m) []

/-- `star_clique(n_star, n_clique, d_max)`: `H.add_nodes_from(range(n_star + n_clique))` first -/
def starCliqueNet (nStar nClique dMax : Nat) : GNet := build (List.range (nStar + nClique)) (starClique nStar nClique dMax) []

/-- `flag_complex(G, max_order)` / `random_flag_complex(N, p, max_order)` on a graph with nodes `range n`;
    `max_order = None` (maximal cliques with at least two nodes, then all their faces) is `maxOrder = n` -/
def flagComplexNet (n : Nat) (adj : Nat → Nat → Bool) (maxOrder : Nat) : GNet := build (List.range n) (flagComplex n adj maxOrder) []

/-- `flag_complex(G, max_order, ps)` / `flag_complex_d2(G, p2)` -/
def flagPromotedNet (n : Nat) (adj : Nat → Nat → Bool) (maxOrder : Nat) (picked : List (List Nat)) : Option GNet :=
  (flagPromoted n adj maxOrder picked).map (fun K => build (List.range n) K [])

/-- `random_simplicial_complex(N, ps)` -/
def randomSCNet (n : Nat) (sizes : List Nat) (coins : List Bool) : Option (GNet × List Bool) :=
  netOpt (List.range n) [] (randomSC n sizes coins)

/-- `watts_strogatz_hypergraph(n, d, k, l, p)`: the ring lattice, `remove_edges_from` (nodes stay), `add_edges_from` -/
def wattsStrogatzNet (n d k l : Nat) (coins : List Bool) (choices : List (List Nat)) : Res GNet :=
  match wattsStrogatz n d k l coins choices with
  | .ok es => .ok { nodes := addEdgesNodes es (ringLatticeNet n d k l).nodes, edges := es }
  | .err e => .err e
  | .stuck => .stuck

/-- node list of `chung_lu_hypergraph` / `dcsbm_hypergraph`: `H.add_nodes_from(node_labels)` (the keys of `k1` sorted by
    decreasing degree), then every `H.add_node_to_edge(v, u)` makes `u` a node if it is not one yet -/
def bipNodes (k1 : List (Nat × Nat)) (pairs : List (Nat × Nat)) : List Nat :=
  addNodes (pairs.map (·.2)) (addNodes ((sortByDeg k1).map (·.1)) [])

end Xgi.C16
