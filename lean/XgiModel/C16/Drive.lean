/-
  C16 driver: JSON request → model call (XgiModel/C16/Gen.lean) → JSON.
  Responses: {"nodes":[…], "edges":[{"$set":[…]},…], "rest":k}  (k = number of unconsumed oracle items); node list and
  edge list both come from the model's network (`GNet`, XgiModel/C16/Net.lean) — the driver adds nothing of its own,
  decoders: {"c":[…]} / {"all":[…],"ref":[…]}.  Inputs outside the model: {"out":"unmodelled"}.
  Generators of GenRand.lean: an exception of the Python code is answered {"out":"err:<Class>"}; chung_lu / dcsbm answer
  {"nodes":[…in view order], "edges":[[id, {"$set": members}],… in creation order], "pairs":[[v,u],…], "rest":k};
  rationals travel as [numerator, denominator] (requests) and "p/q" strings (responses).
-/
import XgiModel.Proto
import XgiModel.C16.Net
open Lean Xgi.Proto

namespace Xgi.C16.Drive

def unmodelled : Json := Json.mkObj [("out", Json.str "unmodelled")]

def natOfJson? : Json → Option Nat
  | .num n => if n.exponent = 0 ∧ n.mantissa ≥ 0 then some n.mantissa.toNat else none
  | _ => none
def natsOfJson? : Json → Option (List Nat)
  | .arr a => a.toList.mapM natOfJson?
  | _ => none
def getNats? (j : Json) (k : String) : Option (List Nat) := (getField? j k).bind natsOfJson?
def getNatss? (j : Json) (k : String) : Option (List (List Nat)) :=
  match getField? j k with
  | some (.arr a) => a.toList.mapM natsOfJson?
  | _ => none
def getBools? (j : Json) (k : String) : Option (List Bool) :=
  match getField? j k with
  | some (.arr a) => a.toList.mapM (fun x => match x with | .bool b => some b | _ => none)
  | _ => none

def probOfNat? : Nat → Option Prob
  | 0 => some .zero | 1 => some .one | 2 => some .mid | _ => none

def natsJ (l : List Nat) : Json := Json.arr (l.map natJson).toArray
def natssJ (l : List (List Nat)) : Json := Json.arr (l.map natsJ).toArray
def setJ (l : List Nat) : Json := Json.mkObj [("$set", natsJ (dedup l))]
def optJ : Option (List Nat) → Json
  | some l => natsJ l
  | none => Json.str "nonterminating"

def netJ (nodes : List Nat) (edges : List (List Nat)) (rest : Nat) : Json :=
  Json.mkObj [("nodes", natsJ nodes), ("edges", Json.arr (edges.map setJ).toArray), ("rest", natJson rest)]

def gnetJ (net : GNet) (rest : Nat) : Json := netJ net.nodes net.edges rest

def answer {α} : Option (GNet × List α) → Json
  | none => unmodelled
  | some (net, rest) => gnetJ net rest.length

/-- `order` argument: absent / null = `None`, else a list of naturals -/
def getOrder? (j : Json) : Option (Option (List Nat)) :=
  match getField? j "order" with
  | none => some none
  | some .null => some none
  | some x => (natsOfJson? x).map some

def ratJ (q : Rat) : Json := Json.str (toString q.num ++ "/" ++ toString q.den)
def errJ : Err → Json
  | .value => Json.mkObj [("out", Json.str "err:ValueError")]
  | .index => Json.mkObj [("out", Json.str "err:IndexError")]
  | .zeroDiv => Json.mkObj [("out", Json.str "err:ZeroDivisionError")]
  | .xgi => Json.mkObj [("out", Json.str "err:XGIError")]
def resJ {α} (f : α → Json) : Res α → Json
  | .ok a => f a
  | .err e => errJ e
  | .stuck => unmodelled

def intOfJson? : Json → Option Int
  | .num n => if n.exponent = 0 then some n.mantissa else none
  | _ => none
/-- an exact rational sent as `[numerator, denominator]` -/
def ratOfJson? : Json → Option Rat
  | .arr a => match a.toList with
    | [x, y] => do
      let p ← intOfJson? x; let q ← natOfJson? y
      if q = 0 then none else some ((p : Rat) / ((q : Nat) : Rat))
    | _ => none
  | _ => none
def getRat? (j : Json) (k : String) : Option Rat := (getField? j k).bind ratOfJson?
def getRats? (j : Json) (k : String) : Option (List Rat) :=
  match getField? j k with
  | some (.arr a) => a.toList.mapM ratOfJson?
  | _ => none
def getPairs? (j : Json) (k : String) : Option (List (Nat × Nat)) := do
  let kk ← getNatss? j k
  kk.mapM (fun p => match p with | [i, d] => some (i, d) | _ => none)

/-- `dict[key]` for a key that is present (the driver checks presence before calling the model) -/
def lookupD (l : List (Nat × Nat)) (i : Nat) : Nat := ((l.find? (fun p => p.1 == i)).map (·.2)).getD 0

/-- the bipartite answer of chung_lu / dcsbm: node list, edge dict (id, member set), the incidence trace -/
def bipJ (k1 : List (Nat × Nat)) : List (Nat × Nat) × List Nat × List Rat → Json
  | (pairs, g, r) => Json.mkObj [("nodes", natsJ (bipNodes k1 pairs)),
      ("edges", Json.arr ((buildEdges pairs).map (fun e => Json.arr #[natJson e.1, setJ e.2])).toArray),
      ("pairs", Json.arr (pairs.map (fun p => natsJ [p.1, p.2])).toArray),
      ("rest", natJson (g.length + r.length))]

def adjOf (edges : List (List Nat)) : Nat → Nat → Bool :=
  fun a b => edges.any (fun e => e == [a, b] || e == [b, a])

def handleReq (j : Json) : Option Json := do
  let f ← getStr? j "f"
  match f with
  | "index_to_edge_comb" =>
    let n ← getNat? j "n"; let m ← getNat? j "m"; let i ← getNat? j "index"
    pure (match indexToEdgeComb n m i with
      | some c => Json.mkObj [("c", natsJ c)]
      | none => unmodelled)
  | "index_to_edge_prod" =>
    let n ← getNat? j "n"; let m ← getNat? j "m"; let i ← getNat? j "index"
    pure (Json.mkObj [("c", natsJ (indexToEdgeProd n m i))])
  | "index_to_edge_partition" =>
    let sizes ← getNats? j "sizes"; let i ← getNat? j "index"
    pure (Json.mkObj [("c", natsJ (indexToEdgePartition sizes i))])
  | "decode_comb_all" =>
    let n ← getNat? j "n"; let m ← getNat? j "m"
    pure (Json.mkObj [("all", Json.arr ((List.range (choose n m)).map (fun i => optJ (indexToEdgeComb n m i))).toArray),
                      ("ref", natssJ (combinations n m)), ("count", natJson (choose n m))])
  | "decode_prod_all" =>
    let n ← getNat? j "n"; let m ← getNat? j "m"
    pure (Json.mkObj [("all", natssJ ((List.range (n ^ m)).map (indexToEdgeProd n m))),
                      ("ref", natssJ (product n m)), ("count", natJson (n ^ m))])
  | "decode_partition_all" =>
    let sizes ← getNats? j "sizes"
    pure (Json.mkObj [("all", natssJ ((List.range (prodL sizes)).map (indexToEdgePartition sizes))),
                      ("ref", natssJ (blockProduct sizes)), ("count", natJson (prodL sizes))])
  | "skip_sample" =>
    let count ← getNat? j "count"; let gaps ← getNats? j "gaps"
    pure (match skipSample count gaps with
      | none => unmodelled
      | some (is, rest) => Json.mkObj [("indices", natsJ is), ("rest", natJson rest.length)])
  | "fast_random_hypergraph" =>
    let n ← getNat? j "n"; let pks ← getNats? j "pks"; let order ← getOrder? j; let gaps ← getNats? j "gaps"
    let ps ← pks.mapM probOfNat?
    pure (resJ (fun r => gnetJ r.1 r.2.length) (fastRandomNet n ps order gaps))
  | "random_hypergraph" =>
    let n ← getNat? j "n"; let pks ← getNats? j "pks"; let order ← getOrder? j; let coins ← getBools? j "coins"
    let ps ← pks.mapM probOfNat?
    pure (resJ (fun r => gnetJ r.1 r.2.length) (coinRandomNet n ps order coins))
  | "uniform_erdos_renyi_hypergraph" =>
    let n ← getNat? j "n"; let m ← getNat? j "m"; let multi ← getBool? j "multi"
    let p ← (← getNat? j "pk") |> probOfNat?
    let gaps ← getNats? j "gaps"
    if m = 0 then pure unmodelled else
    pure (answer (erdosRenyiNet n m multi p gaps))
  | "uniform_HSBM" =>
    let m ← getNat? j "m"; let sizes ← getNats? j "sizes"; let pks ← getNats? j "pks"
    let ps ← pks.mapM probOfNat?
    let gaps ← getNats? j "gaps"
    if ps.length ≠ sizes.length ^ m then pure unmodelled else
    pure (answer (hsbmNet m sizes ps gaps))
  | "complete_hypergraph" =>
    let n ← getNat? j "n"
    match getNat? j "order", getNat? j "max_order" with
    | some o, none => pure (gnetJ (completeOrderNet n o) 0)
    | none, some mo =>
      let s ← getBool? j "singletons"
      pure (gnetJ (completeMaxNet n mo s) 0)
    | _, _ => none
  | "uniform_hypergraph_configuration_model" =>
    let kk ← getNatss? j "k"; let m ← getNat? j "m"; let bump ← getNats? j "bump"; let choices ← getNatss? j "choices"
    let k ← kk.mapM (fun p => match p with | [i, d] => some (i, d) | _ => none)
    if ¬ (k.map (·.1)).Nodup then pure unmodelled else
    pure (match configNet k m bump choices with
      | none => unmodelled
      | some net => gnetJ net 0)
  | "trivial_hypergraph" =>
    let n ← getNat? j "n"
    pure (gnetJ (trivialNet n) 0)
  | "ring_lattice" =>
    let n ← getNat? j "n"; let d ← getNat? j "d"; let k ← getNat? j "k"; let l ← getNat? j "l"
    pure (gnetJ (ringLatticeNet n d k l) 0)
  | "sunflower" =>
    let l ← getNat? j "l"; let c ← getNat? j "c"; let m ← getNat? j "m"
    if m < c then pure unmodelled else
    pure (gnetJ (sunflowerNet l c m) 0)
  | "star_clique" =>
    let a ← getNat? j "n_star"; let b ← getNat? j "n_clique"; let d ← getNat? j "d_max"
    if a = 0 ∨ b = 0 ∨ d + 1 > b then pure unmodelled else
    pure (gnetJ (starCliqueNet a b d) 0)
  | "flag_complex" =>
    let n ← getNat? j "n"; let es ← getNatss? j "edges"; let mo ← getNat? j "max_order"
    if es.any (fun e => e.length != 2) then pure unmodelled else
    pure (gnetJ (flagComplexNet n (adjOf es) mo) 0)
  | "flag_complex_ps" =>
    let n ← getNat? j "n"; let es ← getNatss? j "edges"; let mo ← getNat? j "max_order"; let picked ← getNatss? j "picked"
    if es.any (fun e => e.length != 2) then pure unmodelled else
    pure (match flagPromotedNet n (adjOf es) mo picked with
      | none => unmodelled
      | some net => gnetJ net 0)
  | "random_simplicial_complex" =>
    let n ← getNat? j "n"; let sizes ← getNats? j "sizes"; let coins ← getBools? j "coins"
    pure (answer (randomSCNet n sizes coins))
  | "watts_strogatz_hypergraph" =>
    let n ← getNat? j "n"; let d ← getNat? j "d"; let k ← getNat? j "k"; let l ← getNat? j "l"
    let coins ← getBools? j "coins"; let choices ← getNatss? j "choices"
    if d = 0 then pure unmodelled else
    pure (resJ (fun net => gnetJ net 0) (wattsStrogatzNet n d k l coins choices))
  | "chung_lu_hypergraph" =>
    let k1 ← getPairs? j "k1"; let k2 ← getPairs? j "k2"; let gaps ← getNats? j "gaps"; let rs ← getRats? j "rs"
    if ¬ (k1.map (·.1)).Nodup ∨ ¬ (k2.map (·.1)).Nodup then pure unmodelled else
    pure (resJ (bipJ k1) (chungLu k1 k2 gaps rs))
  | "dcsbm_hypergraph" =>
    let k1 ← getPairs? j "k1"; let k2 ← getPairs? j "k2"; let g1 ← getPairs? j "g1"; let g2 ← getPairs? j "g2"
    let om ← getNatss? j "omega"
    let gaps ← getNats? j "gaps"; let rs ← getRats? j "rs"
    let rows := om.length
    let cols := (om.map List.length).foldl min (om.headD []).length
    -- g1 / g2 must be dicts on exactly the keys of k1 / k2 whose values index omega
    if ¬ (k1.map (·.1)).Nodup ∨ ¬ (k2.map (·.1)).Nodup ∨ ¬ (g1.map (·.1)).Nodup ∨ ¬ (g2.map (·.1)).Nodup
        ∨ ¬ (k1.all (fun p => p.1 ∈ g1.map (·.1))) ∨ ¬ (g1.all (fun p => p.1 ∈ k1.map (·.1)))
        ∨ ¬ (k2.all (fun p => p.1 ∈ g2.map (·.1))) ∨ ¬ (g2.all (fun p => p.1 ∈ k2.map (·.1)))
        ∨ ¬ (g1.all (fun p => p.2 < rows)) ∨ ¬ (g2.all (fun p => p.2 < cols)) then pure unmodelled else
    let omega : Nat → Nat → Nat := fun a b => (om.getD a []).getD b 0
    pure (resJ (bipJ k1) (dcsbm k1 k2 (lookupD g1) (lookupD g2) omega gaps rs))
  | "uniform_HPPM" =>
    let n ← getNat? j "n"; let m ← getNat? j "m"; let k ← getRat? j "k"; let eps ← getRat? j "epsilon"; let rho ← getRat? j "rho"
    let gaps ← getNats? j "gaps"
    if m = 0 then pure unmodelled else
    let t := hppmTensor m (hppmIn n m k eps rho) (hppmOut n m k eps)
    pure (resJ (fun r => Json.mkObj [("nodes", natsJ r.1.nodes), ("edges", Json.arr (r.1.edges.map setJ).toArray),
        ("rest", natJson r.2.length), ("tensor", Json.arr (t.map ratJ).toArray), ("sizes", natsJ (hppmSizes n rho)),
        ("pks", natsJ (t.map (fun x => match classify x with | .zero => 0 | .one => 1 | .mid => 2)))])
      (hppmNet n m k eps rho gaps))
  | "uniform_erdos_renyi_degree" =>
    let n ← getNat? j "n"; let m ← getNat? j "m"; let p ← getRat? j "p"; let multi ← getBool? j "multi"
    let gaps ← getNats? j "gaps"
    if m = 0 then pure unmodelled else
    let qj := match erDegreeQ n m p multi with
      | .ok (.q x) => ratJ x
      | .ok .nan => Json.str "nan"
      | _ => Json.null
    pure (resJ (fun r => Json.mkObj [("nodes", natsJ r.1.nodes), ("edges", Json.arr (r.1.edges.map setJ).toArray),
        ("rest", natJson r.2.length), ("q", qj)]) (erdosRenyiDegNet n m p multi gaps))
  | _ => none

def handle (st : Unit) (j : Json) : Unit × Json :=
  match handleReq j with
  | some r => (st, r)
  | none => (st, badOp)

end Xgi.C16.Drive
