/-
  C16, second part — the generators of xgi/generators/random.py and uniform.py that the first pass left
  "predicate only": `watts_strogatz_hypergraph`, `chung_lu_hypergraph`, `dcsbm_hypergraph`, the probability
  arithmetic of `uniform_HPPM` and of `uniform_erdos_renyi_hypergraph(p_type="degree")`.

  Randomness is an explicit oracle argument, as in Gen.lean:
    * `coins : List Bool`          — the outcomes of `np.random.random() < p` (Watts–Strogatz),
    * `choices : List (List Nat)`  — the successive results of `np.random.choice(others, size=d-1, replace=False)`,
    * `gaps : List Nat`            — the successive values returned by `xgi.utils.geometric` (np.inf is sent as a
                                     number larger than every list length),
    * `rs : List Rat`              — the successive values of `random.random()` used in `r < q / p`
                                     (a float is a dyadic rational; it is sent exactly).
  Results are `Res`: `ok a`, `err e` (the exception the Python code raises on this input) or `stuck` (the oracle is
  too short / ill-formed: the driver answers "unmodelled").
  Floating point: probabilities are exact rationals (`Rat`); `nan`/`inf`, which numpy produces instead of raising
  when a `np.float64` is divided by zero, are modelled where the code can reach them (`Option Rat`, `none` = nan).
  No Mathlib here.
-/
import XgiModel.C16.Gen

namespace Xgi.C16

/-- the exceptions the modelled code can raise -/
inductive Err where
  | value      -- ValueError (np.random.choice: sample larger than population)
  | index      -- IndexError (`edge_labels[0]` of an empty list)
  | zeroDiv    -- ZeroDivisionError (Python int/float division)
  | xgi        -- XGIError (parameter validation)
  deriving DecidableEq, Repr, Inhabited

/-- outcome of a generator run on a given oracle -/
inductive Res (α : Type) where
  | ok (a : α)
  | err (e : Err)
  | stuck
  deriving Repr, DecidableEq

def Res.ofOption {α} : Option α → Res α
  | some a => .ok a
  | none => .stuck

/-! ### watts_strogatz_hypergraph (xgi/generators/random.py, with the d-uniform rewiring fix) -/

/-- `min(H.edges.members(e))` (`0` for an empty member list, which `ring_lattice` never produces) -/
def minL : List Nat → Nat
  | [] => 0
  | a :: l => l.foldl min a

/-- a legal result of `np.random.choice([x for x in H.nodes if x != node], size=d-1, replace=False)`:
    `d - 1` pairwise distinct nodes of `range n`, none of them `node` -/
def wsAdmissible (n d node : Nat) (u : List Nat) : Bool :=
  u.length == d - 1 && u.all (fun x => decide (x < n) && decide (x ≠ node)) && decide u.Nodup

/-- the loop `for e in H.edges: if np.random.random() < p: …` over the lattice edges (`d ≥ 1`).
    Returns `(kept, to_add)`: the edges that are not in `to_remove`, in order, and the rewired edges, in order.
    All coins and choices must be consumed (`stuck` otherwise).  A fired coin with fewer than `d - 1` other nodes
    (`n < d`) is the `ValueError` of `np.random.choice`. -/
def wsLoop (n d : Nat) : List (List Nat) → List Bool → List (List Nat) → Res (List (List Nat) × List (List Nat))
  | [], [], [] => .ok ([], [])
  | [], _, _ => .stuck
  | _ :: _, [], _ => .stuck
  | e :: es, false :: cs, chs =>
    match wsLoop n d es cs chs with
    | .ok (kept, added) => .ok (e :: kept, added)
    | .err x => .err x
    | .stuck => .stuck
  | e :: es, true :: cs, chs =>
    if n < d then .err .value else
    match chs with
    | [] => .stuck
    | u :: us =>
      if wsAdmissible n d (minL e) u then
        match wsLoop n d es cs us with
        | .ok (kept, added) => .ok (kept, (u ++ [minL e]) :: added)   -- np.append(neighbors, node)
        | .err x => .err x
        | .stuck => .stuck
      else .stuck

/-- `watts_strogatz_hypergraph(n, d, k, l, p)` for `d ≥ 1`: `H.remove_edges_from(to_remove); H.add_edges_from(to_add)`
    leaves the kept lattice edges in their order followed by the rewired ones -/
def wattsStrogatz (n d k l : Nat) (coins : List Bool) (choices : List (List Nat)) : Res (List (List Nat)) :=
  match wsLoop n d (ringLattice n d k l) coins choices with
  | .ok (kept, added) => .ok (kept ++ added)
  | .err x => .err x
  | .stuck => .stuck

/-! ### chung_lu_hypergraph / dcsbm_hypergraph -/

/-- insertion into a list sorted by decreasing second component, before the first element that is not larger
    (so that equal keys keep their original order) -/
def insByDeg (a : Nat × Nat) : List (Nat × Nat) → List (Nat × Nat)
  | [] => [a]
  | b :: l => if b.2 ≤ a.2 then a :: b :: l else b :: insByDeg a l

/-- `sorted(k.items(), key=lambda d: d[1], reverse=True)` (stable; structurally recursive insertion sort) -/
def sortByDeg : List (Nat × Nat) → List (Nat × Nat)
  | [] => []
  | a :: l => insByDeg a (sortByDeg l)

/-- `p != 1` for a float that may be nan (`none`) -/
def ne1 : Option Rat → Bool
  | some x => decide (x ≠ 1)
  | none => true

/-- the head of the `while j < m` loop: nothing is drawn when `j < m` fails (`vs` = the labels from position `j` on)
    or when `p == 1`; otherwise `j += geometric(p)`.  Returns the number of labels to skip and the unconsumed gaps. -/
def nextSkip {α} (p : Option Rat) (vs : List α) (gaps : List Nat) : Option (Nat × List Nat) :=
  if vs.isEmpty then some (0, gaps)
  else if ne1 p then
    match gaps with
    | [] => none
    | g :: gs => some (g, gs)
  else some (0, gaps)

/-- outcome of the test `r < q / p` -/
inductive Cmp where
  | yes | no | zeroDiv
  deriving DecidableEq, Repr

/-- `r < q / p`.  `py = true`: Python floats (`chung_lu_hypergraph`), `q / 0.0` raises ZeroDivisionError.
    `py = false`: `np.float64` (`dcsbm_hypergraph`), `q / 0.0` is `inf` for `q > 0` and `nan` for `q = 0`;
    every comparison with nan is `False`. -/
def accept (py : Bool) (r : Rat) (q p : Option Rat) : Cmp :=
  match q, p with
  | some q, some p =>
    if p = 0 then (if py then .zeroDiv else if 0 < q then .yes else .no)
    else if r < q / p then .yes else .no
  | _, _ => .no

/-- the body of `while j < m:` for one node, walking along the edge labels from position `j` on.
    `skip` = how many labels are still to be passed over before position `j` is reached; `p` = the current `p`;
    `prob dv` = `min(k1[u] * k2[v] * c, 1)` for an edge of prescribed size `dv`.
    Returns the labels `v` for which `H.add_node_to_edge(v, u)` is called, in order. -/
def clWalk (py : Bool) (prob : Nat → Option Rat) :
    List (Nat × Nat) → Nat → Option Rat → List Nat → List Rat → Res (List Nat × List Nat × List Rat)
  | [], _, _, gaps, rs => .ok ([], gaps, rs)
  | _ :: vs, s + 1, p, gaps, rs => clWalk py prob vs s p gaps rs
  | (v, dv) :: vs, 0, p, gaps, rs =>
    match rs with
    | [] => .stuck
    | r :: rs' =>
      match accept py r (prob dv) p with
      | .zeroDiv => .err .zeroDiv
      | c =>
        match nextSkip (prob dv) vs gaps with            -- `p = q; j += 1`, then the head of the next round
        | none => .stuck
        | some (s, gaps') =>
          match clWalk py prob vs s (prob dv) gaps' rs' with
          | .ok (acc, g, r') => .ok (if c = .yes then v :: acc else acc, g, r')
          | .err x => .err x
          | .stuck => .stuck

/-- one iteration of `for u in …:`: `j = 0; v = labels[0]; p = min(k1[u] * k2[v] * c, 1); while j < m: …` -/
def clNode (py : Bool) (prob : Nat → Option Rat) (edges : List (Nat × Nat)) (gaps : List Nat) (rs : List Rat) :
    Res (List Nat × List Nat × List Rat) :=
  match edges with
  | [] => .err .index
  | (_, dv0) :: _ =>
    match nextSkip (prob dv0) edges gaps with
    | none => .stuck
    | some (s, gaps') => clWalk py prob edges s (prob dv0) gaps' rs

/-- `min((k1[u] * k2[v]) / S, 1)` -/
def clProb (S du dv : Nat) : Option Rat := some (min (((du * dv : Nat) : Rat) / ((S : Nat) : Rat)) 1)

/-- `for u in node_labels:` of `chung_lu_hypergraph`; returns the `(edge, node)` arguments of the successive
    `H.add_node_to_edge(v, u)` calls.  `S = 0` is the ZeroDivisionError of `(k1[u] * k2[v]) / S`. -/
def clNodes (S : Nat) (edges : List (Nat × Nat)) :
    List (Nat × Nat) → List Nat → List Rat → Res (List (Nat × Nat) × List Nat × List Rat)
  | [], gaps, rs => .ok ([], gaps, rs)
  | (u, du) :: us, gaps, rs =>
    if edges.isEmpty then .err .index
    else if S = 0 then .err .zeroDiv
    else
      match clNode true (clProb S du) edges gaps rs with
      | .ok (acc, g, r) =>
        match clNodes S edges us g r with
        | .ok (ps, g', r') => .ok (acc.map (fun v => (v, u)) ++ ps, g', r')
        | .err x => .err x
        | .stuck => .stuck
      | .err x => .err x
      | .stuck => .stuck

/-- `chung_lu_hypergraph(k1, k2)`: `k1`, `k2` = the dict items in insertion order (distinct keys).
    The node list of the result is `(sortByDeg k1).map (·.1)`. -/
def chungLu (k1 k2 : List (Nat × Nat)) (gaps : List Nat) (rs : List Rat) :
    Res (List (Nat × Nat) × List Nat × List Rat) :=
  clNodes (sumL (k1.map (·.2))) (sortByDeg k2) (sortByDeg k1) gaps rs

/-- `H.add_node_to_edge(v, u)` on the edge dict (`id ↦ members`, insertion order) -/
def addNodeToEdge (v u : Nat) : List (Nat × List Nat) → List (Nat × List Nat)
  | [] => [(v, [u])]
  | (w, ms) :: rest => if w = v then (w, ins u ms) :: rest else (w, ms) :: addNodeToEdge v u rest

/-- the edge dict after the recorded `add_node_to_edge` calls -/
def buildEdges (pairs : List (Nat × Nat)) : List (Nat × List Nat) :=
  pairs.foldl (fun H p => addNodeToEdge p.1 p.2 H) []

/-- `omega[a, b] / (kappa1[a] * kappa2[b])` as numpy computes it (`np.int64 / int`: no ZeroDivisionError) -/
inductive GC where
  | fin (c : Rat) | inf | nan
  deriving Repr

def gcOf (om den : Nat) : GC :=
  if den = 0 then (if om = 0 then .nan else .inf) else .fin (((om : Nat) : Rat) / ((den : Nat) : Rat))

/-- `min(k1[u] * k2[v] * group_constant, 1)` (`min(nan, 1)` is nan, `0 * inf` is nan) -/
def dcProb (gc : GC) (du dv : Nat) : Option Rat :=
  match gc with
  | .fin c => some (min (((du * dv : Nat) : Rat) * c) 1)
  | .inf => if du * dv = 0 then none else some 1
  | .nan => none

/-- `for u in community1_nodes[group1]:` for one patch -/
def dcNodes (gc : GC) (edges : List (Nat × Nat)) :
    List (Nat × Nat) → List Nat → List Rat → Res (List (Nat × Nat) × List Nat × List Rat)
  | [], gaps, rs => .ok ([], gaps, rs)
  | (u, du) :: us, gaps, rs =>
    match clNode false (dcProb gc du) edges gaps rs with
    | .ok (acc, g, r) =>
      match dcNodes gc edges us g r with
      | .ok (ps, g', r') => .ok (acc.map (fun v => (v, u)) ++ ps, g', r')
      | .err x => .err x
      | .stuck => .stuck
    | .err x => .err x
    | .stuck => .stuck

/-- the two nested loops over `community1_nodes.keys()` × `community2_nodes.keys()` -/
def dcPatches (nodes edges : List (Nat × Nat)) (g1 g2 : Nat → Nat) (omega : Nat → Nat → Nat) (kappa1 kappa2 : Nat → Nat) :
    List (Nat × Nat) → List Nat → List Rat → Res (List (Nat × Nat) × List Nat × List Rat)
  | [], gaps, rs => .ok ([], gaps, rs)
  | (a, b) :: rest, gaps, rs =>
    match dcNodes (gcOf (omega a b) (kappa1 a * kappa2 b)) (edges.filter (fun e => g2 e.1 == b))
        (nodes.filter (fun x => g1 x.1 == a)) gaps rs with
    | .ok (ps, g, r) =>
      match dcPatches nodes edges g1 g2 omega kappa1 kappa2 rest g r with
      | .ok (ps', g', r') => .ok (ps ++ ps', g', r')
      | .err x => .err x
      | .stuck => .stuck
    | .err x => .err x
    | .stuck => .stuck

/-- `kappa[g] = sum(k[i] for i with group[i] == g)` -/
def kappa (k : List (Nat × Nat)) (grp : Nat → Nat) (g : Nat) : Nat :=
  sumL ((k.filter (fun x => grp x.1 == g)).map (·.2))

/-- the patches in loop order: groups in order of first appearance among the sorted labels -/
def dcPatchList (nodes edges : List (Nat × Nat)) (g1 g2 : Nat → Nat) : List (Nat × Nat) :=
  (dedup (nodes.map (fun x => g1 x.1))).flatMap (fun a => (dedup (edges.map (fun e => g2 e.1))).map (fun b => (a, b)))

/-- `dcsbm_hypergraph(k1, k2, g1, g2, omega)` for `omega` a non-negative integer numpy array, `g1`/`g2` total on the keys
    of `k1`/`k2` with values that index `omega` -/
def dcsbm (k1 k2 : List (Nat × Nat)) (g1 g2 : Nat → Nat) (omega : Nat → Nat → Nat) (gaps : List Nat) (rs : List Rat) :
    Res (List (Nat × Nat) × List Nat × List Rat) :=
  dcPatches (sortByDeg k1) (sortByDeg k2) g1 g2 omega (kappa k1 g1) (kappa k2 g2)
    (dcPatchList (sortByDeg k1) (sortByDeg k2) g1 g2) gaps rs

/-! ### uniform_HPPM: the block-probability tensor -/

/-- the branch a probability selects in `uniform_HSBM` / `uniform_erdos_renyi_hypergraph` -/
def classify (x : Rat) : Prob := if x = 0 then .zero else if x = 1 then .one else .mid

/-- `p = k / (m * n ** (m - 1))` -/
def hppmP (n m : Nat) (k : Rat) : Rat := k / (((m * n ^ (m - 1) : Nat)) : Rat)

/-- `p_in = (1 + r * epsilon) * p` with `q = rho**m + (1 - rho)**m`, `r = 1 / q - 1` -/
def hppmIn (n m : Nat) (k eps rho : Rat) : Rat := (1 + (1 / (rho ^ m + (1 - rho) ^ m) - 1) * eps) * hppmP n m k

/-- `p_out = (1 - epsilon) * p` -/
def hppmOut (n m : Nat) (k eps : Rat) : Rat := (1 - eps) * hppmP n m k

/-- `p = p_out * np.ones([2] * m); p[(0,)*m] = p_in; p[(1,)*m] = p_in`, flattened in C order
    (= the order of `itertools.product(range(2), repeat=m)`) -/
def hppmTensor (m : Nat) (pin pout : Rat) : List Rat :=
  (List.range (2 ^ m)).map (fun i => if i = 0 ∨ i + 1 = 2 ^ m then pin else pout)

/-- `sizes = [int(rho * n), n - int(rho * n)]` (for `0 ≤ rho`) -/
def hppmSizes (n : Nat) (rho : Rat) : List Nat := [(rho * (n : Nat)).floor.toNat, n - (rho * (n : Nat)).floor.toNat]

/-- `uniform_HPPM(n, m, k, epsilon, rho)` for `m ≥ 1`: parameter checks, the tensor, then `uniform_HSBM(n, m, p, sizes)`
    (whose own check `np.max(p) > 1 or np.min(p) < 0` is the last `xgi` error) -/
def hppm (n m : Nat) (k eps rho : Rat) (gaps : List Nat) : Res (List (List Nat) × List Nat) :=
  if rho < 0 ∨ 1 < rho then .err .xgi
  else if k < 0 then .err .xgi
  else if eps < 0 ∨ 1 < eps then .err .xgi
  else if m * n ^ (m - 1) = 0 then .err .zeroDiv
  else if (hppmTensor m (hppmIn n m k eps rho) (hppmOut n m k eps)).any (fun x => decide (1 < x) || decide (x < 0)) then .err .xgi
  else Res.ofOption (hsbm m (hppmSizes n rho) ((hppmTensor m (hppmIn n m k eps rho) (hppmOut n m k eps)).map classify) gaps)

/-! ### uniform_erdos_renyi_hypergraph(p_type="degree") -/

/-- the wiring probability computed from a mean degree; `nan` arises from `0 / np.float64(0.0)` -/
inductive QVal where
  | q (x : Rat) | nan
  deriving Repr, DecidableEq

/-- `q = p / (m * n ** (m - 1))` (multiedges; Python numbers, ZeroDivisionError) resp.
    `q = p * n / (m * comb(n, m))` (`comb` returns a `np.float64`: `x / 0.0` is `±inf` — rejected by the range check
    that follows — or nan) -/
def erDegreeQ (n m : Nat) (p : Rat) (multi : Bool) : Res QVal :=
  if multi then
    (if m * n ^ (m - 1) = 0 then .err .zeroDiv else .ok (.q (p / ((m * n ^ (m - 1) : Nat) : Rat))))
  else if m * choose n m = 0 then (if p * (n : Nat) = 0 then .ok .nan else .err .xgi)
  else .ok (.q (p * (n : Nat) / ((m * choose n m : Nat) : Rat)))

/-- `uniform_erdos_renyi_hypergraph(n, m, p, p_type="degree", multiedges)` for `m ≥ 1`.  With `q = nan` every test
    `q > 1`, `q < 0`, `q == 1`, `q == 0` fails and the skip-sampling loop runs (over an empty index range). -/
def erdosRenyiDeg (n m : Nat) (p : Rat) (multi : Bool) (gaps : List Nat) : Res (List (List Nat) × List Nat) :=
  match erDegreeQ n m p multi with
  | .err e => .err e
  | .stuck => .stuck
  | .ok .nan => Res.ofOption (erdosRenyi n m multi .mid gaps)
  | .ok (.q x) =>
    if 1 < x ∨ x < 0 then .err .xgi
    else Res.ofOption (erdosRenyi n m multi (classify x) gaps)

end Xgi.C16
