/-
  C16 — helper lemmas for skip sampling and the generators built on the decoders.
-/
import XgiModel.C16.Lemmas

namespace Xgi.C16

/-! ### skip sampling -/

theorem skipLoop_spec (count : Nat) : ∀ (gaps : List Nat) (idx : Nat) (is rest : List Nat),
    (∀ g ∈ gaps, 1 ≤ g) → skipLoop count idx gaps = some (is, rest) →
    is.Pairwise (· < ·) ∧ (∀ i ∈ is, idx ≤ i ∧ i < count) ∧ ∃ used, gaps = used ++ rest := by
  intro gaps
  induction gaps with
  | nil =>
    intro idx is rest _ h
    unfold skipLoop at h
    split at h
    · simp at h
    · simp at h; obtain ⟨rfl, rfl⟩ := h; simp
  | cons g gs ih =>
    intro idx is rest hg h
    unfold skipLoop at h
    split at h
    · rename_i hlt
      split at h
      · simp at h
      · rename_i is' rest' hrec
        simp at h
        obtain ⟨rfl, rfl⟩ := h
        obtain ⟨h1, h2, used, h3⟩ := ih (idx + g) is' rest' (fun x hx => hg x (by simp [hx])) hrec
        have hg1 := hg g (by simp)
        refine ⟨?_, ?_, g :: used, by simp [h3]⟩
        · rw [List.pairwise_cons]; exact ⟨fun x hx => by have := h2 x hx; omega, h1⟩
        · intro i hi; rw [List.mem_cons] at hi
          rcases hi with rfl | hi
          · omega
          · have := h2 i hi; omega
    · simp at h; obtain ⟨rfl, rfl⟩ := h; exact ⟨by simp, by simp, [], by simp⟩

theorem skipSample_spec (count : Nat) (gaps is rest : List Nat) (hg : ∀ g ∈ gaps, 1 ≤ g)
    (h : skipSample count gaps = some (is, rest)) :
    is.Pairwise (· < ·) ∧ (∀ i ∈ is, i < count) ∧ ∃ used, gaps = used ++ rest := by
  cases gaps with
  | nil => simp [skipSample] at h
  | cons g gs =>
    simp only [skipSample] at h
    split at h
    · simp at h
    · obtain ⟨h1, h2, used, h3⟩ := skipLoop_spec count gs (g - 1) is rest (fun x hx => hg x (by simp [hx])) h
      exact ⟨h1, fun i hi => (h2 i hi).2, g :: used, by simp [h3]⟩

theorem skipLoop_ones (count : Nat) : ∀ (j idx : Nat), idx + j = count →
    skipLoop count idx (List.replicate j 1) = some (List.range' idx j, []) := by
  intro j
  induction j with
  | zero => intro idx h; simp [skipLoop]; omega
  | succ j ih =>
    intro idx h
    rw [List.replicate_succ, skipLoop, if_pos (by omega), ih (idx + 1) (by omega)]
    simp [List.range'_succ]

theorem skipSample_ones (count : Nat) :
    skipSample count (List.replicate (count + 1) 1) = some (List.range count, []) := by
  rw [List.replicate_succ, skipSample, if_neg (by omega), Nat.sub_self, skipLoop_ones count count 0 (by omega),
    List.range_eq_range']

/-! ### `mapOpt` -/

theorem mapOpt_eq {α β} (f : α → Option β) : ∀ (l : List α) (bs : List β), mapOpt f l = some bs → l.map f = bs.map some := by
  intro l
  induction l with
  | nil => intro bs h; simp [mapOpt] at h; subst h; rfl
  | cons a t ih =>
    intro bs h
    simp only [mapOpt] at h
    split at h
    · rename_i b bs' h1 h2
      simp at h; subst h
      simp [h1, ih bs' h2]
    · simp at h

/-- decoding a strictly increasing index list below `comb(n, m)` yields distinct combinations -/
theorem decoded_comb (n m : Nat) (is : List Nat) (es : List (List Nat)) (h1 : is.Pairwise (· < ·))
    (h2 : ∀ i ∈ is, i < choose n m) (h : mapOpt (indexToEdgeComb n m) is = some es) :
    es.Nodup ∧ (∀ e ∈ es, e ∈ combinations n m) ∧ es.length = is.length := by
  have hm := mapOpt_eq _ _ _ h
  have hlen : es.length = is.length := by simpa using (congrArg List.length hm).symm
  refine ⟨?_, ?_, hlen⟩
  · have hnd : (is.map (indexToEdgeComb n m)).Nodup := by
      refine List.Nodup.map_on ?_ (h1.imp (fun h => Nat.ne_of_lt h))
      intro x hx y hy hxy
      obtain ⟨lx, ex, gx⟩ := indexToEdgeComb_getElem? n m x (h2 x hx)
      obtain ⟨ly, ey, gy⟩ := indexToEdgeComb_getElem? n m y (h2 y hy)
      rw [ex, ey] at hxy
      have : (combinations n m)[x]? = (combinations n m)[y]? := by rw [gx, gy, Option.some.inj hxy]
      exact (List.getElem?_inj (by rw [length_combsAux]; exact h2 x hx) (nodup_combsAux _ _ _)).mp this
    rw [hm] at hnd
    exact List.Nodup.of_map _ hnd
  · intro e he
    have : some e ∈ is.map (indexToEdgeComb n m) := by rw [hm]; exact List.mem_map_of_mem he
    rw [List.mem_map] at this
    obtain ⟨i, hi, hie⟩ := this
    obtain ⟨l, el, gl⟩ := indexToEdgeComb_getElem? n m i (h2 i hi)
    rw [el] at hie
    cases hie
    exact List.mem_of_getElem? gl

/-! ### admissible node sets, complete hypergraphs -/

/-- a node set of `range n`, written as its strictly increasing member list -/
def Admissible (n : Nat) (e : List Nat) : Prop := e.Pairwise (· < ·) ∧ ∀ x ∈ e, x < n

theorem mem_combinations (n m : Nat) (e : List Nat) :
    e ∈ combinations n m ↔ e.length = m ∧ Admissible n e := by
  unfold combinations Admissible
  rw [mem_combsAux]
  simp

theorem nodup_combinations (n m : Nat) : (combinations n m).Nodup := nodup_combsAux _ _ _

theorem length_combinations (n m : Nat) : (combinations n m).length = Nat.choose n m := by
  unfold combinations; rw [length_combsAux, choose_eq]

theorem admissible_nodup {n : Nat} {e : List Nat} (h : Admissible n e) : e.Nodup :=
  h.1.imp (fun h => Nat.ne_of_lt h)

theorem mem_combsSizes (n : Nat) : ∀ (cnt start : Nat) (e : List Nat),
    e ∈ combsSizes n start cnt ↔ (start ≤ e.length ∧ e.length < start + cnt) ∧ Admissible n e := by
  intro cnt
  induction cnt with
  | zero => intro start e; simp [combsSizes]
  | succ cnt ih =>
    intro start e
    simp only [combsSizes, List.mem_append, ih, mem_combinations]
    constructor
    · rintro (⟨h1, h2⟩ | ⟨h1, h2⟩)
      · exact ⟨by omega, h2⟩
      · exact ⟨by omega, h2⟩
    · rintro ⟨h1, h2⟩
      by_cases h : e.length = start
      · exact Or.inl ⟨h, h2⟩
      · exact Or.inr ⟨by omega, h2⟩

theorem nodup_combsSizes (n : Nat) : ∀ (cnt start : Nat), (combsSizes n start cnt).Nodup := by
  intro cnt
  induction cnt with
  | zero => intro start; simp [combsSizes]
  | succ cnt ih =>
    intro start
    simp only [combsSizes]
    rw [List.nodup_append]
    refine ⟨nodup_combinations _ _, ih _, ?_⟩
    intro a ha b hb hab
    subst hab
    rw [mem_combinations] at ha
    rw [mem_combsSizes] at hb
    omega

/-! ### `dedup` on duplicate-free lists -/

theorem foldl_ins_of_nodup {α : Type} [DecidableEq α] : ∀ (l acc : List α), (acc ++ l).Nodup →
    l.foldl (fun acc x => ins x acc) acc = acc ++ l := by
  intro l
  induction l with
  | nil => intro acc _; simp
  | cons a t ih =>
    intro acc h
    have ha : a ∉ acc := by
      intro hmem
      rw [List.nodup_append] at h
      exact h.2.2 a hmem a (by simp) rfl
    simp only [List.foldl_cons]
    have : ins a acc = acc ++ [a] := by unfold ins; rw [if_neg ha]
    rw [this, ih (acc ++ [a]) (by simpa using h)]
    simp

theorem dedup_of_nodup {α : Type} [DecidableEq α] {l : List α} (h : l.Nodup) : dedup l = l := by
  unfold dedup
  rw [foldl_ins_of_nodup l [] (by simpa using h)]
  simp

theorem mem_keepUniform (m : Nat) (es : List (List Nat)) (e : List Nat) :
    e ∈ keepUniform m es ↔ (∃ t ∈ es, dedup t = e) ∧ e.length = m := by
  unfold keepUniform
  simp [List.mem_filter, List.mem_map]

theorem keepUniform_id (m : Nat) (es : List (List Nat)) (h : ∀ e ∈ es, e.length = m ∧ e.Nodup) :
    keepUniform m es = es := by
  unfold keepUniform
  have h1 : es.map dedup = es := by
    conv_rhs => rw [← List.map_id es]
    apply List.map_congr_left
    intro e he
    simpa using dedup_of_nodup (h e he).2
  rw [h1, List.filter_eq_self]
  intro e he
  simpa using (h e he).1

/-! ### fast_random_hypergraph -/

theorem fastRandomOrder_spec (n size : Nat) (p : Prob) (gaps : List Nat) (es : List (List Nat)) (rest : List Nat)
    (hg : ∀ g ∈ gaps, 1 ≤ g) (h : fastRandomOrder n size p gaps = some (es, rest)) :
    es.Nodup ∧ (∀ e ∈ es, e ∈ combinations n size) ∧ (p = .zero → es = []) ∧
      (p = .one → es = combinations n size) ∧ ∃ used, gaps = used ++ rest := by
  cases p with
  | zero => simp [fastRandomOrder] at h; obtain ⟨rfl, rfl⟩ := h; simp
  | one =>
    simp [fastRandomOrder] at h; obtain ⟨rfl, rfl⟩ := h
    exact ⟨nodup_combinations _ _, fun e he => he, by simp, by simp, [], by simp⟩
  | mid =>
    simp only [fastRandomOrder] at h
    split at h
    · simp at h
    · rename_i is rest' hs
      split at h
      · simp at h
      · rename_i es' hm
        simp at h; obtain ⟨rfl, rfl⟩ := h
        obtain ⟨h1, h2, h3⟩ := skipSample_spec _ _ _ _ hg hs
        obtain ⟨d1, d2, _⟩ := decoded_comb n size is es' h1 h2 hm
        exact ⟨d1, d2, by simp, by simp, h3⟩

theorem fastRandom_spec (n : Nat) : ∀ (rounds : List (Nat × Prob)) (gaps : List Nat) (es : List (List Nat)) (rest : List Nat),
    (∀ g ∈ gaps, 1 ≤ g) → fastRandom n rounds gaps = some (es, rest) →
    (∀ e ∈ es, ∃ r ∈ rounds, r.2 ≠ .zero ∧ e ∈ combinations n r.1) ∧
    (∀ r ∈ rounds, r.2 = .one → ∀ e ∈ combinations n r.1, e ∈ es) ∧
    ((rounds.map (·.1)).Nodup → es.Nodup) ∧ ∃ used, gaps = used ++ rest := by
  intro rounds
  induction rounds with
  | nil => intro gaps es rest _ h; simp [fastRandom] at h; obtain ⟨rfl, rfl⟩ := h; simp
  | cons r rs ih =>
    intro gaps es rest hg h
    obtain ⟨size, p⟩ := r
    simp only [fastRandom] at h
    split at h
    · simp at h
    · rename_i es1 rest1 h1
      split at h
      · simp at h
      · rename_i es2 rest2 h2
        simp at h; obtain ⟨rfl, rfl⟩ := h
        obtain ⟨a1, a2, a3, a4, used1, a5⟩ := fastRandomOrder_spec n size p gaps es1 rest1 hg h1
        have hg1 : ∀ g ∈ rest1, 1 ≤ g := fun g hgm => hg g (by rw [a5]; simp [hgm])
        obtain ⟨b1, b2, b3, used2, b5⟩ := ih rest1 es2 rest2 hg1 h2
        refine ⟨?_, ?_, ?_, used1 ++ used2, by rw [a5, b5]; simp⟩
        · intro e he
          rw [List.mem_append] at he
          rcases he with he | he
          · refine ⟨(size, p), by simp, ?_, a2 e he⟩
            intro hp; have := a3 hp; subst this; simp at he
          · obtain ⟨r, hr, hr2⟩ := b1 e he
            exact ⟨r, by simp [hr], hr2⟩
        · intro r hr hone e he
          rw [List.mem_cons] at hr
          rw [List.mem_append]
          rcases hr with rfl | hr
          · left; rw [a4 hone]; exact he
          · right; exact b2 r hr hone e he
        · intro hnd
          simp only [List.map_cons, List.nodup_cons] at hnd
          rw [List.nodup_append]
          refine ⟨a1, b3 hnd.2, ?_⟩
          intro x hx y hy hxy
          subst hxy
          obtain ⟨r, hr, -, hr2⟩ := b1 x hy
          have l1 := ((mem_combinations _ _ _).mp (a2 x hx)).1
          have l2 := ((mem_combinations _ _ _).mp hr2).1
          apply hnd.1
          rw [List.mem_map]
          exact ⟨r, hr, by omega⟩

end Xgi.C16
