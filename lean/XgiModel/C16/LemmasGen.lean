/-
  C16 — helper lemmas for skip sampling and the generators built on the decoders.
-/
import XgiModel.C16.Lemmas

namespace Xgi.C16

/-! ### skip sampling -/

theorem skipLoop_spec (count : Nat) : ∀ (gaps : List Nat) (idx : Nat) (is rest : List Nat),
    (∀ g ∈ gaps, 1 ≤ g) → skipLoop count idx gaps = some (is, rest) →
    is.Pairwise (· < ·) ∧ (∀ i ∈ is, idx ≤ i ∧ i < count) ∧ ∃ used, gaps = used ++ rest := by
  intro gaps
  induction gaps with
  | nil =>
    intro idx is rest _ h
    unfold skipLoop at h
    split at h
    · simp at h
    · simp at h; obtain ⟨rfl, rfl⟩ := h; simp
  | cons g gs ih =>
    intro idx is rest hg h
    unfold skipLoop at h
    split at h
    · rename_i hlt
      split at h
      · simp at h
      · rename_i is' rest' hrec
        simp at h
        obtain ⟨rfl, rfl⟩ := h
        obtain ⟨h1, h2, used, h3⟩ := ih (idx + g) is' rest' (fun x hx => hg x (by simp [hx])) hrec
        have hg1 := hg g (by simp)
        refine ⟨?_, ?_, g :: used, by simp [h3]⟩
        · rw [List.pairwise_cons]; exact ⟨fun x hx => by have := h2 x hx; omega, h1⟩
        · intro i hi; rw [List.mem_cons] at hi
          rcases hi with rfl | hi
          · omega
          · have := h2 i hi; omega
    · simp at h; obtain ⟨rfl, rfl⟩ := h; exact ⟨by simp, by simp, [], by simp⟩

theorem skipSample_spec (count : Nat) (gaps is rest : List Nat) (hg : ∀ g ∈ gaps, 1 ≤ g)
    (h : skipSample count gaps = some (is, rest)) :
    is.Pairwise (· < ·) ∧ (∀ i ∈ is, i < count) ∧ ∃ used, gaps = used ++ rest := by
  cases gaps with
  | nil => simp [skipSample] at h
  | cons g gs =>
    simp only [skipSample] at h
    split at h
    · simp at h
    · obtain ⟨h1, h2, used, h3⟩ := skipLoop_spec count gs (g - 1) is rest (fun x hx => hg x (by simp [hx])) h
      exact ⟨h1, fun i hi => (h2 i hi).2, g :: used, by simp [h3]⟩

theorem skipLoop_ones (count : Nat) : ∀ (j idx : Nat), idx + j = count →
    skipLoop count idx (List.replicate j 1) = some (List.range' idx j, []) := by
  intro j
  induction j with
  | zero => intro idx h; simp [skipLoop]; omega
  | succ j ih =>
    intro idx h
    rw [List.replicate_succ, skipLoop, if_pos (by omega), ih (idx + 1) (by omega)]
    simp [List.range'_succ]

theorem skipSample_ones (count : Nat) :
    skipSample count (List.replicate (count + 1) 1) = some (List.range count, []) := by
  rw [List.replicate_succ, skipSample, if_neg (by omega), Nat.sub_self, skipLoop_ones count count 0 (by omega),
    List.range_eq_range']

/-! ### `mapOpt` -/

theorem mapOpt_eq {α β} (f : α → Option β) : ∀ (l : List α) (bs : List β), mapOpt f l = some bs → l.map f = bs.map some := by
  intro l
  induction l with
  | nil => intro bs h; simp [mapOpt] at h; subst h; rfl
  | cons a t ih =>
    intro bs h
    simp only [mapOpt] at h
    split at h
    · rename_i b bs' h1 h2
      simp at h; subst h
      simp [h1, ih bs' h2]
    · simp at h

/-- decoding a strictly increasing index list below `comb(n, m)` yields distinct combinations -/
theorem decoded_comb (n m : Nat) (is : List Nat) (es : List (List Nat)) (h1 : is.Pairwise (· < ·))
    (h2 : ∀ i ∈ is, i < choose n m) (h : mapOpt (indexToEdgeComb n m) is = some es) :
    es.Nodup ∧ (∀ e ∈ es, e ∈ combinations n m) ∧ es.length = is.length := by
  have hm := mapOpt_eq _ _ _ h
  have hlen : es.length = is.length := by simpa using (congrArg List.length hm).symm
  refine ⟨?_, ?_, hlen⟩
  · have hnd : (is.map (indexToEdgeComb n m)).Nodup := by
      refine List.Nodup.map_on ?_ (h1.imp (fun h => Nat.ne_of_lt h))
      intro x hx y hy hxy
      obtain ⟨lx, ex, gx⟩ := indexToEdgeComb_getElem? n m x (h2 x hx)
      obtain ⟨ly, ey, gy⟩ := indexToEdgeComb_getElem? n m y (h2 y hy)
      rw [ex, ey] at hxy
      have : (combinations n m)[x]? = (combinations n m)[y]? := by rw [gx, gy, Option.some.inj hxy]
      exact (List.getElem?_inj (by rw [length_combsAux]; exact h2 x hx) (nodup_combsAux _ _ _)).mp this
    rw [hm] at hnd
    exact List.Nodup.of_map _ hnd
  · intro e he
    have : some e ∈ is.map (indexToEdgeComb n m) := by rw [hm]; exact List.mem_map_of_mem he
    rw [List.mem_map] at this
    obtain ⟨i, hi, hie⟩ := this
    obtain ⟨l, el, gl⟩ := indexToEdgeComb_getElem? n m i (h2 i hi)
    rw [el] at hie
    cases hie
    exact List.mem_of_getElem? gl

end Xgi.C16
