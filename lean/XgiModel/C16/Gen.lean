/-
  C16 — model of xgi's generators (xgi/generators/{random,uniform,classic,lattice,simple,
  simplicial_complexes}.py) and of the index decoders used for skip sampling.

  Conventions: generated node labels are `range n`, i.e. `Nat`; an edge is the list of its members in
  the order the Python code produces them (the driver prints them as `{"$set": …}` after `dedup`, the
  harness sorts).  Randomness is an explicit oracle argument:
    * `gaps : List Nat`   — the successive values returned by `xgi.utils.geometric` (np.inf is sent as a
                            number larger than every index bound),
    * `coins : List Bool` — the outcomes of `random.random() <= p` / `np.random.random(size) <= p`,
    * `choices : List (List Nat)` — the successive results of `random.sample(range(len(stubs)), m)`,
    * `bump : List Nat`   — the result of `random.sample(list(k.keys()), m - remainder)`.
  Every function that consumes an oracle returns the unconsumed rest, and `none` when the oracle is too
  short or ill-formed (the driver answers "unmodelled"; the harness records exactly the draws made).
  `dedup` (= `set(l)` keeping first occurrences) comes from XgiModel/Base.lean.  No Mathlib here.
-/
import XgiModel.Base

namespace Xgi.C16

/-! ### arithmetic helpers -/

/-- `scipy.special.comb(n, k, exact=True)` for `n, k ≥ 0` (Pascal's rule) -/
def choose : Nat → Nat → Nat
  | _, 0 => 1
  | 0, _ + 1 => 0
  | n + 1, k + 1 => choose n k + choose n (k + 1)

/-- `reduce(operator.mul, l, 1)` / `np.prod(l)` (exact integers; `np.prod([]) = 1`) -/
def prodL : List Nat → Nat
  | [] => 1
  | a :: l => a * prodL l

/-- `sum(l)` -/
def sumL : List Nat → Nat
  | [] => 0
  | a :: l => a + sumL l

/-! ### reference enumerations (models of itertools) -/

/-- `itertools.combinations(range(lo, lo + d), m)`, lexicographic -/
def combsAux : Nat → Nat → Nat → List (List Nat)
  | _, _, 0 => [[]]
  | 0, _, _ + 1 => []
  | d + 1, lo, m + 1 => (combsAux d (lo + 1) m).map (lo :: ·) ++ combsAux d (lo + 1) (m + 1)

/-- `itertools.combinations(range(n), m)` -/
def combinations (n m : Nat) : List (List Nat) := combsAux n 0 m

/-- `itertools.product(*[range(s) for s in sizes])` -/
def blockProduct : List Nat → List (List Nat)
  | [] => [[]]
  | s :: rest => (List.range s).flatMap (fun a => (blockProduct rest).map (a :: ·))

/-- `itertools.product(range(n), repeat=m)` -/
def product (n : Nat) : Nat → List (List Nat)
  | 0 => [[]]
  | m + 1 => (List.range n).flatMap (fun a => (product n m).map (a :: ·))

/-! ### the three index decoders (xgi/generators/uniform.py) -/

/-- inner `while r - comb(n-1-cs, m-s) > 0: r -= comb(n-1-cs, m-s); cs += 1` of `_index_to_edge_comb`
    (`k = m - s`); returns `(cs, r)`; `none` = fuel exhausted (the Python loop would not have stopped
    within `fuel` iterations) -/
def combInner (n k : Nat) : Nat → Nat → Nat → Option (Nat × Nat)
  | 0, _, _ => none
  | fuel + 1, cs, r =>
    if r > choose (n - 1 - cs) k then combInner n k fuel (cs + 1) (r - choose (n - 1 - cs) k)
    else some (cs, r)

/-- outer `for s in range(1, m+1)` of `_index_to_edge_comb`; `k + 1` = number of entries still to
    produce (so `m - s = k`), `start = j + 1`, `r` the running remainder -/
def combOuter (n : Nat) : Nat → Nat → Nat → Option (List Nat)
  | 0, _, _ => some []
  | k + 1, start, r =>
    match combInner n k (n + 1) start r with
    | none => none
    | some (cs, r') =>
      match combOuter n k (cs + 1) r' with
      | none => none
      | some c => some (cs :: c)

/-- `_index_to_edge_comb(index, n, m)`; `none` when the inner loop does not stop within `n + 1` rounds
    (this happens only for `index ≥ comb(n, m)`, where the Python code warns and then loops for ever) -/
def indexToEdgeComb (n m index : Nat) : Option (List Nat) := combOuter n m 0 (index + 1)

/-- `[(index // (n**r) % n) for r in range(m - 1, -1, -1)]` (`_index_to_edge_prod`) -/
def indexToEdgeProd (n : Nat) : Nat → Nat → List Nat
  | 0, _ => []
  | m + 1, index => (index / n ^ m % n) :: indexToEdgeProd n m index

/-- `[int(index // np.prod(sizes[r+1:]) % sizes[r]) for r in range(len(sizes))]`
    (`_index_to_edge_partition` with `m = len(partition_sizes)`, as `uniform_HSBM` calls it) -/
def indexToEdgePartition : List Nat → Nat → List Nat
  | [], _ => []
  | s :: rest, index => (index / prodL rest % s) :: indexToEdgePartition rest index

/-! ### geometric skip sampling -/

/-- the `while index <= max_index: …; index += geometric(p)` loop with `count = max_index + 1`;
    returns the visited indices and the unconsumed gaps -/
def skipLoop (count : Nat) : Nat → List Nat → Option (List Nat × List Nat)
  | idx, [] => if idx < count then none else some ([], [])
  | idx, g :: gs =>
    if idx < count then
      match skipLoop count (idx + g) gs with
      | none => none
      | some (is, rest) => some (idx :: is, rest)
    else some ([], g :: gs)

/-- `index = geometric(p) - 1` followed by the loop -/
def skipSample (count : Nat) : List Nat → Option (List Nat × List Nat)
  | [] => none
  | g :: gs => if g = 0 then none else skipLoop count (g - 1) gs

/-- the three branches every generator distinguishes: `p == 0`, `p == 1`, `0 < p < 1` -/
inductive Prob where
  | zero | one | mid
  deriving DecidableEq, Repr, Inhabited

/-- `xs.mapM f` for an `Option`-valued decoder -/
def mapOpt {α β} (f : α → Option β) : List α → Option (List β)
  | [] => some []
  | a :: l => match f a, mapOpt f l with
    | some b, some bs => some (b :: bs)
    | _, _ => none

/-! ### fast_random_hypergraph / random_hypergraph (xgi/generators/random.py) -/

/-- one `(d, p)` round of `fast_random_hypergraph` (`size = d + 1`) -/
def fastRandomOrder (n size : Nat) (p : Prob) (gaps : List Nat) : Option (List (List Nat) × List Nat) :=
  match p with
  | .one => some (combinations n size, gaps)
  | .zero => some ([], gaps)
  | .mid =>
    match skipSample (choose n size) gaps with
    | none => none
    | some (is, rest) =>
      match mapOpt (indexToEdgeComb n size) is with
      | none => none
      | some es => some (es, rest)

/-- `fast_random_hypergraph(n, ps, order)`: `rounds` = the `(d + 1, p-kind)` pairs in order -/
def fastRandom (n : Nat) : List (Nat × Prob) → List Nat → Option (List (List Nat) × List Nat)
  | [], gaps => some ([], gaps)
  | (size, p) :: rs, gaps =>
    match fastRandomOrder n size p gaps with
    | none => none
    | some (es, rest) =>
      match fastRandom n rs rest with
      | none => none
      | some (es', rest') => some (es ++ es', rest')

/-- keep the items whose coin is `True`; returns the unconsumed coins (`none`: too few coins) -/
def pick {α} : List α → List Bool → Option (List α × List Bool)
  | [], coins => some ([], coins)
  | _ :: _, [] => none
  | a :: l, c :: cs => match pick l cs with
    | none => none
    | some (r, rest) => some (if c then a :: r else r, rest)

/-- `random_hypergraph(n, ps, order)` / the simplex selection of `random_simplicial_complex`:
    for each size, every combination is kept iff its coin (`random() <= p`) is `True` -/
def coinRandom (n : Nat) : List Nat → List Bool → Option (List (List Nat) × List Bool)
  | [], coins => some ([], coins)
  | size :: rs, coins =>
    match pick (combinations n size) coins with
    | none => none
    | some (es, rest) =>
      match coinRandom n rs rest with
      | none => none
      | some (es', rest') => some (es ++ es', rest')

/-! ### uniform_erdos_renyi_hypergraph (xgi/generators/uniform.py) -/

/-- the `if len(e) == m` filter applied to decoded tuples that may repeat a node -/
def keepUniform (m : Nat) (es : List (List Nat)) : List (List Nat) :=
  (es.map dedup).filter (fun e => e.length == m)

/-- `uniform_erdos_renyi_hypergraph(n, m, q, multiedges)` after `q` has been classified -/
def erdosRenyi (n m : Nat) (multi : Bool) (p : Prob) (gaps : List Nat) : Option (List (List Nat) × List Nat) :=
  match p, multi with
  | .one, false => some (combinations n m, gaps)          -- complete_hypergraph(n, order=m-1)
  | .zero, _ => some ([], gaps)
  | _, true =>
    match skipSample (n ^ m) gaps with
    | none => none
    | some (is, rest) => some (keepUniform m (is.map (indexToEdgeProd n m)), rest)
  | .mid, false =>
    match skipSample (choose n m) gaps with
    | none => none
    | some (is, rest) =>
      match mapOpt (indexToEdgeComb n m) is with
      | none => none
      | some es => some (keepUniform m es, rest)

/-! ### uniform_HSBM (with the proposed fix for probability-1 blocks) -/

/-- `size_cumsum` -/
def cumsum : List Nat → List Nat
  | [] => [0]
  | s :: rest => 0 :: (cumsum rest).map (s + ·)

/-- node labels of a tuple of in-block positions: `partition[block[i]][indices[i]]` -/
def labelOf (offs idxs : List Nat) : List Nat := List.zipWith (· + ·) offs idxs

/-- one block of `uniform_HSBM`; `psizes`/`offs` = sizes and first labels of the blocks named by `block` -/
def hsbmBlock (m : Nat) (psizes offs : List Nat) (p : Prob) (gaps : List Nat) :
    Option (List (List Nat) × List Nat) :=
  match p with
  | .one => some (keepUniform m ((blockProduct psizes).map (labelOf offs)), gaps)
  | .zero => some ([], gaps)
  | .mid =>
    match skipSample (prodL psizes) gaps with
    | none => none
    | some (is, rest) => some (keepUniform m (is.map (fun i => labelOf offs (indexToEdgePartition psizes i))), rest)

/-- the loop `for block in itertools.product(block_range, repeat=m)`; `ps` = the probability kinds of
    the tensor in C order (= lexicographic block order) -/
def hsbmLoop (m : Nat) (sizes cum : List Nat) : List (List Nat) → List Prob → List Nat →
    Option (List (List Nat) × List Nat)
  | [], _, gaps => some ([], gaps)
  | _ :: _, [], _ => none
  | block :: bs, p :: ps, gaps =>
    match hsbmBlock m (block.map (fun b => sizes.getD b 0)) (block.map (fun b => cum.getD b 0)) p gaps with
    | none => none
    | some (es, rest) =>
      match hsbmLoop m sizes cum bs ps rest with
      | none => none
      | some (es', rest') => some (es ++ es', rest')

/-- `uniform_HSBM(n, m, p, sizes)` for `sum(sizes) = n` -/
def hsbm (m : Nat) (sizes : List Nat) (ps : List Prob) (gaps : List Nat) : Option (List (List Nat) × List Nat) :=
  hsbmLoop m sizes (cumsum sizes) (product sizes.length m) ps gaps

/-! ### complete_hypergraph (xgi/generators/classic.py) -/

/-- `complete_hypergraph(N, order=order)` -/
def completeOrder (n order : Nat) : List (List Nat) := combinations n (order + 1)

/-- sizes `start, start+1, …` (`cnt` of them) chained -/
def combsSizes (n : Nat) : Nat → Nat → List (List Nat)
  | _, 0 => []
  | start, cnt + 1 => combinations n start ++ combsSizes n (start + 1) cnt

/-- `complete_hypergraph(N, max_order=max_order, include_singletons=…)`:
    `chain.from_iterable(combinations(s, r) for r in range(start, max_order + 2))` -/
def completeMax (n maxOrder : Nat) (singletons : Bool) : List (List Nat) :=
  let start := if singletons then 1 else 2
  combsSizes n start (maxOrder + 2 - start)

/-! ### uniform_hypergraph_configuration_model -/

/-- `for idx in k: stubs.extend([idx] * k[idx])` -/
def stubsOf : List (Nat × Nat) → List Nat
  | [] => []
  | (i, d) :: rest => List.replicate d i ++ stubsOf rest

/-- `for idx in random_ids: k[idx] = k[idx] + 1` -/
def bumpDeg (k : List (Nat × Nat)) (bump : List Nat) : List (Nat × Nat) :=
  k.map (fun p => if p.1 ∈ bump then (p.1, p.2 + 1) else p)

/-- insert into a descending list -/
def insDesc (a : Nat) : List Nat → List Nat
  | [] => [a]
  | b :: l => if b ≤ a then a :: b :: l else b :: insDesc a l

/-- `sorted(u, reverse=True)` (insertion sort, structurally recursive so that it evaluates in proofs) -/
def sortDesc : List Nat → List Nat
  | [] => []
  | a :: l => insDesc a (sortDesc l)

/-- `for index in sorted(u, reverse=True): del stubs[index]` -/
def delStubs (stubs : List Nat) (u : List Nat) : List Nat :=
  (sortDesc u).foldl (fun s i => s.eraseIdx i) stubs

/-- a legal result of `random.sample(range(len), m)` -/
def validChoice (len m : Nat) (u : List Nat) : Bool :=
  u.length == m && u.all (· < len) && decide u.Nodup

/-- the `while len(stubs) != 0` loop -/
def cfgLoop (m : Nat) : List Nat → List (List Nat) → Option (List (List Nat))
  | stubs, [] => if stubs.isEmpty then some [] else none
  | stubs, u :: us =>
    if stubs.isEmpty then none
    else if validChoice stubs.length m u then
      let edge := dedup (u.map (fun i => stubs.getD i 0))
      match cfgLoop m (delStubs stubs u) us with
      | none => none
      | some es => some (if edge.length == m then edge :: es else es)
    else none

/-- the degree sequence actually used: `k` itself when `sum(k) % m == 0`, else `k` with the sampled
    `bump` nodes incremented (`none`: `bump` is not a legal sample) -/
def cfgDegrees (k : List (Nat × Nat)) (m : Nat) (bump : List Nat) : Option (List (Nat × Nat)) :=
  let rem := sumL (k.map (·.2)) % m
  if rem = 0 then (if bump.isEmpty then some k else none)
  else if bump.length == m - rem && decide bump.Nodup && bump.all (fun i => i ∈ k.map (·.1)) then some (bumpDeg k bump)
  else none

/-- `uniform_hypergraph_configuration_model(k, m)` for `m ≥ 1`, distinct keys -/
def configModel (k : List (Nat × Nat)) (m : Nat) (bump : List Nat) (choices : List (List Nat)) :
    Option (List (List Nat)) :=
  if m = 0 then none else
  match cfgDegrees k m bump with
  | none => none
  | some k' => cfgLoop m (stubsOf k') choices

/-! ### simple closed-form generators -/

/-- `trivial_hypergraph(n)` / `empty_hypergraph()`: nodes only -/
def trivialNodes (n : Nat) : List Nat := List.range n

/-- `ring_lattice(n, d, k, l)`: the raw member lists (before `Hypergraph(edges)` turns them into sets) -/
def ringLattice (n d k l : Nat) : List (List Nat) :=
  (List.range n).flatMap (fun node =>
    (List.range (k / 2)).map (fun j =>
      node :: (List.range (d - 1)).map (fun i => (node + 1 + j + l + i) % n)))

/-- `sunflower(l, c, m)` for `m ≥ c` (with the proposed fix: one petal per `range(l)`; identical to the
    `while` loop of the current code whenever `m > c`, where that loop terminates) -/
def sunflower (l c m : Nat) : List (List Nat) :=
  (List.range l).map (fun t => List.range c ++ (List.range (m - c)).map (fun i => c + t * (m - c) + i))

/-- clique part of `star_clique`: `[e for d in range(1, d_max+1) for e in combinations(nodes_clique, d+1)]` -/
def cliqueEdges (nStar nClique : Nat) : Nat → Nat → List (List Nat)
  | _, 0 => []
  | size, cnt + 1 => combsAux nClique nStar size ++ cliqueEdges nStar nClique (size + 1) cnt

/-- `star_clique(n_star, n_clique, d_max)` for `n_star, n_clique ≥ 1`, `d_max ≤ n_clique - 1` -/
def starClique (nStar nClique dMax : Nat) : List (List Nat) :=
  (List.range (nStar - 1)).map (fun i => [0, i + 1]) ++ [[0, nStar]] ++ cliqueEdges nStar nClique 2 dMax

/-! ### simplicial complexes -/

/-- is the strictly increasing list a clique of the graph `adj`? -/
def isClique (adj : Nat → Nat → Bool) : List Nat → Bool
  | [] => true
  | a :: l => l.all (fun b => adj a b) && isClique adj l

/-- cliques with `size, size+1, …` (`cnt` sizes) nodes, by filtering all node subsets -/
def cliquesSizes (n : Nat) (adj : Nat → Nat → Bool) : Nat → Nat → List (List Nat)
  | _, 0 => []
  | size, cnt + 1 => (combinations n size).filter (isClique adj) ++ cliquesSizes n adj (size + 1) cnt

/-- `flag_complex(G, max_order)` / `random_flag_complex`: all cliques with 2 … max_order+1 nodes
    (nodes relabelled `0..n-1`; `nx.enumerate_all_cliques` is modelled by brute-force filtering) -/
def flagComplex (n : Nat) (adj : Nat → Nat → Bool) (maxOrder : Nat) : List (List Nat) :=
  cliquesSizes n adj 2 maxOrder

/-- all sub-lists (order preserving) of a list: the subsets of a simplex -/
def sublists : List Nat → List (List Nat)
  | [] => [[]]
  | a :: l => sublists l ++ (sublists l).map (a :: ·)

/-- faces with at least two nodes of a simplex (what `add_simplices_from` adds) -/
def faces (s : List Nat) : List (List Nat) := (sublists s).filter (fun t => decide (2 ≤ t.length))

/-- `S.add_simplices_from(simplices)` on an empty complex: all faces, once each -/
def closure (simplices : List (List Nat)) : List (List Nat) := dedup (simplices.flatMap faces)

/-- `flag_complex(G, max_order, ps)` / `flag_complex_d2(G, p2)`: all graph edges plus the closure of the cliques that
    won their coin flip (`picked`: the promoted cliques, the oracle; each must be a clique with ≥ 3 and ≤ max_order+1
    nodes, else `none`) -/
def flagPromoted (n : Nat) (adj : Nat → Nat → Bool) (maxOrder : Nat) (picked : List (List Nat)) : Option (List (List Nat)) :=
  if picked.all (fun c => decide (c ∈ flagComplex n adj maxOrder) && decide (3 ≤ c.length)) then
    some (dedup (flagComplex n adj 1 ++ picked.flatMap faces))
  else none

/-- `random_simplicial_complex(N, ps)`: sizes `2 … len(ps)+1`, coin per combination, then closure -/
def randomSC (n : Nat) (sizes : List Nat) (coins : List Bool) : Option (List (List Nat) × List Bool) :=
  match coinRandom n sizes coins with
  | none => none
  | some (es, rest) => some (closure es, rest)

end Xgi.C16
