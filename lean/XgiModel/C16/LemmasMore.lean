/-
  C16 — helper lemmas: Erdős–Rényi, HSBM, configuration model.
-/
import XgiModel.C16.LemmasGen

namespace Xgi.C16

/-! ### product decoder -/

theorem prod_decode_l (n m : Nat) : (List.range (n ^ m)).map (indexToEdgeProd n m) = product n m := by
  rw [product_eq_block, ← part_decode, prodL_replicate]
  apply List.map_congr_left
  intro i _
  exact prod_eq_part n m i

theorem mem_product (n m : Nat) (t : List Nat) : t ∈ product n m ↔ t.length = m ∧ ∀ x ∈ t, x < n := by
  rw [product_eq_block, mem_blockProduct]
  induction m generalizing t with
  | zero => cases t <;> simp
  | succ m ih =>
    cases t with
    | nil => simp [List.replicate_succ]
    | cons a t => simp [List.replicate_succ, List.forall₂_cons, ih, and_left_comm]

theorem indexToEdgeProd_mem (n m i : Nat) (h : i < n ^ m) : indexToEdgeProd n m i ∈ product n m := by
  rw [← prod_decode_l]
  exact List.mem_map_of_mem (List.mem_range.mpr h)

theorem indexToEdgePartition_mem (sizes : List Nat) (i : Nat) (h : i < prodL sizes) :
    indexToEdgePartition sizes i ∈ blockProduct sizes := by
  rw [← part_decode]
  exact List.mem_map_of_mem (List.mem_range.mpr h)

/-! ### uniform_erdos_renyi_hypergraph -/

theorem erdosRenyi_spec (n m : Nat) (multi : Bool) (p : Prob) (gaps : List Nat) (es : List (List Nat)) (rest : List Nat)
    (hg : ∀ g ∈ gaps, 1 ≤ g) (h : erdosRenyi n m multi p gaps = some (es, rest)) :
    (∀ e ∈ es, e.length = m ∧ e.Nodup ∧ ∀ x ∈ e, x < n) ∧ (multi = false → es.Nodup) ∧ (p = .zero → es = []) ∧
      (p = .one → multi = false → es = combinations n m) := by
  have multiCase : ∀ is rest', skipSample (n ^ m) gaps = some (is, rest') →
      ∀ e ∈ keepUniform m (is.map (indexToEdgeProd n m)), e.length = m ∧ e.Nodup ∧ ∀ x ∈ e, x < n := by
    intro is rest' hs e he
    obtain ⟨-, h2, -⟩ := skipSample_spec _ _ _ _ hg hs
    rw [mem_keepUniform] at he
    obtain ⟨⟨t, ht, rfl⟩, hl⟩ := he
    refine ⟨hl, nodup_dedup t, ?_⟩
    intro x hx
    rw [mem_dedup] at hx
    rw [List.mem_map] at ht
    obtain ⟨i, hi, rfl⟩ := ht
    exact ((mem_product n m _).mp (indexToEdgeProd_mem n m i (h2 i hi))).2 x hx
  have combCase : ∀ is rest' es', skipSample (choose n m) gaps = some (is, rest') →
      mapOpt (indexToEdgeComb n m) is = some es' →
      keepUniform m es' = es' ∧ es'.Nodup ∧ ∀ e ∈ es', e.length = m ∧ e.Nodup ∧ ∀ x ∈ e, x < n := by
    intro is rest' es' hs hm
    obtain ⟨h1, h2, -⟩ := skipSample_spec _ _ _ _ hg hs
    obtain ⟨d1, d2, -⟩ := decoded_comb n m is es' h1 h2 hm
    have hall : ∀ e ∈ es', e.length = m ∧ e.Nodup ∧ ∀ x ∈ e, x < n := by
      intro e he
      obtain ⟨a, b⟩ := (mem_combinations _ _ _).mp (d2 e he)
      exact ⟨a, admissible_nodup b, b.2⟩
    exact ⟨keepUniform_id m es' (fun e he => ⟨(hall e he).1, (hall e he).2.1⟩), d1, hall⟩
  cases p <;> cases multi <;> simp only [erdosRenyi] at h
  · -- zero, false
    simp at h; obtain ⟨rfl, rfl⟩ := h; simp
  · simp at h; obtain ⟨rfl, rfl⟩ := h; simp
  · -- one, false
    simp at h; obtain ⟨rfl, rfl⟩ := h
    refine ⟨?_, fun _ => nodup_combinations _ _, by simp, by simp⟩
    intro e he
    obtain ⟨a, b⟩ := (mem_combinations _ _ _).mp he
    exact ⟨a, admissible_nodup b, b.2⟩
  · -- one, true
    split at h
    · simp at h
    · rename_i is rest' hs
      simp at h; obtain ⟨rfl, rfl⟩ := h
      exact ⟨multiCase is _ hs, by simp, by simp, by simp⟩
  · -- mid, false
    split at h
    · simp at h
    · rename_i is rest' hs
      split at h
      · simp at h
      · rename_i es' hm
        simp at h; obtain ⟨rfl, rfl⟩ := h
        obtain ⟨c1, c2, c3⟩ := combCase is _ es' hs hm
        rw [c1]
        exact ⟨c3, fun _ => c2, by simp, by simp⟩
  · -- mid, true
    split at h
    · simp at h
    · rename_i is rest' hs
      simp at h; obtain ⟨rfl, rfl⟩ := h
      exact ⟨multiCase is _ hs, by simp, by simp, by simp⟩

/-! ### uniform_HSBM -/

theorem getD_map_le (l : List Nat) (s b : Nat) : (l.map (s + ·)).getD b 0 ≤ s + l.getD b 0 := by
  rw [List.getD_eq_getElem?_getD, List.getD_eq_getElem?_getD, List.getElem?_map]
  cases l[b]? <;> simp

theorem cumsum_bound : ∀ (sizes : List Nat) (b : Nat), (cumsum sizes).getD b 0 + sizes.getD b 0 ≤ sumL sizes := by
  intro sizes
  induction sizes with
  | nil => intro b; cases b <;> simp [cumsum, sumL]
  | cons s rest ih =>
    intro b
    cases b with
    | zero => simp [cumsum, sumL]
    | succ b =>
      simp only [cumsum, sumL, List.getD_cons_succ]
      have := getD_map_le (cumsum rest) s b
      have := ih b
      omega

theorem labelOf_lt (sizes cum : List Nat) (N : Nat) (hb : ∀ b, cum.getD b 0 + sizes.getD b 0 ≤ N) :
    ∀ (block t : List Nat), List.Forall₂ (· < ·) t (block.map (fun b => sizes.getD b 0)) →
      ∀ x ∈ labelOf (block.map (fun b => cum.getD b 0)) t, x < N := by
  intro block
  induction block with
  | nil => intro t ht x hx; cases ht; simp [labelOf] at hx
  | cons b bs ih =>
    intro t ht x hx
    cases ht with
    | cons ha hts =>
      simp only [labelOf, List.map_cons, List.zipWith_cons_cons, List.mem_cons] at hx
      rcases hx with rfl | hx
      · have := hb b
        have ha' : _ < sizes.getD b 0 := ha
        omega
      · exact ih _ hts x hx

theorem hsbmBlock_spec (m : Nat) (sizes cum : List Nat) (N : Nat) (hb : ∀ b, cum.getD b 0 + sizes.getD b 0 ≤ N)
    (block : List Nat) (p : Prob) (gaps : List Nat) (es : List (List Nat)) (rest : List Nat) (hg : ∀ g ∈ gaps, 1 ≤ g)
    (h : hsbmBlock m (block.map (fun b => sizes.getD b 0)) (block.map (fun b => cum.getD b 0)) p gaps = some (es, rest)) :
    (∀ e ∈ es, e.length = m ∧ e.Nodup ∧ ∀ x ∈ e, x < N) ∧ (p = .zero → es = []) ∧ ∃ used, gaps = used ++ rest := by
  have key : ∀ (ts : List (List Nat)), (∀ t ∈ ts, t ∈ blockProduct (block.map (fun b => sizes.getD b 0))) →
      ∀ e ∈ keepUniform m (ts.map (labelOf (block.map (fun b => cum.getD b 0)))), e.length = m ∧ e.Nodup ∧ ∀ x ∈ e, x < N := by
    intro ts hts e he
    rw [mem_keepUniform] at he
    obtain ⟨⟨l, hl, rfl⟩, hlen⟩ := he
    refine ⟨hlen, nodup_dedup l, ?_⟩
    intro x hx
    rw [mem_dedup] at hx
    rw [List.mem_map] at hl
    obtain ⟨t, ht, rfl⟩ := hl
    exact labelOf_lt sizes cum N hb block t ((mem_blockProduct _ _).mp (hts t ht)) x hx
  cases p <;> simp only [hsbmBlock] at h
  · simp at h; obtain ⟨rfl, rfl⟩ := h; simp
  · simp at h; obtain ⟨rfl, rfl⟩ := h
    exact ⟨key _ (fun t ht => ht), by simp, [], by simp⟩
  · split at h
    · simp at h
    · rename_i is rest' hs
      simp at h; obtain ⟨rfl, rfl⟩ := h
      obtain ⟨-, h2, h3⟩ := skipSample_spec _ _ _ _ hg hs
      refine ⟨?_, by simp, h3⟩
      have := key (is.map (indexToEdgePartition (block.map (fun b => sizes.getD b 0)))) (by
        intro t ht
        rw [List.mem_map] at ht
        obtain ⟨i, hi, rfl⟩ := ht
        exact indexToEdgePartition_mem _ i (h2 i hi))
      rw [List.map_map] at this
      exact this

theorem hsbmLoop_spec (m : Nat) (sizes cum : List Nat) (N : Nat) (hb : ∀ b, cum.getD b 0 + sizes.getD b 0 ≤ N) :
    ∀ (blocks : List (List Nat)) (ps : List Prob) (gaps : List Nat) (es : List (List Nat)) (rest : List Nat),
      (∀ g ∈ gaps, 1 ≤ g) → hsbmLoop m sizes cum blocks ps gaps = some (es, rest) →
      (∀ e ∈ es, e.length = m ∧ e.Nodup ∧ ∀ x ∈ e, x < N) ∧ ((∀ p ∈ ps, p = .zero) → es = []) ∧ ∃ used, gaps = used ++ rest := by
  intro blocks
  induction blocks with
  | nil => intro ps gaps es rest _ h; simp [hsbmLoop] at h; obtain ⟨rfl, rfl⟩ := h; simp
  | cons block bs ih =>
    intro ps gaps es rest hg h
    cases ps with
    | nil => simp [hsbmLoop] at h
    | cons p ps =>
      simp only [hsbmLoop] at h
      split at h
      · simp at h
      · rename_i es1 rest1 h1
        split at h
        · simp at h
        · rename_i es2 rest2 h2
          simp at h; obtain ⟨rfl, rfl⟩ := h
          obtain ⟨a1, a2, used1, a3⟩ := hsbmBlock_spec m sizes cum N hb block p gaps es1 rest1 hg h1
          have hg1 : ∀ g ∈ rest1, 1 ≤ g := fun g hgm => hg g (by rw [a3]; simp [hgm])
          obtain ⟨b1, b2, used2, b3⟩ := ih ps rest1 es2 rest2 hg1 h2
          refine ⟨?_, ?_, used1 ++ used2, by rw [a3, b3]; simp⟩
          · intro e he
            rw [List.mem_append] at he
            rcases he with he | he
            · exact a1 e he
            · exact b1 e he
          · intro hz
            rw [a2 (hz p (by simp)), b2 (fun q hq => hz q (by simp [hq]))]
            rfl

/-- a block with probability 1 (fixed code: `itertools.product` of the blocks + the uniformity filter) produces
    exactly what the skip-sampling branch produces when every gap is 1 -/
theorem hsbmBlock_one_eq_ones (m : Nat) (psizes offs : List Nat) (gaps : List Nat) :
    hsbmBlock m psizes offs .one gaps = some (keepUniform m ((blockProduct psizes).map (labelOf offs)), gaps) ∧
    hsbmBlock m psizes offs .mid (List.replicate (prodL psizes + 1) 1) =
      some (keepUniform m ((blockProduct psizes).map (labelOf offs)), []) := by
  constructor
  · rfl
  · simp only [hsbmBlock, skipSample_ones]
    rw [← part_decode, List.map_map]
    rfl

/-! ### configuration model -/

/-- number of edges that contain `v` -/
def degIn (v : Nat) (es : List (List Nat)) : Nat := (es.filter (fun e => decide (v ∈ e))).length

set_option linter.unnecessarySeqFocus false in
theorem count_eraseIdx_add (v : Nat) (s : List Nat) (i : Nat) (h : i < s.length) :
    (s.eraseIdx i).count v + (if s.getD i 0 = v then 1 else 0) = s.count v := by
  have h1 : s = s.take i ++ (s[i] :: s.drop (i + 1)) := by
    rw [← List.drop_eq_getElem_cons h, List.take_append_drop]
  have h2 : s.getD i 0 = s[i] := by simp [List.getD_eq_getElem?_getD, h]
  rw [List.eraseIdx_eq_take_drop_succ, h2]
  conv_rhs => rw [h1]
  clear h1 h2
  simp only [List.count_append, List.count_cons]
  by_cases hv : s[i] = v <;> simp [hv] <;> omega

set_option linter.unnecessarySeqFocus false in
theorem foldl_erase_count (v : Nat) : ∀ (ds s : List Nat), ds.Pairwise (· > ·) → (∀ i ∈ ds, i < s.length) →
    (ds.foldl (fun s i => s.eraseIdx i) s).count v + (ds.map (fun i => s.getD i 0)).count v = s.count v := by
  intro ds
  induction ds with
  | nil => intro s _ _; simp
  | cons i rest ih =>
    intro s hp hl
    rw [List.pairwise_cons] at hp
    have hi := hl i (by simp)
    have hrest : ∀ j ∈ rest, j < (s.eraseIdx i).length := by
      intro j hj
      have := hp.1 j hj; have := hl j (by simp [hj])
      rw [List.length_eraseIdx]; split <;> omega
    have hmap : rest.map (fun j => (s.eraseIdx i).getD j 0) = rest.map (fun j => s.getD j 0) := by
      apply List.map_congr_left
      intro j hj
      simp only [List.getD_eq_getElem?_getD]
      rw [List.getElem?_eraseIdx_of_lt (hp.1 j hj)]
    have := ih (s.eraseIdx i) hp.2 hrest
    rw [hmap] at this
    have e := count_eraseIdx_add v s i hi
    simp only [List.foldl_cons, List.map_cons, List.count_cons]
    split <;> simp_all <;> omega

theorem insDesc_perm (a : Nat) : ∀ l : List Nat, (insDesc a l).Perm (a :: l) := by
  intro l
  induction l with
  | nil => simp [insDesc]
  | cons b t ih =>
    simp only [insDesc]
    split
    · exact List.Perm.refl _
    · exact (List.Perm.cons b ih).trans (List.Perm.swap a b t)

theorem sortDesc_perm : ∀ l : List Nat, (sortDesc l).Perm l := by
  intro l
  induction l with
  | nil => simp [sortDesc]
  | cons a t ih => exact (insDesc_perm a _).trans (List.Perm.cons a ih)

theorem insDesc_sorted (a : Nat) : ∀ l : List Nat, l.Pairwise (· ≥ ·) → (insDesc a l).Pairwise (· ≥ ·) := by
  intro l
  induction l with
  | nil => intro _; simp [insDesc]
  | cons b t ih =>
    intro h
    rw [List.pairwise_cons] at h
    simp only [insDesc]
    split
    · rename_i hba
      rw [List.pairwise_cons]
      refine ⟨?_, List.pairwise_cons.mpr h⟩
      intro x hx
      rw [List.mem_cons] at hx
      rcases hx with rfl | hx
      · exact hba
      · have := h.1 x hx; omega
    · rename_i hba
      rw [List.pairwise_cons]
      refine ⟨?_, ih h.2⟩
      intro x hx
      have := (insDesc_perm a t).mem_iff.mp hx
      rw [List.mem_cons] at this
      rcases this with rfl | hx'
      · omega
      · exact h.1 x hx'

theorem sortDesc_sorted : ∀ l : List Nat, (sortDesc l).Pairwise (· ≥ ·) := by
  intro l
  induction l with
  | nil => simp [sortDesc]
  | cons a t ih => exact insDesc_sorted a _ ih

theorem delStubs_count (v : Nat) (stubs u : List Nat) (hn : u.Nodup) (hl : ∀ i ∈ u, i < stubs.length) :
    (delStubs stubs u).count v + (u.map (fun i => stubs.getD i 0)).count v = stubs.count v := by
  unfold delStubs
  have hperm := sortDesc_perm u
  have hsorted : (sortDesc u).Pairwise (· > ·) := by
    have h2 : (sortDesc u).Nodup := hperm.nodup_iff.mpr hn
    have h3 := List.Pairwise.and (sortDesc_sorted u) h2
    refine h3.imp ?_
    intro a b hab
    omega
  have := foldl_erase_count v _ stubs hsorted (fun i hi => hl i (hperm.mem_iff.mp hi))
  rw [(hperm.map _).count_eq] at this
  exact this

theorem cfgLoop_degree (m : Nat) (v : Nat) : ∀ (choices : List (List Nat)) (stubs : List Nat) (es : List (List Nat)),
    cfgLoop m stubs choices = some es → degIn v es ≤ stubs.count v := by
  intro choices
  induction choices with
  | nil =>
    intro stubs es h
    simp only [cfgLoop] at h
    split at h
    · simp at h; subst h; simp [degIn]
    · simp at h
  | cons u us ih =>
    intro stubs es h
    simp only [cfgLoop] at h
    split at h
    · simp at h
    · split at h
      · rename_i hv
        split at h
        · simp at h
        · rename_i es' hrec
          have hrec' := ih _ _ hrec
          simp only [validChoice, Bool.and_eq_true, decide_eq_true_eq, List.all_eq_true] at hv
          have hcount := delStubs_count v stubs u hv.2 (fun i hi => by simpa using hv.1.2 i hi)
          simp at h
          subst h
          split
          · simp only [degIn, List.filter_cons]
            split
            · rename_i hmem
              simp only [decide_eq_true_eq, mem_dedup] at hmem
              have : 0 < (u.map (fun i => stubs.getD i 0)).count v := List.count_pos_iff.mpr hmem
              simp only [List.length_cons]
              unfold degIn at hrec'
              omega
            · unfold degIn at hrec'; omega
          · omega
      · simp at h

theorem not_mem_stubsOf (v : Nat) : ∀ (k : List (Nat × Nat)), v ∉ k.map (·.1) → v ∉ stubsOf k := by
  intro k
  induction k with
  | nil => intro _; simp [stubsOf]
  | cons p rest ih =>
    intro h
    obtain ⟨i, d⟩ := p
    simp only [List.map_cons, List.mem_cons, not_or] at h
    simp only [stubsOf, List.mem_append, List.mem_replicate, not_or]
    exact ⟨fun hh => h.1 hh.2, ih h.2⟩

theorem count_stubsOf (v d : Nat) : ∀ (k : List (Nat × Nat)), (k.map (·.1)).Nodup → (v, d) ∈ k → (stubsOf k).count v = d := by
  intro k
  induction k with
  | nil => intro _ h; simp at h
  | cons p rest ih =>
    intro hn hm
    obtain ⟨i, e⟩ := p
    simp only [List.map_cons, List.nodup_cons] at hn
    simp only [stubsOf, List.count_append]
    rw [List.mem_cons] at hm
    rcases hm with hm | hm
    · cases hm
      rw [List.count_replicate_self, List.count_eq_zero_of_not_mem (not_mem_stubsOf v rest hn.1)]
      rfl
    · have hv : v ∈ rest.map (·.1) := List.mem_map.mpr ⟨(v, d), hm, rfl⟩
      have hne : i ≠ v := fun hh => hn.1 (hh ▸ hv)
      rw [List.count_replicate, ih hn.2 hm]
      simp [hne]

end Xgi.C16
