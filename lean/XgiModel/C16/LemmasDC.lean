/-
  C16 helper lemmas for the DCSBM model (XgiModel/C16/GenRand.lean).
-/
import XgiModel.C16.LemmasCL

namespace Xgi.C16

/-- a non-zero probability in a patch needs positive degree, positive size and a non-zero `omega` entry -/
theorem dcProb_ne_zero (om den du dv : Nat) (qq : Rat) (h : dcProb (gcOf om den) du dv = some qq) (hq : qq ≠ 0) :
    0 < du ∧ 0 < dv ∧ 0 < om := by
  have pos : ∀ a b : Nat, a * b ≠ 0 → 0 < a ∧ 0 < b := fun a b hab =>
    ⟨Nat.pos_of_ne_zero (fun h => hab (by simp [h])), Nat.pos_of_ne_zero (fun h => hab (by simp [h]))⟩
  unfold gcOf at h
  split at h
  · split at h
    · simp [dcProb] at h
    · rename_i hom
      simp only [dcProb] at h
      split at h
      · simp at h
      · rename_i hne
        exact ⟨(pos _ _ hne).1, (pos _ _ hne).2, Nat.pos_of_ne_zero hom⟩
  · simp only [dcProb, Option.some.injEq] at h
    subst h
    have h1 := min_one_ne_zero hq
    have hne : du * dv ≠ 0 := by
      intro h0; apply h1; rw [h0]; simp
    have hom : om ≠ 0 := by
      intro h0; apply h1; rw [h0]; simp
    exact ⟨(pos _ _ hne).1, (pos _ _ hne).2, Nat.pos_of_ne_zero hom⟩

theorem clNode_err_np (prob : Nat → Option Rat) (edges : List (Nat × Nat)) (gaps : List Nat) (rs : List Rat) (x : Err)
    (h : clNode false prob edges gaps rs = .err x) : x = .index ∧ edges = [] := by
  unfold clNode at h
  split at h
  · simp only [Res.err.injEq] at h; exact ⟨h.symm, rfl⟩
  · split at h
    · simp at h
    · exact absurd h (clWalk_err _ _ _ _ _ _ _)

/-- `for u in community1_nodes[group1]` of one patch -/
theorem dcNodes_spec (gc : GC) (edges : List (Nat × Nat)) (he : (edges.map (·.1)).Nodup) :
    ∀ (nodes : List (Nat × Nat)) (gaps : List Nat) (rs : List Rat) (ps : List (Nat × Nat)) (g : List Nat) (r : List Rat),
    (nodes.map (·.1)).Nodup → (∀ x ∈ rs, 0 ≤ x) → dcNodes gc edges nodes gaps rs = .ok (ps, g, r) →
    ps.Nodup ∧ (∀ p ∈ ps, ∃ du dv qq, (p.2, du) ∈ nodes ∧ (p.1, dv) ∈ edges ∧ dcProb gc du dv = some qq ∧ qq ≠ 0) ∧
    (∃ used, gaps = used ++ g) ∧ (∃ used, rs = used ++ r) := by
  intro nodes
  induction nodes with
  | nil =>
    intro gaps rs ps g r _ _ h
    simp only [dcNodes, Res.ok.injEq, Prod.mk.injEq] at h
    obtain ⟨rfl, rfl, rfl⟩ := h
    exact ⟨by simp, by simp, ⟨[], rfl⟩, ⟨[], rfl⟩⟩
  | cons n nodes ih =>
    intro gaps rs ps g r hn hr h
    obtain ⟨u, du⟩ := n
    simp only [dcNodes] at h
    split at h
    · rename_i acc g1 r1 hnode
      split at h
      · rename_i ps' g' r' hrec
        simp only [Res.ok.injEq, Prod.mk.injEq] at h
        obtain ⟨rfl, rfl, rfl⟩ := h
        obtain ⟨a, b, ⟨ug, hug⟩, ⟨ur, hur⟩⟩ := clNode_spec false _ edges gaps rs acc g1 r1 hr hnode
        have hr1 : ∀ x ∈ r1, 0 ≤ x := fun x hx => hr x (by rw [hur]; simp [hx])
        simp only [List.map_cons, List.nodup_cons] at hn
        obtain ⟨a', b', ⟨ug', hug'⟩, ⟨ur', hur'⟩⟩ := ih g1 r1 ps' g' r' hn.2 hr1 hrec
        refine ⟨?_, ?_, ⟨ug ++ ug', by rw [hug, hug']; simp⟩, ⟨ur ++ ur', by rw [hur, hur']; simp⟩⟩
        · apply nodup_pairs_append acc u ps' (a.nodup he) a'
          intro p hp hpu
          obtain ⟨du', dv', qq, h1, -⟩ := b' p hp
          apply hn.1
          rw [List.mem_map]
          exact ⟨(p.2, du'), h1, hpu⟩
        · intro p hp
          rcases List.mem_append.mp hp with hp | hp
          · rw [List.mem_map] at hp
            obtain ⟨v, hv, rfl⟩ := hp
            obtain ⟨dv, qq, h1, h2, h3⟩ := b v hv
            exact ⟨du, dv, qq, by simp, h1, h2, h3⟩
          · obtain ⟨du', dv', qq, h1, h2⟩ := b' p hp
            exact ⟨du', dv', qq, by simp [h1], h2⟩
      · simp at h
      · simp at h
    · simp at h
    · simp at h

theorem dcNodes_err (gc : GC) (edges : List (Nat × Nat)) :
    ∀ (nodes : List (Nat × Nat)) (gaps : List Nat) (rs : List Rat) (x : Err),
    dcNodes gc edges nodes gaps rs = .err x → edges = [] := by
  intro nodes
  induction nodes with
  | nil => intro gaps rs x h; simp [dcNodes] at h
  | cons n nodes ih =>
    intro gaps rs x h
    obtain ⟨u, du⟩ := n
    simp only [dcNodes] at h
    split at h
    · split at h
      · simp at h
      · rename_i y hrec; exact ih _ _ y hrec
      · simp at h
    · rename_i y hnode; exact (clNode_err_np _ _ _ _ y hnode).2
    · simp at h

theorem nodup_keys_filter (l : List (Nat × Nat)) (f : Nat × Nat → Bool) (h : (l.map (·.1)).Nodup) :
    ((l.filter f).map (·.1)).Nodup :=
  (List.filter_sublist.map _).nodup h

/-- the patch loops: every recorded incidence joins a node and an edge of the patch it was produced in -/
theorem dcPatches_spec (nodes edges : List (Nat × Nat)) (g1 g2 : Nat → Nat) (omega : Nat → Nat → Nat) (kappa1 kappa2 : Nat → Nat)
    (hn : (nodes.map (·.1)).Nodup) (he : (edges.map (·.1)).Nodup) :
    ∀ (patches : List (Nat × Nat)) (gaps : List Nat) (rs : List Rat) (ps : List (Nat × Nat)) (g : List Nat) (r : List Rat),
    patches.Nodup → (∀ x ∈ rs, 0 ≤ x) → dcPatches nodes edges g1 g2 omega kappa1 kappa2 patches gaps rs = .ok (ps, g, r) →
    ps.Nodup ∧ (∀ p ∈ ps, (g1 p.2, g2 p.1) ∈ patches ∧
        ∃ du dv, (p.2, du) ∈ nodes ∧ (p.1, dv) ∈ edges ∧ 0 < du ∧ 0 < dv ∧ 0 < omega (g1 p.2) (g2 p.1)) ∧
    (∃ used, gaps = used ++ g) ∧ (∃ used, rs = used ++ r) := by
  intro patches
  induction patches with
  | nil =>
    intro gaps rs ps g r _ _ h
    simp only [dcPatches, Res.ok.injEq, Prod.mk.injEq] at h
    obtain ⟨rfl, rfl, rfl⟩ := h
    exact ⟨by simp, by simp, ⟨[], rfl⟩, ⟨[], rfl⟩⟩
  | cons ab patches ih =>
    intro gaps rs ps g r hp hr h
    obtain ⟨a, b⟩ := ab
    simp only [dcPatches] at h
    split at h
    · rename_i ps1 g1' r1 hpatch
      split at h
      · rename_i ps' g' r' hrec
        simp only [Res.ok.injEq, Prod.mk.injEq] at h
        obtain ⟨rfl, rfl, rfl⟩ := h
        obtain ⟨c1, c2, ⟨ug, hug⟩, ⟨ur, hur⟩⟩ := dcNodes_spec _ _ (nodup_keys_filter edges _ he) _ gaps rs ps1 g1' r1
          (nodup_keys_filter nodes _ hn) hr hpatch
        have hr1 : ∀ x ∈ r1, 0 ≤ x := fun x hx => hr x (by rw [hur]; simp [hx])
        rw [List.nodup_cons] at hp
        obtain ⟨d1, d2, ⟨ug', hug'⟩, ⟨ur', hur'⟩⟩ := ih g1' r1 ps' g' r' hp.2 hr1 hrec
        have key : ∀ p ∈ ps1, (g1 p.2, g2 p.1) = (a, b) ∧
            ∃ du dv, (p.2, du) ∈ nodes ∧ (p.1, dv) ∈ edges ∧ 0 < du ∧ 0 < dv ∧ 0 < omega (g1 p.2) (g2 p.1) := by
          intro p hp1
          obtain ⟨du, dv, qq, m1, m2, m3, m4⟩ := c2 p hp1
          rw [List.mem_filter] at m1 m2
          have e1 : g1 p.2 = a := by simpa using m1.2
          have e2 : g2 p.1 = b := by simpa using m2.2
          obtain ⟨q1, q2, q3⟩ := dcProb_ne_zero _ _ du dv qq m3 m4
          exact ⟨by rw [e1, e2], du, dv, m1.1, m2.1, q1, q2, by rw [e1, e2]; exact q3⟩
        refine ⟨?_, ?_, ⟨ug ++ ug', by rw [hug, hug']; simp⟩, ⟨ur ++ ur', by rw [hur, hur']; simp⟩⟩
        · rw [List.nodup_append]
          refine ⟨c1, d1, ?_⟩
          intro x hx y hy hxy
          subst hxy
          have h1 := (key x hx).1
          have h2 := (d2 x hy).1
          rw [h1] at h2
          exact hp.1 h2
        · intro p hp'
          rcases List.mem_append.mp hp' with hp' | hp'
          · obtain ⟨k1, k2⟩ := key p hp'
            exact ⟨by rw [k1]; simp, k2⟩
          · obtain ⟨k1, k2⟩ := d2 p hp'
            exact ⟨by simp [k1], k2⟩
      · simp at h
      · simp at h
    · simp at h
    · simp at h

theorem dcPatchList_nodup (nodes edges : List (Nat × Nat)) (g1 g2 : Nat → Nat) : (dcPatchList nodes edges g1 g2).Nodup :=
  List.Nodup.product (nodup_dedup _) (nodup_dedup _)

/-- no exception: every patch of the loop has at least one edge label (`community2_nodes[group2][0]` exists) -/
theorem dcPatches_no_err (nodes edges : List (Nat × Nat)) (g1 g2 : Nat → Nat) (omega : Nat → Nat → Nat) (kappa1 kappa2 : Nat → Nat) :
    ∀ (patches : List (Nat × Nat)) (gaps : List Nat) (rs : List Rat) (x : Err),
    (∀ p ∈ patches, ∃ e ∈ edges, g2 e.1 = p.2) →
    dcPatches nodes edges g1 g2 omega kappa1 kappa2 patches gaps rs ≠ .err x := by
  intro patches
  induction patches with
  | nil => intro gaps rs x _ h; simp [dcPatches] at h
  | cons ab patches ih =>
    intro gaps rs x hp h
    obtain ⟨a, b⟩ := ab
    simp only [dcPatches] at h
    split at h
    · split at h
      · simp at h
      · rename_i y hrec
        exact ih _ _ y (fun p hp' => hp p (by simp [hp'])) hrec
      · simp at h
    · rename_i y hpatch
      have := dcNodes_err _ _ _ _ _ y hpatch
      obtain ⟨e, he, hb⟩ := hp (a, b) (by simp)
      have hmem : e ∈ edges.filter (fun e => g2 e.1 == b) := by
        rw [List.mem_filter]; exact ⟨he, by simpa using hb⟩
      rw [this] at hmem
      cases hmem
    · simp at h

theorem dcPatchList_edges (nodes edges : List (Nat × Nat)) (g1 g2 : Nat → Nat) :
    ∀ p ∈ dcPatchList nodes edges g1 g2, ∃ e ∈ edges, g2 e.1 = p.2 := by
  intro p hp
  unfold dcPatchList at hp
  simp only [List.mem_flatMap, List.mem_map, mem_dedup] at hp
  obtain ⟨a, -, b, ⟨e, he, rfl⟩, rfl⟩ := hp
  exact ⟨e, he, rfl⟩

end Xgi.C16
