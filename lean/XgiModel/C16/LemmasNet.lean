/-
  C16 — helper lemmas for the node lists of XgiModel/C16/Net.lean.
-/
import XgiModel.C16.LemmasHPPM
import XgiModel.C16.Net

namespace Xgi.C16

theorem mem_addNodes (ns l : List Nat) (x : Nat) : x ∈ addNodes ns l ↔ x ∈ l ∨ x ∈ ns :=
  foldl_ins_mem ns l x

theorem nodup_addNodes (ns l : List Nat) (h : l.Nodup) : (addNodes ns l).Nodup :=
  foldl_ins_nodup ns l h

theorem addNodes_of_subset : ∀ (ns l : List Nat), (∀ x ∈ ns, x ∈ l) → addNodes ns l = l := by
  intro ns
  induction ns with
  | nil => intro l _; rfl
  | cons a t ih =>
    intro l h
    have ha : a ∈ l := h a (by simp)
    show addNodes t (ins a l) = l
    have : ins a l = l := by unfold ins; simp [ha]
    rw [this]
    exact ih l (fun x hx => h x (by simp [hx]))

theorem addNodes_nil_of_nodup (ns : List Nat) (h : ns.Nodup) : addNodes ns [] = ns := by
  have := foldl_ins_of_nodup ns [] (by simpa using h)
  simpa [addNodes] using this

theorem mem_addEdgesNodes : ∀ (es : List (List Nat)) (l : List Nat) (x : Nat),
    x ∈ addEdgesNodes es l ↔ x ∈ l ∨ ∃ e ∈ es, x ∈ e := by
  intro es
  induction es with
  | nil => intro l x; simp [addEdgesNodes]
  | cons e t ih =>
    intro l x
    show x ∈ addEdgesNodes t (addNodes e l) ↔ _
    rw [ih, mem_addNodes]
    simp only [List.mem_cons, exists_eq_or_imp]
    tauto

theorem nodup_addEdgesNodes : ∀ (es : List (List Nat)) (l : List Nat), l.Nodup → (addEdgesNodes es l).Nodup := by
  intro es
  induction es with
  | nil => intro l h; exact h
  | cons e t ih => intro l h; exact ih _ (nodup_addNodes e l h)

theorem addEdgesNodes_of_subset : ∀ (es : List (List Nat)) (l : List Nat), (∀ e ∈ es, ∀ x ∈ e, x ∈ l) →
    addEdgesNodes es l = l := by
  intro es
  induction es with
  | nil => intro l _; rfl
  | cons e t ih =>
    intro l h
    show addEdgesNodes t (addNodes e l) = l
    rw [addNodes_of_subset e l (h e (by simp))]
    exact ih l (fun e' he' => h e' (by simp [he']))

/-- membership in the node list of a built network -/
theorem mem_build_nodes (pre post : List Nat) (es : List (List Nat)) (x : Nat) :
    x ∈ (build pre es post).nodes ↔ x ∈ pre ∨ (∃ e ∈ es, x ∈ e) ∨ x ∈ post := by
  simp only [build, mem_addNodes, mem_addEdgesNodes, List.not_mem_nil, false_or, or_assoc]

theorem nodup_build_nodes (pre post : List Nat) (es : List (List Nat)) : (build pre es post).nodes.Nodup :=
  nodup_addNodes _ _ (nodup_addEdgesNodes _ _ (nodup_addNodes _ _ List.nodup_nil))

/-- when every member of every edge (and every late label) is among the labels added first, the node list is exactly
    that label list, in that order -/
theorem build_nodes_eq (pre post : List Nat) (es : List (List Nat)) (hn : pre.Nodup)
    (he : ∀ e ∈ es, ∀ x ∈ e, x ∈ pre) (hp : ∀ x ∈ post, x ∈ pre) : (build pre es post).nodes = pre := by
  simp only [build]
  rw [addNodes_nil_of_nodup pre hn, addEdgesNodes_of_subset es pre he, addNodes_of_subset post pre hp]

theorem build_edges (pre post : List Nat) (es : List (List Nat)) : (build pre es post).edges = es := rfl

/-- a strictly increasing list below `n` has at most `n` entries -/
theorem length_le_of_increasing {n : Nat} {e : List Nat} (h1 : e.Pairwise (· < ·)) (h2 : ∀ x ∈ e, x < n) : e.length ≤ n := by
  have hnd : e.Nodup := h1.imp (fun h => Nat.ne_of_lt h)
  have hsub : e ⊆ List.range n := fun x hx => List.mem_range.mpr (h2 x hx)
  have := (List.subperm_of_subset hnd hsub).length_le
  simpa using this

theorem netOpt_some {α} (pre post : List Nat) (o : Option (List (List Nat) × α)) (net : GNet) (r : α) :
    netOpt pre post o = some (net, r) ↔ ∃ es, o = some (es, r) ∧ net = build pre es post := by
  cases o with
  | none => simp [netOpt]
  | some x =>
    obtain ⟨es, r'⟩ := x
    simp only [netOpt, Option.some.injEq, Prod.mk.injEq]
    constructor
    · rintro ⟨rfl, rfl⟩; exact ⟨es, ⟨rfl, rfl⟩, rfl⟩
    · rintro ⟨es', ⟨rfl, rfl⟩, rfl⟩; exact ⟨rfl, rfl⟩

theorem netRes_ok {α} (pre post : List Nat) (o : Res (List (List Nat) × α)) (net : GNet) (r : α) :
    netRes pre post o = .ok (net, r) ↔ ∃ es, o = .ok (es, r) ∧ net = build pre es post := by
  cases o with
  | ok x =>
    obtain ⟨es, r'⟩ := x
    simp only [netRes, Res.ok.injEq, Prod.mk.injEq]
    constructor
    · rintro ⟨rfl, rfl⟩; exact ⟨es, ⟨rfl, rfl⟩, rfl⟩
    · rintro ⟨es', ⟨rfl, rfl⟩, rfl⟩; exact ⟨rfl, rfl⟩
  | err e => simp [netRes]
  | stuck => simp [netRes]

theorem map_snd_zipWith {α β} (f : α → Nat) : ∀ (l : List α) (ps : List β), l.length = ps.length →
    (List.zipWith (fun a p => (f a, p)) l ps).map (·.2) = ps := by
  intro l
  induction l with
  | nil => intro ps h; cases ps with | nil => rfl | cons _ _ => simp at h
  | cons a t ih => intro ps h; cases ps with
    | nil => simp at h
    | cons p q => simp at h; simp [ih q h]

theorem map_fst_zipWith {α β} (f : α → Nat) : ∀ (l : List α) (ps : List β), l.length = ps.length →
    (List.zipWith (fun a p => (f a, p)) l ps).map (·.1) = l.map f := by
  intro l
  induction l with
  | nil => intro ps h; rfl
  | cons a t ih => intro ps h; cases ps with
    | nil => simp at h
    | cons p q => simp at h; simp [ih q h]

end Xgi.C16
