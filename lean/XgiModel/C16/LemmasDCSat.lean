/-
  C16 helper lemmas for the DCSBM model (XgiModel/C16/GenRand.lean): the `min(p, 1)` clipping branch.
  A node whose probability is clipped to 1 for every edge label of a patch joins every edge of that patch.
-/
import XgiModel.C16.LemmasDC

namespace Xgi.C16

/-- `min(k1[u] * k2[v] * (omega / den), 1) = 1` as soon as `den ≤ k1[u] * k2[v] * omega` (exact arithmetic) -/
theorem dcProb_one (om den du dv : Nat) (hden : 0 < den) (h : den ≤ du * dv * om) :
    dcProb (gcOf om den) du dv = some 1 := by
  unfold gcOf
  rw [if_neg (Nat.pos_iff_ne_zero.mp hden)]
  simp only [dcProb]
  congr 1
  apply min_eq_right
  have hd : (0 : Rat) < ((den : Nat) : Rat) := by exact_mod_cast hden
  rw [← mul_div_assoc, le_div_iff₀ hd, one_mul]
  exact_mod_cast h

/-- every saturated node of a patch is in every edge of the patch -/
theorem dcNodes_saturated (gc : GC) (edges : List (Nat × Nat)) :
    ∀ (nodes : List (Nat × Nat)) (gaps : List Nat) (rs : List Rat) (ps : List (Nat × Nat)) (g : List Nat) (r : List Rat),
    (∀ x ∈ rs, 0 ≤ x ∧ x < 1) → dcNodes gc edges nodes gaps rs = .ok (ps, g, r) →
    ∀ n ∈ nodes, (∀ e ∈ edges, dcProb gc n.2 e.2 = some 1) → ∀ e ∈ edges, (e.1, n.1) ∈ ps := by
  intro nodes
  induction nodes with
  | nil => intro gaps rs ps g r _ _ n hn; cases hn
  | cons n0 nodes ih =>
    intro gaps rs ps g r hr h n hn hsat e he
    obtain ⟨u, du⟩ := n0
    simp only [dcNodes] at h
    split at h
    · rename_i acc g1 r1 hnode
      split at h
      · rename_i ps' g' r' hrec
        simp only [Res.ok.injEq, Prod.mk.injEq] at h
        obtain ⟨rfl, rfl, rfl⟩ := h
        obtain ⟨-, -, -, ⟨ur, hur⟩⟩ := clNode_spec false _ edges gaps rs acc g1 r1 (fun x hx => (hr x hx).1) hnode
        rcases List.mem_cons.mp hn with rfl | hn
        · obtain ⟨a, -⟩ := clNode_saturated_ok false _ edges gaps rs acc g1 r1 hsat (fun x hx => (hr x hx).2) hnode
          rw [List.mem_append]
          left
          rw [a, List.mem_map]
          exact ⟨e.1, List.mem_map.mpr ⟨e, he, rfl⟩, rfl⟩
        · rw [List.mem_append]
          right
          exact ih g1 r1 ps' g' r' (fun x hx => hr x (by rw [hur]; simp [hx])) hrec n hn hsat e he
      · simp at h
      · simp at h
    · simp at h
    · simp at h

/-- the patch loops: a node that is saturated with respect to the edge labels of community `b` is in every such edge -/
theorem dcPatches_saturated (nodes edges : List (Nat × Nat)) (g1 g2 : Nat → Nat) (omega : Nat → Nat → Nat) (kappa1 kappa2 : Nat → Nat)
    (hn : (nodes.map (·.1)).Nodup) (he : (edges.map (·.1)).Nodup) :
    ∀ (patches : List (Nat × Nat)) (gaps : List Nat) (rs : List Rat) (ps : List (Nat × Nat)) (g : List Nat) (r : List Rat),
    (∀ x ∈ rs, 0 ≤ x ∧ x < 1) → dcPatches nodes edges g1 g2 omega kappa1 kappa2 patches gaps rs = .ok (ps, g, r) →
    ∀ ab ∈ patches, ∀ n ∈ nodes, g1 n.1 = ab.1 →
      (∀ e ∈ edges, g2 e.1 = ab.2 → dcProb (gcOf (omega ab.1 ab.2) (kappa1 ab.1 * kappa2 ab.2)) n.2 e.2 = some 1) →
      ∀ e ∈ edges, g2 e.1 = ab.2 → (e.1, n.1) ∈ ps := by
  intro patches
  induction patches with
  | nil => intro gaps rs ps g r _ _ ab hab; cases hab
  | cons ab0 patches ih =>
    intro gaps rs ps g r hr h ab hab n hnn hg hsat e hee hge
    obtain ⟨a0, b0⟩ := ab0
    simp only [dcPatches] at h
    split at h
    · rename_i ps1 g1' r1 hpatch
      split at h
      · rename_i ps' g' r' hrec
        simp only [Res.ok.injEq, Prod.mk.injEq] at h
        obtain ⟨rfl, rfl, rfl⟩ := h
        obtain ⟨-, -, -, ⟨ur, hur⟩⟩ := dcNodes_spec _ _ (nodup_keys_filter edges _ he) _ gaps rs ps1 g1' r1
          (nodup_keys_filter nodes _ hn) (fun x hx => (hr x hx).1) hpatch
        rw [List.mem_append]
        rcases List.mem_cons.mp hab with rfl | hab
        · left
          have hn' : n ∈ nodes.filter (fun x => g1 x.1 == a0) := by
            rw [List.mem_filter]; exact ⟨hnn, by simpa using hg⟩
          have he' : e ∈ edges.filter (fun e => g2 e.1 == b0) := by
            rw [List.mem_filter]; exact ⟨hee, by simpa using hge⟩
          refine dcNodes_saturated _ _ _ gaps rs ps1 g1' r1 hr hpatch n hn' ?_ e he'
          intro e2 he2
          rw [List.mem_filter] at he2
          exact hsat e2 he2.1 (by simpa using he2.2)
        · right
          exact ih g1' r1 ps' g' r' (fun x hx => hr x (by rw [hur]; simp [hx])) hrec ab hab n hnn hg hsat e hee hge
      · simp at h
      · simp at h
    · simp at h
    · simp at h

/-- the patch of a node community and an edge community that both occur is in the loop -/
theorem mem_dcPatchList (nodes edges : List (Nat × Nat)) (g1 g2 : Nat → Nat) (n e : Nat × Nat) (hn : n ∈ nodes) (he : e ∈ edges) :
    (g1 n.1, g2 e.1) ∈ dcPatchList nodes edges g1 g2 := by
  unfold dcPatchList
  simp only [List.mem_flatMap, List.mem_map, mem_dedup]
  exact ⟨g1 n.1, ⟨n, hn, rfl⟩, g2 e.1, ⟨e, he, rfl⟩, rfl⟩

end Xgi.C16
