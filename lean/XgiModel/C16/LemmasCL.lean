/-
  C16 helper lemmas for the Chung–Lu / DCSBM models (XgiModel/C16/GenRand.lean).
-/
import XgiModel.C16.LemmasWS
import Mathlib.Algebra.Order.Field.Rat
import Mathlib.Data.List.Perm.Basic

namespace Xgi.C16

/-! ### the stable sort by decreasing degree is a permutation, and its result is sorted -/

theorem insByDeg_perm (a : Nat × Nat) (l : List (Nat × Nat)) : (insByDeg a l).Perm (a :: l) := by
  induction l with
  | nil => simp [insByDeg]
  | cons b l ih =>
    unfold insByDeg
    split
    · exact List.Perm.refl _
    · exact (List.Perm.cons b ih).trans (List.Perm.swap a b l)

theorem sortByDeg_perm (l : List (Nat × Nat)) : (sortByDeg l).Perm l := by
  induction l with
  | nil => simp [sortByDeg]
  | cons a l ih =>
    unfold sortByDeg
    exact (insByDeg_perm a _).trans (List.Perm.cons a ih)

theorem insByDeg_sorted (a : Nat × Nat) (l : List (Nat × Nat)) (h : l.Pairwise (fun x y => y.2 ≤ x.2)) :
    (insByDeg a l).Pairwise (fun x y => y.2 ≤ x.2) := by
  induction l with
  | nil => simp [insByDeg]
  | cons b l ih =>
    unfold insByDeg
    rw [List.pairwise_cons] at h
    split
    · rename_i hb
      rw [List.pairwise_cons]
      refine ⟨?_, List.pairwise_cons.mpr h⟩
      intro y hy
      rcases List.mem_cons.mp hy with rfl | hy
      · exact hb
      · exact Nat.le_trans (h.1 y hy) hb
    · rename_i hb
      rw [List.pairwise_cons]
      refine ⟨?_, ih h.2⟩
      intro y hy
      rcases List.mem_cons.mp ((insByDeg_perm a l).subset hy) with rfl | hy
      · omega
      · exact h.1 y hy

theorem sortByDeg_sorted (l : List (Nat × Nat)) : (sortByDeg l).Pairwise (fun x y => y.2 ≤ x.2) := by
  induction l with
  | nil => simp [sortByDeg]
  | cons a l ih => unfold sortByDeg; exact insByDeg_sorted a _ ih

theorem mem_sortByDeg (l : List (Nat × Nat)) (x : Nat × Nat) : x ∈ sortByDeg l ↔ x ∈ l :=
  (sortByDeg_perm l).mem_iff

theorem nodup_keys_sortByDeg (l : List (Nat × Nat)) (h : (l.map (·.1)).Nodup) : ((sortByDeg l).map (·.1)).Nodup :=
  ((sortByDeg_perm l).map _).nodup_iff.mpr h

/-! ### the acceptance test -/

theorem accept_yes (py : Bool) (r : Rat) (q p : Option Rat) (hr : 0 ≤ r) (h : accept py r q p = .yes) :
    ∃ qq, q = some qq ∧ qq ≠ 0 := by
  unfold accept at h
  split at h
  · rename_i qq pp
    refine ⟨qq, rfl, ?_⟩
    split at h
    · split at h
      · simp at h
      · split at h
        · rename_i hq; exact ne_of_gt hq
        · simp at h
    · split at h
      · rename_i hlt
        intro hq
        subst hq
        simp at hlt
        exact absurd hlt (not_lt.mpr hr)
      · simp at h
  · simp at h

theorem accept_one (py : Bool) (r : Rat) (hr : r < 1) : accept py r (some 1) (some 1) = .yes := by
  simp [accept, hr]

theorem accept_not_zeroDiv (r : Rat) (q p : Option Rat) : accept false r q p ≠ .zeroDiv := by
  unfold accept
  split
  · split
    · simp only [Bool.false_eq_true, if_false]; split <;> simp
    · split <;> simp
  · simp

/-! ### the walk along the edge labels -/

theorem nextSkip_suffix {α} (p : Option Rat) (vs : List α) (gaps : List Nat) (s : Nat) (g : List Nat)
    (h : nextSkip p vs gaps = some (s, g)) : ∃ used, gaps = used ++ g := by
  unfold nextSkip at h
  split at h
  · simp at h; exact ⟨[], by simp [h.2]⟩
  · split at h
    · cases gaps with
      | nil => simp at h
      | cons a gs => simp at h; exact ⟨[a], by simp [h.2]⟩
    · simp at h; exact ⟨[], by simp [h.2]⟩

theorem nextSkip_one {α} (vs : List α) (gaps : List Nat) : nextSkip (some 1) vs gaps = some (0, gaps) := by
  unfold nextSkip
  split
  · rfl
  · simp [ne1]

/-- what a successful walk returns: the accepted labels form a sub-list (in order, no repetition) of the labels it
    walks along; an accepted label has a non-zero probability; only prefixes of the oracles are consumed -/
theorem clWalk_spec (py : Bool) (prob : Nat → Option Rat) : ∀ (vs : List (Nat × Nat)) (s : Nat) (p : Option Rat)
    (gaps : List Nat) (rs : List Rat) (acc g : List Nat) (r : List Rat), (∀ x ∈ rs, 0 ≤ x) →
    clWalk py prob vs s p gaps rs = .ok (acc, g, r) →
    acc.Sublist (vs.map (·.1)) ∧ (∀ v ∈ acc, ∃ dv qq, (v, dv) ∈ vs ∧ prob dv = some qq ∧ qq ≠ 0) ∧
    (∃ used, gaps = used ++ g) ∧ (∃ used, rs = used ++ r) := by
  intro vs
  induction vs with
  | nil =>
    intro s p gaps rs acc g r _ h
    simp only [clWalk, Res.ok.injEq, Prod.mk.injEq] at h
    obtain ⟨rfl, rfl, rfl⟩ := h
    exact ⟨by simp, by simp, ⟨[], rfl⟩, ⟨[], rfl⟩⟩
  | cons e vs ih =>
    intro s p gaps rs acc g r hr h
    obtain ⟨v, dv⟩ := e
    cases s with
    | succ s =>
      simp only [clWalk] at h
      obtain ⟨a, b, c, d⟩ := ih s p gaps rs acc g r hr h
      refine ⟨?_, ?_, c, d⟩
      · simpa using a.cons v
      · intro w hw
        obtain ⟨dw, qq, h1, h2⟩ := b w hw
        exact ⟨dw, qq, by simp [h1], h2⟩
    | zero =>
      cases rs with
      | nil => simp [clWalk] at h
      | cons r0 rs' =>
        simp only [clWalk] at h
        split at h
        · simp at h
        · rename_i c hnz
          split at h
          · simp at h
          · rename_i s' gaps' hns
            split at h
            · rename_i acc' g' r' hrec
              simp only [Res.ok.injEq, Prod.mk.injEq] at h
              obtain ⟨rfl, rfl, rfl⟩ := h
              have hr' : ∀ x ∈ rs', 0 ≤ x := fun x hx => hr x (by simp [hx])
              obtain ⟨a, b, ⟨u1, hu1⟩, ⟨u2, hu2⟩⟩ := ih s' (prob dv) gaps' rs' acc' g' r' hr' hrec
              obtain ⟨u0, hu0⟩ := nextSkip_suffix _ _ _ _ _ hns
              refine ⟨?_, ?_, ⟨u0 ++ u1, by rw [hu0, hu1]; simp⟩, ⟨r0 :: u2, by rw [hu2]; simp⟩⟩
              · split
                · simpa using a.cons_cons v
                · simpa using a.cons v
              · intro w hw
                split at hw
                · rename_i hyes
                  rcases List.mem_cons.mp hw with rfl | hw
                  · obtain ⟨qq, h1, h2⟩ := accept_yes py r0 (prob dv) p (hr r0 (by simp)) hyes
                    exact ⟨dv, qq, by simp, h1, h2⟩
                  · obtain ⟨dw, qq, h1, h2⟩ := b w hw
                    exact ⟨dw, qq, by simp [h1], h2⟩
                · obtain ⟨dw, qq, h1, h2⟩ := b w hw
                  exact ⟨dw, qq, by simp [h1], h2⟩
            · simp at h
            · simp at h

/-- saturation: when every probability along the walk is clipped to 1 (and the walk starts on the first label with
    `p = 1`), no geometric gap is drawn and every label is accepted, whatever the uniform draws `< 1` -/
theorem clWalk_saturated (py : Bool) (prob : Nat → Option Rat) : ∀ (vs : List (Nat × Nat)) (gaps : List Nat) (rs : List Rat),
    (∀ e ∈ vs, prob e.2 = some 1) → (∀ x ∈ rs, x < 1) → vs.length ≤ rs.length →
    clWalk py prob vs 0 (some 1) gaps rs = .ok (vs.map (·.1), gaps, rs.drop vs.length) := by
  intro vs
  induction vs with
  | nil => intro gaps rs _ _ _; simp [clWalk]
  | cons e vs ih =>
    intro gaps rs hp hr hl
    obtain ⟨v, dv⟩ := e
    cases rs with
    | nil => simp at hl
    | cons r0 rs' =>
      have hq : prob dv = some 1 := hp (v, dv) (by simp)
      simp only [clWalk, hq, accept_one py r0 (hr r0 (by simp)), nextSkip_one]
      rw [ih gaps rs' (fun e he => hp e (by simp [he])) (fun x hx => hr x (by simp [hx])) (by simpa using hl)]
      simp

theorem clWalk_err (prob : Nat → Option Rat) : ∀ (vs : List (Nat × Nat)) (s : Nat) (p : Option Rat)
    (gaps : List Nat) (rs : List Rat) (x : Err), clWalk false prob vs s p gaps rs ≠ .err x := by
  intro vs
  induction vs with
  | nil => intro s p gaps rs x h; simp [clWalk] at h
  | cons e vs ih =>
    intro s p gaps rs x h
    obtain ⟨v, dv⟩ := e
    cases s with
    | succ s => simp only [clWalk] at h; exact ih s p gaps rs x h
    | zero =>
      cases rs with
      | nil => simp [clWalk] at h
      | cons r0 rs' =>
        simp only [clWalk] at h
        split at h
        · rename_i hz; exact accept_not_zeroDiv _ _ _ hz
        · split at h
          · simp at h
          · split at h
            · simp at h
            · rename_i y hrec; exact ih _ _ _ _ y hrec
            · simp at h

/-- errors of a Python-float walk are ZeroDivisionErrors -/
theorem clWalk_err_py (prob : Nat → Option Rat) : ∀ (vs : List (Nat × Nat)) (s : Nat) (p : Option Rat)
    (gaps : List Nat) (rs : List Rat) (x : Err), clWalk true prob vs s p gaps rs = .err x → x = .zeroDiv := by
  intro vs
  induction vs with
  | nil => intro s p gaps rs x h; simp [clWalk] at h
  | cons e vs ih =>
    intro s p gaps rs x h
    obtain ⟨v, dv⟩ := e
    cases s with
    | succ s => simp only [clWalk] at h; exact ih s p gaps rs x h
    | zero =>
      cases rs with
      | nil => simp [clWalk] at h
      | cons r0 rs' =>
        simp only [clWalk] at h
        split at h
        · simp at h; exact h.symm
        · split at h
          · simp at h
          · split at h
            · simp at h
            · rename_i y hrec
              simp only [Res.err.injEq] at h
              subst h
              exact ih _ _ _ _ y hrec
            · simp at h

theorem clNode_spec (py : Bool) (prob : Nat → Option Rat) (edges : List (Nat × Nat)) (gaps : List Nat) (rs : List Rat)
    (acc g : List Nat) (r : List Rat) (hr : ∀ x ∈ rs, 0 ≤ x) (h : clNode py prob edges gaps rs = .ok (acc, g, r)) :
    acc.Sublist (edges.map (·.1)) ∧ (∀ v ∈ acc, ∃ dv qq, (v, dv) ∈ edges ∧ prob dv = some qq ∧ qq ≠ 0) ∧
    (∃ used, gaps = used ++ g) ∧ (∃ used, rs = used ++ r) := by
  unfold clNode at h
  split at h
  · simp at h
  · rename_i v0 dv0 rest
    split at h
    · simp at h
    · rename_i s gaps' hns
      obtain ⟨a, b, ⟨u1, hu1⟩, d⟩ := clWalk_spec py prob _ s _ gaps' rs acc g r hr h
      obtain ⟨u0, hu0⟩ := nextSkip_suffix _ _ _ _ _ hns
      exact ⟨a, b, ⟨u0 ++ u1, by rw [hu0, hu1]; simp⟩, d⟩

theorem clNode_saturated (py : Bool) (prob : Nat → Option Rat) (edges : List (Nat × Nat)) (gaps : List Nat) (rs : List Rat)
    (hne : edges ≠ []) (hp : ∀ e ∈ edges, prob e.2 = some 1) (hr : ∀ x ∈ rs, x < 1) (hl : edges.length ≤ rs.length) :
    clNode py prob edges gaps rs = .ok (edges.map (·.1), gaps, rs.drop edges.length) := by
  unfold clNode
  cases edges with
  | nil => exact absurd rfl hne
  | cons e rest =>
    obtain ⟨v0, dv0⟩ := e
    have h0 : prob dv0 = some 1 := hp (v0, dv0) (by simp)
    simp only [h0, nextSkip_one]
    exact clWalk_saturated py prob _ gaps rs hp hr hl

/-- `min(x, 1) ≠ 0` forces `x ≠ 0` -/
theorem min_one_ne_zero {x : Rat} (h : min x 1 ≠ 0) : x ≠ 0 := by
  intro hx
  subst hx
  exact h (min_eq_left (by norm_num))

theorem clProb_ne_zero (S du dv : Nat) (qq : Rat) (h : clProb S du dv = some qq) (hq : qq ≠ 0) : 0 < du ∧ 0 < dv := by
  unfold clProb at h
  simp only [Option.some.injEq] at h
  subst h
  have := min_one_ne_zero hq
  have hne : du * dv ≠ 0 := by
    intro h0
    apply this
    rw [h0]; simp
  exact ⟨Nat.pos_of_ne_zero (fun h => hne (by simp [h])), Nat.pos_of_ne_zero (fun h => hne (by simp [h]))⟩

theorem clProb_one (S du dv : Nat) (hS : 0 < S) (h : S ≤ du * dv) : clProb S du dv = some 1 := by
  unfold clProb
  congr 1
  apply min_eq_right
  rw [le_div_iff₀ (by exact_mod_cast hS)]
  simp only [one_mul]
  exact_mod_cast h

/-- saturation, read off a successful run: all labels accepted, no gap consumed -/
theorem clWalk_saturated_ok (py : Bool) (prob : Nat → Option Rat) : ∀ (vs : List (Nat × Nat)) (gaps : List Nat) (rs : List Rat)
    (acc g : List Nat) (r : List Rat), (∀ e ∈ vs, prob e.2 = some 1) → (∀ x ∈ rs, x < 1) →
    clWalk py prob vs 0 (some 1) gaps rs = .ok (acc, g, r) → acc = vs.map (·.1) ∧ g = gaps := by
  intro vs
  induction vs with
  | nil =>
    intro gaps rs acc g r _ _ h
    simp only [clWalk, Res.ok.injEq, Prod.mk.injEq] at h
    exact ⟨h.1.symm, h.2.1.symm⟩
  | cons e vs ih =>
    intro gaps rs acc g r hp hr h
    obtain ⟨v, dv⟩ := e
    cases rs with
    | nil => simp [clWalk] at h
    | cons r0 rs' =>
      have hq : prob dv = some 1 := hp (v, dv) (by simp)
      simp only [clWalk, hq, accept_one py r0 (hr r0 (by simp)), nextSkip_one] at h
      split at h
      · rename_i acc' g' r' hrec
        simp only [Res.ok.injEq, Prod.mk.injEq, if_true] at h
        obtain ⟨rfl, rfl, rfl⟩ := h
        obtain ⟨a, b⟩ := ih gaps rs' acc' g' r' (fun e he => hp e (by simp [he])) (fun x hx => hr x (by simp [hx])) hrec
        exact ⟨by simp [a], b⟩
      · simp at h
      · simp at h

theorem clNode_saturated_ok (py : Bool) (prob : Nat → Option Rat) (edges : List (Nat × Nat)) (gaps : List Nat) (rs : List Rat)
    (acc g : List Nat) (r : List Rat) (hp : ∀ e ∈ edges, prob e.2 = some 1) (hr : ∀ x ∈ rs, x < 1)
    (h : clNode py prob edges gaps rs = .ok (acc, g, r)) : acc = edges.map (·.1) ∧ g = gaps := by
  unfold clNode at h
  split at h
  · simp at h
  · rename_i v0 dv0 rest
    have h0 : prob dv0 = some 1 := hp (v0, dv0) (by simp)
    simp only [h0, nextSkip_one] at h
    exact clWalk_saturated_ok py prob _ gaps rs acc g r hp hr h

/-- every saturated node of a successful Chung–Lu run is in every edge -/
theorem clNodes_saturated (S : Nat) (edges : List (Nat × Nat)) (hS : 0 < S) :
    ∀ (nodes : List (Nat × Nat)) (gaps : List Nat) (rs : List Rat) (ps : List (Nat × Nat)) (g : List Nat) (r : List Rat),
    (∀ x ∈ rs, 0 ≤ x ∧ x < 1) → clNodes S edges nodes gaps rs = .ok (ps, g, r) →
    ∀ n ∈ nodes, (∀ e ∈ edges, S ≤ n.2 * e.2) → ∀ e ∈ edges, (e.1, n.1) ∈ ps := by
  intro nodes
  induction nodes with
  | nil => intro gaps rs ps g r _ _ n hn; cases hn
  | cons n0 nodes ih =>
    intro gaps rs ps g r hr h n hn hsat e he
    obtain ⟨u, du⟩ := n0
    simp only [clNodes] at h
    split at h
    · simp at h
    · split at h
      · simp at h
      · split at h
        · rename_i acc g1 r1 hnode
          split at h
          · rename_i ps' g' r' hrec
            simp only [Res.ok.injEq, Prod.mk.injEq] at h
            obtain ⟨rfl, rfl, rfl⟩ := h
            obtain ⟨-, -, -, ⟨ur, hur⟩⟩ := clNode_spec true _ edges gaps rs acc g1 r1 (fun x hx => (hr x hx).1) hnode
            rcases List.mem_cons.mp hn with rfl | hn
            · obtain ⟨a, -⟩ := clNode_saturated_ok true _ edges gaps rs acc g1 r1
                (fun e he => clProb_one S du e.2 hS (hsat e he)) (fun x hx => (hr x hx).2) hnode
              rw [List.mem_append]
              left
              rw [a, List.mem_map]
              exact ⟨e.1, List.mem_map.mpr ⟨e, he, rfl⟩, rfl⟩
            · rw [List.mem_append]
              right
              exact ih g1 r1 ps' g' r' (fun x hx => hr x (by rw [hur]; simp [hx])) hrec n hn hsat e he
          · simp at h
          · simp at h
        · simp at h
        · simp at h

theorem sortByDeg_eq_nil (l : List (Nat × Nat)) : sortByDeg l = [] ↔ l = [] := by
  constructor
  · intro h
    have := (sortByDeg_perm l).length_eq
    rw [h] at this
    exact List.length_eq_zero_iff.mp this.symm
  · intro h; subst h; rfl

/-! ### incidence traces -/

theorem nodup_pairs_append (acc : List Nat) (u : Nat) (ps : List (Nat × Nat)) (ha : acc.Nodup) (hp : ps.Nodup)
    (hu : ∀ p ∈ ps, p.2 ≠ u) : (acc.map (fun v => (v, u)) ++ ps).Nodup := by
  rw [List.nodup_append]
  refine ⟨List.Nodup.map (fun a b h => by simpa using h) ha, hp, ?_⟩
  intro a ha' b hb hab
  rw [List.mem_map] at ha'
  obtain ⟨v, -, rfl⟩ := ha'
  subst hab
  exact hu _ hb rfl

/-- the `for u in node_labels` loop of Chung–Lu -/
theorem clNodes_spec (S : Nat) (edges : List (Nat × Nat)) (he : (edges.map (·.1)).Nodup) :
    ∀ (nodes : List (Nat × Nat)) (gaps : List Nat) (rs : List Rat) (ps : List (Nat × Nat)) (g : List Nat) (r : List Rat),
    (nodes.map (·.1)).Nodup → (∀ x ∈ rs, 0 ≤ x) → clNodes S edges nodes gaps rs = .ok (ps, g, r) →
    ps.Nodup ∧ (∀ p ∈ ps, ∃ du dv, (p.2, du) ∈ nodes ∧ (p.1, dv) ∈ edges ∧ 0 < du ∧ 0 < dv) ∧
    (∃ used, gaps = used ++ g) ∧ (∃ used, rs = used ++ r) := by
  intro nodes
  induction nodes with
  | nil =>
    intro gaps rs ps g r _ _ h
    simp only [clNodes, Res.ok.injEq, Prod.mk.injEq] at h
    obtain ⟨rfl, rfl, rfl⟩ := h
    exact ⟨by simp, by simp, ⟨[], rfl⟩, ⟨[], rfl⟩⟩
  | cons n nodes ih =>
    intro gaps rs ps g r hn hr h
    obtain ⟨u, du⟩ := n
    simp only [clNodes] at h
    split at h
    · simp at h
    · split at h
      · simp at h
      · split at h
        · rename_i acc g1 r1 hnode
          split at h
          · rename_i ps' g' r' hrec
            simp only [Res.ok.injEq, Prod.mk.injEq] at h
            obtain ⟨rfl, rfl, rfl⟩ := h
            obtain ⟨a, b, ⟨ug, hug⟩, ⟨ur, hur⟩⟩ := clNode_spec true _ edges gaps rs acc g1 r1 hr hnode
            have hr1 : ∀ x ∈ r1, 0 ≤ x := fun x hx => hr x (by rw [hur]; simp [hx])
            simp only [List.map_cons, List.nodup_cons] at hn
            obtain ⟨a', b', ⟨ug', hug'⟩, ⟨ur', hur'⟩⟩ := ih g1 r1 ps' g' r' hn.2 hr1 hrec
            refine ⟨?_, ?_, ⟨ug ++ ug', by rw [hug, hug']; simp⟩, ⟨ur ++ ur', by rw [hur, hur']; simp⟩⟩
            · apply nodup_pairs_append acc u ps' (a.nodup he) a'
              intro p hp hpu
              obtain ⟨du', dv', h1, -⟩ := b' p hp
              apply hn.1
              rw [List.mem_map]
              exact ⟨(p.2, du'), h1, hpu⟩
            · intro p hp
              rcases List.mem_append.mp hp with hp | hp
              · rw [List.mem_map] at hp
                obtain ⟨v, hv, rfl⟩ := hp
                obtain ⟨dv, qq, h1, h2, h3⟩ := b v hv
                obtain ⟨p1, p2⟩ := clProb_ne_zero S du dv qq h2 h3
                exact ⟨du, dv, by simp, h1, p1, p2⟩
              · obtain ⟨du', dv', h1, h2⟩ := b' p hp
                exact ⟨du', dv', by simp [h1], h2⟩
          · simp at h
          · simp at h
        · simp at h
        · simp at h

/-- exceptions of the Chung–Lu loop -/
theorem clNodes_err (S : Nat) (edges : List (Nat × Nat)) :
    ∀ (nodes : List (Nat × Nat)) (gaps : List Nat) (rs : List Rat) (x : Err),
    clNodes S edges nodes gaps rs = .err x →
    (x = .index ∧ edges = [] ∧ nodes ≠ []) ∨ (x = .zeroDiv ∧ edges ≠ []) := by
  intro nodes
  induction nodes with
  | nil => intro gaps rs x h; simp [clNodes] at h
  | cons n nodes ih =>
    intro gaps rs x h
    obtain ⟨u, du⟩ := n
    simp only [clNodes] at h
    split at h
    · rename_i hemp
      simp only [Res.err.injEq] at h
      exact Or.inl ⟨h.symm, by simpa using hemp, by simp⟩
    · rename_i hemp
      have hne : edges ≠ [] := by simpa using hemp
      split at h
      · simp only [Res.err.injEq] at h; exact Or.inr ⟨h.symm, hne⟩
      · split at h
        · split at h
          · simp at h
          · rename_i y hrec
            simp only [Res.err.injEq] at h
            subst h
            rcases ih _ _ y hrec with ⟨-, h2, -⟩ | h2
            · exact absurd h2 hne
            · exact Or.inr h2
          · simp at h
        · rename_i y hnode
          simp only [Res.err.injEq] at h
          subst h
          right
          refine ⟨?_, hne⟩
          unfold clNode at hnode
          split at hnode
          · exact absurd rfl hne
          · split at hnode
            · simp at hnode
            · exact clWalk_err_py _ _ _ _ _ _ y hnode
        · simp at h

/-- a saturated node (every product `k1[u] * k2[v] ≥ S`) joins every edge, and no geometric gap is drawn for it -/
theorem clNodes_saturated_head (S : Nat) (edges nodes : List (Nat × Nat)) (u du : Nat) (gaps : List Nat) (rs : List Rat)
    (ps : List (Nat × Nat)) (g : List Nat) (r : List Rat) (hS : 0 < S) (hsat : ∀ e ∈ edges, S ≤ du * e.2)
    (hr : ∀ x ∈ rs, x < 1) (hl : edges.length ≤ rs.length)
    (h : clNodes S edges ((u, du) :: nodes) gaps rs = .ok (ps, g, r)) :
    ∃ ps', ps = (edges.map (fun e => (e.1, u))) ++ ps' ∧ clNodes S edges nodes gaps (rs.drop edges.length) = .ok (ps', g, r) := by
  simp only [clNodes] at h
  split at h
  · simp at h
  · rename_i hemp
    have hne : edges ≠ [] := by simpa using hemp
    split at h
    · simp at h
    · rw [clNode_saturated true _ edges gaps rs hne (fun e he => clProb_one S du e.2 hS (hsat e he)) hr hl] at h
      simp only at h
      split at h
      · rename_i ps' g' r' hrec
        simp only [Res.ok.injEq, Prod.mk.injEq] at h
        obtain ⟨rfl, rfl, rfl⟩ := h
        exact ⟨ps', by simp [List.map_map, Function.comp_def], hrec⟩
      · simp at h
      · simp at h

/-! ### the edge dict built by `add_node_to_edge` -/

/-- `H._edge.get(w)` -/
def lookupE : List (Nat × List Nat) → Nat → Option (List Nat)
  | [], _ => none
  | (x, ms) :: H, w => if x = w then some ms else lookupE H w

theorem lookupE_add (v u : Nat) (H : List (Nat × List Nat)) (w : Nat) :
    lookupE (addNodeToEdge v u H) w = if w = v then some (ins u ((lookupE H v).getD [])) else lookupE H w := by
  induction H with
  | nil =>
    by_cases hw : w = v
    · subst hw; simp [addNodeToEdge, lookupE, ins]
    · simp [addNodeToEdge, lookupE, hw, Ne.symm hw]
  | cons e H ih =>
    obtain ⟨x, ms⟩ := e
    unfold addNodeToEdge
    by_cases hx : x = v
    · subst hx
      by_cases hw : w = x
      · subst hw; simp [lookupE]
      · simp [lookupE, hw, Ne.symm hw]
    · simp only [hx, if_false]
      by_cases hw : w = v
      · subst hw
        simp only [if_true] at ih
        simp [lookupE, hx, ih]
      · simp only [hw, if_false] at ih ⊢
        by_cases hxw : x = w
        · subst hxw; simp [lookupE]
        · simp [lookupE, hxw, ih]

theorem keys_add (v u : Nat) (H : List (Nat × List Nat)) :
    (addNodeToEdge v u H).map (·.1) = if v ∈ H.map (·.1) then H.map (·.1) else H.map (·.1) ++ [v] := by
  induction H with
  | nil => simp [addNodeToEdge]
  | cons e H ih =>
    obtain ⟨x, ms⟩ := e
    unfold addNodeToEdge
    by_cases hx : x = v
    · subst hx; simp
    · simp only [hx, if_false, List.map_cons, ih, List.mem_cons, Ne.symm hx, false_or]
      split <;> simp

theorem mem_iff_lookupE (H : List (Nat × List Nat)) (hk : (H.map (·.1)).Nodup) (w : Nat) (ms : List Nat) :
    (w, ms) ∈ H ↔ lookupE H w = some ms := by
  induction H with
  | nil => simp [lookupE]
  | cons e H ih =>
    obtain ⟨x, xs⟩ := e
    simp only [List.map_cons, List.nodup_cons] at hk
    by_cases hx : x = w
    · subst hx
      simp only [lookupE, if_true, Option.some.injEq, List.mem_cons, Prod.mk.injEq, true_and]
      constructor
      · rintro (h | h)
        · exact h.symm
        · exact absurd (List.mem_map.mpr ⟨(x, ms), h, rfl⟩) hk.1
      · intro h; exact Or.inl h.symm
    · have := ih hk.2
      simp only [lookupE, hx, if_false, List.mem_cons, Prod.mk.injEq]
      rw [← this]
      constructor
      · rintro (⟨h, -⟩ | h)
        · exact absurd h.symm hx
        · exact h
      · intro h; exact Or.inr h

theorem lookupE_isSome (H : List (Nat × List Nat)) (w : Nat) : (lookupE H w).isSome ↔ w ∈ H.map (·.1) := by
  induction H with
  | nil => simp [lookupE]
  | cons e H ih =>
    obtain ⟨x, xs⟩ := e
    by_cases hx : x = w
    · subst hx; simp [lookupE]
    · simp only [lookupE, hx, if_false, List.map_cons, List.mem_cons, Ne.symm hx, false_or]
      exact ih

/-- invariant of the edge dict after the calls `done` -/
def EdgeInv (H : List (Nat × List Nat)) (done : List (Nat × Nat)) : Prop :=
  (H.map (·.1)).Nodup ∧ (∀ w, w ∈ H.map (·.1) ↔ ∃ u, (w, u) ∈ done) ∧
  ∀ w ms, lookupE H w = some ms → ms.Nodup ∧ ∀ u, u ∈ ms ↔ (w, u) ∈ done

theorem edgeInv_step (H : List (Nat × List Nat)) (done : List (Nat × Nat)) (v u : Nat) (h : EdgeInv H done) :
    EdgeInv (addNodeToEdge v u H) (done ++ [(v, u)]) := by
  obtain ⟨h1, h2, h3⟩ := h
  refine ⟨?_, ?_, ?_⟩
  · rw [keys_add]
    split
    · exact h1
    · rename_i hv
      rw [List.nodup_append]
      exact ⟨h1, by simp, fun a ha b hb => by simp at hb; subst hb; intro hab; subst hab; exact hv ha⟩
  · intro w
    rw [keys_add]
    split
    · rename_i hv
      rw [h2 w]
      constructor
      · rintro ⟨x, hx⟩; exact ⟨x, by simp [hx]⟩
      · rintro ⟨x, hx⟩
        simp only [List.mem_append, List.mem_singleton, Prod.mk.injEq] at hx
        rcases hx with hx | ⟨rfl, rfl⟩
        · exact ⟨x, hx⟩
        · exact (h2 w).mp hv
    · simp only [List.mem_append, List.mem_singleton, h2 w, Prod.mk.injEq]
      constructor
      · rintro (⟨x, hx⟩ | rfl)
        · exact ⟨x, Or.inl hx⟩
        · exact ⟨u, Or.inr ⟨rfl, rfl⟩⟩
      · rintro ⟨x, hx | ⟨rfl, rfl⟩⟩
        · exact Or.inl ⟨x, hx⟩
        · exact Or.inr rfl
  · intro w ms hl
    rw [lookupE_add] at hl
    split at hl
    · rename_i hw
      subst hw
      simp only [Option.some.injEq] at hl
      subst hl
      cases hlk : lookupE H w with
      | none =>
        have hnot : w ∉ H.map (·.1) := by rw [← lookupE_isSome, hlk]; simp
        simp only [Option.getD_none]
        refine ⟨by simp [ins], ?_⟩
        intro x
        simp only [ins, List.not_mem_nil, if_false, List.nil_append, List.mem_singleton, List.mem_append, Prod.mk.injEq,
          true_and]
        constructor
        · intro hx; exact Or.inr hx
        · rintro (hx | hx)
          · exact absurd ((h2 w).mpr ⟨x, hx⟩) hnot
          · exact hx
      | some ms0 =>
        obtain ⟨a, b⟩ := h3 w ms0 hlk
        simp only [Option.getD_some]
        refine ⟨nodup_ins a, ?_⟩
        intro x
        simp only [mem_ins, b x, List.mem_append, List.mem_singleton, Prod.mk.injEq, true_and]
        constructor
        · rintro (hx | hx)
          · exact Or.inr hx
          · exact Or.inl hx
        · rintro (hx | hx)
          · exact Or.inr hx
          · exact Or.inl hx
    · rename_i hw
      obtain ⟨a, b⟩ := h3 w ms hl
      refine ⟨a, ?_⟩
      intro x
      simp only [b x, List.mem_append, List.mem_singleton, Prod.mk.injEq, hw, false_and, or_false]

theorem edgeInv_foldl (rest : List (Nat × Nat)) : ∀ (H : List (Nat × List Nat)) (done : List (Nat × Nat)),
    EdgeInv H done → EdgeInv (rest.foldl (fun H p => addNodeToEdge p.1 p.2 H) H) (done ++ rest) := by
  induction rest with
  | nil => intro H done h; simpa using h
  | cons p rest ih =>
    intro H done h
    have := ih _ _ (edgeInv_step H done p.1 p.2 h)
    simpa using this

/-- the edge dict built from an incidence trace: distinct ids, exactly the ids that occur in the trace, and the members
    of an edge are exactly the nodes added to it, each once -/
theorem buildEdges_spec (pairs : List (Nat × Nat)) :
    ((buildEdges pairs).map (·.1)).Nodup ∧ (∀ w, w ∈ (buildEdges pairs).map (·.1) ↔ ∃ u, (w, u) ∈ pairs) ∧
    ∀ e ∈ buildEdges pairs, e.2.Nodup ∧ e.2 ≠ [] ∧ ∀ u, u ∈ e.2 ↔ (e.1, u) ∈ pairs := by
  have h0 : EdgeInv [] [] := ⟨by simp, by simp, by simp [lookupE]⟩
  have := edgeInv_foldl pairs [] [] h0
  simp only [List.nil_append] at this
  obtain ⟨h1, h2, h3⟩ := this
  refine ⟨h1, h2, ?_⟩
  intro e he
  obtain ⟨w, ms⟩ := e
  have hl := (mem_iff_lookupE _ h1 w ms).mp he
  obtain ⟨a, b⟩ := h3 w ms hl
  refine ⟨a, ?_, b⟩
  intro hnil
  subst hnil
  obtain ⟨u, hu⟩ := (h2 w).mp (List.mem_map.mpr ⟨(w, []), he, rfl⟩)
  exact absurd ((b u).mpr hu) (by simp)

end Xgi.C16
