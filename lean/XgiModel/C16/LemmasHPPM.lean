/-
  C16 helper lemmas for the probability arithmetic of uniform_HPPM and uniform_erdos_renyi_hypergraph(p_type="degree").
-/
import XgiModel.C16.LemmasDC
import Mathlib.Tactic.FieldSimp
import Mathlib.Tactic.Linarith

namespace Xgi.C16

theorem hppmSizes_sum (n : Nat) (rho : Rat) (h1 : rho ≤ 1) : sumL (hppmSizes n rho) = n := by
  have hle : (rho * (n : Nat)).floor ≤ (n : Int) := by
    have : rho * ((n : Nat) : Rat) ≤ ((n : Int) : Rat) := by
      have hn : (0 : Rat) ≤ (n : Nat) := by exact_mod_cast Nat.zero_le n
      have := mul_le_mul_of_nonneg_right h1 hn
      simpa using this
    have := Rat.floor_monotone this
    rwa [Rat.floor_intCast] at this
  have : (rho * (n : Nat)).floor.toNat ≤ n := by omega
  simp only [hppmSizes, sumL]
  omega

/-! ### uniform_HSBM: an edge lives in the communities of the block that produced it -/

/-- node `x` belongs to community `b` (`partition[b]` = the labels `cum[b] … cum[b] + sizes[b] - 1`) -/
def InCommunity (sizes cum : List Nat) (b x : Nat) : Prop := cum.getD b 0 ≤ x ∧ x < cum.getD b 0 + sizes.getD b 0

theorem labelOf_in_block (sizes cum : List Nat) :
    ∀ (block t : List Nat), List.Forall₂ (· < ·) t (block.map (fun b => sizes.getD b 0)) →
      ∀ x ∈ labelOf (block.map (fun b => cum.getD b 0)) t, ∃ b ∈ block, InCommunity sizes cum b x := by
  intro block
  induction block with
  | nil => intro t ht x hx; cases ht; simp [labelOf] at hx
  | cons b bs ih =>
    intro t ht x hx
    cases ht with
    | cons ha hts =>
      simp only [labelOf, List.map_cons, List.zipWith_cons_cons, List.mem_cons] at hx
      rcases hx with rfl | hx
      · have ha' : _ < sizes.getD b 0 := ha
        exact ⟨b, by simp, by unfold InCommunity; omega⟩
      · obtain ⟨b', hb', h'⟩ := ih _ hts x hx
        exact ⟨b', by simp [hb'], h'⟩

theorem hsbmBlock_members (m : Nat) (sizes cum : List Nat) (block : List Nat) (p : Prob) (gaps : List Nat)
    (es : List (List Nat)) (rest : List Nat) (hg : ∀ g ∈ gaps, 1 ≤ g)
    (h : hsbmBlock m (block.map (fun b => sizes.getD b 0)) (block.map (fun b => cum.getD b 0)) p gaps = some (es, rest)) :
    ∀ e ∈ es, p ≠ .zero ∧ ∀ x ∈ e, ∃ b ∈ block, InCommunity sizes cum b x := by
  have key : ∀ (ts : List (List Nat)), (∀ t ∈ ts, t ∈ blockProduct (block.map (fun b => sizes.getD b 0))) →
      ∀ e ∈ keepUniform m (ts.map (labelOf (block.map (fun b => cum.getD b 0)))), ∀ x ∈ e, ∃ b ∈ block, InCommunity sizes cum b x := by
    intro ts hts e he
    rw [mem_keepUniform] at he
    obtain ⟨⟨l, hl, rfl⟩, -⟩ := he
    intro x hx
    rw [mem_dedup] at hx
    rw [List.mem_map] at hl
    obtain ⟨t, ht, rfl⟩ := hl
    exact labelOf_in_block sizes cum block t ((mem_blockProduct _ _).mp (hts t ht)) x hx
  cases p <;> simp only [hsbmBlock] at h
  · simp at h; obtain ⟨rfl, rfl⟩ := h; simp
  · simp at h; obtain ⟨rfl, rfl⟩ := h
    intro e he
    exact ⟨by simp, key _ (fun t ht => ht) e he⟩
  · split at h
    · simp at h
    · rename_i is rest' hs
      simp at h; obtain ⟨rfl, rfl⟩ := h
      obtain ⟨-, h2, -⟩ := skipSample_spec _ _ _ _ hg hs
      have := key (is.map (indexToEdgePartition (block.map (fun b => sizes.getD b 0)))) (by
        intro t ht
        rw [List.mem_map] at ht
        obtain ⟨i, hi, rfl⟩ := ht
        exact indexToEdgePartition_mem _ i (h2 i hi))
      rw [List.map_map] at this
      intro e he
      exact ⟨by simp, this e he⟩

theorem hsbmLoop_members (m : Nat) (sizes cum : List Nat) (N : Nat) (hb : ∀ b, cum.getD b 0 + sizes.getD b 0 ≤ N) :
    ∀ (blocks : List (List Nat)) (ps : List Prob) (gaps : List Nat) (es : List (List Nat)) (rest : List Nat),
      (∀ g ∈ gaps, 1 ≤ g) → hsbmLoop m sizes cum blocks ps gaps = some (es, rest) →
      ∀ e ∈ es, ∃ bp ∈ blocks.zip ps, bp.2 ≠ .zero ∧ ∀ x ∈ e, ∃ b ∈ bp.1, InCommunity sizes cum b x := by
  intro blocks
  induction blocks with
  | nil => intro ps gaps es rest _ h; simp [hsbmLoop] at h; obtain ⟨rfl, rfl⟩ := h; simp
  | cons block bs ih =>
    intro ps gaps es rest hg h
    cases ps with
    | nil => simp [hsbmLoop] at h
    | cons p ps =>
      simp only [hsbmLoop] at h
      split at h
      · simp at h
      · rename_i es1 rest1 h1
        split at h
        · simp at h
        · rename_i es2 rest2 h2
          simp at h; obtain ⟨rfl, rfl⟩ := h
          obtain ⟨-, -, used1, a3⟩ := hsbmBlock_spec m sizes cum N hb block p gaps es1 rest1 hg h1
          have hg1 : ∀ g ∈ rest1, 1 ≤ g := fun g hgm => hg g (by rw [a3]; simp [hgm])
          intro e he
          rw [List.mem_append] at he
          rcases he with he | he
          · obtain ⟨a, b⟩ := hsbmBlock_members m sizes cum block p gaps es1 rest1 hg h1 e he
            exact ⟨(block, p), by simp, a, b⟩
          · obtain ⟨bp, hbp, a, b⟩ := ih ps rest1 es2 rest2 hg1 h2 e he
            exact ⟨bp, by simp [hbp], a, b⟩

theorem length_hppmTensor (m : Nat) (a b : Rat) : (hppmTensor m a b).length = 2 ^ m := by
  simp [hppmTensor]

theorem mem_hppmTensor (m : Nat) (a b x : Rat) (h : x ∈ hppmTensor m a b) : x = a ∨ x = b := by
  simp only [hppmTensor, List.mem_map, List.mem_range] at h
  obtain ⟨i, -, rfl⟩ := h
  split <;> simp

/-! ### the two diagonal blocks of the planted-partition tensor -/

theorem div_pow_mod_two (M k : Nat) (hk : k < M) : (2 ^ M - 1) / 2 ^ k % 2 = 1 := by
  have := Nat.testBit_two_pow_sub_one M k
  rw [Nat.testBit_eq_decide_div_mod_eq] at this
  simpa [hk] using this

theorem indexToEdgeProd_zero (n m : Nat) : indexToEdgeProd n m 0 = List.replicate m 0 := by
  induction m with
  | zero => rfl
  | succ m ih => simp [indexToEdgeProd, ih, List.replicate_succ]

theorem indexToEdgeProd_ones (M : Nat) : ∀ m, m ≤ M → indexToEdgeProd 2 m (2 ^ M - 1) = List.replicate m 1 := by
  intro m
  induction m with
  | zero => intro _; rfl
  | succ m ih =>
    intro hm
    simp [indexToEdgeProd, ih (by omega), List.replicate_succ, div_pow_mod_two M m (by omega)]

/-- the block tuples of the HPPM loop paired with the kinds of the tensor: with `p_out = 0` only the two constant tuples
    `(0,…,0)` and `(1,…,1)` have a non-zero kind -/
theorem hppm_diagonal (m : Nat) (pin : Rat) (bp : List Nat × Prob)
    (h : bp ∈ (product 2 m).zip ((hppmTensor m pin 0).map classify)) (hz : bp.2 ≠ .zero) :
    bp.1 = List.replicate m 0 ∨ bp.1 = List.replicate m 1 := by
  rw [← prod_decode_l, hppmTensor, List.map_map, List.zip_map'] at h
  simp only [List.mem_map, List.mem_range] at h
  obtain ⟨i, hi, rfl⟩ := h
  simp only [Function.comp] at hz ⊢
  by_cases h0 : i = 0 ∨ i + 1 = 2 ^ m
  · rcases h0 with rfl | h1
    · left; exact indexToEdgeProd_zero 2 m
    · right
      have : i = 2 ^ m - 1 := by omega
      rw [this]
      exact indexToEdgeProd_ones m m (Nat.le_refl m)
  · exfalso
    apply hz
    simp [h0, classify]

theorem classify_zero (x : Rat) : classify x = .zero ↔ x = 0 := by
  unfold classify
  split
  · simp [*]
  · split <;> simp [*]

theorem Res.ofOption_ok {α} (o : Option α) (a : α) : Res.ofOption o = .ok a ↔ o = some a := by
  cases o <;> simp [Res.ofOption]

end Xgi.C16
