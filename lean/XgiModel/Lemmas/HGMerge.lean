/-
  `merge_duplicate_edges`: what the duplicate classes are (`groupDups`), which edges the loop collects, and what the
  removal + re-addition does to everything else.  Helper lemmas for the merge theorems of Props/C05.lean.
-/
import XgiModel.Lemmas.HGAdd
import XgiModel.Lemmas.HGFreeze
import Mathlib.Tactic.Tauto

namespace Xgi
namespace HG

/-! ### equal member sets -/

theorem sameSet_iff (a b : List PyId) : sameSet a b = true ↔ ∀ x, x ∈ a ↔ x ∈ b := by
  unfold sameSet
  simp only [Bool.and_eq_true, List.all_eq_true, decide_eq_true_eq]
  constructor
  · rintro ⟨h1, h2⟩ x; exact ⟨h1 x, h2 x⟩
  · intro h; exact ⟨fun x hx => (h x).mp hx, fun x hx => (h x).mpr hx⟩

/-- two edges are duplicates of each other -/
def Dup (s : HG) (e f : PyId) : Prop := sameSet (s.mem e) (s.mem f) = true

theorem Dup.refl (s : HG) (e : PyId) : Dup s e e := (sameSet_iff _ _).mpr (fun _ => Iff.rfl)
theorem Dup.symm {s : HG} {e f : PyId} (h : Dup s e f) : Dup s f e :=
  (sameSet_iff _ _).mpr (fun x => ((sameSet_iff _ _).mp h x).symm)
theorem Dup.trans {s : HG} {e f g : PyId} (h1 : Dup s e f) (h2 : Dup s f g) : Dup s e g :=
  (sameSet_iff _ _).mpr (fun x => ((sameSet_iff _ _).mp h1 x).trans ((sameSet_iff _ _).mp h2 x))

/-! ### the duplicate classes -/

/-- "the class `g` has the member set of `e`" (the `hashes` lookup) -/
def classOf (s : HG) (e : PyId) (g : List PyId) : Bool :=
  match g with | r :: _ => sameSet (s.mem r) (s.mem e) | [] => false

def groupStep (s : HG) (gs : List (List PyId)) (e : PyId) : List (List PyId) :=
  if gs.any (classOf s e) then gs.map (fun g => if classOf s e g then g ++ [e] else g) else gs ++ [[e]]

theorem groupDups_eq (s : HG) : groupDups s = s.edges.foldl (groupStep s) [] := by
  unfold groupDups
  congr 1
  funext gs e
  have hany : gs.any (classOf s e) = gs.any (fun g => match g with
      | r :: _ => sameSet (s.mem r) (s.mem e) | [] => false) := by
    congr 1
  have hmap : gs.map (fun g => if classOf s e g then g ++ [e] else g) = gs.map (fun (g : List PyId) => match g with
      | r :: _ => if sameSet (s.mem r) (s.mem e) = true then g ++ [e] else g
      | [] => g) := by
    apply List.map_congr_left
    intro g _
    cases g with
    | nil => rfl
    | cons r t => rfl
  unfold groupStep
  rw [hany, hmap]
  split <;> split <;> first | rfl | contradiction | simp_all

/-- what holds of the classes after the edges `p` have been distributed -/
structure Grouped (s : HG) (gs : List (List PyId)) (p : List PyId) : Prop where
  nonempty : ∀ g ∈ gs, g ≠ []
  dup : ∀ g ∈ gs, ∀ x ∈ g, ∀ y ∈ g, Dup s x y
  cover : ∀ x, (∃ g ∈ gs, x ∈ g) ↔ x ∈ p
  nodup : ∀ g ∈ gs, g.Nodup

theorem classOf_dup {s : HG} {gs : List (List PyId)} {p : List PyId} (h : Grouped s gs p) {g : List PyId}
    (hg : g ∈ gs) {e : PyId} (hc : classOf s e g = true) : ∀ x ∈ g, Dup s x e := by
  cases g with
  | nil => simp [classOf] at hc
  | cons r t =>
    intro x hx
    have h1 : Dup s x r := h.dup _ hg x hx r (by simp)
    exact h1.trans hc

theorem groupStep_grouped {s : HG} {gs : List (List PyId)} {p : List PyId} (h : Grouped s gs p) (e : PyId)
    (he : e ∉ p) : Grouped s (groupStep s gs e) (p ++ [e]) := by
  have he' : ∀ g ∈ gs, e ∉ g := fun g hg hx => he ((h.cover e).mp ⟨g, hg, hx⟩)
  unfold groupStep
  split
  · rename_i hany
    constructor
    · intro g' hg'
      obtain ⟨g, hg, rfl⟩ := List.mem_map.mp hg'
      have := h.nonempty g hg
      split
      · simp
      · exact this
    · intro g' hg' x hx y hy
      obtain ⟨g, hg, rfl⟩ := List.mem_map.mp hg'
      split at hx
      · rename_i hc
        rw [if_pos hc] at hy
        have hd := classOf_dup h hg hc
        simp only [List.mem_append, List.mem_singleton] at hx hy
        rcases hx with hx | rfl <;> rcases hy with hy | rfl
        · exact h.dup g hg x hx y hy
        · exact hd x hx
        · exact (hd y hy).symm
        · exact Dup.refl s _
      · rename_i hc
        rw [if_neg hc] at hy
        exact h.dup g hg x hx y hy
    · intro x
      simp only [List.mem_append, List.mem_singleton]
      constructor
      · rintro ⟨g', hg', hx⟩
        obtain ⟨g, hg, rfl⟩ := List.mem_map.mp hg'
        split at hx
        · simp only [List.mem_append, List.mem_singleton] at hx
          rcases hx with hx | rfl
          · exact Or.inl ((h.cover x).mp ⟨g, hg, hx⟩)
          · exact Or.inr rfl
        · exact Or.inl ((h.cover x).mp ⟨g, hg, hx⟩)
      · rintro (hx | rfl)
        · obtain ⟨g, hg, hxg⟩ := (h.cover x).mpr hx
          refine ⟨_, List.mem_map.mpr ⟨g, hg, rfl⟩, ?_⟩
          split
          · simp [hxg]
          · exact hxg
        · obtain ⟨g, hg, hc⟩ := List.any_eq_true.mp hany
          exact ⟨_, List.mem_map.mpr ⟨g, hg, rfl⟩, by simp [hc]⟩
    · intro g' hg'
      obtain ⟨g, hg, rfl⟩ := List.mem_map.mp hg'
      split
      · exact nodup_append_singleton (h.nodup g hg) (he' g hg)
      · exact h.nodup g hg
  · constructor
    · intro g hg
      rcases List.mem_append.mp hg with hg | hg
      · exact h.nonempty g hg
      · simp at hg; subst hg; simp
    · intro g hg x hx y hy
      rcases List.mem_append.mp hg with hg | hg
      · exact h.dup g hg x hx y hy
      · simp only [List.mem_singleton] at hg; subst hg
        simp only [List.mem_singleton] at hx hy; subst hx; subst hy; exact Dup.refl s _
    · intro x
      simp only [List.mem_append, List.mem_singleton]
      constructor
      · rintro ⟨g, hg, hx⟩
        rcases hg with hg | hg
        · exact Or.inl ((h.cover x).mp ⟨g, hg, hx⟩)
        · subst hg; simp only [List.mem_singleton] at hx; exact Or.inr hx
      · rintro (hx | rfl)
        · obtain ⟨g, hg, hxg⟩ := (h.cover x).mpr hx
          exact ⟨g, Or.inl hg, hxg⟩
        · exact ⟨[x], Or.inr (by simp), by simp⟩
    · intro g hg
      rcases List.mem_append.mp hg with hg | hg
      · exact h.nodup g hg
      · simp at hg; subst hg; simp

theorem foldl_grouped {s : HG} (l : List PyId) (gs : List (List PyId)) (p : List PyId) (h : Grouped s gs p)
    (hn : (p ++ l).Nodup) : Grouped s (l.foldl (groupStep s) gs) (p ++ l) := by
  induction l generalizing gs p with
  | nil => simpa using h
  | cons e l ih =>
    simp only [List.foldl_cons]
    have he : e ∉ p := by
      rw [List.nodup_append] at hn
      intro hp; exact hn.2.2 e hp e (by simp) rfl
    have := ih (groupStep s gs e) (p ++ [e]) (groupStep_grouped h e he) (by simpa using hn)
    simpa using this

/-- the classes `merge_duplicate_edges` works on: every edge is in one, a class holds pairwise duplicate edges,
    and no edge is listed twice in a class -/
theorem groupDups_grouped {s : HG} (h : s.edges.Nodup) : Grouped s (groupDups s) s.edges := by
  rw [groupDups_eq]
  have := foldl_grouped (s := s) s.edges [] [] ⟨by simp, by simp, by simp, by simp⟩ (by simpa using h)
  simpa using this

/-- an edge in a class of more than one edge has a duplicate different from itself -/
theorem has_twin {s : HG} (h : s.edges.Nodup) {g : List PyId} (hg : g ∈ groupDups s) (hl : 1 < g.length)
    {e : PyId} (he : e ∈ g) : ∃ f ∈ s.edges, f ≠ e ∧ Dup s e f := by
  have G := groupDups_grouped h
  have hnd := G.nodup g hg
  have : ∃ f ∈ g, f ≠ e := by
    match g, hl, hnd, he with
    | a :: b :: t, _, hnd, he =>
      by_cases hab : a = e
      · refine ⟨b, by simp, ?_⟩
        rintro rfl
        simp only [List.nodup_cons, List.mem_cons] at hnd
        exact hnd.1 (Or.inl hab)
      · exact ⟨a, by simp, hab⟩
  obtain ⟨f, hf, hne⟩ := this
  exact ⟨f, (G.cover f).mp ⟨g, hg, hf⟩, hne, G.dup g hg e he f hf⟩

/-! ### what the loop collects -/

theorem mergeLoop_dups (rename : Rename) (rule : MergeRule) (mult : Option String) (gs : List (List PyId))
    (s : HG) (dups : List PyId) (news : List EdgeItem) (s' : HG) (d' : List PyId) (n' : List EdgeItem)
    (h : mergeLoop rename rule mult s gs dups news = (s', .ok (d', n'))) :
    ∀ x ∈ d', x ∈ dups ∨ ∃ g ∈ gs, 1 < g.length ∧ x ∈ g := by
  induction gs generalizing s dups news with
  | nil => simp only [mergeLoop, Prod.mk.injEq, Except.ok.injEq] at h; intro x hx; rw [← h.2.1] at hx; exact Or.inl hx
  | cons g gs ih =>
    simp only [mergeLoop] at h
    split at h
    · intro x hx
      rcases ih s dups news h x hx with h1 | ⟨g', hg', h2⟩
      · exact Or.inl h1
      · exact Or.inr ⟨g', by simp [hg'], h2⟩
    · rename_i hlen
      split at h
      · cases h
      · rename_i s2 it heq
        intro x hx
        rcases ih s2 (dups ++ g) (news ++ [it]) h x hx with h1 | ⟨g', hg', h2⟩
        · rcases List.mem_append.mp h1 with h1 | h1
          · exact Or.inl h1
          · exact Or.inr ⟨g, by simp, by omega, h1⟩
        · exact Or.inr ⟨g', by simp [hg'], h2⟩

/-- the loop only advances the counter -/
theorem mergeGroup_uid_only (rename : Rename) (rule : MergeRule) (mult : Option String) (s : HG) (g : List PyId) :
    ∃ k, (mergeGroup rename rule mult s g).1 = { s with uid := k } := by
  cases g with
  | nil => exact ⟨s.uid, rfl⟩
  | cons r t =>
    simp only [mergeGroup]
    have hid : ∃ k, (mergeNewId rename s (r :: t)).1 = { s with uid := k } := by
      unfold mergeNewId
      cases rename
      · simp only []; split <;> exact ⟨s.uid, rfl⟩
      · simp only []; split
        · split <;> exact ⟨s.uid, rfl⟩
        · exact ⟨s.uid, rfl⟩
      · exact ⟨s.uid + 1, rfl⟩
      · exact ⟨s.uid, rfl⟩
    obtain ⟨k, hk⟩ := hid
    split
    · rename_i s' e heq; refine ⟨k, ?_⟩; rw [← hk, heq]
    · rename_i s' nid heq
      split
      · refine ⟨k, ?_⟩; rw [← hk, heq]
      · refine ⟨k, ?_⟩; rw [← hk, heq]

theorem mergeLoop_uid_only (rename : Rename) (rule : MergeRule) (mult : Option String) (gs : List (List PyId))
    (s : HG) (dups : List PyId) (news : List EdgeItem) :
    ∃ k, (mergeLoop rename rule mult s gs dups news).1 = { s with uid := k } := by
  induction gs generalizing s dups news with
  | nil => exact ⟨s.uid, rfl⟩
  | cons g gs ih =>
    simp only [mergeLoop]
    split
    · exact ih s dups news
    · obtain ⟨k, hk⟩ := mergeGroup_uid_only rename rule mult s g
      split
      · rename_i s' e heq; rw [heq] at hk; exact ⟨k, hk⟩
      · rename_i s' it heq
        rw [heq] at hk
        simp only at hk
        obtain ⟨k2, hk2⟩ := ih s' (dups ++ g) (news ++ [it])
        exact ⟨k2, by rw [hk2, hk]⟩

/-- every edge the loop wants to add carries the member set of the first edge of a class -/
theorem mergeLoop_news (rename : Rename) (rule : MergeRule) (mult : Option String) (gs : List (List PyId))
    (s : HG) (dups : List PyId) (news : List EdgeItem) (s' : HG) (d' : List PyId) (n' : List EdgeItem)
    (h : mergeLoop rename rule mult s gs dups news = (s', .ok (d', n'))) :
    ∀ it ∈ n', it ∈ news ∨ ∃ g ∈ gs, ∃ r t, g = r :: t ∧ it.members = s.mem r := by
  induction gs generalizing s dups news with
  | nil => simp only [mergeLoop, Prod.mk.injEq, Except.ok.injEq] at h; intro x hx; rw [← h.2.2] at hx; exact Or.inl hx
  | cons g gs ih =>
    simp only [mergeLoop] at h
    split at h
    · intro x hx
      rcases ih s dups news h x hx with h1 | ⟨g', hg', h2⟩
      · exact Or.inl h1
      · exact Or.inr ⟨g', by simp [hg'], h2⟩
    · split at h
      · cases h
      · rename_i s2 it heq
        obtain ⟨k, hk⟩ := mergeGroup_uid_only rename rule mult s g
        rw [heq] at hk
        simp only at hk
        have hmem : s2.mem = s.mem := by rw [hk]
        have hit : ∃ r t, g = r :: t ∧ it.members = s.mem r := by
          cases g with
          | nil => simp [mergeGroup] at heq
          | cons r t =>
            refine ⟨r, t, rfl, ?_⟩
            simp only [mergeGroup] at heq
            split at heq
            · cases heq
            · split at heq
              · cases heq
              · simp only [Prod.mk.injEq, Except.ok.injEq] at heq; rw [← heq.2]
        intro x hx
        rcases ih s2 (dups ++ g) (news ++ [it]) h x hx with h1 | ⟨g', hg', r, t, h2, h3⟩
        · rcases List.mem_append.mp h1 with h1 | h1
          · exact Or.inl h1
          · simp only [List.mem_singleton] at h1; subst h1
            exact Or.inr ⟨g, by simp, hit⟩
        · exact Or.inr ⟨g', by simp [hg'], r, t, h2, by rw [h3, hmem]⟩

/-! ### removal of the collected edges, re-addition of the merged ones -/

theorem removeEdge_fields (s : HG) (e : PyId) :
    (removeEdge s e).1.nodes = s.nodes ∧ (removeEdge s e).1.mem = s.mem ∧ (removeEdge s e).1.eattr = s.eattr ∧
    (∀ x, x ∈ (removeEdge s e).1.edges → x ∈ s.edges) ∧ (∀ x ∈ s.edges, x ≠ e → x ∈ (removeEdge s e).1.edges) := by
  unfold removeEdge; split
  · exact ⟨rfl, rfl, rfl, fun _ h => h, fun _ h _ => h⟩
  · refine ⟨rfl, rfl, rfl, ?_, ?_⟩
    · intro x hx; simp only [dropEdge, mem_rm] at hx; exact hx.2
    · intro x hx hne; simp only [dropEdge, mem_rm]; exact ⟨hne, hx⟩

theorem removeEdgesFrom_fields (l : List PyId) (s : HG) :
    (removeEdgesFrom s l).1.nodes = s.nodes ∧ (removeEdgesFrom s l).1.mem = s.mem ∧
    (removeEdgesFrom s l).1.eattr = s.eattr ∧ (∀ x, x ∈ (removeEdgesFrom s l).1.edges → x ∈ s.edges) ∧
    (∀ x ∈ s.edges, x ∉ l → x ∈ (removeEdgesFrom s l).1.edges) := by
  unfold removeEdgesFrom
  induction l generalizing s with
  | nil => exact ⟨rfl, rfl, rfl, fun _ h => h, fun _ h _ => h⟩
  | cons e l ih =>
    obtain ⟨a1, a2, a3, a4, a5⟩ := removeEdge_fields s e
    simp only [bulk]
    split
    · rename_i s' k heq; rw [heq] at a1 a2 a3 a4 a5
      exact ⟨a1, a2, a3, a4, fun x hx hl => a5 x hx (by intro h; apply hl; simp [h])⟩
    · rename_i s' o _ heq; rw [heq] at a1 a2 a3 a4 a5
      obtain ⟨b1, b2, b3, b4, b5⟩ := ih s'
      refine ⟨b1.trans a1, b2.trans a2, b3.trans a3, fun x hx => a4 x (b4 x hx), ?_⟩
      intro x hx hl
      exact b5 x (a5 x hx (by intro h; apply hl; simp [h])) (by intro h; apply hl; simp [h])

theorem foldl_link_nodes (ms : List PyId) (s : HG) (e : PyId) (h : ∀ n ∈ ms, n ∈ s.nodes) :
    (ms.foldl (fun s n => link s e n) s).nodes = s.nodes := by
  induction ms generalizing s with
  | nil => rfl
  | cons m ms ih =>
    simp only [List.foldl_cons]
    have hm : m ∈ s.nodes := h m (by simp)
    have hl : (link s e m).nodes = s.nodes := by simp [link, linkCore, addNodeRaw, hm]
    rw [ih (link s e m) (by intro n hn; rw [hl]; exact h n (by simp [hn])), hl]

theorem addEdgesItem_nodes (fmt : Fmt) (attr : Attrs) (s : HG) (it : EdgeItem) (h : ∀ n ∈ it.members, n ∈ s.nodes) :
    (addEdgesItem fmt attr s it).1.nodes = s.nodes := by
  have key : ∀ (u : HG) (idx : PyId) (a : Attrs), u.nodes = s.nodes →
      (addEdgeAt u idx (dedup it.members) a).nodes = s.nodes := by
    intro u idx a hu
    unfold addEdgeAt
    rw [foldl_link_nodes]
    · simpa [updEdgeAttr, newEdgeAttr, newEdgeRaw] using hu
    · intro n hn
      simp only [updEdgeAttr, newEdgeAttr, newEdgeRaw, hu]
      exact h n (mem_dedup.mp hn)
  have hb : ∀ (u : HG) (i : PyId), (bumpUid u i).nodes = u.nodes := by
    intro u i; unfold bumpUid; split
    · split <;> rfl
    · rfl
  unfold addEdgesItem
  cases hx : fmt.explicit
  · simp only [Bool.false_eq_true, if_false]
    split
    · rfl
    · split
      · rfl
      · exact key _ _ _ rfl
  · simp only [if_true]
    split
    · rfl
    · split
      · rfl
      · simp only [hb]; exact key s _ _ rfl

theorem addEdgesFrom_f4_eq (u : HG) (items : List EdgeItem) (attr : Attrs) :
    addEdgesFrom u .f4 items attr = bulk (addEdgesItem .f4 attr) u items := by
  unfold addEdgesFrom; split <;> first | rfl | (exfalso; simp_all)

theorem bulk_addEdgesItem_nodes (fmt : Fmt) (attr : Attrs) (items : List EdgeItem) (s : HG) (N : List PyId)
    (hs : s.nodes = N) (h : ∀ it ∈ items, ∀ n ∈ it.members, n ∈ N) :
    (bulk (addEdgesItem fmt attr) s items).1.nodes = N := by
  induction items generalizing s with
  | nil => simpa [bulk] using hs
  | cons it items ih =>
    have h1 := addEdgesItem_nodes fmt attr s it (by intro n hn; rw [hs]; exact h it (by simp) n hn)
    simp only [bulk]
    split
    · rename_i s' k heq; rw [heq] at h1; exact h1.trans hs
    · rename_i s' o _ heq; rw [heq] at h1
      exact ih s' (h1.trans hs) (fun it' hit' => h it' (by simp [hit']))

theorem addEdgesFrom_f4_nodes (attr : Attrs) (items : List EdgeItem) (s : HG) (N : List PyId) (hs : s.nodes = N)
    (h : ∀ it ∈ items, ∀ n ∈ it.members, n ∈ N) : (addEdgesFrom s .f4 items attr).1.nodes = N := by
  rw [addEdgesFrom_f4_eq]; exact bulk_addEdgesItem_nodes .f4 attr items s N hs h

/-! ### member sets of the edges a bulk addition creates -/

theorem foldl_link_mem_self (ms : List PyId) (s : HG) (e : PyId) :
    ∀ x, x ∈ (ms.foldl (fun s n => link s e n) s).mem e ↔ x ∈ s.mem e ∨ x ∈ ms := by
  induction ms generalizing s with
  | nil => intro x; simp
  | cons m ms ih =>
    intro x
    simp only [List.foldl_cons]
    rw [ih (link s e m) x]
    have : ∀ y, y ∈ (link s e m).mem e ↔ y = m ∨ y ∈ s.mem e := by
      intro y
      unfold link linkCore addNodeRaw
      split <;> simp [upd_apply, mem_ins]
    rw [this x]; simp only [List.mem_cons]; tauto

theorem addEdgeAt_mem_new (s : HG) (e : PyId) (ms : List PyId) (a : Attrs) :
    ∀ x, x ∈ (addEdgeAt s e ms a).mem e ↔ x ∈ ms := by
  intro x
  unfold addEdgeAt
  rw [foldl_link_mem_self]
  simp [updEdgeAttr, newEdgeAttr, newEdgeRaw]

/-- after one item of a bulk addition: the edge list grew by at most the item's ID, whose members are the item's -/
theorem addEdgesItem_new_members (fmt : Fmt) (attr : Attrs) (s : HG) (it : EdgeItem) :
    ∀ e ∈ (addEdgesItem fmt attr s it).1.edges, e ∈ s.edges ∨
      ∀ x, x ∈ (addEdgesItem fmt attr s it).1.mem e ↔ x ∈ it.members := by
  have hb : ∀ (u : HG) (i : PyId), (bumpUid u i).mem = u.mem := by
    intro u i; unfold bumpUid; split
    · split <;> rfl
    · rfl
  intro e he
  unfold addEdgesItem at he ⊢
  cases hx : fmt.explicit
  · simp only [hx, Bool.false_eq_true, if_false] at he ⊢
    split
    · rename_i h1; rw [if_pos h1] at he; exact Or.inl he
    · rename_i h1; rw [if_neg h1] at he
      split
      · rename_i h2; rw [if_pos h2] at he; exact Or.inl he
      · rename_i h2; rw [if_neg h2] at he
        simp only [(addEdgeAt_edges _ _ _ _).1, List.mem_append, List.mem_singleton] at he
        rcases he with he | rfl
        · exact Or.inl he
        · right; intro x; rw [addEdgeAt_mem_new]; exact mem_dedup
  · simp only [hx, if_true] at he ⊢
    split
    · rename_i h1; rw [if_pos h1] at he; exact Or.inl he
    · rename_i h1; rw [if_neg h1] at he
      split
      · rename_i h2; rw [if_pos h2] at he; exact Or.inl he
      · rename_i h2; rw [if_neg h2] at he
        simp only [bumpUid_edges, (addEdgeAt_edges _ _ _ _).1, List.mem_append, List.mem_singleton] at he
        rcases he with he | rfl
        · exact Or.inl he
        · right; intro x; rw [hb, addEdgeAt_mem_new]; exact mem_dedup

/-- every edge after a bulk addition is an old edge with its old members, or has the member set of one of the items -/
theorem bulk_add_members (fmt : Fmt) (attr : Attrs) (items : List EdgeItem) {s : HG} (h : Inv s) :
    ∀ e ∈ (bulk (addEdgesItem fmt attr) s items).1.edges,
      (e ∈ s.edges ∧ (bulk (addEdgesItem fmt attr) s items).1.mem e = s.mem e) ∨
      ∃ it ∈ items, ∀ x, x ∈ (bulk (addEdgesItem fmt attr) s items).1.mem e ↔ x ∈ it.members := by
  induction items generalizing s with
  | nil => intro e he; exact Or.inl ⟨by simpa [bulk] using he, rfl⟩
  | cons it items ih =>
    have hi := addEdgesItem_inv fmt attr s it h
    have hk := addEdgesItem_keeps fmt attr s it h
    have hm := addEdgesItem_new_members fmt attr s it
    intro e he
    simp only [bulk] at he ⊢
    split at he
    · rename_i s' k heq
      rw [heq] at hk hm
      simp only at he hk hm ⊢
      rcases hm e he with h1 | h1
      · exact Or.inl ⟨h1, (hk.2 e h1).1⟩
      · exact Or.inr ⟨it, by simp, h1⟩
    · rename_i s' o hne heq
      rw [heq] at hk hm hi
      simp only at he hk hm hi ⊢
      rcases ih hi e he with ⟨h1, h2⟩ | ⟨it', hit', h2⟩
      · rcases hm e h1 with h3 | h3
        · exact Or.inl ⟨h3, h2.trans (hk.2 e h3).1⟩
        · exact Or.inr ⟨it, by simp, fun x => by rw [h2]; exact h3 x⟩
      · exact Or.inr ⟨it', by simp [hit'], h2⟩

/-! ### the whole call, as an induction principle -/

/-- `merge_duplicate_edges` = advance the counter; remove edges that each have a duplicate; add edges whose member
    set is the member set of an existing edge.  Whatever holds after each such phase holds of the result (also when
    the call raises half-way). -/
theorem merge_induct {s : HG} (h : Inv s) (P : HG → Prop) (rename : Rename) (rule : MergeRule) (mult : Option String)
    (r : HG × Outcome) (hr : mergeDuplicateEdges s rename rule mult = some r)
    (h0 : ∀ k, P { s with uid := k })
    (h1 : ∀ t dups, Inv t → P t → (∀ x ∈ dups, ∃ f ∈ s.edges, f ≠ x ∧ Dup s x f) → P (removeEdgesFrom t dups).1)
    (h2 : ∀ t news, Inv t → P t → (∀ it ∈ news, ∃ e ∈ s.edges, EdgeItem.members it = s.mem e) →
      P (addEdgesFrom t .f4 news []).1) : P r.1 := by
  unfold mergeDuplicateEdges at hr
  have hl := mergeLoop_inv rename rule mult (groupDups s) h [] []
  obtain ⟨k, hk⟩ := mergeLoop_uid_only rename rule mult (groupDups s) s [] []
  have G := groupDups_grouped h.1.nodupE
  split at hr
  · cases hr
  · rename_i heq; rw [heq] at hk; cases hr; simp only at hk ⊢; rw [hk]; exact h0 k
  · rename_i heq; rw [heq] at hk; cases hr; simp only at hk ⊢; rw [hk]; exact h0 k
  · rename_i s' dups news heq
    rw [heq] at hl hk
    simp only [] at hr hl hk
    have hP : P s' := by rw [hk]; exact h0 k
    have hd : ∀ x ∈ dups, ∃ f ∈ s.edges, f ≠ x ∧ Dup s x f := by
      intro x hx
      rcases mergeLoop_dups rename rule mult (groupDups s) s [] [] s' dups news heq x hx with h' | ⟨g, hg, hlen, hxg⟩
      · cases h'
      · exact has_twin h.1.nodupE hg hlen hxg
    have hn : ∀ it ∈ news, ∃ e ∈ s.edges, EdgeItem.members it = s.mem e := by
      intro it hit
      rcases mergeLoop_news rename rule mult (groupDups s) s [] [] s' dups news heq it hit with h' | ⟨g, hg, r0, t, hgt, hm⟩
      · cases h'
      · exact ⟨r0, (G.cover r0).mp ⟨g, hg, by rw [hgt]; simp⟩, hm⟩
    have i1 : Inv (guardF s' (removeEdgesFrom s' dups)).1 := guardF_inv Inv _ _ hl (removeEdgesFrom_inv hl _)
    have p1 : P (guardF s' (removeEdgesFrom s' dups)).1 := by
      unfold guardF; split
      · exact hP
      · exact h1 s' dups hl hP hd
    split at hr
    · cases hr; exact p1
    · have p2 : P (guardF (guardF s' (removeEdgesFrom s' dups)).1
          (addEdgesFrom (guardF s' (removeEdgesFrom s' dups)).1 .f4 news [])).1 := by
        generalize (guardF s' (removeEdgesFrom s' dups)).1 = t at i1 p1 ⊢
        unfold guardF; split
        · exact p1
        · exact h2 t news i1 p1 hn
      split at hr
      · cases hr; exact p2
      · cases hr; exact p2

end HG
end Xgi
