/-
  `merge_duplicate_edges`: what the duplicate classes are (`groupDups`), which edges the loop collects, and what the
  removal + re-addition does to everything else.  Helper lemmas for the merge theorems of Props/C05.lean.
-/
import XgiModel.Lemmas.HGAdd
import XgiModel.Lemmas.HGFreeze
import Mathlib.Tactic.Tauto

namespace Xgi
namespace HG

/-! ### equal member sets -/

theorem sameSet_iff (a b : List PyId) : sameSet a b = true ↔ ∀ x, x ∈ a ↔ x ∈ b := by
  unfold sameSet
  simp only [Bool.and_eq_true, List.all_eq_true, decide_eq_true_eq]
  constructor
  · rintro ⟨h1, h2⟩ x; exact ⟨h1 x, h2 x⟩
  · intro h; exact ⟨fun x hx => (h x).mp hx, fun x hx => (h x).mpr hx⟩

/-- two edges are duplicates of each other -/
def Dup (s : HG) (e f : PyId) : Prop := sameSet (s.mem e) (s.mem f) = true

theorem Dup.refl (s : HG) (e : PyId) : Dup s e e := (sameSet_iff _ _).mpr (fun _ => Iff.rfl)
theorem Dup.symm {s : HG} {e f : PyId} (h : Dup s e f) : Dup s f e :=
  (sameSet_iff _ _).mpr (fun x => ((sameSet_iff _ _).mp h x).symm)
theorem Dup.trans {s : HG} {e f g : PyId} (h1 : Dup s e f) (h2 : Dup s f g) : Dup s e g :=
  (sameSet_iff _ _).mpr (fun x => ((sameSet_iff _ _).mp h1 x).trans ((sameSet_iff _ _).mp h2 x))

/-! ### the duplicate classes -/

/-- "the class `g` has the member set of `e`" (the `hashes` lookup) -/
def classOf (s : HG) (e : PyId) (g : List PyId) : Bool :=
  match g with | r :: _ => sameSet (s.mem r) (s.mem e) | [] => false

def groupStep (s : HG) (gs : List (List PyId)) (e : PyId) : List (List PyId) :=
  if gs.any (classOf s e) then gs.map (fun g => if classOf s e g then g ++ [e] else g) else gs ++ [[e]]

theorem groupDups_eq (s : HG) : groupDups s = s.edges.foldl (groupStep s) [] := by
  unfold groupDups
  congr 1
  funext gs e
  have hany : gs.any (classOf s e) = gs.any (fun g => match g with
      | r :: _ => sameSet (s.mem r) (s.mem e) | [] => false) := by
    congr 1
  have hmap : gs.map (fun g => if classOf s e g then g ++ [e] else g) = gs.map (fun (g : List PyId) => match g with
      | r :: _ => if sameSet (s.mem r) (s.mem e) = true then g ++ [e] else g
      | [] => g) := by
    apply List.map_congr_left
    intro g _
    cases g with
    | nil => rfl
    | cons r t => rfl
  unfold groupStep
  rw [hany, hmap]
  split <;> split <;> first | rfl | contradiction | simp_all

/-- what holds of the classes after the edges `p` have been distributed -/
structure Grouped (s : HG) (gs : List (List PyId)) (p : List PyId) : Prop where
  nonempty : ∀ g ∈ gs, g ≠ []
  dup : ∀ g ∈ gs, ∀ x ∈ g, ∀ y ∈ g, Dup s x y
  cover : ∀ x, (∃ g ∈ gs, x ∈ g) ↔ x ∈ p
  nodup : ∀ g ∈ gs, g.Nodup

theorem classOf_dup {s : HG} {gs : List (List PyId)} {p : List PyId} (h : Grouped s gs p) {g : List PyId}
    (hg : g ∈ gs) {e : PyId} (hc : classOf s e g = true) : ∀ x ∈ g, Dup s x e := by
  cases g with
  | nil => simp [classOf] at hc
  | cons r t =>
    intro x hx
    have h1 : Dup s x r := h.dup _ hg x hx r (by simp)
    exact h1.trans hc

theorem groupStep_grouped {s : HG} {gs : List (List PyId)} {p : List PyId} (h : Grouped s gs p) (e : PyId)
    (he : e ∉ p) : Grouped s (groupStep s gs e) (p ++ [e]) := by
  have he' : ∀ g ∈ gs, e ∉ g := fun g hg hx => he ((h.cover e).mp ⟨g, hg, hx⟩)
  unfold groupStep
  split
  · rename_i hany
    constructor
    · intro g' hg'
      obtain ⟨g, hg, rfl⟩ := List.mem_map.mp hg'
      have := h.nonempty g hg
      split
      · simp
      · exact this
    · intro g' hg' x hx y hy
      obtain ⟨g, hg, rfl⟩ := List.mem_map.mp hg'
      split at hx
      · rename_i hc
        rw [if_pos hc] at hy
        have hd := classOf_dup h hg hc
        simp only [List.mem_append, List.mem_singleton] at hx hy
        rcases hx with hx | rfl <;> rcases hy with hy | rfl
        · exact h.dup g hg x hx y hy
        · exact hd x hx
        · exact (hd y hy).symm
        · exact Dup.refl s _
      · rename_i hc
        rw [if_neg hc] at hy
        exact h.dup g hg x hx y hy
    · intro x
      simp only [List.mem_append, List.mem_singleton]
      constructor
      · rintro ⟨g', hg', hx⟩
        obtain ⟨g, hg, rfl⟩ := List.mem_map.mp hg'
        split at hx
        · simp only [List.mem_append, List.mem_singleton] at hx
          rcases hx with hx | rfl
          · exact Or.inl ((h.cover x).mp ⟨g, hg, hx⟩)
          · exact Or.inr rfl
        · exact Or.inl ((h.cover x).mp ⟨g, hg, hx⟩)
      · rintro (hx | rfl)
        · obtain ⟨g, hg, hxg⟩ := (h.cover x).mpr hx
          refine ⟨_, List.mem_map.mpr ⟨g, hg, rfl⟩, ?_⟩
          split
          · simp [hxg]
          · exact hxg
        · obtain ⟨g, hg, hc⟩ := List.any_eq_true.mp hany
          exact ⟨_, List.mem_map.mpr ⟨g, hg, rfl⟩, by simp [hc]⟩
    · intro g' hg'
      obtain ⟨g, hg, rfl⟩ := List.mem_map.mp hg'
      split
      · exact nodup_append_singleton (h.nodup g hg) (he' g hg)
      · exact h.nodup g hg
  · constructor
    · intro g hg
      rcases List.mem_append.mp hg with hg | hg
      · exact h.nonempty g hg
      · simp at hg; subst hg; simp
    · intro g hg x hx y hy
      rcases List.mem_append.mp hg with hg | hg
      · exact h.dup g hg x hx y hy
      · simp only [List.mem_singleton] at hg; subst hg
        simp only [List.mem_singleton] at hx hy; subst hx; subst hy; exact Dup.refl s _
    · intro x
      simp only [List.mem_append, List.mem_singleton]
      constructor
      · rintro ⟨g, hg, hx⟩
        rcases hg with hg | hg
        · exact Or.inl ((h.cover x).mp ⟨g, hg, hx⟩)
        · subst hg; simp only [List.mem_singleton] at hx; exact Or.inr hx
      · rintro (hx | rfl)
        · obtain ⟨g, hg, hxg⟩ := (h.cover x).mpr hx
          exact ⟨g, Or.inl hg, hxg⟩
        · exact ⟨[x], Or.inr (by simp), by simp⟩
    · intro g hg
      rcases List.mem_append.mp hg with hg | hg
      · exact h.nodup g hg
      · simp at hg; subst hg; simp

theorem foldl_grouped {s : HG} (l : List PyId) (gs : List (List PyId)) (p : List PyId) (h : Grouped s gs p)
    (hn : (p ++ l).Nodup) : Grouped s (l.foldl (groupStep s) gs) (p ++ l) := by
  induction l generalizing gs p with
  | nil => simpa using h
  | cons e l ih =>
    simp only [List.foldl_cons]
    have he : e ∉ p := by
      rw [List.nodup_append] at hn
      intro hp; exact hn.2.2 e hp e (by simp) rfl
    have := ih (groupStep s gs e) (p ++ [e]) (groupStep_grouped h e he) (by simpa using hn)
    simpa using this

/-- the classes `merge_duplicate_edges` works on: every edge is in one, a class holds pairwise duplicate edges,
    and no edge is listed twice in a class -/
theorem groupDups_grouped {s : HG} (h : s.edges.Nodup) : Grouped s (groupDups s) s.edges := by
  rw [groupDups_eq]
  have := foldl_grouped (s := s) s.edges [] [] ⟨by simp, by simp, by simp, by simp⟩ (by simpa using h)
  simpa using this

/-- different classes hold no two duplicate edges -/
def Separated (s : HG) (gs : List (List PyId)) : Prop :=
  gs.Pairwise (fun g g' => ∀ x ∈ g, ∀ y ∈ g', ¬ Dup s x y)

theorem classOf_false_not_dup {s : HG} {gs : List (List PyId)} {p : List PyId} (h : Grouped s gs p) {g : List PyId}
    (hg : g ∈ gs) {e : PyId} (hc : classOf s e g = false) : ∀ x ∈ g, ¬ Dup s x e := by
  cases g with
  | nil => intro x hx; cases hx
  | cons r t =>
    intro x hx hd
    have h1 : Dup s r x := h.dup _ hg r (by simp) x hx
    have : Dup s r e := h1.trans hd
    simp only [classOf] at hc
    unfold Dup at this
    rw [hc] at this; cases this

theorem groupStep_separated {s : HG} {gs : List (List PyId)} {p : List PyId} (h : Grouped s gs p)
    (hs : Separated s gs) (e : PyId) : Separated s (groupStep s gs e) := by
  unfold groupStep Separated at *
  split
  · rw [List.pairwise_map]
    refine hs.imp_of_mem ?_
    intro g1 g2 hg1 hg2 hsep x hx y hy hd
    have n1 := h.nonempty g1 hg1
    have n2 := h.nonempty g2 hg2
    by_cases c1 : classOf s e g1 = true <;> by_cases c2 : classOf s e g2 = true
    · -- both classes claim e: their heads are duplicates of each other
      obtain ⟨a, ha⟩ := List.exists_mem_of_ne_nil g1 n1
      obtain ⟨b, hb⟩ := List.exists_mem_of_ne_nil g2 n2
      exact hsep a ha b hb ((classOf_dup h hg1 c1 a ha).trans (classOf_dup h hg2 c2 b hb).symm)
    · rw [if_pos c1] at hx; rw [if_neg c2] at hy
      simp only [List.mem_append, List.mem_singleton] at hx
      rcases hx with hx | rfl
      · exact hsep x hx y hy hd
      · obtain ⟨a, ha⟩ := List.exists_mem_of_ne_nil g1 n1
        exact hsep a ha y hy ((classOf_dup h hg1 c1 a ha).trans hd)
    · rw [if_neg c1] at hx; rw [if_pos c2] at hy
      simp only [List.mem_append, List.mem_singleton] at hy
      rcases hy with hy | rfl
      · exact hsep x hx y hy hd
      · obtain ⟨b, hb⟩ := List.exists_mem_of_ne_nil g2 n2
        exact hsep x hx b hb (hd.trans (classOf_dup h hg2 c2 b hb).symm)
    · rw [if_neg c1] at hx; rw [if_neg c2] at hy
      exact hsep x hx y hy hd
  · rename_i hany
    rw [List.pairwise_append]
    refine ⟨hs, by simp, ?_⟩
    intro g hg g' hg' x hx y hy
    simp only [List.mem_singleton] at hg'; subst hg'
    simp only [List.mem_singleton] at hy; subst hy
    have : classOf s y g = false := by
      have := hany
      simp only [Bool.not_eq_true, List.any_eq_false] at this
      cases hc : classOf s y g
      · rfl
      · exact absurd hc (by simpa using this g hg)
    exact classOf_false_not_dup h hg this x hx

theorem foldl_separated {s : HG} (l : List PyId) (gs : List (List PyId)) (p : List PyId) (h : Grouped s gs p)
    (hs : Separated s gs) (hn : (p ++ l).Nodup) : Separated s (l.foldl (groupStep s) gs) := by
  induction l generalizing gs p with
  | nil => exact hs
  | cons e l ih =>
    simp only [List.foldl_cons]
    have he : e ∉ p := by
      rw [List.nodup_append] at hn
      intro hp; exact hn.2.2 e hp e (by simp) rfl
    exact ih (groupStep s gs e) (p ++ [e]) (groupStep_grouped h e he) (groupStep_separated h hs e) (by simpa using hn)

theorem groupDups_separated {s : HG} (h : s.edges.Nodup) : Separated s (groupDups s) := by
  rw [groupDups_eq]
  exact foldl_separated (s := s) s.edges [] [] ⟨by simp, by simp, by simp, by simp⟩ List.Pairwise.nil (by simpa using h)

/-- an edge in a class of more than one edge has a duplicate different from itself -/
theorem has_twin {s : HG} (h : s.edges.Nodup) {g : List PyId} (hg : g ∈ groupDups s) (hl : 1 < g.length)
    {e : PyId} (he : e ∈ g) : ∃ f ∈ s.edges, f ≠ e ∧ Dup s e f := by
  have G := groupDups_grouped h
  have hnd := G.nodup g hg
  have : ∃ f ∈ g, f ≠ e := by
    match g, hl, hnd, he with
    | a :: b :: t, _, hnd, he =>
      by_cases hab : a = e
      · refine ⟨b, by simp, ?_⟩
        rintro rfl
        simp only [List.nodup_cons, List.mem_cons] at hnd
        exact hnd.1 (Or.inl hab)
      · exact ⟨a, by simp, hab⟩
  obtain ⟨f, hf, hne⟩ := this
  exact ⟨f, (G.cover f).mp ⟨g, hg, hf⟩, hne, G.dup g hg e he f hf⟩

/-! ### what the loop collects -/

theorem mergeLoop_dups (rename : Rename) (rule : MergeRule) (mult : Option String) (gs : List (List PyId))
    (s : HG) (dups : List PyId) (news : List EdgeItem) (s' : HG) (d' : List PyId) (n' : List EdgeItem)
    (h : mergeLoop rename rule mult s gs dups news = (s', .ok (d', n'))) :
    ∀ x ∈ d', x ∈ dups ∨ ∃ g ∈ gs, 1 < g.length ∧ x ∈ g := by
  induction gs generalizing s dups news with
  | nil => simp only [mergeLoop, Prod.mk.injEq, Except.ok.injEq] at h; intro x hx; rw [← h.2.1] at hx; exact Or.inl hx
  | cons g gs ih =>
    simp only [mergeLoop] at h
    split at h
    · intro x hx
      rcases ih s dups news h x hx with h1 | ⟨g', hg', h2⟩
      · exact Or.inl h1
      · exact Or.inr ⟨g', by simp [hg'], h2⟩
    · rename_i hlen
      split at h
      · cases h
      · rename_i s2 it heq
        intro x hx
        rcases ih s2 (dups ++ g) (news ++ [it]) h x hx with h1 | ⟨g', hg', h2⟩
        · rcases List.mem_append.mp h1 with h1 | h1
          · exact Or.inl h1
          · exact Or.inr ⟨g, by simp, by omega, h1⟩
        · exact Or.inr ⟨g', by simp [hg'], h2⟩

/-- the loop only advances the counter -/
theorem mergeGroup_uid_only (rename : Rename) (rule : MergeRule) (mult : Option String) (s : HG) (g : List PyId) :
    ∃ k, (mergeGroup rename rule mult s g).1 = { s with uid := k } := by
  cases g with
  | nil => exact ⟨s.uid, rfl⟩
  | cons r t =>
    simp only [mergeGroup]
    have hid : ∃ k, (mergeNewId rename s (r :: t)).1 = { s with uid := k } := by
      unfold mergeNewId
      cases rename
      · simp only []; split <;> exact ⟨s.uid, rfl⟩
      · simp only []; split
        · split <;> exact ⟨s.uid, rfl⟩
        · exact ⟨s.uid, rfl⟩
      · exact ⟨s.uid + 1, rfl⟩
      · exact ⟨s.uid, rfl⟩
    obtain ⟨k, hk⟩ := hid
    split
    · rename_i s' e heq; refine ⟨k, ?_⟩; rw [← hk, heq]
    · rename_i s' nid heq
      split
      · refine ⟨k, ?_⟩; rw [← hk, heq]
      · refine ⟨k, ?_⟩; rw [← hk, heq]

theorem mergeLoop_uid_only (rename : Rename) (rule : MergeRule) (mult : Option String) (gs : List (List PyId))
    (s : HG) (dups : List PyId) (news : List EdgeItem) :
    ∃ k, (mergeLoop rename rule mult s gs dups news).1 = { s with uid := k } := by
  induction gs generalizing s dups news with
  | nil => exact ⟨s.uid, rfl⟩
  | cons g gs ih =>
    simp only [mergeLoop]
    split
    · exact ih s dups news
    · obtain ⟨k, hk⟩ := mergeGroup_uid_only rename rule mult s g
      split
      · rename_i s' e heq; rw [heq] at hk; exact ⟨k, hk⟩
      · rename_i s' it heq
        rw [heq] at hk
        simp only at hk
        obtain ⟨k2, hk2⟩ := ih s' (dups ++ g) (news ++ [it])
        exact ⟨k2, by rw [hk2, hk]⟩

/-- every edge the loop wants to add carries the member set of the first edge of a class -/
theorem mergeLoop_news (rename : Rename) (rule : MergeRule) (mult : Option String) (gs : List (List PyId))
    (s : HG) (dups : List PyId) (news : List EdgeItem) (s' : HG) (d' : List PyId) (n' : List EdgeItem)
    (h : mergeLoop rename rule mult s gs dups news = (s', .ok (d', n'))) :
    ∀ it ∈ n', it ∈ news ∨ ∃ g ∈ gs, ∃ r t, g = r :: t ∧ it.members = s.mem r := by
  induction gs generalizing s dups news with
  | nil => simp only [mergeLoop, Prod.mk.injEq, Except.ok.injEq] at h; intro x hx; rw [← h.2.2] at hx; exact Or.inl hx
  | cons g gs ih =>
    simp only [mergeLoop] at h
    split at h
    · intro x hx
      rcases ih s dups news h x hx with h1 | ⟨g', hg', h2⟩
      · exact Or.inl h1
      · exact Or.inr ⟨g', by simp [hg'], h2⟩
    · split at h
      · cases h
      · rename_i s2 it heq
        obtain ⟨k, hk⟩ := mergeGroup_uid_only rename rule mult s g
        rw [heq] at hk
        simp only at hk
        have hmem : s2.mem = s.mem := by rw [hk]
        have hit : ∃ r t, g = r :: t ∧ it.members = s.mem r := by
          cases g with
          | nil => simp [mergeGroup] at heq
          | cons r t =>
            refine ⟨r, t, rfl, ?_⟩
            simp only [mergeGroup] at heq
            split at heq
            · cases heq
            · split at heq
              · cases heq
              · simp only [Prod.mk.injEq, Except.ok.injEq] at heq; rw [← heq.2]
        intro x hx
        rcases ih s2 (dups ++ g) (news ++ [it]) h x hx with h1 | ⟨g', hg', r, t, h2, h3⟩
        · rcases List.mem_append.mp h1 with h1 | h1
          · exact Or.inl h1
          · simp only [List.mem_singleton] at h1; subst h1
            exact Or.inr ⟨g, by simp, hit⟩
        · exact Or.inr ⟨g', by simp [hg'], r, t, h2, by rw [h3, hmem]⟩

/-! ### removal of the collected edges, re-addition of the merged ones -/

theorem removeEdge_fields (s : HG) (e : PyId) :
    (removeEdge s e).1.nodes = s.nodes ∧ (removeEdge s e).1.mem = s.mem ∧ (removeEdge s e).1.eattr = s.eattr ∧
    (∀ x, x ∈ (removeEdge s e).1.edges → x ∈ s.edges) ∧ (∀ x ∈ s.edges, x ≠ e → x ∈ (removeEdge s e).1.edges) := by
  unfold removeEdge; split
  · exact ⟨rfl, rfl, rfl, fun _ h => h, fun _ h _ => h⟩
  · refine ⟨rfl, rfl, rfl, ?_, ?_⟩
    · intro x hx; simp only [dropEdge, mem_rm] at hx; exact hx.2
    · intro x hx hne; simp only [dropEdge, mem_rm]; exact ⟨hne, hx⟩

theorem removeEdgesFrom_fields (l : List PyId) (s : HG) :
    (removeEdgesFrom s l).1.nodes = s.nodes ∧ (removeEdgesFrom s l).1.mem = s.mem ∧
    (removeEdgesFrom s l).1.eattr = s.eattr ∧ (∀ x, x ∈ (removeEdgesFrom s l).1.edges → x ∈ s.edges) ∧
    (∀ x ∈ s.edges, x ∉ l → x ∈ (removeEdgesFrom s l).1.edges) := by
  unfold removeEdgesFrom
  induction l generalizing s with
  | nil => exact ⟨rfl, rfl, rfl, fun _ h => h, fun _ h _ => h⟩
  | cons e l ih =>
    obtain ⟨a1, a2, a3, a4, a5⟩ := removeEdge_fields s e
    simp only [bulk]
    split
    · rename_i s' k heq; rw [heq] at a1 a2 a3 a4 a5
      exact ⟨a1, a2, a3, a4, fun x hx hl => a5 x hx (by intro h; apply hl; simp [h])⟩
    · rename_i s' o _ heq; rw [heq] at a1 a2 a3 a4 a5
      obtain ⟨b1, b2, b3, b4, b5⟩ := ih s'
      refine ⟨b1.trans a1, b2.trans a2, b3.trans a3, fun x hx => a4 x (b4 x hx), ?_⟩
      intro x hx hl
      exact b5 x (a5 x hx (by intro h; apply hl; simp [h])) (by intro h; apply hl; simp [h])

theorem foldl_link_nodes (ms : List PyId) (s : HG) (e : PyId) (h : ∀ n ∈ ms, n ∈ s.nodes) :
    (ms.foldl (fun s n => link s e n) s).nodes = s.nodes := by
  induction ms generalizing s with
  | nil => rfl
  | cons m ms ih =>
    simp only [List.foldl_cons]
    have hm : m ∈ s.nodes := h m (by simp)
    have hl : (link s e m).nodes = s.nodes := by simp [link, linkCore, addNodeRaw, hm]
    rw [ih (link s e m) (by intro n hn; rw [hl]; exact h n (by simp [hn])), hl]

theorem addEdgesItem_nodes (fmt : Fmt) (attr : Attrs) (s : HG) (it : EdgeItem) (h : ∀ n ∈ it.members, n ∈ s.nodes) :
    (addEdgesItem fmt attr s it).1.nodes = s.nodes := by
  have key : ∀ (u : HG) (idx : PyId) (a : Attrs), u.nodes = s.nodes →
      (addEdgeAt u idx (dedup it.members) a).nodes = s.nodes := by
    intro u idx a hu
    unfold addEdgeAt
    rw [foldl_link_nodes]
    · simpa [updEdgeAttr, newEdgeAttr, newEdgeRaw] using hu
    · intro n hn
      simp only [updEdgeAttr, newEdgeAttr, newEdgeRaw, hu]
      exact h n (mem_dedup.mp hn)
  have hb : ∀ (u : HG) (i : PyId), (bumpUid u i).nodes = u.nodes := by
    intro u i; unfold bumpUid; split
    · split <;> rfl
    · rfl
  unfold addEdgesItem
  cases hx : fmt.explicit
  · simp only [Bool.false_eq_true, if_false]
    split
    · rfl
    · split
      · rfl
      · exact key _ _ _ rfl
  · simp only [if_true]
    split
    · rfl
    · split
      · rfl
      · simp only [hb]; exact key s _ _ rfl

theorem addEdgesFrom_f4_eq (u : HG) (items : List EdgeItem) (attr : Attrs) :
    addEdgesFrom u .f4 items attr = bulk (addEdgesItem .f4 attr) u items := by
  unfold addEdgesFrom; split <;> first | rfl | (exfalso; simp_all)

theorem bulk_addEdgesItem_nodes (fmt : Fmt) (attr : Attrs) (items : List EdgeItem) (s : HG) (N : List PyId)
    (hs : s.nodes = N) (h : ∀ it ∈ items, ∀ n ∈ it.members, n ∈ N) :
    (bulk (addEdgesItem fmt attr) s items).1.nodes = N := by
  induction items generalizing s with
  | nil => simpa [bulk] using hs
  | cons it items ih =>
    have h1 := addEdgesItem_nodes fmt attr s it (by intro n hn; rw [hs]; exact h it (by simp) n hn)
    simp only [bulk]
    split
    · rename_i s' k heq; rw [heq] at h1; exact h1.trans hs
    · rename_i s' o _ heq; rw [heq] at h1
      exact ih s' (h1.trans hs) (fun it' hit' => h it' (by simp [hit']))

theorem addEdgesFrom_f4_nodes (attr : Attrs) (items : List EdgeItem) (s : HG) (N : List PyId) (hs : s.nodes = N)
    (h : ∀ it ∈ items, ∀ n ∈ it.members, n ∈ N) : (addEdgesFrom s .f4 items attr).1.nodes = N := by
  rw [addEdgesFrom_f4_eq]; exact bulk_addEdgesItem_nodes .f4 attr items s N hs h

/-! ### member sets of the edges a bulk addition creates -/

theorem foldl_link_mem_self (ms : List PyId) (s : HG) (e : PyId) :
    ∀ x, x ∈ (ms.foldl (fun s n => link s e n) s).mem e ↔ x ∈ s.mem e ∨ x ∈ ms := by
  induction ms generalizing s with
  | nil => intro x; simp
  | cons m ms ih =>
    intro x
    simp only [List.foldl_cons]
    rw [ih (link s e m) x]
    have : ∀ y, y ∈ (link s e m).mem e ↔ y = m ∨ y ∈ s.mem e := by
      intro y
      unfold link linkCore addNodeRaw
      split <;> simp [upd_apply, mem_ins]
    rw [this x]; simp only [List.mem_cons]; tauto

theorem addEdgeAt_mem_new (s : HG) (e : PyId) (ms : List PyId) (a : Attrs) :
    ∀ x, x ∈ (addEdgeAt s e ms a).mem e ↔ x ∈ ms := by
  intro x
  unfold addEdgeAt
  rw [foldl_link_mem_self]
  simp [updEdgeAttr, newEdgeAttr, newEdgeRaw]

/-- after one item of a bulk addition: the edge list grew by at most the item's ID, whose members are the item's -/
theorem addEdgesItem_new_members (fmt : Fmt) (attr : Attrs) (s : HG) (it : EdgeItem) :
    ∀ e ∈ (addEdgesItem fmt attr s it).1.edges, e ∈ s.edges ∨
      ∀ x, x ∈ (addEdgesItem fmt attr s it).1.mem e ↔ x ∈ it.members := by
  have hb : ∀ (u : HG) (i : PyId), (bumpUid u i).mem = u.mem := by
    intro u i; unfold bumpUid; split
    · split <;> rfl
    · rfl
  intro e he
  unfold addEdgesItem at he ⊢
  cases hx : fmt.explicit
  · simp only [hx, Bool.false_eq_true, if_false] at he ⊢
    split
    · rename_i h1; rw [if_pos h1] at he; exact Or.inl he
    · rename_i h1; rw [if_neg h1] at he
      split
      · rename_i h2; rw [if_pos h2] at he; exact Or.inl he
      · rename_i h2; rw [if_neg h2] at he
        simp only [(addEdgeAt_edges _ _ _ _).1, List.mem_append, List.mem_singleton] at he
        rcases he with he | rfl
        · exact Or.inl he
        · right; intro x; rw [addEdgeAt_mem_new]; exact mem_dedup
  · simp only [hx, if_true] at he ⊢
    split
    · rename_i h1; rw [if_pos h1] at he; exact Or.inl he
    · rename_i h1; rw [if_neg h1] at he
      split
      · rename_i h2; rw [if_pos h2] at he; exact Or.inl he
      · rename_i h2; rw [if_neg h2] at he
        simp only [bumpUid_edges, (addEdgeAt_edges _ _ _ _).1, List.mem_append, List.mem_singleton] at he
        rcases he with he | rfl
        · exact Or.inl he
        · right; intro x; rw [hb, addEdgeAt_mem_new]; exact mem_dedup

/-- every edge after a bulk addition is an old edge with its old members, or has the member set of one of the items -/
theorem bulk_add_members (fmt : Fmt) (attr : Attrs) (items : List EdgeItem) {s : HG} (h : Inv s) :
    ∀ e ∈ (bulk (addEdgesItem fmt attr) s items).1.edges,
      (e ∈ s.edges ∧ (bulk (addEdgesItem fmt attr) s items).1.mem e = s.mem e) ∨
      ∃ it ∈ items, ∀ x, x ∈ (bulk (addEdgesItem fmt attr) s items).1.mem e ↔ x ∈ it.members := by
  induction items generalizing s with
  | nil => intro e he; exact Or.inl ⟨by simpa [bulk] using he, rfl⟩
  | cons it items ih =>
    have hi := addEdgesItem_inv fmt attr s it h
    have hk := addEdgesItem_keeps fmt attr s it h
    have hm := addEdgesItem_new_members fmt attr s it
    intro e he
    simp only [bulk] at he ⊢
    split at he
    · rename_i s' k heq
      rw [heq] at hk hm
      simp only at he hk hm ⊢
      rcases hm e he with h1 | h1
      · exact Or.inl ⟨h1, (hk.2 e h1).1⟩
      · exact Or.inr ⟨it, by simp, h1⟩
    · rename_i s' o hne heq
      rw [heq] at hk hm hi
      simp only at he hk hm hi ⊢
      rcases ih hi e he with ⟨h1, h2⟩ | ⟨it', hit', h2⟩
      · rcases hm e h1 with h3 | h3
        · exact Or.inl ⟨h3, h2.trans (hk.2 e h3).1⟩
        · exact Or.inr ⟨it, by simp, fun x => by rw [h2]; exact h3 x⟩
      · exact Or.inr ⟨it', by simp [hit'], h2⟩

/-! ### the whole call, as an induction principle -/

/-- `merge_duplicate_edges` = advance the counter; remove edges that each have a duplicate; add edges whose member
    set is the member set of an existing edge.  Whatever holds after each such phase holds of the result (also when
    the call raises half-way). -/
theorem merge_induct {s : HG} (h : Inv s) (P : HG → Prop) (rename : Rename) (rule : MergeRule) (mult : Option String)
    (r : HG × Outcome) (hr : mergeDuplicateEdges s rename rule mult = some r)
    (h0 : ∀ k, P { s with uid := k })
    (h1 : ∀ t dups, Inv t → P t → (∀ x ∈ dups, ∃ f ∈ s.edges, f ≠ x ∧ Dup s x f) → P (removeEdgesFrom t dups).1)
    (h2 : ∀ t news, Inv t → P t → (∀ it ∈ news, ∃ e ∈ s.edges, EdgeItem.members it = s.mem e) →
      P (addEdgesFrom t .f4 news []).1) : P r.1 := by
  unfold mergeDuplicateEdges at hr
  have hl := mergeLoop_inv rename rule mult (groupDups s) h [] []
  obtain ⟨k, hk⟩ := mergeLoop_uid_only rename rule mult (groupDups s) s [] []
  have G := groupDups_grouped h.1.nodupE
  split at hr
  · cases hr
  · rename_i heq; rw [heq] at hk; cases hr; simp only at hk ⊢; rw [hk]; exact h0 k
  · rename_i heq; rw [heq] at hk; cases hr; simp only at hk ⊢; rw [hk]; exact h0 k
  · rename_i s' dups news heq
    rw [heq] at hl hk
    simp only [] at hr hl hk
    have hP : P s' := by rw [hk]; exact h0 k
    have hd : ∀ x ∈ dups, ∃ f ∈ s.edges, f ≠ x ∧ Dup s x f := by
      intro x hx
      rcases mergeLoop_dups rename rule mult (groupDups s) s [] [] s' dups news heq x hx with h' | ⟨g, hg, hlen, hxg⟩
      · cases h'
      · exact has_twin h.1.nodupE hg hlen hxg
    have hn : ∀ it ∈ news, ∃ e ∈ s.edges, EdgeItem.members it = s.mem e := by
      intro it hit
      rcases mergeLoop_news rename rule mult (groupDups s) s [] [] s' dups news heq it hit with h' | ⟨g, hg, r0, t, hgt, hm⟩
      · cases h'
      · exact ⟨r0, (G.cover r0).mp ⟨g, hg, by rw [hgt]; simp⟩, hm⟩
    have i1 : Inv (guardF s' (removeEdgesFrom s' dups)).1 := guardF_inv Inv _ _ hl (removeEdgesFrom_inv hl _)
    have p1 : P (guardF s' (removeEdgesFrom s' dups)).1 := by
      unfold guardF; split
      · exact hP
      · exact h1 s' dups hl hP hd
    split at hr
    · cases hr; exact p1
    · have p2 : P (guardF (guardF s' (removeEdgesFrom s' dups)).1
          (addEdgesFrom (guardF s' (removeEdgesFrom s' dups)).1 .f4 news [])).1 := by
        generalize (guardF s' (removeEdgesFrom s' dups)).1 = t at i1 p1 ⊢
        unfold guardF; split
        · exact p1
        · exact h2 t news i1 p1 hn
      split at hr
      · cases hr; exact p2
      · cases hr; exact p2

/-! ### `rename="new"`: no duplicates are left -/

/-- removing a duplicate-free list of existing edges never raises and removes exactly those -/
theorem removeEdgesFrom_complete (l : List PyId) (s : HG) (hl : l.Nodup) (hin : ∀ x ∈ l, x ∈ s.edges) :
    (removeEdgesFrom s l).2 = .ok ∧ ∀ x, x ∈ (removeEdgesFrom s l).1.edges ↔ x ∈ s.edges ∧ x ∉ l := by
  unfold removeEdgesFrom
  induction l generalizing s with
  | nil => exact ⟨rfl, by intro x; simp [bulk]⟩
  | cons e l ih =>
    have he : e ∈ s.edges := hin e (by simp)
    have hstep : removeEdge s e = (dropEdge s e, .ok) := by simp [removeEdge, he]
    have hedges : ∀ x, x ∈ (dropEdge s e).edges ↔ x ∈ s.edges ∧ x ≠ e := by
      intro x; simp only [dropEdge, mem_rm]; tauto
    have hel : e ∉ l := (List.nodup_cons.mp hl).1
    obtain ⟨o, hx⟩ := ih (dropEdge s e) (List.nodup_cons.mp hl).2
      (by intro x hx; rw [hedges]; exact ⟨hin x (by simp [hx]), by rintro rfl; exact hel hx⟩)
    simp only [bulk, hstep]
    refine ⟨by rw [o]; rfl, ?_⟩
    intro x; rw [hx x, hedges x]; simp only [List.mem_cons]; tauto



def NoDupEdges (u : HG) : Prop := ∀ e ∈ u.edges, ∀ f ∈ u.edges, e ≠ f → ¬ sameSet (u.mem e) (u.mem f) = true

theorem addEdgesItem_f4_fresh (attr : Attrs) (u : HG) (it : EdgeItem) (i : PyId) (hi : it.idx = some i)
    (hf : i ∉ u.edges) (h0 : i ≠ .none) (hm : PyId.none ∉ it.members) :
    addEdgesItem .f4 attr u it = (bumpUid (addEdgeAt u i (dedup it.members) (attr.update it.attr)) i, .ok) := by
  unfold addEdgesItem
  simp [Fmt.explicit, hi, hf, h0, hm]

theorem bulk_add_fresh_nodup (attr : Attrs) (items : List EdgeItem) {u : HG} (hu : Inv u) (hND : NoDupEdges u)
    (hfresh : ∀ it ∈ items, ∃ i, it.idx = some i ∧ i ∉ u.edges ∧ i ≠ .none ∧ PyId.none ∉ it.members)
    (hidx : items.Pairwise (fun a b => a.idx ≠ b.idx))
    (hmem : items.Pairwise (fun a b => ¬ sameSet a.members b.members = true))
    (hold : ∀ it ∈ items, ∀ e ∈ u.edges, ¬ sameSet (u.mem e) it.members = true) :
    (bulk (addEdgesItem .f4 attr) u items).2 = .ok ∧ NoDupEdges (bulk (addEdgesItem .f4 attr) u items).1 := by
  induction items generalizing u with
  | nil => exact ⟨rfl, hND⟩
  | cons it items ih =>
    obtain ⟨i, hi, hf, h0, hm⟩ := hfresh it (by simp)
    have hstep := addEdgesItem_f4_fresh attr u it i hi hf h0 hm
    have hinv := addEdgesItem_inv .f4 attr u it hu
    have hk := addEdgesItem_keeps .f4 attr u it hu
    have hnm := addEdgesItem_new_members .f4 attr u it
    rw [hstep] at hinv hk hnm
    simp only at hinv hk hnm
    generalize hu' : bumpUid (addEdgeAt u i (dedup it.members) (attr.update it.attr)) i = u' at *
    have hedges : u'.edges = u.edges ++ [i] := by
      rw [← hu', bumpUid_edges, (addEdgeAt_edges _ _ _ _).1]
    have hnew : ∀ x, x ∈ u'.mem i ↔ x ∈ it.members := by
      rcases hnm i (by rw [hedges]; simp) with h | h
      · exact absurd h hf
      · exact h
    have hND' : NoDupEdges u' := by
      intro e he f hf' hne hs
      rw [hedges] at he hf'
      simp only [List.mem_append, List.mem_singleton] at he hf'
      rcases he with he | rfl <;> rcases hf' with hf' | rfl
      · rw [(hk.2 e he).1, (hk.2 f hf').1] at hs; exact hND e he f hf' hne hs
      · rw [(hk.2 e he).1] at hs
        refine hold it (by simp) e he ((sameSet_iff _ _).mpr ?_)
        intro x; rw [(sameSet_iff _ _).mp hs x]; exact hnew x
      · rw [(hk.2 f hf').1] at hs
        refine hold it (by simp) f hf' ((sameSet_iff _ _).mpr ?_)
        intro x; rw [← (sameSet_iff _ _).mp hs x]; exact hnew x
      · exact hne rfl
    have := ih (u := u') hinv hND'
      (by intro it' hit'
          obtain ⟨j, hj, hjf, hj0, hjm⟩ := hfresh it' (by simp [hit'])
          refine ⟨j, hj, ?_, hj0, hjm⟩
          rw [hedges]; simp only [List.mem_append, List.mem_singleton, not_or]
          refine ⟨hjf, ?_⟩
          rintro rfl
          exact (List.rel_of_pairwise_cons hidx hit') (by rw [hi, hj]))
      (List.Pairwise.of_cons hidx) (List.Pairwise.of_cons hmem)
      (by intro it' hit' e he
          rw [hedges] at he
          simp only [List.mem_append, List.mem_singleton] at he
          rcases he with he | rfl
          · rw [(hk.2 e he).1]; exact hold it' (by simp [hit']) e he
          · intro hs
            refine (List.rel_of_pairwise_cons hmem hit') ((sameSet_iff _ _).mpr ?_)
            intro x; rw [← hnew x]; exact (sameSet_iff _ _).mp hs x)
    simp only [bulk, hstep]
    exact ⟨by rw [this.1]; rfl, this.2⟩



structure LoopInv (s0 s : HG) (gs : List (List PyId)) (dups : List PyId) (news : List EdgeItem) : Prop where
  state : ∃ k, s = { s0 with uid := k } ∧ s0.uid ≤ k
  idx : ∀ it ∈ news, ∃ k : Nat, EdgeItem.idx it = some (PyId.int k) ∧ s0.uid ≤ k ∧ k < s.uid
  idxP : news.Pairwise (fun a b => EdgeItem.idx a ≠ EdgeItem.idx b)
  memP : news.Pairwise (fun a b => ¬ sameSet (EdgeItem.members a) (EdgeItem.members b) = true)
  src : ∀ it ∈ news, ∃ x ∈ dups, EdgeItem.members it = s0.mem x
  ahead : ∀ it ∈ news, ∀ g ∈ gs, ∀ x ∈ g, ¬ sameSet (EdgeItem.members it) (s0.mem x) = true
  dnodup : dups.Nodup
  dahead : ∀ x ∈ dups, ∀ g ∈ gs, x ∉ g
  dsrc : ∀ x ∈ dups, x ∈ s0.edges

theorem mergeGroup_new (rule : MergeRule) (mult : Option String) (s : HG) (r : PyId) (t : List PyId) (s2 : HG)
    (it : EdgeItem) (h : mergeGroup .new rule mult s (r :: t) = (s2, .ok it)) :
    s2 = { s with uid := s.uid + 1 } ∧ it.members = s.mem r ∧ it.idx = some (PyId.int s.uid) := by
  simp only [mergeGroup, mergeNewId] at h
  split at h
  · cases h
  · simp only [Prod.mk.injEq, Except.ok.injEq] at h
    obtain ⟨h1, h2⟩ := h
    subst h2
    exact ⟨h1.symm, rfl, rfl⟩

theorem mergeLoop_new (rule : MergeRule) (mult : Option String) (s0 : HG) (gs : List (List PyId))
    (hsep : Separated s0 gs) (hG : ∀ g ∈ gs, g.Nodup ∧ ∀ x ∈ g, x ∈ s0.edges)
    (s : HG) (dups : List PyId) (news : List EdgeItem) (hI : LoopInv s0 s gs dups news)
    (s' : HG) (d' : List PyId) (n' : List EdgeItem)
    (h : mergeLoop .new rule mult s gs dups news = (s', .ok (d', n'))) :
    LoopInv s0 s' [] d' n' ∧ (∀ x ∈ dups, x ∈ d') ∧ (∀ g ∈ gs, 1 < g.length → ∀ x ∈ g, x ∈ d') := by
  induction gs generalizing s dups news with
  | nil =>
    simp only [mergeLoop, Prod.mk.injEq, Except.ok.injEq] at h
    obtain ⟨h1, h2, h3⟩ := h
    subst h1; subst h2; subst h3
    exact ⟨hI, fun _ hx => hx, by simp⟩
  | cons g gs ih =>
    have hsep' : Separated s0 gs := List.Pairwise.of_cons hsep
    have hhead : ∀ g'' ∈ gs, ∀ x ∈ g, ∀ y ∈ g'', ¬ Dup s0 x y := fun g'' hg'' => List.rel_of_pairwise_cons hsep hg''
    have hG' : ∀ g ∈ gs, g.Nodup ∧ ∀ x ∈ g, x ∈ s0.edges := fun g' hg' => hG g' (by simp [hg'])
    simp only [mergeLoop] at h
    split at h
    · rename_i hlen
      have hI' : LoopInv s0 s gs dups news :=
        { hI with ahead := fun it hit g' hg' => hI.ahead it hit g' (by simp [hg']),
                  dahead := fun x hx g' hg' => hI.dahead x hx g' (by simp [hg']) }
      obtain ⟨a, b, c⟩ := ih hsep' hG' s dups news hI' h
      refine ⟨a, b, ?_⟩
      intro g' hg' hl
      rcases List.mem_cons.mp hg' with rfl | hg'
      · omega
      · exact c g' hg' hl
    · rename_i hlen
      split at h
      · cases h
      · rename_i s2 it heq
        cases g with
        | nil => simp at hlen
        | cons r t =>
          obtain ⟨e1, e2, e3⟩ := mergeGroup_new rule mult s r t s2 it heq
          obtain ⟨k, hk, hk0⟩ := hI.state
          have hmem : s.mem = s0.mem := by rw [hk]
          have huid : s.uid = k := by rw [hk]
          have hgn := (hG (r :: t) (by simp)).1
          have hge := (hG (r :: t) (by simp)).2
          have hI' : LoopInv s0 s2 gs (dups ++ (r :: t)) (news ++ [it]) := by
            constructor
            · exact ⟨k + 1, by rw [e1, hk], by omega⟩
            · intro it' hit'
              rcases List.mem_append.mp hit' with hit' | hit'
              · obtain ⟨k', a, b, c⟩ := hI.idx it' hit'
                exact ⟨k', a, b, by rw [e1]; simp only; omega⟩
              · simp only [List.mem_singleton] at hit'; subst hit'
                exact ⟨s.uid, e3, by omega, by rw [e1]; simp⟩
            · rw [List.pairwise_append]
              refine ⟨hI.idxP, by simp, ?_⟩
              intro a ha b hb
              simp only [List.mem_singleton] at hb; subst hb
              obtain ⟨k', a1, _, a3⟩ := hI.idx a ha
              rw [a1, e3]; intro hc
              simp only [Option.some.injEq, PyId.int, PyId.atom.injEq, Atom.int.injEq] at hc
              omega
            · rw [List.pairwise_append]
              refine ⟨hI.memP, by simp, ?_⟩
              intro a ha b hb
              simp only [List.mem_singleton] at hb; subst hb
              rw [e2, hmem]
              exact hI.ahead a ha (r :: t) (by simp) r (by simp)
            · intro it' hit'
              rcases List.mem_append.mp hit' with hit' | hit'
              · obtain ⟨x, hx, hm⟩ := hI.src it' hit'
                exact ⟨x, by simp [hx], hm⟩
              · simp only [List.mem_singleton] at hit'; subst hit'
                exact ⟨r, by simp, by rw [e2, hmem]⟩
            · intro it' hit' g' hg' x hx
              rcases List.mem_append.mp hit' with hit' | hit'
              · exact hI.ahead it' hit' g' (by simp [hg']) x hx
              · simp only [List.mem_singleton] at hit'; subst hit'
                rw [e2, hmem]
                exact hhead g' hg' r (by simp) x hx
            · rw [List.nodup_append]
              refine ⟨hI.dnodup, hgn, ?_⟩
              intro a ha b hb hab
              subst hab
              exact hI.dahead a ha (r :: t) (by simp) hb
            · intro x hx g' hg'
              rcases List.mem_append.mp hx with hx | hx
              · exact hI.dahead x hx g' (by simp [hg'])
              · intro hxg'
                exact hhead g' hg' x hx x hxg' (Dup.refl s0 x)
            · intro x hx
              rcases List.mem_append.mp hx with hx | hx
              · exact hI.dsrc x hx
              · exact hge x hx
          obtain ⟨a, b, c⟩ := ih hsep' hG' s2 (dups ++ (r :: t)) (news ++ [it]) hI' h
          refine ⟨a, fun x hx => b x (by simp [hx]), ?_⟩
          intro g' hg' hl x hx
          rcases List.mem_cons.mp hg' with rfl | hg'
          · exact b x (by simp only [List.mem_append]; exact Or.inr hx)
          · exact c g' hg' hl x hx



theorem pairwise_mem_or {α : Type} {R : α → α → Prop} {l : List α} (h : l.Pairwise R) {a b : α}
    (ha : a ∈ l) (hb : b ∈ l) (hne : a ≠ b) : R a b ∨ R b a := by
  induction l with
  | nil => cases ha
  | cons x l ih =>
    rcases List.mem_cons.mp ha with rfl | ha' <;> rcases List.mem_cons.mp hb with rfl | hb'
    · exact absurd rfl hne
    · exact Or.inl (List.rel_of_pairwise_cons h hb')
    · exact Or.inr (List.rel_of_pairwise_cons h ha')
    · exact ih (List.Pairwise.of_cons h) ha' hb'

/-- an edge that the loop did not collect has no duplicate at all -/
theorem survivor_unique {s : HG} (hE : s.edges.Nodup) (d : List PyId)
    (hall : ∀ g ∈ groupDups s, 1 < g.length → ∀ x ∈ g, x ∈ d) {e : PyId} (he : e ∈ s.edges) (hd : e ∉ d) :
    ∀ y ∈ s.edges, y ≠ e → ¬ Dup s e y := by
  have G := groupDups_grouped hE
  have S := groupDups_separated hE
  obtain ⟨g, hg, heg⟩ := (G.cover e).mpr he
  have hlen : g.length ≤ 1 := by
    rcases Nat.lt_or_ge 1 g.length with hc | hc
    · exact absurd (hall g hg hc e heg) hd
    · exact hc
  have hge : g = [e] := by
    match g, hlen, heg with
    | [a], _, heg => simp only [List.mem_singleton] at heg; rw [heg]
  intro y hy hne hdup
  obtain ⟨g', hg', hyg'⟩ := (G.cover y).mpr hy
  by_cases hgg : g = g'
  · rw [← hgg, hge] at hyg'; simp only [List.mem_singleton] at hyg'; exact hne hyg'
  · rcases pairwise_mem_or S hg hg' hgg with h1 | h1
    · exact h1 e heg y hyg' hdup
    · exact h1 y hyg' e heg hdup.symm



/-- **`merge_duplicate_edges(rename="new")` that returns leaves no two edges with the same member set** -/
theorem merge_new_no_duplicates_aux {s : HG} (h : Inv s) (rule : MergeRule) (mult : Option String)
    (r : HG × Outcome) (hr : mergeDuplicateEdges s .new rule mult = some r) (hok : r.2.isErr = false) :
    NoDupEdges r.1 := by
  unfold mergeDuplicateEdges at hr
  have hl := mergeLoop_inv .new rule mult (groupDups s) h [] []
  have G := groupDups_grouped h.1.nodupE
  have S := groupDups_separated h.1.nodupE
  split at hr
  · cases hr
  · cases hr; simp [Outcome.isErr] at hok
  · cases hr; simp [Outcome.isErr] at hok
  · rename_i s' dups news heq
    rw [heq] at hl
    simp only [] at hr hl
    have hI0 : LoopInv s s (groupDups s) [] [] :=
      { state := ⟨s.uid, rfl, Nat.le_refl _⟩, idx := by simp, idxP := List.Pairwise.nil, memP := List.Pairwise.nil,
        src := by simp, ahead := by simp, dnodup := List.nodup_nil, dahead := by simp, dsrc := by simp }
    obtain ⟨L, _, hall⟩ := mergeLoop_new rule mult s (groupDups s) S
      (fun g hg => ⟨G.nodup g hg, fun x hx => (G.cover x).mp ⟨g, hg, hx⟩⟩) s [] [] hI0 s' dups news heq
    obtain ⟨k, hk, hk0⟩ := L.state
    have hedges' : s'.edges = s.edges := by rw [hk]
    have hmem' : s'.mem = s.mem := by rw [hk]
    have huid' : s'.uid = k := by rw [hk]
    -- removal phase
    have hc := removeEdgesFrom_complete dups s' L.dnodup (by intro x hx; rw [hedges']; exact L.dsrc x hx)
    have hfld := removeEdgesFrom_fields dups s'
    have hinv1 : Inv (removeEdgesFrom s' dups).1 := removeEdgesFrom_inv hl _
    generalize ht : removeEdgesFrom s' dups = r1 at hc hfld hinv1 hr
    obtain ⟨t, o1⟩ := r1
    simp only at hc hfld hinv1
    obtain ⟨ho1, hed⟩ := hc
    subst ho1
    have hmemt : t.mem = s.mem := hfld.2.1.trans hmem'
    have hsurv : ∀ e ∈ t.edges, e ∈ s.edges ∧ e ∉ dups := by
      intro e he; have := (hed e).mp he; rw [hedges'] at this; exact this
    have hND1 : NoDupEdges t := by
      intro e he f hf hne hs
      obtain ⟨he1, he2⟩ := hsurv e he
      obtain ⟨hf1, _⟩ := hsurv f hf
      rw [hmemt] at hs
      exact survivor_unique h.1.nodupE dups hall he1 he2 f hf1 (Ne.symm hne) hs
    have hadd := bulk_add_fresh_nodup [] news hinv1 hND1
      (by intro it hit
          obtain ⟨k', a1, a2, _⟩ := L.idx it hit
          obtain ⟨x, hx, hm⟩ := L.src it hit
          refine ⟨PyId.int k', a1, ?_, by simp [PyId.int], ?_⟩
          · intro hin
            have := h.2 k' (hsurv _ hin).1
            omega
          · rw [hm]; intro hn
            exact h.1.noNoneN (h.1.e2n x (L.dsrc x hx) _ hn).1)
      L.idxP L.memP
      (by intro it hit e he
          obtain ⟨x, hx, hm⟩ := L.src it hit
          obtain ⟨he1, he2⟩ := hsurv e he
          rw [hmemt, hm]
          exact survivor_unique h.1.nodupE dups hall he1 he2 x (L.dsrc x hx) (by rintro rfl; exact he2 hx))
    -- assemble
    by_cases hfz : s'.frozen = true
    · simp only [guardF, hfz, if_true, Outcome.isErr] at hr
      cases hr; simp [Outcome.isErr] at hok
    · simp only [guardF, hfz, Bool.false_eq_true, if_false, Outcome.isErr] at hr
      by_cases hfz2 : t.frozen = true
      · simp only [hfz2, if_true] at hr
        cases hr; simp [Outcome.isErr] at hok
      · simp only [hfz2, Bool.false_eq_true, if_false, addEdgesFrom_f4_eq] at hr
        split at hr
        · cases hr
          rename_i he
          rw [hadd.1] at he
          cases he
        · cases hr; exact hadd.2


end HG
end Xgi
