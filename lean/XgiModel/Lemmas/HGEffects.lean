/-
  Helper lemmas for C05 (moved out of Props/C05.lean so that the obligations there are property statements).
-/
import XgiModel.Lemmas.HGWF
import Mathlib.Tactic.Tauto
import Mathlib.Tactic.ByContra

namespace Xgi.C05
open Xgi Xgi.HG

theorem removeNode_weak_eq (s : HG) (n : PyId) (re : Bool) (hn : n ∈ s.nodes) :
    removeNode s n false re = (removeNodeWeak s n re, .ok) := by
  simp [removeNode, hn]

theorem removeNode_strong_eq (s : HG) (n : PyId) (re : Bool) (hn : n ∈ s.nodes) :
    removeNode s n true re = (removeNodeStrong s n, .ok) := by
  simp [removeNode, hn]

theorem rm_isEmpty_iff (n : PyId) (l : List PyId) : (rm n l).isEmpty = true ↔ ∀ m ∈ l, m = n := by
  rw [List.isEmpty_iff]; constructor
  · intro hemp m hmm; by_contra hne
    have : m ∈ rm n l := by simp [hmm, hne]
    rw [hemp] at this; cases this
  · intro hall; apply List.eq_nil_iff_forall_not_mem.mpr; intro a ha; simp at ha; exact ha.1 (hall a ha.2)

theorem foldl_link_eattr (ms : List PyId) (s : HG) (e : PyId) : (ms.foldl (fun s n => link s e n) s).eattr = s.eattr := by
  induction ms generalizing s with
  | nil => rfl
  | cons m ms ih =>
    simp only [List.foldl_cons]; rw [ih]
    unfold link linkCore addNodeRaw; split <;> rfl

end Xgi.C05
