/-
  Helper lemmas: the well-formedness invariant of the undirected model and its preservation
  by every primitive update and every public mutator of `HG`.
-/
import XgiModel.Core.HG

namespace Xgi
namespace HG

/-- two-way incidence consistency + exactly one attribute record per ID -/
structure WF (s : HG) : Prop where
  nodupN : s.nodes.Nodup
  nodupE : s.edges.Nodup
  noNoneN : PyId.none ∉ s.nodes
  noNoneE : PyId.none ∉ s.edges
  n2e : ∀ n ∈ s.nodes, ∀ e ∈ s.memb n, e ∈ s.edges ∧ n ∈ s.mem e
  e2n : ∀ e ∈ s.edges, ∀ n ∈ s.mem e, n ∈ s.nodes ∧ e ∈ s.memb n
  attrN : ∀ n, n ∈ s.nattrK ↔ n ∈ s.nodes
  attrE : ∀ e, e ∈ s.eattrK ↔ e ∈ s.edges
  nodupNK : s.nattrK.Nodup
  nodupEK : s.eattrK.Nodup
  setN : ∀ n ∈ s.nodes, (s.memb n).Nodup
  setE : ∀ e ∈ s.edges, (s.mem e).Nodup

theorem empty_wf : WF HG.empty := by
  constructor <;> simp [HG.empty]

/-! ### list facts -/

theorem nodup_append_singleton {α} {l : List α} {x : α} (h : l.Nodup) (hx : x ∉ l) : (l ++ [x]).Nodup := by
  rw [List.nodup_append]; refine ⟨h, by simp, ?_⟩
  intro a ha b hb; simp at hb; subst hb; intro hab; subst hab; exact hx ha

theorem nodup_filter {α} {l : List α} (p : α → Bool) (h : l.Nodup) : (l.filter p).Nodup :=
  List.Nodup.sublist List.filter_sublist h

attribute [grind .] nodup_ins nodup_rm nodup_append_singleton nodup_filter

/-! ### primitives -/

theorem addNodeRaw_wf {s : HG} (h : WF s) (n : PyId) (hn : n ≠ .none) : WF (addNodeRaw s n) := by
  obtain ⟨h1, h2, h3, h4, h5, h6, h7, h8, h9, h10, h11, h12⟩ := h
  unfold addNodeRaw; split
  · constructor <;> assumption
  · constructor <;> simp only [] <;> grind

@[simp] theorem addNodeRaw_edges (s : HG) (n : PyId) : (addNodeRaw s n).edges = s.edges := by
  unfold addNodeRaw; split <;> rfl
@[simp] theorem addNodeRaw_uid (s : HG) (n : PyId) : (addNodeRaw s n).uid = s.uid := by
  unfold addNodeRaw; split <;> rfl
theorem mem_addNodeRaw_nodes (s : HG) (n m : PyId) : m ∈ (addNodeRaw s n).nodes ↔ m = n ∨ m ∈ s.nodes := by
  unfold addNodeRaw; split <;> simp <;> grind

theorem updNodeAttr_wf {s : HG} (h : WF s) (n : PyId) (a : Attrs) : WF (updNodeAttr s n a) := by
  obtain ⟨h1, h2, h3, h4, h5, h6, h7, h8, h9, h10, h11, h12⟩ := h
  unfold updNodeAttr; constructor <;> simp only [] <;> assumption

theorem updEdgeAttr_wf {s : HG} (h : WF s) (e : PyId) (a : Attrs) : WF (updEdgeAttr s e a) := by
  obtain ⟨h1, h2, h3, h4, h5, h6, h7, h8, h9, h10, h11, h12⟩ := h
  unfold updEdgeAttr; constructor <;> simp only [] <;> assumption

@[simp] theorem updEdgeAttr_edges (s : HG) (e : PyId) (a : Attrs) : (updEdgeAttr s e a).edges = s.edges := rfl
@[simp] theorem updNodeAttr_edges (s : HG) (e : PyId) (a : Attrs) : (updNodeAttr s e a).edges = s.edges := rfl
@[simp] theorem updNodeAttr_nodes (s : HG) (e : PyId) (a : Attrs) : (updNodeAttr s e a).nodes = s.nodes := rfl

theorem bumpUid_wf {s : HG} (h : WF s) (i : PyId) : WF (bumpUid s i) := by
  obtain ⟨h1, h2, h3, h4, h5, h6, h7, h8, h9, h10, h11, h12⟩ := h
  unfold bumpUid; split
  · split
    · constructor <;> simp only [] <;> assumption
    · constructor <;> assumption
  · constructor <;> assumption

@[simp] theorem bumpUid_edges (s : HG) (i : PyId) : (bumpUid s i).edges = s.edges := by
  unfold bumpUid; split
  · split <;> rfl
  · rfl

theorem newEdge_wf {s : HG} (h : WF s) (e : PyId) (he : e ∉ s.edges) (hn : e ≠ .none) :
    WF (newEdgeAttr (newEdgeRaw s e) e) := by
  obtain ⟨h1, h2, h3, h4, h5, h6, h7, h8, h9, h10, h11, h12⟩ := h
  unfold newEdgeAttr newEdgeRaw; constructor <;> simp only [] <;> grind

theorem linkCore_wf {s : HG} (h : WF s) (e n : PyId) (he : e ∈ s.edges) (hn : n ∈ s.nodes) :
    WF (linkCore s e n) := by
  obtain ⟨h1, h2, h3, h4, h5, h6, h7, h8, h9, h10, h11, h12⟩ := h
  unfold linkCore; constructor <;> simp only [] <;> grind

@[simp] theorem linkCore_edges (s : HG) (e n : PyId) : (linkCore s e n).edges = s.edges := rfl

theorem link_wf {s : HG} (h : WF s) (e n : PyId) (he : e ∈ s.edges) (hn : n ≠ .none) : WF (link s e n) := by
  unfold link
  exact linkCore_wf (addNodeRaw_wf h n hn) e n (by simpa using he) (by rw [mem_addNodeRaw_nodes]; simp)

@[simp] theorem link_edges (s : HG) (e n : PyId) : (link s e n).edges = s.edges := by
  unfold link; simp

theorem foldl_link_wf (ms : List PyId) {s : HG} (e : PyId) (h : WF s) (he : e ∈ s.edges)
    (hms : PyId.none ∉ ms) :
    WF (ms.foldl (fun s n => link s e n) s) ∧ (ms.foldl (fun s n => link s e n) s).edges = s.edges := by
  induction ms generalizing s with
  | nil => exact ⟨h, rfl⟩
  | cons m ms ih =>
    simp only [List.foldl_cons]
    have hm : m ≠ .none := by intro hh; apply hms; simp [hh]
    have hms' : PyId.none ∉ ms := by intro hh; apply hms; simp [hh]
    have := ih (s := link s e m) (link_wf h e m he hm) (by simpa using he) hms'
    exact ⟨this.1, by rw [this.2]; simp⟩

theorem addEdgeAt_wf {s : HG} (h : WF s) (e : PyId) (ms : List PyId) (a : Attrs)
    (he : e ∉ s.edges) (hn : e ≠ .none) (hms : PyId.none ∉ ms) : WF (addEdgeAt s e ms a) := by
  unfold addEdgeAt
  have h1 := updEdgeAttr_wf (newEdge_wf h e he hn) e a
  refine (foldl_link_wf ms e h1 ?_ hms).1
  simp [newEdgeAttr, newEdgeRaw]

theorem dropEdge_wf {s : HG} (h : WF s) (e : PyId) : WF (dropEdge s e) := by
  obtain ⟨h1, h2, h3, h4, h5, h6, h7, h8, h9, h10, h11, h12⟩ := h
  unfold dropEdge; constructor <;> simp only [] <;> grind

/-! ### bulk iteration -/

theorem bulk_inv {α : Type} (P : HG → Prop) (f : HG → α → HG × Outcome)
    (hf : ∀ s a, P s → P (f s a).1) (l : List α) {s : HG} (h : P s) : P (bulk f s l).1 := by
  induction l generalizing s with
  | nil => simpa [bulk]
  | cons a t ih =>
    simp only [bulk]
    have h1 := hf s a h
    split
    · rename_i s' k heq; rw [heq] at h1; exact h1
    · rename_i s' o _ heq; rw [heq] at h1; exact ih h1

theorem andThen_inv (P : HG → Prop) (r : HG × Outcome) (f : HG → HG × Outcome)
    (hr : P r.1) (hf : ∀ s, P s → P (f s).1) : P (andThen r f).1 := by
  unfold andThen; split
  · exact hr
  · exact hf _ hr

theorem guardF_inv (P : HG → Prop) (s : HG) (r : HG × Outcome) (hs : P s) (hr : P r.1) : P (guardF s r).1 := by
  unfold guardF; split <;> assumption

/-! ### public mutators -/

theorem addNode_wf {s : HG} (h : WF s) (n : PyId) (a : Attrs) : WF (addNode s n a).1 := by
  unfold addNode; split
  · exact h
  · exact updNodeAttr_wf (addNodeRaw_wf h n (by assumption)) n a

theorem addNodesItem_wf (attr : Attrs) (s : HG) (it : PyId × Option Attrs) (h : WF s) :
    WF (addNodesItem attr s it).1 := by
  obtain ⟨n, od⟩ := it
  unfold addNodesItem
  simp only []
  split
  · exact h
  · rename_i hc
    have hn : n ≠ .none := by
      intro hn; subst hn; exact hc ⟨rfl, h.noNoneN⟩
    exact updNodeAttr_wf (addNodeRaw_wf h n hn) n _

theorem addNodesFrom_wf {s : HG} (h : WF s) (items : List (PyId × Option Attrs)) (attr : Attrs) :
    WF (addNodesFrom s items attr).1 :=
  bulk_inv WF _ (fun s a hs => addNodesItem_wf attr s a hs) items h

theorem removeNodeWeak_wf {s : HG} (h : WF s) (n : PyId) (b : Bool) : WF (removeNodeWeak s n b) := by
  obtain ⟨h1, h2, h3, h4, h5, h6, h7, h8, h9, h10, h11, h12⟩ := h
  unfold removeNodeWeak; constructor <;> simp only [] <;> grind

theorem removeNodeStrong_wf {s : HG} (h : WF s) (n : PyId) : WF (removeNodeStrong s n) := by
  obtain ⟨h1, h2, h3, h4, h5, h6, h7, h8, h9, h10, h11, h12⟩ := h
  unfold removeNodeStrong; constructor <;> simp only [] <;> grind

theorem removeNode_wf {s : HG} (h : WF s) (n : PyId) (st re : Bool) : WF (removeNode s n st re).1 := by
  unfold removeNode; split
  · exact h
  · split
    · exact removeNodeStrong_wf h n
    · exact removeNodeWeak_wf h n re

theorem removeNodesFrom_wf {s : HG} (h : WF s) (ns : List PyId) (st re : Bool) :
    WF (removeNodesFrom s ns st re).1 :=
  bulk_inv WF _ (fun s a hs => by
    unfold removeNodesItem; split
    · exact hs
    · exact removeNode_wf hs a st re) ns h

/-! ### freshness of the automatic-ID counter (needed for WF: an automatic ID must not exist yet) -/

/-- every integer edge ID is below the counter -/
def UidFresh (s : HG) : Prop := ∀ k : Int, PyId.int k ∈ s.edges → k < (s.uid : Int)

/-- the invariant carried along every history -/
def Inv (s : HG) : Prop := WF s ∧ UidFresh s

theorem empty_inv : Inv HG.empty := ⟨empty_wf, by intro k hk; simp [HG.empty] at hk⟩

theorem fresh_of_subset {s t : HG} (h : UidFresh s) (he : ∀ e ∈ t.edges, e ∈ s.edges) (hu : s.uid ≤ t.uid) :
    UidFresh t := by
  intro k hk; have := h k (he _ hk); omega

theorem uid_not_mem {s : HG} (h : UidFresh s) : PyId.int (s.uid : Int) ∉ s.edges := by
  intro hk; have := h _ hk; omega

@[simp] theorem addNodeRaw_fresh {s : HG} (n : PyId) : UidFresh (addNodeRaw s n) ↔ UidFresh s := by
  unfold UidFresh; simp
@[simp] theorem updNodeAttr_fresh {s : HG} (n : PyId) (a : Attrs) : UidFresh (updNodeAttr s n a) ↔ UidFresh s := Iff.rfl
@[simp] theorem updEdgeAttr_fresh {s : HG} (n : PyId) (a : Attrs) : UidFresh (updEdgeAttr s n a) ↔ UidFresh s := Iff.rfl

theorem foldl_link_uid (ms : List PyId) (s : HG) (e : PyId) :
    (ms.foldl (fun s n => link s e n) s).uid = s.uid ∧ (ms.foldl (fun s n => link s e n) s).edges = s.edges := by
  induction ms generalizing s with
  | nil => exact ⟨rfl, rfl⟩
  | cons m ms ih =>
    simp only [List.foldl_cons]
    have := ih (link s e m)
    refine ⟨by rw [this.1]; simp [link, linkCore], by rw [this.2]; simp⟩

theorem addEdgeAt_edges (s : HG) (e : PyId) (ms : List PyId) (a : Attrs) :
    (addEdgeAt s e ms a).edges = s.edges ++ [e] ∧ (addEdgeAt s e ms a).uid = s.uid := by
  unfold addEdgeAt
  have := foldl_link_uid ms (updEdgeAttr (newEdgeAttr (newEdgeRaw s e) e) e a) e
  exact ⟨by rw [this.2]; rfl, by rw [this.1]; rfl⟩

/-- a state that gained the explicit edge ID `e` and then bumps the counter keeps it above all integer IDs -/
theorem bump_fresh_general {s t : HG} (h : UidFresh s) (e : PyId) (he : t.edges = s.edges ++ [e])
    (hu : t.uid = s.uid) : UidFresh (bumpUid t e) := by
  intro k hk
  simp only [bumpUid_edges, he, List.mem_append, List.mem_singleton] at hk
  unfold bumpUid
  split
  · rename_i i
    split
    · simp only []
      rcases hk with hk | hk
      · have := h k hk; omega
      · have : k = i := by injection hk with hk; injection hk
        omega
    · rcases hk with hk | hk
      · have := h k hk; omega
      · have : k = i := by injection hk with hk; injection hk
        omega
  · rcases hk with hk | hk
    · have := h k hk; omega
    · rename_i hne; exact absurd hk.symm (hne k)

theorem bump_add_fresh {s : HG} (h : UidFresh s) (e : PyId) (ms : List PyId) (a : Attrs) :
    UidFresh (bumpUid (addEdgeAt s e ms a) e) :=
  bump_fresh_general h e (addEdgeAt_edges s e ms a).1 (addEdgeAt_edges s e ms a).2

/-- taking the next automatic ID -/
theorem auto_add_fresh {s : HG} (h : UidFresh s) (ms : List PyId) (a : Attrs) :
    UidFresh (addEdgeAt { s with uid := s.uid + 1 } (PyId.int s.uid) ms a) := by
  have ⟨he, hu⟩ := addEdgeAt_edges { s with uid := s.uid + 1 } (PyId.int s.uid) ms a
  generalize addEdgeAt { s with uid := s.uid + 1 } (PyId.int s.uid) ms a = t at *
  intro k hk
  rw [he] at hk; simp only [List.mem_append, List.mem_singleton] at hk
  rw [hu]; simp only []
  rcases hk with hk | hk
  · have := h k hk; omega
  · have : k = (s.uid : Int) := by injection hk with hk; injection hk
    omega

theorem wf_uid_succ {s : HG} (h : WF s) : WF { s with uid := s.uid + 1 } := by
  obtain ⟨h1, h2, h3, h4, h5, h6, h7, h8, h9, h10, h11, h12⟩ := h
  constructor <;> simp only [] <;> assumption

theorem addEdge_inv {s : HG} (h : Inv s) (ms : List PyId) (idx : Option PyId) (a : Attrs) :
    Inv (addEdge s ms idx a).1 := by
  obtain ⟨h, hf⟩ := h
  unfold addEdge; split
  · exact ⟨h, hf⟩
  · rename_i hc
    have hms' : PyId.none ∉ dedup ms := by simp; intro hx; exact hc (Or.inl hx)
    split
    · rename_i i
      split
      · exact ⟨h, hf⟩
      · rename_i hi
        have hn : i ≠ .none := by intro hn; subst hn; exact hc (Or.inr rfl)
        exact ⟨bumpUid_wf (addEdgeAt_wf h i _ a hi hn hms') i, bump_add_fresh hf i _ a⟩
    · simp only []
      refine ⟨addEdgeAt_wf (wf_uid_succ h) _ _ a (uid_not_mem hf) (by intro hh; cases hh) hms', auto_add_fresh hf _ a⟩

theorem inv_of_same_edges {s t : HG} (h : Inv s) (hw : WF t) (he : t.edges = s.edges) (hu : t.uid = s.uid) : Inv t :=
  ⟨hw, fresh_of_subset h.2 (by rw [he]; exact fun _ x => x) (by omega)⟩

theorem addNode_inv {s : HG} (h : Inv s) (n : PyId) (a : Attrs) : Inv (addNode s n a).1 := by
  refine ⟨addNode_wf h.1 n a, ?_⟩
  unfold addNode; split
  · exact h.2
  · simpa using h.2

theorem addNodesItem_inv (attr : Attrs) (s : HG) (it : PyId × Option Attrs) (h : Inv s) :
    Inv (addNodesItem attr s it).1 := by
  refine ⟨addNodesItem_wf attr s it h.1, ?_⟩
  obtain ⟨n, od⟩ := it
  unfold addNodesItem; simp only []; split
  · exact h.2
  · simpa using h.2

theorem addNodesFrom_inv {s : HG} (h : Inv s) (items : List (PyId × Option Attrs)) (attr : Attrs) :
    Inv (addNodesFrom s items attr).1 :=
  bulk_inv Inv _ (fun s a hs => addNodesItem_inv attr s a hs) items h

theorem removeNode_inv {s : HG} (h : Inv s) (n : PyId) (st re : Bool) : Inv (removeNode s n st re).1 := by
  refine ⟨removeNode_wf h.1 n st re, ?_⟩
  unfold removeNode; split
  · exact h.2
  · split
    · exact fresh_of_subset h.2 (by unfold removeNodeStrong; simp; grind) (by unfold removeNodeStrong; simp)
    · exact fresh_of_subset h.2 (by unfold removeNodeWeak; simp; grind) (by unfold removeNodeWeak; simp)

theorem removeNodesFrom_inv {s : HG} (h : Inv s) (ns : List PyId) (st re : Bool) :
    Inv (removeNodesFrom s ns st re).1 :=
  bulk_inv Inv _ (fun s a hs => by
    unfold removeNodesItem; split
    · exact hs
    · exact removeNode_inv hs a st re) ns h

theorem addEdgesItem_inv (fmt : Fmt) (attr : Attrs) (s : HG) (it : EdgeItem) (h : Inv s) :
    Inv (addEdgesItem fmt attr s it).1 := by
  obtain ⟨h, hf⟩ := h
  unfold addEdgesItem
  by_cases hx : fmt.explicit = true
  · simp only [hx, if_true]
    split
    · exact ⟨h, hf⟩
    · rename_i hi
      split
      · exact ⟨h, hf⟩
      · rename_i hc
        have hms : PyId.none ∉ dedup it.members := by simp; intro hh; exact hc (Or.inl hh)
        have hn : it.idx.getD .none ≠ .none := by intro hh; exact hc (Or.inr hh)
        exact ⟨bumpUid_wf (addEdgeAt_wf h _ _ _ hi hn hms) _, bump_add_fresh hf _ _ _⟩
  · simp only [hx]
    simp only [Bool.false_eq_true, if_false]
    split
    · exact ⟨wf_uid_succ h, fresh_of_subset hf (fun _ x => x) (by simp)⟩
    · rename_i hi
      split
      · exact ⟨wf_uid_succ h, fresh_of_subset hf (fun _ x => x) (by simp)⟩
      · rename_i hc
        have hms : PyId.none ∉ dedup it.members := by simp; intro hh; exact hc (Or.inl hh)
        exact ⟨addEdgeAt_wf (wf_uid_succ h) _ _ _ (uid_not_mem hf) (by intro hh; cases hh) hms, auto_add_fresh hf _ _⟩

theorem addEdgesFrom_inv {s : HG} (h : Inv s) (fmt : Fmt) (items : List EdgeItem) (attr : Attrs) :
    Inv (addEdgesFrom s fmt items attr).1 := by
  have key : Inv (bulk (addEdgesItem fmt attr) s items).1 :=
    bulk_inv Inv _ (fun s a hs => addEdgesItem_inv fmt attr s a hs) items h
  unfold addEdgesFrom
  split
  · split
    · exact key
    · split
      · exact h
      · exact key
  · exact key

theorem addNodeToEdge_inv {s : HG} (h : Inv s) (e n : PyId) : Inv (addNodeToEdge s e n).1 := by
  obtain ⟨h, hf⟩ := h
  unfold addNodeToEdge; split
  · exact ⟨h, hf⟩
  · rename_i hc
    have hn : n ≠ .none := fun hh => hc (Or.inr hh)
    have he : e ≠ .none := fun hh => hc (Or.inl hh)
    simp only []
    split
    · rename_i hin
      exact ⟨link_wf h e n hin hn, fresh_of_subset hf (by simp) (by simp [link, linkCore])⟩
    · rename_i hin
      have h1 := bumpUid_wf (newEdge_wf h e hin he) e
      have hf1 : UidFresh (bumpUid (newEdgeAttr (newEdgeRaw s e) e) e) :=
        bump_fresh_general hf e rfl rfl
      refine ⟨link_wf h1 e n (by simp [newEdgeAttr, newEdgeRaw]) hn, ?_⟩
      exact fresh_of_subset hf1 (by simp) (by simp [link, linkCore])

theorem removeEdge_inv (s : HG) (e : PyId) (h : Inv s) : Inv (removeEdge s e).1 := by
  unfold removeEdge; split
  · exact h
  · exact ⟨dropEdge_wf h.1 e, fresh_of_subset h.2 (by unfold dropEdge; simp) (by unfold dropEdge; simp)⟩

theorem removeEdgesFrom_inv {s : HG} (h : Inv s) (es : List PyId) : Inv (removeEdgesFrom s es).1 :=
  bulk_inv Inv _ (fun s a hs => removeEdge_inv s a hs) es h

theorem removeNodeFromEdge_inv {s : HG} (h : Inv s) (e n : PyId) (re : Bool) :
    Inv (removeNodeFromEdge s e n re).1 := by
  obtain ⟨⟨h1, h2, h3, h4, h5, h6, h7, h8, h9, h10, h11, h12⟩, hf⟩ := h
  unfold removeNodeFromEdge
  split
  · exact ⟨⟨h1, h2, h3, h4, h5, h6, h7, h8, h9, h10, h11, h12⟩, hf⟩
  · split
    · exact ⟨⟨h1, h2, h3, h4, h5, h6, h7, h8, h9, h10, h11, h12⟩, hf⟩
    · split
      · exact ⟨⟨h1, h2, h3, h4, h5, h6, h7, h8, h9, h10, h11, h12⟩, hf⟩
      · simp only []
        split
        · refine ⟨?_, fresh_of_subset hf (by simp [delEdgeOnly]) (by simp [delEdgeOnly])⟩
          unfold delEdgeOnly; constructor <;> simp only [] <;> grind
        · refine ⟨?_, fresh_of_subset hf (by simp) (by simp)⟩
          constructor <;> simp only [] <;> grind

theorem updNodeAttr_inv {s : HG} (h : Inv s) (n : PyId) (a : Attrs) : Inv (updNodeAttr s n a) :=
  ⟨updNodeAttr_wf h.1 n a, h.2⟩
theorem updEdgeAttr_inv {s : HG} (h : Inv s) (n : PyId) (a : Attrs) : Inv (updEdgeAttr s n a) :=
  ⟨updEdgeAttr_wf h.1 n a, h.2⟩

theorem foldl_inv {α : Type} (P : HG → Prop) (f : HG → α → HG) (hf : ∀ s a, P s → P (f s a))
    (l : List α) {s : HG} (h : P s) : P (l.foldl f s) := by
  induction l generalizing s with
  | nil => simpa
  | cons a t ih => exact ih (hf s a h)

theorem setNodeAttrs_inv {s : HG} (h : Inv s) (arg : AttrArg) : Inv (setNodeAttrs s arg).1 := by
  unfold setNodeAttrs
  cases arg with
  | dictName vals name =>
    exact bulk_inv Inv _ (fun s p hs => by split <;> first | exact updNodeAttr_inv hs _ _ | exact hs) vals h
  | constName v name => exact foldl_inv Inv _ (fun s n hs => updNodeAttr_inv hs _ _) _ h
  | dictOfDict vals =>
    exact bulk_inv Inv _ (fun s p hs => by split <;> first | exact updNodeAttr_inv hs _ _ | exact hs) vals h
  | badNoName => exact h

theorem setEdgeAttrs_inv {s : HG} (h : Inv s) (arg : AttrArg) : Inv (setEdgeAttrs s arg).1 := by
  unfold setEdgeAttrs
  cases arg with
  | dictName vals name =>
    exact bulk_inv Inv _ (fun s p hs => by split <;> first | exact updEdgeAttr_inv hs _ _ | exact hs) vals h
  | constName v name => exact foldl_inv Inv _ (fun s n hs => updEdgeAttr_inv hs _ _) _ h
  | dictOfDict vals =>
    exact bulk_inv Inv _ (fun s p hs => by split <;> first | exact updEdgeAttr_inv hs _ _ | exact hs) vals h
  | badNoName => exact h

theorem setNetAttr_inv {s : HG} (h : Inv s) (k : String) (v : Val) : Inv (setNetAttr s k v).1 := by
  obtain ⟨⟨h1, h2, h3, h4, h5, h6, h7, h8, h9, h10, h11, h12⟩, hf⟩ := h
  exact ⟨by unfold setNetAttr; constructor <;> simp only [] <;> assumption, hf⟩

theorem clear_inv {s : HG} (h : Inv s) (b : Bool) : Inv (clear s b).1 := by
  refine ⟨?_, fresh_of_subset h.2 (by simp [clear]) (by simp [clear])⟩
  unfold clear; constructor <;> simp

theorem clearEdges_inv {s : HG} (h : Inv s) : Inv (clearEdges s).1 := by
  obtain ⟨⟨h1, h2, h3, h4, h5, h6, h7, h8, h9, h10, h11, h12⟩, hf⟩ := h
  refine ⟨?_, fresh_of_subset hf (by simp [clearEdges]) (by simp [clearEdges])⟩
  unfold clearEdges; constructor <;> simp only [] <;> grind

/-! ### degree/size preserving moves -/

theorem length_ins {α} [DecidableEq α] (x : α) (l : List α) :
    (ins x l).length = if x ∈ l then l.length else l.length + 1 := by
  unfold ins; split <;> simp

theorem rm_of_not_mem {α} [DecidableEq α] {x : α} {l : List α} (hx : x ∉ l) : rm x l = l := by
  unfold rm; apply List.filter_eq_self.mpr; intro b hb; simp; intro hba; subst hba; exact hx hb

theorem length_rm_of_mem {α} [DecidableEq α] {x : α} {l : List α} (h : l.Nodup) (hx : x ∈ l) :
    (rm x l).length + 1 = l.length := by
  induction l with
  | nil => cases hx
  | cons a t ih =>
    have hnd := List.nodup_cons.mp h
    by_cases hax : a = x
    · subst hax
      have : rm a (a :: t) = rm a t := by simp [rm, List.filter]
      rw [this, rm_of_not_mem hnd.1]; simp
    · have hx' : x ∈ t := by
        cases hx with
        | head => exact absurd rfl hax
        | tail _ hh => exact hh
      have : rm x (a :: t) = a :: rm x t := by simp [rm, List.filter, hax]
      rw [this]; have := ih hnd.2 hx'; simp; omega

theorem doubleEdgeSwap_inv {s : HG} (h : Inv s) (n1 n2 e1 e2 : PyId) : Inv (doubleEdgeSwap s n1 n2 e1 e2).1 := by
  obtain ⟨hw, hf⟩ := h
  unfold doubleEdgeSwap
  split
  · exact ⟨hw, hf⟩
  · rename_i hex
    split
    · exact ⟨hw, hf⟩
    · rename_i hin
      simp only []
      split
      · exact ⟨hw, hf⟩
      · rename_i hin2
        split
        · exact ⟨hw, hf⟩
        · rename_i hlen
          refine ⟨?_, fresh_of_subset hf (by simp) (by simp)⟩
          obtain ⟨h1, h2, h3, h4, h5, h6, h7, h8, h9, h10, h11, h12⟩ := hw
          have a1 := length_rm_of_mem (h11 n1 (by grind)) (show e1 ∈ s.memb n1 by grind)
          have a2 := length_rm_of_mem (h11 n2 (by grind)) (show e2 ∈ s.memb n2 by grind)
          have a3 := length_rm_of_mem (h12 e1 (by grind)) (show n1 ∈ s.mem e1 by grind)
          have a4 := length_rm_of_mem (h12 e2 (by grind)) (show n2 ∈ s.mem e2 by grind)
          have b1 := length_ins e2 (rm e1 (s.memb n1))
          have b2 := length_ins e1 (rm e2 (s.memb n2))
          have b3 := length_ins n2 (rm n1 (s.mem e1))
          have b4 := length_ins n1 (rm n2 (s.mem e2))
          -- the size test forces the four "not already there" facts
          have c1 : e2 ∉ rm e1 (s.memb n1) := by intro hc; rw [if_pos hc] at b1; omega
          have c2 : e1 ∉ rm e2 (s.memb n2) := by intro hc; rw [if_pos hc] at b2; omega
          have c3 : n2 ∉ rm n1 (s.mem e1) := by intro hc; rw [if_pos hc] at b3; omega
          have c4 : n1 ∉ rm n2 (s.mem e2) := by intro hc; rw [if_pos hc] at b4; omega
          simp only [mem_rm] at c1 c2 c3 c4
          have d1 : n1 ∈ s.nodes ∧ n2 ∈ s.nodes ∧ e1 ∈ s.edges ∧ e2 ∈ s.edges := by grind
          have d2 : n1 ∈ s.mem e1 ∧ n2 ∈ s.mem e2 ∧ e1 ∈ s.memb n1 ∧ e2 ∈ s.memb n2 := by grind
          clear a1 a2 a3 a4 b1 b2 b3 b4 hlen hex hin hin2
          by_cases hn : n1 = n2
          · by_cases he : e1 = e2
            · subst hn; subst he
              constructor <;> simp only [] <;> grind
            · subst hn
              exfalso; have := (h6 e2 d1.2.2.2 n1 d2.2.1).2; grind
          · by_cases he : e1 = e2
            · subst he; exfalso; grind
            · have c1' : e2 ∉ s.memb n1 := by grind
              have c2' : e1 ∉ s.memb n2 := by grind
              have c3' : n2 ∉ s.mem e1 := by grind
              have c4' : n1 ∉ s.mem e2 := by grind
              clear c1 c2 c3 c4
              constructor <;> simp only [] <;> grind

theorem randomEdgeShuffle_inv {s : HG} (h : Inv s) (e1 e2 : PyId) (choice : List PyId) (r : HG × Outcome)
    (hr : randomEdgeShuffle s e1 e2 choice = some r) : Inv r.1 := by
  obtain ⟨hw, hf⟩ := h
  unfold randomEdgeShuffle at hr
  split at hr
  · cases hr; exact ⟨hw, hf⟩
  · split at hr
    · cases hr; exact ⟨hw, hf⟩
    · rename_i hex
      split at hr
      · cases hr; exact ⟨hw, hf⟩
      · rename_i hne
        simp only [] at hr
        split at hr
        · cases hr
        · rename_i hch
          cases hr
          refine ⟨?_, fresh_of_subset hf (by simp) (by simp)⟩
          obtain ⟨h1, h2, h3, h4, h5, h6, h7, h8, h9, h10, h11, h12⟩ := hw
          have hch' : choice.Nodup ∧ ∀ x ∈ choice, x ∈ s.mem e1 ∧ x ∉ s.mem e2 ∨ x ∈ s.mem e2 ∧ x ∉ s.mem e1 := by
            simp only [Classical.not_not] at hch
            refine ⟨hch.1, ?_⟩
            intro x hx; have := hch.2.2 x hx
            simp only [List.mem_append, List.mem_filter] at this; grind
          have he1 : e1 ∈ s.edges := by grind
          have he2 : e2 ∈ s.edges := by grind
          clear hch hex
          constructor <;> simp only []
          · exact h1
          · exact h2
          · exact h3
          · exact h4
          · intro n hn e he; simp only [upd_apply, List.mem_append, List.mem_filter] at he ⊢; grind
          · intro e he n hn; simp only [upd_apply, List.mem_append, List.mem_filter] at hn ⊢; grind
          · exact h7
          · exact h8
          · exact h9
          · exact h10
          · intro n hn; grind
          · intro e he
            simp only [upd_apply]
            split
            · rw [List.nodup_append]
              refine ⟨nodup_filter _ ?_, nodup_filter _ (h12 _ he1), ?_⟩
              · rw [List.nodup_append]
                refine ⟨nodup_filter _ (h12 _ he1), nodup_filter _ (h12 _ he2), ?_⟩
                intro a ha b hb; simp only [List.mem_filter] at ha hb; grind
              · intro a ha b hb; simp only [List.mem_append, List.mem_filter] at ha hb; grind
            · split
              · rw [List.nodup_append]
                refine ⟨hch'.1, nodup_filter _ (h12 _ he1), ?_⟩
                intro a ha b hb; simp only [List.mem_filter] at hb; grind
              · exact h12 e he

/-! ### composites -/

theorem update_inv {s : HG} (h : Inv s) (edges : Option (Fmt × List EdgeItem)) (nodes : List (PyId × Option Attrs)) :
    Inv (update s edges nodes).1 := by
  unfold update
  apply andThen_inv Inv
  · split
    · exact h
    · exact guardF_inv Inv _ _ h (addNodesFrom_inv h _ _)
  · intro t ht
    split
    · split
      · exact ht
      · exact guardF_inv Inv _ _ ht (addEdgesFrom_inv ht _ _ _)
    · exact ht

theorem inv_uid_succ {s : HG} (h : Inv s) : Inv { s with uid := s.uid + 1 } :=
  ⟨wf_uid_succ h.1, fresh_of_subset h.2 (fun _ x => x) (by simp)⟩

theorem mergeNewId_inv (rename : Rename) {s : HG} (h : Inv s) (g : List PyId) : Inv (mergeNewId rename s g).1 := by
  unfold mergeNewId
  cases rename with
  | first => simp only []; split <;> exact h
  | tuple =>
    simp only []; split
    · split <;> exact h
    · exact h
  | new => exact inv_uid_succ h
  | invalid => exact h

theorem mergeGroup_inv (rename : Rename) (rule : MergeRule) (mult : Option String) {s : HG} (h : Inv s)
    (g : List PyId) : Inv (mergeGroup rename rule mult s g).1 := by
  cases g with
  | nil => exact h
  | cons r t =>
    simp only [mergeGroup]
    have := mergeNewId_inv rename h (r :: t)
    split
    · rename_i heq; rw [heq] at this; exact this
    · rename_i heq; rw [heq] at this
      split <;> exact this

theorem mergeLoop_inv (rename : Rename) (rule : MergeRule) (mult : Option String) (gs : List (List PyId))
    {s : HG} (h : Inv s) (dups : List PyId) (news : List EdgeItem) :
    Inv (mergeLoop rename rule mult s gs dups news).1 := by
  induction gs generalizing s dups news with
  | nil => simpa [mergeLoop]
  | cons g gs ih =>
    simp only [mergeLoop]
    split
    · exact ih h _ _
    · have := mergeGroup_inv rename rule mult h g
      split
      · rename_i heq; rw [heq] at this; exact this
      · rename_i heq; rw [heq] at this; exact ih this _ _

theorem mergeDuplicateEdges_inv {s : HG} (h : Inv s) (rename : Rename) (rule : MergeRule) (mult : Option String)
    (r : HG × Outcome) (hr : mergeDuplicateEdges s rename rule mult = some r) : Inv r.1 := by
  unfold mergeDuplicateEdges at hr
  have hl := mergeLoop_inv rename rule mult (groupDups s) h [] []
  split at hr
  · cases hr
  · rename_i heq; rw [heq] at hl; cases hr; exact hl
  · rename_i heq; rw [heq] at hl; cases hr; exact hl
  · rename_i s' dups news heq
    rw [heq] at hl
    simp only [] at hr hl
    have h1 : Inv (guardF s' (removeEdgesFrom s' dups)).1 := guardF_inv Inv _ _ hl (removeEdgesFrom_inv hl _)
    split at hr
    · cases hr; exact h1
    · have h2 : Inv (guardF (guardF s' (removeEdgesFrom s' dups)).1
          (addEdgesFrom (guardF s' (removeEdgesFrom s' dups)).1 .f4 news [])).1 :=
        guardF_inv Inv _ _ h1 (addEdgesFrom_inv h1 _ _ _)
      split at hr
      · cases hr; exact h2
      · cases hr; exact h2

theorem lccInPlace_inv {s : HG} (h : Inv s) : Inv (lccInPlace s).1 := by
  unfold lccInPlace
  exact guardF_inv Inv _ _ h (removeNodesFrom_inv h _ _ _)

theorem relabel_inv {s : HG} (h : Inv s) (l : String) : Inv (relabel s l).1 := by
  unfold relabel
  simp only []
  split
  · exact h
  · exact setEdgeAttrs_inv (addEdgesFrom_inv (setNodeAttrs_inv (addNodesFrom_inv (clear_inv h false) _ _) _) _ _ _) _

theorem cleanup_inv {s : HG} (h : Inv s) (a b c d e : Bool) (r : HG × Outcome)
    (hr : cleanup s a b c d e = some r) : Inv r.1 := by
  unfold cleanup at hr
  simp only [Option.map_eq_some_iff] at hr
  obtain ⟨r0, hr0, hr⟩ := hr
  have h0 : Inv r0.1 := by
    split at hr0
    · cases hr0; exact h
    · exact mergeDuplicateEdges_inv h _ _ _ r0 hr0
  subst hr
  apply andThen_inv Inv
  · apply andThen_inv Inv
    · apply andThen_inv Inv
      · apply andThen_inv Inv _ _ h0
        intro t ht; split
        · exact ht
        · exact guardF_inv Inv _ _ ht (removeEdgesFrom_inv ht _)
      · intro t ht; split
        · exact ht
        · exact guardF_inv Inv _ _ ht (removeNodesFrom_inv ht _ _ _)
    · intro t ht; split
      · exact lccInPlace_inv ht
      · exact ht
  · intro t ht; split
    · exact relabel_inv ht _
    · exact ht

theorem frozen_inv {s : HG} (h : Inv s) : Inv { s with frozen := true } := by
  obtain ⟨⟨h1, h2, h3, h4, h5, h6, h7, h8, h9, h10, h11, h12⟩, hf⟩ := h
  exact ⟨by constructor <;> simp only [] <;> assumption, hf⟩

theorem stepCore_inv {s : HG} (h : Inv s) (op : Op) (r : HG × Outcome) (hr : stepCore s op = some r) : Inv r.1 := by
  cases op <;> simp only [stepCore, Option.some.injEq] at hr
  case addNode n a => subst hr; exact addNode_inv h n a
  case addNodesFrom items a => subst hr; exact addNodesFrom_inv h items a
  case removeNode n st re => subst hr; exact removeNode_inv h n st re
  case removeNodesFrom ns st re => subst hr; exact removeNodesFrom_inv h ns st re
  case addEdge ms idx a => subst hr; exact addEdge_inv h ms idx a
  case addEdgesFrom fmt items a => subst hr; exact addEdgesFrom_inv h fmt items a
  case addNodeToEdge e n => subst hr; exact addNodeToEdge_inv h e n
  case removeEdge e => subst hr; exact removeEdge_inv s e h
  case removeEdgesFrom es => subst hr; exact removeEdgesFrom_inv h es
  case removeNodeFromEdge e n re => subst hr; exact removeNodeFromEdge_inv h e n re
  case setNodeAttrs arg => subst hr; exact setNodeAttrs_inv h arg
  case setEdgeAttrs arg => subst hr; exact setEdgeAttrs_inv h arg
  case setNetAttr k v => subst hr; exact setNetAttr_inv h k v
  case doubleEdgeSwap n1 n2 e1 e2 => subst hr; exact doubleEdgeSwap_inv h n1 n2 e1 e2
  case randomEdgeShuffle e1 e2 ch => exact randomEdgeShuffle_inv h e1 e2 ch r hr
  case update es ns => subst hr; exact update_inv h es ns
  case clear b => subst hr; exact clear_inv h b
  case clearEdges => subst hr; exact clearEdges_inv h
  case mergeDuplicateEdges rn rule m => exact mergeDuplicateEdges_inv h rn rule m r hr
  case cleanup a b c d e => exact cleanup_inv h a b c d e r hr
  case relabel l => subst hr; exact relabel_inv h l
  case lccInPlace => subst hr; exact lccInPlace_inv h
  case freeze => subst hr; exact frozen_inv h

theorem step_inv {s : HG} (h : Inv s) (op : Op) (r : HG × Outcome) (hr : step s op = some r) : Inv r.1 := by
  unfold step at hr
  split at hr
  · cases hr; exact h
  · exact stepCore_inv h op r hr
end HG
end Xgi
