/-
  Helper lemmas for C05: random_edge_shuffle preserves every node degree and every edge size.
-/
import XgiModel.Lemmas.HGWF
import Mathlib.Tactic.Tauto

namespace Xgi
namespace HG

theorem length_filter_split {α} (p : α → Bool) (l : List α) :
    (l.filter p).length + (l.filter (fun x => !p x)).length = l.length := by
  induction l with
  | nil => rfl
  | cons a t ih =>
    by_cases h : p a = true
    · simp [List.filter, h]; omega
    · simp [List.filter, h]; omega

theorem length_filter_mem_of_nodup {α} [DecidableEq α] {l c : List α} (hl : l.Nodup) (hc : c.Nodup)
    (hsub : ∀ x ∈ c, x ∈ l) : (l.filter (fun x => decide (x ∈ c))).length = c.length := by
  apply List.Perm.length_eq
  apply (List.perm_ext_iff_of_nodup (nodup_filter _ hl) hc).mpr
  intro a; simp only [List.mem_filter, decide_eq_true_eq]
  exact ⟨fun h => h.2, fun h => ⟨hsub a h, h⟩⟩

theorem length_filter_not_mem {α} [DecidableEq α] {l c : List α} (hl : l.Nodup) (hc : c.Nodup)
    (hsub : ∀ x ∈ c, x ∈ l) : (l.filter (fun x => decide (x ∉ c))).length + c.length = l.length := by
  have h1 := length_filter_split (fun x => decide (x ∈ c)) l
  have h2 := length_filter_mem_of_nodup hl hc hsub
  have : (l.filter (fun x => !decide (x ∈ c))) = l.filter (fun x => decide (x ∉ c)) := by
    congr 1; funext x; simp
  rw [this] at h1; omega


theorem length_ins_rm {α : Type} [DecidableEq α] {l : List α} {x y : α} (hl : l.Nodup) (hx : x ∈ l) (hy : y ∉ l) :
    (ins y (rm x l)).length = l.length := by
  have h1 := length_rm_of_mem hl hx
  have h2 := length_ins y (rm x l)
  have : y ∉ rm x l := by intro h; exact hy (mem_rm.mp h).2
  rw [if_neg this] at h2; omega

/-- the shuffle in the interesting case (two distinct existing edges, admissible choice) -/
theorem shuffle_sizes_degrees {s : HG} (hw : WF s) (e1 e2 : PyId) (choice : List PyId) (t : HG) (o : Outcome)
    (hr : randomEdgeShuffle s e1 e2 choice = some (t, o)) :
    (∀ e, (t.mem e).length = (s.mem e).length) ∧ (∀ n ∈ s.nodes, (t.memb n).length = (s.memb n).length) ∧
    t.nodes = s.nodes ∧ t.edges = s.edges ∧ t.nattr = s.nattr ∧ t.eattr = s.eattr ∧ t.net = s.net ∧ t.uid = s.uid := by
  unfold randomEdgeShuffle at hr
  split at hr
  · cases hr; exact ⟨fun _ => rfl, fun _ _ => rfl, rfl, rfl, rfl, rfl, rfl, rfl⟩
  · split at hr
    · cases hr; exact ⟨fun _ => rfl, fun _ _ => rfl, rfl, rfl, rfl, rfl, rfl, rfl⟩
    · rename_i hex
      split at hr
      · cases hr; exact ⟨fun _ => rfl, fun _ _ => rfl, rfl, rfl, rfl, rfl, rfl, rfl⟩
      · rename_i hne
        simp only [] at hr
        split at hr
        · cases hr
        · rename_i hch
          cases hr
          simp only [Classical.not_not] at hch hex
          obtain ⟨h1, h2, h3, h4, h5, h6, h7, h8, h9, h10, h11, h12⟩ := hw
          have he1 : e1 ∈ s.edges := by
            by_cases h : e1 ∈ s.edges
            · exact h
            · exact absurd (Or.inl h) hex
          have he2 : e2 ∈ s.edges := by
            by_cases h : e2 ∈ s.edges
            · exact h
            · exact absurd (Or.inr h) hex
          have n1 := h12 e1 he1
          have n2 := h12 e2 he2
          -- abbreviations
          generalize hboth : (s.mem e1).filter (fun x => decide (x ∈ s.mem e2)) = both at *
          generalize hr1 : (s.mem e1).filter (fun x => decide (x ∉ both)) = r1 at *
          generalize hr2 : (s.mem e2).filter (fun x => decide (x ∉ both)) = r2 at *
          have hb : ∀ x, x ∈ both ↔ x ∈ s.mem e1 ∧ x ∈ s.mem e2 := by intro x; rw [← hboth]; simp
          have hr1m : ∀ x, x ∈ r1 ↔ x ∈ s.mem e1 ∧ x ∉ s.mem e2 := by intro x; rw [← hr1]; simp [hb]; tauto
          have hr2m : ∀ x, x ∈ r2 ↔ x ∈ s.mem e2 ∧ x ∉ s.mem e1 := by intro x; rw [← hr2]; simp [hb]; tauto
          have nb : both.Nodup := by rw [← hboth]; exact nodup_filter _ n1
          have nr1 : r1.Nodup := by rw [← hr1]; exact nodup_filter _ n1
          have nr2 : r2.Nodup := by rw [← hr2]; exact nodup_filter _ n2
          have npool : (r1 ++ r2).Nodup := by
            rw [List.nodup_append]; refine ⟨nr1, nr2, ?_⟩
            intro a ha b hb' hab; subst hab
            exact ((hr1m a).mp ha).2 ((hr2m a).mp hb').1
          -- |mem e1| = |both| + |r1|, |mem e2| = |both| + |r2|
          have sz1 : both.length + r1.length = (s.mem e1).length := by
            have := length_filter_split (fun x => decide (x ∈ s.mem e2)) (s.mem e1)
            rw [hboth] at this
            have e : (s.mem e1).filter (fun x => !decide (x ∈ s.mem e2)) = r1 := by
              rw [← hr1]; apply List.filter_congr; intro x hx; simp [hb, hx]
            rw [e] at this; exact this
          have sz2 : both.length + r2.length = (s.mem e2).length := by
            have := length_filter_split (fun x => decide (x ∈ s.mem e1)) (s.mem e2)
            have e1' : ((s.mem e2).filter (fun x => decide (x ∈ s.mem e1))).length = both.length := by
              apply List.Perm.length_eq
              apply (List.perm_ext_iff_of_nodup (nodup_filter _ n2) nb).mpr
              intro a; simp [hb]; tauto
            have e2' : (s.mem e2).filter (fun x => !decide (x ∈ s.mem e1)) = r2 := by
              rw [← hr2]; apply List.filter_congr; intro x hx; simp [hb, hx]
            rw [e2'] at this; omega
          have szc := length_filter_not_mem npool hch.1 hch.2.2
          refine ⟨?_, ?_, rfl, rfl, rfl, rfl, rfl, rfl⟩
          · intro e; simp only [upd_apply]
            split
            · rename_i h; subst h; simp only [List.length_append] at szc ⊢; omega
            · split
              · rename_i _ h; subst h; simp only [List.length_append]; omega
              · rfl
          · intro n hn
            have hpool : ∀ x, x ∈ choice → x ∈ r1 ∨ x ∈ r2 := by
              intro x hx; have := hch.2.2 x hx; simpa using this
            by_cases c1 : n ∈ choice ∧ n ∈ r2
            · -- moves from e2 to e1
              have hnr1 : n ∉ r1 := fun h => ((hr2m n).mp c1.2).2 ((hr1m n).mp h).1
              have a1 : e2 ∈ s.memb n := (h6 e2 he2 n ((hr2m n).mp c1.2).1).2
              have a2 : e1 ∉ s.memb n := fun h => ((hr2m n).mp c1.2).2 (h5 n hn e1 h).2
              simp only [c1, and_self, if_true, hnr1, and_false, if_false]
              exact length_ins_rm (h11 n hn) a1 a2
            · by_cases c2 : (n ∈ r1 ++ r2 ∧ n ∉ choice) ∧ n ∈ r1
              · have a1 : e1 ∈ s.memb n := (h6 e1 he1 n ((hr1m n).mp c2.2).1).2
                have a2 : e2 ∉ s.memb n := fun h => ((hr1m n).mp c2.2).2 (h5 n hn e2 h).2
                have c2' : n ∈ List.filter (fun x => decide (x ∉ choice)) (r1 ++ r2) ∧ n ∈ r1 := by
                  refine ⟨?_, c2.2⟩; simp only [List.mem_filter, decide_eq_true_eq]; exact c2.1
                simp only [c1, if_false, c2', and_self, if_true]
                exact length_ins_rm (h11 n hn) a1 a2
              · have c2' : ¬ (n ∈ List.filter (fun x => decide (x ∉ choice)) (r1 ++ r2) ∧ n ∈ r1) := by
                  intro h; apply c2; refine ⟨?_, h.2⟩
                  have := h.1; simp only [List.mem_filter, decide_eq_true_eq] at this; exact this
                simp only [c1, if_false, c2']
end HG
end Xgi
