/-
  Helper lemmas for C04: additions keep every existing edge (id, position, members, attributes).
-/
import XgiModel.Lemmas.HGWF

namespace Xgi
namespace HG

/-- `t` extends `s` by additions only: the edge list of `s` is a prefix of `t`'s, and every edge of `s`
    has the same members, the same attribute dict and still an attribute record -/
def Keeps (s t : HG) : Prop :=
  (∃ l, t.edges = s.edges ++ l) ∧
  ∀ e ∈ s.edges, t.mem e = s.mem e ∧ t.eattr e = s.eattr e ∧ (e ∈ s.eattrK → e ∈ t.eattrK)

theorem keeps_refl (s : HG) : Keeps s s := ⟨⟨[], by simp⟩, fun _ _ => ⟨rfl, rfl, id⟩⟩

theorem keeps_trans {s t u : HG} (h1 : Keeps s t) (h2 : Keeps t u) : Keeps s u := by
  obtain ⟨⟨l1, hl1⟩, k1⟩ := h1
  obtain ⟨⟨l2, hl2⟩, k2⟩ := h2
  refine ⟨⟨l1 ++ l2, by rw [hl2, hl1, List.append_assoc]⟩, ?_⟩
  intro e he
  have het : e ∈ t.edges := by rw [hl1]; simp [he]
  have a := k1 e he; have b := k2 e het
  exact ⟨b.1.trans a.1, b.2.1.trans a.2.1, fun h => b.2.2 (a.2.2 h)⟩

theorem link_mem_other (s : HG) (e n e' : PyId) (h : e' ≠ e) : (link s e n).mem e' = s.mem e' := by
  unfold link linkCore addNodeRaw; split <;> simp [upd, h]

theorem link_eattr (s : HG) (e n : PyId) : (link s e n).eattr = s.eattr ∧ (link s e n).eattrK = s.eattrK := by
  unfold link linkCore addNodeRaw; split <;> simp

theorem foldl_link_keep (ms : List PyId) (s : HG) (e e' : PyId) (h : e' ≠ e) :
    (ms.foldl (fun s n => link s e n) s).mem e' = s.mem e' ∧
    (ms.foldl (fun s n => link s e n) s).eattr = s.eattr ∧
    (ms.foldl (fun s n => link s e n) s).eattrK = s.eattrK := by
  induction ms generalizing s with
  | nil => exact ⟨rfl, rfl, rfl⟩
  | cons m ms ih =>
    simp only [List.foldl_cons]
    have := ih (link s e m)
    refine ⟨by rw [this.1, link_mem_other s e m e' h], by rw [this.2.1, (link_eattr s e m).1],
            by rw [this.2.2, (link_eattr s e m).2]⟩

theorem addEdgeAt_keeps (s : HG) (e : PyId) (ms : List PyId) (a : Attrs) (he : e ∉ s.edges) :
    Keeps s (addEdgeAt s e ms a) := by
  refine ⟨⟨[e], (addEdgeAt_edges s e ms a).1⟩, ?_⟩
  intro e' he'
  have hne : e' ≠ e := fun h => he (h ▸ he')
  unfold addEdgeAt
  have := foldl_link_keep ms (updEdgeAttr (newEdgeAttr (newEdgeRaw s e) e) e a) e e' hne
  refine ⟨by rw [this.1]; simp [updEdgeAttr, newEdgeAttr, newEdgeRaw, upd, hne],
          by rw [this.2.1]; simp [updEdgeAttr, newEdgeAttr, newEdgeRaw, upd, hne], ?_⟩
  intro hk; rw [this.2.2]; simp [updEdgeAttr, newEdgeAttr, newEdgeRaw, hk]

theorem keeps_of_eq_edges {s t : HG} (he : t.edges = s.edges) (hm : t.mem = s.mem) (ha : t.eattr = s.eattr)
    (hk : t.eattrK = s.eattrK) : Keeps s t :=
  ⟨⟨[], by simp [he]⟩, fun e _ => ⟨by rw [hm], by rw [ha], by rw [hk]; exact id⟩⟩

theorem bumpUid_keeps (s : HG) (i : PyId) : Keeps s (bumpUid s i) := by
  unfold bumpUid; split
  · split
    · exact keeps_of_eq_edges rfl rfl rfl rfl
    · exact keeps_refl s
  · exact keeps_refl s

theorem addEdge_keeps {s : HG} (h : Inv s) (ms : List PyId) (idx : Option PyId) (a : Attrs) :
    Keeps s (addEdge s ms idx a).1 := by
  cases idx with
  | some i =>
    unfold addEdge; split
    · exact keeps_refl s
    · simp only []
      split
      · exact keeps_refl s
      · rename_i hi
        exact keeps_trans (addEdgeAt_keeps s i _ a hi) (bumpUid_keeps _ i)
  | none =>
    unfold addEdge; split
    · exact keeps_refl s
    · simp only []
      exact keeps_trans (s := s) (t := { s with uid := s.uid + 1 }) (keeps_of_eq_edges rfl rfl rfl rfl)
        (addEdgeAt_keeps _ _ _ a (uid_not_mem h.2))

theorem addEdgesItem_keeps (fmt : Fmt) (attr : Attrs) (s : HG) (it : EdgeItem) (h : Inv s) :
    Keeps s (addEdgesItem fmt attr s it).1 := by
  unfold addEdgesItem
  by_cases hx : fmt.explicit = true
  · simp only [hx, if_true]
    split
    · exact keeps_refl s
    · rename_i hi
      split
      · exact keeps_refl s
      · exact keeps_trans (addEdgeAt_keeps s _ _ _ hi) (bumpUid_keeps _ _)
  · simp only [hx]
    simp only [Bool.false_eq_true, if_false]
    have k0 : Keeps s { s with uid := s.uid + 1 } := keeps_of_eq_edges rfl rfl rfl rfl
    split
    · exact k0
    · split
      · exact k0
      · exact keeps_trans k0 (addEdgeAt_keeps _ _ _ _ (uid_not_mem h.2))

/-- lifting through `bulk`: the invariant and `Keeps s₀ ·` travel together -/
theorem bulk_keeps {α : Type} (f : HG → α → HG × Outcome)
    (hf : ∀ s a, Inv s → Inv (f s a).1 ∧ Keeps s (f s a).1) (l : List α) {s : HG} (h : Inv s) :
    Keeps s (bulk f s l).1 := by
  have := bulk_inv (fun t => Inv t ∧ Keeps s t) f
    (fun t a ht => ⟨(hf t a ht.1).1, keeps_trans ht.2 (hf t a ht.1).2⟩) l (s := s) ⟨h, keeps_refl s⟩
  exact this.2

theorem addEdgesFrom_keeps {s : HG} (h : Inv s) (fmt : Fmt) (items : List EdgeItem) (attr : Attrs) :
    Keeps s (addEdgesFrom s fmt items attr).1 := by
  have key : Keeps s (bulk (addEdgesItem fmt attr) s items).1 :=
    bulk_keeps _ (fun t a ht => ⟨addEdgesItem_inv fmt attr t a ht, addEdgesItem_keeps fmt attr t a ht⟩) items h
  unfold addEdgesFrom
  split
  · split
    · exact key
    · split
      · exact keeps_refl s
      · exact key
  · exact key

theorem addNodesFrom_keeps {s : HG} (h : Inv s) (items : List (PyId × Option Attrs)) (attr : Attrs) :
    Keeps s (addNodesFrom s items attr).1 := by
  apply bulk_keeps _ _ items h
  intro t it ht
  refine ⟨addNodesItem_inv attr t it ht, ?_⟩
  obtain ⟨n, od⟩ := it
  unfold addNodesItem; simp only []; split
  · exact keeps_refl t
  · unfold updNodeAttr addNodeRaw; split <;> exact keeps_of_eq_edges rfl rfl rfl rfl

/-- `add_node_to_edge` with a *new* edge ID -/
theorem addNodeToEdge_new_keeps (s : HG) (e n : PyId) (he : e ∉ s.edges) : Keeps s (addNodeToEdge s e n).1 := by
  unfold addNodeToEdge; split
  · exact keeps_refl s
  · simp only []
    have k1 : Keeps s (newEdgeAttr (newEdgeRaw s e) e) := by
      refine ⟨⟨[e], rfl⟩, fun e' he' => ?_⟩
      have hne : e' ≠ e := fun h => he (h ▸ he')
      refine ⟨by simp [newEdgeAttr, newEdgeRaw, upd, hne], by simp [newEdgeAttr, newEdgeRaw, upd, hne], ?_⟩
      intro hk; simp [newEdgeAttr, newEdgeRaw, hk]
    have k2 := keeps_trans k1 (bumpUid_keeps _ e)
    refine ⟨⟨[e], by simp [newEdgeAttr, newEdgeRaw]⟩, fun e' he' => ?_⟩
    have hne : e' ≠ e := fun h => he (h ▸ he')
    have a := k2.2 e' he'
    refine ⟨by rw [link_mem_other _ e n e' hne]; exact a.1, by rw [(link_eattr _ e n).1]; exact a.2.1,
            by rw [(link_eattr _ e n).2]; exact a.2.2⟩

theorem andThen_keeps {s : HG} (r : HG × Outcome) (f : HG → HG × Outcome)
    (hr : Inv r.1 ∧ Keeps s r.1) (hf : ∀ t, Inv t → Keeps t (f t).1) : Keeps s (andThen r f).1 := by
  unfold andThen; split
  · exact hr.2
  · exact keeps_trans hr.2 (hf _ hr.1)

theorem update_keeps {s : HG} (h : Inv s) (edges : Option (Fmt × List EdgeItem)) (nodes : List (PyId × Option Attrs)) :
    Keeps s (update s edges nodes).1 := by
  unfold update
  apply andThen_keeps
  · split
    · exact ⟨h, keeps_refl s⟩
    · unfold guardF; split
      · exact ⟨h, keeps_refl s⟩
      · exact ⟨addNodesFrom_inv h _ _, addNodesFrom_keeps h _ _⟩
  · intro t ht
    split
    · split
      · exact keeps_refl _
      · unfold guardF; split
        · exact keeps_refl _
        · exact addEdgesFrom_keeps ht _ _ _
    · exact keeps_refl _
end HG
end Xgi
