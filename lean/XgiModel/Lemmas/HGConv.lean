/-
  Helper lemmas for Props/C04P.lean: runs of converter call lists, and the edge IDs of a rebuilt network.
-/
import XgiModel.Core.HGConv
import XgiModel.Props.C01

namespace Xgi.HG
open Xgi Xgi.C01

/-- a run that stops at the first raising call only visits reachable states -/
theorem runStop_reachable (ops : List Op) {s t : HG} {o : Outcome} (h : Reachable s)
    (hr : runStop s ops = some (t, o)) : Reachable t := by
  induction ops generalizing s o with
  | nil => simp [runStop] at hr; rw [← hr.1]; exact h
  | cons op ops ih =>
    simp only [runStop] at hr
    split at hr
    · cases hr
    · rename_i s' k hs
      cases hr
      exact Reachable.step (r := (t, .err k)) h hs
    · rename_i s' o' hne hs
      split at hr
      · cases hr
      · rename_i t' o'' hrs
        cases hr
        exact ih (Reachable.step (r := (s', o')) h hs) hrs

theorem wf_net {t : HG} (h : WF t) (a : Attrs) : WF { t with net := a } := by
  obtain ⟨h1, h2, h3, h4, h5, h6, h7, h8, h9, h10, h11, h12⟩ := h
  constructor <;> assumption

theorem inv_net {t : HG} (h : Inv t) (a : Attrs) : Inv { t with net := a } :=
  ⟨wf_net h.1 a, fun k hk => h.2 k hk⟩

theorem addNodesItem_edges (attr : Attrs) (s : HG) (it : PyId × Option Attrs) :
    (addNodesItem attr s it).1.edges = s.edges := by
  obtain ⟨n, od⟩ := it
  unfold addNodesItem; simp only []; split
  · rfl
  · unfold updNodeAttr addNodeRaw; split <;> rfl

theorem bulk_edges_eq {α : Type} (f : HG → α → HG × Outcome) (hf : ∀ s a, (f s a).1.edges = s.edges)
    (l : List α) (s : HG) : (bulk f s l).1.edges = s.edges :=
  bulk_inv (fun t => t.edges = s.edges) f (fun t a ht => by rw [hf t a]; exact ht) l rfl

theorem addEdgesItem_edges_sub (attr : Attrs) (s : HG) (it : EdgeItem) :
    ∀ e ∈ (addEdgesItem .f4 attr s it).1.edges, e ∈ s.edges ∨ it.idx = some e := by
  intro e he
  unfold addEdgesItem at he
  simp only [Fmt.explicit, if_true] at he
  split at he
  · exact Or.inl he
  · split at he
    · exact Or.inl he
    · rename_i hne hn
      simp only [bumpUid_edges, (addEdgeAt_edges _ _ _ _).1, List.mem_append, List.mem_singleton] at he
      rcases he with he | he
      · exact Or.inl he
      · right
        cases hi : it.idx with
        | none => simp [hi] at hn
        | some i => simp [hi] at he; rw [he]

theorem bulk_edges_sub (attr : Attrs) (items : List EdgeItem) (s : HG) :
    ∀ e ∈ (bulk (addEdgesItem .f4 attr) s items).1.edges, e ∈ s.edges ∨ ∃ it ∈ items, it.idx = some e := by
  induction items generalizing s with
  | nil => intro e he; exact Or.inl (by simpa [bulk] using he)
  | cons a t ih =>
    intro e he
    simp only [bulk] at he
    have h1 := addEdgesItem_edges_sub attr s a
    split at he
    · rename_i s' k heq; rw [heq] at h1
      rcases h1 e he with h | h
      · exact Or.inl h
      · exact Or.inr ⟨a, by simp, h⟩
    · rename_i s' o _ heq; rw [heq] at h1
      rcases ih s' e he with h | ⟨it, hit, h⟩
      · rcases h1 e h with h | h
        · exact Or.inl h
        · exact Or.inr ⟨a, by simp, h⟩
      · exact Or.inr ⟨it, by simp [hit], h⟩

theorem runStop_two {s t : HG} {a b : Op} {o : Outcome} (hr : runStop s [a, b] = some (t, o)) :
    ∃ r1, step s a = some r1 ∧ (t = r1.1 ∨ ∃ r2, step r1.1 b = some r2 ∧ t = r2.1) := by
  simp only [runStop] at hr
  split at hr
  · cases hr
  · rename_i s' k hs; cases hr; exact ⟨_, hs, Or.inl rfl⟩
  · rename_i s' o' _ hs
    refine ⟨_, hs, Or.inr ?_⟩
    split at hr
    · cases hr
    · rename_i t' o'' hrs
      cases hr
      split at hrs
      · cases hrs
      · rename_i s'' k hs2; cases hrs; exact ⟨_, hs2, rfl⟩
      · rename_i s'' o3 _ hs2; cases hrs; exact ⟨_, hs2, rfl⟩

/-- the rebuilt network has no edge ID the source does not have -/
theorem rebuild_edges_sub (s : HG) {t : HG} {o : Outcome} (hr : runStop HG.empty (rebuildOps s) = some (t, o)) :
    ∀ e ∈ t.edges, e ∈ s.edges := by
  have hn : (addNodesFrom HG.empty (rebuildNodeItems s) []).1.edges = [] :=
    bulk_edges_eq _ (addNodesItem_edges []) _ _
  have key : ∀ u : HG, u.edges = [] → ∀ e ∈ (addEdgesFrom u .f4 (rebuildEdgeItems s) []).1.edges, e ∈ s.edges := by
    intro u hu e he
    have : (addEdgesFrom u .f4 (rebuildEdgeItems s) []).1 = (bulk (addEdgesItem .f4 []) u (rebuildEdgeItems s)).1 := by
      unfold addEdgesFrom; split <;> first | rfl | (rename_i h _ ; cases h)
    rw [this] at he
    rcases bulk_edges_sub [] (rebuildEdgeItems s) u e he with h | ⟨it, hit, h⟩
    · rw [hu] at h; cases h
    · unfold rebuildEdgeItems at hit
      simp only [List.mem_map] at hit
      obtain ⟨e', he', rfl⟩ := hit
      simp only [Option.some.injEq] at h
      rw [← h]; exact he'
  obtain ⟨r1, h1, hcase⟩ := runStop_two hr
  have e1 : r1.1.edges = [] := by
    simp only [step, stepCore] at h1
    split at h1
    · cases h1; rfl
    · cases h1; exact hn
  rcases hcase with rfl | ⟨r2, h2, rfl⟩
  · intro e he; rw [e1] at he; cases he
  · simp only [step, stepCore] at h2
    split at h2
    · cases h2; intro e he; rw [e1] at he; cases he
    · cases h2; exact key r1.1 e1

end Xgi.HG
