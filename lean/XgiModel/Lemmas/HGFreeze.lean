/-
  Helper definitions and lemmas for C18 (frozen semantics of the undirected model).
-/
import XgiModel.Core.HG

namespace Xgi.C18
open Xgi Xgi.HG

/-- the Python method (or library function) each op stands for -/
def pyName : Op → String
  | .addNode .. => "add_node" | .addNodesFrom .. => "add_nodes_from" | .removeNode .. => "remove_node"
  | .removeNodesFrom .. => "remove_nodes_from" | .addEdge .. => "add_edge" | .addEdgesFrom .. => "add_edges_from"
  | .addNodeToEdge .. => "add_node_to_edge" | .removeEdge .. => "remove_edge" | .removeEdgesFrom .. => "remove_edges_from"
  | .removeNodeFromEdge .. => "remove_node_from_edge" | .setNodeAttrs .. => "set_node_attributes"
  | .setEdgeAttrs .. => "set_edge_attributes" | .setNetAttr .. => "__setitem__" | .doubleEdgeSwap .. => "double_edge_swap"
  | .randomEdgeShuffle .. => "random_edge_shuffle" | .update .. => "update" | .clear .. => "clear"
  | .clearEdges => "clear_edges" | .mergeDuplicateEdges .. => "merge_duplicate_edges" | .cleanup .. => "cleanup"
  | .relabel .. => "convert_labels_to_integers" | .lccInPlace => "largest_connected_hypergraph" | .freeze => "freeze"

/-- same nodes, edges, members, memberships, attribute-record keys and frozen flag -/
def SameStruct (s t : HG) : Prop :=
  t.nodes = s.nodes ∧ t.edges = s.edges ∧ t.mem = s.mem ∧ t.memb = s.memb ∧
  t.nattrK = s.nattrK ∧ t.eattrK = s.eattrK ∧ t.frozen = s.frozen

theorem SameStruct.refl (s : HG) : SameStruct s s := ⟨rfl, rfl, rfl, rfl, rfl, rfl, rfl⟩
theorem SameStruct.trans {s t u : HG} (a : SameStruct s t) (b : SameStruct t u) : SameStruct s u := by
  obtain ⟨a1, a2, a3, a4, a5, a6, a7⟩ := a
  obtain ⟨b1, b2, b3, b4, b5, b6, b7⟩ := b
  exact ⟨b1.trans a1, b2.trans a2, b3.trans a3, b4.trans a4, b5.trans a5, b6.trans a6, b7.trans a7⟩

/-! the remaining ops are either non-structural (attribute setters) or library functions built from the
    disabled methods; on a frozen hypergraph none of them changes the structure -/

theorem guardF_frozen (s : HG) (r : HG × Outcome) (hf : s.frozen = true) : guardF s r = (s, .err .lib) := by
  unfold guardF; simp [hf]

theorem bulk_same {α : Type} (f : HG → α → HG × Outcome) (hf : ∀ s a, SameStruct s (f s a).1) (l : List α) (s : HG) :
    SameStruct s (bulk f s l).1 := by
  induction l generalizing s with
  | nil => exact SameStruct.refl s
  | cons a t ih =>
    simp only [bulk]
    have h1 := hf s a
    split
    · rename_i s' k heq; rw [heq] at h1; exact h1
    · rename_i s' o _ heq; rw [heq] at h1; exact h1.trans (ih s')

theorem foldl_same {α : Type} (f : HG → α → HG) (hf : ∀ s a, SameStruct s (f s a)) (l : List α) (s : HG) :
    SameStruct s (l.foldl f s) := by
  induction l generalizing s with
  | nil => exact SameStruct.refl s
  | cons a t ih => exact (hf s a).trans (ih _)

theorem updNodeAttr_same (s : HG) (n : PyId) (a : Attrs) : SameStruct s (updNodeAttr s n a) := ⟨rfl, rfl, rfl, rfl, rfl, rfl, rfl⟩
theorem updEdgeAttr_same (s : HG) (n : PyId) (a : Attrs) : SameStruct s (updEdgeAttr s n a) := ⟨rfl, rfl, rfl, rfl, rfl, rfl, rfl⟩

theorem setNodeAttrs_same (s : HG) (arg : AttrArg) : SameStruct s (setNodeAttrs s arg).1 := by
  unfold setNodeAttrs
  cases arg with
  | dictName vals name => exact bulk_same _ (fun s p => by split <;> first | exact updNodeAttr_same _ _ _ | exact SameStruct.refl _) _ _
  | constName v name => exact foldl_same _ (fun s n => updNodeAttr_same _ _ _) _ _
  | dictOfDict vals => exact bulk_same _ (fun s p => by split <;> first | exact updNodeAttr_same _ _ _ | exact SameStruct.refl _) _ _
  | badNoName => exact SameStruct.refl _

theorem setEdgeAttrs_same (s : HG) (arg : AttrArg) : SameStruct s (setEdgeAttrs s arg).1 := by
  unfold setEdgeAttrs
  cases arg with
  | dictName vals name => exact bulk_same _ (fun s p => by split <;> first | exact updEdgeAttr_same _ _ _ | exact SameStruct.refl _) _ _
  | constName v name => exact foldl_same _ (fun s n => updEdgeAttr_same _ _ _) _ _
  | dictOfDict vals => exact bulk_same _ (fun s p => by split <;> first | exact updEdgeAttr_same _ _ _ | exact SameStruct.refl _) _ _
  | badNoName => exact SameStruct.refl _

theorem mergeNewId_same (rename : Rename) (s : HG) (g : List PyId) : SameStruct s (mergeNewId rename s g).1 := by
  unfold mergeNewId
  cases rename with
  | first => simp only []; split <;> exact SameStruct.refl _
  | tuple =>
    simp only []; split
    · split <;> exact SameStruct.refl _
    · exact SameStruct.refl _
  | new => exact ⟨rfl, rfl, rfl, rfl, rfl, rfl, rfl⟩
  | invalid => exact SameStruct.refl _

theorem mergeGroup_same (rename : Rename) (rule : MergeRule) (mult : Option String) (s : HG) (g : List PyId) :
    SameStruct s (mergeGroup rename rule mult s g).1 := by
  cases g with
  | nil => exact SameStruct.refl _
  | cons r t =>
    simp only [mergeGroup]
    have := mergeNewId_same rename s (r :: t)
    split
    · rename_i heq; rw [heq] at this; exact this
    · rename_i heq; rw [heq] at this
      split <;> exact this

theorem mergeLoop_same (rename : Rename) (rule : MergeRule) (mult : Option String) (gs : List (List PyId))
    (s : HG) (dups : List PyId) (news : List EdgeItem) : SameStruct s (mergeLoop rename rule mult s gs dups news).1 := by
  induction gs generalizing s dups news with
  | nil => exact SameStruct.refl _
  | cons g gs ih =>
    simp only [mergeLoop]
    split
    · exact ih _ _ _
    · have := mergeGroup_same rename rule mult s g
      split
      · rename_i heq; rw [heq] at this; exact this
      · rename_i heq; rw [heq] at this; exact this.trans (ih _ _ _)

theorem merge_frozen_same (s : HG) (hf : s.frozen = true) (rename : Rename) (rule : MergeRule) (mult : Option String)
    (r : HG × Outcome) (hr : mergeDuplicateEdges s rename rule mult = some r) : SameStruct s r.1 := by
  unfold mergeDuplicateEdges at hr
  have hl := mergeLoop_same rename rule mult (groupDups s) s [] []
  split at hr
  · cases hr
  · rename_i heq; rw [heq] at hl; cases hr; exact hl
  · rename_i heq; rw [heq] at hl; cases hr; exact hl
  · rename_i s' dups news heq
    rw [heq] at hl
    have hf' : s'.frozen = true := by rw [hl.2.2.2.2.2.2]; exact hf
    simp only [guardF_frozen s' _ hf'] at hr
    simp only [Outcome.isErr, if_true] at hr
    cases hr; exact hl

theorem andThen_frozen_same (s : HG) (r : HG × Outcome) (f : HG → HG × Outcome)
    (hr : SameStruct s r.1) (hf : ∀ t, SameStruct s t → SameStruct s (f t).1) : SameStruct s (andThen r f).1 := by
  unfold andThen; split
  · exact hr
  · exact hf _ hr

theorem lcc_frozen_same (s t : HG) (hf : s.frozen = true) (hs : SameStruct s t) : SameStruct s (lccInPlace t).1 := by
  have hf' : t.frozen = true := by rw [hs.2.2.2.2.2.2]; exact hf
  unfold lccInPlace
  simp only [guardF_frozen t _ hf']; exact hs

theorem relabel_frozen_same (s t : HG) (hf : s.frozen = true) (hs : SameStruct s t) (l : String) :
    SameStruct s (relabel t l).1 := by
  have hf' : t.frozen = true := by rw [hs.2.2.2.2.2.2]; exact hf
  unfold relabel; simp [hf']; exact hs

end Xgi.C18
