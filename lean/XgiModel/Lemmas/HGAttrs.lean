/-
  Exact effect of the attribute setters (`set_node_attributes`, `set_edge_attributes`): helper lemmas for
  Props/C05.lean.  The bulk loop touches only the attribute dict of the IDs it names that exist; IDs that do
  not exist give a warning and are skipped; the call never raises.
-/
import XgiModel.Core.HG

namespace Xgi
namespace HG

/-- everything but the node attribute dicts is the same -/
structure SameButNattr (s r : HG) : Prop where
  nodes : r.nodes = s.nodes
  edges : r.edges = s.edges
  mem : r.mem = s.mem
  memb : r.memb = s.memb
  nattrK : r.nattrK = s.nattrK
  eattrK : r.eattrK = s.eattrK
  eattr : r.eattr = s.eattr
  net : r.net = s.net
  uid : r.uid = s.uid
  frozen : r.frozen = s.frozen

/-- everything but the edge attribute dicts is the same -/
structure SameButEattr (s r : HG) : Prop where
  nodes : r.nodes = s.nodes
  edges : r.edges = s.edges
  mem : r.mem = s.mem
  memb : r.memb = s.memb
  nattrK : r.nattrK = s.nattrK
  eattrK : r.eattrK = s.eattrK
  nattr : r.nattr = s.nattr
  net : r.net = s.net
  uid : r.uid = s.uid
  frozen : r.frozen = s.frozen

/-- the updates of `vals` that name `n`, applied in order -/
def applyFor {β : Type} (g : β → Attrs) (vals : List (PyId × β)) (n : PyId) (a : Attrs) : Attrs :=
  (vals.filter (fun p => p.1 = n)).foldl (fun a p => Attrs.update a (g p.2)) a

def nodeSetStep {β : Type} (g : β → Attrs) (s : HG) (p : PyId × β) : HG × Outcome :=
  if p.1 ∈ s.nattrK then (updNodeAttr s p.1 (g p.2), .ok) else (s, .warned)

def edgeSetStep {β : Type} (g : β → Attrs) (s : HG) (p : PyId × β) : HG × Outcome :=
  if p.1 ∈ s.eattrK then (updEdgeAttr s p.1 (g p.2), .ok) else (s, .warned)

theorem ok_join_ite (c : Prop) [Decidable c] :
    Outcome.ok.join (if c then Outcome.ok else Outcome.warned) = if c then Outcome.ok else Outcome.warned := by
  split <;> rfl
theorem warned_join_ite (c : Prop) [Decidable c] :
    Outcome.warned.join (if c then Outcome.ok else Outcome.warned) = Outcome.warned := by
  split <;> rfl

theorem bulk_nodeSet {β : Type} (g : β → Attrs) (vals : List (PyId × β)) (s : HG) :
    SameButNattr s (bulk (nodeSetStep g) s vals).1 ∧
    (∀ n, (bulk (nodeSetStep g) s vals).1.nattr n =
      if n ∈ s.nattrK then applyFor g vals n (s.nattr n) else s.nattr n) ∧
    (bulk (nodeSetStep g) s vals).2 = (if vals.all (fun p => p.1 ∈ s.nattrK) then .ok else .warned) := by
  induction vals generalizing s with
  | nil => exact ⟨by constructor <;> rfl, by intro n; simp [bulk, applyFor], by simp [bulk]⟩
  | cons p vals ih =>
    by_cases hp : p.1 ∈ s.nattrK
    · have hstep : nodeSetStep g s p = (updNodeAttr s p.1 (g p.2), .ok) := by simp [nodeSetStep, hp]
      obtain ⟨h1, h2, h3⟩ := ih (updNodeAttr s p.1 (g p.2))
      simp only [bulk, hstep]
      refine ⟨?_, ?_, ?_⟩
      · obtain ⟨a1, a2, a3, a4, a5, a6, a7, a8, a9, a10⟩ := h1
        constructor <;> simp_all [updNodeAttr]
      · intro n
        rw [h2 n]
        simp only [updNodeAttr, upd_apply, applyFor, List.filter_cons]
        by_cases hn : n ∈ s.nattrK
        · by_cases he : p.1 = n
          · subst he; simp [hn]
          · have : ¬ n = p.1 := fun h => he h.symm
            simp [hn, he, this]
        · have : ¬ n = p.1 := by rintro rfl; exact hn hp
          simp [hn, this]
      · rw [h3]; simp only [List.all_cons, hp, decide_true, Bool.true_and]
        exact ok_join_ite _
    · have hstep : nodeSetStep g s p = (s, .warned) := by simp [nodeSetStep, hp]
      obtain ⟨h1, h2, h3⟩ := ih s
      simp only [bulk, hstep]
      refine ⟨h1, ?_, ?_⟩
      · intro n; rw [h2 n]
        by_cases hn : n ∈ s.nattrK
        · have : ¬ p.1 = n := by rintro rfl; exact hp hn
          simp [hn, applyFor, this]
        · simp [hn]
      · rw [h3]; simp only [List.all_cons, hp, decide_false, Bool.false_and]
        exact warned_join_ite _

theorem bulk_edgeSet {β : Type} (g : β → Attrs) (vals : List (PyId × β)) (s : HG) :
    SameButEattr s (bulk (edgeSetStep g) s vals).1 ∧
    (∀ e, (bulk (edgeSetStep g) s vals).1.eattr e =
      if e ∈ s.eattrK then applyFor g vals e (s.eattr e) else s.eattr e) ∧
    (bulk (edgeSetStep g) s vals).2 = (if vals.all (fun p => p.1 ∈ s.eattrK) then .ok else .warned) := by
  induction vals generalizing s with
  | nil => exact ⟨by constructor <;> rfl, by intro n; simp [bulk, applyFor], by simp [bulk]⟩
  | cons p vals ih =>
    by_cases hp : p.1 ∈ s.eattrK
    · have hstep : edgeSetStep g s p = (updEdgeAttr s p.1 (g p.2), .ok) := by simp [edgeSetStep, hp]
      obtain ⟨h1, h2, h3⟩ := ih (updEdgeAttr s p.1 (g p.2))
      simp only [bulk, hstep]
      refine ⟨?_, ?_, ?_⟩
      · obtain ⟨a1, a2, a3, a4, a5, a6, a7, a8, a9, a10⟩ := h1
        constructor <;> simp_all [updEdgeAttr]
      · intro n
        rw [h2 n]
        simp only [updEdgeAttr, upd_apply, applyFor, List.filter_cons]
        by_cases hn : n ∈ s.eattrK
        · by_cases he : p.1 = n
          · subst he; simp [hn]
          · have : ¬ n = p.1 := fun h => he h.symm
            simp [hn, he, this]
        · have : ¬ n = p.1 := by rintro rfl; exact hn hp
          simp [hn, this]
      · rw [h3]; simp only [List.all_cons, hp, decide_true, Bool.true_and]
        exact ok_join_ite _
    · have hstep : edgeSetStep g s p = (s, .warned) := by simp [edgeSetStep, hp]
      obtain ⟨h1, h2, h3⟩ := ih s
      simp only [bulk, hstep]
      refine ⟨h1, ?_, ?_⟩
      · intro n; rw [h2 n]
        by_cases hn : n ∈ s.eattrK
        · have : ¬ p.1 = n := by rintro rfl; exact hp hn
          simp [hn, applyFor, this]
        · simp [hn]
      · rw [h3]; simp only [List.all_cons, hp, decide_false, Bool.false_and]
        exact warned_join_ite _

/-- with pairwise different keys (a Python dict) only the one entry for `n` matters -/
theorem applyFor_unique {β : Type} (g : β → Attrs) (vals : List (PyId × β)) (n : PyId) (v : β) (a : Attrs)
    (hk : (vals.map (·.1)).Nodup) (hv : (n, v) ∈ vals) : applyFor g vals n a = Attrs.update a (g v) := by
  induction vals generalizing a with
  | nil => cases hv
  | cons p vals ih =>
    simp only [List.map_cons, List.nodup_cons] at hk
    simp only [applyFor, List.filter_cons]
    rcases List.mem_cons.mp hv with h | h
    · subst h
      have : vals.filter (fun q => decide (q.1 = n)) = [] := by
        rw [List.filter_eq_nil_iff]; intro q hq; simp only [decide_eq_true_eq]; rintro rfl
        exact hk.1 (List.mem_map.mpr ⟨q, hq, rfl⟩)
      simp [this]
    · have hne : ¬ p.1 = n := by
        rintro rfl; exact hk.1 (List.mem_map.mpr ⟨(p.1, v), h, rfl⟩)
      simp only [hne, decide_false, Bool.false_eq_true, if_false]
      exact ih a hk.2 h

theorem applyFor_absent {β : Type} (g : β → Attrs) (vals : List (PyId × β)) (n : PyId) (a : Attrs)
    (hn : n ∉ vals.map (·.1)) : applyFor g vals n a = a := by
  have : vals.filter (fun q => decide (q.1 = n)) = [] := by
    rw [List.filter_eq_nil_iff]; intro q hq; simp only [decide_eq_true_eq]; rintro rfl
    exact hn (List.mem_map.mpr ⟨q, hq, rfl⟩)
  simp [applyFor, this]

/-- the constant form: every node gets the update once -/
theorem foldl_updNodeAttr (a : Attrs) (l : List PyId) (s : HG) (hl : l.Nodup) :
    SameButNattr s (l.foldl (fun s n => updNodeAttr s n a) s) ∧
    ∀ n, (l.foldl (fun s n => updNodeAttr s n a) s).nattr n = if n ∈ l then Attrs.update (s.nattr n) a else s.nattr n := by
  induction l generalizing s with
  | nil => exact ⟨by constructor <;> rfl, by intro n; simp⟩
  | cons m l ih =>
    obtain ⟨h1, h2⟩ := ih (updNodeAttr s m a) (List.nodup_cons.mp hl).2
    have hm : m ∉ l := (List.nodup_cons.mp hl).1
    simp only [List.foldl_cons]
    refine ⟨?_, ?_⟩
    · obtain ⟨a1, a2, a3, a4, a5, a6, a7, a8, a9, a10⟩ := h1
      constructor <;> simp_all [updNodeAttr]
    · intro n; rw [h2 n]; simp only [updNodeAttr, upd_apply, List.mem_cons]
      by_cases h : n = m
      · subst h; simp [hm]
      · simp [h]

theorem foldl_updEdgeAttr (a : Attrs) (l : List PyId) (s : HG) (hl : l.Nodup) :
    SameButEattr s (l.foldl (fun s n => updEdgeAttr s n a) s) ∧
    ∀ n, (l.foldl (fun s n => updEdgeAttr s n a) s).eattr n = if n ∈ l then Attrs.update (s.eattr n) a else s.eattr n := by
  induction l generalizing s with
  | nil => exact ⟨by constructor <;> rfl, by intro n; simp⟩
  | cons m l ih =>
    obtain ⟨h1, h2⟩ := ih (updEdgeAttr s m a) (List.nodup_cons.mp hl).2
    have hm : m ∉ l := (List.nodup_cons.mp hl).1
    simp only [List.foldl_cons]
    refine ⟨?_, ?_⟩
    · obtain ⟨a1, a2, a3, a4, a5, a6, a7, a8, a9, a10⟩ := h1
      constructor <;> simp_all [updEdgeAttr]
    · intro n; rw [h2 n]; simp only [updEdgeAttr, upd_apply, List.mem_cons]
      by_cases h : n = m
      · subst h; simp [hm]
      · simp [h]

end HG
end Xgi
