/-
  C09 — connected components: the fuel `len(H.nodes)` suffices for the level-synchronous BFS, `comp v n` is the
  reachability class of `n`, and the number of components found by the loop of `number_connected_components`
  does not depend on the order in which the nodes are visited.
-/
import XgiModel.C09.LemmasPerm

set_option linter.unusedSectionVars false
set_option linter.unusedSimpArgs false

namespace Xgi.C09

section bfs
variable {v : View}

theorem mem_expand {S : List PyId} {m : PyId} :
    m ∈ expand v S ↔ m ∈ v.nodes ∧ (m ∈ S ∨ ∃ x ∈ S, m ∈ neighbors v x) := by
  simp [expand]

theorem mem_ball_zero {n m : PyId} : m ∈ ball v 0 n ↔ m ∈ v.nodes ∧ m = n := by
  simp [ball]

theorem mem_ball_succ {k : Nat} {n m : PyId} :
    m ∈ ball v (k + 1) n ↔ m ∈ v.nodes ∧ (m ∈ ball v k n ∨ ∃ x ∈ ball v k n, m ∈ neighbors v x) := mem_expand

theorem ball_sub_nodes {k : Nat} {n m : PyId} (h : m ∈ ball v k n) : m ∈ v.nodes := by
  cases k with
  | zero => exact (mem_ball_zero.1 h).1
  | succ k => exact (mem_ball_succ.1 h).1

theorem ball_mono {k : Nat} {n m : PyId} (h : m ∈ ball v k n) : m ∈ ball v (k + 1) n :=
  mem_ball_succ.2 ⟨ball_sub_nodes h, Or.inl h⟩

theorem ball_le {k k' : Nat} {n m : PyId} (hk : k ≤ k') (h : m ∈ ball v k n) : m ∈ ball v k' n := by
  induction hk with
  | refl => exact h
  | step _ ih => exact ball_mono ih

/-- every ball is a filter of the node list -/
theorem ball_eq_filter (k : Nat) (n : PyId) : ball v k n = v.nodes.filter (fun m => decide (m ∈ ball v k n)) := by
  have key : ∀ p : PyId → Bool, v.nodes.filter p = v.nodes.filter (fun m => decide (m ∈ v.nodes.filter p)) := by
    intro p
    apply List.filter_congr
    intro m hm
    simp [hm]
  cases k with
  | zero => exact key _
  | succ k => exact key _

theorem filter_length_lt {α : Type} {l : List α} {p q : α → Bool} (hpq : ∀ a ∈ l, p a = true → q a = true)
    (hex : ∃ a ∈ l, q a = true ∧ ¬ p a = true) : (l.filter p).length < (l.filter q).length := by
  induction l with
  | nil => obtain ⟨a, ha, _⟩ := hex; cases ha
  | cons b t ih =>
    have hle : (t.filter p).length ≤ (t.filter q).length := by
      clear ih hex
      induction t with
      | nil => simp
      | cons c u ihu =>
        have h1 := hpq c (by simp)
        have h2 := ihu (fun a ha => hpq a (by
          rcases List.mem_cons.1 ha with h | h
          · exact List.mem_cons.2 (Or.inl h)
          · exact List.mem_cons.2 (Or.inr (List.mem_cons.2 (Or.inr h)))))
        by_cases hp : p c = true <;> by_cases hq : q c = true <;> simp [List.filter_cons, hp, hq] at h1 ⊢ <;> omega
    obtain ⟨a, ha, hqa, hpa⟩ := hex
    rcases List.mem_cons.1 ha with rfl | hat
    · simp [List.filter_cons, hqa, hpa]; omega
    · have := ih (fun a ha => hpq a (List.mem_cons.2 (Or.inr ha))) ⟨a, hat, hqa, hpa⟩
      have h1 := hpq b (by simp)
      by_cases hp : p b = true <;> by_cases hq : q b = true <;> simp [List.filter_cons, hp, hq] at h1 ⊢ <;> omega

/-- level `k` adds nothing new -/
def Stable (v : View) (k : Nat) (n : PyId) : Prop := ∀ m, m ∈ ball v (k + 1) n → m ∈ ball v k n

theorem stable_succ {k : Nat} {n : PyId} (h : Stable v k n) : Stable v (k + 1) n := by
  intro m hm
  obtain ⟨hN, h1 | ⟨x, hx, hmx⟩⟩ := mem_ball_succ.1 hm
  · exact h1
  · exact mem_ball_succ.2 ⟨hN, Or.inr ⟨x, h x hx, hmx⟩⟩

theorem stable_add {k : Nat} {n : PyId} (h : Stable v k n) (d : Nat) : Stable v (k + d) n := by
  induction d with
  | zero => exact h
  | succ d ih => exact stable_succ ih

theorem length_lt_of_not_stable {k : Nat} {n : PyId} (h : ¬ Stable v k n) :
    (ball v k n).length < (ball v (k + 1) n).length := by
  rw [ball_eq_filter k n, ball_eq_filter (k + 1) n]
  apply filter_length_lt
  · intro a _ ha
    simp only [decide_eq_true_eq] at ha ⊢
    exact ball_mono ha
  · unfold Stable at h
    have : ∃ m, m ∈ ball v (k + 1) n ∧ m ∉ ball v k n := by
      apply Classical.byContradiction
      intro hc
      apply h
      intro m hm
      apply Classical.byContradiction
      intro hm2
      exact hc ⟨m, hm, hm2⟩
    obtain ⟨m, hm1, hm2⟩ := this
    exact ⟨m, ball_sub_nodes hm1, by simpa using hm1, by simpa using hm2⟩

theorem stable_or_grows (n : PyId) (k : Nat) : (∃ j, j < k ∧ Stable v j n) ∨ k ≤ (ball v k n).length := by
  induction k with
  | zero => exact Or.inr (Nat.zero_le _)
  | succ k ih =>
    rcases ih with ⟨j, hj, hs⟩ | hlen
    · exact Or.inl ⟨j, Nat.lt_succ_of_lt hj, hs⟩
    · by_cases hs : Stable v k n
      · exact Or.inl ⟨k, Nat.lt_succ_self k, hs⟩
      · have := length_lt_of_not_stable hs
        exact Or.inr (by omega)

/-- the fuel `len(H.nodes)` suffices: the BFS has stopped growing -/
theorem stable_at_fuel (n : PyId) : Stable v v.nodes.length n := by
  rcases stable_or_grows (v := v) n (v.nodes.length + 1) with ⟨j, hj, hs⟩ | hlen
  · have : v.nodes.length = j + (v.nodes.length - j) := by omega
    rw [this]
    exact stable_add hs _
  · have : (ball v (v.nodes.length + 1) n).length ≤ v.nodes.length := by
      rw [ball_eq_filter]; exact List.length_filter_le _ _
    omega

theorem comp_closed {n m x : PyId} (hm : m ∈ comp v n) (hx : x ∈ v.nodes) (hmx : x ∈ neighbors v m) : x ∈ comp v n :=
  stable_at_fuel n x (mem_ball_succ.2 ⟨hx, Or.inr ⟨m, hm, hmx⟩⟩)

/-- reachability through shared edges, inside the node set -/
inductive Reach (v : View) : PyId → PyId → Prop where
  | refl {n : PyId} : n ∈ v.nodes → Reach v n n
  | step {n x m : PyId} : Reach v n x → m ∈ v.nodes → m ∈ neighbors v x → Reach v n m

theorem ball_reach {k : Nat} {n m : PyId} (h : m ∈ ball v k n) : Reach v n m := by
  induction k generalizing m with
  | zero => obtain ⟨hN, rfl⟩ := mem_ball_zero.1 h; exact .refl hN
  | succ k ih =>
    obtain ⟨hN, h1 | ⟨x, hx, hmx⟩⟩ := mem_ball_succ.1 h
    · exact ih h1
    · exact .step (ih hx) hN hmx

theorem reach_comp {n m : PyId} (h : Reach v n m) : m ∈ comp v n := by
  induction h with
  | refl hN => exact ball_le (Nat.zero_le _) (mem_ball_zero.2 ⟨hN, rfl⟩)
  | step _ hN hmx ih => exact comp_closed ih hN hmx

/-- `_plain_bfs(H, n)` is exactly the set of nodes reachable from `n` -/
theorem mem_comp {n m : PyId} : m ∈ comp v n ↔ Reach v n m := ⟨ball_reach, reach_comp⟩

theorem reach_left {n m : PyId} (h : Reach v n m) : n ∈ v.nodes := by
  induction h with
  | refl hN => exact hN
  | step _ _ _ ih => exact ih

theorem reach_right {n m : PyId} (h : Reach v n m) : m ∈ v.nodes := by
  cases h with
  | refl hN => exact hN
  | step _ hN _ => exact hN

theorem reach_trans {a b c : PyId} (h1 : Reach v a b) (h2 : Reach v b c) : Reach v a c := by
  induction h2 with
  | refl _ => exact h1
  | step _ hN hmx ih => exact .step ih hN hmx

theorem neighbors_symm (hw : VWF v) {n m : PyId} (h : m ∈ neighbors v n) : n ∈ neighbors v m := by
  obtain ⟨hne, e, he, hme⟩ := mem_neighbors.1 h
  obtain ⟨hE, hne'⟩ := (hw.inc n e).1 he
  exact mem_neighbors.2 ⟨fun hc => hne hc.symm, e, (hw.inc m e).2 ⟨hE, hme⟩, hne'⟩

theorem reach_symm (hw : VWF v) {n m : PyId} (h : Reach v n m) : Reach v m n := by
  induction h with
  | refl hN => exact .refl hN
  | step hnx hN hmx ih => exact reach_trans (.step (.refl hN) (reach_right hnx) (neighbors_symm hw hmx)) ih

theorem comp_symm (hw : VWF v) {a b : PyId} : b ∈ comp v a ↔ a ∈ comp v b := by
  simp only [mem_comp]; exact ⟨reach_symm hw, reach_symm hw⟩

theorem comp_class (hw : VWF v) {a b : PyId} (h : b ∈ comp v a) (x : PyId) : x ∈ comp v b ↔ x ∈ comp v a := by
  simp only [mem_comp] at h ⊢
  exact ⟨fun hx => reach_trans h hx, fun hx => reach_trans (reach_symm hw h) hx⟩

/-! the loop -/

theorem compLoop_length_congr {v v' : View} (hc : ∀ a x, x ∈ comp v' a ↔ x ∈ comp v a) (l : List PyId) {s s' : List PyId}
    (h : ∀ x, x ∈ s' ↔ x ∈ s) : (compLoop v' l s').length = (compLoop v l s).length := by
  induction l generalizing s s' with
  | nil => rfl
  | cons a t ih =>
    simp only [compLoop, h a]
    split
    · exact ih h
    · simp only [List.length_cons]
      rw [ih (s := s ++ comp v a) (s' := s' ++ comp v' a) (fun x => by simp only [List.mem_append, h x, hc a x])]

theorem compLoop_length_perm (hw : VWF v) {l l' : List PyId} (h : l.Perm l') (s : List PyId) :
    (compLoop v l s).length = (compLoop v l' s).length := by
  induction h generalizing s with
  | nil => rfl
  | cons x _ ih =>
    simp only [compLoop]
    split
    · exact ih s
    · simp only [List.length_cons, ih]
  | swap x y l =>
    have cg := fun (s s' : List PyId) (h : ∀ z, z ∈ s' ↔ z ∈ s) => compLoop_length_congr (v := v) (v' := v) (fun _ _ => Iff.rfl) l h
    by_cases hx : x ∈ s <;> by_cases hy : y ∈ s
    · simp [compLoop, hx, hy]
    · simp [compLoop, hx, hy]
    · simp [compLoop, hx, hy]
    · by_cases hxy : y ∈ comp v x
      · have hyx : x ∈ comp v y := (comp_symm hw).1 hxy
        simp only [compLoop, hx, hy, hxy, hyx, List.mem_append, or_true, if_true, if_false, List.length_cons]
        rw [cg (s ++ comp v x) (s ++ comp v y) (fun z => by simp only [List.mem_append, comp_class hw hxy z])]
      · have hyx : x ∉ comp v y := fun hc => hxy ((comp_symm hw).1 hc)
        simp only [compLoop, hx, hy, hxy, hyx, List.mem_append, or_self, if_false, List.length_cons]
        rw [cg ((s ++ comp v x) ++ comp v y) ((s ++ comp v y) ++ comp v x) (fun z => by simp only [List.mem_append]; grind)]
  | trans _ _ ih1 ih2 => exact (ih1 s).trans (ih2 s)

theorem numComponents_perm' {v v' : View} (hw : VWF v) (hp : VPerm v v') : numComponents v' = numComponents v := by
  unfold numComponents components
  rw [compLoop_length_congr (v := v) (v' := v') (fun a x => (comp_perm hp a).mem_iff) v'.nodes (s := []) (s' := []) (fun _ => Iff.rfl)]
  exact compLoop_length_perm hw hp.nodes []

/-- every component listed by the loop is the BFS set of one of the nodes it was started from -/
theorem compLoop_sub (l s : List PyId) : ∀ c ∈ compLoop v l s, ∃ a ∈ l, c = comp v a := by
  induction l generalizing s with
  | nil => intro c hc; cases hc
  | cons a t ih =>
    intro c hc
    simp only [compLoop] at hc
    split at hc
    · obtain ⟨b, hb, rfl⟩ := ih s c hc; exact ⟨b, List.mem_cons_of_mem _ hb, rfl⟩
    · rcases List.mem_cons.1 hc with rfl | hc
      · exact ⟨a, List.mem_cons_self, rfl⟩
      · obtain ⟨b, hb, rfl⟩ := ih _ c hc; exact ⟨b, List.mem_cons_of_mem _ hb, rfl⟩

/-- the loop covers every visited node that was not already seen -/
theorem compLoop_cover (hN : ∀ a, a ∈ v.nodes → a ∈ comp v a) (l s : List PyId) (hl : ∀ a ∈ l, a ∈ v.nodes) :
    ∀ a ∈ l, a ∈ s ∨ ∃ c ∈ compLoop v l s, a ∈ c := by
  induction l generalizing s with
  | nil => intro a ha; cases ha
  | cons b t ih =>
    intro a ha
    have hl' : ∀ a ∈ t, a ∈ v.nodes := fun a h => hl a (List.mem_cons_of_mem _ h)
    simp only [compLoop]
    split
    · rcases List.mem_cons.1 ha with rfl | hat
      · exact Or.inl ‹_›
      · exact ih s hl' a hat
    · rcases List.mem_cons.1 ha with rfl | hat
      · exact Or.inr ⟨comp v a, List.mem_cons_self, hN a (hl a List.mem_cons_self)⟩
      · rcases ih (s ++ comp v b) hl' a hat with h | ⟨c, hc, hac⟩
        · rcases List.mem_append.1 h with h | h
          · exact Or.inl h
          · exact Or.inr ⟨comp v b, List.mem_cons_self, h⟩
        · exact Or.inr ⟨c, List.mem_cons_of_mem _ hc, hac⟩

theorem self_mem_comp {a : PyId} (h : a ∈ v.nodes) : a ∈ comp v a := reach_comp (.refl h)

end bfs

theorem vperm {h h' : Net} (hw : h.WF) (hr : Reorder h h') : VPerm (view h) (view h') := view_reorder hw.2.1 hr
theorem vwf {h : Net} (hw : h.WF) : VWF (view h) := view_wf hw.2.1

/-! ### model adequacy (moved here from Props/C09.lean: not invariance statements) -/

/-- the fuel `len(H.nodes)` given to the BFS suffices: the result is closed under taking neighbours, and it is
    exactly the set of nodes reachable from the source -/
theorem comp_fuel_suffices (h : Net) (n : PyId) :
    (∀ m x, m ∈ comp (view h) n → x ∈ (view h).nodes → x ∈ neighbors (view h) m → x ∈ comp (view h) n) ∧
    (∀ m, m ∈ comp (view h) n ↔ Reach (view h) n m) :=
  ⟨fun _ _ hm hx hmx => comp_closed hm hx hmx, fun _ => mem_comp⟩

/-- the loop of `connected_components` lists BFS sets of nodes and covers every node -/
theorem components_cover (h : Net) :
    (∀ c ∈ components (view h), ∃ a ∈ (view h).nodes, c = comp (view h) a) ∧
    (∀ a ∈ (view h).nodes, ∃ c ∈ components (view h), a ∈ c) := by
  refine ⟨compLoop_sub _ _, fun a ha => ?_⟩
  rcases compLoop_cover (fun a ha => self_mem_comp ha) (view h).nodes [] (fun _ h => h) a ha with h0 | h1
  · cases h0
  · exact h1

end Xgi.C09
