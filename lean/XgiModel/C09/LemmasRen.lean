/-
  C09 — relabelling side: every measure commutes with an injective renaming of nodes (π) and edge IDs (σ).
  Stated on views related by `VRen` (same order, labels mapped).
-/
import XgiModel.C09.Lemmas

set_option linter.unusedSectionVars false
set_option linter.unusedSimpArgs false

namespace Xgi.C09
open Function

section ren
variable {π σ : PyId → PyId} {v v' : View}

theorem degree_ren (hr : VRen π σ v v') (n : PyId) : degree v' (π n) = degree v n := by
  simp only [degree, hr.memb, List.length_map]

theorem size_ren (hr : VRen π σ v v') (e : PyId) : size v' (σ e) = size v e := by
  simp only [size, hr.mem, List.length_map]

theorem neighbors_ren (hπ : Injective π) (hr : VRen π σ v v') (n : PyId) :
    neighbors v' (π n) = (neighbors v n).map π := by
  unfold neighbors
  rw [hr.memb, List.flatMap_map]
  simp only [hr.mem]
  rw [← List.map_flatMap, dedup_map hπ, rm_map hπ]

theorem nodeDict_ren {β γ : Type} (hr : VRen π σ v v') {f : View → PyId → β} {f' : View → PyId → γ} (g : β → γ)
    (h : ∀ n, f' v' (π n) = g (f v n)) :
    nodeDict v' f' = (nodeDict v f).map (fun p => (π p.1, g p.2)) := by
  simp only [nodeDict, hr.nodes, List.map_map, Function.comp_def, h]

theorem edgeDict_ren {β γ : Type} (hr : VRen π σ v v') {f : View → PyId → β} {f' : View → PyId → γ} (g : β → γ)
    (h : ∀ e, f' v' (σ e) = g (f v e)) :
    edgeDict v' f' = (edgeDict v f).map (fun p => (σ p.1, g p.2)) := by
  simp only [edgeDict, hr.eids, List.map_map, Function.comp_def, h]

theorem avgNbrDeg_ren (hπ : Injective π) (hr : VRen π σ v v') (n : PyId) : avgNbrDeg v' (π n) = avgNbrDeg v n := by
  unfold avgNbrDeg
  simp only [neighbors_ren hπ hr, List.length_map, List.map_map, Function.comp_def, degree_ren hr]

theorem triCount_ren (hπ : Injective π) (hr : VRen π σ v v') (n : PyId) : triCount v' (π n) = triCount v n := by
  unfold triCount
  simp only [neighbors_ren hπ hr, List.flatMap_map, List.filter_map, Function.comp_def, mem_map_inj hπ,
    ← List.map_flatMap, List.length_map]

theorem clusteringCoef_ren (hπ : Injective π) (hr : VRen π σ v v') (n : PyId) :
    clusteringCoef v' (π n) = clusteringCoef v n := by
  unfold clusteringCoef
  simp only [neighbors_ren hπ hr, List.length_map, triCount_ren hπ hr]

theorem uvNum_ren (hσ : Injective σ) (hr : VRen π σ v v') (u w : PyId) : uvNum v' (π u) (π w) = uvNum v u w := by
  unfold uvNum
  simp only [hr.memb, List.filter_map, Function.comp_def, mem_map_inj hσ, List.length_map]

theorem uvDenom_ren (hσ : Injective σ) (hr : VRen π σ v v') (k : Kind) (u w : PyId) :
    uvDenom v' k (π u) (π w) = uvDenom v k u w := by
  cases k <;>
    simp only [uvDenom, hr.memb, List.filter_map, Function.comp_def, mem_map_inj hσ, List.length_map]

theorem twoNodeCC_ren (hπ : Injective π) (hσ : Injective σ) (hr : VRen π σ v v') (k : Kind) (n : PyId) :
    twoNodeCC v' k (π n) = twoNodeCC v k n := by
  unfold twoNodeCC
  simp only [neighbors_ren hπ hr, List.any_map, List.map_map, Function.comp_def, uvDenom_ren hσ hr, uvNum_ren hσ hr,
    List.length_map]

theorem pairs_map {α β : Type} (f : α → β) (l : List α) : pairs (l.map f) = (pairs l).map (fun p => (f p.1, f p.2)) := by
  induction l with
  | nil => rfl
  | cons a t ih => simp only [List.map_cons, pairs, ih, List.map_append, List.map_map, Function.comp_def]

theorem diff_ren (hπ : Injective π) (a b : List PyId) : diff (a.map π) (b.map π) = (diff a b).map π := by
  unfold diff
  simp only [List.filter_map, Function.comp_def, mem_map_inj hπ]

theorem nbrsOfSet_ren (hπ : Injective π) (hr : VRen π σ v v') (D : List PyId) :
    nbrsOfSet v' (D.map π) = (nbrsOfSet v D).map π := by
  unfold nbrsOfSet
  simp only [List.flatMap_map, neighbors_ren hπ hr]
  rw [← List.map_flatMap, dedup_map hπ]

theorem extraOverlap_ren (hπ : Injective π) (hr : VRen π σ v v') (e1 e2 : PyId) :
    extraOverlap v' (σ e1) (σ e2) = extraOverlap v e1 e2 := by
  unfold extraOverlap
  simp only [hr.mem, diff_ren hπ, nbrsOfSet_ren hπ hr, List.length_map, List.filter_map, Function.comp_def,
    mem_map_inj hπ]

theorem localCC_ren (hπ : Injective π) (hr : VRen π σ v v') (n : PyId) : localCC v' (π n) = localCC v n := by
  unfold localCC
  simp only [hr.memb, pairs_map, List.map_map, Function.comp_def, extraOverlap_ren hπ hr, List.length_map]

/-! components -/

theorem expand_ren (hπ : Injective π) (hr : VRen π σ v v') (S : List PyId) :
    expand v' (S.map π) = (expand v S).map π := by
  unfold expand
  simp only [hr.nodes, List.filter_map, Function.comp_def, List.any_map, neighbors_ren hπ hr, mem_map_inj hπ]

theorem ball_ren (hπ : Injective π) (hr : VRen π σ v v') (k : Nat) (n : PyId) :
    ball v' k (π n) = (ball v k n).map π := by
  induction k with
  | zero => simp only [ball, hr.nodes, List.filter_map, Function.comp_def, inj_eq hπ]
  | succ k ih => simp only [ball, ih, expand_ren hπ hr]

theorem comp_ren (hπ : Injective π) (hr : VRen π σ v v') (n : PyId) : comp v' (π n) = (comp v n).map π := by
  simp only [comp, hr.nodes, List.length_map, ball_ren hπ hr]

theorem compLoop_ren (hπ : Injective π) (hr : VRen π σ v v') (l seen : List PyId) :
    compLoop v' (l.map π) (seen.map π) = (compLoop v l seen).map (List.map π) := by
  induction l generalizing seen with
  | nil => rfl
  | cons a t ih =>
    simp only [List.map_cons, compLoop, mem_map_inj hπ]
    split
    · exact ih seen
    · rw [comp_ren hπ hr, ← List.map_append, ih]; rfl

theorem components_ren (hπ : Injective π) (hr : VRen π σ v v') :
    components v' = (components v).map (List.map π) := by
  unfold components
  rw [hr.nodes]
  exact compLoop_ren hπ hr v.nodes []

theorem numComponents_ren (hπ : Injective π) (hr : VRen π σ v v') : numComponents v' = numComponents v := by
  simp only [numComponents, components_ren hπ hr, List.length_map]

theorem isConnected_ren (hπ : Injective π) (hr : VRen π σ v v') : isConnected v' = isConnected v := by
  unfold isConnected
  rw [hr.nodes]
  cases hN : v.nodes with
  | nil => rfl
  | cons a t => simp only [List.map_cons, comp_ren hπ hr, List.length_map, List.length_cons]

theorem dist_ren (hπ : Injective π) (hr : VRen π σ v v') (n m : PyId) : dist v' (π n) (π m) = dist v n m := by
  simp only [dist, hr.nodes, List.length_map, ball_ren hπ hr, mem_map_inj hπ]

/-! density -/

theorem countSize_ren (hr : VRen π σ v v') (p : Nat → Bool) : countSize v' p = countSize v p := by
  simp only [countSize, hr.eids, List.filter_map, Function.comp_def, size_ren hr, List.length_map]

theorem density_ren (hr : VRen π σ v v') (o mo : Option Nat) (ign : Bool) : density v' o mo ign = density v o mo ign := by
  simp only [density, hr.nodes, hr.eids, List.length_map, countSize_ren hr]

theorem countedEdges_ren (hr : VRen π σ v v') (o mo : Option Nat) (ign : Bool) :
    countedEdges v' o mo ign = (countedEdges v o mo ign).map σ := by
  unfold countedEdges
  cases o <;> cases mo <;> cases ign <;>
    simp only [hr.eids, List.filter_map, Function.comp_def, size_ren hr, if_true, if_false, Bool.false_eq_true]

theorem incidenceDensity_ren (hr : VRen π σ v v') (o mo : Option Nat) (ign : Bool) :
    incidenceDensity v' o mo ign = incidenceDensity v o mo ign := by
  simp only [incidenceDensity, hr.nodes, hr.eids, List.length_map, countedEdges_ren hr, List.map_map,
    Function.comp_def, size_ren hr]

/-! maximal and duplicate edges -/

theorem sameSet_map {f : PyId → PyId} (hf : Injective f) (a b : List PyId) : sameSet (a.map f) (b.map f) = sameSet a b := by
  simp only [sameSet, List.all_map, Function.comp_def, mem_map_inj hf]

theorem foldl_inter_ren (hσ : Injective σ) (hr : VRen π σ v v') (ns A : List PyId) :
    (ns.map π).foldl (fun acc m => acc.filter (fun j => decide (j ∈ v'.memb m))) (A.map σ)
      = (ns.foldl (fun acc m => acc.filter (fun j => decide (j ∈ v.memb m))) A).map σ := by
  induction ns generalizing A with
  | nil => rfl
  | cons n t ih =>
    simp only [List.map_cons, List.foldl_cons, hr.memb, List.filter_map, Function.comp_def, mem_map_inj hσ]
    exact ih _

theorem common_ren (hσ : Injective σ) (hr : VRen π σ v v') (e : PyId) : common v' (σ e) = (common v e).map σ := by
  unfold common
  rw [hr.mem]
  cases v.mem e with
  | nil => rfl
  | cons n ns => simp only [List.map_cons, hr.memb]; exact foldl_inter_ren hσ hr ns _

theorem twins_ren (hπ : Injective π) (hr : VRen π σ v v') (e : PyId) : twins v' (σ e) = (twins v e).map σ := by
  simp only [twins, hr.eids, List.filter_map, Function.comp_def, hr.mem, sameSet_map hπ]

theorem isMaximal_ren (hπ : Injective π) (hσ : Injective σ) (hr : VRen π σ v v') (s : Bool) (e : PyId) :
    isMaximal v' s (σ e) = isMaximal v s e := by
  unfold isMaximal
  rw [common_ren hσ hr, twins_ren hπ hr, sameSet_map hσ]
  have : [σ e] = [e].map σ := rfl
  rw [this, sameSet_map hσ]

theorem maximal_ren (hπ : Injective π) (hσ : Injective σ) (hr : VRen π σ v v') (s : Bool) :
    maximal v' s = (maximal v s).map σ := by
  simp only [maximal, hr.eids, List.filter_map, Function.comp_def, isMaximal_ren hπ hσ hr]

theorem hasEmptyEdge_ren (hr : VRen π σ v v') : hasEmptyEdge v' = hasEmptyEdge v := by
  simp only [hasEmptyEdge, hr.eids, List.any_map, Function.comp_def, hr.mem, List.isEmpty_map]

theorem dupEdges_ren (hπ : Injective π) (hσ : Injective σ) (hr : VRen π σ v v') : dupEdges v' = (dupEdges v).map σ := by
  simp only [dupEdges, hr.eids, List.filter_map, Function.comp_def, List.any_map, hr.mem, sameSet_map hπ, ne_eq,
    inj_eq hσ]

/-! degree pairs and matrices -/

theorem degPairs_ren (hπ : Injective π) (hr : VRen π σ v v') : degPairs v' = degPairs v := by
  simp only [degPairs, hr.eids, List.flatMap_map, hr.mem, List.length_map, List.filter_map, Function.comp_def,
    List.map_map, degree_ren hr, ne_eq, inj_eq hπ]

theorem eidsOf_ren (hr : VRen π σ v v') (o : Option Nat) : eidsOf v' o = (eidsOf v o).map σ := by
  cases o <;> simp only [eidsOf, hr.eids, List.filter_map, Function.comp_def, size_ren hr]

theorem incEntry_ren (hπ : Injective π) (hr : VRen π σ v v') (n e : PyId) : incEntry v' (π n) (σ e) = incEntry v n e := by
  simp only [incEntry, hr.mem, mem_map_inj hπ]

theorem incMatrix_ren (hπ : Injective π) (hr : VRen π σ v v') (o : Option Nat) : incMatrix v' o = incMatrix v o := by
  simp only [incMatrix, hr.nodes, eidsOf_ren hr, List.map_map, Function.comp_def, incEntry_ren hπ hr]

theorem shared_ren (hπ : Injective π) (hr : VRen π σ v v') (o : Option Nat) (n m : PyId) :
    shared v' o (π n) (π m) = shared v o n m := by
  simp only [shared, eidsOf_ren hr, List.filter_map, Function.comp_def, hr.mem, mem_map_inj hπ, List.length_map]

theorem adjEntry_ren (hπ : Injective π) (hr : VRen π σ v v') (o : Option Nat) (s : Nat) (w : Bool) (n m : PyId) :
    adjEntry v' o s w (π n) (π m) = adjEntry v o s w n m := by
  simp only [adjEntry, shared_ren hπ hr, inj_eq hπ]

theorem adjMatrix_ren (hπ : Injective π) (hr : VRen π σ v v') (o : Option Nat) (s : Nat) (w : Bool) :
    adjMatrix v' o s w = adjMatrix v o s w := by
  simp only [adjMatrix, hr.nodes, List.map_map, Function.comp_def, adjEntry_ren hπ hr]

theorem lapEntry_ren (hπ : Injective π) (hr : VRen π σ v v') (d : Nat) (n m : PyId) :
    lapEntry v' d (π n) (π m) = lapEntry v d n m := by
  simp only [lapEntry, adjEntry_ren hπ hr, eidsOf_ren hr, List.filter_map, Function.comp_def, hr.mem,
    mem_map_inj hπ, List.length_map, inj_eq hπ]

theorem lapMatrix_ren (hπ : Injective π) (hr : VRen π σ v v') (d : Nat) : lapMatrix v' d = lapMatrix v d := by
  simp only [lapMatrix, hr.nodes, List.map_map, Function.comp_def, lapEntry_ren hπ hr]

end ren
end Xgi.C09
