/-
  C09 — structural measures of a hypergraph, written only with `=` / `∈` / `map` / `filter` / `length` /
  folds over IDs, together with the two transformations the property quantifies over:
  `rename π σ` (node labels by π, edge IDs by σ) and `Reorder` (any permutation of the node list, of the
  edge list and of every member list).

  The algorithms of xgi read a network through four accessors only: `H.nodes`, `H.edges`,
  `H.edges.members(dtype=dict)[e]` (= `H._edge[e]`) and `H.nodes.memberships()[n]` (= `H._node[n]`).
  `View` is that interface, `view h` builds it from the shared static network `Xgi.Net`, and every measure
  is a function of a `View`.  No Mathlib.
-/
import XgiModel.Net

namespace Xgi.C09

/-! ### the network as the algorithms see it -/

structure View where
  /-- `H.nodes` in view order -/
  nodes : List PyId
  /-- `H.edges` in view order -/
  eids : List PyId
  /-- `H.edges.members(dtype=dict)[e]` / `H._edge[e]` -/
  mem : PyId → List PyId
  /-- `H.nodes.memberships()[n]` / `H._node[n]` -/
  memb : PyId → List PyId

def view (h : Net) : View := ⟨h.nodes, h.edgeIds, h.members, h.memberships⟩

/-! ### the transformations -/

/-- relabel nodes by `π` and edge IDs by `σ`, in keys and member lists -/
def rename (π σ : PyId → PyId) (h : Net) : Net :=
  { nodes := h.nodes.map π, edges := h.edges.map (fun p => (σ p.1, p.2.map π)) }

/-- `h'` is `h` inserted in another order: the node list is permuted, every member list is permuted
    (`f e` is the new member list of edge `e`; edge IDs are unique so this is fully general) and the edge
    list is permuted. -/
structure Reorder (h h' : Net) : Prop where
  nodes : h'.nodes.Perm h.nodes
  edges : ∃ f : PyId → List PyId, (∀ p ∈ h.edges, (f p.1).Perm p.2) ∧
            h'.edges.Perm (h.edges.map (fun p => (p.1, f p.1)))

/-- a concrete reordering (everything reversed); used by the driver and by the non-vacuity examples -/
def reverseAll (h : Net) : Net :=
  { nodes := h.nodes.reverse, edges := (h.edges.map (fun p => (p.1, p.2.reverse))).reverse }

/-! ### degree, size, neighbours -/

/-- `H.nodes.degree[n]` = `len(H._node[n])` -/
def degree (v : View) (n : PyId) : Nat := (v.memb n).length
/-- `H.edges.size[e]` = `len(H._edge[e])` -/
def size (v : View) (e : PyId) : Nat := (v.mem e).length

/-- `H.nodes.neighbors(n)` = `{i for e in H._node[n] for i in H._edge[e]} - {n}` -/
def neighbors (v : View) (n : PyId) : List PyId := rm n (dedup ((v.memb n).flatMap v.mem))

/-- per-node dict, keyed in `H.nodes` order -/
def nodeDict {β} (v : View) (f : View → PyId → β) : List (PyId × β) := v.nodes.map (fun n => (n, f v n))
/-- per-edge dict, keyed in `H.edges` order -/
def edgeDict {β} (v : View) (f : View → PyId → β) : List (PyId × β) := v.eids.map (fun e => (e, f v e))

/-- `H.nodes.average_neighbor_degree[n]` -/
def avgNbrDeg (v : View) (n : PyId) : Rat :=
  let nb := neighbors v n
  if nb.length = 0 then 0 else ((nb.map (fun m => (degree v m : Rat))).sum) / (nb.length : Rat)

/-! ### the three clustering coefficients -/

/-- `A^3[n,n]` for the unweighted clique projection `A`: ordered pairs `(a, b)` of neighbours of `n`
    that are themselves adjacent -/
def triCount (v : View) (n : PyId) : Nat :=
  ((neighbors v n).flatMap (fun a => (neighbors v n).filter (fun b => decide (b ∈ neighbors v a)))).length

/-- `xgi.clustering_coefficient(H)[n]` = `0.5 * A^3[n,n] / (k (k-1) / 2)`, `nan_to_num` → 0 -/
def clusteringCoef (v : View) (n : PyId) : Rat :=
  let k := (neighbors v n).length
  if k * (k - 1) = 0 then 0 else (triCount v n : Rat) / ((k * (k - 1) : Nat) : Rat)

inductive Kind where
  | union | min | max
  deriving DecidableEq, Repr

/-- `len(m_u & m_v)` -/
def uvNum (v : View) (u w : PyId) : Nat := ((v.memb u).filter (fun e => decide (e ∈ v.memb w))).length
/-- the denominator of `_uv_cc` -/
def uvDenom (v : View) (k : Kind) (u w : PyId) : Nat :=
  match k with
  | .union => (v.memb u).length + ((v.memb w).filter (fun e => decide (e ∉ v.memb u))).length
  | .min => Nat.min (v.memb u).length (v.memb w).length
  | .max => Nat.max (v.memb u).length (v.memb w).length

/-- `xgi.two_node_clustering_coefficient(H, kind)[n]`; `none` is NaN (a zero denominator) -/
def twoNodeCC (v : View) (k : Kind) (n : PyId) : Option Rat :=
  let nb := neighbors v n
  if nb.any (fun w => uvDenom v k n w == 0) then none
  else some ((nb.map (fun w => (uvNum v n w : Rat) / (uvDenom v k n w : Rat) / (nb.length : Rat))).sum)

/-- `itertools.combinations(l, 2)` -/
def pairs {α} : List α → List (α × α)
  | [] => []
  | a :: t => t.map (fun b => (a, b)) ++ pairs t

/-- `set(a) - set(b)` -/
def diff (a b : List PyId) : List PyId := a.filter (fun x => decide (x ∉ b))
/-- `{i for d in D for i in H.nodes.neighbors(d)}` -/
def nbrsOfSet (v : View) (D : List PyId) : List PyId := dedup (D.flatMap (neighbors v))

/-- the "extra overlap" of two edges in `local_clustering_coefficient`
    (`D1`, `D2` are disjoint, so `len(D1.union(D2)) = len(D1) + len(D2)`) -/
def extraOverlap (v : View) (e1 e2 : PyId) : Rat :=
  let D1 := diff (v.mem e1) (v.mem e2)
  let D2 := diff (v.mem e2) (v.mem e1)
  if D1.length + D2.length = 0 then 0
  else ((((nbrsOfSet v D1).filter (fun x => decide (x ∈ D2))).length
          + ((nbrsOfSet v D2).filter (fun x => decide (x ∈ D1))).length : Nat) : Rat)
        / ((D1.length + D2.length : Nat) : Rat)

/-- `xgi.local_clustering_coefficient(H)[n]` with the members looked up BY EDGE ID
    (`members(dtype=dict)`; the repaired behaviour, finding F7) -/
def localCC (v : View) (n : PyId) : Rat :=
  let ev := v.memb n
  let dv := ev.length
  if dv ≤ 1 then 0
  else 2 * (((pairs ev).map (fun p => extraOverlap v p.1 p.2)).sum) / ((dv * (dv - 1) : Nat) : Rat)

/-! ### connected components and distances (level-synchronous BFS with fuel) -/

/-- one BFS level: everything already seen plus all neighbours of seen nodes -/
def expand (v : View) (S : List PyId) : List PyId :=
  v.nodes.filter (fun m => decide (m ∈ S) || S.any (fun x => decide (m ∈ neighbors v x)))

/-- nodes within distance `k` of `n` (`seen` of `_plain_bfs` after `k+1` rounds of its `while` loop) -/
def ball (v : View) : Nat → PyId → List PyId
  | 0, n => v.nodes.filter (fun m => decide (m = n))
  | k + 1, n => expand v (ball v k n)

/-- `_plain_bfs(H, n)`; the fuel `len(H.nodes)` suffices (theorem `comp_closed`) -/
def comp (v : View) (n : PyId) : List PyId := ball v v.nodes.length n

/-- the loop of `connected_components` / `number_connected_components` -/
def compLoop (v : View) : List PyId → List PyId → List (List PyId)
  | [], _ => []
  | a :: t, seen => if a ∈ seen then compLoop v t seen else comp v a :: compLoop v t (seen ++ comp v a)

def components (v : View) : List (List PyId) := compLoop v v.nodes []
def numComponents (v : View) : Nat := (components v).length
/-- `is_connected`: BFS from the first node reaches everything (`none`: no nodes, Python raises IndexError) -/
def isConnected (v : View) : Option Bool :=
  match v.nodes with
  | [] => none
  | a :: _ => some ((comp v a).length == v.nodes.length)

/-- hop distance (`single_source_shortest_path_length(H, n)[m]`); `none` is `inf` -/
def dist (v : View) (n m : PyId) : Option Nat :=
  (List.range (v.nodes.length + 1)).find? (fun k => decide (m ∈ ball v k n))

/-! ### density -/

def choose : Nat → Nat → Nat
  | _, 0 => 1
  | 0, _ + 1 => 0
  | n + 1, k + 1 => choose n k + choose n (k + 1)

inductive DRes where
  | val (q : Rat)
  | errLib      -- XGIError
  | errValue    -- ValueError
  deriving Repr, DecidableEq

/-- number of edges whose size satisfies `p` (`len(H.edges.filterby("order", …))`) -/
def countSize (v : View) (p : Nat → Bool) : Nat := (v.eids.filter (fun e => p (size v e))).length

/-- `unique_edge_sizes(H)` = `sorted(set(H.edges.size.aslist()))`: the sizes that occur, in increasing order (in a
    well-formed network a size is at most the number of nodes: `size_le_nodes`) -/
def uniqueEdgeSizes (v : View) : List Nat :=
  (List.range (v.nodes.length + 1)).filter (fun s => decide (0 < countSize v (· == s)))

def ratio (numer : Int) (denom : Int) : DRes := if denom = 0 then .val 0 else .val ((numer : Rat) / (denom : Rat))

/-- `xgi.density(H, order, max_order, ignore_singletons)` -/
def density (v : View) (order maxOrder : Option Nat) (ign : Bool) : DRes :=
  let n := v.nodes.length
  let m := v.eids.length
  if n < 1 then .errLib
  else if m < 1 then .val 0
  else match order, maxOrder with
    | none, none =>
      let numer : Int := m
      let denom : Int := (2 ^ n : Nat) - 1
      if ign then ratio (numer - countSize v (· == 1)) (denom - n) else ratio numer denom
    | none, some mo =>
      if mo ≥ n then .errValue
      else
        let numer : Int := countSize v (fun s => decide ((s : Int) - 1 ≤ mo))
        let denom : Int := (((List.range (mo + 1)).map (fun o => choose n (o + 1))).sum : Nat)
        if ign then ratio (numer - countSize v (· == 1)) (denom - n) else ratio numer denom
    | some d, _ =>
      if d ≥ n then .errValue
      else if ign && d == 0 then .val 0
      else ratio (countSize v (· == d + 1)) (choose n (d + 1))

/-- the edges counted by `incidence_density` -/
def countedEdges (v : View) (order maxOrder : Option Nat) (ign : Bool) : List PyId :=
  match order, maxOrder with
  | none, none => if ign then v.eids.filter (fun e => decide (size v e > 1)) else v.eids
  | none, some mo =>
    let es := v.eids.filter (fun e => decide ((size v e : Int) - 1 ≤ mo))
    if ign then es.filter (fun e => decide (size v e > 1)) else es
  | some d, _ => v.eids.filter (fun e => size v e == d + 1)

/-- `xgi.incidence_density(H, order, max_order, ignore_singletons)` -/
def incidenceDensity (v : View) (order maxOrder : Option Nat) (ign : Bool) : DRes :=
  let n := v.nodes.length
  if n < 1 then .errLib
  else if v.eids.length < 1 then .val 0
  else
    let bad := match order, maxOrder with
      | none, none => false
      | none, some mo => decide (mo ≥ n)
      | some d, _ => decide (d ≥ n)
    if bad then .errValue
    else if (match order with | some d => ign && d == 0 | none => false) then .val 0
    else
      let es := countedEdges v order maxOrder ign
      ratio (((es.map (size v)).sum : Nat) : Int) ((n * es.length : Nat) : Int)

/-! ### maximal and duplicate edges -/

/-- `a` and `b` have the same elements -/
def sameSet (a b : List PyId) : Bool := a.all (fun x => decide (x ∈ b)) && b.all (fun x => decide (x ∈ a))

/-- `reduce(lambda x, y: x & y, (H._node[n] for n in H._edge[e]))`; Python raises `TypeError` for an
    empty edge (see `hasEmptyEdge`) -/
def common (v : View) (e : PyId) : List PyId :=
  match v.mem e with
  | [] => []
  | n :: ns => ns.foldl (fun acc m => acc.filter (fun j => decide (j ∈ v.memb m))) (v.memb n)

/-- `dups[frozenset(H._edge[e])]`: all edges with the same member set as `e` -/
def twins (v : View) (e : PyId) : List PyId := v.eids.filter (fun j => sameSet (v.mem j) (v.mem e))

def isMaximal (v : View) (strict : Bool) (e : PyId) : Bool :=
  if strict then sameSet (common v e) [e] else sameSet (common v e) (twins v e)

/-- `H.edges.maximal(strict)` (as the set of IDs, listed in view order) -/
def maximal (v : View) (strict : Bool) : List PyId := v.eids.filter (isMaximal v strict)

def hasEmptyEdge (v : View) : Bool := v.eids.any (fun e => (v.mem e).isEmpty)

/-- edges that have a duplicate: another edge ID with the same member set (the union of the classes of
    size > 1 that `H.edges.duplicates()` forms; `duplicates` below is the function itself) -/
def dupEdges (v : View) : List PyId :=
  v.eids.filter (fun e => v.eids.any (fun j => decide (j ≠ e) && sameSet (v.mem j) (v.mem e)))

/-! `IDView.duplicates()` as the code runs it:
    ```
    for idx in self._id_dict: hashes[frozenset(self._bi_ids(idx))].append(idx)      # classes, in view order
    for _, edges in hashes.items():
        if len(edges) > 1:
            try: dups.extend(sorted(edges)[1:])                                      # all but the smallest ID
            except TypeError: dups.extend(edges[1:])                                 # all but the first inserted
    ``` -/

/-- Python's `a < b` between two IDs as far as `sorted()` needs it: ints numerically, strings by code
    points; `none` = `TypeError` (an int against a str).  Tuple IDs and `None` are outside the model (the
    driver does not answer `duplicates` for them). -/
def pyLt? : PyId → PyId → Option Bool
  | .atom (.int a), .atom (.int b) => some (decide (a < b))
  | .atom (.str a), .atom (.str b) => some (decide (a < b))
  | _, _ => none

/-- `sorted(l)` does not raise: every pair is comparable (a list with an int and a str always raises) -/
def sortable (l : List PyId) : Bool := l.all (fun x => l.all (fun y => (pyLt? x y).isSome))

/-- `sorted(l)[0]` of a sortable list: a left-to-right minimum scan -/
def minId : List PyId → Option PyId
  | [] => none
  | a :: t => some (t.foldl (fun m x => if pyLt? x m = some true then x else m) a)

/-- the one ID of a class (listed in view order) that `duplicates()` does NOT report -/
def keptOf (cls : List PyId) : Option PyId := if sortable cls then minId cls else cls.head?

/-- `H.edges.duplicates()` as a set, listed in view order -/
def duplicates (v : View) : List PyId :=
  v.eids.filter (fun e => decide ((twins v e).length > 1) && decide (keptOf (twins v e) ≠ some e))

/-! ### the degree pairs of `degree_assortativity(kind="uniform", exact=True)` -/

def degPairs (v : View) : List (Nat × Nat) :=
  v.eids.flatMap (fun e =>
    let ms := v.mem e
    if ms.length > 1 then
      ms.flatMap (fun a => (ms.filter (fun b => decide (a ≠ b))).map (fun b => (degree v a, degree v b)))
    else [])

/-! ### matrices as functions of IDs -/

/-- the edges of the given order (`H.edges.filterby("order", d)`), all edges for `none` -/
def eidsOf (v : View) (order : Option Nat) : List PyId :=
  match order with
  | none => v.eids
  | some d => v.eids.filter (fun e => size v e == d + 1)

/-- `incidence_matrix(H, order)[row n, column e]` -/
def incEntry (v : View) (n e : PyId) : Int := if n ∈ v.mem e then 1 else 0
def incMatrix (v : View) (order : Option Nat) : List (List Int) :=
  v.nodes.map (fun n => (eidsOf v order).map (fun e => incEntry v n e))

/-- number of edges (of the given order) containing both `n` and `m`: `(I Iᵀ)[n, m]` -/
def shared (v : View) (order : Option Nat) (n m : PyId) : Nat :=
  ((eidsOf v order).filter (fun e => decide (n ∈ v.mem e) && decide (m ∈ v.mem e))).length

/-- `adjacency_matrix(H, order, s, weighted)[n, m]` -/
def adjEntry (v : View) (order : Option Nat) (s : Nat) (weighted : Bool) (n m : PyId) : Int :=
  if n = m then 0
  else
    let c := shared v order n m
    if c ≥ s then (if weighted then (c : Int) else 1) else 0
def adjMatrix (v : View) (order : Option Nat) (s : Nat) (weighted : Bool) : List (List Int) :=
  v.nodes.map (fun n => v.nodes.map (fun m => adjEntry v order s weighted n m))

/-- `laplacian(H, order=d)[n, m]` = `d * K - A` with `K` the order-`d` degree and `A` the weighted
    order-`d` adjacency -/
def lapEntry (v : View) (d : Nat) (n m : PyId) : Int :=
  (if n = m then (d : Int) * (((eidsOf v (some d)).filter (fun e => decide (n ∈ v.mem e))).length : Int) else 0)
    - adjEntry v (some d) 1 true n m
def lapMatrix (v : View) (d : Nat) : List (List Int) :=
  v.nodes.map (fun n => v.nodes.map (fun m => lapEntry v d n m))

end Xgi.C09
