/-
  C09 helper lemmas: `map` commutes with the set-as-list helpers for injective maps (relabelling side),
  permutation congruences (insertion-order side), and the lifting from `Net` to `View`.
-/
import XgiModel.C09.Measures

set_option linter.unusedSectionVars false

namespace Xgi.C09
open Function

/-! ### generic: injective maps -/
section generic
variable {α β : Type} [DecidableEq α] [DecidableEq β]

theorem inj_eq {f : α → β} (hf : Injective f) {a b : α} : f a = f b ↔ a = b :=
  ⟨fun h => hf h, fun h => h ▸ rfl⟩

theorem mem_map_inj {f : α → β} (hf : Injective f) {a : α} {l : List α} : f a ∈ l.map f ↔ a ∈ l := by
  simp only [List.mem_map]
  constructor
  · rintro ⟨b, hb, h⟩; exact hf h ▸ hb
  · intro h; exact ⟨a, h, rfl⟩

theorem ins_map {f : α → β} (hf : Injective f) (x : α) (l : List α) :
    ins (f x) (l.map f) = (ins x l).map f := by
  unfold ins
  simp only [mem_map_inj hf]
  split <;> simp

theorem foldl_ins_map {f : α → β} (hf : Injective f) (l acc : List α) :
    (l.map f).foldl (fun acc x => ins x acc) (acc.map f) = (l.foldl (fun acc x => ins x acc) acc).map f := by
  induction l generalizing acc with
  | nil => rfl
  | cons a t ih => simp only [List.map_cons, List.foldl_cons, ins_map hf, ih]

theorem dedup_map {f : α → β} (hf : Injective f) (l : List α) : dedup (l.map f) = (dedup l).map f := by
  unfold dedup
  simpa using foldl_ins_map hf l []

theorem rm_map {f : α → β} (hf : Injective f) (x : α) (l : List α) : rm (f x) (l.map f) = (rm x l).map f := by
  unfold rm
  rw [List.filter_map]
  congr 1
  apply List.filter_congr
  intro y _
  simp [inj_eq hf]

/-- filtering a mapped list with a predicate that is the transport of `q` -/
theorem filter_map_of {f : α → β} {p : β → Bool} {q : α → Bool} (l : List α) (h : ∀ a, p (f a) = q a) :
    (l.map f).filter p = (l.filter q).map f := by
  rw [List.filter_map]
  congr 1
  apply List.filter_congr
  intro a _
  exact h a

theorem any_map_of {f : α → β} {p : β → Bool} {q : α → Bool} (l : List α) (h : ∀ a, p (f a) = q a) :
    (l.map f).any p = l.any q := by
  rw [List.any_map]; congr 1; funext a; exact h a

theorem all_map_of {f : α → β} {p : β → Bool} {q : α → Bool} (l : List α) (h : ∀ a, p (f a) = q a) :
    (l.map f).all p = l.all q := by
  rw [List.all_map]; congr 1; funext a; exact h a

theorem decide_mem_map {f : α → β} (hf : Injective f) (a : α) (l : List α) :
    decide (f a ∈ l.map f) = decide (a ∈ l) := by
  simp [mem_map_inj hf]

end generic

/-! ### generic: permutations -/
section perm
variable {α β : Type}

theorem sum_perm {l l' : List Rat} (h : l.Perm l') : l.sum = l'.sum := by
  induction h with
  | nil => rfl
  | cons x _ ih => simp [ih]
  | swap x y l => simp only [List.sum_cons]; grind
  | trans _ _ ih1 ih2 => exact ih1.trans ih2

theorem sum_map_perm {l l' : List α} {f g : α → Rat} (h : l.Perm l') (hfg : ∀ a, f a = g a) :
    (l.map f).sum = (l'.map g).sum := by
  have : f = g := funext hfg
  subst this
  exact sum_perm (h.map f)

theorem sum_nat_map_perm {l l' : List α} {f g : α → Nat} (h : l.Perm l') (hfg : ∀ a, f a = g a) :
    (l.map f).sum = (l'.map g).sum := by
  have : f = g := funext hfg
  subst this
  exact (h.map f).sum_nat

theorem filter_perm_of {l l' : List α} {p q : α → Bool} (h : l.Perm l') (hpq : ∀ a, p a = q a) :
    (l.filter p).Perm (l'.filter q) := by
  have : p = q := funext hpq
  subst this
  exact h.filter p

theorem map_perm_of {l l' : List α} {f g : α → β} (h : l.Perm l') (hfg : ∀ a, f a = g a) :
    (l.map f).Perm (l'.map g) := by
  have : f = g := funext hfg
  subst this
  exact h.map f

theorem flatMap_perm_of {l l' : List α} {f g : α → List β} (h : l.Perm l') (hfg : ∀ a, (f a).Perm (g a)) :
    (l.flatMap f).Perm (l'.flatMap g) := by
  induction h with
  | nil => exact .nil
  | cons x _ ih => simp only [List.flatMap_cons]; exact (hfg x).append ih
  | swap x y l =>
    simp only [List.flatMap_cons]
    have h1 : (l.flatMap f).Perm (l.flatMap g) := by
      induction l with
      | nil => exact .nil
      | cons a t ih => simp only [List.flatMap_cons]; exact (hfg a).append ih
    refine ((hfg y).append ((hfg x).append h1)).trans ?_
    rw [← List.append_assoc, ← List.append_assoc]
    exact List.Perm.append_right _ List.perm_append_comm
  | trans h1 _ ih1 ih2 =>
    refine ih1.trans ?_
    refine List.Perm.trans ?_ ih2
    -- g-image of l₂ vs f-image of l₂: go through symmetric
    exact (flatMap_self_perm _).symm
where
  flatMap_self_perm (l : List α) : (l.flatMap f).Perm (l.flatMap g) := by
    induction l with
    | nil => exact .nil
    | cons a t ih => simp only [List.flatMap_cons]; exact (hfg a).append ih

theorem any_perm_of {l l' : List α} {p q : α → Bool} (h : l.Perm l') (hpq : ∀ a, p a = q a) : l.any p = l'.any q := by
  have : p = q := funext hpq
  subst this
  exact h.any_eq

theorem all_perm_of {l l' : List α} {p q : α → Bool} (h : l.Perm l') (hpq : ∀ a, p a = q a) : l.all p = l'.all q := by
  have : p = q := funext hpq
  subst this
  exact h.all_eq

theorem decide_mem_perm [DecidableEq α] {l l' : List α} (h : l.Perm l') (a : α) : decide (a ∈ l) = decide (a ∈ l') := by
  simp [h.mem_iff]

/-- two duplicate-free lists with the same elements are permutations of each other -/
theorem perm_of_nodup_mem [DecidableEq α] {l l' : List α} (h1 : l.Nodup) (h2 : l'.Nodup) (h : ∀ a, a ∈ l ↔ a ∈ l') : l.Perm l' :=
  (List.perm_ext_iff_of_nodup h1 h2).2 h

end perm

/-! ### the two relations on views -/

/-- `v'` is `v` relabelled by `π` (nodes) and `σ` (edge IDs), in the same order -/
structure VRen (π σ : PyId → PyId) (v v' : View) : Prop where
  nodes : v'.nodes = v.nodes.map π
  eids : v'.eids = v.eids.map σ
  mem : ∀ e, v'.mem (σ e) = (v.mem e).map π
  memb : ∀ n, v'.memb (π n) = (v.memb n).map σ

/-- `v'` lists the same nodes, edges, members and memberships as `v`, each in some other order -/
structure VPerm (v v' : View) : Prop where
  nodes : v'.nodes.Perm v.nodes
  eids : v'.eids.Perm v.eids
  mem : ∀ e, (v'.mem e).Perm (v.mem e)
  memb : ∀ n, (v'.memb n).Perm (v.memb n)

/-- the two incidence tables agree -/
structure VWF (v : View) : Prop where
  inc : ∀ n e, e ∈ v.memb n ↔ (e ∈ v.eids ∧ n ∈ v.mem e)

/-! ### lifting from `Net` -/

theorem members_rename_list {π σ : PyId → PyId} (hσ : Injective σ) (es : List (PyId × List PyId)) (e : PyId) :
    (((es.map (fun p => (σ p.1, p.2.map π))).find? (fun p => decide (p.1 = σ e))).map (·.2)).getD []
      = ((((es.find? (fun p => decide (p.1 = e))).map (·.2)).getD []).map π) := by
  induction es with
  | nil => rfl
  | cons p t ih =>
    simp only [List.map_cons, List.find?_cons, inj_eq hσ]
    by_cases h : p.1 = e
    · simp [h]
    · simp only [h, decide_false]; exact ih

theorem view_rename {π σ : PyId → PyId} (hπ : Injective π) (hσ : Injective σ) (h : Net) :
    VRen π σ (view h) (view (rename π σ h)) where
  nodes := rfl
  eids := by simp [view, rename, Net.edgeIds, List.map_map, Function.comp_def]
  mem := fun e => by
    simp only [view, rename, Net.members]
    exact members_rename_list hσ h.edges e
  memb := fun n => by
    simp only [view, rename, Net.memberships]
    rw [filter_map_of (q := fun p => decide (n ∈ p.2)) h.edges (fun p => by simp [mem_map_inj hπ])]
    simp [List.map_map, Function.comp_def]

theorem find?_perm_of_nodup {β : Type} {l l' : List (PyId × β)} (h : l.Perm l') (hn : (l.map (·.1)).Nodup) (e : PyId) :
    l.find? (fun p => decide (p.1 = e)) = l'.find? (fun p => decide (p.1 = e)) := by
  induction h with
  | nil => rfl
  | cons x _ ih =>
    simp only [List.map_cons, List.nodup_cons] at hn
    simp only [List.find?_cons]
    split
    · rfl
    · exact ih hn.2
  | swap x y l =>
    simp only [List.map_cons, List.nodup_cons, List.mem_cons, not_or] at hn
    simp only [List.find?_cons]
    by_cases hx : x.1 = e <;> by_cases hy : y.1 = e <;> simp [hx, hy]
    exact absurd (hx.trans hy.symm).symm hn.1.1
  | trans h1 _ ih1 ih2 =>
    exact (ih1 hn).trans (ih2 ((h1.map _).nodup_iff.1 hn))

theorem view_reorder {h h' : Net} (hn : (h.edges.map (·.1)).Nodup) (hr : Reorder h h') : VPerm (view h) (view h') := by
  obtain ⟨f, hf, hp⟩ := hr.edges
  have hes : ((h.edges.map (fun p => (p.1, f p.1))).map (·.1)) = h.edges.map (·.1) := by
    simp [List.map_map, Function.comp_def]
  refine ⟨hr.nodes, ?_, ?_, ?_⟩
  · show (h'.edges.map (·.1)).Perm (h.edges.map (·.1))
    rw [← hes]; exact hp.map _
  · intro e
    show (((h'.edges.find? (fun p => decide (p.1 = e))).map (·.2)).getD []).Perm
          (((h.edges.find? (fun p => decide (p.1 = e))).map (·.2)).getD [])
    rw [← find?_perm_of_nodup hp.symm (by rw [hes]; exact hn) e, List.find?_map]
    cases hfe : h.edges.find? ((fun p : PyId × List PyId => decide (p.1 = e)) ∘ fun p => (p.1, f p.1)) with
    | none =>
      have : h.edges.find? (fun p => decide (p.1 = e)) = none := hfe
      simp [this]
    | some p =>
      have h2 : h.edges.find? (fun p => decide (p.1 = e)) = some p := hfe
      simp only [h2, Option.map_some, Option.getD_some]
      exact hf p (List.mem_of_find?_eq_some h2)
  · intro n
    show ((h'.edges.filter (fun p => decide (n ∈ p.2))).map (·.1)).Perm ((h.edges.filter (fun p => decide (n ∈ p.2))).map (·.1))
    refine ((hp.filter _).map _).trans ?_
    rw [List.filter_map, List.map_map]
    have : (h.edges.filter ((fun p : PyId × List PyId => decide (n ∈ p.2)) ∘ fun p => (p.1, f p.1)))
            = h.edges.filter (fun p => decide (n ∈ p.2)) := by
      apply List.filter_congr
      intro p hp'
      simp [(hf p hp').mem_iff]
    rw [this]
    exact List.Perm.of_eq (by simp [Function.comp_def])

theorem inc_list (es : List (PyId × List PyId)) (hn : (es.map (·.1)).Nodup) (n e : PyId) :
    e ∈ (es.filter (fun p => decide (n ∈ p.2))).map (·.1)
      ↔ (e ∈ es.map (·.1) ∧ n ∈ ((es.find? (fun p => decide (p.1 = e))).map (·.2)).getD []) := by
  induction es with
  | nil => simp
  | cons p t ih =>
    simp only [List.map_cons, List.nodup_cons] at hn
    have ih := ih hn.2
    by_cases hpe : p.1 = e
    · subst hpe
      have h1 : p.1 ∉ (t.filter (fun p => decide (n ∈ p.2))).map (·.1) := by
        intro hc; rw [ih] at hc; exact hn.1 hc.1
      by_cases hnp : n ∈ p.2 <;> simp [hnp, h1]
    · have h2 : ¬ (e = p.1) := fun hc => hpe hc.symm
      by_cases hnp : n ∈ p.2 <;> simp [hnp, hpe, h2, ih]

theorem view_wf {h : Net} (hn : (h.edges.map (·.1)).Nodup) : VWF (view h) :=
  ⟨fun n e => inc_list h.edges hn n e⟩

/-! ### a concrete reordering -/

theorem members_of_mem_list (es : List (PyId × List PyId)) (hn : (es.map (·.1)).Nodup) {p : PyId × List PyId} (hp : p ∈ es) :
    ((es.find? (fun q => decide (q.1 = p.1))).map (·.2)).getD [] = p.2 := by
  induction es with
  | nil => cases hp
  | cons r t ih =>
    simp only [List.map_cons, List.nodup_cons] at hn
    rcases List.mem_cons.1 hp with rfl | hp'
    · simp
    · have hne : ¬ r.1 = p.1 := fun hc => hn.1 (hc ▸ List.mem_map_of_mem hp')
      simp only [List.find?_cons, hne, decide_false]
      exact ih hn.2 hp'

theorem reorder_reverseAll {h : Net} (hn : (h.edges.map (·.1)).Nodup) : Reorder h (reverseAll h) := by
  have hm : ∀ p ∈ h.edges, h.members p.1 = p.2 := fun p hp => members_of_mem_list h.edges hn hp
  refine ⟨List.reverse_perm _, fun e => (h.members e).reverse, fun p hp => ?_, ?_⟩
  · show ((h.members p.1).reverse).Perm p.2
    rw [hm p hp]; exact List.reverse_perm _
  · show ((h.edges.map (fun p => (p.1, p.2.reverse))).reverse).Perm (h.edges.map (fun p => (p.1, (h.members p.1).reverse)))
    exact (List.reverse_perm _).trans (List.Perm.of_eq (List.map_congr_left (fun p hp => by rw [hm p hp])))

end Xgi.C09
