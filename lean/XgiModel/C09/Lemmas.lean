/-
  C09 helper lemmas: `map` commutes with the set-as-list helpers for injective maps (relabelling side),
  permutation congruences (insertion-order side), and the lifting from `Net` to `View`.
-/
import XgiModel.C09.Measures

namespace Xgi.C09
open Function

/-! ### generic: injective maps -/
section generic
variable {α β : Type} [DecidableEq α] [DecidableEq β]

theorem inj_eq {f : α → β} (hf : Injective f) {a b : α} : f a = f b ↔ a = b :=
  ⟨fun h => hf h, fun h => h ▸ rfl⟩

theorem mem_map_inj {f : α → β} (hf : Injective f) {a : α} {l : List α} : f a ∈ l.map f ↔ a ∈ l := by
  simp only [List.mem_map]
  constructor
  · rintro ⟨b, hb, h⟩; exact hf h ▸ hb
  · intro h; exact ⟨a, h, rfl⟩

theorem ins_map {f : α → β} (hf : Injective f) (x : α) (l : List α) :
    ins (f x) (l.map f) = (ins x l).map f := by
  unfold ins
  simp only [mem_map_inj hf]
  split <;> simp

theorem foldl_ins_map {f : α → β} (hf : Injective f) (l acc : List α) :
    (l.map f).foldl (fun acc x => ins x acc) (acc.map f) = (l.foldl (fun acc x => ins x acc) acc).map f := by
  induction l generalizing acc with
  | nil => rfl
  | cons a t ih => simp only [List.map_cons, List.foldl_cons, ins_map hf, ih]

theorem dedup_map {f : α → β} (hf : Injective f) (l : List α) : dedup (l.map f) = (dedup l).map f := by
  unfold dedup
  simpa using foldl_ins_map hf l []

theorem rm_map {f : α → β} (hf : Injective f) (x : α) (l : List α) : rm (f x) (l.map f) = (rm x l).map f := by
  unfold rm
  rw [List.filter_map]
  congr 1
  apply List.filter_congr
  intro y _
  simp [inj_eq hf]

/-- filtering a mapped list with a predicate that is the transport of `q` -/
theorem filter_map_of {f : α → β} {p : β → Bool} {q : α → Bool} (l : List α) (h : ∀ a, p (f a) = q a) :
    (l.map f).filter p = (l.filter q).map f := by
  rw [List.filter_map]
  congr 1
  apply List.filter_congr
  intro a _
  exact h a

theorem any_map_of {f : α → β} {p : β → Bool} {q : α → Bool} (l : List α) (h : ∀ a, p (f a) = q a) :
    (l.map f).any p = l.any q := by
  rw [List.any_map]; congr 1; funext a; exact h a

theorem all_map_of {f : α → β} {p : β → Bool} {q : α → Bool} (l : List α) (h : ∀ a, p (f a) = q a) :
    (l.map f).all p = l.all q := by
  rw [List.all_map]; congr 1; funext a; exact h a

theorem decide_mem_map {f : α → β} (hf : Injective f) (a : α) (l : List α) :
    decide (f a ∈ l.map f) = decide (a ∈ l) := by
  simp [mem_map_inj hf]

end generic

/-! ### generic: permutations -/
section perm
variable {α β : Type}

theorem sum_perm {l l' : List Rat} (h : l.Perm l') : l.sum = l'.sum := by
  induction h with
  | nil => rfl
  | cons x _ ih => simp [ih]
  | swap x y l => simp only [List.sum_cons]; grind
  | trans _ _ ih1 ih2 => exact ih1.trans ih2

theorem sum_map_perm {l l' : List α} {f g : α → Rat} (h : l.Perm l') (hfg : ∀ a, f a = g a) :
    (l.map f).sum = (l'.map g).sum := by
  have : f = g := funext hfg
  subst this
  exact sum_perm (h.map f)

theorem sum_nat_map_perm {l l' : List α} {f g : α → Nat} (h : l.Perm l') (hfg : ∀ a, f a = g a) :
    (l.map f).sum = (l'.map g).sum := by
  have : f = g := funext hfg
  subst this
  exact (h.map f).sum_nat

theorem filter_perm_of {l l' : List α} {p q : α → Bool} (h : l.Perm l') (hpq : ∀ a, p a = q a) :
    (l.filter p).Perm (l'.filter q) := by
  have : p = q := funext hpq
  subst this
  exact h.filter p

theorem map_perm_of {l l' : List α} {f g : α → β} (h : l.Perm l') (hfg : ∀ a, f a = g a) :
    (l.map f).Perm (l'.map g) := by
  have : f = g := funext hfg
  subst this
  exact h.map f

theorem flatMap_perm_of {l l' : List α} {f g : α → List β} (h : l.Perm l') (hfg : ∀ a, (f a).Perm (g a)) :
    (l.flatMap f).Perm (l'.flatMap g) := by
  induction h with
  | nil => exact .nil
  | cons x _ ih => simp only [List.flatMap_cons]; exact (hfg x).append ih
  | swap x y l =>
    simp only [List.flatMap_cons]
    have h1 : (l.flatMap f).Perm (l.flatMap g) := by
      induction l with
      | nil => exact .nil
      | cons a t ih => simp only [List.flatMap_cons]; exact (hfg a).append ih
    refine ((hfg y).append ((hfg x).append h1)).trans ?_
    rw [← List.append_assoc, ← List.append_assoc]
    exact List.Perm.append_right _ List.perm_append_comm
  | trans h1 _ ih1 ih2 =>
    refine ih1.trans ?_
    refine List.Perm.trans ?_ ih2
    -- g-image of l₂ vs f-image of l₂: go through symmetric
    exact (flatMap_self_perm _).symm
where
  flatMap_self_perm (l : List α) : (l.flatMap f).Perm (l.flatMap g) := by
    induction l with
    | nil => exact .nil
    | cons a t ih => simp only [List.flatMap_cons]; exact (hfg a).append ih

theorem any_perm_of {l l' : List α} {p q : α → Bool} (h : l.Perm l') (hpq : ∀ a, p a = q a) : l.any p = l'.any q := by
  have : p = q := funext hpq
  subst this
  exact h.any_eq

theorem all_perm_of {l l' : List α} {p q : α → Bool} (h : l.Perm l') (hpq : ∀ a, p a = q a) : l.all p = l'.all q := by
  have : p = q := funext hpq
  subst this
  exact h.all_eq

theorem decide_mem_perm [DecidableEq α] {l l' : List α} (h : l.Perm l') (a : α) : decide (a ∈ l) = decide (a ∈ l') := by
  simp [h.mem_iff]

/-- two duplicate-free lists with the same elements are permutations of each other -/
theorem perm_of_nodup_mem [DecidableEq α] {l l' : List α} (h1 : l.Nodup) (h2 : l'.Nodup) (h : ∀ a, a ∈ l ↔ a ∈ l') : l.Perm l' :=
  (List.perm_ext_iff_of_nodup h1 h2).2 h

end perm
end Xgi.C09
