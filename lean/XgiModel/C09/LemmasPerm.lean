/-
  C09 — insertion-order side: every measure is unchanged when nodes, edges, member lists and membership
  lists are listed in another order.  Stated on views related by `VPerm`.
-/
import XgiModel.C09.Lemmas

set_option linter.unusedSectionVars false
set_option linter.unusedSimpArgs false

namespace Xgi.C09

section perm
variable {v v' : View}

theorem mem_mem_perm (hp : VPerm v v') {a e : PyId} : a ∈ v'.mem e ↔ a ∈ v.mem e := (hp.mem e).mem_iff
theorem mem_memb_perm (hp : VPerm v v') {a n : PyId} : a ∈ v'.memb n ↔ a ∈ v.memb n := (hp.memb n).mem_iff

theorem decide_not_mem_perm {l l' : List PyId} (h : l.Perm l') (a : PyId) : decide (a ∉ l) = decide (a ∉ l') := by
  simp [h.mem_iff]

theorem degree_perm (hp : VPerm v v') (n : PyId) : degree v' n = degree v n := (hp.memb n).length_eq
theorem size_perm (hp : VPerm v v') (e : PyId) : size v' e = size v e := (hp.mem e).length_eq

theorem mem_neighbors {v : View} {n m : PyId} : m ∈ neighbors v n ↔ m ≠ n ∧ ∃ e ∈ v.memb n, m ∈ v.mem e := by
  simp [neighbors, List.mem_flatMap]

theorem nodup_neighbors (v : View) (n : PyId) : (neighbors v n).Nodup := nodup_rm (nodup_dedup _)

theorem neighbors_perm (hp : VPerm v v') (n : PyId) : (neighbors v' n).Perm (neighbors v n) :=
  perm_of_nodup_mem (nodup_neighbors _ _) (nodup_neighbors _ _)
    (fun a => by simp only [mem_neighbors, mem_memb_perm hp, mem_mem_perm hp])

theorem nodeDict_perm {β : Type} (hp : VPerm v v') {f : View → PyId → β} (h : ∀ n, f v' n = f v n) :
    (nodeDict v' f).Perm (nodeDict v f) :=
  map_perm_of hp.nodes (fun n => by rw [h])

theorem edgeDict_perm {β : Type} (hp : VPerm v v') {f : View → PyId → β} (h : ∀ e, f v' e = f v e) :
    (edgeDict v' f).Perm (edgeDict v f) :=
  map_perm_of hp.eids (fun n => by rw [h])

theorem avgNbrDeg_perm (hp : VPerm v v') (n : PyId) : avgNbrDeg v' n = avgNbrDeg v n := by
  have h1 := (neighbors_perm hp n).length_eq
  have h2 : ((neighbors v' n).map (fun m => (degree v' m : Rat))).sum
      = ((neighbors v n).map (fun m => (degree v m : Rat))).sum :=
    sum_map_perm (neighbors_perm hp n) (fun m => by rw [degree_perm hp])
  simp only [avgNbrDeg, h1, h2]

theorem triCount_perm (hp : VPerm v v') (n : PyId) : triCount v' n = triCount v n :=
  (flatMap_perm_of (neighbors_perm hp n) (fun a =>
    filter_perm_of (neighbors_perm hp n) (fun b => decide_mem_perm (neighbors_perm hp a) b))).length_eq

theorem clusteringCoef_perm (hp : VPerm v v') (n : PyId) : clusteringCoef v' n = clusteringCoef v n := by
  simp only [clusteringCoef, (neighbors_perm hp n).length_eq, triCount_perm hp]

theorem uvNum_perm (hp : VPerm v v') (u w : PyId) : uvNum v' u w = uvNum v u w :=
  (filter_perm_of (hp.memb u) (fun e => decide_mem_perm (hp.memb w) e)).length_eq

theorem uvDenom_perm (hp : VPerm v v') (k : Kind) (u w : PyId) : uvDenom v' k u w = uvDenom v k u w := by
  have h1 := (hp.memb u).length_eq
  have h2 := (hp.memb w).length_eq
  have h3 := (filter_perm_of (hp.memb w) (fun e => decide_not_mem_perm (hp.memb u) e)).length_eq
  cases k <;> simp only [uvDenom, h1, h2, h3]

theorem twoNodeCC_perm (hp : VPerm v v') (k : Kind) (n : PyId) : twoNodeCC v' k n = twoNodeCC v k n := by
  have h0 := neighbors_perm hp n
  have h1 : (neighbors v' n).any (fun w => uvDenom v' k n w == 0) = (neighbors v n).any (fun w => uvDenom v k n w == 0) :=
    any_perm_of h0 (fun w => by rw [uvDenom_perm hp])
  have h2 : ((neighbors v' n).map (fun w => (uvNum v' n w : Rat) / (uvDenom v' k n w : Rat) / ((neighbors v' n).length : Rat))).sum
      = ((neighbors v n).map (fun w => (uvNum v n w : Rat) / (uvDenom v k n w : Rat) / ((neighbors v n).length : Rat))).sum :=
    sum_map_perm h0 (fun w => by rw [uvNum_perm hp, uvDenom_perm hp, h0.length_eq])
  simp only [twoNodeCC, h1, h2]

/-- the sum of a symmetric function over `itertools.combinations(l, 2)` does not depend on the order of `l` -/
theorem pairs_sum_perm {α : Type} {f g : α → α → Rat} (hs : ∀ a b, f a b = f b a) (hfg : ∀ a b, f a b = g a b)
    {l l' : List α} (h : l.Perm l') :
    ((pairs l).map (fun p => f p.1 p.2)).sum = ((pairs l').map (fun p => g p.1 p.2)).sum := by
  have hg : f = g := funext (fun a => funext (hfg a))
  subst hg
  induction h with
  | nil => rfl
  | cons x h ih =>
    simp only [pairs, List.map_append, List.map_map, Function.comp_def, List.sum_append, ih]
    rw [sum_map_perm h (fun _ => rfl)]
  | swap x y l =>
    simp only [pairs, List.map_cons, List.map_append, List.map_map, Function.comp_def, List.sum_append, List.sum_cons,
      List.cons_append]
    rw [hs y x]
    grind
  | trans _ _ ih1 ih2 => exact ih1.trans ih2

theorem diff_perm {a a' b b' : List PyId} (ha : a'.Perm a) (hb : b'.Perm b) : (diff a' b').Perm (diff a b) :=
  filter_perm_of ha (fun x => decide_not_mem_perm hb x)

theorem mem_nbrsOfSet {v : View} {D : List PyId} {a : PyId} : a ∈ nbrsOfSet v D ↔ ∃ d ∈ D, a ∈ neighbors v d := by
  simp [nbrsOfSet, List.mem_flatMap]

theorem nbrsOfSet_perm (hp : VPerm v v') {D D' : List PyId} (hD : D'.Perm D) : (nbrsOfSet v' D').Perm (nbrsOfSet v D) :=
  perm_of_nodup_mem (nodup_dedup _) (nodup_dedup _)
    (fun a => by simp only [mem_nbrsOfSet, hD.mem_iff, (neighbors_perm hp _).mem_iff])

theorem extraOverlap_perm (hp : VPerm v v') (e1 e2 : PyId) : extraOverlap v' e1 e2 = extraOverlap v e1 e2 := by
  have d1 := diff_perm (hp.mem e1) (hp.mem e2)
  have d2 := diff_perm (hp.mem e2) (hp.mem e1)
  have h1 := d1.length_eq
  have h2 := d2.length_eq
  have h3 := (filter_perm_of (nbrsOfSet_perm hp d1) (fun x => decide_mem_perm d2 x)).length_eq
  have h4 := (filter_perm_of (nbrsOfSet_perm hp d2) (fun x => decide_mem_perm d1 x)).length_eq
  simp only [extraOverlap, h1, h2, h3, h4]

theorem extraOverlap_symm (v : View) (e1 e2 : PyId) : extraOverlap v e1 e2 = extraOverlap v e2 e1 := by
  simp only [extraOverlap, Nat.add_comm]

theorem localCC_perm (hp : VPerm v v') (n : PyId) : localCC v' n = localCC v n := by
  have h1 := (hp.memb n).length_eq
  have h2 : ((pairs (v'.memb n)).map (fun p => extraOverlap v' p.1 p.2)).sum
      = ((pairs (v.memb n)).map (fun p => extraOverlap v p.1 p.2)).sum :=
    pairs_sum_perm (extraOverlap_symm v') (extraOverlap_perm hp) (hp.memb n)
  simp only [localCC, h1, h2]

/-! BFS levels -/

theorem expand_perm (hp : VPerm v v') {S S' : List PyId} (hS : S'.Perm S) : (expand v' S').Perm (expand v S) :=
  filter_perm_of hp.nodes (fun m => by
    rw [decide_mem_perm hS m, any_perm_of hS (fun x => decide_mem_perm (neighbors_perm hp x) m)])

theorem ball_perm (hp : VPerm v v') (k : Nat) (n : PyId) : (ball v' k n).Perm (ball v k n) := by
  induction k with
  | zero => exact filter_perm_of hp.nodes (fun _ => rfl)
  | succ k ih => exact expand_perm hp ih

theorem comp_perm (hp : VPerm v v') (n : PyId) : (comp v' n).Perm (comp v n) := by
  unfold comp
  rw [hp.nodes.length_eq]
  exact ball_perm hp _ n

theorem dist_perm (hp : VPerm v v') (n m : PyId) : dist v' n m = dist v n m := by
  have : (fun k => decide (m ∈ ball v' k n)) = (fun k => decide (m ∈ ball v k n)) :=
    funext (fun k => decide_mem_perm (ball_perm hp k n) m)
  simp only [dist, hp.nodes.length_eq, this]

/-! density -/

theorem countSize_perm (hp : VPerm v v') (p : Nat → Bool) : countSize v' p = countSize v p :=
  (filter_perm_of hp.eids (fun e => by rw [size_perm hp])).length_eq

theorem density_perm (hp : VPerm v v') (o mo : Option Nat) (ign : Bool) : density v' o mo ign = density v o mo ign := by
  simp only [density, hp.nodes.length_eq, hp.eids.length_eq, countSize_perm hp]

theorem countedEdges_perm (hp : VPerm v v') (o mo : Option Nat) (ign : Bool) :
    (countedEdges v' o mo ign).Perm (countedEdges v o mo ign) := by
  unfold countedEdges
  cases o <;> cases mo <;> cases ign <;> simp only [if_true, if_false, Bool.false_eq_true]
  all_goals first
    | exact hp.eids
    | exact filter_perm_of hp.eids (fun e => by rw [size_perm hp])
    | exact filter_perm_of (filter_perm_of hp.eids (fun e => by rw [size_perm hp])) (fun e => by rw [size_perm hp])

theorem incidenceDensity_perm (hp : VPerm v v') (o mo : Option Nat) (ign : Bool) :
    incidenceDensity v' o mo ign = incidenceDensity v o mo ign := by
  have h1 := (countedEdges_perm hp o mo ign).length_eq
  have h2 : ((countedEdges v' o mo ign).map (size v')).sum = ((countedEdges v o mo ign).map (size v)).sum :=
    sum_nat_map_perm (countedEdges_perm hp o mo ign) (size_perm hp)
  simp only [incidenceDensity, hp.nodes.length_eq, hp.eids.length_eq, h1, h2]

/-! maximal and duplicate edges -/

theorem sameSet_iff {a b : List PyId} : sameSet a b = true ↔ ∀ x, x ∈ a ↔ x ∈ b := by
  simp only [sameSet, Bool.and_eq_true, List.all_eq_true, decide_eq_true_eq]
  constructor
  · rintro ⟨h1, h2⟩ x; exact ⟨h1 x, h2 x⟩
  · intro h; exact ⟨fun x hx => (h x).1 hx, fun x hx => (h x).2 hx⟩

theorem sameSet_congr {a a' b b' : List PyId} (ha : ∀ x, x ∈ a' ↔ x ∈ a) (hb : ∀ x, x ∈ b' ↔ x ∈ b) :
    sameSet a' b' = sameSet a b := by
  rw [Bool.eq_iff_iff, sameSet_iff, sameSet_iff]
  simp only [ha, hb]

theorem mem_foldl_inter (v : View) (ns A : List PyId) (j : PyId) :
    j ∈ ns.foldl (fun acc m => acc.filter (fun j => decide (j ∈ v.memb m))) A ↔ j ∈ A ∧ ∀ m ∈ ns, j ∈ v.memb m := by
  induction ns generalizing A with
  | nil => simp
  | cons n t ih => simp only [List.foldl_cons, ih, List.mem_filter, decide_eq_true_eq, List.forall_mem_cons]; grind

theorem mem_common {v : View} {e j : PyId} : j ∈ common v e ↔ (v.mem e ≠ [] ∧ ∀ n ∈ v.mem e, j ∈ v.memb n) := by
  unfold common
  cases h : v.mem e with
  | nil => simp
  | cons n ns => simp only [mem_foldl_inter, List.forall_mem_cons, ne_eq, reduceCtorEq, not_false_eq_true, true_and]

theorem mem_common_perm (hp : VPerm v v') (e j : PyId) : j ∈ common v' e ↔ j ∈ common v e := by
  have h0 : v'.mem e ≠ [] ↔ v.mem e ≠ [] := by
    rw [ne_eq, ne_eq, ← List.length_eq_zero_iff, ← List.length_eq_zero_iff, (hp.mem e).length_eq]
  simp only [mem_common, h0, mem_mem_perm hp, mem_memb_perm hp]

theorem twins_perm (hp : VPerm v v') (e : PyId) : (twins v' e).Perm (twins v e) :=
  filter_perm_of hp.eids (fun _ => sameSet_congr (fun _ => mem_mem_perm hp) (fun _ => mem_mem_perm hp))

theorem isMaximal_perm (hp : VPerm v v') (s : Bool) (e : PyId) : isMaximal v' s e = isMaximal v s e := by
  unfold isMaximal
  rw [sameSet_congr (mem_common_perm hp e) (fun _ => Iff.rfl),
      sameSet_congr (a := common v e) (mem_common_perm hp e) (fun _ => (twins_perm hp e).mem_iff)]

theorem maximal_perm (hp : VPerm v v') (s : Bool) : (maximal v' s).Perm (maximal v s) :=
  filter_perm_of hp.eids (isMaximal_perm hp s)

theorem hasEmptyEdge_perm (hp : VPerm v v') : hasEmptyEdge v' = hasEmptyEdge v :=
  any_perm_of hp.eids (fun e => by
    have := (hp.mem e).length_eq
    cases h1 : v'.mem e <;> cases h2 : v.mem e <;> simp [h1, h2] at this ⊢)

theorem dupEdges_perm (hp : VPerm v v') : (dupEdges v').Perm (dupEdges v) :=
  filter_perm_of hp.eids (fun e => any_perm_of hp.eids (fun j => by
    rw [sameSet_congr (fun _ => mem_mem_perm hp) (fun _ => mem_mem_perm hp)]))

/-! degree pairs and matrices -/

theorem degPairs_perm (hp : VPerm v v') : (degPairs v').Perm (degPairs v) :=
  flatMap_perm_of hp.eids (fun e => by
    simp only [(hp.mem e).length_eq]
    split
    · exact flatMap_perm_of (hp.mem e) (fun a =>
        map_perm_of (filter_perm_of (hp.mem e) (fun _ => rfl)) (fun b => by rw [degree_perm hp, degree_perm hp]))
    · exact .nil)

theorem eidsOf_perm (hp : VPerm v v') (o : Option Nat) : (eidsOf v' o).Perm (eidsOf v o) := by
  cases o with
  | none => exact hp.eids
  | some d => exact filter_perm_of hp.eids (fun e => by rw [size_perm hp])

theorem incEntry_perm (hp : VPerm v v') (n e : PyId) : incEntry v' n e = incEntry v n e := by
  simp only [incEntry, mem_mem_perm hp]

theorem shared_perm (hp : VPerm v v') (o : Option Nat) (n m : PyId) : shared v' o n m = shared v o n m :=
  (filter_perm_of (eidsOf_perm hp o) (fun e => by rw [decide_mem_perm (hp.mem e) n, decide_mem_perm (hp.mem e) m])).length_eq

theorem adjEntry_perm (hp : VPerm v v') (o : Option Nat) (s : Nat) (w : Bool) (n m : PyId) :
    adjEntry v' o s w n m = adjEntry v o s w n m := by
  simp only [adjEntry, shared_perm hp]

theorem lapEntry_perm (hp : VPerm v v') (d : Nat) (n m : PyId) : lapEntry v' d n m = lapEntry v d n m := by
  have h := (filter_perm_of (eidsOf_perm hp (some d)) (fun e => decide_mem_perm (hp.mem e) n)).length_eq
  simp only [lapEntry, adjEntry_perm hp, h]

end perm
end Xgi.C09
