/-
  C09 driver: JSON request → model measures → JSON.  Requests:
    {"f":"measures","net":NET,"dens":[[order|null,max_order|null,ign],…],"mats":[[order|null,s,weighted],…],"laps":[d,…]}
    {"f":"rename","net":NET,"pi":[[old,new],…],"sigma":[[old,new],…]}   (finite maps; identity elsewhere)
    {"f":"reverse","net":NET}
  Networks that are not well formed (repeated IDs, members that are not nodes) answer {"out":"unmodelled"}.
-/
import XgiModel.Net
import XgiModel.C09.Measures
open Lean Xgi.Proto

namespace Xgi.C09.Drive

def ratJson (q : Rat) : Json := Json.str s!"{q.num}/{q.den}"
def oratJson : Option Rat → Json
  | some q => ratJson q
  | none => Json.str "nan"
def pairJ (a b : Json) : Json := Json.arr #[a, b]
def dictJ {β} (d : List (PyId × β)) (f : β → Json) : Json := Json.arr (d.map (fun p => pairJ (idToJson p.1) (f p.2))).toArray
def dresJson : DRes → Json
  | .val q => ratJson q
  | .errLib => Json.str "err:lib"
  | .errValue => Json.str "err:value"
def matJ (m : List (List Int)) : Json := Json.arr (m.map (fun r => Json.arr (r.map intJson).toArray)).toArray

def nodupB (l : List PyId) : Bool := l.length == (dedup l).length
def wfB (h : Net) : Bool :=
  nodupB h.nodes && nodupB h.edgeIds &&
  h.edges.all (fun p => nodupB p.2 && p.2.all (fun n => decide (n ∈ h.nodes))) &&
  !(h.nodes.contains .none) && !(h.edgeIds.contains .none)

def optNat? (j : Json) : Option (Option Nat) :=
  match j with
  | .null => some none
  | .num n => if n.exponent = 0 ∧ n.mantissa ≥ 0 then some (some n.mantissa.toNat) else none
  | _ => none
def natOf? (j : Json) : Option Nat := (optNat? j).bind id
def boolOf? : Json → Option Bool
  | .bool b => some b
  | _ => none
def optJ : Option Nat → Json
  | none => Json.null
  | some n => natJson n

def densReq? (j : Json) : Option (Option Nat × Option Nat × Bool) :=
  match j with
  | .arr #[o, mo, ign] => do pure ((← optNat? o), (← optNat? mo), (← boolOf? ign))
  | _ => none
def matReq? (j : Json) : Option (Option Nat × Nat × Bool) :=
  match j with
  | .arr #[o, s, w] => do pure ((← optNat? o), (← natOf? s), (← boolOf? w))
  | _ => none

def measures (v : View) (dens : List (Option Nat × Option Nat × Bool)) (mats : List (Option Nat × Nat × Bool))
    (laps : List Nat) : Json :=
  let maxJ (strict : Bool) : Json := if hasEmptyEdge v then Json.str "err:type" else setToJson (maximal v strict)
  Json.mkObj [
    ("out", "ok"),
    ("degree", dictJ (nodeDict v degree) natJson),
    ("size", dictJ (edgeDict v size) natJson),
    ("unique_edge_sizes", Json.arr ((uniqueEdgeSizes v).map natJson).toArray),
    ("neighbors", dictJ (nodeDict v neighbors) setToJson),
    ("average_neighbor_degree", dictJ (nodeDict v avgNbrDeg) ratJson),
    ("clustering_coefficient", dictJ (nodeDict v clusteringCoef) ratJson),
    ("local_clustering_coefficient", dictJ (nodeDict v localCC) ratJson),
    ("two_node_clustering_coefficient:union", dictJ (nodeDict v (fun v n => twoNodeCC v .union n)) oratJson),
    ("two_node_clustering_coefficient:min", dictJ (nodeDict v (fun v n => twoNodeCC v .min n)) oratJson),
    ("two_node_clustering_coefficient:max", dictJ (nodeDict v (fun v n => twoNodeCC v .max n)) oratJson),
    ("connected_components", Json.arr ((components v).map setToJson).toArray),
    ("number_connected_components", natJson (numComponents v)),
    ("is_connected", match isConnected v with | some b => Json.bool b | none => Json.str "err:index"),
    ("node_connected_component", dictJ (nodeDict v comp) setToJson),
    ("shortest_path_length", dictJ (nodeDict v (fun v n => v.nodes.map (fun m => (m, dist v n m))))
        (fun d => dictJ d (fun o => match o with | some k => natJson k | none => Json.str "inf"))),
    ("density", Json.arr (dens.map (fun (o, mo, ign) => dresJson (density v o mo ign))).toArray),
    ("incidence_density", Json.arr (dens.map (fun (o, mo, ign) => dresJson (incidenceDensity v o mo ign))).toArray),
    ("maximal", maxJ false),
    ("maximal:strict", maxJ true),
    ("duplicates", setToJson (dupEdges v)),
    ("duplicates_exact", if v.eids.all (fun e => match e with | .atom _ => true | _ => false)
        then setToJson (duplicates v) else Json.str "unmodelled"),
    ("degree_pairs", Json.arr ((degPairs v).map (fun p => pairJ (natJson p.1) (natJson p.2))).toArray),
    ("incidence_matrix", Json.arr (mats.map (fun (o, _, _) =>
        Json.mkObj [("rows", idsToJson v.nodes), ("cols", idsToJson (eidsOf v o)), ("M", matJ (incMatrix v o))])).toArray),
    ("adjacency_matrix", Json.arr (mats.map (fun (o, s, w) =>
        Json.mkObj [("rows", idsToJson v.nodes), ("ne", natJson (eidsOf v o).length), ("M", matJ (adjMatrix v o s w))])).toArray),
    ("laplacian", Json.arr (laps.map (fun d =>
        Json.mkObj [("rows", idsToJson v.nodes), ("ne", natJson (eidsOf v (some d)).length), ("M", matJ (lapMatrix v d))])).toArray)
  ]

def finMap? (j : Json) (k : String) : Option (PyId → PyId) := do
  let ps ← getArr? j k
  let ps ← ps.mapM (fun p => match p with
    | .arr #[a, b] => do pure ((← idOfJson? a), (← idOfJson? b))
    | _ => none)
  pure (fun x => ((ps.find? (·.1 = x)).map (·.2)).getD x)

def unmodelled : Json := Json.mkObj [("out", "unmodelled")]

def handle (_ : Unit) (j : Json) : Unit × Json :=
  ((), match getStr? j "f" with
  | some "measures" =>
    match (getField? j "net").bind netOfJson?, getArr? j "dens", getArr? j "mats", getArr? j "laps" with
    | some h, some ds, some ms, some ls =>
      match ds.mapM densReq?, ms.mapM matReq?, ls.mapM natOf? with
      | some ds, some ms, some ls => if wfB h then measures (view h) ds ms ls else unmodelled
      | _, _, _ => badOp
    | _, _, _, _ => badOp
  | some "rename" =>
    match (getField? j "net").bind netOfJson?, finMap? j "pi", finMap? j "sigma" with
    | some h, some π, some σ =>
      let r := rename π σ h
      Json.mkObj [("out", "ok"), ("nodes", idsToJson r.nodes),
        ("edges", Json.arr (r.edges.map (fun p => pairJ (idToJson p.1) (idsToJson p.2))).toArray)]
    | _, _, _ => badOp
  | some "reverse" =>
    match (getField? j "net").bind netOfJson? with
    | some h =>
      let r := reverseAll h
      Json.mkObj [("out", "ok"), ("nodes", idsToJson r.nodes),
        ("edges", Json.arr (r.edges.map (fun p => pairJ (idToJson p.1) (idsToJson p.2))).toArray)]
    | none => badOp
  | _ => badOp)

end Xgi.C09.Drive
