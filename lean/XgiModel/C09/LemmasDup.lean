/-
  C09 helper lemmas about `duplicates` (the model of `IDView.duplicates()`): the ID kept out of every class is
  `sorted(cls)[0]` (or `cls[0]` when sorting raises); equivariance needs an order-preserving `σ`, invariance under
  re-insertion needs mutually comparable IDs.
-/
import XgiModel.C09.LemmasRen
import XgiModel.C09.LemmasPerm
import Mathlib.Data.String.Basic
import Batteries.Data.List.Perm

namespace Xgi.C09
open Function

/-! ### `pyLt?` is a strict total order on each kind of atom -/

theorem pyLt_int (x y : Int) : pyLt? (.atom (.int x)) (.atom (.int y)) = some (decide (x < y)) := rfl
theorem pyLt_str (s t : String) : pyLt? (.atom (.str s)) (.atom (.str t)) = some (decide (s < t)) := rfl
theorem pyLt_int_str (x : Int) (t : String) : pyLt? (.atom (.int x)) (.atom (.str t)) = none := rfl
theorem pyLt_str_int (s : String) (y : Int) : pyLt? (.atom (.str s)) (.atom (.int y)) = none := rfl

/-- `pyLt? a b` is defined only between two ints or two strs -/
theorem pyLt_cases {a b : PyId} {r : Bool} (h : pyLt? a b = some r) :
    (∃ x y, a = .atom (.int x) ∧ b = .atom (.int y) ∧ r = decide (x < y)) ∨
    (∃ s t, a = .atom (.str s) ∧ b = .atom (.str t) ∧ r = decide (s < t)) := by
  cases a with
  | atom x =>
    cases b with
    | atom y =>
      cases x with
      | int x =>
        cases y with
        | int y => rw [pyLt_int] at h; exact .inl ⟨x, y, rfl, rfl, (Option.some.inj h).symm⟩
        | str t => rw [pyLt_int_str] at h; cases h
      | str s =>
        cases y with
        | int y => rw [pyLt_str_int] at h; cases h
        | str t => rw [pyLt_str] at h; exact .inr ⟨s, t, rfl, rfl, (Option.some.inj h).symm⟩
    | tup l => cases x <;> cases h
    | none => cases x <;> cases h
  | tup l => cases h
  | none => cases h

theorem pyLt_irrefl (a : PyId) : pyLt? a a ≠ some true := by
  intro h
  rcases pyLt_cases h with ⟨x, y, e1, e2, hr⟩ | ⟨s, t, e1, e2, hr⟩
  · rw [e1] at e2; cases e2
    have : x < x := of_decide_eq_true hr.symm
    omega
  · rw [e1] at e2; cases e2
    exact lt_irrefl s (of_decide_eq_true hr.symm)

theorem pyLt_trans {a b c : PyId} (h1 : pyLt? a b = some true) (h2 : pyLt? b c = some true) : pyLt? a c = some true := by
  rcases pyLt_cases h1 with ⟨x, y, e1, e2, hr⟩ | ⟨s, t, e1, e2, hr⟩
  · rcases pyLt_cases h2 with ⟨y', z, e3, e4, hr'⟩ | ⟨s', t', e3, e4, hr'⟩
    · rw [e2] at e3; cases e3
      have hxy : x < y := of_decide_eq_true hr.symm
      have hyz : y < z := of_decide_eq_true hr'.symm
      rw [e1, e4, pyLt_int]
      exact congrArg some (decide_eq_true (by omega))
    · rw [e2] at e3; cases e3
  · rcases pyLt_cases h2 with ⟨y', z, e3, e4, hr'⟩ | ⟨s', u, e3, e4, hr'⟩
    · rw [e2] at e3; cases e3
    · rw [e2] at e3; cases e3
      have hst : s < t := of_decide_eq_true hr.symm
      have htu : t < u := of_decide_eq_true hr'.symm
      rw [e1, e4, pyLt_str]
      exact congrArg some (decide_eq_true (lt_trans hst htu))

theorem pyLt_total {a b : PyId} (h1 : pyLt? a b = some false) (h2 : pyLt? b a = some false) : a = b := by
  rcases pyLt_cases h1 with ⟨x, y, e1, e2, hr⟩ | ⟨s, t, e1, e2, hr⟩
  · subst e1 e2
    rw [pyLt_int] at h2
    have n1 : ¬ x < y := of_decide_eq_false hr.symm
    have n2 : ¬ y < x := of_decide_eq_false (Option.some.inj h2)
    have : x = y := by omega
    rw [this]
  · subst e1 e2
    rw [pyLt_str] at h2
    have n1 : ¬ s < t := of_decide_eq_false hr.symm
    have n2 : ¬ t < s := of_decide_eq_false (Option.some.inj h2)
    rcases lt_trichotomy s t with h | h | h
    · exact absurd h n1
    · rw [h]
    · exact absurd h n2

theorem sortable_iff {l : List PyId} : sortable l = true ↔ ∀ x ∈ l, ∀ y ∈ l, (pyLt? x y).isSome = true := by
  simp [sortable, List.all_eq_true]

theorem sortable_of_subset {l l' : List PyId} (hs : ∀ x ∈ l', x ∈ l) (h : sortable l = true) : sortable l' = true := by
  rw [sortable_iff] at h ⊢
  exact fun x hx y hy => h x (hs x hx) y (hs y hy)

/-! ### the minimum scan -/

abbrev minStep (m x : PyId) : PyId := if pyLt? x m = some true then x else m

theorem foldl_min_mem (t : List PyId) (a : PyId) : t.foldl minStep a ∈ a :: t := by
  induction t generalizing a with
  | nil => simp
  | cons x t ih =>
    simp only [List.foldl_cons]
    rcases List.mem_cons.1 (ih (minStep a x)) with h | h
    · rw [h]
      unfold minStep
      split <;> simp
    · exact List.mem_cons_of_mem _ (List.mem_cons_of_mem _ h)

theorem foldl_min_le (t : List PyId) (a : PyId) (seen : List PyId) (hpre : ∀ x ∈ seen, pyLt? x a ≠ some true) :
    ∀ x ∈ seen ++ t, pyLt? x (t.foldl minStep a) ≠ some true := by
  induction t generalizing a seen with
  | nil => simpa using hpre
  | cons y t ih =>
    simp only [List.foldl_cons]
    have hmem : ∀ x, x ∈ seen ++ y :: t ↔ x ∈ (seen ++ [y]) ++ t := by intro x; simp
    intro x hx
    rw [hmem] at hx
    by_cases hy : pyLt? y a = some true
    · have e : minStep a y = y := by simp [minStep, hy]
      rw [e]
      refine ih y (seen ++ [y]) ?_ x hx
      intro z hz
      simp only [List.mem_append, List.mem_singleton] at hz
      rcases hz with hz | rfl
      · exact fun hlt => hpre z hz (pyLt_trans hlt hy)
      · exact pyLt_irrefl z
    · have e : minStep a y = a := by simp [minStep, hy]
      rw [e]
      refine ih a (seen ++ [y]) ?_ x hx
      intro z hz
      simp only [List.mem_append, List.mem_singleton] at hz
      rcases hz with hz | rfl
      · exact hpre z hz
      · exact hy

theorem minId_mem {l : List PyId} {m : PyId} (h : minId l = some m) : m ∈ l := by
  cases l with
  | nil => simp [minId] at h
  | cons a t => simp only [minId, Option.some.injEq] at h; rw [← h]; exact foldl_min_mem t a

theorem minId_le {l : List PyId} {m : PyId} (h : minId l = some m) : ∀ x ∈ l, pyLt? x m ≠ some true := by
  cases l with
  | nil => simp [minId] at h
  | cons a t =>
    simp only [minId, Option.some.injEq] at h
    rw [← h]
    have := foldl_min_le t a [a] (by intro x hx; simp at hx; subst hx; exact pyLt_irrefl x)
    simpa using this

theorem minId_isSome {l : List PyId} (hne : l ≠ []) : ∃ m, minId l = some m := by
  cases l with
  | nil => exact absurd rfl hne
  | cons a t => exact ⟨_, rfl⟩

/-- the minimum of a sortable list depends only on its set of elements -/
theorem minId_unique {l l' : List PyId} (hs : sortable l = true) (hm : ∀ x, x ∈ l' ↔ x ∈ l) {m m' : PyId}
    (h : minId l = some m) (h' : minId l' = some m') : m = m' := by
  have hmem := minId_mem h
  have hmem' := (hm _).1 (minId_mem h')
  have c1 := sortable_iff.1 hs m hmem m' hmem'
  have c2 := sortable_iff.1 hs m' hmem' m hmem
  have n1 := minId_le h m' hmem'
  have n2 := minId_le h' m ((hm _).2 hmem)
  cases e1 : pyLt? m' m with
  | none => rw [e1] at c2; cases c2
  | some b1 =>
    cases e2 : pyLt? m m' with
    | none => rw [e2] at c1; cases c1
    | some b2 =>
      cases b1 <;> cases b2 <;> simp_all
      exact pyLt_total e2 e1

/-! ### what `duplicates()` keeps out of a class -/

theorem keptOf_spec {cls : List PyId} (hne : cls ≠ []) :
    ∃ k, keptOf cls = some k ∧ k ∈ cls ∧
      (sortable cls = true → ∀ x ∈ cls, pyLt? x k ≠ some true) ∧
      (sortable cls = false → cls.head? = some k) := by
  unfold keptOf
  by_cases hs : sortable cls = true
  · obtain ⟨m, hm⟩ := minId_isSome hne
    exact ⟨m, by simp [hs, hm], minId_mem hm, fun _ => minId_le hm, fun h => (by rw [hs] at h; cases h)⟩
  · cases cls with
    | nil => exact absurd rfl hne
    | cons a t =>
      have hs' : sortable (a :: t) = false := by simpa using hs
      exact ⟨a, by simp [hs'], by simp, fun h => (by rw [hs'] at h; cases h), fun _ => rfl⟩

theorem sameSet_refl (a : List PyId) : sameSet a a = true := by simp [sameSet]

theorem mem_twins_self {v : View} {e : PyId} (he : e ∈ v.eids) : e ∈ twins v e := by
  simp [twins, he, sameSet_refl]

theorem exists_ne_of_one_lt_length {l : List PyId} (hn : l.Nodup) {e : PyId} (hl : 1 < l.length) : ∃ j ∈ l, j ≠ e := by
  by_contra hcon
  have hall : ∀ j ∈ l, j = e := by
    intro j hj; by_contra hne; exact hcon ⟨j, hj, hne⟩
  have hsub : l ⊆ [e] := fun j hj => by simp [hall j hj]
  have := (List.subperm_of_subset hn hsub).length_le
  simp at this
  omega

theorem one_lt_length_of_two {l : List PyId} {e j : PyId} (he : e ∈ l) (hj : j ∈ l) (hne : j ≠ e) : 1 < l.length := by
  have hn : [e, j].Nodup := by simp [Ne.symm hne]
  have hsub : [e, j] ⊆ l := by intro x hx; simp at hx; rcases hx with rfl | rfl <;> assumption
  have := (List.subperm_of_subset hn hsub).length_le
  simp at this
  omega

theorem twins_big_iff {v : View} (hn : v.eids.Nodup) {e : PyId} (he : e ∈ v.eids) :
    1 < (twins v e).length ↔ ∃ j ∈ v.eids, j ≠ e ∧ sameSet (v.mem j) (v.mem e) = true := by
  constructor
  · intro hl
    obtain ⟨j, hj, hne⟩ := exists_ne_of_one_lt_length (e := e) (hn.filter _) hl
    simp only [List.mem_filter] at hj
    exact ⟨j, hj.1, hne, hj.2⟩
  · rintro ⟨j, hj, hne, hs⟩
    exact one_lt_length_of_two (mem_twins_self he) (by simp [twins, hj, hs]) hne

theorem mem_duplicates {v : View} (hn : v.eids.Nodup) {e : PyId} :
    e ∈ duplicates v ↔ e ∈ dupEdges v ∧ keptOf (twins v e) ≠ some e := by
  simp only [duplicates, dupEdges, List.mem_filter, Bool.and_eq_true, decide_eq_true_eq, List.any_eq_true, gt_iff_lt]
  constructor
  · rintro ⟨he, hl, hk⟩
    obtain ⟨j, hj, hne, hs⟩ := (twins_big_iff hn he).1 hl
    exact ⟨⟨he, j, hj, hne, hs⟩, hk⟩
  · rintro ⟨⟨he, j, hj, hne, hs⟩, hk⟩
    exact ⟨he, (twins_big_iff hn he).2 ⟨j, hj, hne, hs⟩, hk⟩

/-! ### relabelling: equivariant when `σ` preserves Python's order on IDs -/

/-- `σ` preserves comparability and order of IDs (e.g. a monotone map between ints, or ints to ints and strs to
    strs monotonically) -/
def OrdPres (σ : PyId → PyId) : Prop := ∀ a b, pyLt? (σ a) (σ b) = pyLt? a b

theorem sortable_map {σ : PyId → PyId} (ho : OrdPres σ) (l : List PyId) : sortable (l.map σ) = sortable l := by
  simp only [sortable, List.all_map, Function.comp_def, ho _ _]

theorem foldl_min_map {σ : PyId → PyId} (ho : OrdPres σ) (t : List PyId) (a : PyId) :
    (t.map σ).foldl minStep (σ a) = σ (t.foldl minStep a) := by
  induction t generalizing a with
  | nil => rfl
  | cons x t ih =>
    simp only [List.map_cons, List.foldl_cons]
    have : minStep (σ a) (σ x) = σ (minStep a x) := by
      unfold minStep; rw [ho]; split <;> rfl
    rw [this, ih]

theorem minId_map {σ : PyId → PyId} (ho : OrdPres σ) (l : List PyId) : minId (l.map σ) = (minId l).map σ := by
  cases l with
  | nil => rfl
  | cons a t => simp only [List.map_cons, minId, Option.map_some, foldl_min_map ho]

theorem keptOf_map {σ : PyId → PyId} (ho : OrdPres σ) (l : List PyId) : keptOf (l.map σ) = (keptOf l).map σ := by
  unfold keptOf
  rw [sortable_map ho, minId_map ho]
  split
  · rfl
  · cases l <;> rfl

theorem duplicates_ren {π σ : PyId → PyId} {v v' : View} (hπ : Injective π) (hσ : Injective σ) (ho : OrdPres σ)
    (hr : VRen π σ v v') : duplicates v' = (duplicates v).map σ := by
  simp only [duplicates, hr.eids, List.filter_map, Function.comp_def, twins_ren hπ hr, List.length_map, keptOf_map ho]
  congr 1
  apply List.filter_congr
  intro e _
  congr 2
  cases h : keptOf (twins v e) with
  | none => simp
  | some k => simp [inj_eq hσ]

/-! ### re-insertion: invariant when the edge IDs are mutually comparable -/

theorem keptOf_perm {l l' : List PyId} (hp : l'.Perm l) (hs : sortable l = true) : keptOf l' = keptOf l := by
  have hs' : sortable l' = true := sortable_of_subset (fun x hx => hp.mem_iff.1 hx) hs
  unfold keptOf
  rw [hs, hs']
  simp only [if_true]
  cases l with
  | nil => rw [List.perm_nil.1 hp]
  | cons a t =>
    obtain ⟨m, hm⟩ := minId_isSome (l := a :: t) (by simp)
    have hne' : l' ≠ [] := by intro e; rw [e] at hp; simp at hp
    obtain ⟨m', hm'⟩ := minId_isSome hne'
    rw [hm, hm', minId_unique hs (fun x => hp.mem_iff) hm hm']

theorem duplicates_perm {v v' : View} (hp : VPerm v v') (hs : sortable v.eids = true) :
    (duplicates v').Perm (duplicates v) :=
  filter_perm_of hp.eids (fun e => by
    have ht := twins_perm hp e
    have hst : sortable (twins v e) = true := sortable_of_subset (fun x hx => (List.mem_filter.1 hx).1) hs
    rw [ht.length_eq, keptOf_perm ht hst])

/-- in a well-formed network an edge has at most as many members as there are nodes -/
theorem size_le_nodes {h : Net} (hw : h.WF) (e : PyId) : size (view h) e ≤ (view h).nodes.length := by
  simp only [size, view, Net.members]
  cases hf : h.edges.find? (·.1 = e) with
  | none => simp
  | some q =>
    have hq := hw.2.2 q (List.mem_of_find?_eq_some hf)
    simpa using (List.subperm_of_subset hq.1 (fun n hn => hq.2 n hn)).length_le

end Xgi.C09
