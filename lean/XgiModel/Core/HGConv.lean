/-
  Provenances of an undirected hypergraph, as compositions of the public calls of Core/HG.lean:
  `copy()`, `dual()`, `Hypergraph(H)` / `to_hypergraph(H)`, `from_hyperedge_list`, `from_hyperedge_dict`,
  `from_bipartite_edgelist`, `from_incidence_matrix` (xgi/core/hypergraph.py, xgi/convert/*.py).
  Each builds a fresh empty hypergraph and fills it through `add_nodes_from` / `add_edges_from` /
  `add_node_to_edge`; only `_net_attr` (all three state-based ones) and `_edge_uid` (`copy`) are
  assigned directly afterwards.
-/
import XgiModel.Core.HG

namespace Xgi.HG

/-- run calls in order; a raising call ends the run (the converter propagates the exception) -/
def runStop : HG → List Op → Option (HG × Outcome)
  | s, [] => some (s, .ok)
  | s, op :: ops =>
    match step s op with
    | none => none
    | some (s', .err k) => some (s', .err k)
    | some (s', o) => match runStop s' ops with
      | none => none
      | some (t, o') => some (t, o.join o')

def rebuildNodeItems (s : HG) : List (PyId × Option Attrs) := s.nodes.map fun n => (n, some (s.nattr n))
def rebuildEdgeItems (s : HG) : List EdgeItem :=
  s.edges.map fun e => { members := s.mem e, idx := some e, attr := s.eattr e }

/-- `cp.add_nodes_from((n, attr) …); cp.add_edges_from((members, idx, attr) …)` -/
def rebuildOps (s : HG) : List Op := [.addNodesFrom (rebuildNodeItems s) [], .addEdgesFrom .f4 (rebuildEdgeItems s) []]

/-- `Hypergraph(H)` / `to_hypergraph(H)`: rebuild, then `_net_attr = deepcopy(...)`; the counter is whatever
    the explicit IDs left it at -/
def toHypergraphOf (s : HG) : Option (HG × Outcome) :=
  (runStop HG.empty (rebuildOps s)).map fun r => ({ r.1 with net := s.net }, r.2)

/-- `H.copy()`: the same, and `cp._edge_uid = copy(self._edge_uid)` -/
def copyOf (s : HG) : Option (HG × Outcome) :=
  (runStop HG.empty (rebuildOps s)).map fun r => ({ r.1 with net := s.net, uid := s.uid }, r.2)

/-- `H.dual()`: edges from the memberships of each node (ID and attributes of the node), then the old edge IDs
    as nodes with the edge attributes -/
def dualOps (s : HG) : List Op :=
  [ .addEdgesFrom .f4 (s.nodes.map fun n => { members := s.memb n, idx := some n, attr := s.nattr n }) [],
    .addNodesFrom (s.edges.map fun e => (e, some (s.eattr e))) [] ]

def dualOf (s : HG) : Option (HG × Outcome) :=
  (runStop HG.empty (dualOps s)).map fun r => ({ r.1 with net := s.net }, r.2)

/-- `from_hyperedge_list(l)` / `Hypergraph(l)` -/
def edgeListOps (l : List (List PyId)) : List Op :=
  [.addEdgesFrom .f1 (l.map fun ms => { members := ms, idx := none, attr := [] }) []]

/-- `from_hyperedge_dict(d)` / `Hypergraph(d)`: `add_edges_from((members, uid) for uid, members in d.items())` -/
def edgeDictOps (d : List (PyId × List PyId)) : List Op :=
  [.addEdgesFrom .f2 (d.map fun p => { members := p.2, idx := some p.1, attr := [] }) []]

/-- `from_bipartite_edgelist([(n, e), …])`: one `add_node_to_edge(e, n)` per pair -/
def bipartiteOps (pairs : List (PyId × PyId)) : List Op := pairs.map fun p => .addNodeToEdge p.2 p.1

/-- `from_incidence_matrix`: the nonzero entries `(row, col)` in COO order, labels by position
    (`none` = default labels 0..k-1); a label list of the wrong length raises before anything is built -/
def incidenceOps (n m : Nat) (entries : List (Nat × Nat)) (nodelabels edgelabels : Option (List PyId)) :
    Option (List Op) :=
  let okN := match nodelabels with | none => true | some l => l.length == n
  let okE := match edgelabels with | none => true | some l => l.length == m
  if !okN || !okE then none else
  let nl := fun (i : Nat) => match nodelabels with | none => PyId.int i | some l => l.getD i .none
  let el := fun (j : Nat) => match edgelabels with | none => PyId.int j | some l => l.getD j .none
  some (entries.map fun p => .addNodeToEdge (el p.2) (nl p.1))

def incidenceOf (n m : Nat) (entries : List (Nat × Nat)) (nodelabels edgelabels : Option (List PyId)) :
    Option (HG × Outcome) :=
  match incidenceOps n m entries nodelabels edgelabels with
  | none => some (HG.empty, .err .lib)
  | some ops => runStop HG.empty ops

end Xgi.HG
