/-
  Model of `xgi.core.hypergraph.Hypergraph` (undirected), method by method.
  State = the six dicts + the `itertools.count` + the frozen flag.
  Dicts are (key list in insertion order, total lookup function); Python sets are
  duplicate-free lists whose order is never observed.
  Each mutator is `HG → args → HG × Outcome`; the state of an `err` result is what the
  Python code leaves behind when it raises.
  Set-iteration orders and RNG results that influence dict order are explicit arguments
  (`members` of `addEdge` arrives in `set(members)` iteration order; `choice` of
  `randomEdgeShuffle` is what `random.sample` returned).
-/
import XgiModel.Base

namespace Xgi

inductive ErrKind where
  | lib        -- XGIError / IDNotFound (the library's own types)
  | typeError
  | valueError
  | other
  deriving DecidableEq, Repr, Inhabited

inductive Outcome where
  | ok
  | warned
  | err (k : ErrKind)
  deriving DecidableEq, Repr, Inhabited

def Outcome.isErr : Outcome → Bool
  | .err _ => true
  | _ => false

/-- outcome of two successive non-raising pieces -/
def Outcome.join : Outcome → Outcome → Outcome
  | .err k, _ => .err k
  | _, .err k => .err k
  | .warned, _ => .warned
  | _, .warned => .warned
  | .ok, .ok => .ok

structure HG where
  nodes : List PyId            -- keys of `_node`, insertion order
  edges : List PyId            -- keys of `_edge`, insertion order
  memb  : PyId → List PyId     -- `_node[n]`  : edge ids containing n
  mem   : PyId → List PyId     -- `_edge[e]`  : member node ids
  nattrK : List PyId           -- keys of `_node_attr`
  eattrK : List PyId           -- keys of `_edge_attr`
  nattr : PyId → Attrs
  eattr : PyId → Attrs
  net   : Attrs
  uid   : Nat                  -- next value of `_edge_uid`
  frozen : Bool

def HG.empty : HG :=
  { nodes := [], edges := [], memb := fun _ => [], mem := fun _ => [], nattrK := [], eattrK := [],
    nattr := fun _ => [], eattr := fun _ => [], net := [], uid := 0, frozen := false }

instance : Inhabited HG := ⟨HG.empty⟩

namespace HG

/-! ### primitives (each mirrors 1–4 lines of Python) -/

/-- `if n not in self._node: self._node[n] = set(); self._node_attr[n] = {}` -/
def addNodeRaw (s : HG) (n : PyId) : HG :=
  if n ∈ s.nodes then s else
  { s with nodes := s.nodes ++ [n], memb := upd s.memb n [],
           nattrK := ins n s.nattrK, nattr := upd s.nattr n [] }

/-- `self._node_attr[n].update(a)` -/
def updNodeAttr (s : HG) (n : PyId) (a : Attrs) : HG :=
  { s with nattr := upd s.nattr n ((s.nattr n).update a) }

/-- `self._edge_attr[e].update(a)` -/
def updEdgeAttr (s : HG) (e : PyId) (a : Attrs) : HG :=
  { s with eattr := upd s.eattr e ((s.eattr e).update a) }

/-- `self._edge[e] = set()` for a new key `e` -/
def newEdgeRaw (s : HG) (e : PyId) : HG :=
  { s with edges := s.edges ++ [e], mem := upd s.mem e [] }

/-- `self._edge_attr[e] = {}` -/
def newEdgeAttr (s : HG) (e : PyId) : HG :=
  { s with eattrK := ins e s.eattrK, eattr := upd s.eattr e [] }

/-- `self._node[n].add(e); self._edge[e].add(n)` -/
def linkCore (s : HG) (e n : PyId) : HG :=
  { s with memb := upd s.memb n (ins e (s.memb n)), mem := upd s.mem e (ins n (s.mem e)) }

/-- node `n` (created if absent) joins edge `e`: both tables updated -/
def link (s : HG) (e n : PyId) : HG := linkCore (addNodeRaw s n) e n

/-- `update_uid_counter(H, idx)` -/
def bumpUid (s : HG) (idx : PyId) : HG :=
  match idx with
  | .atom (.int i) => if (s.uid : Int) ≤ i then { s with uid := (i + 1).toNat } else s
  | _ => s

/-- `for node in self._edge[e]: self._node[node].remove(e); del self._edge[e]; del self._edge_attr[e]` -/
def dropEdge (s : HG) (e : PyId) : HG :=
  { s with memb := fun n => if n ∈ s.mem e then rm e (s.memb n) else s.memb n,
           edges := rm e s.edges, eattrK := rm e s.eattrK }

/-- `del self._edge[e]; del self._edge_attr[e]` (memberships untouched) -/
def delEdgeOnly (s : HG) (e : PyId) : HG :=
  { s with edges := rm e s.edges, eattrK := rm e s.eattrK }

/-- create edge `e` (absent) with the given members and attributes -/
def addEdgeAt (s : HG) (e : PyId) (ms : List PyId) (a : Attrs) : HG :=
  -- (the attribute record is written after the memberships in the Python; the two writes touch
  --  different dicts and nothing can raise in between once the members are validated)
  ms.foldl (fun s n => link s e n) (updEdgeAttr (newEdgeAttr (newEdgeRaw s e) e) e a)

/-! ### nodes -/

def addNode (s : HG) (n : PyId) (a : Attrs) : HG × Outcome :=
  if n = .none then (s, .err .lib) else
  (updNodeAttr (addNodeRaw s n) n a, .ok)

/-- one item of `add_nodes_from`: a bare id or an `(id, dict)` pair -/
def addNodesItem (attr : Attrs) (s : HG) (it : PyId × Option Attrs) : HG × Outcome :=
  let (n, od) := it
  if n = .none ∧ n ∉ s.nodes then (s, .err .lib) else
  let nd := match od with | none => attr | some d => attr.update d
  (updNodeAttr (addNodeRaw s n) n nd, .ok)

/-- iterate `f` over the items, stop at the first raise (state so far is kept) -/
def bulk {α : Type} (f : HG → α → HG × Outcome) : HG → List α → HG × Outcome
  | s, [] => (s, .ok)
  | s, a :: t =>
    match f s a with
    | (s', .err k) => (s', .err k)
    | (s', o) => let r := bulk f s' t; (r.1, o.join r.2)

def addNodesFrom (s : HG) (items : List (PyId × Option Attrs)) (attr : Attrs) : HG × Outcome :=
  bulk (addNodesItem attr) s items

/-- a call, from inside a library function, of a public method that `freeze()` replaces by
    `frozen`: on a frozen network it raises before doing anything -/
def guardF (s : HG) (r : HG × Outcome) : HG × Outcome :=
  if s.frozen then (s, .err .lib) else r

/-- weak removal: `for edge in self._node[n]: self._edge[edge].remove(n); if not self._edge[edge] and
    remove_empty: del self._edge[edge]; del self._edge_attr[edge]` — the loop bodies touch disjoint
    entries, so the loop is written as one simultaneous update -/
def removeNodeWeak (s : HG) (n : PyId) (removeEmpty : Bool) : HG :=
  let inc := s.memb n
  let gone (e : PyId) : Bool := decide (e ∈ inc) && (rm n (s.mem e)).isEmpty && removeEmpty
  { s with nodes := rm n s.nodes, nattrK := rm n s.nattrK,
           mem := fun e => if e ∈ inc then rm n (s.mem e) else s.mem e,
           edges := s.edges.filter (fun e => !gone e),
           eattrK := s.eattrK.filter (fun e => !gone e) }

/-- strong removal: `for e in self._node[n]: del self._edge[e]; del self._edge_attr[e];
    for node in members(e) - {n}: self._node[node].remove(e)` as one simultaneous update -/
def removeNodeStrong (s : HG) (n : PyId) : HG :=
  let inc := s.memb n
  { s with nodes := rm n s.nodes, nattrK := rm n s.nattrK,
           edges := s.edges.filter (fun e => e ∉ inc),
           eattrK := s.eattrK.filter (fun e => e ∉ inc),
           memb := fun m => (s.memb m).filter (fun e => ¬ (e ∈ inc ∧ m ∈ s.mem e ∧ m ≠ n)) }

def removeNode (s : HG) (n : PyId) (strong removeEmpty : Bool) : HG × Outcome :=
  if n ∉ s.nodes then (s, .err .lib) else
  if strong then (removeNodeStrong s n, .ok) else (removeNodeWeak s n removeEmpty, .ok)

def removeNodesItem (strong removeEmpty : Bool) (s : HG) (n : PyId) : HG × Outcome :=
  if n ∉ s.nodes then (s, .warned) else removeNode s n strong removeEmpty

def removeNodesFrom (s : HG) (ns : List PyId) (strong removeEmpty : Bool) : HG × Outcome :=
  bulk (removeNodesItem strong removeEmpty) s ns

/-! ### edges -/

/-- `add_edge(members, idx, **attr)`; `ms` is `set(members)` in iteration order -/
def addEdge (s : HG) (ms : List PyId) (idx : Option PyId) (a : Attrs) : HG × Outcome :=
  if PyId.none ∈ ms ∨ idx = some .none then (s, .err .lib) else
  match idx with
  | some i =>
    if i ∈ s.edges then (s, .warned) else
    (bumpUid (addEdgeAt s i (dedup ms) a) i, .ok)
  | none =>
    let i := PyId.int s.uid
    let s := { s with uid := s.uid + 1 }
    (addEdgeAt s i (dedup ms) a, .ok)

inductive Fmt where
  | f1 | f2 | f3 | f4 | f5
  deriving DecidableEq, Repr, Inhabited

/-- one item of a bulk edge addition: members as given (list order, duplicates possible),
    explicit id (formats 2,4,5), per-edge attributes (formats 3,4) -/
structure EdgeItem where
  members : List PyId
  idx : Option PyId
  attr : Attrs
  deriving Inhabited

def Fmt.explicit : Fmt → Bool
  | .f2 | .f4 | .f5 => true
  | _ => false

/-- loop body of `add_edges_from` -/
def addEdgesItem (fmt : Fmt) (attr : Attrs) (s : HG) (it : EdgeItem) : HG × Outcome :=
  -- the id: automatic in formats 1 and 3 (the counter is consumed first), explicit otherwise
  let (s, idx) : HG × PyId :=
    if fmt.explicit then (s, it.idx.getD .none)
    else ({ s with uid := s.uid + 1 }, PyId.int s.uid)
  if idx ∈ s.edges then (s, .warned) else
  if PyId.none ∈ it.members ∨ idx = .none then (s, .err .lib) else
  let a := if fmt = .f5 then [] else attr.update it.attr
  let s := addEdgeAt s idx (dedup it.members) a
  (if fmt.explicit then bumpUid s idx else s, .ok)

def isStr : PyId → Bool
  | .atom (.str _) => true
  | _ => false

def addEdgesFrom (s : HG) (fmt : Fmt) (items : List EdgeItem) (attr : Attrs) : HG × Outcome :=
  match fmt, items with
  | .f1, it :: _ =>
    -- format detection looks at the first edge: first member a string but not all members strings
    -- -> "Members cannot be specified as a string" (an empty first edge is an ordinary member list)
    match it.members with
    | [] => bulk (addEdgesItem fmt attr) s items
    | m0 :: _ =>
      if isStr m0 ∧ ¬ it.members.all isStr then (s, .err .lib)
      else bulk (addEdgesItem fmt attr) s items
  | _, _ => bulk (addEdgesItem fmt attr) s items

def addNodeToEdge (s : HG) (e n : PyId) : HG × Outcome :=
  if e = .none ∨ n = .none then (s, .err .lib) else
  let s := if e ∈ s.edges then s else bumpUid (newEdgeAttr (newEdgeRaw s e) e) e
  (link s e n, .ok)

def removeEdge (s : HG) (e : PyId) : HG × Outcome :=
  if e ∉ s.edges then (s, .err .lib) else (dropEdge s e, .ok)

def removeEdgesFrom (s : HG) (es : List PyId) : HG × Outcome := bulk removeEdge s es

def removeNodeFromEdge (s : HG) (e n : PyId) (removeEmpty : Bool) : HG × Outcome :=
  if e ∉ s.edges then (s, .err .lib)
  else if n ∉ s.nodes then (s, .err .lib)
  else if n ∉ s.mem e then (s, .err .lib)
  else
    let s := { s with mem := upd s.mem e (rm n (s.mem e)), memb := upd s.memb n (rm e (s.memb n)) }
    (if (s.mem e).isEmpty ∧ removeEmpty then delEdgeOnly s e else s, .ok)

/-! ### attributes -/

/-- argument shapes of `set_node_attributes` / `set_edge_attributes` -/
inductive AttrArg where
  | dictName (vals : List (PyId × Val)) (name : String)   -- values = {id: v}, name given
  | constName (v : Val) (name : String)                    -- values = constant, name given
  | dictOfDict (vals : List (PyId × Attrs))                -- values = {id: {k: v}}
  | badNoName                                              -- values not a dict, no name
  deriving Inhabited

def setNodeAttrs (s : HG) (arg : AttrArg) : HG × Outcome :=
  match arg with
  | .dictName vals name =>
    bulk (fun s (p : PyId × Val) =>
      if p.1 ∈ s.nattrK then (updNodeAttr s p.1 [(name, p.2)], .ok) else (s, .warned)) s vals
  | .constName v name => (s.nodes.foldl (fun s n => updNodeAttr s n [(name, v)]) s, .ok)
  | .dictOfDict vals =>
    bulk (fun s (p : PyId × Attrs) =>
      if p.1 ∈ s.nattrK then (updNodeAttr s p.1 p.2, .ok) else (s, .warned)) s vals
  | .badNoName => (s, .err .lib)

def setEdgeAttrs (s : HG) (arg : AttrArg) : HG × Outcome :=
  match arg with
  | .dictName vals name =>
    bulk (fun s (p : PyId × Val) =>
      if p.1 ∈ s.eattrK then (updEdgeAttr s p.1 [(name, p.2)], .ok) else (s, .warned)) s vals
  | .constName v name => (s.edges.foldl (fun s e => updEdgeAttr s e [(name, v)]) s, .ok)
  | .dictOfDict vals =>
    bulk (fun s (p : PyId × Attrs) =>
      if p.1 ∈ s.eattrK then (updEdgeAttr s p.1 p.2, .ok) else (s, .warned)) s vals
  | .badNoName => (s, .err .lib)

def setNetAttr (s : HG) (k : String) (v : Val) : HG × Outcome :=
  ({ s with net := s.net.set k v }, .ok)

/-! ### degree/size preserving moves -/

def doubleEdgeSwap (s : HG) (n1 n2 e1 e2 : PyId) : HG × Outcome :=
  if n1 ∉ s.nodes ∨ n2 ∉ s.nodes ∨ e1 ∉ s.edges ∨ e2 ∉ s.edges then (s, .err .lib) else
  if n1 ∉ s.mem e1 ∨ n2 ∉ s.mem e2 then (s, .err .lib) else
  let members1 := ins n2 (rm n1 (s.mem e1))
  let members2 := ins n1 (rm n2 (s.mem e2))
  if e1 ∉ s.memb n1 ∨ e2 ∉ s.memb n2 then (s, .err .lib) else
  let memberships1 := ins e2 (rm e1 (s.memb n1))
  let memberships2 := ins e1 (rm e2 (s.memb n2))
  if memberships1.length ≠ (s.memb n1).length ∨ memberships2.length ≠ (s.memb n2).length
     ∨ members1.length ≠ (s.mem e1).length ∨ members2.length ≠ (s.mem e2).length
  then (s, .err .lib) else
  ({ s with memb := upd (upd s.memb n1 memberships1) n2 memberships2,
            mem := upd (upd s.mem e1 members1) e2 members2 }, .ok)

/-- `random_edge_shuffle(e1, e2)`; `choice` is the result of the second `random.sample`
    (a sub-list of the pooled non-shared nodes of the size of `e1`'s non-shared part).
    An inadmissible `choice` is answered `none` (the driver reports bad-op). -/
def randomEdgeShuffle (s : HG) (e1 e2 : PyId) (choice : List PyId) : Option (HG × Outcome) :=
  if s.edges.length < 2 then some (s, .err .valueError) else
  if e1 ∉ s.edges ∨ e2 ∉ s.edges then some (s, .err .lib) else
  if e1 = e2 then some (s, .ok) else
  let both := (s.mem e1).filter (· ∈ s.mem e2)
  let r1 := (s.mem e1).filter (· ∉ both)
  let r2 := (s.mem e2).filter (· ∉ both)
  let pool := r1 ++ r2
  if ¬ (choice.Nodup ∧ choice.length = r1.length ∧ ∀ x ∈ choice, x ∈ pool) then none else
  let e1new := choice
  let e2new := pool.filter (· ∉ choice)
  -- nodes moving from e2 to e1, and from e1 to e2
  let memb1 : PyId → List PyId := fun n => if n ∈ e1new ∧ n ∈ r2 then ins e1 (rm e2 (s.memb n)) else s.memb n
  let memb2 : PyId → List PyId := fun n => if n ∈ e2new ∧ n ∈ r1 then ins e2 (rm e1 (memb1 n)) else memb1 n
  some ({ s with memb := memb2, mem := upd (upd s.mem e1 (e1new ++ both)) e2 (e2new ++ both) }, .ok)

/-! ### update / clear -/

def clear (s : HG) (removeNetAttr : Bool) : HG × Outcome :=
  ({ s with nodes := [], edges := [], nattrK := [], eattrK := [],
            net := if removeNetAttr then [] else s.net }, .ok)

def clearEdges (s : HG) : HG × Outcome :=
  ({ s with memb := fun n => if n ∈ s.nodes then [] else s.memb n, edges := [], eattrK := [] }, .ok)

/-! ### ordering of IDs (Python `sorted` / `min`) -/

inductive IdClass where | int | str | intTup | strTup | mixed | none deriving DecidableEq

def idClass : PyId → IdClass
  | .atom (.int _) => .int
  | .atom (.str _) => .str
  | .tup l => if l.all (fun a => match a with | .int _ => true | _ => false) then .intTup
              else if l.all (fun a => match a with | .str _ => true | _ => false) then .strTup else .mixed
  | .none => .none

def atomLt : Atom → Atom → Bool
  | .int a, .int b => a < b
  | .str a, .str b => a < b
  | _, _ => false

def atomListLt : List Atom → List Atom → Bool
  | [], [] => false
  | [], _ :: _ => true
  | _ :: _, [] => false
  | a :: as, b :: bs => if atomLt a b then true else if atomLt b a then false else atomListLt as bs

def idLt : PyId → PyId → Bool
  | .atom a, .atom b => atomLt a b
  | .tup a, .tup b => atomListLt a b
  | _, _ => false

def insertSorted (x : PyId) : List PyId → List PyId
  | [] => [x]
  | y :: t => if idLt x y then x :: y :: t else y :: insertSorted x t

/-- `sorted(ids)`: `none` when Python raises `TypeError` (IDs of different kinds) -/
def sortedIds (l : List PyId) : Option (List PyId) :=
  match l with
  | [] => some []
  | x :: _ =>
    let c := idClass x
    if c = .mixed ∨ c = .none ∨ ¬ l.all (fun y => idClass y = c) then
      (if l.length ≤ 1 then some l else none)
    else some (l.foldr insertSorted [])

/-! ### merge_duplicate_edges -/

inductive Rename where | first | tuple | new | invalid deriving DecidableEq, Repr, Inhabited
inductive MergeRule where | first | union | intersection | invalid deriving DecidableEq, Repr, Inhabited

/-- groups of edge ids with equal member sets, in order of first occurrence
    (the `hashes` dict keyed by `frozenset(members)`) -/
def sameSet (a b : List PyId) : Bool := a.all (· ∈ b) && b.all (· ∈ a)

def groupDups (s : HG) : List (List PyId) :=
  s.edges.foldl (fun (gs : List (List PyId)) e =>
    if gs.any (fun g => match g with | r :: _ => sameSet (s.mem r) (s.mem e) | [] => false)
    then gs.map (fun g => match g with
      | r :: _ => if sameSet (s.mem r) (s.mem e) then g ++ [e] else g
      | [] => g)
    else gs ++ [[e]]) []

def scalarOf? : Val → Option Scalar
  | .sc (.opaque t) => if t.startsWith "(" then some (.opaque t) else none  -- tuples are hashable; lists / dicts are not
  | .sc x => some x
  | .set _ => none               -- a set is unhashable

/-- `{self._edge_attr[idx].get(attr) for idx in dup_ids}`; `none` when a value is unhashable -/
def valueSet (s : HG) (ids : List PyId) (k : String) : Option (List Scalar) :=
  ids.foldl (fun acc i => match acc with
    | none => none
    | some l => match (s.eattr i).get? k with
      | none => some (ins Scalar.none l)
      | some v => (scalarOf? v).map (fun x => ins x l)) (some [])

def fieldsOf (s : HG) (ids : List PyId) : List String :=
  dedup (ids.flatMap (fun i => (s.eattr i).map (·.1)))

inductive MergeErr where | lib | typeError | unmodelled

/-- the new id of a duplicate group (may consume the counter) -/
def mergeNewId (rename : Rename) (s : HG) (g : List PyId) : HG × Except MergeErr PyId :=
  match rename with
  | .first => match sortedIds g with
    | some (x :: _) => (s, .ok x)
    | _ => (s, .error .typeError)
  | .tuple => match sortedIds g with
    | some l =>
      match l.mapM (fun i => match i with | .atom a => some a | _ => none) with
      | some as => (s, .ok (PyId.tup as))
      | none => (s, .error .unmodelled)        -- tuple of tuples: outside the ID domain of the model
    | none => (s, .error .typeError)
  | .new => ({ s with uid := s.uid + 1 }, .ok (PyId.int s.uid))
  | .invalid => (s, .error .lib)

/-- the merged attribute dict of a duplicate group -/
def mergeAttrs (rule : MergeRule) (s : HG) (g : List PyId) : Except MergeErr Attrs :=
  match rule with
  | .first => match sortedIds g with
    | some (x :: _) => pure (s.eattr x)
    | _ => throw .typeError
  | .union =>
    (fieldsOf s g).mapM (fun k => match valueSet s g k with
      | some l => pure (k, Val.set l)
      | none => throw .typeError)
  | .intersection =>
    (fieldsOf s g).mapM (fun k => match valueSet s g k with
      | some [x] => pure (k, Val.sc x)
      | some _ => pure (k, Val.sc .none)
      | none => throw .typeError)
  | .invalid => throw .lib

/-- result of processing one duplicate group: new state (counter), and the edge to add -/
def mergeGroup (rename : Rename) (rule : MergeRule) (mult : Option String)
    (s : HG) (g : List PyId) : HG × Except MergeErr EdgeItem :=
  match g with
  | [] => (s, .error .unmodelled)
  | r :: _ =>
    match mergeNewId rename s g with
    | (s', .error e) => (s', .error e)
    | (s', .ok newId) =>
      match mergeAttrs rule s' g with
      | .error e => (s', .error e)
      | .ok attrs =>
        let attrs := match mult with
          | some m => attrs.set m (.sc (.int g.length))
          | none => attrs
        (s', .ok { members := s.mem r, idx := some newId, attr := attrs })

/-- the loop over `hashes`: threads the counter, collects `dups` and `new_edges` -/
def mergeLoop (rename : Rename) (rule : MergeRule) (mult : Option String) :
    HG → List (List PyId) → List PyId → List EdgeItem → HG × Except MergeErr (List PyId × List EdgeItem)
  | s, [], dups, news => (s, .ok (dups, news))
  | s, g :: gs, dups, news =>
    if g.length ≤ 1 then mergeLoop rename rule mult s gs dups news else
    match mergeGroup rename rule mult s g with
    | (s', .error e) => (s', .error e)
    | (s', .ok it) => mergeLoop rename rule mult s' gs (dups ++ g) (news ++ [it])

def mergeDuplicateEdges (s : HG) (rename : Rename) (rule : MergeRule) (mult : Option String) :
    Option (HG × Outcome) :=
  match mergeLoop rename rule mult s (groupDups s) [] [] with
  | (_, .error .unmodelled) => none
  | (s', .error .lib) => some (s', .err .lib)
  | (s', .error .typeError) => some (s', .err .typeError)
  | (s', .ok (dups, news)) =>
    let r1 := guardF s' (removeEdgesFrom s' dups)
    if r1.2.isErr then some r1 else
    let r2 := guardF r1.1 (addEdgesFrom r1.1 .f4 news [])
    if r2.2.isErr then some r2 else
    some (r2.1, if rule = .union then .warned else r1.2.join r2.2)

/-! ### connected components (BFS of `_plain_bfs`), largest component in place -/

/-- neighbours of `v`: members of the edges `v` belongs to -/
def nbrs (s : HG) (v : PyId) : List PyId := rm v (dedup ((s.memb v).flatMap s.mem))

/-- level-synchronous BFS with fuel (one unit per level) -/
def bfsLevels (s : HG) : Nat → List PyId → List PyId → List PyId
  | 0, seen, _ => seen
  | fuel + 1, seen, level =>
    if level.isEmpty then seen else
    let fresh := (dedup level).filter (· ∉ seen)
    let seen' := seen ++ fresh
    let next := dedup (fresh.flatMap (nbrs s))
    bfsLevels s fuel seen' next

def plainBfs (s : HG) (src : PyId) : List PyId := bfsLevels s (s.nodes.length + 1) [] [src]

/-- `connected_components(H)`: in node order -/
def components (s : HG) : List (List PyId) :=
  (s.nodes.foldl (fun (acc : List (List PyId) × List PyId) v =>
    if v ∈ acc.2 then acc else
    let c := plainBfs s v
    (acc.1 ++ [c], acc.2 ++ c)) ([], [])).1

/-- `max(components, key=len)`: the first of maximal length -/
def largestComponent (s : HG) : Option (List PyId) :=
  (components s).foldl (fun best c => match best with
    | none => some c
    | some b => if c.length > b.length then some c else some b) none

def lccInPlace (s : HG) : HG × Outcome :=
  -- `max(connected_components(H), key=len, default=set())`: the null network has no component
  let c := (largestComponent s).getD []
  let r := guardF s (removeNodesFrom s (s.nodes.filter (· ∉ c)) false true)
  (r.1, if r.2.isErr then r.2 else .ok)

/-! ### convert_labels_to_integers(in_place=True) -/

def indexOf (l : List PyId) (x : PyId) : Nat := l.findIdx (· = x)

def relabel (s : HG) (labelAttr : String) : HG × Outcome :=
  let nodes0 := s.nodes
  let edges0 := s.edges
  let nidx (n : PyId) : PyId := PyId.int (indexOf nodes0 n)
  let eidx (e : PyId) : PyId := PyId.int (indexOf edges0 e)
  if s.frozen then (s, .err .lib) else
  let s1 := (clear s false).1
  let r1 := addNodesFrom s1 (nodes0.map (fun n => (nidx n, some (s.nattr n)))) []
  let r2 := setNodeAttrs r1.1 (.dictOfDict (nodes0.map (fun n => (nidx n, [(labelAttr, idVal n)]))))
  let r3 := addEdgesFrom r2.1 .f4
    (edges0.map (fun e => { members := (s.mem e).map nidx, idx := some (eidx e), attr := s.eattr e })) []
  let r4 := setEdgeAttrs r3.1 (.dictOfDict (edges0.map (fun e => (eidx e, [(labelAttr, idVal e)]))))
  (r4.1, .ok)
where
  /-- an ID stored as an attribute value -/
  idVal : PyId → Val
    | .atom (.int i) => .sc (.int i)
    | .atom (.str t) => .sc (.str t)
    | .tup l => .sc (.opaque (tupText l))
    | .none => .sc .none
  tupText (l : List Atom) : String :=
    "(" ++ ", ".intercalate (l.map (fun a => match a with
      | .int i => toString i
      | .str t => "\"" ++ t ++ "\"")) ++ ")"

/-! ### cleanup(in_place=True) -/

def singletons (s : HG) : List PyId := s.edges.filter (fun e => (s.mem e).length = 1)
def isolates (s : HG) : List PyId := s.nodes.filter (fun n => (s.memb n).length = 0)

/-- sequence two steps, stopping at a raise -/
def andThen (r : HG × Outcome) (f : HG → HG × Outcome) : HG × Outcome :=
  if r.2.isErr then r else
  let r' := f r.1
  (r'.1, r.2.join r'.2)

def cleanup (s : HG) (isolatesOk singletonsOk multiedgesOk connected relabelF : Bool) : Option (HG × Outcome) :=
  let r0 : Option (HG × Outcome) :=
    if multiedgesOk then some (s, .ok) else mergeDuplicateEdges s .first .first none
  r0.map fun r0 =>
    let r1 := andThen r0 (fun s => if singletonsOk then (s, .ok) else guardF s (removeEdgesFrom s (singletons s)))
    let r2 := andThen r1 (fun s => if isolatesOk then (s, .ok) else guardF s (removeNodesFrom s (isolates s) false true))
    let r3 := andThen r2 (fun s => if connected then lccInPlace s else (s, .ok))
    andThen r3 (fun s => if relabelF then relabel s "label" else (s, .ok))

/-! ### the op alphabet -/

inductive Op where
  | addNode (n : PyId) (a : Attrs)
  | addNodesFrom (items : List (PyId × Option Attrs)) (a : Attrs)
  | removeNode (n : PyId) (strong removeEmpty : Bool)
  | removeNodesFrom (ns : List PyId) (strong removeEmpty : Bool)
  | addEdge (ms : List PyId) (idx : Option PyId) (a : Attrs)
  | addEdgesFrom (fmt : Fmt) (items : List EdgeItem) (a : Attrs)
  | addNodeToEdge (e n : PyId)
  | removeEdge (e : PyId)
  | removeEdgesFrom (es : List PyId)
  | removeNodeFromEdge (e n : PyId) (removeEmpty : Bool)
  | setNodeAttrs (arg : AttrArg)
  | setEdgeAttrs (arg : AttrArg)
  | setNetAttr (k : String) (v : Val)
  | doubleEdgeSwap (n1 n2 e1 e2 : PyId)
  | randomEdgeShuffle (e1 e2 : PyId) (choice : List PyId)
  | update (edges : Option (Fmt × List EdgeItem)) (nodes : List (PyId × Option Attrs))
  | clear (removeNetAttr : Bool)
  | clearEdges
  | mergeDuplicateEdges (rename : Rename) (rule : MergeRule) (mult : Option String)
  | cleanup (isolatesOk singletonsOk multiedgesOk connected relabel : Bool)
  | relabel (labelAttr : String)
  | lccInPlace
  | freeze
  deriving Inhabited

/-- which ops the `freeze()` method disables (the names assigned `frozen`); the generated
    table `FreezeTable` is checked against this classification in Props/C18 -/
def Op.guardedByFreeze : Op → Bool
  | .addNode .. | .addNodesFrom .. | .removeNode .. | .removeNodesFrom .. | .addEdge ..
  | .addEdgesFrom .. | .addNodeToEdge .. | .removeEdge .. | .removeEdgesFrom ..
  | .removeNodeFromEdge .. | .clear .. | .clearEdges | .doubleEdgeSwap .. | .randomEdgeShuffle .. => true
  | _ => false

/-- `update(edges=…, nodes=…)` -/
def update (s : HG) (edges : Option (Fmt × List EdgeItem)) (nodes : List (PyId × Option Attrs)) : HG × Outcome :=
  let r1 := if nodes.isEmpty then (s, Outcome.ok) else guardF s (addNodesFrom s nodes [])
  andThen r1 (fun s => match edges with
    | some (fmt, items) => if items.isEmpty then (s, .ok) else guardF s (addEdgesFrom s fmt items [])
    | none => (s, .ok))

/-- the unfrozen semantics of each op; `none` = outside the model (driver answers "unmodelled"/bad-op) -/
def stepCore (s : HG) : Op → Option (HG × Outcome)
  | .addNode n a => some (addNode s n a)
  | .addNodesFrom items a => some (addNodesFrom s items a)
  | .removeNode n st re => some (removeNode s n st re)
  | .removeNodesFrom ns st re => some (removeNodesFrom s ns st re)
  | .addEdge ms idx a => some (addEdge s ms idx a)
  | .addEdgesFrom fmt items a => some (addEdgesFrom s fmt items a)
  | .addNodeToEdge e n => some (addNodeToEdge s e n)
  | .removeEdge e => some (removeEdge s e)
  | .removeEdgesFrom es => some (removeEdgesFrom s es)
  | .removeNodeFromEdge e n re => some (removeNodeFromEdge s e n re)
  | .setNodeAttrs arg => some (setNodeAttrs s arg)
  | .setEdgeAttrs arg => some (setEdgeAttrs s arg)
  | .setNetAttr k v => some (setNetAttr s k v)
  | .doubleEdgeSwap n1 n2 e1 e2 => some (doubleEdgeSwap s n1 n2 e1 e2)
  | .randomEdgeShuffle e1 e2 ch => randomEdgeShuffle s e1 e2 ch
  | .update es ns => some (update s es ns)
  | .clear r => some (clear s r)
  | .clearEdges => some (clearEdges s)
  | .mergeDuplicateEdges rn rule m => mergeDuplicateEdges s rn rule m
  | .cleanup a b c d e => cleanup s a b c d e
  | .relabel l => some (relabel s l)
  | .lccInPlace => some (lccInPlace s)
  | .freeze => some ({ s with frozen := true }, .ok)

/-- one public call on the (possibly frozen) network -/
def step (s : HG) (op : Op) : Option (HG × Outcome) :=
  if s.frozen ∧ op.guardedByFreeze then some (s, .err .lib) else stepCore s op

end HG
end Xgi
