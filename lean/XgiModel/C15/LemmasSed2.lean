/-
  C15 helper lemmas, part 6: `ms` of `simplicial_edit_distance` = number of missing node sets below the faces.
-/
import XgiModel.C15.LemmasSed
import Mathlib.Tactic.Linarith
import Mathlib.Tactic.Ring

namespace Xgi.C15

/-- a list of faces as `simplicial_edit_distance` uses it: edges of size ≥ m, distinct IDs -/
structure Faces (h : Net) (m : Nat) (L : List (PyId × List PyId)) : Prop where
  mem : ∀ p ∈ L, p ∈ h.edges ∧ m ≤ p.2.length
  nodup : (L.map (·.1)).Nodup

theorem U_append (h : Net) (m : Nat) (S T : List (PyId × List PyId)) : U h m (S ++ T) = U h m S ∪ U h m T := by
  ext u
  simp only [mem_U, Finset.mem_union, List.mem_append]
  constructor
  · rintro ⟨h1, h2, h3, q, hq | hq, hu⟩
    · exact Or.inl ⟨h1, h2, h3, q, hq, hu⟩
    · exact Or.inr ⟨h1, h2, h3, q, hq, hu⟩
  · rintro (⟨h1, h2, h3, q, hq, hu⟩ | ⟨h1, h2, h3, q, hq, hu⟩)
    · exact ⟨h1, h2, h3, q, Or.inl hq, hu⟩
    · exact ⟨h1, h2, h3, q, Or.inr hq, hu⟩

theorem U_nil (h : Net) (m : Nat) : U h m [] = ∅ := by
  ext u; simp [mem_U]

theorem foldl_add_sub {α : Type} (f g : α → Int) (l : List α) : ∀ z : Int,
    l.foldl (fun ms p => ms + f p - g p) z = z + (l.map (fun p => f p - g p)).sum := by
  induction l with
  | nil => intro z; simp
  | cons a l ih => intro z; simp only [List.foldl_cons, ih, List.map_cons, List.sum_cons]; ring

section
variable {h : Net} (hw : h.WF) (hO : Orderable h.nodes) (m : Nat) (hm1 : 1 ≤ m)
include hw hO hm1

/-- membership in `redundant_missing_faces` of the face `p` standing after `pre` -/
theorem mem_redundant {pre post : List (PyId × List PyId)} {p : PyId × List PyId}
    (hL : Faces h m (pre ++ p :: post)) {x : List PyId} :
    x ∈ redundantMissing (trieM h m) m (pre ++ p :: post) p ↔
      ∃ q ∈ pre, ∃ a, a.Sublist (q.2.filter (· ∈ p.2)) ∧ 1 ≤ a.length ∧ m ≤ a.length ∧
        (trieM h m).search a = false ∧ x = sorted a := by
  rw [redundantMissing_eq, mem_dedup, List.mem_flatMap]
  constructor
  · rintro ⟨q, hq, hx⟩
    obtain ⟨hidx, a, hs, hma, hf, rfl⟩ := mem_contrib.mp hx
    have hqL := (List.mem_filter.mp hq).1
    exact ⟨q, (earlier_iff hL.nodup hqL).mp hidx, a, hs, by omega, hma, hf, rfl⟩
  · rintro ⟨q, hq, a, hs, h1, hma, hf, rfl⟩
    have hqL : q ∈ pre ++ p :: post := List.mem_append_left _ hq
    refine ⟨q, List.mem_filter.mpr ⟨hqL, ?_⟩, mem_contrib.mpr ⟨(earlier_iff hL.nodup hqL).mpr hq, a, hs, hma, hf, rfl⟩⟩
    simp only [Bool.and_eq_true, decide_eq_true_eq, List.any_eq_true]
    constructor
    · intro e
      have hn := hL.nodup
      simp only [List.map_append, List.map_cons] at hn
      exact (List.nodup_append.mp hn).2.2 _ (List.mem_map_of_mem hq) _ List.mem_cons_self e
    · obtain ⟨n, hn⟩ := List.exists_mem_of_length_pos (l := a) (by omega)
      have := List.mem_filter.mp (hs.subset hn)
      exact ⟨n, this.1, by simpa using this.2⟩

theorem red_image {pre post : List (PyId × List PyId)} {p : PyId × List PyId}
    (hL : Faces h m (pre ++ p :: post)) :
    ((redundantMissing (trieM h m) m (pre ++ p :: post) p).map F).toFinset = U h m [p] ∩ U h m pre := by
  have hp := hL.mem p (by simp)
  have hnlp := NL_edge hw hp.1
  ext u
  simp only [List.mem_toFinset, List.mem_map, Finset.mem_inter, mem_U, List.mem_singleton, exists_eq_left]
  constructor
  · rintro ⟨x, hx, rfl⟩
    obtain ⟨q, hq, a, hs, _, hma, hf, rfl⟩ := (mem_redundant hw hO m hm1 hL).mp hx
    have hqe := (hL.mem q (List.mem_append_left _ hq)).1
    have hnlc : NL h (q.2.filter (· ∈ p.2)) := NL_sublist (NL_edge hw hqe) List.filter_sublist
    have hnla := NL_sublist hnlc hs
    have hsub : F a ⊆ F q.2 ∩ F p.2 := by
      rw [← F_inter]; exact fun y hy => List.mem_toFinset.mpr (hs.subset (List.mem_toFinset.mp hy))
    have hnodes : F a ⊆ F h.nodes := fun y hy => List.mem_toFinset.mpr (hnla.2 y (List.mem_toFinset.mp hy))
    have hcard : m ≤ (F a).card := by rw [card_F hnla.1]; exact hma
    have hnot : F a ∉ Eg h m := by
      rw [← searchM hw hO m hnla, hf]; simp
    rw [F_sorted]
    exact ⟨⟨hnodes, hcard, hnot, fun y hy => (Finset.mem_inter.mp (hsub hy)).2⟩,
      ⟨hnodes, hcard, hnot, q, hq, fun y hy => (Finset.mem_inter.mp (hsub hy)).1⟩⟩
  · rintro ⟨⟨hnodes, hcard, hnot, hup⟩, ⟨_, _, _, q, hq, huq⟩⟩
    have hqe := (hL.mem q (List.mem_append_left _ hq)).1
    have hnlc : NL h (q.2.filter (· ∈ p.2)) := NL_sublist (NL_edge hw hqe) List.filter_sublist
    have huc : u ⊆ F (q.2.filter (· ∈ p.2)) := by
      rw [F_inter]; exact fun y hy => Finset.mem_inter.mpr ⟨huq hy, hup hy⟩
    have hs : ((q.2.filter (· ∈ p.2)).filter (· ∈ u)).Sublist (q.2.filter (· ∈ p.2)) := List.filter_sublist
    have e := F_filter_mem _ u huc
    have hnla := NL_sublist hnlc hs
    have hlen : ((q.2.filter (· ∈ p.2)).filter (· ∈ u)).length = u.card := by rw [← card_F hnla.1, e]
    refine ⟨sorted ((q.2.filter (· ∈ p.2)).filter (· ∈ u)), ?_, by rw [F_sorted, e]⟩
    apply (mem_redundant hw hO m hm1 hL).mpr
    refine ⟨q, hq, _, hs, by omega, by omega, ?_, rfl⟩
    have := searchM hw hO m hnla
    rw [e] at this
    cases hh : (trieM h m).search ((q.2.filter (· ∈ p.2)).filter (· ∈ u))
    · rfl
    · exact absurd (this.mp hh) hnot

theorem red_length {pre post : List (PyId × List PyId)} {p : PyId × List PyId}
    (hL : Faces h m (pre ++ p :: post)) :
    (redundantMissing (trieM h m) m (pre ++ p :: post) p).length = (U h m [p] ∩ U h m pre).card := by
  rw [← red_image hw hO m hm1 hL]
  apply length_eq_card_image
  · rw [redundantMissing_eq]; exact nodup_dedup _
  · intro x hx y hy e
    obtain ⟨q, hq, a, hs, _, _, _, rfl⟩ := (mem_redundant hw hO m hm1 hL).mp hx
    obtain ⟨q', hq', b, hs', _, _, _, rfl⟩ := (mem_redundant hw hO m hm1 hL).mp hy
    have hqe := (hL.mem q (List.mem_append_left _ hq)).1
    have hqe' := (hL.mem q' (List.mem_append_left _ hq')).1
    have hnla := NL_sublist (NL_sublist (NL_edge hw hqe) List.filter_sublist) hs
    have hnlb := NL_sublist (NL_sublist (NL_edge hw hqe') List.filter_sublist) hs'
    rw [F_sorted, F_sorted] at e
    exact (sorted_eq_iff_F hO hnla hnlb).mpr e

/-- the summand of the outer loop: missing sub-faces of `p` not below an earlier face -/
theorem term_eq {pre post : List (PyId × List PyId)} {p : PyId × List PyId}
    (hL : Faces h m (pre ++ p :: post)) :
    ((countMissing (trieM h m) p.2 m : Nat) : Int)
        - ((redundantMissing (trieM h m) m (pre ++ p :: post) p).length : Nat)
      = ((U h m [p] \ U h m pre).card : Nat) := by
  have hp := hL.mem p (by simp)
  rw [countMissing_eq hw hO m hp.1 hp.2, red_length hw hO m hm1 hL]
  have h1 : (U h m [p] \ U h m pre).card = (U h m [p]).card - (U h m pre ∩ U h m [p]).card := Finset.card_sdiff
  have h2 : (U h m pre ∩ U h m [p]).card ≤ (U h m [p]).card := Finset.card_le_card Finset.inter_subset_right
  rw [Finset.inter_comm] at h1 h2
  omega

theorem sum_terms (L : List (PyId × List PyId)) (hL : Faces h m L) :
    ∀ (post pre : List (PyId × List PyId)), L = pre ++ post →
      (post.map (fun p => ((countMissing (trieM h m) p.2 m : Nat) : Int)
        - ((redundantMissing (trieM h m) m L p).length : Nat))).sum = ((U h m L \ U h m pre).card : Nat) := by
  intro post
  induction post with
  | nil =>
    intro pre e
    simp at e; subst e; simp
  | cons p post ih =>
    intro pre e
    have hL' : Faces h m (pre ++ p :: post) := e ▸ hL
    rw [List.map_cons, List.sum_cons, ih (pre ++ [p]) (by simp [e])]
    rw [e, term_eq hw hO m hm1 hL', ← e, U_append]
    have hsubL : U h m [p] ⊆ U h m L := by
      intro u hu
      rw [mem_U] at hu ⊢
      obtain ⟨h1, h2, h3, q, hq, hu⟩ := hu
      exact ⟨h1, h2, h3, q, by rw [e]; exact List.mem_append_right _ (by simpa using Or.inl hq), hu⟩
    have hdisj : Disjoint (U h m [p] \ U h m pre) (U h m L \ (U h m pre ∪ U h m [p])) := by
      rw [Finset.disjoint_left]
      intro u h1 h2
      simp only [Finset.mem_sdiff, Finset.mem_union, not_or] at h1 h2
      exact h2.2.2 h1.1
    have hun : (U h m [p] \ U h m pre) ∪ (U h m L \ (U h m pre ∪ U h m [p])) = U h m L \ U h m pre := by
      ext u
      simp only [Finset.mem_union, Finset.mem_sdiff, not_or]
      constructor
      · rintro (⟨h1, h2⟩ | ⟨h1, h2, _⟩)
        · exact ⟨hsubL h1, h2⟩
        · exact ⟨h1, h2⟩
      · rintro ⟨h1, h2⟩
        by_cases h3 : u ∈ U h m [p]
        · exact Or.inl ⟨h3, h2⟩
        · exact Or.inr ⟨h1, h2, h3⟩
    rw [← hun, Finset.card_union_of_disjoint hdisj]
    push_cast
    ring

/-- `ms` after the outer loop -/
theorem missingTotal_eq (L : List (PyId × List PyId)) (hL : Faces h m L) :
    missingTotal (trieM h m) m L = ((U h m L).card : Nat) := by
  unfold missingTotal
  rw [foldl_add_sub, sum_terms hw hO m hm1 L hL L [] rfl, U_nil]
  simp

end

end Xgi.C15
