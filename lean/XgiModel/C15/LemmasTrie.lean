/-
  C15 helper lemmas, part 1 (no Mathlib): the transcribed trie answers list membership of the sorted word.
-/
import XgiModel.C15.Simp

namespace Xgi.C15
open Trie

theorem child?_setChild_same (cs : List (PyId × Trie)) (c : PyId) (t t0 : Trie)
    (h : child? cs c = some t0) : child? (setChild cs c t) c = some t := by
  induction cs with
  | nil => simp [child?] at h
  | cons p rest ih =>
    obtain ⟨k, u⟩ := p
    by_cases hk : k = c
    · simp [setChild, child?, hk]
    · simp [child?, hk] at h
      simp [setChild, child?, hk, ih h]

theorem child?_setChild_other (cs : List (PyId × Trie)) (c c' : PyId) (t : Trie) (h : c' ≠ c) :
    child? (setChild cs c t) c' = child? cs c' := by
  induction cs with
  | nil => simp [setChild]
  | cons p rest ih =>
    obtain ⟨k, u⟩ := p
    by_cases hk : k = c
    · have h' : ¬ c = c' := fun e => h e.symm
      simp [setChild, child?, hk, h']
    · simp [setChild, child?, hk, ih]

theorem child?_append (cs : List (PyId × Trie)) (c c' : PyId) (t : Trie) :
    child? (cs ++ [(c, t)]) c' = match child? cs c' with
      | some u => some u
      | none => if c = c' then some t else none := by
  induction cs with
  | nil => simp [child?]
  | cons p rest ih =>
    obtain ⟨k, u⟩ := p
    by_cases hk : k = c'
    · simp [child?, hk]
    · simp [child?, hk, ih]

theorem searchSorted_empty (w : List PyId) : searchSorted Trie.empty w = false := by
  cases w <;> simp [Trie.empty, searchSorted, child?]

/-- one insertion adds exactly the inserted key -/
theorem searchSorted_insertSorted (w : List PyId) : ∀ (t : Trie) (k : List PyId),
    searchSorted (insertSorted t w) k = (decide (k = w) || searchSorted t k) := by
  induction w with
  | nil =>
    intro t k
    obtain ⟨fin, cs⟩ := t
    cases k <;> simp [insertSorted, searchSorted]
  | cons c w ih =>
    intro t k
    obtain ⟨fin, cs⟩ := t
    cases hc : child? cs c with
    | some t0 =>
      simp only [insertSorted, hc]
      cases k with
      | nil => simp [searchSorted]
      | cons d k =>
        by_cases hd : d = c
        · subst hd
          simp [searchSorted, child?_setChild_same cs d _ t0 hc, hc, ih]
        · simp [searchSorted, child?_setChild_other cs c d _ hd, hd]
    | none =>
      simp only [insertSorted, hc]
      cases k with
      | nil => simp [searchSorted]
      | cons d k =>
        by_cases hd : d = c
        · subst hd
          simp [searchSorted, child?_append, hc, ih, searchSorted_empty]
        · have hd' : ¬ c = d := fun e => hd e.symm
          simp only [searchSorted, child?_append, hd']
          cases child? cs d <;> simp [hd]

theorem searchSorted_foldl (ws : List (List PyId)) : ∀ (t : Trie) (k : List PyId),
    searchSorted (ws.foldl Trie.insert t) k = (decide (k ∈ ws.map sorted) || searchSorted t k) := by
  induction ws with
  | nil => intro t k; simp
  | cons w ws ih =>
    intro t k
    simp only [List.foldl_cons, ih, Trie.insert, searchSorted_insertSorted, List.map_cons, List.mem_cons]
    by_cases h1 : k = sorted w <;> by_cases h2 : k ∈ ws.map sorted <;> simp [h1, h2]

/-- the trie built from `words` finds `w` iff the sorted tuple of `w` is the sorted tuple of a word -/
theorem search_buildTrie (ws : List (List PyId)) (w : List PyId) :
    (buildTrie ws).search w = decide (sorted w ∈ ws.map sorted) := by
  unfold buildTrie Trie.search
  rw [searchSorted_foldl, searchSorted_empty]; simp

end Xgi.C15
