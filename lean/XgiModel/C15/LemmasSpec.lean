/-
  C15 helper lemmas, part 7: the brute-force side in terms of finsets, and the final equation for
  `simplicial_edit_distance`.
-/
import XgiModel.C15.LemmasSed2

namespace Xgi.C15

theorem isEdge_iff {h : Net} {t : List PyId} : isEdge h t = true ↔ F t ∈ EFam h.edges := by
  simp only [isEdge, List.any_eq_true, Bool.and_eq_true, isSub_iff, mem_EFam, F_eq_iff]
  constructor
  · rintro ⟨q, hq, h1, h2⟩; exact ⟨q, hq, fun x => ⟨h2 x, h1 x⟩⟩
  · rintro ⟨q, hq, e⟩; exact ⟨q, hq, fun x hx => (e x).mpr hx, fun x hx => (e x).mp hx⟩

theorem mem_Eg_iff {h : Net} (hw : h.WF) {m : Nat} {u : Finset PyId} (hu : m ≤ u.card) :
    u ∈ Eg h m ↔ u ∈ EFam h.edges := by
  simp only [Eg, mem_EFam, mem_sizeGeq]
  constructor
  · rintro ⟨p, ⟨hp, _⟩, e⟩; exact ⟨p, hp, e⟩
  · rintro ⟨p, hp, e⟩
    refine ⟨p, ⟨hp, ?_⟩, e⟩
    rw [← card_F (NL_edge hw hp).1, e]; exact hu

theorem mem_specFaces {h : Net} {m : Nat} {x : Bool} {p : PyId × List PyId} :
    p ∈ specFaces h m x ↔ p ∈ h.edges ∧ MaxIn h p.2 ∧ m + x.toNat ≤ p.2.length := by
  simp only [specFaces, specMaximal, List.mem_filter, specMaximal_pred, decide_eq_true_eq]
  tauto

theorem specFaces_Faces {h : Net} (hw : h.WF) (m : Nat) (x : Bool) : Faces h m (specFaces h m x) := by
  constructor
  · intro p hp
    have := mem_specFaces.mp hp
    exact ⟨this.1, by omega⟩
  · have hs : (specFaces h m x).Sublist h.edges := List.filter_sublist.trans List.filter_sublist
    exact hw.2.1.sublist (hs.map _)

theorem specFaces_sublist (h : Net) (m : Nat) (x : Bool) :
    (specFaces h m x).Sublist (sizeGeq h.edges m) := by
  have e : specFaces h m x = (sizeGeq h.edges m).filter
      (fun p => h.edges.all (fun q => !(isSub p.2 q.2) || isSub q.2 p.2) && decide (m + x.toNat ≤ p.2.length)) := by
    unfold specFaces specMaximal sizeGeq
    rw [List.filter_filter, List.filter_filter]
    apply List.filter_congr
    intro p _
    by_cases h1 : m + x.toNat ≤ p.2.length
    · have : m ≤ p.2.length := by omega
      simp [h1, this]
    · simp [h1]
  rw [e]; exact List.filter_sublist

section
variable {h : Net} (hw : h.WF) (hO : Orderable h.nodes)
include hw

/-- the brute-force count of the definition, as a family of finsets -/
theorem specSED_eq (m : Nat) (x : Bool) : specSED h m x = (U h m (specFaces h m x)).card := by
  unfold specSED
  dsimp only
  rw [count_sublists hw.1 (nodup_subsets hw.1) (fun _ => True) (fun t => by simp [mem_subsets])
    _ (fun u => m ≤ u.card ∧ (∃ p ∈ specFaces h m x, u ⊆ F p.2) ∧ u ∉ EFam h.edges)
    (fun a ha => by
      have hnl := NL_sublist (NL_nodes hw) ha
      simp only [Bool.and_eq_true, decide_eq_true_eq, List.any_eq_true, isSub_iff, Bool.not_eq_true',
        card_F hnl.1, F_subset_iff]
      rw [← Bool.not_eq_true, isEdge_iff, and_assoc])]
  congr 1
  ext u
  simp only [Finset.mem_filter, Finset.mem_powerset, mem_U, true_and]
  constructor
  · rintro ⟨h1, h2, h3, h4⟩
    exact ⟨h1, h2, fun hh => h4 ((mem_Eg_iff hw h2).mp hh), h3⟩
  · rintro ⟨h1, h2, h3, h4⟩
    exact ⟨h1, h2, h4, fun hh => h3 ((mem_Eg_iff hw h2).mpr hh)⟩

include hO

/-- `ms` of the transcription equals the brute-force count -/
theorem missingTotal_spec (m : Nat) (hm1 : 1 ≤ m) (x : Bool) :
    missingTotal (trieM h m) m (specFaces h m x) = ((specSED h m x : Nat) : Int) := by
  rw [missingTotal_eq hw hO m hm1 _ (specFaces_Faces hw m x), specSED_eq hw]

end

end Xgi.C15
