/-
  C15 helper lemmas, part 8: `simplicial_fraction` and the per-face quantities of `mean_face_edit_distance`.
-/
import XgiModel.C15.LemmasSpec
import Mathlib.Algebra.Order.Field.Rat
import Mathlib.Tactic.FieldSimp

namespace Xgi.C15

/-! ### simplicial fraction -/

section
variable {h : Net} (hw : h.WF) (hO : Orderable h.nodes)
include hw hO

theorem searchAll {w : List PyId} (hwl : NL h w) :
    (buildTrie (h.edges.map (·.2))).search w = true ↔ F w ∈ EFam h.edges :=
  search_iff hw hO (fun _ hp => hp) hwl

/-- `_is_simplex` agrees with the definition -/
theorem isSimplex_eq (m : Nat) {p : PyId × List PyId} (hp : p ∈ h.edges) :
    isSimplex (buildTrie (h.edges.map (·.2))) p.2 m = specIsSimplex h m p.2 := by
  have hnl := NL_edge hw hp
  rw [Bool.eq_iff_iff]
  unfold isSimplex specIsSimplex
  rw [all_sublists hnl.1 (fun k => m ≤ k ∧ k < p.2.length + 1) (fun t => mem_powerset) _
        (fun u => u ∈ EFam h.edges) (fun a ha => searchAll hw hO (NL_sublist hnl ha)),
      all_sublists hw.1 (fun _ => True) (fun t => by simp [mem_subsets]) _
        (fun u => (m ≤ u.card ∧ u ⊆ F p.2) → u ∈ EFam h.edges)
        (fun a ha => by
          have hnla := NL_sublist (NL_nodes hw) ha
          simp only [Bool.or_eq_true, Bool.not_eq_true', Bool.and_eq_false_iff, decide_eq_false_iff_not,
            isEdge_iff, card_F hnla.1, F_subset_iff]
          rw [← Bool.not_eq_true, isSub_iff]
          tauto)]
  constructor
  · intro hh u _ _ hu
    apply hh u hu.2
    have := Finset.card_le_card hu.2
    rw [card_F hnl.1] at this
    exact ⟨hu.1, by omega⟩
  · intro hh u hu hq
    exact hh u (fun y hy => List.mem_toFinset.mpr (hnl.2 y (List.mem_toFinset.mp (hu hy)))) trivial ⟨hq.1, hu⟩

theorem simplicialFraction_eq (m : Nat) (x : Bool) : simplicialFraction h m x = specSF h m x := by
  unfold simplicialFraction specSF countSimplices potentialSimplices sizeGeq
  have : (h.edges.filter (fun p => decide (m + x.toNat ≤ p.2.length))).filter
        (fun p => isSimplex (buildTrie (h.edges.map (·.2))) p.2 m)
      = (h.edges.filter (fun p => decide (m + x.toNat ≤ p.2.length))).filter (fun p => specIsSimplex h m p.2) := by
    apply List.filter_congr
    intro p hp
    exact isSimplex_eq hw hO m (List.mem_filter.mp hp).1
  simp only [this]

end

/-! ### binomial coefficients and `_max_number_of_subfaces` -/

theorem length_comb {α : Type} (l : List α) (r : Nat) : (comb l r).length = choose l.length r := by
  induction l generalizing r with
  | nil => cases r <;> simp [comb, choose]
  | cons a l ih => cases r <;> simp [comb, choose, ih]

theorem length_powerset {α : Type} (l : List α) (lo hi : Nat) :
    (powerset l lo hi).length = ((List.range' lo (hi - lo)).map (choose l.length)).sum := by
  simp [powerset, List.length_flatMap, length_comb]

theorem choose_eq_zero {n k : Nat} (hk : n < k) : choose n k = 0 := by
  induction n generalizing k with
  | zero => cases k with
    | zero => omega
    | succ k => simp [choose]
  | succ n ih => cases k with
    | zero => omega
    | succ k => simp [choose, ih (show n < k by omega), ih (show n < k + 1 by omega)]

theorem choose_self (n : Nat) : choose n n = 1 := by
  induction n with
  | zero => simp [choose]
  | succ n ih => simp [choose, ih, choose_eq_zero (show n < n + 1 by omega)]

theorem choose_zero (n : Nat) : choose n 0 = 1 := by cases n <;> simp [choose]

/-- `n` distinct labels -/
def natLabels (n : Nat) : List PyId := (List.range n).map (fun i : Nat => PyId.int (Int.ofNat i))

theorem natLabels_nodup (n : Nat) : (natLabels n).Nodup := by
  apply List.Nodup.map_on _ List.nodup_range
  intro a _ b _ e
  simpa using e

theorem natLabels_length (n : Nat) : (natLabels n).length = n := by simp [natLabels]

/-- Σ_{i=0}^{n} C(n,i) = 2^n, obtained by counting all sub-lists of a list of length n twice -/
theorem sum_choose (n : Nat) : ((List.range' 0 (n + 1)).map (choose n)).sum = 2 ^ n := by
  generalize hl : natLabels n = l
  have hln : l.Nodup := hl ▸ natLabels_nodup n
  have hlen : l.length = n := hl ▸ natLabels_length n
  have h1 := length_powerset l 0 (n + 1)
  have h2 := count_sublists hln (nodup_powerset hln 0 (n + 1)) (fun k => 0 ≤ k ∧ k < n + 1)
    (fun t => mem_powerset) (fun _ => true) (fun _ => True) (fun _ _ => by simp)
  simp only [List.filter_true] at h2
  rw [hlen] at h1
  rw [Nat.sub_zero] at h1
  rw [← h1, h2]
  have : (F l).powerset.filter (fun u => (0 ≤ u.card ∧ u.card < n + 1) ∧ True) = (F l).powerset := by
    apply Finset.filter_true_of_mem
    intro u hu
    have := Finset.card_le_card (Finset.mem_powerset.mp hu)
    rw [card_F hln, hlen] at this
    exact ⟨⟨by omega, by omega⟩, trivial⟩
  rw [this, Finset.card_powerset, card_F hln, hlen]

theorem foldl_sub (c : Nat → Int) (l : List Nat) : ∀ z : Int,
    l.foldl (fun d i => d - c i) z = z - (l.map c).sum := by
  induction l with
  | nil => intro z; simp
  | cons a l ih => intro z; simp only [List.foldl_cons, ih, List.map_cons, List.sum_cons]; ring

/-- `_max_number_of_subfaces(min_size, n)` is the number of proper sub-faces of size ≥ min_size -/
theorem maxNumberOfSubfaces_eq {m n : Nat} (hm1 : 1 ≤ m) (hmn : m ≤ n) :
    maxNumberOfSubfaces m n = (((List.range' m (n - m)).map (choose n)).sum : Nat) := by
  unfold maxNumberOfSubfaces
  rw [foldl_sub (fun i => (choose n i : Int))]
  have hsplit : List.range' 0 (n + 1) = [0] ++ List.range' 1 (m - 1) ++ List.range' m (n - m) ++ [n] := by
    have e1 : [0] = List.range' 0 1 := rfl
    have e2 : [n] = List.range' n 1 := rfl
    have a1 := @List.range'_append_1 0 1 (m - 1)
    have a2 := @List.range'_append_1 0 m (n - m)
    have a3 := @List.range'_append_1 0 n 1
    simp only [Nat.zero_add] at a1 a2 a3
    rw [e1, e2, a1, show 1 + (m - 1) = m by omega, a2, show m + (n - m) = n by omega, a3]
  have hs := sum_choose n
  rw [hsplit] at hs
  simp only [List.map_append, List.sum_append, List.map_cons, List.map_nil, List.sum_cons, List.sum_nil,
    choose_zero, choose_self] at hs
  have hcast : ((List.map (fun i => (choose n i : Int)) (List.range' 1 (m - 1))).sum : Int)
      = (((List.range' 1 (m - 1)).map (choose n)).sum : Nat) := by
    induction (List.range' 1 (m - 1)) with
    | nil => simp
    | cons a l ih => simp [ih]
  rw [hcast]
  have h2 : ((2 : Int) ^ n) = ((2 ^ n : Nat) : Int) := by push_cast; rfl
  rw [h2, ← hs]
  push_cast
  ring

end Xgi.C15
