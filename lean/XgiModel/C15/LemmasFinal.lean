/-
  C15 helper lemmas, part 10: assembly — the three measures of the transcription against the brute-force
  definitions, their range, and their value on downward-closed hypergraphs.
-/
import XgiModel.C15.LemmasMfed
import Mathlib.Algebra.Order.Field.Basic

namespace Xgi.C15

/-- the domain of the model: well-formed network, labels all ints or all strs (empty edges allowed) -/
structure Dom (h : Net) : Prop where
  wf : h.WF
  ord : Orderable h.nodes

/-- a score is NaN or lies in [0, 1] -/
def Score.InUnit : Score → Prop
  | .undefined => True
  | .val q => 0 ≤ q ∧ q ≤ 1

theorem sed_raw_eq {h : Net} (D : Dom h) (m : Nat) (hm1 : 1 ≤ m) (x : Bool) :
    simplicialEditDistance h m x false =
      some (if (specFaces h m x).isEmpty then .undefined else .val ((specSED h m x : Nat) : Rat)) := by
  unfold simplicialEditDistance
  rw [maximalEdges_eq D.wf]
  have e1 : sizeGeq (specMaximal h) (m + x.toNat) = specFaces h m x := rfl
  have e2 : buildTrie ((sizeGeq h.edges m).map (·.2)) = trieM h m := rfl
  simp only [e1, e2]
  by_cases hz : (specFaces h m x).isEmpty = true
  · simp [hz]
  · simp only [hz, if_false, Bool.false_eq_true]
    rw [missingTotal_spec D.wf D.ord m hm1 x]
    simp

theorem sed_norm_eq' {h : Net} (D : Dom h) (m : Nat) (hm1 : 1 ≤ m) (x : Bool) :
    simplicialEditDistance h m x true = some (specSEDNorm h m x) := by
  unfold simplicialEditDistance specSEDNorm
  rw [maximalEdges_eq D.wf]
  have e1 : sizeGeq (specMaximal h) (m + x.toNat) = specFaces h m x := rfl
  have e2 : buildTrie ((sizeGeq h.edges m).map (·.2)) = trieM h m := rfl
  have e3 : h.edges.filter (fun p => decide (m ≤ p.2.length)) = sizeGeq h.edges m := rfl
  simp only [e1, e2, e3]
  by_cases hz : (specFaces h m x).isEmpty = true
  · simp [hz]
  · simp only [hz, if_false, Bool.false_eq_true, if_true]
    rw [missingTotal_spec D.wf D.ord m hm1 x]
    split <;> simp

/-! ### range -/

theorem specSEDNorm_inUnit (h : Net) (m : Nat) (x : Bool) : (specSEDNorm h m x).InUnit := by
  unfold specSEDNorm
  by_cases hz : (specFaces h m x).isEmpty = true
  · simp [hz, Score.InUnit]
  · simp only [hz, if_false, Bool.false_eq_true]
    have hle : (specFaces h m x).length ≤ (h.edges.filter (fun p => decide (m ≤ p.2.length))).length :=
      (specFaces_sublist h m x).length_le
    generalize (specFaces h m x).length = mf at hle
    generalize (h.edges.filter (fun p => decide (m ≤ p.2.length))).length = s at hle
    generalize specSED h m x = ms
    by_cases hd : ((s : Int) - (mf : Int) + (ms : Int)) > 0
    · simp only [hd, if_true, Score.InUnit]
      have hdq : (0 : Rat) < (((s : Int) - (mf : Int) + (ms : Int) : Int) : Rat) := by exact_mod_cast hd
      have hms : (0 : Rat) ≤ ((ms : Int) : Rat) := by exact_mod_cast Int.natCast_nonneg ms
      have hle' : ((ms : Int) : Rat) ≤ (((s : Int) - (mf : Int) + (ms : Int) : Int) : Rat) := by
        have : (ms : Int) ≤ (s : Int) - (mf : Int) + (ms : Int) := by omega
        exact_mod_cast this
      exact ⟨div_nonneg hms (le_of_lt hdq), (div_le_one hdq).mpr hle'⟩
    · simp [hd, Score.InUnit]

theorem specSF_inUnit (h : Net) (m : Nat) (x : Bool) : (specSF h m x).InUnit := by
  unfold specSF
  dsimp only
  split
  · simp [Score.InUnit]
  · rename_i hz
    simp only [Score.InUnit]
    have hle := List.length_filter_le (fun p => specIsSimplex h m p.2)
      (h.edges.filter (fun p => decide (m + x.toNat ≤ p.2.length)))
    generalize ((h.edges.filter (fun p => decide (m + x.toNat ≤ p.2.length))).filter
      (fun p => specIsSimplex h m p.2)).length = a at hle
    generalize (h.edges.filter (fun p => decide (m + x.toNat ≤ p.2.length))).length = b at hle hz
    have hb : (0 : Rat) < (b : Rat) := by exact_mod_cast Nat.pos_of_ne_zero hz
    have ha : (0 : Rat) ≤ (a : Rat) := by exact_mod_cast Nat.zero_le a
    have hab : (a : Rat) ≤ (b : Rat) := by exact_mod_cast hle
    exact ⟨div_nonneg ha (le_of_lt hb), (div_le_one hb).mpr hab⟩

theorem specFaceDistance_unit (h : Net) (m : Nat) (e : List PyId) :
    0 ≤ specFaceDistance h m true e ∧ specFaceDistance h m true e ≤ 1 := by
  unfold specFaceDistance
  dsimp only
  have hle := List.length_filter_le (fun t => !isEdge h t) (specSubfaces h m e)
  generalize ((specSubfaces h m e).filter (fun t => !isEdge h t)).length = a at hle
  generalize (specSubfaces h m e).length = b at hle
  by_cases hz : b = 0
  · subst hz
    have : a = 0 := by omega
    subst this
    simp
  · have hb : (0 : Rat) < (b : Rat) := by exact_mod_cast Nat.pos_of_ne_zero hz
    have ha : (0 : Rat) ≤ (a : Rat) := by exact_mod_cast Nat.zero_le a
    have hab : (a : Rat) ≤ (b : Rat) := by exact_mod_cast hle
    simp only [hz, Bool.true_and, bne_iff_ne, ne_eq, not_false_eq_true, if_true]
    exact ⟨div_nonneg ha (le_of_lt hb), (div_le_one hb).mpr hab⟩

theorem sum_unit_bounds (l : List Rat) (hl : ∀ q ∈ l, 0 ≤ q ∧ q ≤ 1) : 0 ≤ l.sum ∧ l.sum ≤ (l.length : Rat) := by
  induction l with
  | nil => simp
  | cons a l ih =>
    have ha := hl a List.mem_cons_self
    have := ih (fun q hq => hl q (List.mem_cons_of_mem _ hq))
    simp only [List.sum_cons, List.length_cons]
    push_cast
    constructor <;> linarith [ha.1, ha.2, this.1, this.2]

theorem specMFED_unit (h : Net) (m : Nat) (x : Bool) : 0 ≤ specMFED h m x true ∧ specMFED h m x true ≤ 1 := by
  unfold specMFED
  dsimp only
  split
  · simp
  · rename_i hz
    have hb := sum_unit_bounds ((specFaces h m x).map (fun p => specFaceDistance h m true p.2))
      (fun q hq => by
        obtain ⟨p, _, rfl⟩ := List.mem_map.mp hq
        exact specFaceDistance_unit h m p.2)
    rw [List.length_map] at hb
    have hn : (0 : Rat) < ((specFaces h m x).length : Rat) := by exact_mod_cast Nat.pos_of_ne_zero hz
    exact ⟨div_nonneg hb.1 (le_of_lt hn), (div_le_one hn).mpr hb.2⟩

/-! ### downward-closed hypergraphs -/

theorem closed_isEdge {h : Net} {m : Nat} (hc : downClosed h m = true) {p : PyId × List PyId} (hp : p ∈ h.edges)
    {t : List PyId} (ht : t ∈ subsets h.nodes) (hm : m ≤ t.length) (hs : isSub t p.2 = true) :
    isEdge h t = true := by
  have h1 := (List.all_eq_true.mp hc) p hp
  have h2 := (List.all_eq_true.mp h1) t ht
  simpa [hm, hs] using h2

theorem specSED_closed {h : Net} {m : Nat} (hc : downClosed h m = true) (x : Bool) : specSED h m x = 0 := by
  unfold specSED
  dsimp only
  rw [List.length_eq_zero_iff, List.filter_eq_nil_iff]
  intro t ht
  simp only [Bool.and_eq_true, decide_eq_true_eq, List.any_eq_true, Bool.not_eq_true', not_and,
    Bool.not_eq_false, and_imp, forall_exists_index]
  intro hm p hp hs
  exact closed_isEdge hc (mem_specFaces.mp hp).1 ht hm hs

theorem specSF_closed {h : Net} {m : Nat} (hc : downClosed h m = true) (x : Bool) :
    specSF h m x = if (h.edges.filter (fun p => decide (m + x.toNat ≤ p.2.length))).length = 0 then .undefined
      else .val 1 := by
  unfold specSF
  dsimp only
  have : (h.edges.filter (fun p => decide (m + x.toNat ≤ p.2.length))).filter (fun p => specIsSimplex h m p.2)
      = h.edges.filter (fun p => decide (m + x.toNat ≤ p.2.length)) := by
    rw [List.filter_eq_self]
    intro p hp
    exact (List.all_eq_true.mp hc) p (List.mem_filter.mp hp).1
  rw [this]
  split
  · rfl
  · rename_i hz
    have hn : ((h.edges.filter (fun p => decide (m + x.toNat ≤ p.2.length))).length : Rat) ≠ 0 := by
      exact_mod_cast hz
    rw [div_self hn]

theorem specFaceDistance_closed {h : Net} {m : Nat} (hc : downClosed h m = true) (nz : Bool)
    {p : PyId × List PyId} (hp : p ∈ h.edges) : specFaceDistance h m nz p.2 = 0 := by
  unfold specFaceDistance
  dsimp only
  have : (specSubfaces h m p.2).filter (fun t => !isEdge h t) = [] := by
    rw [List.filter_eq_nil_iff]
    intro t ht
    have ht' := List.mem_filter.mp ht
    simp only [Bool.and_eq_true, decide_eq_true_eq] at ht'
    simp [closed_isEdge hc hp ht'.1 ht'.2.1.1 ht'.2.1.2]
  rw [this]
  simp

theorem specMFED_closed {h : Net} {m : Nat} (hc : downClosed h m = true) (x nz : Bool) : specMFED h m x nz = 0 := by
  unfold specMFED
  dsimp only
  split
  · rfl
  · have : (specFaces h m x).map (fun p => specFaceDistance h m nz p.2) = (specFaces h m x).map (fun _ => (0 : Rat)) := by
      apply List.map_congr_left
      intro p hp
      exact specFaceDistance_closed hc nz (mem_specFaces.mp hp).1
    rw [this]
    simp

theorem specSEDNorm_closed {h : Net} {m : Nat} (hc : downClosed h m = true) (x : Bool) :
    specSEDNorm h m x = if (specFaces h m x).isEmpty ∨ (sizeGeq h.edges m).length ≤ (specFaces h m x).length
      then .undefined else .val 0 := by
  unfold specSEDNorm
  have e3 : h.edges.filter (fun p => decide (m ≤ p.2.length)) = sizeGeq h.edges m := rfl
  rw [specSED_closed hc, e3]
  by_cases hz : (specFaces h m x).isEmpty = true
  · simp [hz]
  · simp only [hz, if_false, Bool.false_eq_true, false_or]
    by_cases hle : (sizeGeq h.edges m).length ≤ (specFaces h m x).length
    · have : ¬ (((sizeGeq h.edges m).length : Int) - ((specFaces h m x).length : Int) + ((0 : Nat) : Int) > 0) := by
        omega
      simp [hle]
    · have : (((sizeGeq h.edges m).length : Int) - ((specFaces h m x).length : Int) + ((0 : Nat) : Int) > 0) := by
        omega
      simp [hle]

end Xgi.C15
