/-
  C15 — concrete networks used by the non-vacuity `example`s of `Props/C15.lean`, with the proofs that they lie
  in the domain `Dom` of the theorems.  (Helpers only: kept out of the property file so that the obligations
  counted there are property statements.)
-/
import XgiModel.C15.LemmasFinal

namespace Xgi.C15

/-- {1,2,3}, {1,2}, {3,4} on nodes 1..4 (edge {1,3}, {2,3} missing) -/
def ex1 : Net :=
  { nodes := [.int 1, .int 2, .int 3, .int 4],
    edges := [(.int 0, [.int 1, .int 2, .int 3]), (.int 1, [.int 1, .int 2]), (.int 2, [.int 3, .int 4])] }

/-- the closure of {a,b,c} above size 2, string labels, unordered members -/
def ex2 : Net :=
  { nodes := [.str "c", .str "a", .str "b"],
    edges := [(.str "e0", [.str "c", .str "a", .str "b"]), (.int 5, [.str "b", .str "a"]),
              (.int 1, [.str "c", .str "a"]), (.int 2, [.str "c", .str "b"])] }

/-- a 5-node maximal face with four of its five 4-node sub-faces ({1,2,3,4} missing): the `min_size = 4` axis -/
def ex3 : Net :=
  { nodes := [.int 0, .int 1, .int 2, .int 3, .int 4],
    edges := [(.int 0, [.int 0, .int 1, .int 2, .int 3, .int 4]), (.int 1, [.int 0, .int 1, .int 2, .int 3]),
              (.int 2, [.int 0, .int 1, .int 2, .int 4]), (.int 3, [.int 0, .int 1, .int 3, .int 4]),
              (.int 4, [.int 0, .int 2, .int 3, .int 4])] }

/-- an empty edge (ID 0) and the edge {1,2} -/
def ex4 : Net :=
  { nodes := [.int 1, .int 2], edges := [(.int 0, []), (.int 1, [.int 1, .int 2])] }

theorem ex1_dom : Dom ex1 :=
  ⟨by unfold Net.WF ex1; decide, by unfold Orderable ex1; decide⟩
theorem ex2_dom : Dom ex2 :=
  ⟨by unfold Net.WF ex2; decide, by unfold Orderable ex2; decide⟩
theorem ex3_dom : Dom ex3 :=
  ⟨by unfold Net.WF ex3; decide, by unfold Orderable ex3; decide⟩
theorem ex4_dom : Dom ex4 :=
  ⟨by unfold Net.WF ex4; decide, by unfold Orderable ex4; decide⟩

end Xgi.C15
