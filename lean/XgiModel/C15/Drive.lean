/-
  C15 driver: {"f":"simpliciality","net":{…},"min_size":k,"exclude_min_size":b} → every measure of the model
  (transcription) and every brute-force spec value, for normalize = true and false.
-/
import XgiModel.Proto
import XgiModel.Net
import XgiModel.C15.Simp
open Lean Xgi.Proto

namespace Xgi.C15.Drive

def ratJson (q : Rat) : Json :=
  if q.den = 1 then intJson q.num else Json.str s!"{q.num}/{q.den}"

def scoreJson : Score → Json
  | .undefined => Json.str "nan"
  | .val q => ratJson q

def optScoreJson : Option Score → Json
  | none => Json.str "err"
  | some s => scoreJson s

def optRatJson : Option Rat → Json
  | none => Json.str "err"
  | some q => ratJson q

def unmodelled : Json := Json.mkObj [("out", Json.str "unmodelled")]

example (h : Net) (m : Nat) (x : Bool) :
    editSimpliciality h m x = (simplicialEditDistance h m x true).map Score.oneMinus := rfl
example (h : Net) (m : Nat) (x : Bool) :
    faceEditSimpliciality h m x = (meanFaceEditDistance h m x true).map (1 - ·) := rfl

def simpliciality (j : Json) : Json :=
  match (getField? j "net").bind netOfJson?, getNat? j "min_size", getBool? j "exclude_min_size" with
  | some h, some m, some x =>
    if !(wfB h && orderable h.nodes) then unmodelled else
    -- `edit_simpliciality` / `face_edit_simpliciality` are by definition `1 - distance`; the distance is computed once
    let sedN := simplicialEditDistance h m x true
    let mfedN := meanFaceEditDistance h m x true
    Json.mkObj [
      ("out", "ok"),
      ("maximal", match maximalEdges h with
        | none => Json.str "err"
        | some mx => idsToJson (mx.map (·.1))),
      ("sed_norm", optScoreJson sedN),
      ("sed_raw", optScoreJson (simplicialEditDistance h m x false)),
      ("es", optScoreJson (sedN.map Score.oneMinus)),
      ("mfed_norm", optRatJson mfedN),
      ("mfed_raw", optRatJson (meanFaceEditDistance h m x false)),
      ("fes", optRatJson (mfedN.map (1 - ·))),
      ("sf", scoreJson (simplicialFraction h m x)),
      ("spec_maximal", idsToJson ((specMaximal h).map (·.1))),
      ("spec_sed_raw", natJson (specSED h m x)),
      ("spec_sed_norm", scoreJson (specSEDNorm h m x)),
      ("spec_mfed_norm", ratJson (specMFED h m x true)),
      ("spec_mfed_raw", ratJson (specMFED h m x false)),
      ("spec_sf", scoreJson (specSF h m x)),
      ("closed", Json.bool (downClosed h m)),
      ("no_repeat", Json.bool (noRepeatedEdge h)) ]
  | _, _, _ => badOp

/-- trie probe: {"f":"trie","words":[[…],…],"queries":[[…],…]} → search results -/
def trieProbe (j : Json) : Json :=
  match getArr? j "words", getArr? j "queries" with
  | some ws, some qs =>
    match ws.mapM idsOfJson?, qs.mapM idsOfJson? with
    | some ws, some qs =>
      if !(orderable (ws.flatten ++ qs.flatten)) then unmodelled else
      let t := buildTrie ws
      Json.mkObj [("out", "ok"), ("found", Json.arr (qs.map (fun q => Json.bool (t.search q))).toArray)]
    | _, _ => badOp
  | _, _ => badOp

def handle (st : Unit) (j : Json) : Unit × Json :=
  match getStr? j "f" with
  | some "simpliciality" => (st, simpliciality j)
  | some "trie" => (st, trieProbe j)
  | _ => (st, badOp)

end Xgi.C15.Drive
