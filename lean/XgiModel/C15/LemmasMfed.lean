/-
  C15 helper lemmas, part 9: `mean_face_edit_distance` = average of the per-face missing share.
-/
import XgiModel.C15.LemmasSf

namespace Xgi.C15

section
variable {h : Net} (hw : h.WF)
include hw

omit hw in
theorem not_subset_iff_card_lt {e : List PyId} (he : e.Nodup) {u : Finset PyId} (hu : u ⊆ F e) :
    ¬ F e ⊆ u ↔ u.card < e.length := by
  rw [← card_F he]
  constructor
  · intro hn
    exact Finset.card_lt_card (Finset.ssubset_iff_subset_ne.mpr ⟨hu, fun e' => hn (e' ▸ Finset.Subset.refl _)⟩)
  · intro hlt hsub
    have := Finset.card_le_card hsub
    omega

omit hw in
theorem subs_pred {m : Nat} {e a : List PyId} (ha : a.Nodup) :
    (decide (m ≤ a.length) && isSub a e && !isSub e a) = true ↔
      (m ≤ (F a).card ∧ F a ⊆ F e ∧ ¬ F e ⊆ F a) := by
  simp only [Bool.and_eq_true, decide_eq_true_eq, Bool.not_eq_true', card_F ha, F_subset_iff, ← isSub_iff]
  constructor
  · rintro ⟨⟨h1, h2⟩, h3⟩; exact ⟨h1, h2, by simp [h3]⟩
  · rintro ⟨h1, h2, h3⟩; exact ⟨⟨h1, h2⟩, by simpa using h3⟩

/-- number of proper sub-faces of size ≥ m of an edge -/
theorem specSubfaces_length (m : Nat) {p : PyId × List PyId} (hp : p ∈ h.edges) :
    (specSubfaces h m p.2).length = ((List.range' m (p.2.length - m)).map (choose p.2.length)).sum := by
  have hnl := NL_edge hw hp
  rw [← length_powerset]
  have h2 := count_sublists hnl.1 (nodup_powerset hnl.1 m p.2.length) (fun k => m ≤ k ∧ k < p.2.length)
    (fun t => mem_powerset) (fun _ => true) (fun _ => True) (fun _ _ => by simp)
  simp only [List.filter_true] at h2
  rw [h2]
  unfold specSubfaces
  rw [count_sublists hw.1 (nodup_subsets hw.1) (fun _ => True) (fun t => by simp [mem_subsets]) _
    (fun u => m ≤ u.card ∧ u ⊆ F p.2 ∧ ¬ F p.2 ⊆ u)
    (fun a ha => subs_pred (NL_sublist (NL_nodes hw) ha).1)]
  congr 1
  ext u
  simp only [Finset.mem_filter, Finset.mem_powerset, true_and, and_true]
  constructor
  · rintro ⟨_, h1, h2, h3⟩
    exact ⟨h2, h1, (not_subset_iff_card_lt hnl.1 h2).mp h3⟩
  · rintro ⟨h2, h1, h3⟩
    exact ⟨fun y hy => List.mem_toFinset.mpr (hnl.2 y (List.mem_toFinset.mp (h2 hy))), h1, h2,
      (not_subset_iff_card_lt hnl.1 h2).mpr h3⟩

/-- number of those that are not edges -/
theorem specMissing_length (m : Nat) {p : PyId × List PyId} (hp : p ∈ h.edges) (hm : m ≤ p.2.length) :
    ((specSubfaces h m p.2).filter (fun t => !isEdge h t)).length = (U h m [p]).card := by
  have hnl := NL_edge hw hp
  unfold specSubfaces
  rw [List.filter_filter]
  rw [count_sublists hw.1 (nodup_subsets hw.1) (fun _ => True) (fun t => by simp [mem_subsets]) _
    (fun u => u ∉ EFam h.edges ∧ (m ≤ u.card ∧ u ⊆ F p.2 ∧ ¬ F p.2 ⊆ u))
    (fun a ha => by
      rw [Bool.and_eq_true, subs_pred (NL_sublist (NL_nodes hw) ha).1, Bool.not_eq_true', ← Bool.not_eq_true,
        isEdge_iff])]
  congr 1
  ext u
  simp only [Finset.mem_filter, Finset.mem_powerset, true_and, mem_U, List.mem_singleton, exists_eq_left]
  constructor
  · rintro ⟨h0, h1, h2, h3, _⟩
    exact ⟨h0, h2, fun hh => h1 ((mem_Eg_iff hw h2).mp hh), h3⟩
  · rintro ⟨h0, h2, h1, h3⟩
    refine ⟨h0, fun hh => h1 ((mem_Eg_iff hw h2).mpr hh), h2, h3, ?_⟩
    intro hsub
    have : u = F p.2 := Finset.Subset.antisymm h3 hsub
    exact h1 (this ▸ mem_EFam.mpr ⟨p, mem_sizeGeq.mpr ⟨hp, hm⟩, rfl⟩)

end

/-- the per-face value inside the loop of `mean_face_edit_distance` -/
def modelFaceDistance (t : Trie) (m : Nat) (normalize : Bool) (e : List PyId) : Rat :=
  if normalize && maxNumberOfSubfaces m e.length != 0 then
    ((countMissing t e m : Nat) : Rat) * (1 / (maxNumberOfSubfaces m e.length : Rat))
  else ((countMissing t e m : Nat) : Rat)

theorem modelFaceDistance_eq {h : Net} (hw : h.WF) (hO : Orderable h.nodes) (m : Nat) (hm1 : 1 ≤ m) (nz : Bool)
    {p : PyId × List PyId} (hp : p ∈ h.edges) (hm : m ≤ p.2.length) :
    modelFaceDistance (trieM h m) m nz p.2 = specFaceDistance h m nz p.2 := by
  unfold modelFaceDistance specFaceDistance
  dsimp only
  rw [maxNumberOfSubfaces_eq hm1 hm, ← specSubfaces_length hw m hp, countMissing_eq hw hO m hp hm,
    specMissing_length hw m hp hm]
  by_cases hz : (specSubfaces h m p.2).length = 0
  · simp [hz]
  · cases nz
    · simp
    · simp [hz, div_eq_mul_inv]

theorem foldl_avg (m : Nat) (D S : List PyId → Rat) (n : Rat) (l : List (PyId × List PyId))
    (hl : ∀ p ∈ l, m ≤ p.2.length ∧ D p.2 = S p.2) : ∀ z : Rat,
    (l.map (·.2)).foldl (fun avg e => if m ≤ e.length then avg + D e / n else avg) z
      = z + (l.map (fun p => S p.2)).sum / n := by
  induction l with
  | nil => intro z; simp
  | cons p l ih =>
    intro z
    have hp := hl p List.mem_cons_self
    simp only [List.map_cons, List.foldl_cons, hp.1, if_true, List.sum_cons]
    rw [ih (fun q hq => hl q (List.mem_cons_of_mem _ hq)), hp.2, add_div]
    ring

theorem meanFaceEditDistance_eq {h : Net} (hw : h.WF)
    (hO : Orderable h.nodes) (m : Nat) (hm1 : 1 ≤ m) (x nz : Bool) :
    meanFaceEditDistance h m x nz = some (specMFED h m x nz) := by
  unfold meanFaceEditDistance
  rw [maximalEdges_eq hw]
  have e1 : sizeGeq (specMaximal h) (m + x.toNat) = specFaces h m x := rfl
  simp only [e1]
  congr 1
  have key := foldl_avg m (modelFaceDistance (trieM h m) m nz) (specFaceDistance h m nz)
    (((specFaces h m x).map (·.2)).length : Nat) (specFaces h m x)
    (fun p hp => by
      have := mem_specFaces.mp hp
      exact ⟨by omega, modelFaceDistance_eq hw hO m hm1 nz this.1 (by omega)⟩) 0
  unfold modelFaceDistance trieM at key
  unfold specMFED
  by_cases hz : (specFaces h m x).length = 0
  · have : specFaces h m x = [] := List.length_eq_zero_iff.mp hz
    simp [this]
  · simp only [hz, if_false, List.length_map]
    rw [zero_add, List.length_map] at key
    exact key

end Xgi.C15
