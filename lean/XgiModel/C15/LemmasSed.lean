/-
  C15 helper lemmas, part 5: the bookkeeping of `simplicial_edit_distance` (missing sub-faces per maximal face
  minus those already reachable through an earlier overlapping face) counts every missing node set once.
-/
import XgiModel.C15.LemmasFin

namespace Xgi.C15

/-- member sets of the edges of size ≥ m (the content of the trie) -/
def Eg (h : Net) (m : Nat) : Finset (Finset PyId) := EFam (sizeGeq h.edges m)

/-- the trie that `simplicial_edit_distance` / `mean_face_edit_distance` build -/
def trieM (h : Net) (m : Nat) : Trie := buildTrie ((sizeGeq h.edges m).map (·.2))

/-- node sets of size ≥ m that are not edges and lie inside a face of `S` -/
def U (h : Net) (m : Nat) (S : List (PyId × List PyId)) : Finset (Finset PyId) :=
  (F h.nodes).powerset.filter (fun u => m ≤ u.card ∧ u ∉ Eg h m ∧ ∃ q ∈ S, u ⊆ F q.2)

theorem mem_U {h : Net} {m : Nat} {S : List (PyId × List PyId)} {u : Finset PyId} :
    u ∈ U h m S ↔ u ⊆ F h.nodes ∧ m ≤ u.card ∧ u ∉ Eg h m ∧ ∃ q ∈ S, u ⊆ F q.2 := by
  simp [U]

theorem mem_sizeGeq {es : List (PyId × List PyId)} {k : Nat} {p : PyId × List PyId} :
    p ∈ sizeGeq es k ↔ p ∈ es ∧ k ≤ p.2.length := by
  simp [sizeGeq]

section
variable {h : Net} (hw : h.WF) (hO : Orderable h.nodes) (m : Nat)
include hw hO

theorem searchM {w : List PyId} (hwl : NL h w) : (trieM h m).search w = true ↔ F w ∈ Eg h m :=
  search_iff hw hO (fun p hp => (mem_sizeGeq.mp hp).1) hwl

theorem F_mem_Eg {p : PyId × List PyId} (hp : p ∈ h.edges) (hm : m ≤ p.2.length) : F p.2 ∈ Eg h m :=
  mem_EFam.mpr ⟨p, mem_sizeGeq.mpr ⟨hp, hm⟩, rfl⟩

/-- `_count_missing_subfaces` of a face that is itself in the trie -/
theorem countMissing_eq {p : PyId × List PyId} (hp : p ∈ h.edges) (hm : m ≤ p.2.length) :
    countMissing (trieM h m) p.2 m = (U h m [p]).card := by
  have hnl := NL_edge hw hp
  unfold countMissing
  rw [count_sublists hnl.1 (nodup_powerset hnl.1 _ _) (fun k => m ≤ k ∧ k < p.2.length)
    (fun t => mem_powerset) (fun e => !(trieM h m).search e) (fun u => u ∉ Eg h m)
    (fun a ha => by
      have := searchM hw hO m (NL_sublist hnl ha)
      simp only [Bool.not_eq_true', ← this]; cases (trieM h m).search a <;> simp)]
  congr 1
  ext u
  simp only [Finset.mem_filter, Finset.mem_powerset, mem_U, List.mem_singleton, exists_eq_left]
  constructor
  · rintro ⟨hu, ⟨h1, _⟩, h3⟩
    exact ⟨fun x hx => List.mem_toFinset.mpr (hnl.2 x (List.mem_toFinset.mp (hu hx))), h1, h3, hu⟩
  · rintro ⟨_, h1, h3, hu⟩
    refine ⟨hu, ⟨h1, ?_⟩, h3⟩
    have hne : u ≠ F p.2 := fun e => h3 (e ▸ F_mem_Eg hw hO m hp hm)
    have := Finset.card_lt_card (Finset.ssubset_iff_subset_ne.mpr ⟨hu, hne⟩)
    rwa [card_F hnl.1] at this

end

/-! ### the set `redundant_missing_faces` -/

theorem foldl_ins_flatMap {α β : Type} [DecidableEq β] (contrib : α → List β) (l : List α) : ∀ (r : List β),
    l.foldl (fun red q => (contrib q).foldl (fun r x => ins x r) red) r
      = (l.flatMap contrib).foldl (fun r x => ins x r) r := by
  induction l with
  | nil => intro r; rfl
  | cons a l ih => intro r; simp [List.foldl_append, ih]

/-- what one earlier neighbour contributes to `redundant_missing_faces` -/
def contrib (t : Trie) (m : Nat) (ids : List PyId) (p q : PyId × List PyId) : List (List PyId) :=
  if indexOf q.1 ids < indexOf p.1 ids then
    if m ≤ (q.2.filter (· ∈ p.2)).length then
      missingSubfaces t (q.2.filter (· ∈ p.2)) m ++
        (if !t.search (q.2.filter (· ∈ p.2)) then [sorted (q.2.filter (· ∈ p.2))] else [])
    else []
  else []

theorem redundantMissing_eq (t : Trie) (m : Nat) (maxE : List (PyId × List PyId)) (p : PyId × List PyId) :
    redundantMissing t m maxE p =
      dedup ((maxE.filter (fun q => q.1 ≠ p.1 && q.2.any (· ∈ p.2))).flatMap (contrib t m (maxE.map (·.1)) p)) := by
  unfold redundantMissing dedup
  rw [← foldl_ins_flatMap]
  dsimp only
  congr 1
  funext red q
  unfold contrib
  by_cases h1 : indexOf q.1 (maxE.map (·.1)) < indexOf p.1 (maxE.map (·.1))
  · by_cases h2 : m ≤ (q.2.filter (· ∈ p.2)).length
    · by_cases h3 : (!t.search (q.2.filter (· ∈ p.2))) = true
      · simp [h1, h2, h3, List.foldl_append]
      · simp [h1, h2, h3]
    · simp [h1, h2]
  · simp [h1]

theorem missingSubfaces_eq (t : Trie) (c : List PyId) (m : Nat) :
    missingSubfaces t c m = dedup (((powerset c m c.length).filter (fun e => !t.search e)).map sorted) := by
  simp [missingSubfaces, dedup, List.foldl_map]

/-- the elements of one contribution: sorted tuples of the missing sub-lists (of size ≥ m) of the intersection -/
theorem mem_contrib {t : Trie} {m : Nat} {ids : List PyId} {p q : PyId × List PyId} {x : List PyId} :
    x ∈ contrib t m ids p q ↔ indexOf q.1 ids < indexOf p.1 ids ∧
      ∃ a, a.Sublist (q.2.filter (· ∈ p.2)) ∧ m ≤ a.length ∧ t.search a = false ∧ x = sorted a := by
  unfold contrib
  by_cases h1 : indexOf q.1 ids < indexOf p.1 ids
  · simp only [h1, if_true, true_and]
    generalize q.2.filter (· ∈ p.2) = c
    by_cases h2 : m ≤ c.length
    · simp only [h2, if_true, List.mem_append, missingSubfaces_eq, mem_dedup, List.mem_map, List.mem_filter,
        mem_powerset, Bool.not_eq_true']
      constructor
      · rintro (⟨a, ⟨⟨hs, hm, _⟩, hf⟩, rfl⟩ | hx)
        · exact ⟨a, hs, hm, hf, rfl⟩
        · by_cases h3 : t.search c = false
          · simp only [h3, Bool.not_false, if_true, List.mem_singleton] at hx
            exact ⟨c, List.Sublist.refl c, h2, h3, hx⟩
          · simp [h3] at hx
      · rintro ⟨a, hs, hm, hf, rfl⟩
        by_cases hl : a.length < c.length
        · exact Or.inl ⟨a, ⟨⟨hs, hm, hl⟩, hf⟩, rfl⟩
        · have : a = c := hs.eq_of_length_le (by omega)
          subst this
          right; simp [hf]
    · simp only [h2, if_false, List.not_mem_nil, false_iff]
      rintro ⟨a, hs, hm, _, _⟩
      have := hs.length_le
      omega
  · simp [h1]

/-! ### positions in the list of maximal faces -/

theorem indexOf_append_mem {x : PyId} {l₁ l₂ : List PyId} (hx : x ∈ l₁) : indexOf x (l₁ ++ l₂) = indexOf x l₁ := by
  induction l₁ with
  | nil => simp at hx
  | cons y l ih =>
    by_cases hy : y = x
    · simp [indexOf, hy]
    · have : x ∈ l := by
        rcases List.mem_cons.mp hx with e | h
        · exact absurd e.symm hy
        · exact h
      simp [indexOf, hy, ih this]

theorem indexOf_lt_length {x : PyId} {l : List PyId} (hx : x ∈ l) : indexOf x l < l.length := by
  induction l with
  | nil => simp at hx
  | cons y l ih =>
    by_cases hy : y = x
    · simp [indexOf, hy]
    · have : x ∈ l := by
        rcases List.mem_cons.mp hx with e | h
        · exact absurd e.symm hy
        · exact h
      simp [indexOf, hy]; exact ih this

theorem indexOf_append_not_mem {x : PyId} {l₁ l₂ : List PyId} (hx : x ∉ l₁) :
    indexOf x (l₁ ++ l₂) = l₁.length + indexOf x l₂ := by
  induction l₁ with
  | nil => simp
  | cons y l ih =>
    have hy : ¬ y = x := fun e => hx (e ▸ List.mem_cons_self)
    have : x ∉ l := fun h => hx (List.mem_cons_of_mem _ h)
    simp [indexOf, hy, ih this]; omega

/-- with distinct IDs, "smaller `id_to_num`" means "earlier in the list" -/
theorem earlier_iff {pre post : List (PyId × List PyId)} {p q : PyId × List PyId}
    (hn : ((pre ++ p :: post).map (·.1)).Nodup) (hq : q ∈ pre ++ p :: post) :
    indexOf q.1 ((pre ++ p :: post).map (·.1)) < indexOf p.1 ((pre ++ p :: post).map (·.1)) ↔ q ∈ pre := by
  simp only [List.map_append, List.map_cons] at hn ⊢
  have hn' := List.nodup_append.mp hn
  have hp_notin : p.1 ∉ pre.map (·.1) := fun hh => hn'.2.2 _ hh _ List.mem_cons_self rfl
  have hp_idx : indexOf p.1 (pre.map (·.1) ++ p.1 :: post.map (·.1)) = (pre.map (·.1)).length := by
    rw [indexOf_append_not_mem hp_notin]; simp [indexOf]
  rw [hp_idx]
  constructor
  · intro hlt
    rcases List.mem_append.mp hq with h | h
    · exact h
    · exfalso
      have hq_in : q.1 ∈ p.1 :: post.map (·.1) := by
        rcases List.mem_cons.mp h with rfl | h
        · exact List.mem_cons_self
        · exact List.mem_cons_of_mem _ (List.mem_map_of_mem h)
      have hq_notin : q.1 ∉ pre.map (·.1) := fun hh => hn'.2.2 _ hh _ hq_in rfl
      rw [indexOf_append_not_mem hq_notin] at hlt
      omega
  · intro h
    have hin : q.1 ∈ pre.map (·.1) := List.mem_map_of_mem h
    rw [indexOf_append_mem hin]
    exact indexOf_lt_length hin

end Xgi.C15
