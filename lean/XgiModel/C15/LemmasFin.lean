/-
  C15 helper lemmas, part 4: node sets as `Finset PyId`; the enumerations of the transcription and of the
  brute-force side count the same families of finsets.
-/
import XgiModel.C15.LemmasMax
import Mathlib.Data.Finset.Powerset
import Mathlib.Data.Finset.Card
import Mathlib.Data.List.Dedup

namespace Xgi.C15

/-- the node set named by a member list -/
abbrev F (l : List PyId) : Finset PyId := l.toFinset

/-- duplicate-free list of nodes of `h` -/
def NL (h : Net) (l : List PyId) : Prop := l.Nodup ∧ ∀ x ∈ l, x ∈ h.nodes

theorem NL_edge {h : Net} (hw : h.WF) {p : PyId × List PyId} (hp : p ∈ h.edges) : NL h p.2 := hw.2.2 p hp

theorem NL_sublist {h : Net} {a l : List PyId} (hl : NL h l) (ha : a.Sublist l) : NL h a :=
  ⟨hl.1.sublist ha, fun x hx => hl.2 x (ha.subset hx)⟩

theorem NL_nodes {h : Net} (hw : h.WF) : NL h h.nodes := ⟨hw.1, fun _ hx => hx⟩

theorem NL_sorted {h : Net} {a : List PyId} (ha : NL h a) : NL h (sorted a) :=
  ⟨sorted_nodup ha.1, fun x hx => ha.2 x (mem_sorted.mp hx)⟩

theorem F_sorted (w : List PyId) : F (sorted w) = F w := by
  ext x; simp

theorem card_F {a : List PyId} (ha : a.Nodup) : (F a).card = a.length := List.toFinset_card_of_nodup ha

theorem F_eq_iff {a b : List PyId} : F a = F b ↔ ∀ x, x ∈ a ↔ x ∈ b := by
  simp [Finset.ext_iff]

theorem F_subset_iff {a b : List PyId} : F a ⊆ F b ↔ Subs a b := by
  simp [Finset.subset_iff, Subs]

theorem sorted_eq_iff_F {h : Net} (hO : Orderable h.nodes) {a b : List PyId} (ha : NL h a) (hb : NL h b) :
    sorted a = sorted b ↔ F a = F b := by
  rw [sorted_eq_iff hO ha.2 ha.1 hb.1, F_eq_iff]

theorem F_filter_mem (l : List PyId) (u : Finset PyId) (hu : u ⊆ F l) : F (l.filter (· ∈ u)) = u := by
  ext x
  simp only [List.mem_toFinset, List.mem_filter, decide_eq_true_eq]
  constructor
  · exact fun hx => hx.2
  · exact fun hx => ⟨List.mem_toFinset.mp (hu hx), hx⟩

theorem F_inter (a b : List PyId) : F (a.filter (· ∈ b)) = F a ∩ F b := by
  ext x; simp

/-- `F` is injective on the sub-lists of a duplicate-free list -/
theorem F_inj_sublist {l a b : List PyId} (hl : l.Nodup) (ha : a.Sublist l) (hb : b.Sublist l)
    (e : F a = F b) : a = b := sublist_ext hl ha hb (F_eq_iff.mp e)

/-! ### the family of edge sets and the trie -/

/-- the member sets of the edges in `es` -/
def EFam (es : List (PyId × List PyId)) : Finset (Finset PyId) := (es.map (fun p => F p.2)).toFinset

theorem mem_EFam {es : List (PyId × List PyId)} {u : Finset PyId} : u ∈ EFam es ↔ ∃ p ∈ es, F p.2 = u := by
  simp [EFam]

/-- `t.search(w)` on the trie of `es` ⇔ the node set of `w` is the member set of an edge of `es` -/
theorem search_iff {h : Net} (hw : h.WF) (hO : Orderable h.nodes) {es : List (PyId × List PyId)}
    (hes : ∀ p ∈ es, p ∈ h.edges) {w : List PyId} (hwl : NL h w) :
    (buildTrie (es.map (·.2))).search w = true ↔ F w ∈ EFam es := by
  rw [search_buildTrie, decide_eq_true_eq, mem_EFam]
  simp only [List.map_map, List.mem_map, Function.comp]
  constructor
  · rintro ⟨p, hp, e⟩
    exact ⟨p, hp, (sorted_eq_iff_F hO (NL_edge hw (hes p hp)) hwl).mp e⟩
  · rintro ⟨p, hp, e⟩
    exact ⟨p, hp, (sorted_eq_iff_F hO (NL_edge hw (hes p hp)) hwl).mpr e⟩

/-! ### counting an enumeration of sub-lists = counting subsets -/

theorem length_eq_card_image {L : List (List PyId)} (hL : L.Nodup)
    (hinj : ∀ a ∈ L, ∀ b ∈ L, F a = F b → a = b) : L.length = ((L.map F).toFinset).card := by
  rw [List.toFinset_card_of_nodup (List.Nodup.map_on hinj hL), List.length_map]

/-- a duplicate-free enumeration `L` of the sub-lists of `l` whose length satisfies `Q`, filtered by `P`,
    has as many elements as there are subsets of `F l` with `Q` on the cardinality and `P'` -/
theorem count_sublists {l : List PyId} (hl : l.Nodup) {L : List (List PyId)} (hLn : L.Nodup)
    (Q : Nat → Prop) [DecidablePred Q] (hL : ∀ t, t ∈ L ↔ t.Sublist l ∧ Q t.length)
    (P : List PyId → Bool) (P' : Finset PyId → Prop) [DecidablePred P']
    (hP : ∀ a, a.Sublist l → (P a = true ↔ P' (F a))) :
    (L.filter P).length = ((F l).powerset.filter (fun u => Q u.card ∧ P' u)).card := by
  have hsub : ∀ a ∈ L.filter P, a.Sublist l := fun a ha => ((hL a).mp (List.mem_filter.mp ha).1).1
  rw [length_eq_card_image (hLn.filter _)
    (fun a ha b hb e => F_inj_sublist hl (hsub a ha) (hsub b hb) e)]
  congr 1
  ext u
  simp only [List.mem_toFinset, List.mem_map, List.mem_filter, Finset.mem_filter, Finset.mem_powerset, hL]
  constructor
  · rintro ⟨a, ⟨⟨hs, hq⟩, hp⟩, rfl⟩
    refine ⟨fun x hx => List.mem_toFinset.mpr (hs.subset (List.mem_toFinset.mp hx)), ?_, (hP a hs).mp hp⟩
    rwa [card_F (hl.sublist hs)]
  · rintro ⟨hu, hq, hp⟩
    have hs : (l.filter (· ∈ u)).Sublist l := List.filter_sublist
    have e := F_filter_mem l u hu
    refine ⟨l.filter (· ∈ u), ⟨⟨hs, ?_⟩, ?_⟩, e⟩
    · rw [← card_F (hl.sublist hs), e]; exact hq
    · rw [hP _ hs, e]; exact hp

/-- the `all` analogue -/
theorem all_sublists {l : List PyId} (hl : l.Nodup) {L : List (List PyId)}
    (Q : Nat → Prop) (hL : ∀ t, t ∈ L ↔ t.Sublist l ∧ Q t.length)
    (P : List PyId → Bool) (P' : Finset PyId → Prop)
    (hP : ∀ a, a.Sublist l → (P a = true ↔ P' (F a))) :
    L.all P = true ↔ ∀ u, u ⊆ F l → Q u.card → P' u := by
  simp only [List.all_eq_true, hL]
  constructor
  · intro hh u hu hq
    have hs : (l.filter (· ∈ u)).Sublist l := List.filter_sublist
    have e := F_filter_mem l u hu
    have := hh _ ⟨hs, by rw [← card_F (hl.sublist hs), e]; exact hq⟩
    rw [hP _ hs, e] at this; exact this
  · rintro hh a ⟨hs, hq⟩
    rw [hP a hs]
    apply hh
    · exact fun x hx => List.mem_toFinset.mpr (hs.subset (List.mem_toFinset.mp hx))
    · rwa [card_F (hl.sublist hs)]

end Xgi.C15
