/-
  C15 — model of xgi/algorithms/simpliciality.py, xgi/utils/trie.py and EdgeView.maximal (views.py),
  over the shared static network `Xgi.Net`.  No Mathlib.

  Domain: node labels all `int` or all `str` (Python's `sorted` raises `TypeError` otherwise), members are
  nodes.  Outside of it the driver answers "unmodelled".  Empty edges are inside the domain (`EdgeView.maximal`
  treats an empty edge as contained in every edge).

  What is a transcription and what is an abstraction
  * `Trie`, `Trie.insert`, `Trie.search`, `buildTrie` follow trie.py statement for statement (children dict =
    association list in insertion order, `sorted(word)` = stable merge sort by Python's `<=` on labels).
  * `powerset`/`comb` is `itertools.combinations` chained over `r in range(min_size, max_size+1)`; the iteration
    order of the Python *set* that is fed to it is replaced by the member order of the `Net` (every consumer
    only counts the sub-faces, collects them in a set, or takes `all`).
  * `frozenset(e)` is represented by the sorted tuple (equal frozensets ⇔ equal sorted tuples on orderable labels);
    Python sets of frozensets are duplicate-free lists (`ins`).
  * `scipy.special.binom` is the binomial coefficient (`choose`, Pascal's rule); floats are exact rationals.
  * `np.nan` is `Score.undefined`.
  The `spec…` functions at the end are the brute-force definitions of the property statement; they share
  nothing with the transcription except `Net` (no trie, no sorting, no `combinations`).
-/
import XgiModel.Net

namespace Xgi.C15

/-! ### Python's order on labels and `sorted` -/

def rank : PyId → Nat
  | .atom (.int _) => 0
  | .atom (.str _) => 1
  | .tup _ => 2
  | .none => 3

/-- `a <= b` for two ints or two strs; between different kinds (where Python raises) the kinds are compared,
    which keeps the function a total preorder — such inputs are outside the modelled domain -/
def pyLe (a b : PyId) : Bool :=
  match a, b with
  | .atom (.int i), .atom (.int j) => decide (i ≤ j)
  | .atom (.str s), .atom (.str t) => decide (s ≤ t)
  | _, _ => decide (rank a ≤ rank b)

/-- `sorted(word)` -/
def sorted (w : List PyId) : List PyId := w.mergeSort pyLe

def isInt : PyId → Bool
  | .atom (.int _) => true
  | _ => false
def isStr : PyId → Bool
  | .atom (.str _) => true
  | _ => false
/-- all labels ints, or all labels strs -/
def orderable (l : List PyId) : Bool := l.all isInt || l.all isStr

/-! ### trie.py -/

/-- `TrieNode`: `end` flag and the `children` dict (insertion-ordered association list) -/
inductive Trie where
  | node (fin : Bool) (children : List (PyId × Trie))

namespace Trie
/-- `TrieNode()` -/
def empty : Trie := .node false []

/-- `node.children[c]` if present -/
def child? : List (PyId × Trie) → PyId → Option Trie
  | [], _ => none
  | (k, t) :: rest, c => if k = c then some t else child? rest c

/-- `node.children[c] = t` for a key that is present -/
def setChild : List (PyId × Trie) → PyId → Trie → List (PyId × Trie)
  | [], _, _ => []
  | (k, t) :: rest, c, t' => if k = c then (k, t') :: rest else (k, t) :: setChild rest c t'

/-- the loop of `Trie.insert` over the already sorted word: descend (creating missing children), set `end` -/
def insertSorted : Trie → List PyId → Trie
  | .node _ cs, [] => .node true cs
  | .node fin cs, c :: w =>
    match child? cs c with
    | some t => .node fin (setChild cs c (insertSorted t w))
    | none => .node fin (cs ++ [(c, insertSorted empty w)])

/-- the loop of `Trie.search` over the already sorted word -/
def searchSorted : Trie → List PyId → Bool
  | .node fin _, [] => fin
  | .node _ cs, c :: w =>
    match child? cs c with
    | some t => searchSorted t w
    | none => false

/-- `Trie.insert(word)` -/
def insert (t : Trie) (word : List PyId) : Trie := insertSorted t (sorted word)
/-- `Trie.search(word)` -/
def search (t : Trie) (word : List PyId) : Bool := searchSorted t (sorted word)
end Trie

/-- `t = Trie(); t.build_trie(words)` -/
def buildTrie (words : List (List PyId)) : Trie := words.foldl Trie.insert Trie.empty

/-! ### `_powerset` -/

/-- `itertools.combinations(s, r)` (lexicographic in positions) -/
def comb {α : Type} : List α → Nat → List (List α)
  | _, 0 => [[]]
  | [], _ + 1 => []
  | a :: l, r + 1 => (comb l r).map (a :: ·) ++ comb l (r + 1)

/-- `_powerset(s, min_size, max_size)` with `stop = max_size + 1`: chain of `combinations(s, r)` for
    `r in range(min_size, stop)` -/
def powerset {α : Type} (s : List α) (minSize stop : Nat) : List (List α) :=
  (List.range' minSize (stop - minSize)).flatMap (comb s)

/-- `_count_missing_subfaces(t, face, min_size)`: sub-faces of size `min_size … len(face)-1` not in the trie -/
def countMissing (t : Trie) (face : List PyId) (minSize : Nat) : Nat :=
  ((powerset face minSize face.length).filter (fun e => !t.search e)).length

/-- `_missing_subfaces(t, face, min_size)`: the same sub-faces as a set of frozensets -/
def missingSubfaces (t : Trie) (face : List PyId) (minSize : Nat) : List (List PyId) :=
  ((powerset face minSize face.length).filter (fun e => !t.search e)).foldl (fun ms e => ins (sorted e) ms) []

/-- `scipy.special.binom(n, k)` on naturals -/
def choose : Nat → Nat → Nat
  | _, 0 => 1
  | 0, _ + 1 => 0
  | n + 1, k + 1 => choose n k + choose n (k + 1)

/-- `_max_number_of_subfaces(min_size, max_size)` -/
def maxNumberOfSubfaces (minSize n : Nat) : Int :=
  (List.range' 1 (minSize - 1)).foldl (fun d i => d - (choose n i : Int)) ((2 : Int) ^ n - 2)

/-- `_is_simplex(t, edge, min_size)` -/
def isSimplex (t : Trie) (edge : List PyId) (minSize : Nat) : Bool :=
  (powerset edge minSize (edge.length + 1)).all (fun e => t.search e)

/-! ### views: `filterby("size", k, "geq")`, `maximal()`, `neighbors` -/

/-- `H.edges.filterby("size", k, "geq")` in view order -/
def sizeGeq (es : List (PyId × List PyId)) (k : Nat) : List (PyId × List PyId) := es.filter (fun p => k ≤ p.2.length)

/-- equal as Python sets -/
def sameSet (a b : List PyId) : Bool := a.all (· ∈ b) && b.all (· ∈ a)

/-- `reduce(lambda x, y: x & y, sets)`; `none` = the `TypeError` of `reduce` on an empty sequence -/
def interAll : List (List PyId) → Option (List PyId)
  | [] => none
  | s :: rest => some (rest.foldl (fun a b => a.filter (· ∈ b)) s)

/-- the local function `containing(e)` of `EdgeView.maximal`: IDs of the edges that contain every node of `e`;
    `set(edges)` for an empty edge (it is contained in every edge), otherwise the `reduce` over the memberships -/
def containing (h : Net) (e : List PyId) : Option (List PyId) :=
  if e.isEmpty then some (h.edges.map (·.1)) else interAll (e.map h.memberships)

/-- `dups[frozenset(e)]` -/
def dupIds (h : Net) (e : List PyId) : List PyId := (h.edges.filter (fun q => sameSet q.2 e)).map (·.1)

/-- body of the loop of `EdgeView.maximal(strict=False)`; the state is `max_edges`, `none` after the raise -/
def maximalStep (h : Net) (acc : Option (List PyId)) (p : PyId × List PyId) : Option (List PyId) :=
  match acc with
  | none => none
  | some mx =>
    if p.1 ∈ mx then some mx else
    match containing h p.2 with
    | none => none
    | some s => if sameSet s (dupIds h p.2) then some ((dupIds h p.2).foldl (fun a i => ins i a) mx) else some mx

/-- the set `max_edges` built by `EdgeView.maximal()` -/
def maximalIds (h : Net) : Option (List PyId) := h.edges.foldl (maximalStep h) (some [])

/-- `H.edges.maximal()` with members, in view order (`from_view` keeps the order of the edge dict) -/
def maximalEdges (h : Net) : Option (List (PyId × List PyId)) :=
  (maximalIds h).map (fun mx => h.edges.filter (fun p => p.1 ∈ mx))

/-- position of an ID in a list (`id_to_num`) -/
def indexOf (x : PyId) : List PyId → Nat
  | [] => 0
  | y :: l => if y = x then 0 else indexOf x l + 1

/-! ### the measures -/

inductive Score where
  | undefined
  | val (q : Rat)
  deriving DecidableEq, Repr, Inhabited

/-- `1 - score` -/
def Score.oneMinus : Score → Score
  | .undefined => .undefined
  | .val q => .val (1 - q)

/-- inner loop of `simplicial_edit_distance` for the maximal face `p`: the set `redundant_missing_faces` -/
def redundantMissing (t : Trie) (minSize : Nat) (maxE : List (PyId × List PyId)) (p : PyId × List PyId) :
    List (List PyId) :=
  let ids := maxE.map (·.1)
  -- maxH.edges.neighbors(id1)
  let nbrs := maxE.filter (fun q => q.1 ≠ p.1 && q.2.any (· ∈ p.2))
  nbrs.foldl (fun red q =>
    if indexOf q.1 ids < indexOf p.1 ids then
      let c := q.2.filter (· ∈ p.2)
      if minSize ≤ c.length then
        let red := (missingSubfaces t c minSize).foldl (fun r x => ins x r) red
        if !t.search c then ins (sorted c) red else red
      else red
    else red) []

/-- the outer loop: `ms` -/
def missingTotal (t : Trie) (minSize : Nat) (maxE : List (PyId × List PyId)) : Int :=
  maxE.foldl (fun ms p =>
    ms + ((countMissing t p.2 minSize : Nat) : Int) - (((redundantMissing t minSize maxE p).length : Nat) : Int)) 0

/-- `simplicial_edit_distance(H, min_size, exclude_min_size, normalize)`; `none` = exception raised by `maximal()` -/
def simplicialEditDistance (h : Net) (minSize : Nat) (excl normalize : Bool) : Option Score :=
  let edges := sizeGeq h.edges minSize
  let t := buildTrie (edges.map (·.2))
  match maximalEdges h with
  | none => none
  | some mx =>
    let maxE := sizeGeq mx (minSize + excl.toNat)
    if maxE.isEmpty then some .undefined else
    let ms := missingTotal t minSize maxE
    if normalize then
      let s : Int := edges.length
      let mf : Int := maxE.length
      if s - mf + ms > 0 then some (.val ((ms : Rat) / ((s - mf + ms : Int) : Rat))) else some .undefined
    else some (.val ms)

/-- `edit_simpliciality` -/
def editSimpliciality (h : Net) (minSize : Nat) (excl : Bool) : Option Score :=
  (simplicialEditDistance h minSize excl true).map Score.oneMinus

/-- `mean_face_edit_distance(H, min_size, exclude_min_size, normalize)` (never NaN: 0 when there is no face) -/
def meanFaceEditDistance (h : Net) (minSize : Nat) (excl normalize : Bool) : Option Rat :=
  let t := buildTrie ((sizeGeq h.edges minSize).map (·.2))
  match maximalEdges h with
  | none => none
  | some mx =>
    let maxFaces := (sizeGeq mx (minSize + excl.toNat)).map (·.2)
    some (maxFaces.foldl (fun avg e =>
      if minSize ≤ e.length then
        let d : Rat := (countMissing t e minSize : Nat)
        let m := maxNumberOfSubfaces minSize e.length
        let d := if normalize && m != 0 then d * (1 / (m : Rat)) else d
        avg + d / (maxFaces.length : Nat)
      else avg) 0)

/-- `face_edit_simpliciality` -/
def faceEditSimpliciality (h : Net) (minSize : Nat) (excl : Bool) : Option Rat :=
  (meanFaceEditDistance h minSize excl true).map (1 - ·)

/-- `_count_simplices` -/
def countSimplices (h : Net) (minSize : Nat) (excl : Bool) : Nat :=
  let t := buildTrie (h.edges.map (·.2))
  ((sizeGeq h.edges (minSize + excl.toNat)).filter (fun p => isSimplex t p.2 minSize)).length

/-- `_potential_simplices` -/
def potentialSimplices (h : Net) (minSize : Nat) (excl : Bool) : Nat :=
  (sizeGeq h.edges (minSize + excl.toNat)).length

/-- `simplicial_fraction` -/
def simplicialFraction (h : Net) (minSize : Nat) (excl : Bool) : Score :=
  let ns := countSimplices h minSize excl
  let ps := potentialSimplices h minSize excl
  if ps = 0 then .undefined else .val ((ns : Rat) / (ps : Rat))

/-! ### the brute-force definitions of the property statement (specification side) -/

/-- every sub-list, i.e. (for a duplicate-free list) every subset exactly once -/
def subsets {α : Type} : List α → List (List α)
  | [] => [[]]
  | a :: l => subsets l ++ (subsets l).map (a :: ·)

def isSub (a b : List PyId) : Bool := a.all (· ∈ b)

/-- the node set `t` is (the member set of) an edge -/
def isEdge (h : Net) (t : List PyId) : Bool := h.edges.any (fun q => isSub t q.2 && isSub q.2 t)

/-- edges not properly contained in another edge -/
def specMaximal (h : Net) : List (PyId × List PyId) :=
  h.edges.filter (fun p => h.edges.all (fun q => !(isSub p.2 q.2) || isSub q.2 p.2))

/-- maximal edges of size ≥ min_size + exclude_min_size -/
def specFaces (h : Net) (minSize : Nat) (excl : Bool) : List (PyId × List PyId) :=
  (specMaximal h).filter (fun p => minSize + excl.toNat ≤ p.2.length)

/-- number of node sets of size ≥ min_size inside some eligible maximal edge that are not edges -/
def specSED (h : Net) (minSize : Nat) (excl : Bool) : Nat :=
  let faces := specFaces h minSize excl
  ((subsets h.nodes).filter (fun t => decide (minSize ≤ t.length)
      && faces.any (fun p => isSub t p.2) && !isEdge h t)).length

/-- the normalised distance as the paper defines it from the count: ms / (|E≥min| − |maximal eligible| + ms) -/
def specSEDNorm (h : Net) (minSize : Nat) (excl : Bool) : Score :=
  if (specFaces h minSize excl).isEmpty then .undefined else
  let ms : Int := specSED h minSize excl
  let den : Int := ((h.edges.filter (fun p => minSize ≤ p.2.length)).length : Int) - (specFaces h minSize excl).length + ms
  if den > 0 then .val ((ms : Rat) / (den : Rat)) else .undefined

/-- all node sets of size ≥ min_size inside `e` are edges -/
def specIsSimplex (h : Net) (minSize : Nat) (e : List PyId) : Bool :=
  (subsets h.nodes).all (fun t => !(decide (minSize ≤ t.length) && isSub t e) || isEdge h t)

/-- share of eligible edges that are simplices -/
def specSF (h : Net) (minSize : Nat) (excl : Bool) : Score :=
  let elig := h.edges.filter (fun p => minSize + excl.toNat ≤ p.2.length)
  if elig.length = 0 then .undefined else
  .val ((((elig.filter (fun p => specIsSimplex h minSize p.2)).length : Nat) : Rat) / ((elig.length : Nat) : Rat))

/-- proper sub-faces of `e` of size ≥ min_size -/
def specSubfaces (h : Net) (minSize : Nat) (e : List PyId) : List (List PyId) :=
  (subsets h.nodes).filter (fun t => decide (minSize ≤ t.length) && isSub t e && !isSub e t)

/-- missing-subface count (normalize = false) or share (normalize = true; count when there is no sub-face) of `e` -/
def specFaceDistance (h : Net) (minSize : Nat) (normalize : Bool) (e : List PyId) : Rat :=
  let subs := specSubfaces h minSize e
  let missing : Nat := (subs.filter (fun t => !isEdge h t)).length
  if normalize && subs.length != 0 then (missing : Rat) / ((subs.length : Nat) : Rat) else (missing : Rat)

/-- average of `specFaceDistance` over the eligible maximal edges (0 when there is none) -/
def specMFED (h : Net) (minSize : Nat) (excl normalize : Bool) : Rat :=
  let faces := specFaces h minSize excl
  if faces.length = 0 then 0 else
  ((faces.map (fun p => specFaceDistance h minSize normalize p.2)).sum) / ((faces.length : Nat) : Rat)

/-- downward closed above `minSize`: every node set of size ≥ minSize inside an edge is an edge -/
def downClosed (h : Net) (minSize : Nat) : Bool :=
  h.edges.all (fun p => specIsSimplex h minSize p.2)

/-! ### domain of the model -/

def noRepeatedEdge (h : Net) : Bool :=
  h.edges.all (fun p => h.edges.all (fun q => p.1 = q.1 || !sameSet p.2 q.2))
def wfB (h : Net) : Bool :=
  decide h.nodes.Nodup && decide (h.edges.map (·.1)).Nodup && h.edges.all (fun p => decide p.2.Nodup && p.2.all (· ∈ h.nodes))

end Xgi.C15
