/-
  C15 helper lemmas, part 2: Python's order on labels, `sorted` as a canonical form of node sets,
  `combinations` / `_powerset` / `subsets` as duplicate-free enumerations of sub-lists.
-/
import XgiModel.C15.LemmasTrie
import Mathlib.Data.List.Nodup
import Mathlib.Data.List.Perm.Basic

namespace Xgi.C15

/-! ### the order -/

theorem pyLe_total (a b : PyId) : (pyLe a b || pyLe b a) = true := by
  rcases a with (⟨i⟩ | ⟨s⟩) | l | _ <;> rcases b with (⟨j⟩ | ⟨t⟩) | m | _ <;> simp [pyLe, rank]
  · exact Int.le_total i j
  · exact String.le_total s t

theorem rank_le_of_pyLe {a b : PyId} (h : pyLe a b = true) : rank a ≤ rank b := by
  rcases a with (⟨i⟩ | ⟨s⟩) | l | _ <;> rcases b with (⟨j⟩ | ⟨t⟩) | m | _ <;> simp_all [pyLe, rank]

theorem pyLe_trans (a b c : PyId) (h1 : pyLe a b = true) (h2 : pyLe b c = true) : pyLe a c = true := by
  have r1 := rank_le_of_pyLe h1
  have r2 := rank_le_of_pyLe h2
  rcases a with (⟨i⟩ | ⟨s⟩) | l | _ <;> rcases c with (⟨k⟩ | ⟨u⟩) | n | _ <;>
    rcases b with (⟨j⟩ | ⟨t⟩) | m | _ <;> simp_all [pyLe, rank]
  · exact Int.le_trans h1 h2
  · exact String.le_trans h1 h2

/-- the labels of `S` are pairwise comparable in Python: all ints or all strs -/
def Orderable (S : List PyId) : Prop := orderable S = true

theorem pyLe_antisymm_on {S : List PyId} (hS : Orderable S) {a b : PyId} (ha : a ∈ S) (hb : b ∈ S)
    (h1 : pyLe a b = true) (h2 : pyLe b a = true) : a = b := by
  unfold Orderable orderable at hS
  simp only [Bool.or_eq_true, List.all_eq_true] at hS
  rcases hS with hS | hS
  · have := hS a ha; have := hS b hb
    rcases a with (⟨i⟩ | ⟨s⟩) | l | _ <;> rcases b with (⟨j⟩ | ⟨t⟩) | m | _ <;> simp_all [isInt, pyLe]
    exact Int.le_antisymm h1 h2
  · have := hS a ha; have := hS b hb
    rcases a with (⟨i⟩ | ⟨s⟩) | l | _ <;> rcases b with (⟨j⟩ | ⟨t⟩) | m | _ <;> simp_all [isStr, pyLe]
    exact String.le_antisymm h1 h2

/-! ### `sorted` -/

theorem sorted_perm (w : List PyId) : (sorted w).Perm w := List.mergeSort_perm w pyLe

theorem sorted_pairwise (w : List PyId) : (sorted w).Pairwise (fun a b => pyLe a b = true) :=
  List.pairwise_mergeSort pyLe_trans pyLe_total w

@[simp] theorem mem_sorted {w : List PyId} {x : PyId} : x ∈ sorted w ↔ x ∈ w := (sorted_perm w).mem_iff

theorem sorted_nodup {w : List PyId} (h : w.Nodup) : (sorted w).Nodup := (sorted_perm w).nodup_iff.mpr h

@[simp] theorem length_sorted (w : List PyId) : (sorted w).length = w.length := (sorted_perm w).length_eq

theorem sorted_idem (w : List PyId) : sorted (sorted w) = sorted w :=
  List.mergeSort_of_pairwise (sorted_pairwise w)

/-- on orderable labels the sorted tuple is a canonical form of the set -/
theorem sorted_eq_of_perm {S : List PyId} (hS : Orderable S) {a b : List PyId}
    (ha : ∀ x ∈ a, x ∈ S) (hab : a.Perm b) : sorted a = sorted b := by
  have hp : (sorted a).Perm (sorted b) := ((sorted_perm a).trans hab).trans (sorted_perm b).symm
  refine List.Perm.eq_of_pairwise (le := fun x y => pyLe x y = true) ?_ (sorted_pairwise a) (sorted_pairwise b) hp
  intro x y hx hy h1 h2
  have hx' : x ∈ S := ha x (mem_sorted.mp hx)
  have hy' : y ∈ S := ha y (hab.mem_iff.mpr (mem_sorted.mp hy))
  exact pyLe_antisymm_on hS hx' hy' h1 h2

theorem sorted_eq_iff_perm {S : List PyId} (hS : Orderable S) {a b : List PyId}
    (ha : ∀ x ∈ a, x ∈ S) : sorted a = sorted b ↔ a.Perm b := by
  constructor
  · intro h
    exact ((sorted_perm a).symm.trans (h ▸ List.Perm.refl _)).trans (sorted_perm b)
  · exact sorted_eq_of_perm hS ha

/-- sorted tuples agree iff the two duplicate-free lists have the same elements -/
theorem sorted_eq_iff {S : List PyId} (hS : Orderable S) {a b : List PyId}
    (ha : ∀ x ∈ a, x ∈ S) (na : a.Nodup) (nb : b.Nodup) : sorted a = sorted b ↔ ∀ x, x ∈ a ↔ x ∈ b := by
  rw [sorted_eq_iff_perm hS ha, List.perm_ext_iff_of_nodup na nb]

/-! ### sub-lists of a duplicate-free list are determined by their elements -/

theorem sublist_ext {α : Type} {l a b : List α} (hl : l.Nodup) (ha : a.Sublist l) (hb : b.Sublist l)
    (h : ∀ x, x ∈ a ↔ x ∈ b) : a = b := by
  induction l generalizing a b with
  | nil => simp_all
  | cons x l ih =>
    have hx : x ∉ l := (List.nodup_cons.mp hl).1
    have hl' := (List.nodup_cons.mp hl).2
    rcases List.sublist_cons_iff.mp ha with ha' | ⟨a', rfl, ha'⟩ <;>
      rcases List.sublist_cons_iff.mp hb with hb' | ⟨b', rfl, hb'⟩
    · exact ih hl' ha' hb' h
    · exact absurd (ha'.subset ((h x).mpr List.mem_cons_self)) hx
    · exact absurd (hb'.subset ((h x).mp List.mem_cons_self)) hx
    · congr 1
      apply ih hl' ha' hb'
      intro y
      have := h y
      simp only [List.mem_cons] at this
      constructor
      · intro hy
        have hne : y ≠ x := fun e => hx (e ▸ ha'.subset hy)
        simpa [hne] using this.mp (Or.inr hy)
      · intro hy
        have hne : y ≠ x := fun e => hx (e ▸ hb'.subset hy)
        simpa [hne] using this.mpr (Or.inr hy)

/-! ### `combinations`, `_powerset`, `subsets` -/

theorem mem_comb {α : Type} {l : List α} {r : Nat} {t : List α} :
    t ∈ comb l r ↔ t.Sublist l ∧ t.length = r := by
  induction l generalizing r t with
  | nil =>
    cases r with
    | zero => simp [comb]
    | succ r => simp [comb]; intro h; simp [h]
  | cons a l ih =>
    cases r with
    | zero =>
      simp only [comb, List.mem_singleton]
      constructor
      · rintro rfl; simp
      · rintro ⟨_, h⟩; exact List.length_eq_zero_iff.mp h
    | succ r =>
      simp only [comb, List.mem_append, List.mem_map, ih, List.sublist_cons_iff]
      constructor
      · rintro (⟨t', ⟨hs, hl⟩, rfl⟩ | ⟨hs, hl⟩)
        · exact ⟨Or.inr ⟨t', rfl, hs⟩, by simp [hl]⟩
        · exact ⟨Or.inl hs, hl⟩
      · rintro ⟨hs | ⟨t', rfl, hs⟩, hl⟩
        · exact Or.inr ⟨hs, hl⟩
        · exact Or.inl ⟨t', ⟨hs, by simpa using hl⟩, rfl⟩

theorem nodup_comb {α : Type} {l : List α} (hl : l.Nodup) (r : Nat) : (comb l r).Nodup := by
  induction l generalizing r with
  | nil => cases r <;> simp [comb]
  | cons a l ih =>
    have hx : a ∉ l := (List.nodup_cons.mp hl).1
    have hl' := (List.nodup_cons.mp hl).2
    cases r with
    | zero => simp [comb]
    | succ r =>
      simp only [comb]
      rw [List.nodup_append]
      refine ⟨(ih hl' r).map (fun _ _ h => (List.cons.inj h).2), ih hl' (r + 1), ?_⟩
      intro u hu v hv huv
      obtain ⟨t, _, rfl⟩ := List.mem_map.mp hu
      subst huv
      exact hx ((mem_comb.mp hv).1.subset List.mem_cons_self)

theorem mem_powerset {α : Type} {l : List α} {lo hi : Nat} {t : List α} :
    t ∈ powerset l lo hi ↔ t.Sublist l ∧ lo ≤ t.length ∧ t.length < hi := by
  simp only [powerset, List.mem_flatMap, List.mem_range'_1, mem_comb]
  constructor
  · rintro ⟨r, ⟨h1, h2⟩, hs, rfl⟩; exact ⟨hs, h1, by omega⟩
  · rintro ⟨hs, h1, h2⟩; exact ⟨t.length, ⟨h1, by omega⟩, hs, rfl⟩

theorem nodup_powerset {α : Type} {l : List α} (hl : l.Nodup) (lo hi : Nat) : (powerset l lo hi).Nodup := by
  unfold powerset
  rw [List.nodup_flatMap]
  refine ⟨fun r _ => nodup_comb hl r, ?_⟩
  have : (List.range' lo (hi - lo)).Pairwise (· ≠ ·) := List.nodup_range'
  refine this.imp ?_
  intro r s hrs t ht hs
  exact hrs ((mem_comb.mp ht).2.symm.trans (mem_comb.mp hs).2)

theorem mem_subsets {α : Type} {l t : List α} : t ∈ subsets l ↔ t.Sublist l := by
  induction l generalizing t with
  | nil => simp [subsets]
  | cons a l ih =>
    simp only [subsets, List.mem_append, List.mem_map, ih, List.sublist_cons_iff]
    constructor
    · rintro (h | ⟨t', h, rfl⟩)
      · exact Or.inl h
      · exact Or.inr ⟨t', rfl, h⟩
    · rintro (h | ⟨t', rfl, h⟩)
      · exact Or.inl h
      · exact Or.inr ⟨t', h, rfl⟩

theorem nodup_subsets {α : Type} {l : List α} (hl : l.Nodup) : (subsets l).Nodup := by
  induction l with
  | nil => simp [subsets]
  | cons a l ih =>
    have hx : a ∉ l := (List.nodup_cons.mp hl).1
    have hl' := (List.nodup_cons.mp hl).2
    simp only [subsets]
    rw [List.nodup_append]
    refine ⟨ih hl', (ih hl').map (fun _ _ h => (List.cons.inj h).2), ?_⟩
    intro u hu v hv huv
    obtain ⟨t, _, rfl⟩ := List.mem_map.mp hv
    subst huv
    exact hx ((mem_subsets.mp hu).subset List.mem_cons_self)

end Xgi.C15
