/-
  C15 helper lemmas, part 3: the transcribed `EdgeView.maximal()` selects exactly the edges that are not
  properly contained in another edge (the `specMaximal` of the brute-force side).
-/
import XgiModel.C15.LemmasList

namespace Xgi.C15

/-- `a ⊆ b` as sets -/
def Subs (a b : List PyId) : Prop := ∀ x ∈ a, x ∈ b

theorem isSub_iff {a b : List PyId} : isSub a b = true ↔ Subs a b := by
  simp [isSub, Subs]

theorem sameSet_iff {a b : List PyId} : sameSet a b = true ↔ (Subs a b ∧ Subs b a) := by
  simp [sameSet, Subs]

/-- `e` is contained in no edge with a different member set -/
def MaxIn (h : Net) (e : List PyId) : Prop := ∀ q ∈ h.edges, Subs e q.2 → Subs q.2 e

theorem specMaximal_pred (h : Net) (p : PyId × List PyId) :
    (h.edges.all (fun q => !(isSub p.2 q.2) || isSub q.2 p.2)) = true ↔ MaxIn h p.2 := by
  simp only [List.all_eq_true, Bool.or_eq_true, Bool.not_eq_true', MaxIn]
  constructor
  · intro hh q hq hs
    rcases hh q hq with h1 | h1
    · have := isSub_iff.mpr hs; simp_all
    · exact isSub_iff.mp h1
  · intro hh q hq
    by_cases h1 : isSub p.2 q.2 = true
    · exact Or.inr (isSub_iff.mpr (hh q hq (isSub_iff.mp h1)))
    · exact Or.inl (by simpa using h1)

theorem mem_memberships {h : Net} {n x : PyId} :
    x ∈ h.memberships n ↔ ∃ q ∈ h.edges, q.1 = x ∧ n ∈ q.2 := by
  simp only [Net.memberships, List.mem_map, List.mem_filter, decide_eq_true_eq]
  constructor
  · rintro ⟨q, ⟨hq, hn⟩, rfl⟩; exact ⟨q, hq, rfl, hn⟩
  · rintro ⟨q, hq, rfl, hn⟩; exact ⟨q, ⟨hq, hn⟩, rfl⟩

theorem mem_foldl_inter (rest : List (List PyId)) : ∀ (s : List PyId) (x : PyId),
    x ∈ rest.foldl (fun a b => a.filter (· ∈ b)) s ↔ x ∈ s ∧ ∀ b ∈ rest, x ∈ b := by
  induction rest with
  | nil => intro s x; simp
  | cons b rest ih =>
    intro s x
    simp only [List.foldl_cons, ih, List.mem_filter, decide_eq_true_eq, List.mem_cons, forall_eq_or_imp]
    tauto

theorem interAll_spec {l : List (List PyId)} (hl : l ≠ []) :
    ∃ s, interAll l = some s ∧ ∀ x, x ∈ s ↔ ∀ b ∈ l, x ∈ b := by
  cases l with
  | nil => exact absurd rfl hl
  | cons a rest =>
    refine ⟨_, rfl, ?_⟩
    intro x
    simp [mem_foldl_inter]

theorem edge_unique {h : Net} (hw : h.WF) {q q' : PyId × List PyId} (hq : q ∈ h.edges) (hq' : q' ∈ h.edges)
    (e : q.1 = q'.1) : q = q' := by
  have hn : (h.edges.map (·.1)).Nodup := hw.2.1
  exact List.inj_on_of_nodup_map hn hq hq' e

theorem mem_dupIds {h : Net} {e : List PyId} {x : PyId} :
    x ∈ dupIds h e ↔ ∃ q ∈ h.edges, sameSet q.2 e = true ∧ q.1 = x := by
  simp [dupIds]

theorem MaxIn_congr {h : Net} {a b : List PyId} (hab : Subs a b) (hba : Subs b a) (ha : MaxIn h a) : MaxIn h b := by
  intro q hq hs x hx
  exact hab x (ha q hq (fun y hy => hs y (hab y hy)) x hx)

/-- the test inside the loop of `maximal()` (`containing(e)`: for an empty edge every edge ID) -/
theorem maximal_test {h : Net} (hw : h.WF) {p : PyId × List PyId} (hp : p ∈ h.edges) :
    ∃ s, containing h p.2 = some s ∧ (sameSet s (dupIds h p.2) = true ↔ MaxIn h p.2) := by
  have hkey : ∃ s, containing h p.2 = some s ∧ ∀ x, x ∈ s ↔ ∃ q ∈ h.edges, q.1 = x ∧ Subs p.2 q.2 := by
    by_cases hne : p.2 = []
    · refine ⟨h.edges.map (·.1), by simp [containing, hne], ?_⟩
      intro x
      simp only [List.mem_map, hne, Subs]
      constructor
      · rintro ⟨q, hq, rfl⟩; exact ⟨q, hq, rfl, by simp⟩
      · rintro ⟨q, hq, rfl, _⟩; exact ⟨q, hq, rfl⟩
    · obtain ⟨s, hs, hmem⟩ := interAll_spec (l := p.2.map h.memberships) (by simpa using hne)
      refine ⟨s, by simp [containing, hne, hs], ?_⟩
      intro x
      rw [hmem]
      simp only [List.mem_map, forall_exists_index, and_imp, forall_apply_eq_imp_iff₂, mem_memberships]
      constructor
      · intro hall
        obtain ⟨n0, hn0⟩ := List.exists_mem_of_ne_nil _ hne
        obtain ⟨q, hq, rfl, _⟩ := hall n0 hn0
        refine ⟨q, hq, rfl, ?_⟩
        intro n hn
        obtain ⟨q', hq', e, hn'⟩ := hall n hn
        rw [← edge_unique hw hq' hq e]; exact hn'
      · rintro ⟨q, hq, rfl, hsub⟩ n hn
        exact ⟨q, hq, rfl, hsub n hn⟩
  obtain ⟨s, hs, key⟩ := hkey
  refine ⟨s, hs, ?_⟩
  rw [sameSet_iff]
  constructor
  · rintro ⟨h1, _⟩ q hq hsub
    have : q.1 ∈ s := (key _).mpr ⟨q, hq, rfl, hsub⟩
    obtain ⟨q', hq', hss, e⟩ := mem_dupIds.mp (h1 _ this)
    rw [← edge_unique hw hq' hq e]
    exact (sameSet_iff.mp hss).1
  · intro hmax
    constructor
    · intro x hx
      obtain ⟨q, hq, rfl, hsub⟩ := (key x).mp hx
      exact mem_dupIds.mpr ⟨q, hq, sameSet_iff.mpr ⟨hmax q hq hsub, hsub⟩, rfl⟩
    · intro x hx
      obtain ⟨q, hq, hss, rfl⟩ := mem_dupIds.mp hx
      exact (key _).mpr ⟨q, hq, rfl, (sameSet_iff.mp hss).2⟩

/-- soundness of the accumulated `max_edges` -/
def SoundMax (h : Net) (mx : List PyId) : Prop := ∀ i ∈ mx, ∃ q ∈ h.edges, q.1 = i ∧ MaxIn h q.2

theorem maximal_fold {h : Net} (hw : h.WF) (l : List (PyId × List PyId)) :
    ∀ (mx : List PyId), (∀ p ∈ l, p ∈ h.edges) → SoundMax h mx →
      ∃ mx', l.foldl (maximalStep h) (some mx) = some mx' ∧ SoundMax h mx' ∧ (∀ i ∈ mx, i ∈ mx') ∧
        (∀ q ∈ l, MaxIn h q.2 → q.1 ∈ mx') := by
  induction l with
  | nil => intro mx _ hs; exact ⟨mx, rfl, hs, fun _ hi => hi, by simp⟩
  | cons p l ih =>
    intro mx hl hs
    have hp : p ∈ h.edges := hl p List.mem_cons_self
    have hl' : ∀ q ∈ l, q ∈ h.edges := fun q hq => hl q (List.mem_cons_of_mem _ hq)
    simp only [List.foldl_cons]
    by_cases hin : p.1 ∈ mx
    · have e : maximalStep h (some mx) p = some mx := by simp [maximalStep, hin]
      rw [e]
      obtain ⟨mx', h1, h2, h3, h4⟩ := ih mx hl' hs
      refine ⟨mx', h1, h2, h3, ?_⟩
      intro q hq hm
      rcases List.mem_cons.mp hq with rfl | hq
      · exact h3 _ hin
      · exact h4 q hq hm
    · obtain ⟨s, hs1, hs2⟩ := maximal_test hw hp
      by_cases hm : MaxIn h p.2
      · have e : maximalStep h (some mx) p = some ((dupIds h p.2).foldl (fun a i => ins i a) mx) := by
          simp [maximalStep, hin, hs1, hs2.mpr hm]
        rw [e]
        have hs' : SoundMax h ((dupIds h p.2).foldl (fun a i => ins i a) mx) := by
          intro i hi
          rcases (foldl_ins_mem _ _ _).mp hi with hi | hi
          · exact hs i hi
          · obtain ⟨q, hq, hss, rfl⟩ := mem_dupIds.mp hi
            have := sameSet_iff.mp hss
            exact ⟨q, hq, rfl, MaxIn_congr this.2 this.1 hm⟩
        obtain ⟨mx', h1, h2, h3, h4⟩ := ih _ hl' hs'
        refine ⟨mx', h1, h2, fun i hi => h3 i ((foldl_ins_mem _ _ _).mpr (Or.inl hi)), ?_⟩
        intro q hq hmq
        rcases List.mem_cons.mp hq with rfl | hq
        · apply h3
          apply (foldl_ins_mem _ _ _).mpr
          exact Or.inr (mem_dupIds.mpr ⟨q, hp, sameSet_iff.mpr ⟨fun _ hx => hx, fun _ hx => hx⟩, rfl⟩)
        · exact h4 q hq hmq
      · have e : maximalStep h (some mx) p = some mx := by
          have : ¬ sameSet s (dupIds h p.2) = true := fun hh => hm (hs2.mp hh)
          simp [maximalStep, hin, hs1, this]
        rw [e]
        obtain ⟨mx', h1, h2, h3, h4⟩ := ih mx hl' hs
        refine ⟨mx', h1, h2, h3, ?_⟩
        intro q hq hmq
        rcases List.mem_cons.mp hq with rfl | hq
        · exact absurd hmq hm
        · exact h4 q hq hmq

/-- `H.edges.maximal()` of the transcription = the maximal edges of the definition -/
theorem maximalEdges_eq {h : Net} (hw : h.WF) :
    maximalEdges h = some (specMaximal h) := by
  obtain ⟨mx, h1, h2, _, h4⟩ := maximal_fold hw h.edges [] (fun _ hp => hp) (by intro i hi; simp at hi)
  unfold maximalEdges maximalIds
  rw [h1]
  simp only [Option.map_some, specMaximal]
  congr 1
  apply List.filter_congr
  intro p hp
  have : p.1 ∈ mx ↔ MaxIn h p.2 := by
    constructor
    · intro hi
      obtain ⟨q, hq, e, hm⟩ := h2 _ hi
      rw [← edge_unique hw hq hp e]; exact hm
    · exact h4 p hp
  rw [Bool.eq_iff_iff, specMaximal_pred, decide_eq_true_eq]
  exact this

end Xgi.C15
