/-
  Static network values for the pure-function models (matrices, algorithms, converters, …):
  what `H.nodes` / `H.edges.members(dtype=dict)` show, in view order.  No Mathlib.
-/
import XgiModel.Proto
open Lean Xgi.Proto

namespace Xgi

/-- an undirected hypergraph as the views present it: node IDs in order, (edge ID, members) in order;
    members are duplicate-free lists standing for sets -/
structure Net where
  nodes : List PyId
  edges : List (PyId × List PyId)
  deriving Repr, Inhabited

/-- a directed hypergraph: (edge ID, tail, head) -/
structure DiNet where
  nodes : List PyId
  edges : List (PyId × List PyId × List PyId)
  deriving Repr, Inhabited

namespace Net
def edgeIds (h : Net) : List PyId := h.edges.map (·.1)
def members (h : Net) (e : PyId) : List PyId := ((h.edges.find? (·.1 = e)).map (·.2)).getD []
def memberships (h : Net) (n : PyId) : List PyId := (h.edges.filter (fun p => n ∈ p.2)).map (·.1)
def degree (h : Net) (n : PyId) : Nat := (h.memberships n).length
/-- well-formed: IDs distinct, members are nodes and duplicate-free -/
def WF (h : Net) : Prop :=
  h.nodes.Nodup ∧ (h.edges.map (·.1)).Nodup ∧ ∀ p ∈ h.edges, p.2.Nodup ∧ ∀ n ∈ p.2, n ∈ h.nodes
end Net

namespace Proto
/-- {"nodes":[ids], "edges":[[id,[members]],…]} -/
def netOfJson? (j : Json) : Option Net := do
  let nodes ← getIds? j "nodes"
  let es ← getArr? j "edges"
  let edges ← es.mapM (fun p => match p with
    | .arr #[i, ms] => do pure ((← idOfJson? i), (← idsOfJson? ms))
    | _ => none)
  pure { nodes := nodes, edges := edges }
/-- {"nodes":[ids], "edges":[[id,[tail],[head]],…]} -/
def diNetOfJson? (j : Json) : Option DiNet := do
  let nodes ← getIds? j "nodes"
  let es ← getArr? j "edges"
  let edges ← es.mapM (fun p => match p with
    | .arr #[i, t, h] => do pure ((← idOfJson? i), (← idsOfJson? t), (← idsOfJson? h))
    | _ => none)
  pure { nodes := nodes, edges := edges }
def netToJson (h : Net) : Json :=
  Json.mkObj [("nodes", idsToJson h.nodes),
    ("edges", Json.arr (h.edges.map (fun p => Json.arr #[idToJson p.1, setToJson p.2])).toArray)]
end Proto
end Xgi
