/-
  JSON request → `HG.Op`, state → JSON snapshot.  Used by Drivers/HG.lean.
-/
import XgiModel.Proto
import XgiModel.Core.HG
import XgiModel.Core.HGConv
open Lean Xgi.Proto

namespace Xgi.HG.Drive

def outcomeJson : Outcome → Json
  | .ok => "ok"
  | .warned => "warned"
  | .err .lib => "err:lib"
  | .err .typeError => "err:type"
  | .err .valueError => "err:value"
  | .err .other => "err:other"

def attrsJ (a : Attrs) : Json := Json.mkObj [("$attrs", attrsToJson a)]

def snapshot (s : HG) : List (String × Json) :=
  [ ("nodes", idsToJson s.nodes),
    ("edges", idsToJson s.edges),
    ("mem", Json.arr (s.edges.map (fun e => Json.arr #[idToJson e, setToJson (s.mem e)])).toArray),
    ("memb", Json.arr (s.nodes.map (fun n => Json.arr #[idToJson n, setToJson (s.memb n)])).toArray),
    ("nattr", Json.arr (s.nodes.map (fun n => Json.arr #[idToJson n,
        if n ∈ s.nattrK then attrsJ (s.nattr n) else Json.str "$missing"])).toArray),
    ("eattr", Json.arr (s.edges.map (fun e => Json.arr #[idToJson e,
        if e ∈ s.eattrK then attrsJ (s.eattr e) else Json.str "$missing"])).toArray),
    ("nattrK", setToJson s.nattrK),
    ("eattrK", setToJson s.eattrK),
    ("net", attrsJ s.net),
    ("uid", natJson s.uid),
    ("frozen", Json.bool s.frozen) ]

def respond (s : HG) (o : Outcome) : Json := Json.mkObj (("out", outcomeJson o) :: snapshot s)

def nodeItem? (j : Json) : Option (PyId × Option Attrs) := do
  let n ← getId? j "n"
  match getField? j "attr" with
  | none => pure (n, none)
  | some a => pure (n, some (← attrsOfJson? a))

def edgeItem? (j : Json) : Option EdgeItem := do
  let ms ← getIds? j "members"
  let idx ← match getField? j "idx" with
    | none => pure none
    | some (.str "$auto") => pure none
    | some i => (idOfJson? i).map some
  let a ← match getField? j "attr" with
    | none => pure []
    | some a => attrsOfJson? a
  pure { members := ms, idx := idx, attr := a }

def fmt? (j : Json) : Option Fmt :=
  match getNat? j "fmt" with
  | some 1 => some .f1 | some 2 => some .f2 | some 3 => some .f3 | some 4 => some .f4 | some 5 => some .f5
  | _ => none

def attrArg? (j : Json) : Option AttrArg :=
  match getStr? j "shape" with
  | some "dict_name" => do
    let vals ← getArr? j "values"
    let vals ← vals.mapM (fun p => match p with
      | .arr #[i, v] => do pure ((← idOfJson? i), (← valOfJson? v))
      | _ => none)
    pure (.dictName vals (← getStr? j "name"))
  | some "const_name" => do
    pure (.constName (← (getField? j "value").bind valOfJson?) (← getStr? j "name"))
  | some "dict_of_dict" => do
    let vals ← getArr? j "values"
    let vals ← vals.mapM (fun p => match p with
      | .arr #[i, a] => do pure ((← idOfJson? i), (← attrsOfJson? a))
      | _ => none)
    pure (.dictOfDict vals)
  | some "bad_no_name" => some .badNoName
  | _ => none

def rename? : String → Rename
  | "first" => .first | "tuple" => .tuple | "new" => .new | _ => .invalid
def rule? : String → MergeRule
  | "first" => .first | "union" => .union | "intersection" => .intersection | _ => .invalid

def op? (j : Json) : Option Op := do
  let name ← getStr? j "op"
  match name with
  | "add_node" => pure (.addNode (← getId? j "n") (← getAttrs? j "attr"))
  | "add_nodes_from" => do
    let items ← (← getArr? j "items").mapM nodeItem?
    pure (.addNodesFrom items (← getAttrs? j "attr"))
  | "remove_node" => pure (.removeNode (← getId? j "n") (← getBool? j "strong") (← getBool? j "remove_empty"))
  | "remove_nodes_from" => pure (.removeNodesFrom (← getIds? j "ns") (← getBool? j "strong") (← getBool? j "remove_empty"))
  | "add_edge" => do
    let idx ← match getField? j "idx" with
      | some (.str "$auto") => pure none
      | some i => (idOfJson? i).map some
      | none => none
    pure (.addEdge (← getIds? j "members") idx (← getAttrs? j "attr"))
  | "add_edges_from" => do
    let items ← (← getArr? j "items").mapM edgeItem?
    pure (.addEdgesFrom (← fmt? j) items (← getAttrs? j "attr"))
  | "add_weighted_edges_from" => do
    let items ← (← getArr? j "items").mapM edgeItem?
    pure (.addEdgesFrom .f3 items (← getAttrs? j "attr"))
  | "add_node_to_edge" => pure (.addNodeToEdge (← getId? j "e") (← getId? j "n"))
  | "remove_edge" => pure (.removeEdge (← getId? j "e"))
  | "remove_edges_from" => pure (.removeEdgesFrom (← getIds? j "es"))
  | "remove_node_from_edge" => pure (.removeNodeFromEdge (← getId? j "e") (← getId? j "n") (← getBool? j "remove_empty"))
  | "set_node_attributes" => pure (.setNodeAttrs (← attrArg? j))
  | "set_edge_attributes" => pure (.setEdgeAttrs (← attrArg? j))
  | "set_net_attr" => pure (.setNetAttr (← getStr? j "k") (← (getField? j "v").bind valOfJson?))
  | "double_edge_swap" => pure (.doubleEdgeSwap (← getId? j "n1") (← getId? j "n2") (← getId? j "e1") (← getId? j "e2"))
  | "random_edge_shuffle" => pure (.randomEdgeShuffle (← getId? j "e1") (← getId? j "e2") (← getIds? j "choice"))
  | "update" => do
    let nodes ← (← getArr? j "nodes").mapM nodeItem?
    let edges ← match getField? j "edges" with
      | some .null => pure none
      | some ej => do
        let items ← (← getArr? ej "items").mapM edgeItem?
        pure (some ((← fmt? ej), items))
      | none => pure none
    pure (.update edges nodes)
  | "clear" => pure (.clear (← getBool? j "remove_net_attr"))
  | "clear_edges" => pure .clearEdges
  | "merge_duplicate_edges" => do
    let mult := getStr? j "multiplicity"
    pure (.mergeDuplicateEdges (rename? (← getStr? j "rename")) (rule? (← getStr? j "merge_rule")) mult)
  | "cleanup" => pure (.cleanup (← getBool? j "isolates") (← getBool? j "singletons") (← getBool? j "multiedges")
      (← getBool? j "connected") (← getBool? j "relabel"))
  | "relabel" => pure (.relabel (← getStr? j "label_attribute"))
  | "lcc_in_place" => pure .lccInPlace
  | "freeze" => pure .freeze
  | _ => none

/-- `{"op":"derive","kind":…}`: the network a converter / `copy` / `dual` returns (the current state is unchanged) -/
def derive? (s : HG) (j : Json) : Option (Option (HG × Outcome)) := do
  let pairOf (p : Json) : Option (Json × Json) := match p with | .arr #[a, b] => some (a, b) | _ => none
  let natOf (x : Json) : Option Nat := match x.getInt? with | .ok i => if i ≥ 0 then some i.toNat else none | _ => none
  let labels (k : String) : Option (Option (List PyId)) := match getField? j k with
    | none => some none | some .null => some none
    | some l => (idsOfJson? l).map some
  match ← getStr? j "kind" with
  | "copy" => pure (copyOf s)
  | "dual" => pure (dualOf s)
  | "to_hypergraph" => pure (toHypergraphOf s)
  | "edge_list" => do
    let es ← (← getArr? j "edges").mapM idsOfJson?
    pure (runStop HG.empty (edgeListOps es))
  | "edge_dict" => do
    let d ← (← getArr? j "items").mapM (fun p => do
      let (a, b) ← pairOf p
      pure ((← idOfJson? a), (← idsOfJson? b)))
    pure (runStop HG.empty (edgeDictOps d))
  | "bipartite" => do
    let d ← (← getArr? j "pairs").mapM (fun p => do
      let (a, b) ← pairOf p
      pure ((← idOfJson? a), (← idOfJson? b)))
    pure (runStop HG.empty (bipartiteOps d))
  | "incidence" => do
    let es ← (← getArr? j "entries").mapM (fun p => do
      let (a, b) ← pairOf p
      pure ((← natOf a), (← natOf b)))
    pure (incidenceOf (← getNat? j "n") (← getNat? j "m") es (← labels "nodelabels") (← labels "edgelabels"))
  | _ => none

def handle (s : HG) (j : Json) : HG × Json :=
  match getStr? j "op" with
  | some "reset" => (HG.empty, respond HG.empty .ok)
  | some "snapshot" => (s, respond s .ok)
  | some "derive" =>
    match derive? s j with
    | none => (s, badOp)
    | some none => (s, Json.mkObj [("out", "unmodelled")])
    | some (some (t, o)) => (s, respond t o)
  | _ =>
    match op? j with
    | none => (s, badOp)
    | some op =>
      match HG.step s op with
      | none => (s, Json.mkObj [("out", "unmodelled")])
      | some (s', o) => (s', respond s' o)

end Xgi.HG.Drive
