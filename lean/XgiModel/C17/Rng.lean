/-
  C17 — RNG-effect IR, its semantics and the decidable seeding discipline.

  The translator (harness/c17_translate.py) reads the current Python source and emits, per function
  that has a `seed` parameter, the ordered list of RNG effects of its body (`Generated/SeedTable.lean`).
  This file gives those lists a meaning:

  * a `World` is what persists in the interpreter between calls: the global Python stream
    (`random`), the global NumPy stream (`np.random`) and an entropy stream (the OS).  A stream is a
    function `Nat → Nat` together with a read position;
  * seeding a global stream with `n` resets it to position 0 of `G.py n` / `G.np n`, where the
    generator family `G` is arbitrary (every theorem quantifies over it);
  * generators created locally from the seed (`default_rng(seed)`, `RandomState(seed)`,
    `nx.spring_layout(seed=seed)`) deliver `G.loc n k` for the k-th value drawn in the call;
  * a function can be entered with a concrete seed (`some n`) or without one (`none`, the Python default
    `seed=None`): then `if seed is not None: random.seed(seed)` is skipped, an unconditional
    `random.seed(seed)` reseeds from OS entropy, and "local" generators are created from OS entropy.

  `wellSeeded` is the static discipline; `Props/C17.lean` proves that it makes the trace of drawn values
  independent of the world.  No Mathlib.
-/

namespace Xgi.C17

inductive Src
  | pyGlobal    -- the module-level generator of Python's `random`
  | npGlobal    -- the module-level RandomState of `numpy.random`
  | osEntropy   -- fresh entropy (default_rng(None), eigsh without v0/rng, SystemRandom …)
  | «local»     -- a generator object created from the seed inside the call
  | unknown     -- a random-looking call the translator could not classify
  deriving DecidableEq, Repr, Inhabited

inductive Eff
  /-- `random.seed(seed)` / `np.random.seed(seed)`; `cond` = guarded by `if seed is not None:` -/
  | seed (s : Src) (cond : Bool)
  /-- one call that consumes randomness from `s` -/
  | draw (s : Src)
  /-- call of another function of the table passing the seed on -/
  | forwardSeed (f : String)
  /-- call of another function of the table without passing a seed (it runs with `seed=None`) -/
  | callUnseeded (f : String)
  deriving DecidableEq, Repr, Inhabited

abbrev Table := List (String × List Eff)
abbrev Seed := Nat
abbrev Trace := List Nat

structure Stream where
  gen : Nat → Nat
  pos : Nat

def Stream.val (s : Stream) : Nat := s.gen s.pos
def Stream.adv (s : Stream) : Stream := { s with pos := s.pos + 1 }

/-- what persists between calls -/
structure World where
  py : Stream
  np : Stream
  ent : Stream

/-- the (arbitrary) seeding functions: seed ↦ stream -/
structure Gens where
  py : Nat → Nat → Nat
  np : Nat → Nat → Nat
  loc : Nat → Nat → Nat

/-- state of one call: the world and the values drawn so far (most recent last) -/
structure St where
  w : World
  tr : Trace

def St.emit (st : St) (v : Nat) (w : World) : St := { w := w, tr := st.tr ++ [v] }

def drawPy (st : St) : St := st.emit st.w.py.val { st.w with py := st.w.py.adv }
def drawNp (st : St) : St := st.emit st.w.np.val { st.w with np := st.w.np.adv }
def drawEnt (st : St) : St := st.emit st.w.ent.val { st.w with ent := st.w.ent.adv }
/-- k-th value of the generators created from seed `n` in this call (k = number of values drawn so far) -/
def drawLoc (G : Gens) (n : Seed) (st : St) : St := st.emit (G.loc n st.tr.length) st.w

/-- `draw s` when the function was entered with seed `sd` -/
def doDraw (G : Gens) (sd : Option Seed) (st : St) : Src → St
  | .pyGlobal => drawPy st
  | .npGlobal => drawNp st
  | .osEntropy => drawEnt st
  | .unknown => drawEnt st
  | .local => match sd with
    | some n => drawLoc G n st
    | none => drawEnt st

/-- `random.seed(x)` where `x` is the seed the function was entered with -/
def doSeed (G : Gens) (sd : Option Seed) (st : St) (s : Src) (cond : Bool) : St :=
  match sd with
  | some n => match s with
    | .pyGlobal => { st with w := { st.w with py := ⟨G.py n, 0⟩ } }
    | .npGlobal => { st with w := { st.w with np := ⟨G.np n, 0⟩ } }
    | _ => st
  | none =>
    if cond then st else
    match s with       -- `random.seed(None)`: reseed from OS entropy
    | .pyGlobal => { st with w := { st.w with py := ⟨G.py st.w.ent.val, 0⟩, ent := st.w.ent.adv } }
    | .npGlobal => { st with w := { st.w with np := ⟨G.np st.w.ent.val, 0⟩, ent := st.w.ent.adv } }
    | _ => st

def body (T : Table) (f : String) : List Eff := (T.lookup f).getD []

/-- one effect; `fuel` bounds the call depth (a call at depth 0 does nothing — `wellSeeded` rejects it) -/
def execEff (G : Gens) (T : Table) : Nat → Option Seed → St → Eff → St
  | _, sd, st, .seed s c => doSeed G sd st s c
  | _, sd, st, .draw s => doDraw G sd st s
  | 0, _, st, .forwardSeed _ => st
  | 0, _, st, .callUnseeded _ => st
  | fuel + 1, sd, st, .forwardSeed f => (body T f).foldl (execEff G T fuel sd) st
  | fuel + 1, _, st, .callUnseeded f => (body T f).foldl (execEff G T fuel none) st

def execList (G : Gens) (T : Table) (fuel : Nat) (sd : Option Seed) (st : St) (effs : List Eff) : St :=
  effs.foldl (execEff G T fuel sd) st

/-- run an effect list with a concrete seed from world `w`: the values drawn, and the world left behind.
    The call depth is bounded by the number of functions in the table (enough for any acyclic table). -/
def exec (G : Gens) (T : Table) (effs : List Eff) (seed : Seed) (w : World) : Trace × World :=
  let st := execList G T T.length (some seed) ⟨w, []⟩ effs
  (st.tr, st.w)

/-! ### the static discipline -/

/-- which global streams are known to be in the state determined by the seed -/
structure Seeded where
  py : Bool
  np : Bool
  deriving DecidableEq, Repr

def Seeded.none : Seeded := ⟨false, false⟩

def wsSeed (hasSeed : Bool) (σ : Seeded) (s : Src) (cond : Bool) : Seeded :=
  if hasSeed then
    match s with
    | .pyGlobal => { σ with py := true }
    | .npGlobal => { σ with np := true }
    | _ => σ
  else if cond then σ else
    match s with
    | .pyGlobal => { σ with py := false }
    | .npGlobal => { σ with np := false }
    | _ => σ

def wsDraw (hasSeed : Bool) (σ : Seeded) : Src → Option Seeded
  | .pyGlobal => if σ.py then some σ else .none
  | .npGlobal => if σ.np then some σ else .none
  | .osEntropy => .none
  | .unknown => .none
  | .local => if hasSeed then some σ else .none

/-- fold that stops at the first failure -/
def wsFold (step : Seeded → Eff → Option Seeded) : Option Seeded → List Eff → Option Seeded
  | .none, _ => .none
  | some σ, [] => some σ
  | some σ, e :: es => wsFold step (step σ e) es

/-- abstract execution of one effect: `none` = a draw whose value is not determined by the seed -/
def wsEff (T : Table) : Nat → Bool → Seeded → Eff → Option Seeded
  | _, hs, σ, .seed s c => some (wsSeed hs σ s c)
  | _, hs, σ, .draw s => wsDraw hs σ s
  | 0, _, _, .forwardSeed _ => .none
  | 0, _, _, .callUnseeded _ => .none
  | fuel + 1, hs, σ, .forwardSeed f =>
    match T.lookup f with
    | .none => .none
    | some b => wsFold (wsEff T fuel hs) (some σ) b
  | fuel + 1, _, σ, .callUnseeded f =>
    match T.lookup f with
    | .none => .none
    | some b => wsFold (wsEff T fuel false) (some σ) b

/-- Every draw on a global source is preceded (in this call, callees included) by a seeding of that source
    with the seed; nothing is drawn from OS entropy or an unclassified source; callees entered without a
    seed only draw from global streams the caller has already seeded; every callee is in the table and the
    call graph is acyclic (depth ≤ table size). -/
def wellSeeded (T : Table) (effs : List Eff) : Bool :=
  (wsFold (wsEff T T.length true) (some Seeded.none) effs).isSome

/-- `n` has an entry in the table and that entry obeys the discipline (`false` when there is no entry) -/
def entryOk (T : Table) (n : String) : Bool :=
  match T.lookup n with
  | some effs => wellSeeded T effs
  | .none => false

/-! ### diagnostics used by the driver (not part of any theorem) -/

/-- index of the first top-level effect at which the discipline fails -/
def firstBad (T : Table) (effs : List Eff) : Option Nat :=
  let rec go (σ : Seeded) (i : Nat) : List Eff → Option Nat
    | [] => .none
    | e :: es => match wsEff T T.length true σ e with
      | .none => some i
      | some σ' => go σ' (i + 1) es
  go Seeded.none 0 effs

/-- sources touched (seeded or drawn) by an effect list, callees included, to call depth `fuel` -/
def touched (T : Table) : Nat → List Eff → List (Bool × Src)
  | _, [] => []
  | fuel, .seed s _ :: es => (false, s) :: touched T fuel es
  | fuel, .draw s :: es => (true, s) :: touched T fuel es
  | 0, _ :: es => touched T 0 es
  | fuel + 1, .forwardSeed f :: es => touched T fuel (body T f) ++ touched T (fuel + 1) es
  | fuel + 1, .callUnseeded f :: es => touched T fuel (body T f) ++ touched T (fuel + 1) es

end Xgi.C17
