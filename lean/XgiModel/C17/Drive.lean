/-
  C17 driver: evaluates the seeding discipline per function of the regenerated table (used by the harness to
  name the functions that break `C17_table`), lists the sources the table attributes to a function (for the
  dynamic validation of the translator), and runs the effect semantics from sample worlds.
-/
import XgiModel.Proto
import XgiModel.C17.Rng
import XgiModel.Generated.SeedTable
open Lean Xgi.Proto

namespace Xgi.C17.Drive

def srcName : Src → String
  | .pyGlobal => "pyGlobal" | .npGlobal => "npGlobal" | .osEntropy => "osEntropy"
  | .local => "local" | .unknown => "unknown"

def effName : Eff → String
  | .seed s c => s!"seed {srcName s}{if c then " (if seed is not None)" else ""}"
  | .draw s => s!"draw {srcName s}"
  | .forwardSeed f => s!"forwardSeed {f}"
  | .callUnseeded f => s!"callUnseeded {f}"

def strs (l : List String) : Json := Json.arr (l.map Json.str).toArray

/-- sample generator family and worlds (world `k`: the three global streams in unrelated states) -/
def gS : Gens := ⟨fun n k => 1000003 * n + 7 * k + 1, fun n k => 2000003 * n + 11 * k + 2, fun n k => 3000017 * n + 13 * k + 3⟩
def world (k : Nat) : World :=
  ⟨⟨fun i => 17 * k + 31 * i + 5, k⟩, ⟨fun i => 19 * k + 37 * i + 6, 2 * k⟩, ⟨fun i => 23 * k + 41 * i + 7, 3 * k⟩⟩

def T : Table := SeedTable.fns

def handle (_ : Unit) (j : Json) : Unit × Json :=
  ((), match getStr? j "op" with
  | some "fns" => Json.mkObj [("fns", strs (T.map (·.1))), ("public", strs SeedTable.public),
      ("introspected", strs SeedTable.introspected),
      ("introspectedBad", strs (SeedTable.introspected.filter (fun n => !entryOk T n)))]
  | some "wellSeeded" =>
    match getStr? j "f" with
    | none => badOp
    | some f => match T.lookup f with
      | none => Json.mkObj [("out", "unmodelled")]
      | some effs =>
        let bad := firstBad T effs
        Json.mkObj [("f", f), ("ok", Json.bool (wellSeeded T effs)),
          ("firstBad", match bad with | none => Json.null | some i => natJson i),
          ("eff", match bad with | none => Json.null | some i => match effs[i]? with
              | some e => Json.str (effName e) | none => Json.null),
          ("effs", strs (effs.map effName))]
  | some "touched" =>
    match getStr? j "f" with
    | none => badOp
    | some f => match T.lookup f with
      | none => Json.mkObj [("out", "unmodelled")]
      | some effs =>
        let t := touched T T.length effs
        Json.mkObj [("f", f), ("draw", strs ((t.filter (·.1)).map (srcName ·.2)).eraseDups),
                    ("seed", strs ((t.filter (!·.1)).map (srcName ·.2)).eraseDups)]
  | some "exec" =>
    match getStr? j "f", getNat? j "seed", getNat? j "world" with
    | some f, some sd, some k => match T.lookup f with
      | none => Json.mkObj [("out", "unmodelled")]
      | some effs => Json.mkObj [("f", f), ("trace", Json.arr ((exec gS T effs sd (world k)).1.map natJson).toArray)]
    | _, _, _ => badOp
  | _ => badOp)

end Xgi.C17.Drive
