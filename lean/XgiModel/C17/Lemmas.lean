/-
  C17 — helper lemmas: the relational invariant behind `wellSeeded_sound`.

  Two runs of the same effect list with the same seed, started in arbitrary worlds, are related by
  `Rel σ`: they have drawn the same values so far, and every global stream that the abstract state `σ`
  records as seeded is in the same state in both runs (namely the one determined by the seed).
-/
import XgiModel.C17.Rng

namespace Xgi.C17

def Rel (σ : Seeded) (a b : St) : Prop :=
  a.tr = b.tr ∧ (σ.py = true → a.w.py = b.w.py) ∧ (σ.np = true → a.w.np = b.w.np)

theorem rel_seed (G : Gens) (sd : Option Seed) (σ : Seeded) (s : Src) (c : Bool) (a b : St)
    (h : Rel σ a b) : Rel (wsSeed sd.isSome σ s c) (doSeed G sd a s c) (doSeed G sd b s c) := by
  obtain ⟨ht, hp, hn⟩ := h
  cases sd with
  | some n =>
    cases s <;> simp only [wsSeed, doSeed, Option.isSome, if_true] <;>
      exact ⟨ht, by simp_all, by simp_all⟩
  | none =>
    cases c
    · cases s <;> simp only [wsSeed, doSeed, Option.isSome] <;>
        exact ⟨ht, by simp_all, by simp_all⟩
    · simp only [wsSeed, doSeed, Option.isSome]
      exact ⟨ht, by simp_all, by simp_all⟩

theorem rel_draw (G : Gens) (sd : Option Seed) (σ σ' : Seeded) (s : Src) (a b : St)
    (hw : wsDraw sd.isSome σ s = some σ') (h : Rel σ a b) :
    Rel σ' (doDraw G sd a s) (doDraw G sd b s) := by
  obtain ⟨ht, hp, hn⟩ := h
  cases s with
  | pyGlobal =>
    simp only [wsDraw] at hw
    split at hw
    · rename_i hpy
      cases hw
      have e := hp hpy
      refine ⟨?_, ?_, ?_⟩
      · simp [doDraw, drawPy, St.emit, ht, e]
      · intro _; simp [doDraw, drawPy, St.emit, e]
      · intro h2; simpa [doDraw, drawPy, St.emit] using hn h2
    · cases hw
  | npGlobal =>
    simp only [wsDraw] at hw
    split at hw
    · rename_i hnp
      cases hw
      have e := hn hnp
      refine ⟨?_, ?_, ?_⟩
      · simp [doDraw, drawNp, St.emit, ht, e]
      · intro h2; simpa [doDraw, drawNp, St.emit] using hp h2
      · intro _; simp [doDraw, drawNp, St.emit, e]
    · cases hw
  | osEntropy => simp [wsDraw] at hw
  | unknown => simp [wsDraw] at hw
  | «local» =>
    cases sd with
    | none => simp [wsDraw] at hw
    | some n =>
      simp only [wsDraw, Option.isSome, if_true] at hw
      cases hw
      refine ⟨?_, ?_, ?_⟩
      · simp [doDraw, drawLoc, St.emit, ht]
      · intro h2; simpa [doDraw, drawLoc, St.emit] using hp h2
      · intro h2; simpa [doDraw, drawLoc, St.emit] using hn h2

/-- lifting a per-effect simulation to effect lists -/
theorem rel_fold (step : Seeded → Eff → Option Seeded) (f : St → Eff → St)
    (hstep : ∀ σ σ' e a b, step σ e = some σ' → Rel σ a b → Rel σ' (f a e) (f b e)) :
    ∀ (es : List Eff) (σ σ' : Seeded) (a b : St),
      wsFold step (some σ) es = some σ' → Rel σ a b → Rel σ' (es.foldl f a) (es.foldl f b) := by
  intro es
  induction es with
  | nil =>
    intro σ σ' a b hw h
    simp only [wsFold] at hw
    cases hw
    simpa using h
  | cons e es ih =>
    intro σ σ' a b hw h
    simp only [wsFold] at hw
    cases hs : step σ e with
    | none => rw [hs] at hw; simp [wsFold] at hw
    | some σ1 =>
      rw [hs] at hw
      simp only [List.foldl_cons]
      exact ih σ1 σ' _ _ hw (hstep σ σ1 e a b hs h)

/-- one effect, at every call depth -/
theorem rel_eff (G : Gens) (T : Table) :
    ∀ (fuel : Nat) (sd : Option Seed) (σ σ' : Seeded) (e : Eff) (a b : St),
      wsEff T fuel sd.isSome σ e = some σ' → Rel σ a b →
      Rel σ' (execEff G T fuel sd a e) (execEff G T fuel sd b e) := by
  intro fuel
  induction fuel with
  | zero =>
    intro sd σ σ' e a b hw h
    cases e with
    | seed s c => simp only [wsEff] at hw; cases hw; simpa [execEff] using rel_seed G sd σ s c a b h
    | draw s => simp only [wsEff] at hw; simpa [execEff] using rel_draw G sd σ σ' s a b hw h
    | forwardSeed f => simp [wsEff] at hw
    | callUnseeded f => simp [wsEff] at hw
  | succ fuel ih =>
    intro sd σ σ' e a b hw h
    cases e with
    | seed s c => simp only [wsEff] at hw; cases hw; simpa [execEff] using rel_seed G sd σ s c a b h
    | draw s => simp only [wsEff] at hw; simpa [execEff] using rel_draw G sd σ σ' s a b hw h
    | forwardSeed f =>
      simp only [wsEff] at hw
      cases hl : T.lookup f with
      | none => rw [hl] at hw; cases hw
      | some bd =>
        rw [hl] at hw
        simp only [execEff, body, hl, Option.getD_some]
        exact rel_fold _ _ (fun σ σ' e a b => ih sd σ σ' e a b) bd σ σ' a b hw h
    | callUnseeded f =>
      simp only [wsEff] at hw
      cases hl : T.lookup f with
      | none => rw [hl] at hw; cases hw
      | some bd =>
        rw [hl] at hw
        simp only [execEff, body, hl, Option.getD_some]
        exact rel_fold _ _ (fun σ σ' e a b => ih none σ σ' e a b) bd σ σ' a b hw h

end Xgi.C17
