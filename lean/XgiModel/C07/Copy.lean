/-
  C07 — the three ways of cloning a `Hypergraph`, transcribed on the `HG` model.

    * `HG.copy`            `Hypergraph.copy`                      (xgi/core/hypergraph.py)
    * `HG.pickleRoundTrip` `__getstate__` → pickle → `__setstate__`
    * `HG.ofNetwork`       `Hypergraph(H, **attr)`, i.e. `__init__` → `to_hypergraph(H, create_using=self)`
                           (xgi/convert/higher_order_network.py, branch "data is a Hypergraph")

  All three build the clone through the *public mutators of the model* (`addNodesFrom`,
  `addEdgesFrom` format 4, `clear`) exactly as the Python does, so every theorem of Lemmas/HGWF.lean
  applies to them.  `deepcopy` of an attribute dict is the identity on the value level of this model
  (`Attrs` are immutable values here); what `deepcopy`/`pickle` add in Python — *fresh containers* — is
  the subject of C07/Heap.lean.

  A function that returns a new network answers `(network, outcome)`; when the outcome is `err _` the
  Python call raised and there is no network to look at.  No Mathlib.
-/
import XgiModel.Core.HG

namespace Xgi
namespace HG

/-- `(n, deepcopy(attr)) for n, attr in self.nodes.items()` — also `(n, attr) for n, attr in data.nodes.items()` -/
def nodeItems (s : HG) : List (PyId × Option Attrs) :=
  s.nodes.map (fun n => (n, some (s.nattr n)))

/-- `(e, idx, deepcopy(self.edges[idx])) for idx, e in self.edges.members(dtype=dict).items()` — also
    `(ee.members(e), e, deepcopy(attr)) for e, attr in ee.items()`: format 4 of `add_edges_from` -/
def edgeItems (s : HG) : List EdgeItem :=
  s.edges.map (fun e => { members := s.mem e, idx := some e, attr := s.eattr e })

/-- `Hypergraph.copy`:
    ```
    cp = self.__class__()
    cp.add_nodes_from((n, deepcopy(attr)) for n, attr in nn.items())
    cp.add_edges_from((e, idx, deepcopy(self.edges[idx])) for idx, e in ee.members(dtype=dict).items())
    cp._net_attr = deepcopy(self._net_attr)
    cp._edge_uid = copy(self._edge_uid)
    ``` -/
def copy (s : HG) : HG × Outcome :=
  let cp := HG.empty
  let r := andThen (addNodesFrom cp (nodeItems s) []) (fun cp => addEdgesFrom cp .f4 (edgeItems s) [])
  ({ r.1 with net := s.net, uid := s.uid }, r.2)

/-- `Hypergraph(H, **attr)`:
    ```
    __init__:        six fresh tables, self._edge_uid = count()
    to_hypergraph:   H = empty_hypergraph(create_using=self)        -- self.clear(); H is self
                     H.add_nodes_from((n, attr) for n, attr in data.nodes.items())
                     H.add_edges_from((ee.members(e), e, deepcopy(attr)) for e, attr in ee.items())
                     H._net_attr = deepcopy(data._net_attr)
    __init__:        self._net_attr.update(attr)
    ```
    The counter is **not** copied: it starts at 0 and is advanced by `update_uid_counter` for every
    explicit ID of format 4 (inside `addEdgesFrom`). -/
def ofNetwork (s : HG) (attr : Attrs := []) : HG × Outcome :=
  let h := HG.empty
  let h := (clear h true).1
  let r := andThen (addNodesFrom h (nodeItems s) []) (fun h => addEdgesFrom h .f4 (edgeItems s) [])
  ({ r.1 with net := s.net.update attr }, r.2)

/-! ### pickle: the state dict -/

/-- what `__getstate__` returns: the counter and the five dicts (as key/value lists in dict order) -/
structure PState where
  edgeUid : Nat
  netAttr : Attrs
  node : List (PyId × List PyId)
  nodeAttr : List (PyId × Attrs)
  edge : List (PyId × List PyId)
  edgeAttr : List (PyId × Attrs)

/-- `d[k]` on a key/value list (`dflt` for an absent key; never observed) -/
def lookupD {β : Type} (l : List (PyId × β)) (dflt : β) (k : PyId) : β :=
  match l.find? (fun p => p.1 = k) with
  | some p => p.2
  | none => dflt

/-- `__getstate__` -/
def getState (s : HG) : PState :=
  { edgeUid := s.uid, netAttr := s.net,
    node := s.nodes.map (fun n => (n, s.memb n)),
    nodeAttr := s.nattrK.map (fun n => (n, s.nattr n)),
    edge := s.edges.map (fun e => (e, s.mem e)),
    edgeAttr := s.eattrK.map (fun e => (e, s.eattr e)) }

/-- `__setstate__` on a new instance (`object.__new__`): the six fields are taken from the state dict and the
    views are recreated; none of the instance attributes written by `freeze()` is part of the state -/
def setState (p : PState) : HG :=
  { nodes := p.node.map (·.1), edges := p.edge.map (·.1),
    memb := lookupD p.node [], mem := lookupD p.edge [],
    nattrK := p.nodeAttr.map (·.1), eattrK := p.edgeAttr.map (·.1),
    nattr := lookupD p.nodeAttr [], eattr := lookupD p.edgeAttr [],
    net := p.netAttr, uid := p.edgeUid, frozen := false }

/-- `pickle.loads(pickle.dumps(H))`; pickle itself is "a fresh structure isomorphic to the state dict" -/
def pickleRoundTrip (s : HG) : HG := setState (getState s)

/-! ### what "the same network" means -/

/-- an attribute dict of the model stands for a Python dict: no key occurs twice -/
def IsDict (a : Attrs) : Prop := (a.map (·.1)).Nodup

/-- every attribute dict of the state is a dict (true of `HG.empty`, kept by every mutator:
    `Props/C07.lean`, `C07_step_attrs`) -/
structure AttrsOK (s : HG) : Prop where
  nattr : ∀ n, IsDict (s.nattr n)
  eattr : ∀ e, IsDict (s.eattr e)
  net : IsDict s.net

/-- `t` shows the same network as `s`: same nodes in the same order, same edges in the same order, the same
    member set for every edge, the same membership set for every node, the same attribute dict (keys, values
    and key order) for every node, every edge and the network, one attribute record per ID on both sides -/
structure SameNet (s t : HG) : Prop where
  nodes : t.nodes = s.nodes
  edges : t.edges = s.edges
  mem : ∀ e ∈ s.edges, ∀ x, x ∈ t.mem e ↔ x ∈ s.mem e
  memb : ∀ n ∈ s.nodes, ∀ e, e ∈ t.memb n ↔ e ∈ s.memb n
  nattr : ∀ n ∈ s.nodes, t.nattr n = s.nattr n
  eattr : ∀ e ∈ s.edges, t.eattr e = s.eattr e
  nattrK : ∀ n, n ∈ t.nattrK ↔ n ∈ s.nattrK
  eattrK : ∀ e, e ∈ t.eattrK ↔ e ∈ s.eattrK
  net : t.net = s.net

end HG
end Xgi
