/-
  C07 — a small heap model: why two object graphs that share no mutable container cannot influence
  each other, whatever is done to either of them afterwards.

  A *cell* is one of Python's mutable containers (a dict, a set, a list, a bytearray, the
  `itertools.count`, an instance `__dict__`): it has an address (`id()`), a list of references to other
  cells, and an immutable payload (keys, numbers, strings, tuples of immutables, frozensets — values, not
  cells).  A *heap* maps addresses to cells.  Code that "works through A" holds the roots `A` and whatever
  it allocated itself; it may
    * overwrite the content of a cell it can reach, storing only references it can reach,
    * allocate a new cell at an unused address, again storing only references it can reach.
  It has no other way to obtain a reference (no global mutable state — the assumption under which this
  model speaks about xgi; see the manifest).

  No Mathlib.  The theorems are in Props/C07.lean, helper lemmas in C07/LemmasHeap.lean.
-/
import XgiModel.Base

namespace Xgi.Heap

/-- one mutable container -/
structure Cell (π : Type) where
  refs : List Nat
  payload : π
  deriving DecidableEq, Repr

/-- address ↦ container (`none` = nothing allocated there) -/
abbrev Heap (π : Type) := Nat → Option (Cell π)

variable {π : Type}

/-- the cells that can be reached from the roots by following references -/
inductive Reach (h : Heap π) (roots : List Nat) : Nat → Prop
  | root {a : Nat} : a ∈ roots → Reach h roots a
  | step {a b : Nat} {c : Cell π} : Reach h roots a → h a = some c → b ∈ c.refs → Reach h roots b

/-- one heap write -/
inductive Write (π : Type) where
  /-- in-place mutation of the existing container `a`: new reference list, new payload -/
  | set (a : Nat) (c : Cell π)
  /-- creation of a container at the unused address `a` -/
  | alloc (a : Nat) (c : Cell π)

/-- the heap after the write -/
def Write.exec (h : Heap π) : Write π → Heap π
  | .set a c => upd h a (some c)
  | .alloc a c => upd h a (some c)

/-- the write is one that code holding the roots `R` can perform -/
def Write.Ok (h : Heap π) (R : List Nat) : Write π → Prop
  | .set a c => Reach h R a ∧ (h a).isSome ∧ ∀ b ∈ c.refs, Reach h R b
  | .alloc a c => h a = none ∧ ∀ b ∈ c.refs, Reach h R b

/-- the roots held afterwards: a newly allocated container is a local of the running code -/
def Write.roots (R : List Nat) : Write π → List Nat
  | .set _ _ => R
  | .alloc a _ => a :: R

/-- run a write sequence -/
def execAll (h : Heap π) (ws : List (Write π)) : Heap π := ws.foldl Write.exec h

/-- the roots held after a write sequence -/
def rootsAfter (R : List Nat) (ws : List (Write π)) : List Nat := ws.foldl Write.roots R

/-- the write sequence is executed *through* `R`: every write is admissible at the moment it happens -/
def Through : Heap π → List Nat → List (Write π) → Prop
  | _, _, [] => True
  | h, R, w :: ws => w.Ok h R ∧ Through (w.exec h) (w.roots R) ws

/-- two root sets that live in a closed heap (no dangling reference) and reach no common cell -/
structure Sep (h : Heap π) (A B : List Nat) : Prop where
  closed : ∀ a c, h a = some c → ∀ b ∈ c.refs, (h b).isSome
  allocA : ∀ a ∈ A, (h a).isSome
  allocB : ∀ b ∈ B, (h b).isSome
  disj : ∀ a, Reach h A a → ¬ Reach h B a

/-- what an observer that starts at `a` and follows references for at most `n` levels sees -/
inductive Tree (π : Type) where
  | cut
  | dangling
  | node (p : π) (kids : List (Tree π))

def view (h : Heap π) : Nat → Nat → Tree π
  | 0, _ => .cut
  | n + 1, a =>
    match h a with
    | none => .dangling
    | some c => .node c.payload (c.refs.map (view h n))

/-! ### interleaved histories: each write is performed through one of the two sides -/

inductive Side where | A | B
  deriving DecidableEq, Repr

/-- every write of the interleaved sequence is admissible for the side that performs it -/
def Through2 : Heap π → List Nat → List Nat → List (Side × Write π) → Prop
  | _, _, _, [] => True
  | h, RA, RB, (.A, w) :: ws => w.Ok h RA ∧ Through2 (w.exec h) (w.roots RA) RB ws
  | h, RA, RB, (.B, w) :: ws => w.Ok h RB ∧ Through2 (w.exec h) RA (w.roots RB) ws

def execAll2 (h : Heap π) (ws : List (Side × Write π)) : Heap π := ws.foldl (fun h p => p.2.exec h) h

def rootsAfter2 (side : Side) (R : List Nat) (ws : List (Side × Write π)) : List Nat :=
  ws.foldl (fun R p => if p.1 = side then p.2.roots R else R) R

/-- the writes of one side only -/
def only (side : Side) (ws : List (Side × Write π)) : List (Write π) :=
  (ws.filter (fun p => p.1 = side)).map (·.2)

/-! ### concrete heaps (what the harness extracts from the Python object graph with `id()`) -/

/-- a heap given as an association list -/
def ofList (l : List (Nat × Cell π)) : Heap π :=
  fun a => (l.find? (fun p => p.1 = a)).map (·.2)

/-- `S` contains the roots, every element of `S` is allocated and all its references are in `S` again:
    a certificate that `S` over-approximates the reachable set -/
def checkClosed (l : List (Nat × Cell π)) (roots S : List Nat) : Bool :=
  roots.all (fun r => decide (r ∈ S)) &&
  S.all (fun a => match ofList l a with
    | none => false
    | some c => c.refs.all (fun b => decide (b ∈ S)))

/-- the separation certificate for a concrete heap: both sets closed, no common element, and the heap has
    no dangling reference -/
def checkSep (l : List (Nat × Cell π)) (A B SA SB : List Nat) : Bool :=
  checkClosed l A SA && checkClosed l B SB && SA.all (fun a => !decide (a ∈ SB)) &&
  l.all (fun p => p.2.refs.all (fun b => (ofList l b).isSome))

end Xgi.Heap
