/-
  C07 driver: two networks `a` (source) and `b` (clone) side by side.

    {"op":"reset"}                                   both sides empty
    {"op":<HG op>, …, "side":"a"|"b"}               one public call on that side (default "a"); answers that side's snapshot
    {"op":"clone","route":"copy"|"pickle"|"ctor"}   b := route(a); answers b's snapshot and the outcome of the route
          ("ctor" may carry "attr": keyword attributes of `Hypergraph(H, **attr)`)
    {"op":"snapshot","side":…}
    {"op":"heap_sep","cells":[[addr,[refs…]],…],"A":[…],"B":[…],"SA":[…],"SB":[…]}
          evaluates `Heap.checkSep` (the hypothesis of `frame`) on a concrete object graph
-/
import XgiModel.Drive.HG
import XgiModel.C07.Copy
import XgiModel.C07.Heap
open Lean Xgi.Proto

namespace Xgi.C07.Drive
open Xgi Xgi.HG

structure St where
  a : HG
  b : HG

def init : St := { a := HG.empty, b := HG.empty }

def side? (j : Json) : Option Bool :=      -- true = side a
  match getField? j "side" with
  | none => some true
  | some (.str "a") => some true
  | some (.str "b") => some false
  | _ => none

def nats? (j : Json) : Option (List Nat) :=
  match j with
  | .arr a => a.toList.mapM (fun x => match x with
    | .num n => if n.exponent = 0 ∧ n.mantissa ≥ 0 then some n.mantissa.toNat else none
    | _ => none)
  | _ => none

def cells? (j : Json) : Option (List (Nat × Heap.Cell Unit)) :=
  match j with
  | .arr a => a.toList.mapM (fun x => match x with
    | .arr #[.num n, refs] =>
      if n.exponent = 0 ∧ n.mantissa ≥ 0 then (nats? refs).map (fun r => (n.mantissa.toNat, { refs := r, payload := () }))
      else none
    | _ => none)
  | _ => none

def handle (st : St) (j : Json) : St × Json :=
  match getStr? j "op" with
  | some "reset" => (init, Drive.respond HG.empty .ok)
  | some "snapshot" =>
    match side? j with
    | some true => (st, Drive.respond st.a .ok)
    | some false => (st, Drive.respond st.b .ok)
    | none => (st, badOp)
  | some "clone" =>
    match getStr? j "route" with
    | some "copy" => let r := HG.copy st.a; ({ st with b := r.1 }, Drive.respond r.1 r.2)
    | some "pickle" => let t := HG.pickleRoundTrip st.a; ({ st with b := t }, Drive.respond t .ok)
    | some "ctor" =>
      match (match getField? j "attr" with | none => some [] | some a => attrsOfJson? a) with
      | none => (st, badOp)
      | some attr => let r := HG.ofNetwork st.a attr; ({ st with b := r.1 }, Drive.respond r.1 r.2)
    | _ => (st, badOp)
  | some "heap_sep" =>
    match (getField? j "cells").bind cells?, (getField? j "A").bind nats?, (getField? j "B").bind nats?,
          (getField? j "SA").bind nats?, (getField? j "SB").bind nats? with
    | some cells, some A, some B, some SA, some SB =>
      (st, Json.mkObj [("out", "ok"), ("sep", Json.bool (Heap.checkSep cells A B SA SB))])
    | _, _, _, _, _ => (st, badOp)
  | _ =>
    match side? j, Drive.op? j with
    | some sd, some op =>
      let s := if sd then st.a else st.b
      match HG.step s op with
      | none => (st, Json.mkObj [("out", "unmodelled")])
      | some (s', o) => ((if sd then { st with a := s' } else { st with b := s' }), Drive.respond s' o)
    | _, _ => (st, badOp)

end Xgi.C07.Drive
