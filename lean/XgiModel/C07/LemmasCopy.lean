/-
  C07 helper lemmas: what the rebuild through `addNodesFrom` / `addEdgesFrom` (format 4) produces,
  the state-dict round trip, attribute dicts stay dicts.
-/
import XgiModel.C07.Copy
import XgiModel.Lemmas.HGAdd

namespace Xgi
namespace HG

/-! ### attribute dicts -/

theorem isDict_nil : IsDict [] := by simp [IsDict]

theorem keys_set (a : Attrs) (k : String) (v : Val) :
    (a.set k v).map (·.1) = if a.any (fun p => p.1 = k) then a.map (·.1) else a.map (·.1) ++ [k] := by
  unfold Attrs.set
  split
  · rw [List.map_map]; apply List.map_congr_left; intro p _; simp only [Function.comp]; split <;> simp_all
  · simp

theorem isDict_set {a : Attrs} (h : IsDict a) (k : String) (v : Val) : IsDict (a.set k v) := by
  unfold IsDict at *
  rw [keys_set]
  split
  · exact h
  · rename_i hk
    apply nodup_append_singleton h
    intro hm; apply hk
    simp only [List.mem_map] at hm
    obtain ⟨p, hp, hpk⟩ := hm
    simp only [List.any_eq_true, decide_eq_true_eq]
    exact ⟨p, hp, hpk⟩

theorem isDict_update {a : Attrs} (h : IsDict a) (b : Attrs) : IsDict (a.update b) := by
  unfold Attrs.update
  induction b generalizing a with
  | nil => simpa
  | cons p t ih => simp only [List.foldl_cons]; exact ih (isDict_set h _ _)

/-- updating with a dict whose keys are all new appends it -/
theorem update_append (a b : Attrs) (h : IsDict (a ++ b)) : a.update b = a ++ b := by
  unfold Attrs.update
  induction b generalizing a with
  | nil => simp
  | cons p t ih =>
    simp only [List.foldl_cons]
    have hp : ¬ (a.any (fun q => q.1 = p.1)) = true := by
      intro hc
      simp only [List.any_eq_true, decide_eq_true_eq] at hc
      obtain ⟨q, hq, hqp⟩ := hc
      unfold IsDict at h
      simp only [List.map_append, List.map_cons] at h
      rw [List.nodup_append] at h
      exact h.2.2 q.1 (List.mem_map.mpr ⟨q, hq, rfl⟩) p.1 (by simp) hqp
    have hs : Attrs.set a p.1 p.2 = a ++ [p] := by unfold Attrs.set; rw [if_neg hp]
    rw [hs]
    have := ih (a ++ [p]) (by simpa using h)
    simpa using this

/-- `{}.update(d)` is `d` again (same keys, same values, same order) -/
theorem update_nil {a : Attrs} (h : IsDict a) : Attrs.update [] a = a := by
  simpa using update_append [] a (by simpa using h)

/-! ### `bulk` over a mapped list, with an invariant that knows the processed prefix -/

theorem bulk_map {α β : Type} (f : HG → β → HG × Outcome) (g : α → β) (s : HG) (l : List α) :
    bulk f s (l.map g) = bulk (fun s a => f s (g a)) s l := by
  induction l generalizing s with
  | nil => rfl
  | cons a t ih => simp only [List.map_cons, bulk, ih]

theorem bulk_prefix {α : Type} (f : HG → α → HG × Outcome) (P : HG → List α → Prop) (l : List α)
    (hstep : ∀ t done a rest, l = done ++ a :: rest → P t done → (f t a).2 = .ok ∧ P (f t a).1 (done ++ [a])) :
    ∀ (rest done : List α) (t : HG), l = done ++ rest → P t done →
      (bulk f t rest).2 = .ok ∧ P (bulk f t rest).1 l := by
  intro rest
  induction rest with
  | nil => intro done t hl hp; simp only [List.append_nil] at hl; subst hl; exact ⟨rfl, hp⟩
  | cons a rest ih =>
    intro done t hl hp
    obtain ⟨hok, hP⟩ := hstep t done a rest hl hp
    rcases hfa : f t a with ⟨t', o⟩
    rw [hfa] at hok hP
    simp only at hok hP
    subst hok
    have := ih (done ++ [a]) t' (by rw [hl]; simp) hP
    simp only [bulk, hfa]
    exact ⟨by rw [this.1]; rfl, this.2⟩

/-! ### stage 1: `add_nodes_from((n, attr) …)` on the empty network -/

/-- the state after the node prefix `done` of `s` has been added to the empty network -/
structure NodeStage (s t : HG) (done : List PyId) : Prop where
  nodes : t.nodes = done
  edges : t.edges = []
  eattrK : t.eattrK = []
  net : t.net = []
  uid : t.uid = 0
  frozen : t.frozen = false
  memb : ∀ n ∈ done, t.memb n = []
  nattr : ∀ n ∈ done, t.nattr n = s.nattr n
  nattrK : ∀ n, n ∈ t.nattrK ↔ n ∈ done

theorem nodeStage_empty (s : HG) : NodeStage s HG.empty [] := by
  constructor <;> simp [HG.empty]

theorem nodeStage_step {s t : HG} {done : List PyId} (h : NodeStage s t done) (n : PyId) (hn : n ∉ done)
    (hnone : n ≠ .none) (hd : IsDict (s.nattr n)) :
    (addNodesItem [] t (n, some (s.nattr n))).2 = .ok ∧
    NodeStage s (addNodesItem [] t (n, some (s.nattr n))).1 (done ++ [n]) := by
  obtain ⟨h1, h2, h3, h4, h5, h6, h7, h8, h9⟩ := h
  have hnt : n ∉ t.nodes := by rw [h1]; exact hn
  unfold addNodesItem
  simp only [hnone, false_and, if_false, update_nil hd]
  refine ⟨trivial, ?_⟩
  unfold updNodeAttr addNodeRaw
  rw [if_neg hnt]
  constructor <;> simp only []
  · rw [h1]
  · exact h2
  · exact h3
  · exact h4
  · exact h5
  · exact h6
  · intro m hm; simp only [upd_apply]; split
    · rfl
    · exact h7 m (by grind)
  · intro m hm; simp only [upd_apply]; split
    · rename_i hmn; subst hmn; simp [update_nil hd]
    · exact h8 m (by grind)
  · intro m; rw [mem_ins, h9]; simp; grind

theorem not_mem_of_nodup_split {α : Type} {l done rest : List α} {a : α} (hn : l.Nodup) (hl : l = done ++ a :: rest) :
    a ∉ done := by
  rw [hl, List.nodup_append] at hn
  intro ha
  exact hn.2.2 a ha a (by simp) rfl

theorem nodeStage_all {s : HG} (h : WF s) (ha : ∀ n, IsDict (s.nattr n)) :
    (addNodesFrom HG.empty (nodeItems s) []).2 = .ok ∧
    NodeStage s (addNodesFrom HG.empty (nodeItems s) []).1 s.nodes := by
  unfold addNodesFrom nodeItems
  rw [bulk_map]
  refine bulk_prefix (fun t n => addNodesItem [] t (n, some (s.nattr n))) (NodeStage s) s.nodes ?_
    s.nodes [] HG.empty (by simp) (nodeStage_empty s)
  intro t done a rest hl hp
  have h1 : a ∉ done := not_mem_of_nodup_split h.nodupN hl
  have h2 : a ≠ .none := by
    intro hc; apply h.noNoneN; rw [hl, ← hc]; simp
  exact nodeStage_step hp a h1 h2 (ha a)

/-! ### linking members that are already nodes -/

theorem link_of_mem (u : HG) (e n : PyId) (hn : n ∈ u.nodes) : link u e n = linkCore u e n := by
  unfold link addNodeRaw; rw [if_pos hn]

theorem foldl_link_char (ms : List PyId) (u : HG) (e : PyId) (hms : ∀ n ∈ ms, n ∈ u.nodes) :
    ∃ mb mm, ms.foldl (fun s n => link s e n) u = { u with memb := mb, mem := mm } ∧
      (∀ e' x, x ∈ mm e' ↔ x ∈ u.mem e' ∨ (e' = e ∧ x ∈ ms)) ∧
      (∀ n x, x ∈ mb n ↔ x ∈ u.memb n ∨ (x = e ∧ n ∈ ms)) := by
  induction ms generalizing u with
  | nil => exact ⟨u.memb, u.mem, rfl, by simp, by simp⟩
  | cons m ms ih =>
    simp only [List.foldl_cons]
    rw [link_of_mem u e m (hms m (by simp))]
    obtain ⟨mb, mm, heq, h1, h2⟩ := ih (linkCore u e m) (fun n hn => hms n (by simp [hn]))
    refine ⟨mb, mm, by rw [heq]; rfl, ?_, ?_⟩
    · intro e' x; rw [h1]; simp only [linkCore, upd_apply]; split <;> simp <;> grind
    · intro n x; rw [h2]; simp only [linkCore, upd_apply]; split <;> simp <;> grind

/-! ### stage 2: `add_edges_from((members, id, attr) …)` (format 4) on the result of stage 1 -/

/-- the counter is 0 or one more than some integer edge ID: nothing pushed it higher than necessary -/
def Tight (t : HG) : Prop := t.uid = 0 ∨ ∃ i : Int, PyId.int i ∈ t.edges ∧ (t.uid : Int) = i + 1

theorem bumpUid_eq (t : HG) (i : PyId) : bumpUid t i = { t with uid := (bumpUid t i).uid } := by
  unfold bumpUid; split
  · split <;> rfl
  · rfl

theorem tight_bump {t t' : HG} (h : Tight t) (e : PyId) (he : t'.edges = t.edges ++ [e]) (hu : t'.uid = t.uid) :
    Tight (bumpUid t' e) := by
  unfold Tight
  simp only [bumpUid_edges, he]
  unfold bumpUid
  split
  · rename_i i
    split
    · right; exact ⟨i, by simp, by simp only []; omega⟩
    · rcases h with h | ⟨j, hj, hju⟩
      · left; rw [hu]; exact h
      · right; exact ⟨j, by simp [hj], by rw [hu]; exact hju⟩
  · rcases h with h | ⟨j, hj, hju⟩
    · left; rw [hu]; exact h
    · right; exact ⟨j, by simp [hj], by rw [hu]; exact hju⟩

/-- the state after the edge prefix `done` of `s` has been added (all nodes of `s` are there already) -/
structure EdgeStage (s t : HG) (done : List PyId) : Prop where
  nodes : t.nodes = s.nodes
  edges : t.edges = done
  net : t.net = []
  frozen : t.frozen = false
  nattr : ∀ n ∈ s.nodes, t.nattr n = s.nattr n
  nattrK : ∀ n, n ∈ t.nattrK ↔ n ∈ s.nodes
  mem : ∀ e ∈ done, ∀ x, x ∈ t.mem e ↔ x ∈ s.mem e
  memb : ∀ n ∈ s.nodes, ∀ e, e ∈ t.memb n ↔ e ∈ done ∧ n ∈ s.mem e
  eattr : ∀ e ∈ done, t.eattr e = s.eattr e
  eattrK : ∀ e, e ∈ t.eattrK ↔ e ∈ done
  tight : Tight t

theorem edgeStage_of_nodeStage {s t : HG} (h : NodeStage s t s.nodes) : EdgeStage s t [] := by
  obtain ⟨h1, h2, h3, h4, h5, h6, h7, h8, h9⟩ := h
  constructor
  · exact h1
  · exact h2
  · exact h4
  · exact h6
  · exact h8
  · exact h9
  · intro e he; cases he
  · intro n hn e; rw [h7 n hn]; simp
  · intro e he; cases he
  · intro e; rw [h3]
  · left; exact h5

theorem edgeStage_step {s t : HG} {done : List PyId} (h : EdgeStage s t done) (e : PyId) (he : e ∉ done)
    (hnone : e ≠ .none) (hms : ∀ n ∈ s.mem e, n ∈ s.nodes) (hmn : PyId.none ∉ s.mem e) (hd : IsDict (s.eattr e)) :
    (addEdgesItem .f4 [] t { members := s.mem e, idx := some e, attr := s.eattr e }).2 = .ok ∧
    EdgeStage s (addEdgesItem .f4 [] t { members := s.mem e, idx := some e, attr := s.eattr e }).1 (done ++ [e]) := by
  obtain ⟨h1, h2, h3, h4, h5, h6, h7, h8, h9, h10, h11⟩ := h
  have het : e ∉ t.edges := by rw [h2]; exact he
  unfold addEdgesItem
  simp only [Fmt.explicit, if_true, Option.getD_some, het, if_false, hmn, hnone, false_or, reduceCtorEq,
    update_nil hd]
  refine ⟨trivial, ?_⟩
  -- the links
  have hms' : ∀ n ∈ dedup (s.mem e), n ∈ (updEdgeAttr (newEdgeAttr (newEdgeRaw t e) e) e (s.eattr e)).nodes := by
    intro n hn; rw [mem_dedup] at hn
    show n ∈ t.nodes
    rw [h1]; exact hms n hn
  obtain ⟨mb, mm, heq, hmm, hmb⟩ := foldl_link_char (dedup (s.mem e)) _ e hms'
  have hadd : addEdgeAt t e (dedup (s.mem e)) (s.eattr e) =
      { (updEdgeAttr (newEdgeAttr (newEdgeRaw t e) e) e (s.eattr e)) with memb := mb, mem := mm } := heq
  have htight : Tight (bumpUid (addEdgeAt t e (dedup (s.mem e)) (s.eattr e)) e) :=
    tight_bump h11 e (addEdgeAt_edges t e _ _).1 (addEdgeAt_edges t e _ _).2
  rw [bumpUid_eq] at htight ⊢
  generalize (bumpUid (addEdgeAt t e (dedup (s.mem e)) (s.eattr e)) e).uid = newUid at htight ⊢
  rw [hadd] at htight ⊢
  simp only [updEdgeAttr, newEdgeAttr, newEdgeRaw, upd_apply, mem_dedup] at hmm hmb htight ⊢
  constructor <;> (try simp only [])
  · exact h1
  · rw [h2]
  · exact h3
  · exact h4
  · exact h5
  · exact h6
  · intro e' he' x; rw [hmm]; grind
  · intro n hn e'; rw [hmb]; grind
  · intro e' he'; simp only [upd_apply]; split
    · rename_i hee; subst hee; simp [update_nil hd]
    · exact h9 e' (by grind)
  · intro e'; rw [mem_ins, h10]; simp; grind
  · exact htight

/-! ### the rebuild shared by `copy` and the constructor -/

/-- `add_nodes_from` then `add_edges_from` (format 4) on a new network -/
def rebuild (s : HG) : HG × Outcome :=
  andThen (addNodesFrom HG.empty (nodeItems s) []) (fun cp => addEdgesFrom cp .f4 (edgeItems s) [])

theorem copy_eq (s : HG) : copy s = ({ (rebuild s).1 with net := s.net, uid := s.uid }, (rebuild s).2) := rfl

theorem ofNetwork_eq (s : HG) (attr : Attrs) :
    ofNetwork s attr = ({ (rebuild s).1 with net := s.net.update attr }, (rebuild s).2) := rfl

theorem addEdgesFrom_f4 (t : HG) (items : List EdgeItem) (attr : Attrs) :
    addEdgesFrom t .f4 items attr = bulk (addEdgesItem .f4 attr) t items := by
  cases items <;> rfl

theorem rebuild_inv (s : HG) : Inv (rebuild s).1 := by
  unfold rebuild
  exact andThen_inv Inv _ _ (addNodesFrom_inv empty_inv _ _) (fun t ht => addEdgesFrom_inv ht _ _ _)

theorem rebuild_char {s : HG} (h : WF s) (ha : AttrsOK s) :
    (rebuild s).2 = .ok ∧ EdgeStage s (rebuild s).1 s.edges := by
  obtain ⟨hok, hns⟩ := nodeStage_all h ha.nattr
  have key : (addEdgesFrom (addNodesFrom HG.empty (nodeItems s) []).1 .f4 (edgeItems s) []).2 = .ok ∧
      EdgeStage s (addEdgesFrom (addNodesFrom HG.empty (nodeItems s) []).1 .f4 (edgeItems s) []).1 s.edges := by
    rw [addEdgesFrom_f4]
    unfold edgeItems
    rw [bulk_map]
    refine bulk_prefix (fun t e => addEdgesItem .f4 [] t { members := s.mem e, idx := some e, attr := s.eattr e })
      (EdgeStage s) s.edges ?_ s.edges [] _ (by simp) (edgeStage_of_nodeStage hns)
    intro t done e rest hl hp
    have he : e ∈ s.edges := by rw [hl]; simp
    have h1 : e ∉ done := not_mem_of_nodup_split h.nodupE hl
    have h2 : e ≠ .none := by intro hc; apply h.noNoneE; rw [← hc]; exact he
    have h3 : ∀ n ∈ s.mem e, n ∈ s.nodes := fun n hn => (h.e2n e he n hn).1
    have h4 : PyId.none ∉ s.mem e := fun hc => h.noNoneN (h3 _ hc)
    exact edgeStage_step hp e h1 h2 h3 h4 (ha.eattr e)
  unfold rebuild andThen
  rw [hok]
  simp only [Outcome.isErr, Bool.false_eq_true, if_false]
  exact ⟨by rw [key.1]; rfl, key.2⟩

theorem wf_with {t : HG} (h : WF t) (a : Attrs) (u : Nat) : WF { t with net := a, uid := u } := by
  obtain ⟨h1, h2, h3, h4, h5, h6, h7, h8, h9, h10, h11, h12⟩ := h
  constructor <;> simp only [] <;> assumption

/-- the rebuilt network, given the source's network attributes and any counter, shows the same network -/
theorem sameNet_of_edgeStage {s t : HG} (h : WF s) (hs : EdgeStage s t s.edges) (u : Nat) :
    SameNet s { t with net := s.net, uid := u } := by
  obtain ⟨h1, h2, h3, h4, h5, h6, h7, h8, h9, h10, h11⟩ := hs
  constructor <;> (try simp only [])
  · exact h1
  · exact h2
  · exact h7
  · intro n hn e; rw [h8 n hn]
    constructor
    · rintro ⟨he, hm⟩; exact (h.e2n e he n hm).2
    · intro hm; exact h.n2e n hn e hm
  · exact h5
  · exact h9
  · intro n; rw [h6, h.attrN]
  · intro e; rw [h10, h.attrE]

/-! ### the state-dict round trip -/

theorem lookupD_map {β : Type} (l : List PyId) (f : PyId → β) (d : β) (k : PyId) (hk : k ∈ l) :
    lookupD (l.map (fun n => (n, f n))) d k = f k := by
  unfold lookupD
  induction l with
  | nil => cases hk
  | cons a t ih =>
    simp only [List.map_cons, List.find?_cons]
    by_cases hak : a = k
    · subst hak; simp
    · simp only [hak, decide_false]
      have hk' : k ∈ t := by
        cases hk with
        | head => exact absurd rfl hak
        | tail _ hh => exact hh
      exact ih hk'

theorem map_fst_map {β : Type} (l : List PyId) (f : PyId → β) : (l.map (fun n => (n, f n))).map (·.1) = l := by
  rw [List.map_map]; simp [Function.comp_def]

/-- field by field: the unpickled network has the same keys in the same order and the same values at those keys -/
theorem pickle_char (s : HG) :
    (pickleRoundTrip s).nodes = s.nodes ∧ (pickleRoundTrip s).edges = s.edges ∧
    (pickleRoundTrip s).nattrK = s.nattrK ∧ (pickleRoundTrip s).eattrK = s.eattrK ∧
    (pickleRoundTrip s).net = s.net ∧ (pickleRoundTrip s).uid = s.uid ∧ (pickleRoundTrip s).frozen = false ∧
    (∀ n ∈ s.nodes, (pickleRoundTrip s).memb n = s.memb n) ∧ (∀ e ∈ s.edges, (pickleRoundTrip s).mem e = s.mem e) ∧
    (∀ n ∈ s.nattrK, (pickleRoundTrip s).nattr n = s.nattr n) ∧
    (∀ e ∈ s.eattrK, (pickleRoundTrip s).eattr e = s.eattr e) := by
  unfold pickleRoundTrip setState getState
  simp only [map_fst_map]
  refine ⟨trivial, trivial, trivial, trivial, trivial, trivial, trivial, ?_, ?_, ?_, ?_⟩ <;>
    intro k hk <;> exact lookupD_map _ _ _ k hk

theorem pickle_wf {s : HG} (h : WF s) : WF (pickleRoundTrip s) := by
  obtain ⟨p1, p2, p3, p4, p5, p6, p7, p8, p9, p10, p11⟩ := pickle_char s
  generalize pickleRoundTrip s = t at *
  obtain ⟨h1, h2, h3, h4, h5, h6, h7, h8, h9, h10, h11, h12⟩ := h
  constructor
  · rw [p1]; exact h1
  · rw [p2]; exact h2
  · rw [p1]; exact h3
  · rw [p2]; exact h4
  · rw [p1]; intro n hn e he; rw [p8 n hn] at he
    have := h5 n hn e he
    rw [p2, p9 e this.1]; exact this
  · rw [p2]; intro e he n hn; rw [p9 e he] at hn
    have := h6 e he n hn
    rw [p1, p8 n this.1]; exact this
  · rw [p1, p3]; exact h7
  · rw [p2, p4]; exact h8
  · rw [p3]; exact h9
  · rw [p4]; exact h10
  · rw [p1]; intro n hn; rw [p8 n hn]; exact h11 n hn
  · rw [p2]; intro e he; rw [p9 e he]; exact h12 e he

end HG
end Xgi
