/-
  C07 helper lemmas: every attribute dict of the model state stays a dict (no key twice) under the whole
  mutator alphabet — the representation invariant under which "same attribute dict" is an equality of
  key/value lists.
-/
import XgiModel.C07.LemmasCopy

namespace Xgi
namespace HG

theorem attrsOK_empty : AttrsOK HG.empty := ⟨fun _ => isDict_nil, fun _ => isDict_nil, isDict_nil⟩

/-- `AttrsOK` only looks at the three attribute tables -/
theorem attrsOK_of_eq {s t : HG} (h : AttrsOK s) (h1 : t.nattr = s.nattr) (h2 : t.eattr = s.eattr)
    (h3 : t.net = s.net) : AttrsOK t :=
  ⟨by rw [h1]; exact h.nattr, by rw [h2]; exact h.eattr, by rw [h3]; exact h.net⟩

theorem isDict_upd {f : PyId → Attrs} (hf : ∀ k, IsDict (f k)) (k : PyId) {a : Attrs} (ha : IsDict a) :
    ∀ j, IsDict (upd f k a j) := by
  intro j; simp only [upd_apply]; split
  · exact ha
  · exact hf j

/-! ### primitives -/

theorem addNodeRaw_attrs {s : HG} (h : AttrsOK s) (n : PyId) : AttrsOK (addNodeRaw s n) := by
  unfold addNodeRaw; split
  · exact h
  · exact ⟨isDict_upd h.nattr n isDict_nil, h.eattr, h.net⟩

theorem updNodeAttr_attrs {s : HG} (h : AttrsOK s) (n : PyId) (a : Attrs) : AttrsOK (updNodeAttr s n a) :=
  ⟨isDict_upd h.nattr n (isDict_update (h.nattr n) a), h.eattr, h.net⟩

theorem updEdgeAttr_attrs {s : HG} (h : AttrsOK s) (e : PyId) (a : Attrs) : AttrsOK (updEdgeAttr s e a) :=
  ⟨h.nattr, isDict_upd h.eattr e (isDict_update (h.eattr e) a), h.net⟩

theorem newEdge_attrs {s : HG} (h : AttrsOK s) (e : PyId) : AttrsOK (newEdgeAttr (newEdgeRaw s e) e) :=
  ⟨h.nattr, isDict_upd h.eattr e isDict_nil, h.net⟩

theorem link_attrs {s : HG} (h : AttrsOK s) (e n : PyId) : AttrsOK (link s e n) :=
  attrsOK_of_eq (addNodeRaw_attrs h n) rfl rfl rfl

theorem bumpUid_attrs {s : HG} (h : AttrsOK s) (i : PyId) : AttrsOK (bumpUid s i) := by
  rw [bumpUid_eq]; exact attrsOK_of_eq h rfl rfl rfl

theorem addEdgeAt_attrs {s : HG} (h : AttrsOK s) (e : PyId) (ms : List PyId) (a : Attrs) :
    AttrsOK (addEdgeAt s e ms a) := by
  unfold addEdgeAt
  exact foldl_inv AttrsOK _ (fun t n ht => link_attrs ht e n) ms (updEdgeAttr_attrs (newEdge_attrs h e) e a)

/-! ### public mutators -/

theorem addNode_attrs {s : HG} (h : AttrsOK s) (n : PyId) (a : Attrs) : AttrsOK (addNode s n a).1 := by
  unfold addNode; split
  · exact h
  · exact updNodeAttr_attrs (addNodeRaw_attrs h n) n a

theorem addNodesFrom_attrs {s : HG} (h : AttrsOK s) (items : List (PyId × Option Attrs)) (attr : Attrs) :
    AttrsOK (addNodesFrom s items attr).1 :=
  bulk_inv AttrsOK _ (fun t it ht => by
    obtain ⟨n, od⟩ := it
    unfold addNodesItem; simp only []; split
    · exact ht
    · exact updNodeAttr_attrs (addNodeRaw_attrs ht n) n _) items h

theorem removeNode_attrs {s : HG} (h : AttrsOK s) (n : PyId) (st re : Bool) : AttrsOK (removeNode s n st re).1 := by
  unfold removeNode; split
  · exact h
  · split
    · exact attrsOK_of_eq h rfl rfl rfl
    · exact attrsOK_of_eq h rfl rfl rfl

theorem removeNodesFrom_attrs {s : HG} (h : AttrsOK s) (ns : List PyId) (st re : Bool) :
    AttrsOK (removeNodesFrom s ns st re).1 :=
  bulk_inv AttrsOK _ (fun t a ht => by
    unfold removeNodesItem; split
    · exact ht
    · exact removeNode_attrs ht a st re) ns h

theorem addEdge_attrs {s : HG} (h : AttrsOK s) (ms : List PyId) (idx : Option PyId) (a : Attrs) :
    AttrsOK (addEdge s ms idx a).1 := by
  unfold addEdge; split
  · exact h
  · split
    · split
      · exact h
      · exact bumpUid_attrs (addEdgeAt_attrs h _ _ _) _
    · exact addEdgeAt_attrs (s := { s with uid := s.uid + 1 }) (attrsOK_of_eq h rfl rfl rfl) _ _ _

theorem addEdgesItem_attrs (fmt : Fmt) (attr : Attrs) (s : HG) (it : EdgeItem) (h : AttrsOK s) :
    AttrsOK (addEdgesItem fmt attr s it).1 := by
  unfold addEdgesItem
  by_cases hx : fmt.explicit = true
  · simp only [hx, if_true]
    split
    · exact h
    · split
      · exact h
      · exact bumpUid_attrs (addEdgeAt_attrs h _ _ _) _
  · simp only [hx]
    simp only [Bool.false_eq_true, if_false]
    have h' : AttrsOK { s with uid := s.uid + 1 } := attrsOK_of_eq h rfl rfl rfl
    split
    · exact h'
    · split
      · exact h'
      · exact addEdgeAt_attrs h' _ _ _

theorem addEdgesFrom_attrs {s : HG} (h : AttrsOK s) (fmt : Fmt) (items : List EdgeItem) (attr : Attrs) :
    AttrsOK (addEdgesFrom s fmt items attr).1 := by
  have key : AttrsOK (bulk (addEdgesItem fmt attr) s items).1 :=
    bulk_inv AttrsOK _ (fun t a ht => addEdgesItem_attrs fmt attr t a ht) items h
  unfold addEdgesFrom
  split
  · split
    · first | exact key | exact h
    · split
      · exact h
      · exact key
  · exact key

theorem addNodeToEdge_attrs {s : HG} (h : AttrsOK s) (e n : PyId) : AttrsOK (addNodeToEdge s e n).1 := by
  unfold addNodeToEdge; split
  · exact h
  · simp only []
    split
    · exact link_attrs h e n
    · exact link_attrs (bumpUid_attrs (newEdge_attrs h e) e) e n

theorem removeEdge_attrs (s : HG) (e : PyId) (h : AttrsOK s) : AttrsOK (removeEdge s e).1 := by
  unfold removeEdge; split
  · exact h
  · exact attrsOK_of_eq h rfl rfl rfl

theorem removeEdgesFrom_attrs {s : HG} (h : AttrsOK s) (es : List PyId) : AttrsOK (removeEdgesFrom s es).1 :=
  bulk_inv AttrsOK _ (fun t a ht => removeEdge_attrs t a ht) es h

theorem removeNodeFromEdge_attrs {s : HG} (h : AttrsOK s) (e n : PyId) (re : Bool) :
    AttrsOK (removeNodeFromEdge s e n re).1 := by
  unfold removeNodeFromEdge
  split
  · exact h
  · split
    · exact h
    · split
      · exact h
      · simp only []
        split
        · exact attrsOK_of_eq h rfl rfl rfl
        · exact attrsOK_of_eq h rfl rfl rfl

theorem setNodeAttrs_attrs {s : HG} (h : AttrsOK s) (arg : AttrArg) : AttrsOK (setNodeAttrs s arg).1 := by
  unfold setNodeAttrs
  cases arg with
  | dictName vals name =>
    exact bulk_inv AttrsOK _ (fun s p hs => by split <;> first | exact updNodeAttr_attrs hs _ _ | exact hs) vals h
  | constName v name => exact foldl_inv AttrsOK _ (fun s n hs => updNodeAttr_attrs hs _ _) _ h
  | dictOfDict vals =>
    exact bulk_inv AttrsOK _ (fun s p hs => by split <;> first | exact updNodeAttr_attrs hs _ _ | exact hs) vals h
  | badNoName => exact h

theorem setEdgeAttrs_attrs {s : HG} (h : AttrsOK s) (arg : AttrArg) : AttrsOK (setEdgeAttrs s arg).1 := by
  unfold setEdgeAttrs
  cases arg with
  | dictName vals name =>
    exact bulk_inv AttrsOK _ (fun s p hs => by split <;> first | exact updEdgeAttr_attrs hs _ _ | exact hs) vals h
  | constName v name => exact foldl_inv AttrsOK _ (fun s n hs => updEdgeAttr_attrs hs _ _) _ h
  | dictOfDict vals =>
    exact bulk_inv AttrsOK _ (fun s p hs => by split <;> first | exact updEdgeAttr_attrs hs _ _ | exact hs) vals h
  | badNoName => exact h

theorem setNetAttr_attrs {s : HG} (h : AttrsOK s) (k : String) (v : Val) : AttrsOK (setNetAttr s k v).1 :=
  ⟨h.nattr, h.eattr, isDict_set h.net k v⟩

theorem clear_attrs {s : HG} (h : AttrsOK s) (b : Bool) : AttrsOK (clear s b).1 := by
  refine ⟨h.nattr, h.eattr, ?_⟩
  unfold clear; simp only []; split
  · exact isDict_nil
  · exact h.net

theorem clearEdges_attrs {s : HG} (h : AttrsOK s) : AttrsOK (clearEdges s).1 := attrsOK_of_eq h rfl rfl rfl

theorem doubleEdgeSwap_attrs {s : HG} (h : AttrsOK s) (n1 n2 e1 e2 : PyId) :
    AttrsOK (doubleEdgeSwap s n1 n2 e1 e2).1 := by
  unfold doubleEdgeSwap
  split
  · exact h
  · split
    · exact h
    · simp only []
      split
      · exact h
      · split
        · exact h
        · exact attrsOK_of_eq h rfl rfl rfl

theorem randomEdgeShuffle_attrs {s : HG} (h : AttrsOK s) (e1 e2 : PyId) (choice : List PyId) (r : HG × Outcome)
    (hr : randomEdgeShuffle s e1 e2 choice = some r) : AttrsOK r.1 := by
  unfold randomEdgeShuffle at hr
  split at hr
  · cases hr; exact h
  · split at hr
    · cases hr; exact h
    · split at hr
      · cases hr; exact h
      · simp only [] at hr
        split at hr
        · cases hr
        · cases hr; exact attrsOK_of_eq h rfl rfl rfl

theorem update_attrs {s : HG} (h : AttrsOK s) (edges : Option (Fmt × List EdgeItem)) (nodes : List (PyId × Option Attrs)) :
    AttrsOK (update s edges nodes).1 := by
  unfold update
  apply andThen_inv AttrsOK
  · split
    · exact h
    · exact guardF_inv AttrsOK _ _ h (addNodesFrom_attrs h _ _)
  · intro t ht
    split
    · split
      · exact ht
      · exact guardF_inv AttrsOK _ _ ht (addEdgesFrom_attrs ht _ _ _)
    · exact ht

theorem mergeNewId_attrs (rename : Rename) {s : HG} (h : AttrsOK s) (g : List PyId) :
    AttrsOK (mergeNewId rename s g).1 := by
  unfold mergeNewId
  cases rename with
  | first => simp only []; split <;> exact h
  | tuple =>
    simp only []; split
    · split <;> exact h
    · exact h
  | new => exact attrsOK_of_eq h rfl rfl rfl
  | invalid => exact h

theorem mergeGroup_attrs (rename : Rename) (rule : MergeRule) (mult : Option String) {s : HG} (h : AttrsOK s)
    (g : List PyId) : AttrsOK (mergeGroup rename rule mult s g).1 := by
  cases g with
  | nil => exact h
  | cons r t =>
    simp only [mergeGroup]
    have := mergeNewId_attrs rename h (r :: t)
    split
    · rename_i heq; rw [heq] at this; exact this
    · rename_i heq; rw [heq] at this
      split <;> exact this

theorem mergeLoop_attrs (rename : Rename) (rule : MergeRule) (mult : Option String) (gs : List (List PyId))
    {s : HG} (h : AttrsOK s) (dups : List PyId) (news : List EdgeItem) :
    AttrsOK (mergeLoop rename rule mult s gs dups news).1 := by
  induction gs generalizing s dups news with
  | nil => simpa [mergeLoop]
  | cons g gs ih =>
    simp only [mergeLoop]
    split
    · exact ih h _ _
    · have := mergeGroup_attrs rename rule mult h g
      split
      · rename_i heq; rw [heq] at this; exact this
      · rename_i heq; rw [heq] at this; exact ih this _ _

theorem mergeDuplicateEdges_attrs {s : HG} (h : AttrsOK s) (rename : Rename) (rule : MergeRule) (mult : Option String)
    (r : HG × Outcome) (hr : mergeDuplicateEdges s rename rule mult = some r) : AttrsOK r.1 := by
  unfold mergeDuplicateEdges at hr
  have hl := mergeLoop_attrs rename rule mult (groupDups s) h [] []
  split at hr
  · cases hr
  · rename_i heq; rw [heq] at hl; cases hr; exact hl
  · rename_i heq; rw [heq] at hl; cases hr; exact hl
  · rename_i s' dups news heq
    rw [heq] at hl
    simp only [] at hr hl
    have h1 : AttrsOK (guardF s' (removeEdgesFrom s' dups)).1 := guardF_inv AttrsOK _ _ hl (removeEdgesFrom_attrs hl _)
    split at hr
    · cases hr; exact h1
    · have h2 : AttrsOK (guardF (guardF s' (removeEdgesFrom s' dups)).1
          (addEdgesFrom (guardF s' (removeEdgesFrom s' dups)).1 .f4 news [])).1 :=
        guardF_inv AttrsOK _ _ h1 (addEdgesFrom_attrs h1 _ _ _)
      split at hr
      · cases hr; exact h2
      · cases hr; exact h2

theorem lccInPlace_attrs {s : HG} (h : AttrsOK s) : AttrsOK (lccInPlace s).1 := by
  unfold lccInPlace
  exact guardF_inv AttrsOK _ _ h (removeNodesFrom_attrs h _ _ _)

theorem relabel_attrs {s : HG} (h : AttrsOK s) (l : String) : AttrsOK (relabel s l).1 := by
  unfold relabel
  simp only []
  split
  · exact h
  · exact setEdgeAttrs_attrs (addEdgesFrom_attrs (setNodeAttrs_attrs (addNodesFrom_attrs (clear_attrs h false) _ _) _) _ _ _) _

theorem cleanup_attrs {s : HG} (h : AttrsOK s) (a b c d e : Bool) (r : HG × Outcome)
    (hr : cleanup s a b c d e = some r) : AttrsOK r.1 := by
  unfold cleanup at hr
  simp only [Option.map_eq_some_iff] at hr
  obtain ⟨r0, hr0, hr⟩ := hr
  have h0 : AttrsOK r0.1 := by
    split at hr0
    · cases hr0; exact h
    · exact mergeDuplicateEdges_attrs h _ _ _ r0 hr0
  subst hr
  apply andThen_inv AttrsOK
  · apply andThen_inv AttrsOK
    · apply andThen_inv AttrsOK
      · apply andThen_inv AttrsOK _ _ h0
        intro t ht; split
        · exact ht
        · exact guardF_inv AttrsOK _ _ ht (removeEdgesFrom_attrs ht _)
      · intro t ht; split
        · exact ht
        · exact guardF_inv AttrsOK _ _ ht (removeNodesFrom_attrs ht _ _ _)
    · intro t ht; split
      · exact lccInPlace_attrs ht
      · exact ht
  · intro t ht; split
    · exact relabel_attrs ht _
    · exact ht

theorem stepCore_attrs {s : HG} (h : AttrsOK s) (op : Op) (r : HG × Outcome) (hr : stepCore s op = some r) :
    AttrsOK r.1 := by
  cases op <;> simp only [stepCore, Option.some.injEq] at hr
  case addNode n a => subst hr; exact addNode_attrs h n a
  case addNodesFrom items a => subst hr; exact addNodesFrom_attrs h items a
  case removeNode n st re => subst hr; exact removeNode_attrs h n st re
  case removeNodesFrom ns st re => subst hr; exact removeNodesFrom_attrs h ns st re
  case addEdge ms idx a => subst hr; exact addEdge_attrs h ms idx a
  case addEdgesFrom fmt items a => subst hr; exact addEdgesFrom_attrs h fmt items a
  case addNodeToEdge e n => subst hr; exact addNodeToEdge_attrs h e n
  case removeEdge e => subst hr; exact removeEdge_attrs s e h
  case removeEdgesFrom es => subst hr; exact removeEdgesFrom_attrs h es
  case removeNodeFromEdge e n re => subst hr; exact removeNodeFromEdge_attrs h e n re
  case setNodeAttrs arg => subst hr; exact setNodeAttrs_attrs h arg
  case setEdgeAttrs arg => subst hr; exact setEdgeAttrs_attrs h arg
  case setNetAttr k v => subst hr; exact setNetAttr_attrs h k v
  case doubleEdgeSwap n1 n2 e1 e2 => subst hr; exact doubleEdgeSwap_attrs h n1 n2 e1 e2
  case randomEdgeShuffle e1 e2 ch => exact randomEdgeShuffle_attrs h e1 e2 ch r hr
  case update es ns => subst hr; exact update_attrs h es ns
  case clear b => subst hr; exact clear_attrs h b
  case clearEdges => subst hr; exact clearEdges_attrs h
  case mergeDuplicateEdges rn rule m => exact mergeDuplicateEdges_attrs h rn rule m r hr
  case cleanup a b c d e => exact cleanup_attrs h a b c d e r hr
  case relabel l => subst hr; exact relabel_attrs h l
  case lccInPlace => subst hr; exact lccInPlace_attrs h
  case freeze => subst hr; exact attrsOK_of_eq h rfl rfl rfl

theorem step_attrs {s : HG} (h : AttrsOK s) (op : Op) (r : HG × Outcome) (hr : step s op = some r) : AttrsOK r.1 := by
  unfold step at hr
  split at hr
  · cases hr; exact h
  · exact stepCore_attrs h op r hr

end HG
end Xgi
