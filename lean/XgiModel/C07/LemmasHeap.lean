/-
  C07 helper lemmas about the heap model: reachability under agreement, one admissible write keeps the
  separation, soundness of the separation certificate.
-/
import XgiModel.C07.Heap

namespace Xgi.Heap
variable {π : Type}

theorem reach_mono_roots {h : Heap π} {R R' : List Nat} (hsub : ∀ a ∈ R, a ∈ R') {a : Nat}
    (hr : Reach h R a) : Reach h R' a := by
  induction hr with
  | root ha => exact .root (hsub _ ha)
  | step _ hc hb ih => exact .step ih hc hb

/-- a heap that agrees with `h` on everything `h` reaches from `R` reaches exactly the same cells from `R` -/
theorem reach_of_agree {h h' : Heap π} {R : List Nat} (hag : ∀ a, Reach h R a → h' a = h a) (a : Nat) :
    Reach h' R a ↔ Reach h R a := by
  constructor
  · intro hr
    induction hr with
    | root ha => exact .root ha
    | step _ hc hb ih => exact .step ih (by rw [← hag _ ih]; exact hc) hb
  · intro hr
    induction hr with
    | root ha => exact .root ha
    | step hra hc hb ih => exact .step ih (by rw [hag _ hra]; exact hc) hb

/-- in a closed heap with allocated roots every reachable address is allocated -/
theorem reach_isSome {h : Heap π} {R : List Nat} (hc : ∀ a c, h a = some c → ∀ b ∈ c.refs, (h b).isSome)
    (hr : ∀ a ∈ R, (h a).isSome) {a : Nat} (ha : Reach h R a) : (h a).isSome := by
  induction ha with
  | root ha => exact hr _ ha
  | step _ hac hb _ => exact hc _ _ hac _ hb

theorem isSome_upd {h : Heap π} {a y : Nat} {c : Cell π} (hy : (h y).isSome) : (upd h a (some c) y).isSome := by
  simp only [upd_apply]; split
  · rfl
  · exact hy

/-- after overwriting a reachable cell with reachable references nothing new becomes reachable -/
theorem reach_set_sub {h : Heap π} {R : List Nat} {a : Nat} {c : Cell π} (hrefs : ∀ b ∈ c.refs, Reach h R b)
    {x : Nat} (hx : Reach (upd h a (some c)) R x) : Reach h R x := by
  induction hx with
  | root ha => exact .root ha
  | @step y z cy _ hyc hz ih =>
    simp only [upd_apply] at hyc
    split at hyc
    · injection hyc with hyc; subst hyc; exact hrefs _ hz
    · exact .step ih hyc hz

/-- after allocating `a` (unused, not reachable) the new local reaches `a` and old reachable cells only -/
theorem reach_alloc_sub {h : Heap π} {R : List Nat} {a : Nat} {c : Cell π} (hrefs : ∀ b ∈ c.refs, Reach h R b)
    (hfresh : ∀ x, Reach h R x → x ≠ a) {x : Nat} (hx : Reach (upd h a (some c)) (a :: R) x) :
    x = a ∨ Reach h R x := by
  induction hx with
  | root ha =>
    rcases List.mem_cons.mp ha with h1 | h1
    · exact Or.inl h1
    · exact Or.inr (.root h1)
  | @step y z cy _ hyc hz ih =>
    simp only [upd_apply] at hyc
    rcases ih with ih | ih
    · subst ih; simp only [if_true] at hyc; injection hyc with hyc; subst hyc; exact Or.inr (hrefs _ hz)
    · rw [if_neg (hfresh _ ih)] at hyc; exact Or.inr (.step ih hyc hz)

theorem Sep.symm {h : Heap π} {A B : List Nat} (hs : Sep h A B) : Sep h B A :=
  ⟨hs.closed, hs.allocB, hs.allocA, fun a hb ha => hs.disj a ha hb⟩

/-- one admissible write through `A`: every cell reachable from `B` keeps its content, `B` reaches the same
    cells, and the separation (closed heap, allocated roots, disjoint reach sets) holds again -/
theorem sep_step {h : Heap π} {A B : List Nat} (hs : Sep h A B) (w : Write π) (hw : w.Ok h A) :
    (∀ b, Reach h B b → w.exec h b = h b) ∧ (∀ b, Reach (w.exec h) B b ↔ Reach h B b) ∧
    Sep (w.exec h) (w.roots A) B := by
  have hsomeA : ∀ x, Reach h A x → (h x).isSome := fun x hx => reach_isSome hs.closed hs.allocA hx
  have hsomeB : ∀ x, Reach h B x → (h x).isSome := fun x hx => reach_isSome hs.closed hs.allocB hx
  cases w with
  | set a c =>
    obtain ⟨hra, _, hrefs⟩ := hw
    have h1 : ∀ b, Reach h B b → upd h a (some c) b = h b := by
      intro b hb
      have : b ≠ a := fun hba => hs.disj a hra (hba ▸ hb)
      simp [upd_apply, this]
    have h2 := reach_of_agree h1
    refine ⟨h1, h2, ?_⟩
    simp only [Write.exec, Write.roots]
    refine ⟨?_, fun x hx => isSome_upd (hs.allocA x hx), fun x hx => isSome_upd (hs.allocB x hx), ?_⟩
    · intro x cx hx y hy
      simp only [upd_apply] at hx
      split at hx
      · injection hx with hx; subst hx; exact isSome_upd (hsomeA _ (hrefs _ hy))
      · exact isSome_upd (hs.closed x cx hx y hy)
    · intro x hxa hxb
      exact hs.disj x (reach_set_sub hrefs hxa) ((h2 x).mp hxb)
  | alloc a c =>
    obtain ⟨hnone, hrefs⟩ := hw
    have hne : ∀ (R : List Nat), (∀ r ∈ R, (h r).isSome) → ∀ x, Reach h R x → x ≠ a := by
      intro R hR x hx hxa
      have := reach_isSome hs.closed hR hx
      rw [hxa, hnone] at this; cases this
    have h1 : ∀ b, Reach h B b → upd h a (some c) b = h b := by
      intro b hb
      simp [upd_apply, hne B hs.allocB b hb]
    have h2 := reach_of_agree h1
    refine ⟨h1, h2, ?_⟩
    simp only [Write.exec, Write.roots]
    refine ⟨?_, ?_, fun x hx => isSome_upd (hs.allocB x hx), ?_⟩
    · intro x cx hx y hy
      simp only [upd_apply] at hx
      split at hx
      · injection hx with hx; subst hx; exact isSome_upd (hsomeA _ (hrefs _ hy))
      · exact isSome_upd (hs.closed x cx hx y hy)
    · intro x hx
      rcases List.mem_cons.mp hx with hx | hx
      · subst hx; simp [upd_apply]
      · exact isSome_upd (hs.allocA x hx)
    · intro x hxa hxb
      have hxb' := (h2 x).mp hxb
      rcases reach_alloc_sub hrefs (hne A hs.allocA) hxa with hx | hx
      · exact hne B hs.allocB x hxb' hx
      · exact hs.disj x hx hxb'

theorem roots_sub_after (R : List Nat) (ws : List (Write π)) : ∀ a ∈ R, a ∈ rootsAfter R ws := by
  induction ws generalizing R with
  | nil => intro a ha; exact ha
  | cons w ws ih =>
    intro a ha
    simp only [rootsAfter, List.foldl_cons]
    apply ih
    cases w with
    | set _ _ => exact ha
    | alloc _ _ => exact List.mem_cons_of_mem _ ha

/-- the observation trees from a reachable start agree when the heaps agree on the reachable cells -/
theorem view_agree {h h' : Heap π} {R : List Nat} (hag : ∀ b, Reach h R b → h' b = h b) :
    ∀ (n b : Nat), Reach h R b → view h' n b = view h n b := by
  intro n
  induction n with
  | zero => intro b _; rfl
  | succ n ih =>
    intro b hb
    simp only [view, hag b hb]
    cases hc : h b with
    | none => rfl
    | some c =>
      simp only []
      congr 1
      apply List.map_congr_left
      intro r hr
      exact ih r (.step hb hc hr)

/-! ### certificates for concrete heaps -/

theorem ofList_some_mem {l : List (Nat × Cell π)} {a : Nat} {c : Cell π} (h : ofList l a = some c) :
    ∃ p ∈ l, p.2 = c := by
  unfold ofList at h
  cases hf : l.find? (fun p => p.1 = a) with
  | none => rw [hf] at h; cases h
  | some p =>
    rw [hf] at h; simp only [Option.map_some, Option.some.injEq] at h
    exact ⟨p, List.mem_of_find?_eq_some hf, h⟩

/-- a set that contains the roots and is closed under the references of its (allocated) elements contains
    everything reachable, and everything reachable is allocated -/
theorem reach_sub_of_checkClosed {l : List (Nat × Cell π)} {roots S : List Nat}
    (hc : checkClosed l roots S = true) {a : Nat} (ha : Reach (ofList l) roots a) : a ∈ S := by
  unfold checkClosed at hc
  simp only [Bool.and_eq_true, List.all_eq_true, decide_eq_true_eq] at hc
  induction ha with
  | root hr => exact hc.1 _ hr
  | @step x y cx _ hxc hy ih =>
    have := hc.2 x ih
    rw [hxc] at this
    simp only [List.all_eq_true, decide_eq_true_eq] at this
    exact this y hy

theorem isSome_of_checkClosed {l : List (Nat × Cell π)} {roots S : List Nat}
    (hc : checkClosed l roots S = true) {a : Nat} (ha : a ∈ S) : (ofList l a).isSome := by
  unfold checkClosed at hc
  simp only [Bool.and_eq_true, List.all_eq_true] at hc
  have := hc.2 a ha
  cases hx : ofList l a with
  | none => rw [hx] at this; cases this
  | some c => rfl

theorem sep_of_checkSep {l : List (Nat × Cell π)} {A B SA SB : List Nat} (hc : checkSep l A B SA SB = true) :
    Sep (ofList l) A B := by
  unfold checkSep at hc
  simp only [Bool.and_eq_true] at hc
  obtain ⟨⟨⟨hA, hB⟩, hdis⟩, hcl⟩ := hc
  refine ⟨?_, ?_, ?_, ?_⟩
  · intro a c hac b hb
    obtain ⟨p, hp, hpc⟩ := ofList_some_mem hac
    simp only [List.all_eq_true] at hcl
    have := hcl p hp b (hpc ▸ hb)
    exact this
  · intro a ha
    have hAc := hA
    unfold checkClosed at hA
    simp only [Bool.and_eq_true, List.all_eq_true, decide_eq_true_eq] at hA
    exact isSome_of_checkClosed hAc (hA.1 a ha)
  · intro b hb
    have hBc := hB
    unfold checkClosed at hB
    simp only [Bool.and_eq_true, List.all_eq_true, decide_eq_true_eq] at hB
    exact isSome_of_checkClosed hBc (hB.1 b hb)
  · intro a haA haB
    have h1 := reach_sub_of_checkClosed hA haA
    have h2 := reach_sub_of_checkClosed hB haB
    simp only [List.all_eq_true, Bool.not_eq_true', decide_eq_false_iff_not] at hdis
    exact hdis a h1 h2

end Xgi.Heap
