/-
  C12 — helper lemmas: the model's matrices in functional form
  (`M = nodes.map (fun n => nodes.map (fun m => F n m))`) and the list-sum algebra behind the theorems of
  Props/C12.lean.  Also the small vocabulary the theorem statements use (`ent`, `qdot`, `quadQ`, `pairs`).
-/
import XgiModel.C12.Linalg
import Mathlib.Algebra.BigOperators.Ring.List
import Mathlib.Algebra.Order.Field.Rat
import Mathlib.Algebra.Order.BigOperators.Group.List
import Mathlib.Tactic.Ring
import Mathlib.Tactic.Linarith
import Mathlib.Tactic.Positivity

set_option linter.unnecessarySeqFocus false

namespace Xgi.C12
open Xgi

/-! ### vocabulary of the statements -/

/-- entry (i, k) of a matrix given as a list of rows (0 outside the matrix) -/
def ent {α : Type} [Zero α] (M : List (List α)) (i k : Nat) : α := (M.getD i []).getD k 0

/-- all unordered pairs {l_i, l_j}, i < j, of a list -/
def pairs {α : Type} : List α → List (α × α)
  | [] => []
  | a :: t => t.map (fun b => (a, b)) ++ pairs t

/-- dot product of rational vectors -/
def qdot (a b : List ℚ) : ℚ := (List.zipWith (· * ·) a b).sum
/-- the quadratic form xᵀ M x -/
def quadQ (M : QMat) (x : List ℚ) : ℚ := qdot x (M.map (fun r => qdot r x))

/-- number of edges of `es` containing n -/
def deg (es : List (PyId × List PyId)) (n : PyId) : Int := (es.map (ind n)).sum
/-- number of edges of `es` containing both n and m -/
def cnt (es : List (PyId × List PyId)) (n m : PyId) : Int := (es.map (fun p => ind n p * ind m p)).sum

/-! ### generic list lemmas -/

theorem zipWith_map_same {α β γ δ : Type} (F : β → γ → δ) (f : α → β) (g : α → γ) (l : List α) :
    List.zipWith F (l.map f) (l.map g) = l.map (fun a => F (f a) (g a)) := by
  induction l with
  | nil => rfl
  | cons a t ih => simp [ih]

theorem dot_map_map {α : Type} (l : List α) (f g : α → Int) :
    dot (l.map f) (l.map g) = (l.map (fun a => f a * g a)).sum := by
  unfold dot; rw [zipWith_map_same]

theorem qdot_map_map {α : Type} (l : List α) (f g : α → ℚ) :
    qdot (l.map f) (l.map g) = (l.map (fun a => f a * g a)).sum := by
  unfold qdot; rw [zipWith_map_same]

theorem ent_map_map {α β γ : Type} [Zero γ] (l1 : List α) (l2 : List β) (F : α → β → γ) (i k : Nat)
    (hi : i < l1.length) (hk : k < l2.length) :
    ent (l1.map (fun a => l2.map (F a))) i k = F l1[i] l2[k] := by
  simp [ent, List.getD_eq_getElem?_getD, hi, hk]

theorem ent_map_map_oob {α β γ : Type} [Zero γ] (l1 : List α) (l2 : List β) (F : α → β → γ) (i k : Nat)
    (h : ¬ (i < l1.length ∧ k < l2.length)) :
    ent (l1.map (fun a => l2.map (F a))) i k = 0 := by
  simp only [ent, List.getD_eq_getElem?_getD, List.getElem?_map]
  by_cases hi : i < l1.length
  · have hk : ¬ k < l2.length := fun hk => h ⟨hi, hk⟩
    simp [hi, hk]
  · simp [hi]

/-- a vector indexed by a duplicate-free label list is a function of the labels -/
theorem exists_fun_of_list {β : Type} [Inhabited β] (l : List PyId) (hl : l.Nodup) (xs : List β)
    (hx : xs.length = l.length) : ∃ x : PyId → β, l.map x = xs := by
  induction l generalizing xs with
  | nil => cases xs with
    | nil => exact ⟨fun _ => default, rfl⟩
    | cons _ _ => simp at hx
  | cons a t ih =>
    cases xs with
    | nil => simp at hx
    | cons v vs =>
      have hx' : vs.length = t.length := by simpa using hx
      rw [List.nodup_cons] at hl
      obtain ⟨x, hxs⟩ := ih hl.2 vs hx'
      refine ⟨fun n => if n = a then v else x n, ?_⟩
      simp only [List.map_cons, if_true]
      congr 1
      rw [← hxs]
      apply List.map_congr_left
      intro b hb
      have : b ≠ a := fun e => hl.1 (e ▸ hb)
      simp [this]

/-! ### sums over a duplicate-free label list -/

section sums
variable {R : Type} [CommRing R]

theorem sum_map_ite_eq (l : List PyId) (hl : l.Nodup) (n : PyId) (hn : n ∈ l) (f : PyId → R) :
    (l.map (fun m => if n = m then f m else 0)).sum = f n := by
  induction l with
  | nil => simp at hn
  | cons a t ih =>
    rw [List.nodup_cons] at hl
    simp only [List.map_cons, List.sum_cons]
    by_cases h : n = a
    · subst h
      have : (t.map (fun m => if n = m then f m else 0)) = t.map (fun _ => (0 : R)) := by
        apply List.map_congr_left; intro b hb
        have : n ≠ b := fun e => hl.1 (e ▸ hb)
        simp [this]
      simp [this]
    · have hn' : n ∈ t := by simpa [h] using hn
      simp [h, ih hl.2 hn']

theorem sum_map_ite_not (l : List PyId) (n : PyId) (hn : n ∉ l) (f : PyId → R) :
    (l.map (fun m => if n = m then f m else 0)).sum = 0 := by
  have : (l.map (fun m => if n = m then f m else 0)) = l.map (fun _ => (0 : R)) := by
    apply List.map_congr_left; intro b hb
    have : n ≠ b := fun e => hn (e ▸ hb)
    simp [this]
  simp [this]

/-- Σ_{n ∈ nodes} [n ∈ mem] · f n = Σ_{a ∈ mem} f a for a duplicate-free `mem ⊆ nodes` -/
theorem sum_ind_mem (l : List PyId) (hl : l.Nodup) (mem : List PyId) (hm : mem.Nodup)
    (hsub : ∀ a ∈ mem, a ∈ l) (f : PyId → R) :
    (l.map (fun n => (if n ∈ mem then (1 : R) else 0) * f n)).sum = (mem.map f).sum := by
  induction mem with
  | nil => simp
  | cons a t ih =>
    rw [List.nodup_cons] at hm
    have hsplit : (l.map (fun n => (if n ∈ a :: t then (1 : R) else 0) * f n))
        = l.map (fun n => (if a = n then f n else 0) + (if n ∈ t then (1 : R) else 0) * f n) := by
      apply List.map_congr_left; intro b _
      by_cases hb : a = b
      · subst hb; simp [hm.1]
      · have : b ≠ a := fun e => hb e.symm
        simp [hb, this]
    rw [hsplit, List.sum_map_add, sum_map_ite_eq l hl a (hsub a (by simp)) f,
      ih hm.2 (fun x hx => hsub x (by simp [hx]))]
    simp

theorem sum_map_sum_comm {α β : Type} (l1 : List α) (l2 : List β) (f : α → β → R) :
    (l1.map (fun a => (l2.map (fun b => f a b)).sum)).sum = (l2.map (fun b => (l1.map (fun a => f a b)).sum)).sum := by
  induction l1 with
  | nil => simp
  | cons a t ih => simp [List.sum_map_add, ih]

end sums

/-! ### the indicator, degrees and counts -/

theorem ind_mul_self (n : PyId) (p : PyId × List PyId) : ind n p * ind n p = ind n p := by
  unfold ind; split <;> simp

theorem ind_nonneg (n : PyId) (p : PyId × List PyId) : 0 ≤ ind n p := by
  unfold ind; split <;> simp

theorem cnt_self (es : List (PyId × List PyId)) (n : PyId) : cnt es n n = deg es n := by
  unfold cnt deg; simp [ind_mul_self]

theorem cnt_comm (es : List (PyId × List PyId)) (n m : PyId) : cnt es n m = cnt es m n := by
  unfold cnt; congr 1; apply List.map_congr_left; intro p _; ring

theorem cnt_nonneg (es : List (PyId × List PyId)) (n m : PyId) : 0 ≤ cnt es n m := by
  unfold cnt; apply List.sum_nonneg; intro x hx
  simp only [List.mem_map] at hx
  obtain ⟨p, _, rfl⟩ := hx
  exact mul_nonneg (ind_nonneg _ _) (ind_nonneg _ _)

theorem deg_eq_length_filter (es : List (PyId × List PyId)) (n : PyId) :
    deg es n = ((es.filter (fun p => decide (n ∈ p.2))).length : Int) := by
  unfold deg
  induction es with
  | nil => simp
  | cons p t ih =>
    simp only [List.map_cons, List.sum_cons, List.filter_cons]
    rw [ih]
    by_cases h : n ∈ p.2 <;> simp [h, ind] <;> ring

theorem cnt_eq_length_filter (es : List (PyId × List PyId)) (n m : PyId) :
    cnt es n m = ((es.filter (fun p => decide (n ∈ p.2 ∧ m ∈ p.2))).length : Int) := by
  unfold cnt
  induction es with
  | nil => simp
  | cons p t ih =>
    simp only [List.map_cons, List.sum_cons, List.filter_cons]
    rw [ih]
    by_cases h1 : n ∈ p.2 <;> by_cases h2 : m ∈ p.2 <;> simp [h1, h2, ind] <;> ring

/-- column sum of the incidence matrix = size of the edge (members are distinct nodes) -/
theorem colsum_eq_length (nodes : List PyId) (hN : nodes.Nodup) (p : PyId × List PyId) (hp : p.2.Nodup)
    (hsub : ∀ a ∈ p.2, a ∈ nodes) : (nodes.map (fun n => ind n p)).sum = (p.2.length : Int) := by
  have := sum_ind_mem (R := Int) nodes hN p.2 hp hsub (fun _ => 1)
  simp only [mul_one] at this
  unfold ind
  rw [this]; simp

end Xgi.C12
