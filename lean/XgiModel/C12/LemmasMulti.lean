/-
  C12 — the rational order-d Laplacian and the multi-order Laplacian: the invariant `Good` (functional
  form with zero row sums, symmetry and, optionally, a non-negative quadratic form) is established for
  every term and preserved by the accumulation loop.
-/
import XgiModel.C12.LemmasLap

set_option linter.unnecessarySeqFocus false

namespace Xgi.C12
open Xgi

/-- the edges of the requested order have duplicate-free node members and exactly d+1 of them -/
theorem edgesOf_some_good (h : Net) (hwf : h.WF) (d : Nat) :
    ∀ p ∈ edgesOf h (some d), p.2.Nodup ∧ (∀ a ∈ p.2, a ∈ h.nodes) ∧ p.2.length = d + 1 := by
  intro p hp
  simp only [edgesOf, List.mem_filter, beq_iff_eq] at hp
  exact ⟨(hwf.2.2 p hp.1).1, (hwf.2.2 p hp.1).2, hp.2⟩

theorem edgesOf_good (h : Net) (hwf : h.WF) (o : Option Nat) :
    ∀ p ∈ edgesOf h o, p ∈ h.edges ∧ p.2.Nodup ∧ (∀ a ∈ p.2, a ∈ h.nodes) := by
  intro p hp
  have hm : p ∈ h.edges := by
    cases o with
    | none => exact hp
    | some d => simp only [edgesOf, List.mem_filter] at hp; exact hp.1
  exact ⟨hm, (hwf.2.2 p hm).1, (hwf.2.2 p hm).2⟩

/-- X is `N.map (N.map G)` for a symmetric G with zero row sums (and, if `psd`, xᵀGx ≥ 0) -/
def Good (psd : Bool) (N : List PyId) (X : QMat) : Prop :=
  ∃ G : PyId → PyId → ℚ, X = N.map (fun n => N.map (G n)) ∧ (∀ n ∈ N, (N.map (G n)).sum = 0) ∧
    (∀ n m, G n m = G m n) ∧ (psd = true → ∀ x, 0 ≤ quadF N G x)

theorem good_zeros (psd : Bool) (N : List PyId) : Good psd N (zerosQ N.length N.length) := by
  refine ⟨fun _ _ => 0, ?_, ?_, ?_, ?_⟩
  · unfold zerosQ; simp [List.map_const']
  · intro n _; simp
  · intro n m; rfl
  · intro _ x; rw [quadF_zero]

theorem good_add (psd : Bool) (N : List PyId) (X Y : QMat) (hX : Good psd N X) (hY : Good psd N Y) :
    Good psd N (addQ X Y) := by
  obtain ⟨G1, rfl, r1, s1, p1⟩ := hX
  obtain ⟨G2, rfl, r2, s2, p2⟩ := hY
  refine ⟨fun n m => G1 n m + G2 n m, ?_, ?_, ?_, ?_⟩
  · unfold addQ; rw [zipWith_map_same]
    apply List.map_congr_left; intro n _
    rw [zipWith_map_same]
  · intro n hn; rw [List.sum_map_add, r1 n hn, r2 n hn]; simp
  · intro n m; show G1 n m + G2 n m = G1 m n + G2 m n; rw [s1 n m, s2 n m]
  · intro hp x; rw [quadF_add]; exact add_nonneg (p1 hp x) (p2 hp x)

theorem good_scale (psd : Bool) (N : List PyId) (X : QMat) (w m : ℚ) (hX : Good psd N X)
    (hc : psd = true → 0 ≤ w / m) : Good psd N (scaleQ w m X) := by
  obtain ⟨G, rfl, r, s, p⟩ := hX
  refine ⟨fun n k => G n k * (w / m), ?_, ?_, ?_, ?_⟩
  · unfold scaleQ; rw [List.map_map]
    apply List.map_congr_left; intro n _
    simp only [Function.comp_apply, List.map_map]
    apply List.map_congr_left; intro k _
    simp only [Function.comp_apply]; ring
  · intro n hn; rw [List.sum_map_mul_right, r n hn]; simp
  · intro n k; show G n k * (w / m) = G k n * (w / m); rw [s n k]
  · intro hp x; rw [quadF_smul]; exact mul_nonneg (p hp x) (hc hp)

/-! ### the rational order-d Laplacian -/

theorem laplacianInt_isEmpty (h : Net) (hN : h.nodes.Nodup) (d : Nat) :
    (laplacianInt h d).1.isEmpty = true ↔ h.nodes = [] := by
  rw [laplacianInt_eq h hN]; simp

/-- functional form of `laplacian h d rescale` -/
theorem laplacian_eq (h : Net) (hN : h.nodes.Nodup) (d : Nat) (rescale : Bool) (L : QMat × List PyId)
    (hL : laplacian h d rescale = some L) :
    L.1 = h.nodes.map (fun n => h.nodes.map (fun m =>
        ((lapF (edgesOf h (some d)) d n m : Int) : ℚ) * (if rescale then ((d : ℚ))⁻¹ else 1))) ∧
      (rescale = true → h.nodes ≠ [] → d ≠ 0) := by
  unfold laplacian at hL
  dsimp only at hL
  by_cases hn : h.nodes = []
  · have he : (laplacianInt h d).1.isEmpty = true := (laplacianInt_isEmpty h hN d).mpr hn
    simp only [he, if_true, Option.some.injEq] at hL
    subst hL
    simp [hn]
  · have he : (laplacianInt h d).1.isEmpty = false := by
      cases hc : (laplacianInt h d).1.isEmpty
      · rfl
      · exact absurd ((laplacianInt_isEmpty h hN d).mp hc) hn
    simp only [he, Bool.false_eq_true, if_false] at hL
    cases rescale with
    | false =>
      simp only [Bool.false_eq_true, if_false, Option.some.injEq] at hL
      subst hL
      refine ⟨?_, by simp⟩
      rw [laplacianInt_eq h hN]
      simp [List.map_map]
    | true =>
      simp only [if_true] at hL
      by_cases hd : d = 0
      · simp [hd] at hL
      · simp only [hd, if_false, Option.some.injEq] at hL
        subst hL
        refine ⟨?_, fun _ _ => hd⟩
        rw [laplacianInt_eq h hN]
        rw [List.map_map]
        apply List.map_congr_left; intro n _
        simp only [Function.comp_apply, List.map_map, if_true]
        apply List.map_congr_left; intro m _
        simp only [Function.comp_apply]
        rw [div_eq_mul_inv]

theorem cast_sum_map {α : Type} (l : List α) (f : α → Int) :
    (((l.map f).sum : Int) : ℚ) = (l.map (fun a => ((f a : Int) : ℚ))).sum := by
  induction l with
  | nil => simp
  | cons a t ih => simp only [List.map_cons, List.sum_cons]; push_cast; rw [ih]

theorem laplacian_good (h : Net) (hwf : h.WF) (d : Nat) (rescale : Bool) (L : QMat × List PyId)
    (hL : laplacian h d rescale = some L) : Good true h.nodes L.1 := by
  obtain ⟨hform, hd⟩ := laplacian_eq h hwf.1 d rescale L hL
  have hes := edgesOf_some_good h hwf d
  refine ⟨_, hform, ?_, ?_, ?_⟩
  · intro n hn
    rw [List.sum_map_mul_right]
    have := lapF_rowsum h.nodes hwf.1 n hn (edgesOf h (some d)) d hes
    have hc : (h.nodes.map (fun m => ((lapF (edgesOf h (some d)) d n m : Int) : ℚ))).sum
        = (((h.nodes.map (fun m => lapF (edgesOf h (some d)) d n m)).sum : Int) : ℚ) := by
      rw [cast_sum_map]
    rw [hc, this]; simp
  · intro n m; rw [lapF_symm]
  · intro _ x
    rw [quadF_smul]
    apply mul_nonneg (lapF_quad_nonneg h.nodes hwf.1 _ d hes x)
    split
    · positivity
    · norm_num

/-! ### the accumulation loop of the multi-order Laplacian -/

theorem mean_nonneg (K : List Int) (hK : ∀ k ∈ K, 0 ≤ k) : 0 ≤ mean K := by
  unfold mean
  apply div_nonneg
  · exact_mod_cast List.sum_nonneg hK
  · positivity

theorem multiStep_good (psd : Bool) (N : List PyId) (acc : QMat) (t : QMat × List Int × ℚ)
    (ha : Good psd N acc) (ht : Good psd N t.1) (hc : psd = true → 0 ≤ t.2.2 / mean t.2.1) :
    Good psd N (multiStep acc t) := by
  unfold multiStep
  split
  · exact ha
  · exact good_add psd N _ _ ha (good_scale psd N _ _ _ ht hc)

theorem foldl_multiStep_good (psd : Bool) (N : List PyId) (ts : List (QMat × List Int × ℚ)) (acc : QMat)
    (ha : Good psd N acc)
    (ht : ∀ t ∈ ts, Good psd N t.1 ∧ (psd = true → 0 ≤ t.2.2 / mean t.2.1)) :
    Good psd N (ts.foldl multiStep acc) := by
  induction ts generalizing acc with
  | nil => exact ha
  | cons t r ih =>
    simp only [List.foldl_cons]
    apply ih
    · exact multiStep_good psd N acc t ha (ht t (by simp)).1 (ht t (by simp)).2
    · intro u hu; exact ht u (by simp [hu])

theorem mapM_some_mem {α β : Type} (f : α → Option β) (l : List α) (r : List β) (h : l.mapM f = some r) :
    ∀ y ∈ r, ∃ x ∈ l, f x = some y := by
  induction l generalizing r with
  | nil => simp at h; subst h; simp
  | cons a t ih =>
    rw [List.mapM_cons] at h
    cases ha : f a with
    | none => simp [ha] at h
    | some b =>
      cases ht : t.mapM f with
      | none => simp [ha, ht] at h
      | some r' =>
        simp [ha, ht] at h
        subst h
        intro y hy
        rcases List.mem_cons.mp hy with rfl | hy
        · exact ⟨a, by simp, ha⟩
        · obtain ⟨x, hx, hfx⟩ := ih r' ht y hy
          exact ⟨x, by simp [hx], hfx⟩

theorem degreeVec_nonneg (h : Net) (o : Option Nat) : ∀ k ∈ (degreeVec h o).1, 0 ≤ k := by
  rw [degreeVec_eq]
  intro k hk
  simp only [List.mem_map] at hk
  obtain ⟨n, _, rfl⟩ := hk
  rw [deg_eq_length_filter]; positivity

/-- the multi-order Laplacian is `Good`: always symmetric with zero row sums; with non-negative weights
    also positive semidefinite -/
theorem multiorder_good (psd : Bool) (h : Net) (hwf : h.WF) (orders : List Nat) (weights : List ℚ) (rescale : Bool)
    (hw : psd = true → ∀ w ∈ weights, 0 ≤ w) (L : QMat × List PyId)
    (hL : multiorder h orders weights rescale = .ok L) : Good psd h.nodes L.1 ∧ L.2 = h.nodes := by
  unfold multiorder at hL
  split at hL
  · cases hL
  · split at hL
    · cases hL
    · rename_i Ls hLs
      simp only [Res.ok.injEq] at hL
      subst hL
      refine ⟨?_, rfl⟩
      apply foldl_multiStep_good psd h.nodes _ _ (good_zeros psd h.nodes)
      intro t ht
      have h1 := (List.of_mem_zip ht).1
      have h2 := (List.of_mem_zip (List.of_mem_zip ht).2)
      constructor
      · simp only [List.mem_map] at h1
        obtain ⟨L0, hL0, hEq⟩ := h1
        rw [← hEq]
        obtain ⟨d, _, hd⟩ := mapM_some_mem _ _ _ hLs L0 hL0
        obtain ⟨G, e, r, s, p⟩ := laplacian_good h hwf d rescale L0 hd
        exact ⟨G, e, r, s, fun _ => p rfl⟩
      · intro hp
        apply div_nonneg (hw hp _ h2.2)
        apply mean_nonneg
        have := h2.1
        simp only [List.mem_map] at this
        obtain ⟨d, _, hEq⟩ := this
        rw [← hEq]
        exact degreeVec_nonneg h (some d)

/-! ### from `Good` to statements about the matrix itself -/

theorem good_rows (psd : Bool) (N : List PyId) (X : QMat) (hX : Good psd N X) : ∀ r ∈ X, r.sum = 0 := by
  obtain ⟨G, rfl, r, _, _⟩ := hX
  intro row hrow
  simp only [List.mem_map] at hrow
  obtain ⟨n, hn, rfl⟩ := hrow
  exact r n hn

theorem good_shape (psd : Bool) (N : List PyId) (X : QMat) (hX : Good psd N X) :
    X.length = N.length ∧ ∀ r ∈ X, r.length = N.length := by
  obtain ⟨G, rfl, _, _, _⟩ := hX
  refine ⟨by simp, ?_⟩
  intro row hrow
  simp only [List.mem_map] at hrow
  obtain ⟨n, _, rfl⟩ := hrow
  simp

theorem good_symm (psd : Bool) (N : List PyId) (X : QMat) (hX : Good psd N X) (i k : Nat) : ent X i k = ent X k i := by
  obtain ⟨G, rfl, _, s, _⟩ := hX
  by_cases hik : i < N.length ∧ k < N.length
  · rw [ent_map_map _ _ _ i k hik.1 hik.2, ent_map_map _ _ _ k i hik.2 hik.1, s]
  · rw [ent_map_map_oob _ _ _ i k hik, ent_map_map_oob _ _ _ k i (fun hc => hik ⟨hc.2, hc.1⟩)]

theorem good_psd (N : List PyId) (hN : N.Nodup) (X : QMat) (hX : Good true N X) (xs : List ℚ)
    (hx : xs.length = N.length) : 0 ≤ quadQ X xs := by
  obtain ⟨G, rfl, _, _, p⟩ := hX
  obtain ⟨x, rfl⟩ := exists_fun_of_list N hN xs hx
  rw [quadQ_map_map]
  exact p rfl x

end Xgi.C12
