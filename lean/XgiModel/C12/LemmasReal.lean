/-
  C12 — the square-root step of the normalised Laplacian over ℝ:
  I − Dv^{-1/2} M Dv^{-1/2} is congruent to Dv − M, so it is positive semidefinite when Dv − M is.
-/
import XgiModel.C12.LemmasNorm
import Mathlib.Analysis.Real.Sqrt

set_option linter.unnecessarySeqFocus false
set_option linter.unusedSectionVars false

namespace Xgi.C12
open Xgi

/-! ### vocabulary: the real matrix the harness compares the implementation with -/

def rdot (a b : List ℝ) : ℝ := (List.zipWith (· * ·) a b).sum
/-- xᵀ M x over ℝ -/
def quadR (M : List (List ℝ)) (x : List ℝ) : ℝ := rdot x (M.map (fun r => rdot r x))

/-- δ_ik − M_ik / sqrt(Dv_i · Dv_k) from the model's rational pieces -/
noncomputable def realLap (r : Norm) : List (List ℝ) :=
  r.m.mapIdx (fun i row => row.mapIdx (fun k v =>
    (if i = k then (1 : ℝ) else 0) - ((v : ℚ) : ℝ) / Real.sqrt (((r.dv.getD i 0 * r.dv.getD k 0 : ℚ)) : ℝ)))

theorem rdot_map_map {α : Type} (l : List α) (f g : α → ℝ) :
    rdot (l.map f) (l.map g) = (l.map (fun a => f a * g a)).sum := by
  unfold rdot; rw [zipWith_map_same]

theorem quadR_map_map (N : List PyId) (G : PyId → PyId → ℝ) (x : PyId → ℝ) :
    quadR (N.map (fun n => N.map (G n))) (N.map x) = quadF N G x := by
  unfold quadR quadF
  simp only [List.map_map]
  rw [rdot_map_map]
  congr 1
  apply List.map_congr_left; intro n _
  simp [rdot_map_map]

/-! ### congruence in any ordered field -/

section
variable {K : Type} [Field K] [LinearOrder K] [IsStrictOrderedRing K]

theorem quadF_congruence (N : List PyId) (D s : PyId → K) (Mr : PyId → PyId → K)
    (hs : ∀ n ∈ N, 0 < s n ∧ s n * s n = D n) (x : PyId → K) :
    quadF N (fun n m => (if n = m then 1 else 0) - Mr n m / (s n * s m)) x
      = quadF N (fun n m => (if n = m then D n else 0) - Mr n m) (fun n => x n / s n) := by
  unfold quadF
  congr 1
  apply List.map_congr_left; intro n hn
  rw [← List.sum_map_mul_left, ← List.sum_map_mul_left]
  congr 1
  apply List.map_congr_left; intro m hm
  have hn0 : s n ≠ 0 := (hs n hn).1.ne'
  have hm0 : s m ≠ 0 := (hs m hm).1.ne'
  by_cases e : n = m
  · subst e
    simp only [if_true]
    rw [← (hs n hn).2]
    field_simp
  · simp only [e, if_false]
    field_simp
    ring
end

section
variable {K : Type} [Field K] [LinearOrder K] [IsStrictOrderedRing K]
theorem quadF_congr (N : List PyId) (G G' : PyId → PyId → K) (x : PyId → K)
    (hG : ∀ n ∈ N, ∀ m ∈ N, G n m = G' n m) : quadF N G x = quadF N G' x := by
  unfold quadF
  congr 1
  apply List.map_congr_left; intro n hn
  congr 2
  apply List.map_congr_left; intro m hm
  rw [hG n hn m hm]
end

theorem deg_pos_of_mem (es : List (PyId × List PyId)) (n : PyId) (p : PyId × List PyId) (hp : p ∈ es) (hn : n ∈ p.2) :
    1 ≤ deg es n := by
  rw [deg_eq_length_filter]
  have : p ∈ es.filter (fun q => decide (n ∈ q.2)) := by simp [hp, hn]
  have := List.length_pos_of_mem this
  omega

/-! ### casts ℚ → ℝ of the functional forms -/

theorem cast_iq (n : PyId) (p : PyId × List PyId) : (((iq n p : ℚ)) : ℝ) = iq n p := by
  unfold iq; split <;> simp

def castW (zw : List ((PyId × List PyId) × ℚ)) : List ((PyId × List PyId) × ℝ) :=
  zw.map (fun pw => (pw.1, ((pw.2 : ℚ) : ℝ)))

theorem cast_normF (zw : List ((PyId × List PyId) × ℚ)) (n m : PyId) :
    ((normF zw n m : ℚ) : ℝ) = normF (castW zw) n m := by
  unfold normF castW
  induction zw with
  | nil => simp
  | cons pw t ih =>
    simp only [List.map_cons, List.sum_cons]
    push_cast
    rw [ih, cast_iq, cast_iq]

theorem cast_degW (zw : List ((PyId × List PyId) × ℚ)) (n : PyId) :
    ((degW zw n : ℚ) : ℝ) = degW (castW zw) n := by
  unfold degW castW
  induction zw with
  | nil => simp
  | cons pw t ih =>
    simp only [List.map_cons, List.sum_cons]
    push_cast
    rw [ih, cast_iq]

theorem castW_good (N : List PyId) (zw : List ((PyId × List PyId) × ℚ))
    (hz : ∀ pw ∈ zw, pw.1.2.Nodup ∧ (∀ a ∈ pw.1.2, a ∈ N) ∧ pw.1.2.length ≠ 0) (hw : ∀ pw ∈ zw, 0 ≤ pw.2) :
    (∀ pw ∈ castW zw, pw.1.2.Nodup ∧ (∀ a ∈ pw.1.2, a ∈ N) ∧ pw.1.2.length ≠ 0) ∧ ∀ pw ∈ castW zw, 0 ≤ pw.2 := by
  unfold castW
  constructor
  · intro pw hpw
    simp only [List.mem_map] at hpw
    obtain ⟨q, hq, rfl⟩ := hpw
    exact hz q hq
  · intro pw hpw
    simp only [List.mem_map] at hpw
    obtain ⟨q, hq, rfl⟩ := hpw
    show (0 : ℝ) ≤ ((q.2 : ℚ) : ℝ)
    exact_mod_cast hw q hq

/-! ### functional form of `realLap` -/

theorem realLap_eq (N : List PyId) (hN : N.Nodup) (r : Norm) (M : PyId → PyId → ℚ) (D : PyId → ℚ)
    (hm : r.m = N.map (fun n => N.map (M n))) (hd : r.dv = N.map D) :
    realLap r = N.map (fun n => N.map (fun m =>
      (if n = m then (1 : ℝ) else 0) - ((M n m : ℚ) : ℝ) / Real.sqrt (((D n * D m : ℚ)) : ℝ))) := by
  unfold realLap
  rw [hm, hd]
  apply List.ext_getElem?
  intro i
  rw [List.getElem?_mapIdx]
  by_cases hi : i < N.length
  · simp only [List.getElem?_map, List.getElem?_eq_getElem hi, Option.map_some, Option.some.injEq]
    apply List.ext_getElem?
    intro k
    rw [List.getElem?_mapIdx]
    by_cases hk : k < N.length
    · simp only [List.getElem?_map, List.getElem?_eq_getElem hk, Option.map_some, Option.some.injEq]
      have e1 : (N.map D).getD i 0 = D N[i] := by simp [List.getD_eq_getElem?_getD, hi]
      have e2 : (N.map D).getD k 0 = D N[k] := by simp [List.getD_eq_getElem?_getD, hk]
      rw [e1, e2]
      by_cases hik : i = k
      · subst hik; simp
      · have : N[i] ≠ N[k] := fun e => hik ((List.Nodup.getElem_inj_iff hN).mp e)
        simp [hik, this]
    · simp [hk]
  · simp [hi]

end Xgi.C12
