/-
  C12 — algebra of the order-d Laplacian: per-edge decomposition, zero row sums, the sum-of-squares
  identity, and the closure properties used for the multi-order Laplacian.
-/
import XgiModel.C12.LemmasMat

set_option linter.unnecessarySeqFocus false
set_option linter.unusedSectionVars false

namespace Xgi.C12
open Xgi

variable {K : Type} [Field K] [LinearOrder K] [IsStrictOrderedRing K]

/-! ### small sum lemmas -/

theorem sum_map_sub' {α R : Type} [CommRing R] (l : List α) (f g : α → R) :
    (l.map (fun a => f a - g a)).sum = (l.map f).sum - (l.map g).sum := by
  induction l with
  | nil => simp
  | cons a t ih => simp only [List.map_cons, List.sum_cons, ih]; ring

/-- Lagrange: |l|·Σx² − (Σx)² = Σ_{i<j} (x_i − x_j)² -/
theorem lagrange (l : List PyId) (x : PyId → K) :
    (l.length : K) * (l.map (fun a => x a * x a)).sum - (l.map x).sum * (l.map x).sum
      = ((pairs l).map (fun ab => (x ab.1 - x ab.2) ^ 2)).sum := by
  induction l with
  | nil => simp [pairs]
  | cons a t ih =>
    have h1 : ((t.map (fun b => (a, b))).map (fun ab => (x ab.1 - x ab.2) ^ 2)).sum
        = (t.length : K) * (x a * x a) - 2 * x a * (t.map x).sum + (t.map (fun b => x b * x b)).sum := by
      clear ih
      induction t with
      | nil => simp
      | cons b s ih2 =>
        simp only [List.map_cons, List.sum_cons, List.length_cons, ih2]
        push_cast; ring
    simp only [pairs, List.map_append, List.sum_append, List.map_cons, List.sum_cons, List.length_cons, h1, ← ih]
    push_cast; ring

/-! ### one edge's contribution -/

/-- contribution of edge p to the order-d Laplacian entry (n, m) -/
def edgeLapF (p : PyId × List PyId) (d : Nat) (n m : PyId) : Int :=
  (if n = m then ((d : Int) + 1) * ind n p else 0) - ind n p * ind m p

theorem lapF_nil (d : Nat) (n m : PyId) : lapF [] d n m = 0 := by
  unfold lapF; simp [deg_nil, cnt_nil]

theorem lapF_cons (p : PyId × List PyId) (es : List (PyId × List PyId)) (d : Nat) (n m : PyId) :
    lapF (p :: es) d n m = edgeLapF p d n m + lapF es d n m := by
  unfold lapF edgeLapF deg cnt
  simp only [List.map_cons, List.sum_cons]
  split <;> ring

theorem lapF_symm (es : List (PyId × List PyId)) (d : Nat) (n m : PyId) : lapF es d n m = lapF es d m n := by
  unfold lapF
  by_cases h : n = m
  · subst h; rfl
  · have h' : ¬ m = n := fun e => h e.symm
    simp [h, h', cnt_comm es n m]

theorem edge_rowsum (N : List PyId) (hN : N.Nodup) (n : PyId) (hn : n ∈ N) (p : PyId × List PyId) (d : Nat)
    (hp : p.2.Nodup) (hsub : ∀ a ∈ p.2, a ∈ N) (hlen : p.2.length = d + 1) :
    (N.map (fun m => edgeLapF p d n m)).sum = 0 := by
  unfold edgeLapF
  rw [sum_map_sub', sum_map_ite_eq N hN n hn (fun _ => ((d : Int) + 1) * ind n p), List.sum_map_mul_left,
    colsum_eq_length N hN p hp hsub, hlen]
  push_cast; ring

theorem lapF_rowsum (N : List PyId) (hN : N.Nodup) (n : PyId) (hn : n ∈ N) (es : List (PyId × List PyId)) (d : Nat)
    (hes : ∀ p ∈ es, p.2.Nodup ∧ (∀ a ∈ p.2, a ∈ N) ∧ p.2.length = d + 1) :
    (N.map (fun m => lapF es d n m)).sum = 0 := by
  induction es with
  | nil => simp [lapF_nil]
  | cons p t ih =>
    have hp := hes p (by simp)
    simp only [lapF_cons, List.sum_map_add, edge_rowsum N hN n hn p d hp.1 hp.2.1 hp.2.2,
      ih (fun q hq => hes q (by simp [hq]))]
    simp

/-! ### quadratic forms of matrices in functional form -/

/-- xᵀ G x over the label list N -/
def quadF (N : List PyId) (G : PyId → PyId → K) (x : PyId → K) : K :=
  (N.map (fun n => x n * (N.map (fun m => G n m * x m)).sum)).sum

theorem quadQ_map_map (N : List PyId) (G : PyId → PyId → ℚ) (x : PyId → ℚ) :
    quadQ (N.map (fun n => N.map (G n))) (N.map x) = quadF N G x := by
  unfold quadQ quadF
  simp only [List.map_map]
  rw [qdot_map_map]
  congr 1
  apply List.map_congr_left; intro n _
  simp [qdot_map_map]

theorem quadF_add (N : List PyId) (G1 G2 : PyId → PyId → K) (x : PyId → K) :
    quadF N (fun n m => G1 n m + G2 n m) x = quadF N G1 x + quadF N G2 x := by
  unfold quadF
  simp only [add_mul, List.sum_map_add, mul_add]

theorem quadF_smul (N : List PyId) (G : PyId → PyId → K) (c : K) (x : PyId → K) :
    quadF N (fun n m => G n m * c) x = quadF N G x * c := by
  unfold quadF
  have : ∀ n, (N.map (fun m => G n m * c * x m)).sum = (N.map (fun m => G n m * x m)).sum * c := by
    intro n; rw [← List.sum_map_mul_right]; congr 1; apply List.map_congr_left; intro m _; ring
  simp only [this]
  rw [← List.sum_map_mul_right]; congr 1; apply List.map_congr_left; intro n _; ring

theorem quadF_zero (N : List PyId) (x : PyId → K) : quadF N (fun _ _ => (0 : K)) x = 0 := by
  unfold quadF; simp

theorem cast_edgeLapF (p : PyId × List PyId) (d : Nat) (n m : PyId) :
    ((edgeLapF p d n m : Int) : ℚ) =
      (if n = m then ((d : ℚ) + 1) * (if n ∈ p.2 then 1 else 0) else 0)
        - (if n ∈ p.2 then 1 else 0) * (if m ∈ p.2 then 1 else 0) := by
  unfold edgeLapF ind
  split_ifs <;> push_cast <;> ring

/-- xᵀ L_p x = Σ_{a<b ∈ p} (x_a − x_b)² for one edge p of size d+1 -/
theorem edge_quad (N : List PyId) (hN : N.Nodup) (p : PyId × List PyId) (d : Nat)
    (hp : p.2.Nodup) (hsub : ∀ a ∈ p.2, a ∈ N) (hlen : p.2.length = d + 1) (x : PyId → ℚ) :
    quadF N (fun n m => ((edgeLapF p d n m : Int) : ℚ)) x = ((pairs p.2).map (fun ab => (x ab.1 - x ab.2) ^ 2)).sum := by
  rw [← lagrange, hlen]
  unfold quadF
  have hS1 := sum_ind_mem (R := ℚ) N hN p.2 hp hsub x
  have hS2 := sum_ind_mem (R := ℚ) N hN p.2 hp hsub (fun a => x a * x a)
  have inner : ∀ n ∈ N, (N.map (fun m => ((edgeLapF p d n m : Int) : ℚ) * x m)).sum
      = ((d : ℚ) + 1) * (if n ∈ p.2 then 1 else 0) * x n - (if n ∈ p.2 then 1 else 0) * (p.2.map x).sum := by
    intro n hn
    simp only [cast_edgeLapF, sub_mul]
    rw [sum_map_sub']
    have e1 : (N.map (fun m => (if n = m then ((d : ℚ) + 1) * (if n ∈ p.2 then 1 else 0) else 0) * x m))
        = N.map (fun m => if n = m then ((d : ℚ) + 1) * (if n ∈ p.2 then 1 else 0) * x m else 0) := by
      apply List.map_congr_left; intro m _; split <;> simp
    rw [e1, sum_map_ite_eq N hN n hn (fun m => ((d : ℚ) + 1) * (if n ∈ p.2 then 1 else 0) * x m)]
    have e2 : (N.map (fun m => (if n ∈ p.2 then (1 : ℚ) else 0) * (if m ∈ p.2 then 1 else 0) * x m))
        = N.map (fun m => (if n ∈ p.2 then (1 : ℚ) else 0) * ((if m ∈ p.2 then 1 else 0) * x m)) := by
      apply List.map_congr_left; intro m _; ring
    rw [e2, List.sum_map_mul_left, hS1]
  rw [List.map_congr_left (fun n hn => by rw [inner n hn])]
  have e3 : (N.map (fun n => x n * (((d : ℚ) + 1) * (if n ∈ p.2 then 1 else 0) * x n
        - (if n ∈ p.2 then 1 else 0) * (p.2.map x).sum)))
      = N.map (fun n => ((d : ℚ) + 1) * ((if n ∈ p.2 then 1 else 0) * (x n * x n))
        - (p.2.map x).sum * ((if n ∈ p.2 then 1 else 0) * x n)) := by
    apply List.map_congr_left; intro n _; ring
  rw [e3, sum_map_sub', List.sum_map_mul_left, List.sum_map_mul_left, hS1, hS2]
  push_cast; ring

/-- xᵀ L x = Σ_e Σ_{a<b ∈ e} (x_a − x_b)² -/
theorem lapF_quad (N : List PyId) (hN : N.Nodup) (es : List (PyId × List PyId)) (d : Nat)
    (hes : ∀ p ∈ es, p.2.Nodup ∧ (∀ a ∈ p.2, a ∈ N) ∧ p.2.length = d + 1) (x : PyId → ℚ) :
    quadF N (fun n m => ((lapF es d n m : Int) : ℚ)) x
      = (es.map (fun p => ((pairs p.2).map (fun ab => (x ab.1 - x ab.2) ^ 2)).sum)).sum := by
  induction es with
  | nil => simp [lapF_nil, quadF_zero]
  | cons p t ih =>
    have hp := hes p (by simp)
    have : (fun n m => ((lapF (p :: t) d n m : Int) : ℚ))
        = fun n m => ((edgeLapF p d n m : Int) : ℚ) + ((lapF t d n m : Int) : ℚ) := by
      funext n m; rw [lapF_cons]; push_cast; rfl
    rw [this, quadF_add, edge_quad N hN p d hp.1 hp.2.1 hp.2.2, ih (fun q hq => hes q (by simp [hq]))]
    simp

theorem pairs_sq_nonneg (l : List PyId) (x : PyId → K) : 0 ≤ ((pairs l).map (fun ab => (x ab.1 - x ab.2) ^ 2)).sum := by
  apply List.sum_nonneg; intro v hv
  simp only [List.mem_map] at hv
  obtain ⟨ab, _, rfl⟩ := hv
  positivity

theorem lapF_quad_nonneg (N : List PyId) (hN : N.Nodup) (es : List (PyId × List PyId)) (d : Nat)
    (hes : ∀ p ∈ es, p.2.Nodup ∧ (∀ a ∈ p.2, a ∈ N) ∧ p.2.length = d + 1) (x : PyId → ℚ) :
    0 ≤ quadF N (fun n m => ((lapF es d n m : Int) : ℚ)) x := by
  rw [lapF_quad N hN es d hes]
  apply List.sum_nonneg; intro v hv
  simp only [List.mem_map] at hv
  obtain ⟨p, _, rfl⟩ := hv
  exact pairs_sq_nonneg _ _

end Xgi.C12
