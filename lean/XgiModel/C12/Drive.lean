/-
  JSON request → C12 model call → JSON.  Requests: {"f": name, "net": {"nodes":…, "edges":…}, options…}.
  Integers are JSON numbers, rationals are strings "p/q".  Ill-typed requests answer bad-op; inputs outside
  the model (network not well-formed, negative order) answer {"out":"unmodelled"}.
-/
import XgiModel.Proto
import XgiModel.Net
import XgiModel.C12.Linalg
open Lean Xgi.Proto

namespace Xgi.C12.Drive
open Xgi Xgi.C12

def unmodelled : Json := Json.mkObj [("out", Json.str "unmodelled")]
def out (s : String) : Json := Json.mkObj [("out", Json.str s)]

def ratJson (q : Rat) : Json := Json.str (toString q.num ++ "/" ++ toString q.den)
def imatJson (m : IMat) : Json := Json.arr (m.map (fun r => Json.arr (r.map intJson).toArray)).toArray
def qmatJson (m : QMat) : Json := Json.arr (m.map (fun r => Json.arr (r.map ratJson).toArray)).toArray

def ratOfJson? : Json → Option Rat
  | .num n => some ((n.mantissa : Rat) / ((10 ^ n.exponent : Nat) : Rat))
  | .str s =>
    match s.splitOn "/" with
    | [p] => p.toInt?.map (fun i => (i : Rat))
    | [p, q] => do
      let a ← p.toInt?
      let b ← q.toNat?
      if b = 0 then none else pure ((a : Rat) / (b : Rat))
    | _ => none
  | _ => none

/-- decidable form of `Net.WF` -/
def wfB (h : Net) : Bool :=
  decide h.nodes.Nodup && decide (h.edges.map (·.1)).Nodup &&
    h.edges.all (fun p => decide p.2.Nodup && p.2.all (fun n => decide (n ∈ h.nodes)))

/-- "order": null → none, non-negative int → some d, negative → unmodelled (outer none = ill-typed) -/
def orderOpt? (j : Json) : Option (Option (Option Nat)) :=
  match getField? j "order" with
  | some .null => some (some none)
  | some (.num n) => if n.exponent ≠ 0 then none else
      if n.mantissa < 0 then some none else some (some (some n.mantissa.toNat))
  | _ => none

def okI (m : IMat) (rows : List PyId) (cols : Option (List PyId) := none) : Json :=
  Json.mkObj ([("out", Json.str "ok"), ("mat", imatJson m), ("rows", idsToJson rows)] ++
    (match cols with | some c => [("cols", idsToJson c)] | none => []))
def okQ (m : QMat) (rows : List PyId) : Json :=
  Json.mkObj [("out", Json.str "ok"), ("mat", qmatJson m), ("rows", idsToJson rows)]

/-- [[node, edge, int], …] -/
def wtable? (j : Json) : Option (List (PyId × PyId × Int)) :=
  match j with
  | .arr a => a.toList.mapM (fun t => match t with
      | .arr #[n, e, .num v] => do
        if v.exponent ≠ 0 then none else pure ((← idOfJson? n), (← idOfJson? e), v.mantissa)
      | _ => none)
  | _ => none

def handleNet (h : Net) (f : String) (j : Json) : Json :=
  match f with
  | "incidence_matrix" =>
    match orderOpt? j with
    | none => badOp | some none => unmodelled
    | some (some o) =>
      match getField? j "wt" with
      | none => let I := incidence h o; okI I.mat I.rows (some I.cols)
      | some wt =>
        -- a `weight` callback given as a table [[node, edge, value], …] with a default for every other pair
        match wtable? wt, getInt? j "wdef" with
        | some tb, some dflt =>
          let I := incidenceW h o (fun n e => ((tb.find? (fun t => t.1 == n && t.2.1 == e)).map (·.2.2)).getD dflt)
          okI I.mat I.rows (some I.cols)
        | _, _ => badOp
  | "adjacency_matrix" =>
    match orderOpt? j, getInt? j "s", getBool? j "weighted" with
    | some none, some _, some _ => unmodelled
    | some (some o), some s, some w => let A := adjacency h o s w; okI A.1 A.2
    | _, _, _ => badOp
  | "degree_matrix" =>
    match orderOpt? j with
    | none => badOp | some none => unmodelled
    | some (some o) => let K := degreeVec h o
      Json.mkObj [("out", Json.str "ok"), ("vec", Json.arr (K.1.map intJson).toArray), ("rows", idsToJson K.2)]
  | "intersection_profile" =>
    match orderOpt? j with
    | none => badOp | some none => unmodelled
    | some (some o) => let P := profile h o; okI P.1 P.2
  | "clique_motif_matrix" => let W := cliqueMotif h; okI W.1 W.2
  | "laplacian" =>
    match getInt? j "order", getBool? j "rescale" with
    | some d, some r =>
      if d < 0 then unmodelled else
      match laplacian h d.toNat r with
      | none => out "undefined"
      | some L => okQ L.1 L.2
    | _, _ => badOp
  | "multiorder_laplacian" =>
    match getArr? j "orders", getArr? j "weights", getBool? j "rescale" with
    | some os, some ws, some r =>
      match os.mapM (fun o => match o with
          | .num n => if n.exponent = 0 then some n.mantissa else none | _ => none), ws.mapM ratOfJson? with
      | some os, some ws =>
        if os.any (· < 0) then unmodelled else
        match multiorder h (os.map Int.toNat) ws r with
        | .ok L => okQ L.1 L.2
        | .undefined => out "undefined"
        | .errValue => out "err:value"
        | .errLib => out "err:lib"
      | _, _ => badOp
    | _, _, _ => badOp
  | "normalized_hypergraph_laplacian" =>
    match getBool? j "weighted", getArr? j "weights" with
    | some wt, some ws =>
      match ws.mapM (fun w => match w with | .null => some none | w => (ratOfJson? w).map some) with
      | some ws =>
        if ws.length ≠ h.edges.length then badOp else
        match normalized h wt ws with
        | .ok r => Json.mkObj [("out", Json.str "ok"), ("m", qmatJson r.m),
            ("dv", Json.arr (r.dv.map ratJson).toArray), ("rows", idsToJson r.rows)]
        | .undefined => out "undefined"
        | .errValue => out "err:value"
        | .errLib => out "err:lib"
      | none => badOp
    | _, _ => badOp
  | "adjacency_tensor" =>
    match getInt? j "order", getBool? j "normalized" with
    | some d, some nm =>
      if d < 0 then unmodelled else
      let T := tensor h d.toNat nm
      Json.mkObj [("out", Json.str "ok"), ("flat", Json.arr (T.1.map (fun p => ratJson p.2)).toArray),
        ("shape", Json.arr (List.replicate (d.toNat + 1) (natJson h.nodes.length)).toArray), ("rows", idsToJson T.2)]
    | _, _ => badOp
  | _ => badOp

def handle (st : Unit) (j : Json) : Unit × Json :=
  match getStr? j "f", (getField? j "net").bind netOfJson? with
  | some f, some h => if wfB h then (st, handleNet h f j) else (st, unmodelled)
  | _, _ => (st, badOp)

end Xgi.C12.Drive
