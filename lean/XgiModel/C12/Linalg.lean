/-
  C12 — model of xgi/linalg/hypergraph_matrix.py and xgi/linalg/laplacian_matrix.py over the static
  network `Xgi.Net` (what `H.nodes` / `H.edges.members(dtype=dict)` show, in view order).

  Matrices are lists of rows (`List (List Int)` / `List (List Rat)`), returned together with the label
  lists that the Python code returns as index dicts (`rowdict = {i: rows[i]}`, `coldict = {j: cols[j]}`;
  node order = `H.nodes` order, edge order = `H.edges.filterby("order", d)` order).  numpy / scipy appear as
  the pure functions they are documented to be: `I.dot(I.T)` is a dot product of rows, `np.fill_diagonal`
  is `List.set i 0` on row i, `(A >= s) * A` is the entry-wise threshold, `np.diag`, `np.sum(axis=…)`,
  `np.mean`; scipy's sparse containers are the same matrices (sparse = dense is exhibited by the
  correspondence check only).  Degenerate shapes are explicit branches returning what the code returns.
  No Mathlib.
-/
import XgiModel.Net

namespace Xgi.C12
open Xgi

abbrev IMat := List (List Int)
abbrev QMat := List (List Rat)

/-- outcome of a call that may raise or divide by zero -/
inductive Res (α : Type) where
  | ok (a : α)
  | undefined        -- division by zero (NaN matrix / ZeroDivisionError): outside the documented domain
  | errValue         -- ValueError
  | errLib           -- XGIError
  deriving Repr

/-! ### generic dense helpers (numpy as pure functions) -/

/-- `np.dot` of two vectors -/
def dot (a b : List Int) : Int := (List.zipWith (· * ·) a b).sum
/-- `X.dot(Y.T)`: entry (i, k) is the dot product of row i of X and row k of Y -/
def mulT (X Y : IMat) : IMat := X.map (fun r => Y.map (fun c => dot r c))
/-- `M.T` -/
def transpose (M : IMat) : IMat :=
  match M with
  | [] => []
  | r :: _ => (List.range r.length).map (fun j => M.map (fun row => row.getD j 0))
/-- `np.fill_diagonal(M, 0)` / `M.setdiag(0)` -/
def zeroDiag (M : IMat) : IMat := M.mapIdx (fun i r => r.set i 0)
/-- `(A >= s) * 1` (unweighted) or `(A >= s) * A` (weighted) -/
def thresh (s : Int) (weighted : Bool) (M : IMat) : IMat :=
  M.map (fun r => r.map (fun v => if s ≤ v then (if weighted then v else 1) else 0))
/-- `np.zeros((n, m), dtype=int)` -/
def zeros (n m : Nat) : IMat := List.replicate n (List.replicate m 0)
/-- `np.diag(v)` -/
def diag (v : List Int) : IMat := v.mapIdx (fun i x => (List.replicate v.length (0 : Int)).set i x)

/-! ### incidence matrix -/

/-- `H.edges` (order = None) or `H.edges.filterby("order", d)`: (edge ID, members) in `H.edges` order -/
def edgesOf (h : Net) : Option Nat → List (PyId × List PyId)
  | none => h.edges
  | some d => h.edges.filter (fun p => p.2.length == d + 1)

/-- the entry the double loop `for edge in edge_ids: for node in members` writes at (node, edge) -/
def ind (n : PyId) (p : PyId × List PyId) : Int := if n ∈ p.2 then 1 else 0

structure Inc where
  mat : IMat
  rows : List PyId
  cols : List PyId
  deriving Repr

/-- `incidence_matrix(H, order, index=True)`; the (0, 0) matrix with empty index dicts when there are
    no nodes or no edges (of the requested order) -/
def incidence (h : Net) (order : Option Nat) : Inc :=
  let es := edgesOf h order
  if es.isEmpty || h.nodes.isEmpty then ⟨[], [], []⟩
  else ⟨h.nodes.map (fun n => es.map (ind n)), h.nodes, es.map (·.1)⟩

/-- the entry the loop writes at (node, edge) when a `weight` callback is passed: `data.append(weight(node, edge, H))`
    (the matrix has `dtype=int`; integer-valued callbacks only) -/
def indW (w : PyId → PyId → Int) (n : PyId) (p : PyId × List PyId) : Int := if n ∈ p.2 then w n p.1 else 0

/-- `incidence_matrix(H, order, index=True, weight=w)`: `w node edge` is the callback's value (first argument the
    node, second the edge ID); the default callback is the constant 1, for which this is `incidence` -/
def incidenceW (h : Net) (order : Option Nat) (w : PyId → PyId → Int) : Inc :=
  let es := edgesOf h order
  if es.isEmpty || h.nodes.isEmpty then ⟨[], [], []⟩
  else ⟨h.nodes.map (fun n => es.map (indW w n)), h.nodes, es.map (·.1)⟩

/-! ### adjacency, degree, intersection profile, clique motif -/

/-- `adjacency_matrix(H, order, s, weighted, index=True)`.  When the incidence matrix is (0, 0) the code
    returns an all-zero (N, N) matrix and an *empty* index dict. -/
def adjacency (h : Net) (order : Option Nat) (s : Int) (weighted : Bool) : IMat × List PyId :=
  let I := incidence h order
  if I.mat.isEmpty then (zeros h.nodes.length h.nodes.length, [])
  else (thresh s weighted (zeroDiag (mulT I.mat I.mat)), I.rows)

/-- `degree_matrix(H, order, index=True)`: row sums of the incidence matrix (zeros and an empty index dict
    in the degenerate case) -/
def degreeVec (h : Net) (order : Option Nat) : List Int × List PyId :=
  let I := incidence h order
  if I.mat.isEmpty then (List.replicate h.nodes.length 0, [])
  else (I.mat.map List.sum, I.rows)

/-- `intersection_profile(H, order, index=True)`: `I.T.dot(I)` with the edge index dict -/
def profile (h : Net) (order : Option Nat) : IMat × List PyId :=
  let I := incidence h order
  (mulT (transpose I.mat) (transpose I.mat), I.cols)

/-- `clique_motif_matrix(H, index=True)` -/
def cliqueMotif (h : Net) : IMat × List PyId := adjacency h none 1 true

/-! ### order-d Laplacian  L = d·K − A -/

/-- the integer matrix `order * K - A` before the optional rescaling; (0, 0) when there are no nodes -/
def laplacianInt (h : Net) (d : Nat) : IMat × List PyId :=
  let A := adjacency h (some d) 1 true
  if A.1.isEmpty then ([], [])
  else
    let K := diag (degreeVec h (some d)).1
    (List.zipWith (fun kr ar => List.zipWith (fun k a => (d : Int) * k - a) kr ar) K A.1, A.2)

/-- `laplacian(H, order=d, rescale_per_node, index=True)`; `none` = division by zero
    (`rescale_per_node` with order 0 on a non-empty network: NaN matrix / ZeroDivisionError) -/
def laplacian (h : Net) (d : Nat) (rescale : Bool) : Option (QMat × List PyId) :=
  let L := laplacianInt h d
  if L.1.isEmpty then some ([], [])
  else if rescale then
    (if d = 0 then none else some (L.1.map (fun r => r.map (fun (v : Int) => (v : Rat) / (d : Rat))), L.2))
  else some (L.1.map (fun r => r.map (fun (v : Int) => (v : Rat))), L.2)

/-! ### multi-order Laplacian -/

/-- `np.mean(K)` -/
def mean (K : List Int) : Rat := ((K.sum : Int) : Rat) / (K.length : Rat)
def zerosQ (n m : Nat) : QMat := List.replicate n (List.replicate m 0)
def addQ (X Y : QMat) : QMat := List.zipWith (fun a b => List.zipWith (· + ·) a b) X Y
/-- `L * w / m` -/
def scaleQ (w m : Rat) (L : QMat) : QMat := L.map (fun r => r.map (fun v => v * w / m))

/-- one step of the loop `for L, K, w, d in zip(Ls, Ks, weights, orders)` -/
def multiStep (acc : QMat) (t : QMat × List Int × Rat) : QMat :=
  if t.2.1.all (· == 0) then acc else addQ acc (scaleQ t.2.2 (mean t.2.1) t.1)

/-- `multiorder_laplacian(H, orders, weights, rescale_per_node, index=True)` -/
def multiorder (h : Net) (orders : List Nat) (weights : List Rat) (rescale : Bool) : Res (QMat × List PyId) :=
  if orders.length ≠ weights.length then .errValue
  else match orders.mapM (fun d => laplacian h d rescale) with
    | none => .undefined
    | some Ls =>
      let Ks := orders.map (fun d => (degreeVec h (some d)).1)
      let N := h.nodes.length
      .ok ((List.zip (Ls.map (·.1)) (List.zip Ks weights)).foldl multiStep (zerosQ N N), h.nodes)

/-! ### normalised hypergraph Laplacian: the rational pieces

  The code computes L = I − Dv^{-1/2} · M · Dv^{-1/2} with M = H W De⁻¹ Hᵀ and `Dv = degree_matrix(H)`, the
  *unweighted* vertex degree, also when `weighted=True`.  The model describes the code as it is.  (The
  reference, Zhou, Huang, Schölkopf 2006, uses the weighted degree d(v) = Σ_e w(e) h(v, e); with
  `weighted=True` and weights other than 1 the code's matrix is neither the textbook matrix nor positive
  semidefinite — known finding of C12, see known_findings/C12.json and Props/C12.lean.)  The harness compares
  the implementation entry-wise with δ_ik − M_ik / sqrt(Dv_i · Dv_k). -/

structure Norm where
  m : QMat
  dv : List Rat
  rows : List PyId
  deriving Repr

/-- Σ_j a_j · c_j · b_j -/
def dot3 (a : List Int) (c : List Rat) (b : List Int) : Rat :=
  (List.zipWith (fun (p : Rat) (z : Int) => p * (z : Rat))
    (List.zipWith (fun (x : Int) (y : Rat) => (x : Rat) * y) a c) b).sum

/-- `weights`: the `weight` attribute of every edge in `H.edges` order (`none` = attribute absent → 1);
    with `weighted = false` every edge weighs 1 -/
def normalized (h : Net) (weighted : Bool) (ws : List (Option Rat)) : Res Norm :=
  if h.nodes.any (fun n => h.edges.all (fun p => !(decide (n ∈ p.2)))) then .errLib   -- H.nodes.isolates()
  else
    let I := incidence h none
    let w : List Rat := if weighted then ws.map (fun o => o.getD 1) else h.edges.map (fun _ => 1)
    let De := (transpose I.mat).map List.sum
    if De.any (· == 0) then .undefined                                               -- 1 / De
    else
      let Dv : List Rat := I.mat.map (fun r => ((r.sum : Int) : Rat))                -- degree_matrix(H)
      let wde := List.zipWith (fun x (y : Int) => x / (y : Rat)) w De
      .ok ⟨I.mat.map (fun ri => I.mat.map (fun rk => dot3 ri wde rk)), Dv, I.rows⟩

/-! ### adjacency tensor -/

/-- all index tuples of length k over `range n`, in row-major (C) order -/
def tuples (n : Nat) : Nat → List (List Nat)
  | 0 => [[]]
  | k + 1 => (List.range n).flatMap (fun i => (tuples n k).map (fun t => i :: t))

def fact : Nat → Nat
  | 0 => 1
  | n + 1 => (n + 1) * fact n

/-- value written at index tuple `t`: 1 (or 1/d!) iff `t` is one of the `permutations(edge_node_ids, d+1)`
    of an order-d edge -/
def tensorVal (h : Net) (d : Nat) (normalized : Bool) (t : List Nat) : Rat :=
  if (edgesOf h (some d)).any (fun p => (t.map (fun i => h.nodes.getD i PyId.none)).isPerm p.2)
  then (if normalized then 1 / (fact d : Rat) else 1) else 0

/-- `adjacency_tensor(H, order=d, normalized, index=True)`: (index tuple, entry) in row-major order;
    all zeros of shape (N,)*(d+1) and an empty index dict when there is no edge of order d -/
def tensor (h : Net) (d : Nat) (normalized : Bool) : List (List Nat × Rat) × List PyId :=
  let I := incidence h (some d)
  let ts := tuples h.nodes.length (d + 1)
  if I.mat.isEmpty then (ts.map (fun t => (t, 0)), [])
  else (ts.map (fun t => (t, tensorVal h d normalized t)), I.rows)

end Xgi.C12
