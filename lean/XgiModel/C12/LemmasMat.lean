/-
  C12 — the model's matrices in functional form over the label lists.
-/
import XgiModel.C12.Lemmas

set_option linter.unnecessarySeqFocus false

namespace Xgi.C12
open Xgi

/-! ### row-wise operations on a matrix given in functional form -/

theorem mulT_map_map {α β : Type} (l1 : List α) (l2 : List β) (f : α → β → Int) :
    mulT (l1.map (fun a => l2.map (f a))) (l1.map (fun a => l2.map (f a)))
      = l1.map (fun a => l1.map (fun b => (l2.map (fun c => f a c * f b c)).sum)) := by
  unfold mulT
  simp only [List.map_map]
  apply List.map_congr_left; intro a _
  apply List.map_congr_left; intro b _
  simp [dot_map_map]

theorem set_map_eq (l : List PyId) (hl : l.Nodup) (g : PyId → Int) (i : Nat) (hi : i < l.length) (v : Int) :
    (l.map g).set i v = l.map (fun m => if l[i] = m then v else g m) := by
  apply List.ext_getElem?
  intro k
  rw [List.getElem?_set]
  by_cases hik : i = k
  · subst hik
    simp [hi]
  · simp only [hik, if_false, List.getElem?_map]
    by_cases hk : k < l.length
    · have : l[i] ≠ l[k] := fun e => hik ((List.Nodup.getElem_inj_iff hl).mp e)
      simp [hk, this]
    · simp [hk]

theorem zeroDiag_map_map (l : List PyId) (hl : l.Nodup) (g : PyId → PyId → Int) :
    zeroDiag (l.map (fun n => l.map (g n))) = l.map (fun n => l.map (fun m => if n = m then 0 else g n m)) := by
  unfold zeroDiag
  apply List.ext_getElem?
  intro i
  rw [List.getElem?_mapIdx]
  by_cases hi : i < l.length
  · simp only [List.getElem?_map, List.getElem?_eq_getElem hi, Option.map_some]
    rw [set_map_eq l hl (g l[i]) i hi 0]
  · simp [hi]

theorem thresh_map_map {α β : Type} (l1 : List α) (l2 : List β) (g : α → β → Int) (s : Int) (w : Bool) :
    thresh s w (l1.map (fun n => l2.map (g n)))
      = l1.map (fun n => l2.map (fun m => if s ≤ g n m then (if w then g n m else 1) else 0)) := by
  unfold thresh; simp [List.map_map]

theorem zeros_eq_map {α β : Type} (l1 : List α) (l2 : List β) :
    zeros l1.length l2.length = l1.map (fun _ => l2.map (fun _ => (0 : Int))) := by
  unfold zeros; simp [List.map_const']

theorem diag_map (l : List PyId) (hl : l.Nodup) (f : PyId → Int) :
    diag (l.map f) = l.map (fun n => l.map (fun m => if n = m then f n else 0)) := by
  unfold diag
  apply List.ext_getElem?
  intro i
  rw [List.getElem?_mapIdx]
  by_cases hi : i < l.length
  · simp only [List.getElem?_map, List.getElem?_eq_getElem hi, Option.map_some, List.length_map]
    have h0 : List.replicate l.length (0 : Int) = l.map (fun _ => (0 : Int)) := by simp [List.map_const']
    rw [h0, set_map_eq l hl (fun _ => 0) i hi (f l[i])]
  · simp [hi]

theorem transpose_map_map {β : Type} (l1 : List PyId) (l2 : List β) (f : PyId → β → Int) (h1 : l1 ≠ []) :
    transpose (l1.map (fun a => l2.map (f a))) = l2.map (fun b => l1.map (fun a => f a b)) := by
  cases l1 with
  | nil => exact absurd rfl h1
  | cons a t =>
    simp only [transpose, List.map_cons, List.length_map]
    apply List.ext_getElem?
    intro j
    by_cases hj : j < l2.length
    · simp [hj, List.getD_eq_getElem?_getD]
    · simp [hj]

/-! ### functional forms of the model matrices -/

/-- value after thresholding: `(A >= s) * A` or `(A >= s) * 1` -/
def phi (s : Int) (w : Bool) (v : Int) : Int := if s ≤ v then (if w then v else 1) else 0

/-- adjacency entry between labels n and m -/
def adjF (es : List (PyId × List PyId)) (s : Int) (w : Bool) (n m : PyId) : Int :=
  phi s w (if n = m then 0 else cnt es n m)

theorem incidence_nondeg (h : Net) (o : Option Nat) (he : edgesOf h o ≠ []) (hn : h.nodes ≠ []) :
    incidence h o = ⟨h.nodes.map (fun n => (edgesOf h o).map (ind n)), h.nodes, (edgesOf h o).map (·.1)⟩ := by
  unfold incidence
  have h1 : (edgesOf h o).isEmpty = false := by simpa [List.isEmpty_iff] using he
  have h2 : h.nodes.isEmpty = false := by simpa [List.isEmpty_iff] using hn
  simp [h1, h2]

theorem incidence_deg (h : Net) (o : Option Nat) (hd : edgesOf h o = [] ∨ h.nodes = []) :
    incidence h o = ⟨[], [], []⟩ := by
  unfold incidence
  rcases hd with hd | hd <;> simp [hd]

theorem incidence_mat_isEmpty (h : Net) (o : Option Nat) :
    (incidence h o).mat.isEmpty = true ↔ (edgesOf h o = [] ∨ h.nodes = []) := by
  constructor
  · intro hm
    by_contra hc
    push Not at hc
    rw [incidence_nondeg h o hc.1 hc.2] at hm
    simp [List.isEmpty_iff, hc.2] at hm
  · intro hd; rw [incidence_deg h o hd]; rfl

theorem phi_zero (s : Int) (w : Bool) (hs : 1 ≤ s) : phi s w 0 = 0 := by
  unfold phi; have : ¬ s ≤ 0 := by omega
  simp [this]

theorem cnt_nil (n m : PyId) : cnt [] n m = 0 := rfl
theorem deg_nil (n : PyId) : deg [] n = 0 := rfl

/-- the adjacency matrix (every branch) in functional form -/
theorem adjacency_eq (h : Net) (hN : h.nodes.Nodup) (o : Option Nat) (s : Int) (w : Bool) (hs : 1 ≤ s) :
    (adjacency h o s w).1 = h.nodes.map (fun n => h.nodes.map (fun m => adjF (edgesOf h o) s w n m)) := by
  unfold adjacency
  by_cases hd : edgesOf h o = [] ∨ h.nodes = []
  · rw [incidence_deg h o hd]
    simp only [List.isEmpty_nil, if_true]
    rw [zeros_eq_map]
    rcases hd with hd | hd
    · apply List.map_congr_left; intro n _
      apply List.map_congr_left; intro m _
      simp [adjF, hd, cnt_nil, phi_zero s w hs]
    · simp [hd]
  · push Not at hd
    rw [incidence_nondeg h o hd.1 hd.2]
    have : (h.nodes.map (fun n => (edgesOf h o).map (ind n))).isEmpty = false := by
      simp [hd.2]
    simp only [this]
    simp only [Bool.false_eq_true, if_false]
    rw [mulT_map_map, zeroDiag_map_map h.nodes hN, thresh_map_map]
    rfl

theorem adjacency_labels (h : Net) (o : Option Nat) (s : Int) (w : Bool) :
    (adjacency h o s w).2 = if edgesOf h o = [] ∨ h.nodes = [] then [] else h.nodes := by
  unfold adjacency
  by_cases hd : edgesOf h o = [] ∨ h.nodes = []
  · rw [incidence_deg h o hd]; simp [hd]
  · have hd' := hd
    push Not at hd'
    rw [incidence_nondeg h o hd'.1 hd'.2]
    have : (h.nodes.map (fun n => (edgesOf h o).map (ind n))).isEmpty = false := by
      simp [hd'.2]
    simp [this, hd]

/-- the degree vector (every branch) in functional form -/
theorem degreeVec_eq (h : Net) (o : Option Nat) :
    (degreeVec h o).1 = h.nodes.map (deg (edgesOf h o)) := by
  unfold degreeVec
  by_cases hd : edgesOf h o = [] ∨ h.nodes = []
  · rw [incidence_deg h o hd]
    simp only [List.isEmpty_nil, if_true]
    rcases hd with hd | hd
    · have hz : deg ([] : List (PyId × List PyId)) = fun _ => 0 := by funext n; rfl
      simp [hd, hz, List.map_const']
    · simp [hd]
  · push Not at hd
    rw [incidence_nondeg h o hd.1 hd.2]
    have : (h.nodes.map (fun n => (edgesOf h o).map (ind n))).isEmpty = false := by
      simp [hd.2]
    simp only [this]
    simp only [Bool.false_eq_true, if_false, List.map_map]
    rfl

/-- the intersection profile in functional form -/
theorem profile_eq (h : Net) (o : Option Nat) (hn : h.nodes ≠ []) :
    (profile h o).1 = (edgesOf h o).map (fun p => (edgesOf h o).map (fun q =>
        (h.nodes.map (fun n => ind n p * ind n q)).sum)) := by
  unfold profile
  by_cases he : edgesOf h o = []
  · rw [incidence_deg h o (Or.inl he)]; simp [he, transpose, mulT]
  · rw [incidence_nondeg h o he hn]
    simp only
    rw [transpose_map_map h.nodes (edgesOf h o) (fun n p => ind n p) hn]
    exact mulT_map_map (edgesOf h o) h.nodes (fun p n => ind n p)

/-! ### Laplacian in functional form -/

/-- entry of d·K − A between labels n and m, written as (d+1)·δ·deg − cnt -/
def lapF (es : List (PyId × List PyId)) (d : Nat) (n m : PyId) : Int :=
  (if n = m then ((d : Int) + 1) * deg es n else 0) - cnt es n m

theorem adjF_one_true (es : List (PyId × List PyId)) (n m : PyId) :
    adjF es 1 true n m = if n = m then 0 else cnt es n m := by
  unfold adjF phi
  by_cases h : n = m
  · simp [h]
  · have := cnt_nonneg es n m
    simp only [h, if_false, if_true]
    by_cases h1 : 1 ≤ cnt es n m
    · simp [h1]
    · simp only [h1, if_false]; omega

theorem laplacianInt_eq (h : Net) (hN : h.nodes.Nodup) (d : Nat) :
    (laplacianInt h d).1 = h.nodes.map (fun n => h.nodes.map (fun m => lapF (edgesOf h (some d)) d n m)) := by
  unfold laplacianInt
  dsimp only
  rw [adjacency_eq h hN (some d) 1 true (le_refl 1), degreeVec_eq]
  by_cases hn : h.nodes = []
  · simp [hn]
  · have : (h.nodes.map (fun n => h.nodes.map (fun m => adjF (edgesOf h (some d)) 1 true n m))).isEmpty = false := by
      simp [hn]
    simp only [this]
    simp only [Bool.false_eq_true, if_false]
    rw [diag_map h.nodes hN, zipWith_map_same]
    apply List.map_congr_left; intro n _
    rw [zipWith_map_same]
    apply List.map_congr_left; intro m _
    rw [adjF_one_true]
    unfold lapF
    by_cases e : n = m
    · subst e; simp [cnt_self]; ring
    · simp [e]

theorem laplacianInt_labels (h : Net) (hN : h.nodes.Nodup) (d : Nat) :
    (laplacianInt h d).2 = if edgesOf h (some d) = [] ∨ h.nodes = [] then [] else h.nodes := by
  unfold laplacianInt
  dsimp only
  rw [adjacency_eq h hN (some d) 1 true (le_refl 1), adjacency_labels]
  by_cases hn : h.nodes = []
  · simp [hn]
  · have : (h.nodes.map (fun n => h.nodes.map (fun m => adjF (edgesOf h (some d)) 1 true n m))).isEmpty = false := by
      simp [hn]
    simp [this]

end Xgi.C12
