/-
  C12 — normalised Laplacian pieces (M = H W De⁻¹ Hᵀ), adjacency tensor, member lookup.
-/
import XgiModel.C12.LemmasMulti
import Mathlib.Tactic.FieldSimp

set_option linter.unnecessarySeqFocus false
set_option linter.unusedSectionVars false

namespace Xgi.C12
open Xgi

/-! ### member lookup by edge ID -/

theorem members_of_mem (h : Net) (hwf : h.WF) (p : PyId × List PyId) (hp : p ∈ h.edges) : h.members p.1 = p.2 := by
  unfold Net.members
  have hnd := hwf.2.1
  suffices hs : h.edges.find? (fun q => decide (q.1 = p.1)) = some p by simp [hs]
  generalize h.edges = l at hp hnd
  induction l with
  | nil => simp at hp
  | cons q t ih =>
    simp only [List.map_cons, List.nodup_cons] at hnd
    rcases List.mem_cons.mp hp with rfl | hp'
    · simp
    · have : q.1 ≠ p.1 := fun e => hnd.1 (by rw [e]; exact List.mem_map.mpr ⟨p, hp', rfl⟩)
      simp [this, ih hp' hnd.2]

/-! ### M = H W De⁻¹ Hᵀ in functional form -/

variable {K : Type} [Field K] [LinearOrder K] [IsStrictOrderedRing K]

/-- the indicator [n ∈ p] in the field K -/
def iq (n : PyId) (p : PyId × List PyId) : K := if n ∈ p.2 then 1 else 0

theorem cast_ind (n : PyId) (p : PyId × List PyId) : ((ind n p : Int) : K) = iq n p := by
  unfold ind iq; split <;> simp

/-- entry (n, m) of H W De⁻¹ Hᵀ over the (edge, weight) pairs -/
def normF (zw : List ((PyId × List PyId) × K)) (n m : PyId) : K :=
  (zw.map (fun pw => iq n pw.1 * (pw.2 / (pw.1.2.length : K)) * iq m pw.1)).sum

/-- weighted degree Σ_e w(e) h(n, e) -/
def degW (zw : List ((PyId × List PyId) × K)) (n : PyId) : K := (zw.map (fun pw => iq n pw.1 * pw.2)).sum

theorem dot3_eq {α : Type} (es : List α) (w : List ℚ) (f g c : α → Int) :
    dot3 (es.map f) (List.zipWith (fun x (y : Int) => x / (y : ℚ)) w (es.map c)) (es.map g)
      = ((es.zip w).map (fun pw => ((f pw.1 : Int) : ℚ) * (pw.2 / ((c pw.1 : Int) : ℚ)) * ((g pw.1 : Int) : ℚ))).sum := by
  unfold dot3
  induction es generalizing w with
  | nil => simp
  | cons a t ih =>
    cases w with
    | nil => simp
    | cons x xs =>
      simp only [List.map_cons, List.zipWith_cons_cons, List.sum_cons, List.zip_cons_cons]
      rw [ih xs]

theorem normF_symm (zw : List ((PyId × List PyId) × K)) (n m : PyId) : normF zw n m = normF zw m n := by
  unfold normF; congr 1; apply List.map_congr_left; intro pw _; ring

theorem iq_colsum (N : List PyId) (hN : N.Nodup) (p : PyId × List PyId) (hp : p.2.Nodup)
    (hsub : ∀ a ∈ p.2, a ∈ N) : (N.map (fun n => iq n p)).sum = (p.2.length : K) := by
  have := sum_ind_mem (R := K) N hN p.2 hp hsub (fun _ => 1)
  simp only [mul_one] at this
  unfold iq
  rw [this]; simp

/-- M · 1 = weighted degree (so sqrt(d) spans the kernel of the textbook matrix) -/
theorem normF_rowsum (N : List PyId) (hN : N.Nodup) (zw : List ((PyId × List PyId) × K))
    (hz : ∀ pw ∈ zw, pw.1.2.Nodup ∧ (∀ a ∈ pw.1.2, a ∈ N) ∧ pw.1.2.length ≠ 0) (n : PyId) :
    (N.map (fun m => normF zw n m)).sum = degW zw n := by
  induction zw with
  | nil => simp [normF, degW]
  | cons pw t ih =>
    have hp := hz pw (by simp)
    have hc : (pw.1.2.length : K) ≠ 0 := by exact_mod_cast hp.2.2
    have : (fun m => normF (pw :: t) n m)
        = fun m => iq n pw.1 * (pw.2 / (pw.1.2.length : K)) * iq m pw.1 + normF t n m := by
      funext m; simp [normF]
    rw [this, List.sum_map_add, List.sum_map_mul_left, iq_colsum N hN pw.1 hp.1 hp.2.1,
      ih (fun q hq => hz q (by simp [hq]))]
    simp only [degW, List.map_cons, List.sum_cons]
    field_simp

/-- Σ_n d(n) y_n² − yᵀ M y = Σ_e (w_e/|e|) Σ_{a<b ∈ e} (y_a − y_b)², d = weighted degree -/
theorem normF_quad (N : List PyId) (hN : N.Nodup) (zw : List ((PyId × List PyId) × K))
    (hz : ∀ pw ∈ zw, pw.1.2.Nodup ∧ (∀ a ∈ pw.1.2, a ∈ N) ∧ pw.1.2.length ≠ 0) (y : PyId → K) :
    quadF N (fun n m => (if n = m then degW zw n else 0) - normF zw n m) y
      = (zw.map (fun pw => pw.2 / (pw.1.2.length : K) *
          ((pairs pw.1.2).map (fun ab => (y ab.1 - y ab.2) ^ 2)).sum)).sum := by
  induction zw with
  | nil => simp [normF, degW, quadF_zero]
  | cons pw t ih =>
    have hp := hz pw (by simp)
    have hc : (pw.1.2.length : K) ≠ 0 := by exact_mod_cast hp.2.2
    have hsplit : (fun n m => (if n = m then degW (pw :: t) n else 0) - normF (pw :: t) n m)
        = fun n m => ((if n = m then iq n pw.1 * pw.2 else 0)
              - iq n pw.1 * (pw.2 / (pw.1.2.length : K)) * iq m pw.1)
            + ((if n = m then degW t n else 0) - normF t n m) := by
      funext n m; simp only [normF, degW, List.map_cons, List.sum_cons]; split <;> ring
    rw [hsplit, quadF_add, ih (fun q hq => hz q (by simp [hq]))]
    simp only [List.map_cons, List.sum_cons]
    congr 1
    -- the single edge
    rw [← lagrange]
    unfold quadF
    have hS1 := sum_ind_mem (R := K) N hN pw.1.2 hp.1 hp.2.1 y
    have hS2 := sum_ind_mem (R := K) N hN pw.1.2 hp.1 hp.2.1 (fun a => y a * y a)
    have inner : ∀ n ∈ N, (N.map (fun m => ((if n = m then iq n pw.1 * pw.2 else 0)
          - iq n pw.1 * (pw.2 / (pw.1.2.length : K)) * iq m pw.1) * y m)).sum
        = iq n pw.1 * pw.2 * y n - iq n pw.1 * (pw.2 / (pw.1.2.length : K)) * (pw.1.2.map y).sum := by
      intro n hn
      simp only [sub_mul]
      rw [sum_map_sub']
      have e1 : (N.map (fun m => (if n = m then iq n pw.1 * pw.2 else 0) * y m))
          = N.map (fun m => if n = m then iq n pw.1 * pw.2 * y m else 0) := by
        apply List.map_congr_left; intro m _; split <;> simp
      rw [e1, sum_map_ite_eq N hN n hn (fun m => iq n pw.1 * pw.2 * y m)]
      have e2 : (N.map (fun m => iq n pw.1 * (pw.2 / (pw.1.2.length : K)) * iq m pw.1 * y m))
          = N.map (fun m => iq n pw.1 * (pw.2 / (pw.1.2.length : K)) * ((if m ∈ pw.1.2 then 1 else 0) * y m)) := by
        apply List.map_congr_left; intro m _; unfold iq; ring
      rw [e2, List.sum_map_mul_left, hS1]
    rw [List.map_congr_left (fun n hn => by rw [inner n hn])]
    have e3 : (N.map (fun n => y n * (iq n pw.1 * pw.2 * y n
          - iq n pw.1 * (pw.2 / (pw.1.2.length : K)) * (pw.1.2.map y).sum)))
        = N.map (fun n => pw.2 * ((if n ∈ pw.1.2 then 1 else 0) * (y n * y n))
          - (pw.2 / (pw.1.2.length : K)) * (pw.1.2.map y).sum * ((if n ∈ pw.1.2 then 1 else 0) * y n)) := by
      apply List.map_congr_left; intro n _; unfold iq; ring
    rw [e3, sum_map_sub', List.sum_map_mul_left, List.sum_map_mul_left, hS1, hS2]
    field_simp

theorem normF_quad_nonneg (N : List PyId) (hN : N.Nodup) (zw : List ((PyId × List PyId) × K))
    (hz : ∀ pw ∈ zw, pw.1.2.Nodup ∧ (∀ a ∈ pw.1.2, a ∈ N) ∧ pw.1.2.length ≠ 0)
    (hw : ∀ pw ∈ zw, 0 ≤ pw.2) (y : PyId → K) :
    0 ≤ quadF N (fun n m => (if n = m then degW zw n else 0) - normF zw n m) y := by
  rw [normF_quad N hN zw hz]
  apply List.sum_nonneg; intro v hv
  simp only [List.mem_map] at hv
  obtain ⟨pw, hpw, rfl⟩ := hv
  exact mul_nonneg (div_nonneg (hw pw hpw) (by positivity)) (pairs_sq_nonneg _ _)

/-- with unit weights the weighted degree is the degree -/
theorem degW_ones (es : List (PyId × List PyId)) (w : List ℚ) (hw : ∀ x ∈ w, x = 1) (hl : w.length = es.length) (n : PyId) :
    degW (es.zip w) n = ((deg es n : Int) : ℚ) := by
  unfold degW deg
  induction es generalizing w with
  | nil => simp
  | cons p t ih =>
    cases w with
    | nil => simp at hl
    | cons x xs =>
      have hx : x = 1 := hw x (by simp)
      simp only [List.zip_cons_cons, List.map_cons, List.sum_cons]
      rw [ih xs (fun y hy => hw y (by simp [hy])) (by simpa using hl)]
      push_cast
      rw [cast_ind, hx]; ring

/-! ### the model's `normalized` in functional form -/

/-- the weight list the code uses: the `weight` attributes (default 1), or all ones -/
def weightsOf (h : Net) (weighted : Bool) (ws : List (Option ℚ)) : List ℚ :=
  if weighted then ws.map (fun o => o.getD 1) else h.edges.map (fun _ => 1)

theorem normalized_eq (h : Net) (hwf : h.WF) (weighted : Bool) (ws : List (Option ℚ)) (r : Norm)
    (hr : normalized h weighted ws = .ok r) :
    r.m = h.nodes.map (fun n => h.nodes.map (fun m => normF (h.edges.zip (weightsOf h weighted ws)) n m)) ∧
    r.dv = h.nodes.map (fun n => ((deg h.edges n : Int) : ℚ)) ∧ r.rows = h.nodes ∧
    (∀ n ∈ h.nodes, ∃ p ∈ h.edges, n ∈ p.2) ∧
    (h.nodes ≠ [] → ∀ p ∈ h.edges, p.2.length ≠ 0) := by
  unfold normalized at hr
  split at hr
  · cases hr
  · rename_i hiso
    have hcov : ∀ n ∈ h.nodes, ∃ p ∈ h.edges, n ∈ p.2 := by
      intro n hn
      by_contra hc
      apply hiso
      rw [List.any_eq_true]
      refine ⟨n, hn, ?_⟩
      rw [List.all_eq_true]
      intro p hp
      simp only [Bool.not_eq_true', decide_eq_false_iff_not]
      exact fun hm => hc ⟨p, hp, hm⟩
    dsimp only at hr
    by_cases hn : h.nodes = []
    · rw [incidence_deg h none (Or.inr hn)] at hr
      simp [transpose] at hr
      subst hr
      simp [hn]
    · obtain ⟨n0, hn0⟩ := List.exists_mem_of_ne_nil _ hn
      obtain ⟨p0, hp0, _⟩ := hcov n0 hn0
      have he : edgesOf h none ≠ [] := by
        simp only [edgesOf]; exact List.ne_nil_of_mem hp0
      rw [incidence_nondeg h none he hn] at hr
      simp only [edgesOf] at hr
      simp only [transpose_map_map h.nodes h.edges (fun n p => ind n p) hn] at hr
      split at hr
      · cases hr
      · rename_i hde
        simp only [Res.ok.injEq] at hr
        subst hr
        have hlen : ∀ p ∈ h.edges, (h.nodes.map (fun n => ind n p)).sum = (p.2.length : Int) :=
          fun p hp => colsum_eq_length h.nodes hwf.1 p (hwf.2.2 p hp).1 (hwf.2.2 p hp).2
        have hnz : ∀ p ∈ h.edges, p.2.length ≠ 0 := by
          intro p hp hz
          apply hde
          rw [List.any_eq_true]
          refine ⟨(h.nodes.map (fun n => ind n p)).sum, ?_, ?_⟩
          · simp only [List.map_map, List.mem_map]; exact ⟨p, hp, rfl⟩
          · rw [hlen p hp, hz]; rfl
        refine ⟨?_, ?_, rfl, hcov, fun _ => hnz⟩
        · simp only [List.map_map]
          apply List.map_congr_left; intro n _
          simp only [Function.comp_apply]
          apply List.map_congr_left; intro m _
          simp only [Function.comp_apply, Function.comp_def]
          have := dot3_eq h.edges (weightsOf h weighted ws) (fun p => ind n p) (fun p => ind m p)
            (fun p => (h.nodes.map (fun n => ind n p)).sum)
          unfold weightsOf at this ⊢
          rw [this]
          unfold normF
          congr 1
          apply List.map_congr_left; intro pw hpw
          have hmem : pw.1 ∈ h.edges := (List.of_mem_zip hpw).1
          rw [hlen pw.1 hmem, cast_ind, cast_ind]
          push_cast; rfl
        · simp only [List.map_map]
          apply List.map_congr_left; intro n _
          simp [deg]

theorem zw_good (h : Net) (hwf : h.WF) (w : List ℚ) (hnz : ∀ p ∈ h.edges, p.2.length ≠ 0) :
    ∀ pw ∈ h.edges.zip w, pw.1.2.Nodup ∧ (∀ a ∈ pw.1.2, a ∈ h.nodes) ∧ pw.1.2.length ≠ 0 := by
  intro pw hpw
  have hmem := (List.of_mem_zip hpw).1
  exact ⟨(hwf.2.2 pw.1 hmem).1, (hwf.2.2 pw.1 hmem).2, hnz pw.1 hmem⟩

/-! ### adjacency tensor -/

theorem tuples_mem (n k : Nat) (t : List Nat) : t ∈ tuples n k ↔ t.length = k ∧ ∀ i ∈ t, i < n := by
  induction k generalizing t with
  | zero =>
    simp only [tuples, List.mem_singleton, List.length_eq_zero_iff]
    constructor
    · rintro rfl; simp
    · exact fun h => h.1
  | succ k ih =>
    simp only [tuples, List.mem_flatMap, List.mem_range, List.mem_map]
    constructor
    · rintro ⟨i, hi, s, hs, rfl⟩
      obtain ⟨h1, h2⟩ := (ih s).mp hs
      refine ⟨by simp [h1], ?_⟩
      intro j hj
      rcases List.mem_cons.mp hj with rfl | hj
      · exact hi
      · exact h2 j hj
    · rintro ⟨hl, hlt⟩
      cases t with
      | nil => simp at hl
      | cons i s =>
        refine ⟨i, hlt i (by simp), s, (ih s).mpr ⟨by simpa using hl, fun j hj => hlt j (by simp [hj])⟩, rfl⟩

theorem fact_pos (n : Nat) : 0 < fact n := by
  induction n with
  | zero => simp [fact]
  | succ n ih => simp only [fact]; positivity

theorem tensorVal_ne_zero (h : Net) (d : Nat) (nm : Bool) (t : List Nat) :
    tensorVal h d nm t ≠ 0 ↔
      ∃ p ∈ edgesOf h (some d), (t.map (fun i => h.nodes.getD i PyId.none)).Perm p.2 := by
  unfold tensorVal
  have hv : (if nm = true then 1 / (fact d : ℚ) else 1) ≠ 0 := by
    have : (fact d : ℚ) ≠ 0 := by exact_mod_cast (fact_pos d).ne'
    split
    · exact one_div_ne_zero this
    · exact one_ne_zero
  constructor
  · intro hne
    by_contra hc
    apply hne
    rw [if_neg]
    intro hany
    rw [List.any_eq_true] at hany
    obtain ⟨p, hp, hperm⟩ := hany
    exact hc ⟨p, hp, List.isPerm_iff.mp hperm⟩
  · rintro ⟨p, hp, hperm⟩
    rw [if_pos]
    · exact hv
    · rw [List.any_eq_true]; exact ⟨p, hp, List.isPerm_iff.mpr hperm⟩

end Xgi.C12
