/-
  C12 — entry-level functional forms added after the independent review:
  * the accumulation loop of `multiorder` written out entry by entry (`multiorder_entries`): what the loop
    `for L, K, w, d in zip(Ls, Ks, weights, orders)` leaves at (n, m) is the sum of the per-order terms;
  * "the degree vector of order d is all zero" ⇔ "there is no edge of order d" for well-formed networks;
  * the weighted incidence matrix (`weight=` callback) in functional form;
  * `edgesOf` membership (moved here from Props/C12.lean: a helper, not a property statement).
-/
import XgiModel.C12.LemmasReal

set_option linter.unnecessarySeqFocus false

namespace Xgi.C12
open Xgi

/-! ### requested order -/

/-- an edge with k members has the requested order (`None` = every order) -/
def orderOK : Option Nat → Nat → Prop
  | none, _ => True
  | some d, k => k = d + 1

/-- `edgesOf` keeps exactly the edges of the requested order (all edges for `None`) -/
theorem edgesOf_mem (h : Net) (o : Option Nat) (p : PyId × List PyId) :
    p ∈ edgesOf h o ↔ p ∈ h.edges ∧ orderOK o p.2.length := by
  cases o with
  | none => simp [edgesOf, orderOK]
  | some d => simp [edgesOf, orderOK]

/-! ### weighted incidence matrix -/

theorem incidenceW_nondeg (h : Net) (o : Option Nat) (w : PyId → PyId → Int) (he : edgesOf h o ≠ []) (hn : h.nodes ≠ []) :
    incidenceW h o w = ⟨h.nodes.map (fun n => (edgesOf h o).map (indW w n)), h.nodes, (edgesOf h o).map (·.1)⟩ := by
  unfold incidenceW
  have h1 : (edgesOf h o).isEmpty = false := by simpa [List.isEmpty_iff] using he
  have h2 : h.nodes.isEmpty = false := by simpa [List.isEmpty_iff] using hn
  simp [h1, h2]

theorem incidenceW_deg (h : Net) (o : Option Nat) (w : PyId → PyId → Int) (hd : edgesOf h o = [] ∨ h.nodes = []) :
    incidenceW h o w = ⟨[], [], []⟩ := by
  unfold incidenceW
  rcases hd with hd | hd <;> simp [hd]

/-! ### "no edge of order d" -/

/-- for a well-formed network the order-d degree vector is all zero exactly when there is no edge of order d
    (the test `np.all(K == 0)` of the multi-order loop) -/
theorem degreeVec_all_zero_iff (h : Net) (hwf : h.WF) (d : Nat) :
    (degreeVec h (some d)).1.all (· == 0) = true ↔ edgesOf h (some d) = [] := by
  rw [degreeVec_eq]
  constructor
  · intro hall
    by_contra hne
    obtain ⟨p, hp⟩ := List.exists_mem_of_ne_nil _ hne
    obtain ⟨hnd, hsub, hlen⟩ := edgesOf_some_good h hwf d p hp
    cases hm : p.2 with
    | nil => rw [hm] at hlen; simp at hlen
    | cons a t =>
      have ha : a ∈ p.2 := by rw [hm]; simp
      have hz : deg (edgesOf h (some d)) a = 0 := by
        rw [List.all_eq_true] at hall
        have := hall (deg (edgesOf h (some d)) a) (List.mem_map.mpr ⟨a, hsub a ha, rfl⟩)
        simpa using this
      have := deg_pos_of_mem (edgesOf h (some d)) a p hp ha
      omega
  · intro he
    rw [he, List.all_eq_true]
    intro x hx
    simp only [List.mem_map] at hx
    obtain ⟨n, _, rfl⟩ := hx
    simp [deg]

/-! ### the multi-order accumulation loop, entry by entry -/

/-- one step of the loop on matrices in functional form -/
theorem multiStep_fun (N : List PyId) (A F : PyId → PyId → ℚ) (K : List Int) (w : ℚ) :
    multiStep (N.map (fun n => N.map (A n))) (N.map (fun n => N.map (F n)), K, w)
      = N.map (fun n => N.map (fun m => A n m + (if K.all (· == 0) then 0 else F n m * w / mean K))) := by
  unfold multiStep
  dsimp only
  split
  · apply List.map_congr_left; intro n _
    apply List.map_congr_left; intro m _
    simp
  · unfold addQ scaleQ
    rw [List.map_map, zipWith_map_same]
    apply List.map_congr_left; intro n _
    simp only [Function.comp_apply, List.map_map]
    rw [zipWith_map_same]
    rfl

/-- the contribution of one (order, weight) pair to entry (n, m), as the loop computes it -/
def termF (h : Net) (rescale : Bool) (d : Nat) (w : ℚ) (n m : PyId) : ℚ :=
  if (degreeVec h (some d)).1.all (· == 0) then 0
  else ((lapF (edgesOf h (some d)) d n m : Int) : ℚ) * (if rescale then ((d : ℚ))⁻¹ else 1) * w
        / mean (degreeVec h (some d)).1

theorem multi_fold_eq (h : Net) (hN : h.nodes.Nodup) (rescale : Bool) :
    ∀ (orders : List Nat) (weights : List ℚ) (Ls : List (QMat × List PyId)) (A : PyId → PyId → ℚ),
      orders.mapM (fun d => laplacian h d rescale) = some Ls →
      (List.zip (Ls.map (·.1)) (List.zip (orders.map (fun d => (degreeVec h (some d)).1)) weights)).foldl multiStep
          (h.nodes.map (fun n => h.nodes.map (A n)))
        = h.nodes.map (fun n => h.nodes.map (fun m => A n m +
            ((List.zip orders weights).map (fun dw => termF h rescale dw.1 dw.2 n m)).sum)) := by
  intro orders
  induction orders with
  | nil =>
    intro weights Ls A hLs
    simp at hLs
    subst hLs
    simp
  | cons d ds ih =>
    intro weights Ls A hLs
    rw [List.mapM_cons] at hLs
    cases hd : laplacian h d rescale with
    | none => simp [hd] at hLs
    | some L0 =>
      cases hds : ds.mapM (fun d => laplacian h d rescale) with
      | none => simp [hd, hds] at hLs
      | some Ls' =>
        simp [hd, hds] at hLs
        subst hLs
        cases weights with
        | nil => simp
        | cons w ws =>
          obtain ⟨hform, _⟩ := laplacian_eq h hN d rescale L0 hd
          simp only [List.map_cons, List.zip_cons_cons, List.foldl_cons, List.sum_cons]
          rw [hform, multiStep_fun, ih ws Ls' _ hds]
          apply List.map_congr_left; intro n _
          apply List.map_congr_left; intro m _
          unfold termF
          ring

/-- every entry of the matrix `multiorder` returns is the sum of the per-order terms -/
theorem multiorder_entries (h : Net) (hN : h.nodes.Nodup) (orders : List Nat) (weights : List ℚ) (rescale : Bool)
    (L : QMat × List PyId) (hL : multiorder h orders weights rescale = .ok L) :
    L.1 = h.nodes.map (fun n => h.nodes.map (fun m =>
      ((List.zip orders weights).map (fun dw => termF h rescale dw.1 dw.2 n m)).sum)) := by
  unfold multiorder at hL
  split at hL
  · cases hL
  · split at hL
    · cases hL
    · rename_i Ls hLs
      simp only [Res.ok.injEq] at hL
      subst hL
      have hz : zerosQ h.nodes.length h.nodes.length = h.nodes.map (fun n => h.nodes.map ((fun _ _ => (0 : ℚ)) n)) := by
        unfold zerosQ; simp [List.map_const']
      dsimp only
      rw [hz, multi_fold_eq h hN rescale orders weights Ls _ hLs]
      apply List.map_congr_left; intro n _
      apply List.map_congr_left; intro m _
      simp

end Xgi.C12

namespace Xgi.C12
open Xgi

/-! ### row-major position of an index tuple in the flattened tensor -/

/-- row-major (C order) position of the index tuple `t` in an array of shape (n,)*|t|:  Σ_j t_j · n^(|t|−1−j) -/
def flatIndex (n : Nat) : List Nat → Nat
  | [] => 0
  | i :: t => i * n ^ t.length + flatIndex n t

theorem tuples_length (n k : Nat) : (tuples n k).length = n ^ k := by
  induction k with
  | zero => simp [tuples]
  | succ k ih =>
    simp only [tuples, List.length_flatMap, List.length_map, ih]
    simp [pow_succ, mul_comm]

theorem flatIndex_lt (n : Nat) (t : List Nat) (ht : ∀ i ∈ t, i < n) : flatIndex n t < n ^ t.length := by
  induction t with
  | nil => simp [flatIndex]
  | cons i t ih =>
    have hi : i < n := ht i (by simp)
    have := ih (fun j hj => ht j (by simp [hj]))
    simp only [flatIndex, List.length_cons, pow_succ]
    calc i * n ^ t.length + flatIndex n t < i * n ^ t.length + n ^ t.length := by omega
      _ = (i + 1) * n ^ t.length := by ring
      _ ≤ n * n ^ t.length := Nat.mul_le_mul_right _ hi
      _ = n ^ t.length * n := by ring

/-- indexing into a concatenation of blocks of equal length m -/
theorem getElem?_flatMap_blocks {α β : Type} (m : Nat) (g : α → List β) :
    ∀ (xs : List α), (∀ x ∈ xs, (g x).length = m) → ∀ (j r : Nat), r < m →
      (xs.flatMap g)[j * m + r]? = (xs[j]?).bind (fun x => (g x)[r]?) := by
  intro xs
  induction xs with
  | nil => intro _ j r _; simp
  | cons x t ih =>
    intro hlen j r hr
    have hx : (g x).length = m := hlen x (by simp)
    cases j with
    | zero =>
      simp only [List.flatMap_cons, Nat.zero_mul, Nat.zero_add, List.getElem?_cons_zero, Option.bind_some]
      rw [List.getElem?_append_left (by omega)]
    | succ j =>
      simp only [List.flatMap_cons, List.getElem?_cons_succ]
      rw [List.getElem?_append_right (by rw [hx]; nlinarith)]
      have : (j + 1) * m + r - (g x).length = j * m + r := by rw [hx]; ring_nf; omega
      rw [this]
      exact ih (fun y hy => hlen y (by simp [hy])) j r hr

/-- the tuple at row-major position `flatIndex n t` of `tuples n |t|` is `t` -/
theorem tuples_getElem (n : Nat) (t : List Nat) (ht : ∀ i ∈ t, i < n) :
    (tuples n t.length)[flatIndex n t]? = some t := by
  induction t with
  | nil => simp [tuples, flatIndex]
  | cons i t ih =>
    have hi : i < n := ht i (by simp)
    have ht' : ∀ j ∈ t, j < n := fun j hj => ht j (by simp [hj])
    simp only [List.length_cons, tuples, flatIndex]
    rw [getElem?_flatMap_blocks (n ^ t.length) _ _ (by intro x _; simp [tuples_length]) i _ (flatIndex_lt n t ht')]
    simp [List.getElem?_range hi, ih ht']

end Xgi.C12
