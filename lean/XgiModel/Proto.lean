/-
  JSON line protocol shared by all drivers.  IDs: number | string | array (tuple) | null.
  Maps are arrays of [key, value] pairs in dict order; Python sets are {"$set":[…]} (the
  comparer sorts them); attribute values: number | string | null | {"$o": text} | {"$set":[…]}.
-/
import Lean.Data.Json
import XgiModel.Base
open Lean

namespace Xgi.Proto

def atomToJson : Atom → Json
  | .int i => Json.num (JsonNumber.fromInt i)
  | .str s => Json.str s
def idToJson : PyId → Json
  | .atom a => atomToJson a
  | .tup l => Json.arr (l.map atomToJson).toArray
  | .none => Json.null

def atomOfJson? : Json → Option Atom
  | .num n => if n.exponent = 0 then some (.int n.mantissa) else none
  | .str s => some (.str s)
  | _ => none
def idOfJson? : Json → Option PyId
  | .null => some .none
  | .arr a => (a.toList.mapM atomOfJson?).map .tup
  | j => (atomOfJson? j).map .atom

def idsToJson (l : List PyId) : Json := Json.arr (l.map idToJson).toArray
def setToJson (l : List PyId) : Json := Json.mkObj [("$set", idsToJson l)]
def idsOfJson? : Json → Option (List PyId)
  | .arr a => a.toList.mapM idOfJson?
  | _ => none

def scalarToJson : Scalar → Json
  | .int i => Json.num (JsonNumber.fromInt i)
  | .str s => Json.str s
  | .none => Json.null
  | .opaque t => Json.mkObj [("$o", Json.str t)]
def valToJson : Val → Json
  | .sc s => scalarToJson s
  | .set l => Json.mkObj [("$set", Json.arr (l.map scalarToJson).toArray)]
def scalarOfJson? : Json → Option Scalar
  | .null => some .none
  | .num n => if n.exponent = 0 then some (.int n.mantissa) else none
  | .str s => some (.str s)
  | j => match j.getObjVal? "$o" with
    | .ok (.str t) => some (.opaque t)
    | _ => none
def valOfJson? (j : Json) : Option Val :=
  match j.getObjVal? "$set" with
  | .ok (.arr a) => (a.toList.mapM scalarOfJson?).map .set
  | _ => (scalarOfJson? j).map .sc

/-- attribute dicts are arrays of [key, value] pairs (dict order) -/
def attrsToJson (a : Attrs) : Json :=
  Json.arr (a.map (fun p => Json.arr #[Json.str p.1, valToJson p.2])).toArray
def attrsOfJson? : Json → Option Attrs
  | .arr a => a.toList.mapM (fun p => match p with
      | .arr #[.str k, v] => (valOfJson? v).map (fun v => (k, v))
      | _ => none)
  | _ => none

def getField? (j : Json) (k : String) : Option Json := (j.getObjVal? k).toOption
def getStr? (j : Json) (k : String) : Option String := match getField? j k with | some (.str s) => some s | _ => none
def getBool? (j : Json) (k : String) : Option Bool := match getField? j k with | some (.bool b) => some b | _ => none
def getInt? (j : Json) (k : String) : Option Int := match getField? j k with
  | some (.num n) => if n.exponent = 0 then some n.mantissa else none | _ => none
def getNat? (j : Json) (k : String) : Option Nat := (getInt? j k).bind (fun i => if i ≥ 0 then some i.toNat else none)
def getArr? (j : Json) (k : String) : Option (List Json) := match getField? j k with | some (.arr a) => some a.toList | _ => none
def getId? (j : Json) (k : String) : Option PyId := (getField? j k).bind idOfJson?
def getIds? (j : Json) (k : String) : Option (List PyId) := (getField? j k).bind idsOfJson?
def getAttrs? (j : Json) (k : String) : Option Attrs := (getField? j k).bind attrsOfJson?

def intJson (i : Int) : Json := Json.num (JsonNumber.fromInt i)
def natJson (n : Nat) : Json := Json.num (JsonNumber.fromNat n)
def badOp : Json := Json.mkObj [("out", Json.str "bad-op")]

/-- read request lines from stdin, thread a state, write one response line per request -/
partial def loop {σ : Type} (hin hout : IO.FS.Stream) (st : σ) (f : σ → Json → σ × Json) : IO Unit := do
  let line ← hin.getLine
  if line.isEmpty then return ()
  let t := line.trimAscii.toString
  if t.isEmpty then loop hin hout st f else
  match Json.parse t with
  | .error _ => hout.putStrLn (badOp.compress); loop hin hout st f
  | .ok j =>
    let (st', r) := f st j
    hout.putStrLn r.compress
    loop hin hout st' f

def runDriver {σ : Type} (init : σ) (f : σ → Json → σ × Json) : IO Unit := do
  let hin ← IO.getStdin
  let hout ← IO.getStdout
  loop hin hout init f
  hout.flush

end Xgi.Proto
