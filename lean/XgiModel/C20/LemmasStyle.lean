/-
  C20 — helper lemmas for Props/C20.lean: layout key constructions (dedup / zip / range) and per-ID style dicts;
  plus the model sanity lemmas that merely restate a definition (`markers_eq`, `edgePositions_eq`, `segments_edges`):
  they are not counted as property theorems.
-/
import XgiModel.C20.Draw
import XgiModel.C20.Lemmas

namespace Xgi.C20
open Xgi

/-! ### model sanity lemmas (definitional restatements) -/

/-- `markers` is `pos` mapped over the node view -/
theorem markers_eq (h : Net) (pos : Pos) :
    (markers h pos).length = h.nodes.length ∧
    ∀ i (hi : i < h.nodes.length), (markers h pos)[i]? = some (pos h.nodes[i]) := by
  refine ⟨by simp [markers], ?_⟩
  intro i hi
  simp [markers, List.getElem?_eq_getElem hi]

/-- `edgePositions` is keyed by the edge view, in order -/
theorem edgePositions_eq (h : Net) (pos : Pos) :
    (edgePositions h pos).map (·.1) = h.edgeIds ∧
    ∀ i (hi : i < h.edges.length), (edgePositions h pos)[i]? = some (h.edges[i].1, barycenter pos h.edges[i].2) := by
  refine ⟨by simp [edgePositions, Net.edgeIds], ?_⟩
  intro i hi
  simp [edgePositions, List.getElem?_eq_getElem hi]

/-- the edges of the segments are the two-member edges, in edge order -/
theorem segments_edges (h : Net) (pos : Pos) :
    (segments h pos).map (·.e) = h.edges.filter (fun p => p.2.length = 2) := by
  simp [segments, dyads, segOf, List.map_map, Function.comp_def]

/-! ### dedup / zip / range -/

theorem foldl_ins_of_nodup {α} [DecidableEq α] (l acc : List α) (h : (acc ++ l).Nodup) :
    l.foldl (fun acc x => ins x acc) acc = acc ++ l := by
  induction l generalizing acc with
  | nil => simp
  | cons a t ih =>
    have ha : a ∉ acc := by
      intro hc
      rw [List.nodup_append] at h
      exact h.2.2 a hc a (by simp) rfl
    simp only [List.foldl_cons]
    have : ins a acc = acc ++ [a] := by unfold ins; simp [ha]
    rw [this, ih (acc ++ [a]) (by simpa using h)]
    simp

theorem dedup_of_nodup {α} [DecidableEq α] (l : List α) (h : l.Nodup) : dedup l = l := by
  unfold dedup
  simpa using foldl_ins_of_nodup l [] (by simpa using h)

theorem zipKeys_self (l : List PyId) (h : l.Nodup) : zipKeys l l.length = l := by
  unfold zipKeys
  rw [List.map_fst_zip (by simp)]
  exact dedup_of_nodup l h

theorem range_map_getD {α} (l : List α) (f : Nat → α) :
    (List.range l.length).map (fun i => (l[i]?).getD (f i)) = l := by
  apply List.ext_getElem
  · simp
  · intro i h1 h2
    simp at h1
    simp [h1]

theorem nodup_range_append_range' (n m : Nat) : (List.range n ++ List.range' n m).Nodup := by
  rw [List.nodup_append]
  refine ⟨List.nodup_range, List.nodup_range', ?_⟩
  intro a ha b hb
  simp at ha
  simp [List.mem_range'_1] at hb
  omega

/-! ### per-ID dicts -/

theorem get?_cons (p : PyId × SVal) (t : SDict) (i : PyId) :
    SDict.get? (p :: t) i = if p.1 = i then some p.2 else SDict.get? t i := by
  unfold SDict.get?
  by_cases hp : p.1 = i
  · simp [hp]
  · simp [hp]

theorem get?_eq_none_iff (d : SDict) (i : PyId) : d.get? i = none ↔ i ∉ d.map (·.1) := by
  induction d with
  | nil => simp [SDict.get?]
  | cons p t ih =>
    rw [get?_cons]
    by_cases hp : p.1 = i
    · simp [hp]
    · simp only [hp, if_false, ih, List.map_cons, List.mem_cons]
      constructor
      · intro h1 h2; rcases h2 with h2 | h2
        · exact hp h2.symm
        · exact h1 h2
      · intro h1 h2; exact h1 (Or.inr h2)

theorem get?_eq_some_iff (d : SDict) (hd : (d.map (·.1)).Nodup) (i : PyId) (v : SVal) :
    d.get? i = some v ↔ (i, v) ∈ d := by
  induction d with
  | nil => simp [SDict.get?]
  | cons p t ih =>
    have hd' : (t.map (·.1)).Nodup := (List.nodup_cons.mp (by simpa using hd)).2
    have hp' : p.1 ∉ t.map (·.1) := (List.nodup_cons.mp (by simpa using hd)).1
    rw [get?_cons]
    by_cases hp : p.1 = i
    · simp only [hp, if_true, List.mem_cons]
      constructor
      · intro h; left; cases p; simp at hp h; simp [hp, h]
      · rintro (h | h)
        · cases p; simp at h; simp [h.2]
        · exfalso; apply hp'; rw [hp]; exact List.mem_map.mpr ⟨(i, v), h, rfl⟩
    · simp only [hp, if_false, ih hd', List.mem_cons]
      constructor
      · intro h; exact Or.inr h
      · rintro (h | h)
        · exfalso; apply hp; rw [← h]
        · exact h

/-- the lookup function does not depend on the order of the dict's entries -/
theorem get?_perm {d d' : SDict} (hd : (d.map (·.1)).Nodup) (hp : d.Perm d') (i : PyId) :
    d.get? i = d'.get? i := by
  have hd' : (d'.map (·.1)).Nodup := (hp.map _).nodup_iff.mp hd
  apply Option.ext
  intro v
  rw [get?_eq_some_iff d hd, get?_eq_some_iff d' hd']
  exact hp.mem_iff

/-- a `filterMap` that keeps the length keeps every element -/
theorem forall2_filterMap_of_length {α β} (f : α → Option β) (l : List α)
    (h : (l.filterMap f).length = l.length) : List.Forall₂ (fun a b => f a = some b) l (l.filterMap f) := by
  induction l with
  | nil => simp
  | cons a t ih =>
    cases ha : f a with
    | none =>
      rw [List.filterMap_cons_none ha] at h
      have := List.length_filterMap_le f t
      simp at h; omega
    | some b =>
      rw [List.filterMap_cons_some ha] at h ⊢
      exact List.Forall₂.cons ha (ih (by simpa using h))

theorem forall2_filterMap_pair {ι α β} (R : α → β → Prop) (f : ι → Option α) (g : ι → Option β) (l : List ι)
    (h : ∀ i, (f i = none ∧ g i = none) ∨ ∃ a b, f i = some a ∧ g i = some b ∧ R a b) :
    List.Forall₂ R (l.filterMap f) (l.filterMap g) := by
  induction l with
  | nil => simp
  | cons i t ih =>
    rcases h i with ⟨h1, h2⟩ | ⟨a, b, h1, h2, h3⟩
    · rw [List.filterMap_cons_none h1, List.filterMap_cons_none h2]; exact ih
    · rw [List.filterMap_cons_some h1, List.filterMap_cons_some h2]; exact List.Forall₂.cons h3 ih

theorem forall2_getElem? {α β} {R : α → β → Prop} {l₁ : List α} {l₂ : List β} (h : List.Forall₂ R l₁ l₂) (i : Nat) :
    (l₁[i]? = none ∧ l₂[i]? = none) ∨ ∃ a b, l₁[i]? = some a ∧ l₂[i]? = some b ∧ R a b := by
  induction h generalizing i with
  | nil => left; simp
  | cons hab _ ih =>
    cases i with
    | zero => right; exact ⟨_, _, by simp, by simp, hab⟩
    | succ j => simpa using ih j

end Xgi.C20
