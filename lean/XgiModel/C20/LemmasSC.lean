/-
  C20 — lemmas for the simplicial-complex path of `draw_simplices` (sets as lists, merging duplicate edges,
  pairs, maximal simplices).
-/
import XgiModel.C20.Draw
import Mathlib.Data.List.Perm.Subperm

namespace Xgi.C20
open Xgi

theorem isSub_iff (a b : List PyId) : isSub a b = true ↔ ∀ x ∈ a, x ∈ b := by
  unfold isSub; simp
theorem sameSet_iff (a b : List PyId) : sameSet a b = true ↔ ∀ x, x ∈ a ↔ x ∈ b := by
  unfold sameSet; simp [isSub_iff]; constructor
  · rintro ⟨h1, h2⟩ x; exact ⟨h1 x, h2 x⟩
  · intro h; exact ⟨fun x => (h x).1, fun x => (h x).2⟩
theorem sameSet_refl (a : List PyId) : sameSet a a = true := by rw [sameSet_iff]; simp
theorem sameSet_symm {a b : List PyId} (h : sameSet a b = true) : sameSet b a = true := by
  rw [sameSet_iff] at *; intro x; exact (h x).symm
theorem sameSet_trans {a b c : List PyId} (h1 : sameSet a b = true) (h2 : sameSet b c = true) : sameSet a c = true := by
  rw [sameSet_iff] at *; intro x; exact (h1 x).trans (h2 x)

/-! dedupSetsAux -/
theorem dedupSetsAux_subset (seen l : List Edge) : ∀ e ∈ dedupSetsAux seen l, e ∈ l := by
  induction l generalizing seen with
  | nil => simp [dedupSetsAux]
  | cons p t ih =>
    intro e he
    unfold dedupSetsAux at he
    split at he
    · exact List.mem_cons_of_mem _ (ih _ e he)
    · rcases List.mem_cons.mp he with rfl | he
      · exact List.mem_cons_self
      · exact List.mem_cons_of_mem _ (ih _ e he)

theorem dedupSetsAux_complete (seen l : List Edge) :
    ∀ e ∈ l, (∃ q ∈ seen, sameSet e.2 q.2 = true) ∨ ∃ e' ∈ dedupSetsAux seen l, sameSet e.2 e'.2 = true := by
  induction l generalizing seen with
  | nil => simp
  | cons p t ih =>
    intro e he
    unfold dedupSetsAux
    by_cases hs : (seen.any fun q => sameSet p.2 q.2) = true
    · simp only [hs, if_true]
      rcases List.mem_cons.mp he with rfl | he
      · left; simpa using hs
      · exact ih seen e he
    · have hs' : (seen.any fun q => sameSet p.2 q.2) = false := by simpa using hs
      simp only [hs', Bool.false_eq_true, if_false]
      rcases List.mem_cons.mp he with rfl | he
      · right; exact ⟨e, List.mem_cons_self, sameSet_refl _⟩
      · rcases ih (p :: seen) e he with ⟨q, hq, hqs⟩ | ⟨e', he', hes⟩
        · rcases List.mem_cons.mp hq with rfl | hq
          · right; exact ⟨q, List.mem_cons_self, hqs⟩
          · left; exact ⟨q, hq, hqs⟩
        · right; exact ⟨e', List.mem_cons_of_mem _ he', hes⟩

theorem dedupSetsAux_distinct (seen l : List Edge) :
    (dedupSetsAux seen l).Pairwise (fun a b => sameSet a.2 b.2 = false) ∧
    ∀ e ∈ dedupSetsAux seen l, ∀ q ∈ seen, sameSet e.2 q.2 = false := by
  induction l generalizing seen with
  | nil => simp [dedupSetsAux]
  | cons p t ih =>
    unfold dedupSetsAux
    by_cases hs : (seen.any fun q => sameSet p.2 q.2) = true
    · simp only [hs, if_true]; exact ih seen
    · have hs' : (seen.any fun q => sameSet p.2 q.2) = false := by simpa using hs
      simp only [hs', Bool.false_eq_true, if_false]
      obtain ⟨h1, h2⟩ := ih (p :: seen)
      refine ⟨?_, ?_⟩
      · rw [List.pairwise_cons]
        refine ⟨?_, h1⟩
        intro e he
        have := h2 e he p List.mem_cons_self
        cases hc : sameSet p.2 e.2 with
        | false => rfl
        | true => rw [sameSet_symm hc] at this; exact absurd this (by simp)
      · intro e he q hq
        rcases List.mem_cons.mp he with rfl | he
        · cases hc : sameSet e.2 q.2 with
          | false => rfl
          | true => exact absurd (List.any_eq_true.mpr ⟨q, hq, hc⟩) hs
        · exact h2 e he q (List.mem_cons_of_mem _ hq)

theorem multiplicity_congr (es : List Edge) {a b : Edge} (h : sameSet a.2 b.2 = true) :
    multiplicity es a = multiplicity es b := by
  unfold multiplicity
  congr 1
  apply List.filter_congr
  intro x _
  cases h1 : sameSet a.2 x.2 with
  | true => exact (sameSet_trans (sameSet_symm h) h1).symm
  | false =>
    cases h2 : sameSet b.2 x.2 with
    | false => rfl
    | true => rw [sameSet_trans h h2] at h1; exact absurd h1 (by simp)

theorem mergeDuplicates_subset (es : List Edge) : ∀ e ∈ mergeDuplicates es, e ∈ es := by
  intro e he
  unfold mergeDuplicates at he
  rcases List.mem_append.mp he with h | h
  · exact (List.mem_filter.mp h).1
  · exact (List.mem_filter.mp (dedupSetsAux_subset _ _ e h)).1

theorem mergeDuplicates_complete (es : List Edge) :
    ∀ e ∈ es, ∃ e' ∈ mergeDuplicates es, sameSet e.2 e'.2 = true := by
  intro e he
  unfold mergeDuplicates
  by_cases hm : multiplicity es e = 1
  · exact ⟨e, List.mem_append_left _ (List.mem_filter.mpr ⟨he, by simpa using hm⟩), sameSet_refl _⟩
  · have : e ∈ es.filter (fun p => multiplicity es p ≠ 1) := List.mem_filter.mpr ⟨he, by simpa using hm⟩
    rcases dedupSetsAux_complete [] _ e this with ⟨q, hq, _⟩ | ⟨e', he', hs⟩
    · simp at hq
    · exact ⟨e', List.mem_append_right _ he', hs⟩

theorem mergeDuplicates_distinct (es : List Edge) :
    (mergeDuplicates es).Pairwise (fun a b => sameSet a.2 b.2 = false) := by
  unfold mergeDuplicates
  rw [List.pairwise_append]
  refine ⟨?_, (dedupSetsAux_distinct [] _).1, ?_⟩
  · rw [List.pairwise_iff_forall_sublist]
    intro a b hab
    have hsub : List.Sublist [a, b] es := hab.trans List.filter_sublist
    have ha : multiplicity es a = 1 := by
      have : a ∈ es.filter (fun p => multiplicity es p = 1) := hab.subset (by simp)
      simpa using (List.mem_filter.mp this).2
    cases hc : sameSet a.2 b.2 with
    | false => rfl
    | true =>
      have h2 := (hsub.filter (fun q => sameSet a.2 q.2)).length_le
      simp [List.filter, sameSet_refl, hc] at h2
      unfold multiplicity at ha
      omega
  · intro a ha b hb
    have ha1 : multiplicity es a = 1 := by simpa using (List.mem_filter.mp ha).2
    have hb1 : multiplicity es b ≠ 1 := by
      simpa using (List.mem_filter.mp (dedupSetsAux_subset _ _ b hb)).2
    cases hc : sameSet a.2 b.2 with
    | false => rfl
    | true => rw [multiplicity_congr es hc] at ha1; exact absurd ha1 hb1
theorem mem_pairsOf {l pr : List PyId} (h : pr ∈ pairsOf l) : ∃ a b, pr = [a, b] ∧ a ∈ l ∧ b ∈ l := by
  induction l with
  | nil => simp [pairsOf] at h
  | cons x t ih =>
    simp only [pairsOf, List.mem_append, List.mem_map] at h
    rcases h with ⟨b, hb, rfl⟩ | h
    · exact ⟨x, b, rfl, List.mem_cons_self, List.mem_cons_of_mem _ hb⟩
    · obtain ⟨a, b, rfl, ha, hb⟩ := ih h
      exact ⟨a, b, rfl, List.mem_cons_of_mem _ ha, List.mem_cons_of_mem _ hb⟩

theorem pairsOf_complete {l : List PyId} {a b : PyId} (ha : a ∈ l) (hb : b ∈ l) (hab : a ≠ b) :
    ∃ pr ∈ pairsOf l, sameSet pr [a, b] = true := by
  induction l with
  | nil => simp at ha
  | cons x t ih =>
    simp only [pairsOf, List.mem_append, List.mem_map]
    rcases List.mem_cons.mp ha with rfl | ha' <;> rcases List.mem_cons.mp hb with rfl | hb'
    · exact absurd rfl hab
    · exact ⟨[a, b], Or.inl ⟨b, hb', rfl⟩, by rw [sameSet_iff]; simp⟩
    · exact ⟨[b, a], Or.inl ⟨a, ha', rfl⟩, by rw [sameSet_iff]; intro x; simp; exact Or.comm⟩
    · obtain ⟨pr, hpr, hs⟩ := ih ha' hb'
      exact ⟨pr, Or.inr hpr, hs⟩

theorem length_of_mem_pairsOf {l pr : List PyId} (h : pr ∈ pairsOf l) : pr.length = 2 := by
  obtain ⟨a, b, rfl, _, _⟩ := mem_pairsOf h; rfl

/-- every edge lies below a maximal one -/
theorem exists_maximal (es : List Edge) : ∀ (n : Nat) (p : Edge), p ∈ es →
    (es.filter (fun q => isSub p.2 q.2 && !isSub q.2 p.2)).length ≤ n →
    ∃ q ∈ maximalEdges es, isSub p.2 q.2 = true := by
  intro n
  induction n with
  | zero =>
    intro p hp hn
    refine ⟨p, List.mem_filter.mpr ⟨hp, ?_⟩, by rw [isSub_iff]; simp⟩
    unfold isMaximal
    rw [List.all_eq_true]
    intro q hq
    have : q ∉ es.filter (fun q => isSub p.2 q.2 && !isSub q.2 p.2) := by
      have : es.filter (fun q => isSub p.2 q.2 && !isSub q.2 p.2) = [] := List.eq_nil_of_length_eq_zero (by omega)
      simp [this]
    simp only [List.mem_filter, hq, true_and] at this
    cases h1 : isSub p.2 q.2 <;> cases h2 : isSub q.2 p.2 <;> simp_all
  | succ n ih =>
    intro p hp hn
    by_cases hmax : isMaximal es p = true
    · exact ⟨p, List.mem_filter.mpr ⟨hp, hmax⟩, by rw [isSub_iff]; simp⟩
    · unfold isMaximal at hmax
      rw [List.all_eq_true] at hmax
      have hmax' : ∃ q, q ∈ es ∧ ¬ ((!isSub p.2 q.2 || isSub q.2 p.2) = true) := by
        apply Classical.byContradiction
        intro hc
        apply hmax
        intro q hq
        apply Classical.byContradiction
        intro hq2
        exact hc ⟨q, hq, hq2⟩
      obtain ⟨q, hq, hqn⟩ := hmax'
      have hpq : isSub p.2 q.2 = true ∧ isSub q.2 p.2 = false := by
        cases h1 : isSub p.2 q.2 <;> cases h2 : isSub q.2 p.2 <;> simp_all
      -- strict supersets of q are strict supersets of p, and q is one of p but not of q
      have hlt : (es.filter (fun r => isSub q.2 r.2 && !isSub r.2 q.2)).length <
                 (es.filter (fun r => isSub p.2 r.2 && !isSub r.2 p.2)).length := by
        have himp : ∀ r : Edge, (isSub q.2 r.2 && !isSub r.2 q.2) = true → (isSub p.2 r.2 && !isSub r.2 p.2) = true := by
          intro r hr
          simp only [Bool.and_eq_true, Bool.not_eq_true', isSub_iff] at hr ⊢
          obtain ⟨h1, h2⟩ := hr
          have hpq1 := (isSub_iff _ _).mp hpq.1
          refine ⟨fun x hx => h1 x (hpq1 x hx), ?_⟩
          cases h3 : isSub r.2 p.2 with
          | false => rfl
          | true =>
            have h3' := (isSub_iff _ _).mp h3
            have : isSub r.2 q.2 = true := (isSub_iff _ _).mpr (fun x hx => hpq1 x (h3' x hx))
            rw [this] at h2; exact absurd h2 (by simp)
        have e1 : es.filter (fun r => isSub q.2 r.2 && !isSub r.2 q.2) =
            (es.filter (fun r => isSub p.2 r.2 && !isSub r.2 p.2)).filter (fun r => isSub q.2 r.2 && !isSub r.2 q.2) := by
          rw [List.filter_filter]
          apply List.filter_congr
          intro r _
          cases h : (isSub q.2 r.2 && !isSub r.2 q.2) with
          | false => simp
          | true => simp [himp r h]
        rw [e1]
        apply List.length_filter_lt_length_iff_exists.mpr
        refine ⟨q, List.mem_filter.mpr ⟨hq, by simp [hpq.1, hpq.2]⟩, ?_⟩
        have : isSub q.2 q.2 = true := by rw [isSub_iff]; simp
        simp [this]
      obtain ⟨m, hm, hs⟩ := ih q hq (by omega)
      refine ⟨m, hm, ?_⟩
      rw [isSub_iff] at *
      intro x hx; exact hs x (hpq.1 x hx)

theorem two_le_of_mem_pairsOf {l pr : List PyId} (h : pr ∈ pairsOf l) : 2 ≤ l.length := by
  match l, h with
  | [], h => simp [pairsOf] at h
  | [_], h => simp [pairsOf] at h
  | _ :: _ :: _, _ => simp

theorem mem_subfaces1 {ms : List (List PyId)} {pr : List PyId} :
    pr ∈ subfaces1 ms ↔ ∃ t ∈ ms, pr ∈ pairsOf t := by
  unfold subfaces1
  simp only [List.mem_flatMap]
  constructor
  · rintro ⟨t, ht, h⟩
    split at h
    · simp at h
    · exact ⟨t, ht, h⟩
  · rintro ⟨t, ht, h⟩
    refine ⟨t, ht, ?_⟩
    have := two_le_of_mem_pairsOf h
    rw [if_neg (by omega)]
    exact h

theorem zipIdx_map_members {α} (l : List (α × List PyId)) (f : Nat → PyId) :
    (l.zipIdx.map (fun p => (f p.2, p.1.2))).map (·.2) = l.map (·.2) := by
  rw [List.map_map]
  have : ((fun x : PyId × List PyId => x.2) ∘ fun p : (α × List PyId) × Nat => (f p.2, p.1.2)) =
      (fun x : α × List PyId => x.2) ∘ Prod.fst := by
    funext p; rfl
  rw [this, ← List.map_map]
  simp

theorem zipIdx_map_sets (l : List (List PyId)) (f : Nat → PyId) :
    (l.zipIdx.map (fun p => (f p.2, p.1))).map (·.2) = l := by
  rw [List.map_map]
  have : ((fun x : PyId × List PyId => x.2) ∘ fun p : List PyId × Nat => (f p.2, p.1)) = Prod.fst := by
    funext p; rfl
  rw [this]
  simp

/-- member lists of the maximal simplices of the `max_order`-truncated complex -/
def maxSets (h : Net) (mo : Option Int) : List (List PyId) :=
  (maximalEdges (truncate mo h).edges).map (·.2)

theorem fromMax_members (h : Net) : (fromMaxSimplices h).edges.map (·.2) = (maximalEdges h.edges).map (·.2) := by
  unfold fromMaxSimplices
  exact zipIdx_map_members (maximalEdges h.edges) (fun k => PyId.int (k : Int))

/-- before merging duplicates, `H_` holds the maximal simplices followed by their 2-subsets -/
theorem simplicesNet_edges (h : Net) (mo : Option Int) :
    ∃ added : List Edge, (simplicesNet h mo).edges = mergeDuplicates added ∧
      added.map (·.2) = maxSets h mo ++ subfaces1 (maxSets h mo) := by
  refine ⟨_, rfl, ?_⟩
  simp only [List.map_append, fromMax_members]
  rw [zipIdx_map_sets _ (fun k => PyId.int (((fromMaxSimplices (truncate mo h)).edges.length + k : Nat) : Int))]
  rfl

theorem nodup_pair_length {l : List PyId} {a b : PyId} (hl : l.Nodup) (hs : sameSet l [a, b] = true) (hab : a ≠ b) :
    l.length = 2 := by
  have : l.Perm [a, b] := (List.perm_ext_iff_of_nodup hl (by simp [hab])).mpr ((sameSet_iff _ _).mp hs)
  simpa using this.length_eq

/-- maximal simplices inherit duplicate-free member lists -/
theorem maxSets_nodup (h : Net) (mo : Option Int) (hnd : ∀ p ∈ h.edges, p.2.Nodup) :
    ∀ t ∈ maxSets h mo, t.Nodup := by
  intro t ht
  unfold maxSets maximalEdges at ht
  obtain ⟨p, hp, rfl⟩ := List.mem_map.mp ht
  have hp' := (List.mem_filter.mp hp).1
  refine hnd p ?_
  unfold truncate at hp'
  cases hm : truthy mo with
  | none => simpa [hm] using hp'
  | some m => rw [hm] at hp'; exact (List.mem_filter.mp hp').1

end Xgi.C20
