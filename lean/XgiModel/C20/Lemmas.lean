/-
  C20 — helper lemmas for Props/C20.lean (lists, permutations, the argsort oracle, phantom labels).
-/
import XgiModel.C20.Draw
import Mathlib.Tactic.FieldSimp
import Mathlib.Tactic.Ring
import Mathlib.Algebra.Order.Field.Rat

namespace Xgi.C20
open Xgi

theorem range'_filterMap_getElem? {α} (l : List α) (n s : Nat) :
    (List.range' s n).filterMap (fun i => l[i]?) = (l.drop s).take n := by
  induction n generalizing s with
  | zero => simp
  | succ n ih =>
    rw [List.range'_succ, List.filterMap_cons]
    by_cases hs : s < l.length
    · rw [List.getElem?_eq_getElem hs]
      simp only []
      rw [ih, List.drop_eq_getElem_cons hs, List.take_succ_cons]
    · have : l[s]? = none := by simp; omega
      rw [this]; simp only []
      rw [ih]
      have h1 : l.drop s = [] := by simp; omega
      have h2 : l.drop (s+1) = [] := by simp; omega
      rw [h1, h2]; simp

theorem range_filterMap_getElem? {α} (l : List α) : (List.range l.length).filterMap (fun i => l[i]?) = l := by
  rw [List.range_eq_range', range'_filterMap_getElem?]; simp

theorem isArgsort_iff (sizes perm : List Nat) : isArgsort sizes perm = true ↔
    perm.Perm (List.range sizes.length) ∧ perm.Pairwise (fun i j => sizes.getD i 0 ≤ sizes.getD j 0) := by
  unfold isArgsort; simp [List.isPerm_iff]

theorem polygonsWith_edges (h : Net) (pos : Pos) (m : Int) (perm : List Nat)
    (hp : perm.Perm (List.range (polyEdges h m).length)) :
    ((polygonsWith h pos m perm).map (·.e)).Perm (polyEdges h m) := by
  unfold polygonsWith
  simp only [List.map_filterMap, Option.map_map]
  have e2 : (fun (i : Nat) => Option.map ((fun x => x.e) ∘ polyOf pos) (polyEdges h m)[i]?) = fun (i : Nat) => (polyEdges h m)[i]? := by
    funext i; cases (polyEdges h m)[i]? <;> simp [polyOf]
  rw [e2]
  have h1 := (List.reverse_perm perm).trans hp
  have h2 := h1.filterMap (fun (i : Nat) => (polyEdges h m)[i]?)
  rwa [range_filterMap_getElem?] at h2


theorem polygonsWith_sorted (h : Net) (pos : Pos) (m : Int) (perm : List Nat)
    (hs : perm.Pairwise (fun i j => (sizesOf h m).getD i 0 ≤ (sizesOf h m).getD j 0)) :
    (polygonsWith h pos m perm).Pairwise (fun a b => b.e.2.length ≤ a.e.2.length) := by
  unfold polygonsWith
  rw [List.pairwise_filterMap]
  rw [List.pairwise_reverse]
  refine hs.imp ?_
  intro i j hij a ha b hb
  have key : ∀ (k : Nat) (c : Poly), (polyEdges h m)[k]?.map (polyOf pos) = some c → (sizesOf h m).getD k 0 = c.e.2.length := by
    intro k c hc
    unfold sizesOf
    cases hk : (polyEdges h m)[k]? with
    | none => simp [hk] at hc
    | some p =>
      simp [hk] at hc
      subst hc
      simp [List.getD, hk, polyOf]
  rw [key j a ha, key i b hb] at *
  exact hij

theorem ccwSort_perm (pts : List Pt) : (ccwSort pts).Perm pts := by
  unfold ccwSort
  split
  · exact List.Perm.refl _
  · exact List.mergeSort_perm _ _

theorem polygonsWith_verts (h : Net) (pos : Pos) (m : Int) (perm : List Nat) :
    ∀ p ∈ polygonsWith h pos m perm, p.verts.Perm (p.e.2.map pos) := by
  intro p hp
  unfold polygonsWith at hp
  simp only [List.mem_filterMap] at hp
  obtain ⟨i, _, hi⟩ := hp
  cases hk : (polyEdges h m)[i]? with
  | none => simp [hk] at hi
  | some q =>
    simp [hk] at hi
    subst hi
    exact ccwSort_perm _


theorem sumPts_fst (l : List Pt) : (sumPts l).1 = (l.map (·.1)).sum := by
  induction l with
  | nil => rfl
  | cons a t ih => simp [sumPts, ih]
theorem sumPts_snd (l : List Pt) : (sumPts l).2 = (l.map (·.2)).sum := by
  induction l with
  | nil => rfl
  | cons a t ih => simp [sumPts, ih]

theorem asHypergraph_nodes (c : Cls) (h : Net) : (asHypergraph c h).nodes = h.nodes := by
  cases c <;> rfl

theorem restrictKeys_of_subset (ks hv : List PyId) (hs : ∀ k ∈ ks, k ∈ hv) : restrictKeys ks hv = some ks := by
  unfold restrictKeys
  have : (ks.all fun k => decide (k ∈ hv)) = true := by simpa using hs
  simp [this]

theorem mem_intLabels (l : List PyId) (i : Int) : PyId.int i ∈ l ↔ i ∈ intLabels l := by
  induction l with
  | nil => simp [intLabels]
  | cons a t ih =>
    cases a with
    | atom a => cases a with
      | int j => simp [intLabels, ih, PyId.int]
      | str s => simp [intLabels, ih, PyId.int]
    | tup l => simp [intLabels, ih, PyId.int]
    | none => simp [intLabels, ih, PyId.int]

theorem le_maxOf (m : Int) (l : List Int) : m ≤ maxOf m l ∧ ∀ x ∈ l, x ≤ maxOf m l := by
  induction l generalizing m with
  | nil => simp [maxOf]
  | cons a t ih =>
    simp only [maxOf]
    obtain ⟨h1, h2⟩ := ih (if m < a then a else m)
    by_cases hma : m < a
    · simp only [hma, if_true] at h1 h2 ⊢
      refine ⟨by omega, ?_⟩
      intro x hx
      rcases List.mem_cons.mp hx with rfl | hx
      · exact h1
      · exact h2 x hx
    · simp only [hma, if_false] at h1 h2 ⊢
      refine ⟨h1, ?_⟩
      intro x hx
      rcases List.mem_cons.mp hx with rfl | hx
      · omega
      · exact h2 x hx

theorem lt_phantomStart (nodes : List PyId) (i : Int) (hi : PyId.int i ∈ nodes) : i < phantomStart nodes := by
  rw [mem_intLabels] at hi
  unfold phantomStart
  cases hl : intLabels nodes with
  | nil => simp [hl] at hi
  | cons a t =>
    rw [hl] at hi
    simp only []
    obtain ⟨h1, h2⟩ := le_maxOf a t
    rcases List.mem_cons.mp hi with rfl | hx
    · omega
    · have := h2 i hx; omega

end Xgi.C20
