/-
  C20 — model of xgi/drawing/layout.py (which IDs get a position, barycenters, phantom nodes) and of
  the geometric content of xgi/drawing/draw.py (`draw`, `draw_nodes`, `draw_hyperedges`, `draw_simplices`)
  over the static network `Xgi.Net` (what `H.nodes` / `H.edges.members(dtype=dict)` show, in view order;
  the member list of an edge is the iteration order of its member set).

  Positions are a total function `PyId → ℚ × ℚ` (meaningful on the keys of the `pos` dict).
  The *draw plan* is what the code hands to matplotlib:
    markers   = the `xy` array given to `ax.scatter`                       (draw_nodes)
    segments  = the `dyad_pos` array given to `LineCollection`              (draw_hyperedges)
    polygons  = the `plt.Polygon` patches given to `PatchCollection`        (draw_hyperedges)
  every entry of the plan carries the edge it was made from (ID, members) as provenance.  Per-ID style dicts
  (`node_size={id: …}`, `dyad_lw`, `edge_fc`, …) are part of the plan: the value of the k-th marker / line / polygon
  is the dict's value at that element's ID (`perId`; this is the repaired behaviour of
  proposed_fixes/C20-per-id-style-by-id.diff — the unrepaired code reads `dict.values()` positionally).
  Layout keys are computed through the construction the code performs (graph built, dict zipped, index maps).

  External libraries as pure functions / oracles: `np.argsort` is an oracle permutation (any permutation
  that sorts the sizes; the default is a stable one), `np.mean` is the exact mean over ℚ, `np.arctan2`
  is compared exactly (half-plane + cross product), networkx layouts return one position per node of the
  graph they are given (their coordinates are not modelled), matplotlib keeps what it is given.
  No Mathlib.
-/
import XgiModel.Net

namespace Xgi.C20
open Xgi

abbrev Pt := Rat × Rat
abbrev Pos := PyId → Pt
abbrev Edge := PyId × List PyId

inductive Cls where | hg | sc
  deriving DecidableEq, Repr

/-! ### layouts: which IDs receive a position -/

/-- members as sets -/
def isSub (a b : List PyId) : Bool := a.all (fun x => decide (x ∈ b))
def sameSet (a b : List PyId) : Bool := isSub a b && isSub b a

/-- `EdgeView.maximal()`: e is kept iff the edges containing all its nodes are exactly its duplicates,
    i.e. every edge that contains it is contained in it -/
def isMaximal (es : List Edge) (p : Edge) : Bool := es.all (fun q => !(isSub p.2 q.2) || isSub q.2 p.2)
def maximalEdges (es : List Edge) : List Edge := es.filter (isMaximal es)

/-- `convert.from_max_simplices(SC)`: same nodes (`add_nodes_from(SC.nodes)`), the maximal simplices as
    edges 0, 1, … in view order -/
def fromMaxSimplices (h : Net) : Net :=
  { nodes := h.nodes
    edges := (maximalEdges h.edges).zipIdx.map (fun p => (PyId.int (p.2 : Int), p.1.2)) }

/-- the conversion that `random_layout`, `pairwise_spring_layout` and the barycenter layouts apply first -/
def asHypergraph (c : Cls) (h : Net) : Net := match c with | .hg => h | .sc => fromMaxSimplices h

/-- the integer labels among the nodes (`[n for n in H.nodes if isinstance(n, int)]`) -/
def intLabels : List PyId → List Int
  | [] => []
  | .atom (.int i) :: t => i :: intLabels t
  | _ :: t => intLabels t

/-- `max(l)` of a non-empty list of ints -/
def maxOf : Int → List Int → Int
  | m, [] => m
  | m, a :: t => maxOf (if m < a then a else m) t

/-- first phantom label: `max(int labels) + 1`, or 0 when no label is an int (the `ValueError` branch) -/
def phantomStart (nodes : List PyId) : Int :=
  match intLabels nodes with
  | [] => 0
  | a :: t => maxOf a t + 1

/-- `_augmented_projection`: one phantom node per edge of order ≥ 1, labelled consecutively -/
def phantomIds (h : Net) : List PyId :=
  (List.range (h.edges.filter (fun p => 2 ≤ p.2.length)).length).map
    (fun (k : Nat) => PyId.int (phantomStart h.nodes + (k : Int)))

/-- nodes of the augmented graph `G` (networkx merges equal labels) -/
def augmentedNodes (h : Net) : List PyId := dedup (h.nodes ++ phantomIds h)

inductive Family where
  | random      -- random_layout: `dict(zip(H, pos))`
  | pairwise    -- pairwise_spring_layout: spring layout of `to_graph(H)` (nodes relabelled from `H.nodes`)
  | barycenter  -- barycenter_spring / weighted_barycenter_spring / barycenter_kamada_kawai
  | bipartite   -- bipartite_spring_layout: (node positions, edge positions)
  | circular    -- circular_layout, spiral_layout: `dict(zip(list(H.nodes), pos))`, no conversion
  deriving DecidableEq, Repr

/-- `{k: P[k] for k in ks}` over a dict with keys `have`: the keys, or `none` for `KeyError` -/
def restrictKeys (ks have_ : List PyId) : Option (List PyId) :=
  if ks.all (fun k => decide (k ∈ have_)) then some ks else none

/-- node list of a fresh `nx.Graph` after `add_nodes_from(l)`: first occurrences, in order (networkx merges
    equal labels) -/
def graphNodes {α} [DecidableEq α] (l : List α) : List α := dedup l

/-- keys of `dict(zip(keys, rows))` for an array with `n` rows: `zip` stops at the shorter argument, equal keys
    merge -/
def zipKeys (keys : List PyId) (n : Nat) : List PyId := dedup ((keys.zip (List.range n)).map (·.1))

/-- `random_layout`: `nx.drawing.layout._process_params` turns the hypergraph (not an `nx.Graph`) into an empty
    graph holding its nodes; `pos = np.random.rand(len(G), 2)`; `dict(zip(G, pos))` -/
def randomKeys (g : Net) : List PyId :=
  let gn := graphNodes g.nodes
  zipKeys gn gn.length

/-- `pairwise_spring_layout`: `convert.to_graph(H)` = the graph of the n×n adjacency matrix (nodes 0 … n-1, its
    links join these) relabelled by `{i: node for i, node in enumerate(H.nodes)}` (`mapping.get(i, i)`);
    `nx.spring_layout` returns one position per node of that graph -/
def pairwiseKeys (g : Net) : List PyId :=
  graphNodes ((List.range g.nodes.length).map (fun (i : Nat) => (g.nodes[i]?).getD (PyId.int (i : Int))))

/-- `bipartite_spring_layout`: `to_bipartite_graph(H, index=True)` numbers the nodes 0 … n-1 and the edges
    n … n+m-1 (`dict(zip(H.nodes, range(n)))`, `dict(zip(H.edges, range(n, n+m)))`, for duplicate-free ID lists),
    the graph gets these numbers as nodes (every link joins two of them), `nx.spring_layout` returns one position
    per graph node, and `{nodedict[i]: pos[i] for i in nodedict}` / `{edgedict[i]: pos[i] for i in edgedict}` map
    them back (`none` = `KeyError` on `pos[i]`) -/
def bipartiteKeys (h : Net) : Option (List PyId × List PyId) :=
  let n := h.nodes.length
  let m := h.edges.length
  let nodeDict := h.nodes.zip (List.range n)
  let edgeDict := h.edgeIds.zip (List.range' n m)
  let gn : List Nat := graphNodes (nodeDict.map (·.2) ++ edgeDict.map (·.2))
  if (nodeDict ++ edgeDict).all (fun p => decide (p.2 ∈ gn)) then
    some (dedup (nodeDict.map (·.1)), dedup (edgeDict.map (·.1)))
  else none

/-- `circular_layout` / `spiral_layout`: `{}` without nodes, `{list(H.nodes)[0]: center}` for one node, otherwise
    `dict(zip(list(H.nodes), pos))` with one row per node -/
def circularKeys (nodes : List PyId) : List PyId :=
  match nodes with
  | [] => []
  | [a] => [a]
  | _ => zipKeys nodes nodes.length

/-- keys of the returned dict(s): (node keys, edge keys — `none` when the layout returns one dict);
    outer `none` = the call raises.  Every family is the construction the code performs (the graph it builds,
    the dict it zips, the mapping back); that the result is exactly the node view (`layout_keys_spec`) is a theorem,
    not the definition -/
def layoutKeys (f : Family) (c : Cls) (h : Net) : Option (List PyId × Option (List PyId)) :=
  match f with
  | .random => some (randomKeys (asHypergraph c h), none)
  | .pairwise => some (pairwiseKeys (asHypergraph c h), none)
  | .barycenter =>
    let g := asHypergraph c h
    (restrictKeys g.nodes (augmentedNodes g)).map (fun ks => (ks, none))
  | .bipartite => (bipartiteKeys h).map (fun r => (r.1, some r.2))
  | .circular => some (circularKeys h.nodes, none)

/-! ### barycenters -/

def sumPts : List Pt → Pt
  | [] => (0, 0)
  | p :: t => (p.1 + (sumPts t).1, p.2 + (sumPts t).2)

/-- `np.mean(pts, axis=0)`; `none` = mean of nothing (NaN + RuntimeWarning) -/
def mean (pts : List Pt) : Option Pt :=
  if pts = [] then none else some ((sumPts pts).1 / (pts.length : Rat), (sumPts pts).2 / (pts.length : Rat))

def barycenter (pos : Pos) (members : List PyId) : Option Pt := mean (members.map pos)

/-- `edge_positions_from_barycenters(H, node_pos)`: keyed by edge ID, in edge order -/
def edgePositions (h : Net) (pos : Pos) : List (PyId × Option Pt) :=
  h.edges.map (fun p => (p.1, barycenter pos p.2))

/-! ### `_CCW_sort` -/

/-- which part of `(-π, π]` the angle `arctan2(dx, dy)` of a displacement falls in:
    0: dx < 0 (negative angles), 1: angle 0 (dx = 0, dy ≥ 0, also the zero vector), 2: dx > 0, 3: angle π -/
def half (d : Pt) : Nat :=
  if d.1 < 0 then 0 else if d.1 = 0 then (if 0 ≤ d.2 then 1 else 3) else 2

def cross (u v : Pt) : Rat := u.1 * v.2 - u.2 * v.1

/-- `arctan2(u.1, u.2) ≤ arctan2(v.1, v.2)` decided exactly -/
def angleLe (u v : Pt) : Bool :=
  half u < half v || (half u == half v && (half u == 1 || half u == 3 || decide (cross u v ≤ 0)))

def sub (p c : Pt) : Pt := (p.1 - c.1, p.2 - c.2)

/-- `_CCW_sort(p)`: the points ordered by `np.arctan2(d[:,0], d[:,1])`, d = p − mean(p) -/
def ccwSort (pts : List Pt) : List Pt :=
  match mean pts with
  | none => pts
  | some c => pts.mergeSort (fun p q => angleLe (sub p c) (sub q c))

/-- all angles pairwise different (then float and exact order agree on an integer grid) -/
def strictAngles (pts : List Pt) : Bool :=
  match mean pts with
  | none => true
  | some c =>
    let ds := pts.map (fun p => sub p c)
    ds.zipIdx.all (fun a => ds.zipIdx.all (fun b =>
      a.2 == b.2 || half a.1 != half b.1 || ((half a.1 == 0 || half a.1 == 2) && cross a.1 b.1 != 0)))

/-! ### the draw plan -/

structure Seg where
  e : Edge
  a : Pt
  b : Pt
  deriving Repr

structure Poly where
  e : Edge
  verts : List Pt
  deriving Repr

structure Plan where
  markers : List Pt
  segments : List Seg
  polygons : List Poly
  deriving Repr

/-- `draw_nodes`: `xy = [pos[v] for v in H.nodes]` -/
def markers (h : Net) (pos : Pos) : List Pt := h.nodes.map pos

/-- `max_edge_order(H)` for a network with at least one node (0 without edges) -/
def maxOrder (h : Net) : Int :=
  if h.edges = [] then 0 else (((h.edges.map (fun p => p.2.length)).foldl max 0 : Nat) : Int) - 1

/-- `H.edges.filterby("order", 1)` -/
def dyads (h : Net) : List Edge := h.edges.filter (fun p => p.2.length = 2)

/-- `(pos[list(e)[0]], pos[list(e)[1]])` -/
def segOf (pos : Pos) (p : Edge) : Seg :=
  { e := p, a := pos (p.2.getD 0 .none), b := pos (p.2.getD 1 .none) }

def segments (h : Net) (pos : Pos) : List Seg := (dyads h).map (segOf pos)

/-- `H.edges.filterby("order", (2, max_order), "between")` -/
def polyEdges (h : Net) (mo : Int) : List Edge :=
  h.edges.filter (fun p => 3 ≤ p.2.length ∧ (p.2.length : Int) - 1 ≤ mo)

/-- `plt.Polygon(_CCW_sort([[pos[n][0], pos[n][1]] for n in he]))` -/
def polyOf (pos : Pos) (p : Edge) : Poly := { e := p, verts := ccwSort (p.2.map pos) }

/-- `perm` is an admissible result of `np.argsort(sizes)`: a permutation of the indices along which the
    sizes are non-decreasing -/
def isArgsort (sizes : List Nat) (perm : List Nat) : Bool :=
  perm.isPerm (List.range sizes.length) &&
  decide (perm.Pairwise (fun i j => sizes.getD i 0 ≤ sizes.getD j 0))

/-- a stable argsort (what numpy's insertion/merge sort gives) -/
def stableArgsort (sizes : List Nat) : List Nat :=
  (List.range sizes.length).mergeSort (fun i j => sizes.getD i 0 ≤ sizes.getD j 0)

/-- the patches in drawing order: `np.array(edges.members())[np.argsort(sizes)[::-1]]` -/
def polygonsWith (h : Net) (pos : Pos) (mo : Int) (perm : List Nat) : List Poly :=
  let es := polyEdges h mo
  perm.reverse.filterMap (fun i => (es[i]?).map (polyOf pos))

def sizesOf (h : Net) (mo : Int) : List Nat := (polyEdges h mo).map (fun p => p.2.length)

/-- `draw_hyperedges(H, pos, max_order=mo)` with the argsort oracle (`none` = the stable one);
    `none` result = the oracle is not an argsort of the sizes -/
def drawHyperedges (h : Net) (pos : Pos) (mo : Option Int) (perm : Option (List Nat)) :
    Option (List Seg × List Poly) :=
  let m := match mo with | none => maxOrder h | some m => m
  let pm := match perm with | none => stableArgsort (sizesOf h m) | some p => p
  if isArgsort (sizesOf h m) pm then some (segments h pos, polygonsWith h pos m pm) else none

/-! ### per-ID style arguments (`_draw_arg_to_arr`, `_parse_color_arg` on a dict)

The model describes the repaired code (proposed_fixes/C20-per-id-style-by-id.diff): the value of an element is the
dict's value at that element's ID.  The unchanged code takes `list(d.values())`, i.e. `positional`. -/

/-- a style value: a number (size, width, value to be colour-mapped) or a colour name -/
inductive SVal where
  | num (q : Rat)
  | col (s : String)
  deriving DecidableEq, Repr

/-- a Python dict `{id: value}` in its own (insertion) order -/
abbrev SDict := List (PyId × SVal)

/-- `d[i]` (`none`: `i not in d`) -/
def SDict.get? (d : SDict) (i : PyId) : Option SVal := (d.find? (fun p => p.1 = i)).map (·.2)

/-- the unchanged code: `list(d.values())`, applied to the elements by position -/
def positional (d : SDict) : List SVal := d.map (·.2)

/-- the repaired code: `[d[i] for i in ids if i in d]` with `ids` the plotted elements in plotting order; matplotlib
    (and the length check of `_parse_color_arg`) want one value per element: `none` = an element without entry -/
def perId (d : SDict) (ids : List PyId) : Option (List SVal) :=
  let vs := ids.filterMap d.get?
  if vs.length = ids.length then some vs else none

/-- `draw_nodes`: `_draw_arg_to_arr(node_size | node_fc | node_lw, list(H.nodes))` — value of the k-th marker -/
def markerStyles (h : Net) (d : SDict) : Option (List SVal) := perId d h.nodes

/-- `draw_hyperedges`: `_draw_arg_to_arr(dyad_lw, list(dyads))`, `_parse_color_arg(dyad_color, list(dyads))` —
    value of the k-th line -/
def segmentStyles (h : Net) (d : SDict) : Option (List SVal) := perId d ((dyads h).map (·.1))

/-- `draw_hyperedges`: `_parse_color_arg(edge_fc | edge_ec, list(edges))[ids_sorted]` with
    `ids_sorted = np.argsort(sizes)[::-1]` — value of the k-th polygon in drawing order (for fewer than two values
    the code skips the re-indexing, which is then the identity) -/
def polygonStyles (h : Net) (mo : Int) (perm : List Nat) (d : SDict) : Option (List SVal) :=
  (perId d ((polyEdges h mo).map (·.1))).map (fun vs => perm.reverse.filterMap (fun i => vs[i]?))

/-- the maximum order / argsort oracle in force inside `draw_hyperedges` -/
def effOrder (h : Net) (mo : Option Int) : Int := match mo with | none => maxOrder h | some m => m
def effPerm (h : Net) (m : Int) (perm : Option (List Nat)) : List Nat :=
  match perm with | none => stableArgsort (sizesOf h m) | some p => p

/-! ### simplicial complexes: `draw_simplices` -/

/-- `if max_order:` — `None` and 0 are falsy -/
def truthy (mo : Option Int) : Option Int := match mo with | some 0 => none | x => x

/-- `SimplicialComplex(SC.edges.filterby("order", max_order, "leq").members())` for a complex that is
    closed under faces (every `SimplicialComplex` is, C03): the same simplices -/
def truncate (mo : Option Int) (h : Net) : Net :=
  match truthy mo with
  | none => h
  | some m => { nodes := h.nodes, edges := h.edges.filter (fun p => (p.2.length : Int) - 1 ≤ m) }

/-- `itertools.combinations(e, 2)` -/
def pairsOf : List PyId → List (List PyId)
  | [] => []
  | a :: t => t.map (fun b => [a, b]) ++ pairsOf t

/-- `subfaces(edges, order=1)` -/
def subfaces1 (ms : List (List PyId)) : List (List PyId) :=
  ms.flatMap (fun e => if e.length ≤ 1 then [] else pairsOf e)

/-- number of edges with the same member set -/
def multiplicity (es : List Edge) (p : Edge) : Nat := (es.filter (fun q => sameSet p.2 q.2)).length

/-- one edge per member set: the first occurrence of each (`seen` = the ones already kept) -/
def dedupSetsAux (seen : List Edge) : List Edge → List Edge
  | [] => []
  | p :: t => if seen.any (fun q => sameSet p.2 q.2) then dedupSetsAux seen t
              else p :: dedupSetsAux (p :: seen) t
def dedupSets (es : List Edge) : List Edge := dedupSetsAux [] es

/-- `merge_duplicate_edges()` (rename="first"): unique edges stay in place, every group of duplicates is
    removed and re-added once at the end (in the order of the groups' first members) under its smallest
    ID (IDs here are 0, 1, … in order, so that is the first member's ID) -/
def mergeDuplicates (es : List Edge) : List Edge :=
  es.filter (fun p => multiplicity es p = 1) ++ dedupSets (es.filter (fun p => multiplicity es p ≠ 1))

/-- the hypergraph `H_` that `draw_simplices` hands to `draw_hyperedges` -/
def simplicesNet (h : Net) (mo : Option Int) : Net :=
  let hm := fromMaxSimplices (truncate mo h)
  let ds := subfaces1 (hm.edges.map (·.2))
  let k := hm.edges.length
  let added := hm.edges ++ ds.zipIdx.map (fun p => (PyId.int ((k + p.2 : Nat) : Int), p.1))
  { nodes := hm.nodes, edges := mergeDuplicates added }

inductive Err where
  | value   -- ValueError (`max()` of an empty sequence inside `subfaces`)
  | lib     -- XGIError (`subfaces`: order 1 above the maximum order)
  | argsort -- the oracle permutation is not an argsort (never happens with numpy)
  deriving DecidableEq, Repr

/-- `draw_simplices(SC, pos, max_order=mo)` -/
def drawSimplices (h : Net) (pos : Pos) (mo : Option Int) : Except Err (List Seg × List Poly) :=
  let hm := fromMaxSimplices (truncate mo h)
  if hm.edges = [] then .error .value
  else if hm.edges.all (fun p => p.2.length ≤ 1) then .error .lib
  else
    let h' := simplicesNet h mo
    let m := match truthy mo with | none => maxOrder h' | some m => m
    match drawHyperedges h' pos (some m) none with
    | none => .error .argsort
    | some r => .ok r

/-! ### `draw` -/

/-- `xgi.draw(H, pos, max_order=mo)`: `if not max_order: max_order = max_edge_order(H)`, then the edges
    (`draw_simplices` for a complex, `draw_hyperedges` otherwise), then the nodes -/
def draw (c : Cls) (h : Net) (pos : Pos) (mo : Option Int) (perm : Option (List Nat)) : Except Err Plan :=
  let m : Int := match truthy mo with | none => maxOrder h | some m => m
  match c with
  | .sc => (drawSimplices h pos (some m)).map (fun r => { markers := markers h pos, segments := r.1, polygons := r.2 })
  | .hg =>
    match drawHyperedges h pos (some m) perm with
    | none => .error .argsort
    | some r => .ok { markers := markers h pos, segments := r.1, polygons := r.2 }

end Xgi.C20
