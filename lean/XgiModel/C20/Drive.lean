/-
  C20 driver: JSON request → model call (XgiModel/C20/Draw.lean) → JSON.
  Requests (one per line):
    {"f":"layout_keys","family":"random|pairwise|barycenter|bipartite|circular","cls":"hg|sc","H":net}
        → {"out":"ok","nodes":[ids],"edges":[ids]|null,"phantom":[ids]}
    {"f":"edge_positions","H":net,"pos":[[id,[x,y]],…]} → {"out":"ok","pos":[[id,[x,y]|null],…]}
    {"f":"draw","which":"draw|draw_nodes|draw_hyperedges|draw_simplices","cls":…,"H":net,"pos":…,
     "max_order":null|int,"perm":[…] (optional),
     "dicts":[[arg,[[id,value],…]],…] (optional: per-ID style dicts in their own order; value = number | colour name)}
        → {"out":"ok","markers":[pt…]|null,"segments":[[id,{"$set":members},a,b]…],
           "polygons":[[id,{"$set":members},[verts…],strict]…],
           "styles":[[arg,[value of the k-th marker | line | polygon, in drawing order]],…]}
        |  {"out":"err:value|err:lib|err:argsort"}
     (node_* dicts style the markers, dyad_* the lines, edge_* the polygons; values come back as int | "p/q" |
      {"col":name}; a dict that lacks an element's ID, or a dyad_/edge_ dict for a complex — whose drawn edge IDs
      are internal — answers unmodelled)
  net = {"nodes":[ids],"edges":[[id,[members in iteration order]],…]}; coordinates are ints or "p/q".
  Ill-typed requests answer bad-op; networks that are not well formed (repeated IDs, None, members that are
  not nodes, a node without a position, a complex that is not closed under faces / has repeated or empty
  simplices) and negative max_order answer {"out":"unmodelled"}.
-/
import XgiModel.Proto
import XgiModel.Net
import XgiModel.C20.Draw
open Lean Xgi.Proto

namespace Xgi.C20.Drive
open Xgi Xgi.C20

def unmodelled : Json := Json.mkObj [("out", Json.str "unmodelled")]
def out (s : String) : Json := Json.mkObj [("out", Json.str s)]

def ratJson (q : Rat) : Json :=
  if q.den = 1 then intJson q.num else Json.str (toString q.num ++ "/" ++ toString q.den)
def ptJson (p : Pt) : Json := Json.arr #[ratJson p.1, ratJson p.2]

def ratOfJson? : Json → Option Rat
  | .num n => if n.exponent = 0 then some (n.mantissa : Rat) else none
  | .str s =>
    match s.splitOn "/" with
    | [p] => p.toInt?.map (fun i => (i : Rat))
    | [p, q] => do
      let a ← p.toInt?
      let b ← q.toNat?
      if b = 0 then none else pure ((a : Rat) / (b : Rat))
    | _ => none
  | _ => none

def ptOfJson? : Json → Option Pt
  | .arr #[x, y] => do pure ((← ratOfJson? x), (← ratOfJson? y))
  | _ => none

/-- the `pos` dict: keys and lookup function -/
def posOfJson? (j : Json) : Option (List PyId × Pos) := do
  let l ← getArr? j "pos"
  let ps ← l.mapM (fun p => match p with
    | .arr #[i, v] => do pure ((← idOfJson? i), (← ptOfJson? v))
    | _ => none)
  pure (ps.map (·.1), fun k => ((ps.find? (fun p => p.1 = k)).map (·.2)).getD (0, 0))

/-- decidable form of `Net.WF`, without `None` -/
def wfB (h : Net) : Bool :=
  decide h.nodes.Nodup && decide (h.edges.map (·.1)).Nodup && !(h.nodes.contains .none) &&
    !((h.edges.map (·.1)).contains .none) &&
    h.edges.all (fun p => decide p.2.Nodup && p.2.all (fun n => decide (n ∈ h.nodes)))

/-- what every `SimplicialComplex` satisfies (C03): no empty simplex, no two simplices with the same
    members, every face with ≥ 2 nodes of a simplex is a simplex -/
def sublistsOf : List PyId → List (List PyId)
  | [] => [[]]
  | a :: t => sublistsOf t ++ (sublistsOf t).map (a :: ·)

def scB (h : Net) : Bool :=
  h.edges.all (fun p => p.2 ≠ [] && multiplicity h.edges p == 1 &&
    ((sublistsOf p.2).all (fun f => f.length < 2 || h.edges.any (fun q => sameSet f q.2))))

def clsOf? (j : Json) : Option Cls :=
  match getStr? j "cls" with
  | some "hg" => some .hg | some "sc" => some .sc | _ => none

def famOf? (j : Json) : Option Family :=
  match getStr? j "family" with
  | some "random" => some .random | some "pairwise" => some .pairwise
  | some "barycenter" => some .barycenter | some "bipartite" => some .bipartite
  | some "circular" => some .circular | _ => none

/-- "max_order": null → none; int → some; absent/ill-typed → outer none -/
def maxOrder? (j : Json) : Option (Option Int) :=
  match getField? j "max_order" with
  | some .null => some none
  | some (.num n) => if n.exponent = 0 then some (some n.mantissa) else none
  | _ => none

def perm? (j : Json) : Option (Option (List Nat)) :=
  match getField? j "perm" with
  | none => some none
  | some .null => some none
  | some (.arr a) => (a.toList.mapM (fun (x : Json) => match x with
      | Json.num n => if n.exponent = 0 ∧ 0 ≤ n.mantissa then some n.mantissa.toNat else none
      | _ => none)).map some
  | _ => none

def edgeJson (e : Edge) : List Json := [idToJson e.1, setToJson e.2]
def segJson (s : Seg) : Json := Json.arr (edgeJson s.e ++ [ptJson s.a, ptJson s.b]).toArray
def polyJson (p : Poly) (pos : Pos) : Json :=
  Json.arr (edgeJson p.e ++ [Json.arr (p.verts.map ptJson).toArray, Json.bool (strictAngles (p.e.2.map pos))]).toArray

/-- a style value: JSON number (decimal) or colour name -/
def svalOfJson? : Json → Option SVal
  | .num n => some (.num ((n.mantissa : Rat) / ((10 ^ n.exponent : Nat) : Rat)))
  | .str s => some (.col s)
  | _ => none

def svalJson : SVal → Json
  | .num q => ratJson q
  | .col s => Json.mkObj [("col", Json.str s)]

def sdictOfJson? (j : Json) : Option SDict :=
  match j with
  | .arr a => a.toList.mapM (fun p => match p with
      | .arr #[i, v] => do pure ((← idOfJson? i), (← svalOfJson? v))
      | _ => none)
  | _ => none

/-- "dicts": absent → []; [[arg, dict], …] -/
def dicts? (j : Json) : Option (List (String × SDict)) :=
  match getField? j "dicts" with
  | none => some []
  | some .null => some []
  | some (.arr a) => a.toList.mapM (fun p => match p with
      | .arr #[.str arg, d] => do pure (arg, (← sdictOfJson? d))
      | _ => none)
  | _ => none

/-- which elements a per-ID argument styles in this call (`none`: outside the model) -/
def styleOf (c : Cls) (which : String) (h : Net) (m : Int) (pm : List Nat) (arg : String) (d : SDict) :
    Option (List SVal) :=
  if !(decide (d.map (·.1)).Nodup) then none
  else if arg.startsWith "node_" then
    (if which == "draw" || which == "draw_nodes" then markerStyles h d else none)
  else if c == .hg && which != "draw_nodes" then
    (if arg.startsWith "dyad_" then segmentStyles h d
     else if arg.startsWith "edge_" then polygonStyles h m pm d else none)
  else none

def stylesJson (l : List (String × List SVal)) : Json :=
  Json.arr (l.map (fun p => Json.arr #[Json.str p.1, Json.arr (p.2.map svalJson).toArray])).toArray

def errJson : Err → Json
  | .value => out "err:value" | .lib => out "err:lib" | .argsort => out "err:argsort"

def planJson (pos : Pos) (st : List (String × List SVal)) (mk : Option (List Pt)) (segs : List Seg)
    (polys : List Poly) : Json :=
  Json.mkObj [("out", Json.str "ok"),
    ("markers", match mk with | none => Json.null | some l => Json.arr (l.map ptJson).toArray),
    ("segments", Json.arr (segs.map segJson).toArray),
    ("polygons", Json.arr (polys.map (fun p => polyJson p pos)).toArray),
    ("styles", stylesJson st)]

def handleDraw (j : Json) : Option Json := do
  let which ← getStr? j "which"
  let c ← clsOf? j
  let h ← (getField? j "H").bind netOfJson?
  let (keys, pos) ← posOfJson? j
  let mo ← maxOrder? j
  let perm ← perm? j
  if !wfB h || !(h.nodes.all (fun n => keys.contains n)) || (c == .sc && !scB h) then pure unmodelled else
  if (match mo with | some m => decide (m < 0) | none => false) then pure unmodelled else
  let ds ← dicts? j
  -- the maximum order / argsort in force inside draw_hyperedges (`draw` replaces a falsy max_order first)
  let m : Int := if which == "draw" then effOrder h (truthy mo) else effOrder h mo
  let pm := effPerm h m perm
  match ds.mapM (fun p => (styleOf c which h m pm p.1 p.2).map (fun vs => (p.1, vs))) with
  | none => pure unmodelled
  | some st =>
  match which, c with
  | "draw_nodes", _ => pure (planJson pos st (some (markers h pos)) [] [])
  | "draw", _ =>
    pure (match draw c h pos mo perm with
      | .error e => errJson e
      | .ok p => planJson pos st (some p.markers) p.segments p.polygons)
  | "draw_hyperedges", .hg =>
    pure (match drawHyperedges h pos mo perm with
      | none => errJson .argsort
      | some r => planJson pos st none r.1 r.2)
  | "draw_simplices", .sc =>
    pure (match drawSimplices h pos mo with
      | .error e => errJson e
      | .ok r => planJson pos st none r.1 r.2)
  | _, _ => none

def handleLayout (j : Json) : Option Json := do
  let f ← famOf? j
  let c ← clsOf? j
  let h ← (getField? j "H").bind netOfJson?
  if !wfB h || (c == .sc && !scB h) then pure unmodelled else
  match layoutKeys f c h with
  | none => pure (out "err:key")
  | some (ns, es) =>
    pure (Json.mkObj [("out", Json.str "ok"), ("nodes", idsToJson ns),
      ("edges", match es with | none => Json.null | some l => idsToJson l),
      ("phantom", if f = .barycenter then idsToJson (phantomIds (asHypergraph c h)) else Json.null)])

def handleEdgePositions (j : Json) : Option Json := do
  let h ← (getField? j "H").bind netOfJson?
  let (keys, pos) ← posOfJson? j
  if !wfB h || !(h.nodes.all (fun n => keys.contains n)) then pure unmodelled else
  pure (Json.mkObj [("out", Json.str "ok"),
    ("pos", Json.arr ((edgePositions h pos).map (fun p =>
      Json.arr #[idToJson p.1, match p.2 with | none => Json.null | some q => ptJson q])).toArray)])

def handle (st : Unit) (j : Json) : Unit × Json :=
  (st, match getStr? j "f" with
  | some "draw" => (handleDraw j).getD badOp
  | some "layout_keys" => (handleLayout j).getD badOp
  | some "edge_positions" => (handleEdgePositions j).getD badOp
  | _ => badOp)

end Xgi.C20.Drive
