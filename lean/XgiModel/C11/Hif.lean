/-
  C11 — the two JSON file formats as compositions (xgi/readwrite/hif.py, xgi/readwrite/json.py):

    write_hif(H, path)   = file.write(json.dumps(to_hif_dict(H)))
    read_hif(path)       = from_hif_dict(json.loads(file.read()))
    write_json(H, path)  = file.write(json.dumps(to_hypergraph_dict(H)))
    read_json(path, nodetype, edgetype) = from_hypergraph_dict(json.loads(file.read()), nodetype, edgetype)

  `to_hif_dict` / `from_hif_dict` / `to_hypergraph_dict` / `from_hypergraph_dict` are the C10 model functions
  (`Xgi.C10.toHif`, `toHifDi`, `fromHif`, `toHypergraphDict`, `fromHypergraphDict` of XgiModel/C10/Convert.lean,
  with the readers repaired so that attribute dicts are passed as values, never as `**attr`).

  The `json` module and the file system are *not* modelled: they appear as an abstract `JsonLayer`
  (`dumps` : document → file content, `loads` : file content → document) and every round-trip theorem of
  Props/C11.lean carries the explicit hypothesis `J.RoundTrip` (`loads (dumps d) = d` — true of Python's `json`
  on documents whose keys are strings and whose values are JSON values, which is what the two `to_*_dict`
  functions produce for int / str IDs and JSON-valued attributes).  The driver instantiates the layer by the
  identity (`idLayer`).  No Mathlib.
-/
import XgiModel.C10.Convert

namespace Xgi.C11

open Xgi.C10 (ANet ADiNet Hif HDict)

/-- `json.dumps` / `json.loads` (plus writing and reading the file) on documents of type `D`; runtime, abstract -/
structure JsonLayer (D Doc : Type) where
  dumps : D → Doc
  loads : Doc → D

/-- what is assumed of the `json` module: a dumped document loads back as itself -/
def JsonLayer.RoundTrip {D Doc : Type} (J : JsonLayer D Doc) : Prop := ∀ d, J.loads (J.dumps d) = d

/-- the layer the driver runs: documents are their own file content -/
def idLayer (D : Type) : JsonLayer D D := ⟨id, id⟩

/-- `write_hif(H, path)`: `json.dumps(to_hif_dict(H))`; a Hypergraph / SimplicialComplex (`inl`) or a
    DiHypergraph (`inr`) -/
def writeHif {Doc : Type} (J : JsonLayer Hif Doc) (src : ANet ⊕ ADiNet) : Doc :=
  match src with
  | .inl a => J.dumps (C10.toHif a)
  | .inr a => J.dumps (C10.toHifDi a)

/-- `read_hif(path)`: `from_hif_dict(json.loads(…))` -/
def readHif {Doc : Type} (J : JsonLayer Hif Doc) (doc : Doc) : ANet ⊕ ADiNet :=
  C10.fromHif (J.loads doc)

/-- `write_json(H, path)`: `json.dumps(to_hypergraph_dict(H))`; `to_hypergraph_dict` may refuse (colliding
    string casts: `XGIError`; unsortable member set: `TypeError`) -/
def writeJson {Doc : Type} (J : JsonLayer HDict Doc) (cast : PyId → String) (a : ANet) : Except C10.Err Doc :=
  (C10.toHypergraphDict cast a).map J.dumps

/-- `read_json(path, nodetype, edgetype)`: `from_hypergraph_dict(json.loads(…), nodetype, edgetype)` -/
def readJson {Doc : Type} (J : JsonLayer HDict Doc) (un ue : String → Except C10.Err PyId) (doc : Doc) :
    Except C10.Err ANet :=
  C10.fromHypergraphDict un ue (J.loads doc)

end Xgi.C11
