/-
  C11 helper lemmas for the JSON file formats: a round-tripping `JsonLayer` drops out of
  `read ∘ write`, leaving the dict-level composition of C10.
-/
import XgiModel.C10.Lemmas
import XgiModel.C11.Hif

namespace Xgi.C11

open Xgi.C10 (ANet ADiNet Hif HDict)

theorem idLayer_roundTrip (D : Type) : (idLayer D).RoundTrip := fun _ => rfl

/-- `read_hif(write_hif(H))` is `from_hif_dict(to_hif_dict(H))` when `json` round-trips -/
theorem readHif_writeHif {Doc : Type} (J : JsonLayer Hif Doc) (hJ : J.RoundTrip) (a : ANet) :
    readHif J (writeHif J (.inl a)) = C10.fromHif (C10.toHif a) := by
  unfold readHif writeHif; simp only [hJ _]

theorem readHif_writeHif_di {Doc : Type} (J : JsonLayer Hif Doc) (hJ : J.RoundTrip) (a : ADiNet) :
    readHif J (writeHif J (.inr a)) = C10.fromHif (C10.toHifDi a) := by
  unfold readHif writeHif; simp only [hJ _]

/-- `from_hif_dict` on the HIF dict of a Hypergraph takes the undirected branch -/
theorem fromHif_toHif_hg (a : ANet) (hc : a.cls = .hg) : C10.fromHif (C10.toHif a) = .inl (C10.fromHifU (C10.toHif a)) := by
  unfold C10.fromHif; simp [C10.toHif, hc]

/-- `from_hif_dict` on the HIF dict of a DiHypergraph takes the directed branch -/
theorem fromHif_toHifDi (a : ADiNet) : C10.fromHif (C10.toHifDi a) = .inr (C10.fromHifD (C10.toHifDi a)) := by
  unfold C10.fromHif; simp [C10.toHifDi]

/-- `write_json` succeeds exactly when `to_hypergraph_dict` does, with the dumped dict -/
theorem writeJson_ok {Doc : Type} (J : JsonLayer HDict Doc) (cast : PyId → String) (a : ANet) (d : HDict)
    (h : C10.toHypergraphDict cast a = .ok d) : writeJson J cast a = .ok (J.dumps d) := by
  unfold writeJson; rw [h]; rfl

theorem readJson_dumps {Doc : Type} (J : JsonLayer HDict Doc) (hJ : J.RoundTrip)
    (un ue : String → Except C10.Err PyId) (d : HDict) :
    readJson J un ue (J.dumps d) = C10.fromHypergraphDict un ue d := by
  unfold readJson; rw [hJ d]

end Xgi.C11
