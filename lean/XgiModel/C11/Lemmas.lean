/-
  Helper lemmas for C11: files as text, the line loop on generated lines, label casts.
-/
import Std.Data.String.ToInt
import XgiModel.C11.IO

namespace Xgi.C11

/-! ### generic list facts -/

theorem dedup_go_of_nodup {α} [DecidableEq α] (l acc : List α) (h : (acc ++ l).Nodup) :
    l.foldl (fun acc x => ins x acc) acc = acc ++ l := by
  induction l generalizing acc with
  | nil => simp
  | cons a t ih =>
    have ha : a ∉ acc := by
      intro hm; rw [List.nodup_append] at h; exact h.2.2 a hm a (by simp) rfl
    simp only [List.foldl_cons]
    have : ins a acc = acc ++ [a] := by unfold ins; simp [ha]
    rw [this, ih (acc ++ [a]) (by simpa using h)]; simp

theorem dedup_of_nodup {α} [DecidableEq α] {l : List α} (h : l.Nodup) : dedup l = l := by
  unfold dedup; simpa using dedup_go_of_nodup l [] (by simpa using h)

theorem foldl_ins_of_subset {α} [DecidableEq α] (l acc : List α) (h : ∀ x ∈ l, x ∈ acc) :
    l.foldl (fun acc x => ins x acc) acc = acc := by
  induction l with
  | nil => rfl
  | cons a t ih =>
    simp only [List.foldl_cons]
    have : ins a acc = acc := by unfold ins; simp [h a (by simp)]
    rw [this]; exact ih (fun x hx => h x (by simp [hx]))

theorem mapRes_ok {α β} (f : α → Res β) (g : α → β) (l : List α) (h : ∀ a ∈ l, f a = .ok (g a)) :
    mapRes f l = .ok (l.map g) := by
  induction l with
  | nil => rfl
  | cons a t ih =>
    simp only [mapRes, h a (by simp), Res.bind_ok, ih (fun x hx => h x (by simp [hx])), List.map_cons]

theorem mapRes_ok_id {α β} (f : α → Res β) (l : List β) (r : β → α) (h : ∀ b ∈ l, f (r b) = .ok b) :
    mapRes f (l.map r) = .ok l := by
  have := mapRes_ok (fun b => f (r b)) id l (by simpa using h)
  induction l with
  | nil => rfl
  | cons a t ih =>
    simp only [List.map_cons, mapRes, h a (by simp), Res.bind_ok]
    rw [ih (fun b hb => h b (by simp [hb])) (mapRes_ok _ _ _ (by intro b hb; simpa using h b (by simp [hb])))]
    rfl

theorem mem_intercalate_singleton {α} {d x : α} {ls : List (List α)} (h : x ∈ [d].intercalate ls) :
    x = d ∨ ∃ l ∈ ls, x ∈ l := by
  induction ls with
  | nil => simp at h
  | cons a t ih =>
    cases t with
    | nil => simp at h; exact Or.inr ⟨a, by simp, h⟩
    | cons b t =>
      simp only [List.intercalate_cons_cons, List.mem_append, List.mem_singleton] at h
      rcases h with (h | h) | h
      · exact Or.inr ⟨a, by simp, h⟩
      · exact Or.inl h
      · rcases ih h with h | ⟨l, hl, hx⟩
        · exact Or.inl h
        · exact Or.inr ⟨l, by simp [hl], hx⟩

theorem takeWhile_eq_self {α} {p : α → Bool} {l : List α} (h : ∀ x ∈ l, p x = true) : l.takeWhile p = l := by
  induction l with
  | nil => rfl
  | cons a t ih => simp [h a (by simp), ih (fun x hx => h x (by simp [hx]))]

theorem getLast?_append_ne {α} {l l' : List α} (h : l' ≠ []) : (l ++ l').getLast? = l'.getLast? := by
  rw [List.getLast?_append]
  cases hl : l'.getLast? with
  | none => simp at hl; exact absurd hl h
  | some x => rfl

/-! ### files as text -/

theorem readLinesAux_line (l r acc : Text) (h : '\n' ∉ l) :
    readLinesAux (l ++ '\n' :: r) acc = (acc.reverse ++ l ++ ['\n']) :: readLinesAux r [] := by
  induction l generalizing acc with
  | nil => simp [readLinesAux]
  | cons c t ih =>
    have hc : c ≠ '\n' := by intro hc; apply h; simp [hc]
    have ht : '\n' ∉ t := by intro ht; apply h; simp [ht]
    simp only [List.cons_append, readLinesAux, hc, if_false]
    rw [ih _ ht]; simp

theorem readLines_fileText (ls : List Text) (h : ∀ l ∈ ls, '\n' ∉ l) :
    readLines (fileText ls) = ls.map (fun l => l ++ ['\n']) := by
  unfold readLines
  induction ls with
  | nil => simp [fileText, readLinesAux]
  | cons a t ih =>
    have : fileText (a :: t) = a ++ '\n' :: fileText t := by simp [fileText]
    rw [this, readLinesAux_line a _ [] (h a (by simp))]
    simp only [List.reverse_nil, List.nil_append, List.map_cons]
    rw [ih (fun l hl => h l (by simp [hl]))]

/-! ### the line loop on a generated line -/

theorem pySpace_newline : pySpace '\n' = true := by decide

theorem strip_line (l : Text) (hne : l ≠ [])
    (hh : ∀ c, l.head? = some c → pySpace c = false) (hl : ∀ c, l.getLast? = some c → pySpace c = false) :
    strip (l ++ ['\n']) = l := by
  unfold strip
  have h1 : (l ++ ['\n']).dropWhile pySpace = l ++ ['\n'] := by
    cases l with
    | nil => exact absurd rfl hne
    | cons c t => simp [hh c (by simp)]
  rw [h1, List.reverse_append]
  simp only [List.reverse_cons, List.reverse_nil, List.nil_append, List.singleton_append,
    List.dropWhile_cons, pySpace_newline, if_true]
  have h2 : l.reverse.dropWhile pySpace = l.reverse := by
    have hr : l.reverse ≠ [] := by simpa using hne
    cases hrl : l.reverse with
    | nil => exact absurd hrl hr
    | cons c t =>
      have : l.getLast? = some c := by
        rw [← List.head?_reverse, hrl]; rfl
      simp [hl c this]
  rw [h2, List.reverse_reverse]

/-- what a label / token must satisfy to survive the line loop with delimiter `d` and comment token `cm` -/
structure TokOK (d : Char) (cm : Option Char) (t : Text) : Prop where
  ne : t ≠ []
  nodelim : d ∉ t
  nocomment : ∀ c, cm = some c → c ∉ t
  nonl : '\n' ∉ t
  head : ∀ c, t.head? = some c → pySpace c = false
  last : ∀ c, t.getLast? = some c → pySpace c = false

/-- side conditions on the delimiter: it is neither the comment token nor the line terminator -/
structure DelimOK (d : Char) (cm : Option Char) : Prop where
  notComment : cm ≠ some d
  notNl : d ≠ '\n'
  commentNotNl : cm ≠ some '\n'

theorem head?_intercalate_singleton {d : Char} {a : Text} {t : List Text} (ha : a ≠ []) :
    ([d].intercalate (a :: t)).head? = a.head? := by
  cases t with
  | nil => simp
  | cons b t => simp only [List.intercalate_cons_cons]; cases a with
    | nil => exact absurd rfl ha
    | cons c a => simp

theorem getLast?_intercalate_singleton {d : Char} {ls : List Text} (hne : ls ≠ [])
    (h : ∀ l ∈ ls, l ≠ []) :
    ([d].intercalate ls).getLast? = (ls.getLast hne).getLast? := by
  induction ls with
  | nil => exact absurd rfl hne
  | cons a t ih =>
    cases t with
    | nil => simp
    | cons b t =>
      simp only [List.intercalate_cons_cons]
      have hb : [d].intercalate (b :: t) ≠ [] := by
        intro hb
        have := head?_intercalate_singleton (d := d) (a := b) (t := t) (h b (by simp))
        rw [hb] at this
        cases b with
        | nil => exact h [] (by simp) rfl
        | cons c b => simp at this
      rw [getLast?_append_ne hb, ih (by simp) (fun l hl => h l (by simp [hl]))]
      simp

theorem intercalate_ne_nil' {d : Char} {a : Text} {t : List Text} (ha : a ≠ []) : [d].intercalate (a :: t) ≠ [] := by
  intro hb
  have := head?_intercalate_singleton (d := d) (a := a) (t := t) ha
  rw [hb] at this
  cases a with
  | nil => exact ha rfl
  | cons c a => simp at this

theorem lineTokens_gen (d : Char) (cm : Option Char) (hd : DelimOK d cm) (toks : List Text) (hne : toks ≠ [])
    (h : ∀ t ∈ toks, TokOK d cm t) :
    lineTokens cm (some d) ([d].intercalate toks ++ ['\n']) = some toks := by
  have hcut : cutComment cm ([d].intercalate toks ++ ['\n']) = [d].intercalate toks ++ ['\n'] := by
    cases cm with
    | none => rfl
    | some c =>
      simp only [cutComment]
      apply takeWhile_eq_self
      intro x hx
      simp only [List.mem_append, List.mem_singleton] at hx
      simp only [bne_iff_ne, ne_eq]
      intro hxc; subst hxc
      rcases hx with hx | hx
      · rcases mem_intercalate_singleton hx with hx | ⟨l, hl, hx⟩
        · exact hd.notComment (by rw [hx])
        · exact (h l hl).nocomment x rfl hx
      · exact hd.commentNotNl (by rw [hx])
  unfold lineTokens
  simp only [hcut]
  have hnil : ([d].intercalate toks ++ ['\n']).isEmpty = false := by simp
  simp only [hnil, Bool.and_false, Bool.false_eq_true, if_false, splitLine]
  obtain ⟨a, t, rfl⟩ := List.exists_cons_of_ne_nil hne
  have hLne : [d].intercalate (a :: t) ≠ [] := by
    intro hb
    have := head?_intercalate_singleton (d := d) (a := a) (t := t) (h a (by simp)).ne
    rw [hb] at this
    have hane := (h a (by simp)).ne
    cases a with
    | nil => exact hane rfl
    | cons c a => simp at this
  rw [strip_line _ hLne]
  · rw [List.splitOn_intercalate d (fun l hl => (h l hl).nodelim) (by simp)]
  · intro c hc
    rw [head?_intercalate_singleton (h a (by simp)).ne] at hc
    exact (h a (by simp)).head c hc
  · intro c hc
    rw [getLast?_intercalate_singleton (by simp) (fun l hl => (h l hl).ne)] at hc
    exact (h _ (List.getLast_mem _)).last c hc

/-! ### labels: `cast ∘ str = id` for int labels (decimal) and str labels -/

theorem cast_str_none (s : String) : cast .none (renderAtom (.str s)) = .ok (.str s) := by
  simp [cast, renderAtom, String.ofList_toList]
theorem cast_str_str (s : String) : cast .str (renderAtom (.str s)) = .ok (.str s) := by
  simp [cast, renderAtom, String.ofList_toList]

theorem mem_render_int {c : Char} {i : Int} (h : c ∈ renderAtom (.int i)) : c.isDigit = true ∨ c = '-' := by
  simp only [renderAtom, Int.toString_eq_repr, Int.repr_eq_if] at h
  split at h
  · rw [Nat.toList_repr] at h
    exact Or.inl (Nat.isDigit_of_mem_toDigits (by decide) (by decide) h)
  · rw [String.toList_append, List.mem_append, Nat.toList_repr] at h
    rcases h with h | h
    · right; simpa using h
    · exact Or.inl (Nat.isDigit_of_mem_toDigits (by decide) (by decide) h)

theorem render_int_ne_nil (i : Int) : renderAtom (.int i) ≠ [] := by
  simp only [renderAtom, Int.toString_eq_repr, Int.repr_eq_if]
  split
  · rw [Nat.toList_repr]; exact Nat.toDigits_ne_nil
  · rw [String.toList_append]; simp

theorem cast_int (i : Int) : cast .int (renderAtom (.int i)) = .ok (.int i) := by
  have h1 : (String.ofList (renderAtom (.int i))).toInt? = some i := by
    simp only [renderAtom, String.ofList_toList, Int.toString_eq_repr, Int.toInt?_repr]
  have h2 : (renderAtom (.int i)).all (fun c => c.isDigit || c == '-') = true := by
    rw [List.all_eq_true]; intro c hc
    rcases mem_render_int hc with h | h <;> simp [h]
  simp only [cast, castInt, h1, h2, if_true]

theorem isDigit_not_space {c : Char} (h : c.isDigit = true) : pySpace c = false := by
  have : 48 ≤ c.toNat ∧ c.toNat ≤ 57 := by
    simp only [Char.isDigit, Bool.and_eq_true, decide_eq_true_eq] at h
    have h1 := h.1; have h2 := h.2
    simp only [UInt32.le_iff_toNat_le] at h1 h2
    exact ⟨by simpa using h1, by simpa using h2⟩
  unfold pySpace; simp only []
  have h1 := this.1; have h2 := this.2
  simp only [Bool.or_eq_false_iff, Bool.and_eq_false_iff, decide_eq_false_iff_not]
  omega

theorem minus_not_space : pySpace '-' = false := by decide

/-- an int label survives every delimiter / comment token that is neither a digit nor `-` -/
theorem tokOK_int (d : Char) (cm : Option Char) (i : Int)
    (hd : d.isDigit = false ∧ d ≠ '-') (hc : ∀ c, cm = some c → c.isDigit = false ∧ c ≠ '-') :
    TokOK d cm (renderAtom (.int i)) where
  ne := render_int_ne_nil i
  nodelim := by intro h; rcases mem_render_int h with h | h <;> simp_all
  nocomment := by intro c hcm h; have := hc c hcm; rcases mem_render_int h with h | h <;> simp_all
  nonl := by intro h; rcases mem_render_int h with h | h <;> simp_all [Char.isDigit]
  head := by
    intro c h
    rcases mem_render_int (List.mem_of_mem_head? h) with h | h
    · exact isDigit_not_space h
    · rw [h]; exact minus_not_space
  last := by
    intro c h
    rcases mem_render_int (List.mem_of_getLast? h) with h | h
    · exact isDigit_not_space h
    · rw [h]; exact minus_not_space

/-! ### whole files of generated lines -/

theorem nl_not_mem_gen_line {d : Char} {cm : Option Char} (hd : DelimOK d cm) {toks : List Text}
    (h : ∀ t ∈ toks, TokOK d cm t) : '\n' ∉ [d].intercalate toks := by
  intro hx
  rcases mem_intercalate_singleton hx with hx | ⟨l, hl, hx⟩
  · exact hd.notNl hx.symm
  · exact (h l hl).nonl hx

/-- reading back a file of joined lines yields, line by line, the token lists that were joined — given that
    the line loop (with reader delimiter `rd`) recovers each single line -/
theorem tokens_of_file (d : Char) (cm rd : Option Char) (tokss : List (List Text))
    (hnl : ∀ ts ∈ tokss, '\n' ∉ [d].intercalate ts)
    (hline : ∀ ts ∈ tokss, lineTokens cm rd ([d].intercalate ts ++ ['\n']) = some ts) :
    (readLines (fileText (tokss.map (fun ts => [d].intercalate ts)))).filterMap (lineTokens cm rd) = tokss := by
  rw [readLines_fileText]
  · induction tokss with
    | nil => rfl
    | cons ts rest ih =>
      simp only [List.map_cons, List.filterMap_cons]
      rw [hline ts (by simp)]
      simp only []
      rw [ih (fun x hx => hnl x (by simp [hx])) (fun x hx => hline x (by simp [hx]))]
  · intro l hl
    simp only [List.mem_map] at hl
    obtain ⟨ts, hts, rfl⟩ := hl
    exact hnl ts hts

/-- … for the reader delimiter equal to the writer's -/
theorem tokens_of_generated_file (d : Char) (cm : Option Char) (hd : DelimOK d cm) (tokss : List (List Text))
    (hne : ∀ ts ∈ tokss, ts ≠ []) (h : ∀ ts ∈ tokss, ∀ t ∈ ts, TokOK d cm t) :
    (readLines (fileText (tokss.map (fun ts => [d].intercalate ts)))).filterMap (lineTokens cm (some d)) = tokss :=
  tokens_of_file d cm (some d) tokss (fun ts hts => nl_not_mem_gen_line hd (h ts hts))
    (fun ts hts => lineTokens_gen d cm hd ts (hne ts hts) (h ts hts))

/-! ### `delimiter=None`: the file was written with a whitespace delimiter and is split on whitespace runs -/

/-- a token that survives whitespace splitting: non-empty, no whitespace (hence no newline), no comment token -/
structure TokWs (cm : Option Char) (t : Text) : Prop where
  ne : t ≠ []
  nospace : ∀ c ∈ t, pySpace c = false
  nocomment : ∀ c, cm = some c → c ∉ t

theorem splitOnP_intercalate {α} (p : α → Bool) (d : α) (hd : p d = true) (ls : List (List α))
    (h : ∀ l ∈ ls, ∀ x ∈ l, p x = false) (hls : ls ≠ []) : ([d].intercalate ls).splitOnP p = ls := by
  induction ls with
  | nil => simp at hls
  | cons hd' tl ih =>
    match tl with
    | [] => simpa using List.splitOnP_eq_singleton (h hd' (by simp))
    | t :: tl =>
      simp only [List.intercalate_cons_cons, List.append_assoc, List.cons_append, List.nil_append]
      rw [List.splitOnP_append_cons_of_forall_mem (h hd' (by simp)) d hd, ih (fun l hl => h l (by simp [hl])) (by simp)]

theorem lineTokens_gen_ws (d : Char) (cm : Option Char) (hsp : pySpace d = true)
    (hcd : cm ≠ some d) (hcnl : cm ≠ some '\n') (toks : List Text) (hne : toks ≠ []) (h : ∀ t ∈ toks, TokWs cm t) :
    lineTokens cm none ([d].intercalate toks ++ ['\n']) = some toks := by
  have hcut : cutComment cm ([d].intercalate toks ++ ['\n']) = [d].intercalate toks ++ ['\n'] := by
    cases cm with
    | none => rfl
    | some c =>
      simp only [cutComment]
      apply takeWhile_eq_self
      intro x hx
      simp only [List.mem_append, List.mem_singleton] at hx
      simp only [bne_iff_ne, ne_eq]
      intro hxc; subst hxc
      rcases hx with hx | hx
      · rcases mem_intercalate_singleton hx with hx | ⟨l, hl, hx⟩
        · exact hcd (by rw [hx])
        · exact (h l hl).nocomment x rfl hx
      · exact hcnl (by rw [hx])
  unfold lineTokens
  simp only [hcut]
  have hnil : ([d].intercalate toks ++ ['\n']).isEmpty = false := by simp
  simp only [hnil, Bool.and_false, Bool.false_eq_true, if_false, splitLine]
  obtain ⟨a, t, rfl⟩ := List.exists_cons_of_ne_nil hne
  rw [strip_line _ (intercalate_ne_nil' (h a (by simp)).ne)]
  · rw [splitOnP_intercalate pySpace d hsp _ (fun l hl => (h l hl).nospace) (by simp)]
    congr 1
    rw [List.filter_eq_self]
    intro l hl
    have := (h l hl).ne
    cases l with
    | nil => exact absurd rfl this
    | cons c l => rfl
  · intro c hc
    rw [head?_intercalate_singleton (h a (by simp)).ne] at hc
    exact (h a (by simp)).nospace c (List.mem_of_mem_head? hc)
  · intro c hc
    rw [getLast?_intercalate_singleton (by simp) (fun l hl => (h l hl).ne)] at hc
    exact (h _ (List.getLast_mem _)).nospace c (List.mem_of_getLast? hc)

theorem tokens_of_generated_file_ws (d : Char) (cm : Option Char) (hsp : pySpace d = true) (hdnl : d ≠ '\n')
    (hcd : cm ≠ some d) (hcnl : cm ≠ some '\n') (tokss : List (List Text))
    (hne : ∀ ts ∈ tokss, ts ≠ []) (h : ∀ ts ∈ tokss, ∀ t ∈ ts, TokWs cm t) :
    (readLines (fileText (tokss.map (fun ts => [d].intercalate ts)))).filterMap (lineTokens cm none) = tokss := by
  apply tokens_of_file d cm none tokss
  · intro ts hts hx
    rcases mem_intercalate_singleton hx with hx | ⟨l, hl, hx⟩
    · exact hdnl hx.symm
    · have := (h ts hts l hl).nospace _ hx
      rw [pySpace_newline] at this; cases this
  · intro ts hts
    exact lineTokens_gen_ws d cm hsp hcd hcnl ts (hne ts hts) (h ts hts)

theorem mapRes_cast_render (ty : Ty) (l : List Atom) (h : ∀ a ∈ l, cast ty (renderAtom a) = .ok a) :
    mapRes (cast ty) (l.map renderAtom) = .ok l := by
  induction l with
  | nil => rfl
  | cons a t ih =>
    simp only [List.map_cons, mapRes, h a (by simp), Res.bind_ok, ih (fun x hx => h x (by simp [hx]))]

theorem mapRes_mapRes_cast_render (ty : Ty) (es : List (List Atom))
    (h : ∀ e ∈ es, ∀ a ∈ e, cast ty (renderAtom a) = .ok a) :
    mapRes (fun toks => mapRes (cast ty) toks) (es.map (fun e => e.map renderAtom)) = .ok es := by
  induction es with
  | nil => rfl
  | cons e t ih =>
    simp only [List.map_cons, mapRes, mapRes_cast_render ty e (h e (by simp)), Res.bind_ok,
      ih (fun x hx => h x (by simp [hx]))]

/-! ### networks built by `add_node_to_edge` -/

theorem mem_incOf {es : List (Atom × List Atom)} {q : Atom × Atom} :
    q ∈ incOf es ↔ ∃ e ∈ es, e.1 = q.2 ∧ q.1 ∈ e.2 := by
  unfold incOf
  simp only [List.mem_flatMap, List.mem_map]
  constructor
  · rintro ⟨e, he, n, hn, rfl⟩; exact ⟨e, he, rfl, hn⟩
  · rintro ⟨e, he, h1, h2⟩; exact ⟨e, he, q.1, h2, by rw [h1]⟩

theorem mem_inc_addPair (h : TNet) (p q : Atom × Atom) :
    q ∈ (addPair h p).inc ↔ q ∈ h.inc ∨ q = p := by
  unfold TNet.inc
  simp only [mem_incOf, addPair]
  obtain ⟨q1, q2⟩ := q
  obtain ⟨p1, p2⟩ := p
  simp only [Prod.mk.injEq]
  split
  · rename_i hany
    simp only [List.any_eq_true, decide_eq_true_eq] at hany
    obtain ⟨x, hx, hx2⟩ := hany
    simp only [List.mem_map]
    constructor
    · rintro ⟨e, ⟨y, hy, rfl⟩, h1, h2⟩
      split at h1
      · rename_i hyp
        simp only [hyp, if_true] at h2
        simp only [mem_ins] at h2
        rcases h2 with h2 | h2
        · right; exact ⟨h2, by rw [← h1, hyp]⟩
        · left; exact ⟨y, hy, h1, h2⟩
      · rename_i hyp
        simp only [hyp, if_false] at h2
        left; exact ⟨y, hy, h1, h2⟩
    · rintro (⟨e, he, h1, h2⟩ | ⟨rfl, rfl⟩)
      · refine ⟨_, ⟨e, he, rfl⟩, ?_, ?_⟩
        · split <;> exact h1
        · split
          · simp only [mem_ins]; right; exact h2
          · exact h2
      · refine ⟨_, ⟨x, hx, rfl⟩, ?_, ?_⟩
        · simp [hx2]
        · simp [hx2]
  · rename_i hany
    simp only [List.mem_append, List.mem_singleton]
    constructor
    · rintro ⟨e, he | rfl, h1, h2⟩
      · left; exact ⟨e, he, h1, h2⟩
      · right; simp at h1 h2; exact ⟨h2, h1.symm⟩
    · rintro (⟨e, he, h1, h2⟩ | ⟨rfl, rfl⟩)
      · exact ⟨e, Or.inl he, h1, h2⟩
      · exact ⟨_, Or.inr rfl, rfl, by simp⟩

theorem mem_inc_foldl_addPair (ps : List (Atom × Atom)) (h : TNet) (q : Atom × Atom) :
    q ∈ (ps.foldl addPair h).inc ↔ q ∈ h.inc ∨ q ∈ ps := by
  induction ps generalizing h with
  | nil => simp
  | cons p t ih => simp only [List.foldl_cons, ih, mem_inc_addPair, List.mem_cons]; grind

/-- the network `add_node_to_edge` builds from a list of incidences has exactly these incidences -/
theorem mem_inc_netOfPairs (ps : List (Atom × Atom)) (q : Atom × Atom) :
    q ∈ (netOfPairs ps).inc ↔ q ∈ ps := by
  unfold netOfPairs; rw [mem_inc_foldl_addPair]; simp [TNet.empty, TNet.inc, incOf]

theorem mem_nodes_foldl_addPair (ps : List (Atom × Atom)) (h : TNet) (n : Atom) :
    n ∈ (ps.foldl addPair h).nodes ↔ n ∈ h.nodes ∨ ∃ e, (n, e) ∈ ps := by
  induction ps generalizing h with
  | nil => simp
  | cons p t ih =>
    simp only [List.foldl_cons, ih, List.mem_cons]
    simp only [addPair, mem_ins]
    constructor
    · rintro ((h1 | h1) | ⟨e, h1⟩)
      · right; exact ⟨p.2, Or.inl (by rw [h1])⟩
      · left; exact h1
      · right; exact ⟨e, Or.inr h1⟩
    · rintro (h1 | ⟨e, h1 | h1⟩)
      · left; right; exact h1
      · left; left; rw [← h1]
      · right; exact ⟨e, h1⟩

/-- … and exactly the nodes that occur in them -/
theorem mem_nodes_netOfPairs (ps : List (Atom × Atom)) (n : Atom) :
    n ∈ (netOfPairs ps).nodes ↔ ∃ e, (n, e) ∈ ps := by
  unfold netOfPairs; rw [mem_nodes_foldl_addPair]; simp [TNet.empty]

theorem edgeIds_addPair (h : TNet) (p : Atom × Atom) :
    (addPair h p).edges.map (·.1) = ins p.2 (h.edges.map (·.1)) := by
  unfold addPair ins
  simp only [List.mem_map]
  split
  · rename_i hany
    simp only [List.any_eq_true, decide_eq_true_eq] at hany
    obtain ⟨x, hx, hx2⟩ := hany
    rw [if_pos ⟨x, hx, hx2⟩]
    simp only [List.map_map]
    apply List.map_congr_left
    intro a _; simp only [Function.comp]; split <;> rfl
  · rename_i hany
    simp only [List.any_eq_true, decide_eq_true_eq, not_exists, not_and] at hany
    rw [if_neg (by rintro ⟨x, hx, hx2⟩; exact hany x hx hx2)]
    simp

theorem edgeIds_foldl_addPair (ps : List (Atom × Atom)) (h : TNet) :
    (ps.foldl addPair h).edges.map (·.1) = (ps.map (·.2)).foldl (fun acc x => ins x acc) (h.edges.map (·.1)) := by
  induction ps generalizing h with
  | nil => rfl
  | cons p t ih => simp only [List.foldl_cons, List.map_cons, ih, edgeIds_addPair]

/-- edge IDs of the network read back: the distinct edge labels in order of first appearance -/
theorem edgeIds_netOfPairs (ps : List (Atom × Atom)) :
    (netOfPairs ps).edges.map (·.1) = dedup (ps.map (·.2)) := by
  unfold netOfPairs dedup; rw [edgeIds_foldl_addPair]; rfl

/-! ### bipartite edge list -/

theorem genBipartite_eq (d : Char) (edges : List (Atom × List Atom)) :
    genBipartite d edges =
      ((incOf edges).map (fun p => [renderAtom p.1, renderAtom p.2])).map (fun ts => [d].intercalate ts) := by
  unfold genBipartite incOf
  induction edges with
  | nil => rfl
  | cons e t ih =>
    simp only [List.flatMap_cons, List.map_append, ih, List.map_map]
    rfl

theorem mapRes_bipartiteLine (nty ety : Ty) (dual : Bool) (ps : List (Atom × Atom))
    (h : ∀ p ∈ ps, cast (if dual then ety else nty) (renderAtom p.1) = .ok p.1 ∧
                   cast (if dual then nty else ety) (renderAtom p.2) = .ok p.2) :
    mapRes (bipartiteLine nty ety dual) (ps.map (fun p => [renderAtom p.1, renderAtom p.2])) =
      .ok (if dual then ps.map Prod.swap else ps) := by
  induction ps with
  | nil => cases dual <;> rfl
  | cons p t ih =>
    have hp := h p (by simp)
    have ih' := ih (fun x hx => h x (by simp [hx]))
    cases dual
    · simp only [Bool.false_eq_true, if_false] at hp ih' ⊢
      simp [mapRes, bipartiteLine, hp.1, hp.2, ih']
    · simp only [if_true] at hp ih' ⊢
      simp [mapRes, bipartiteLine, hp.1, hp.2, ih', Prod.swap]

/-! ### incidence-matrix text -/

/-- the characters `np.savetxt` uses for 0/1 entries -/
def tokChars : List Char := ['0', '1', '.', 'e', '+']

theorem mem_tokOf {c : Char} {b : Bool} (h : c ∈ tokOf b) : c ∈ tokChars := by
  cases b <;> simp [tokOf, tok0, tok1, zeros18] at h <;> simp [tokChars] <;> grind

theorem tokOf_ne_nil (b : Bool) : tokOf b ≠ [] := by cases b <;> simp [tokOf, tok0, tok1]

theorem parseTok_tokOf (b : Bool) : parseTok (tokOf b) = .ok b := by
  cases b <;> simp [parseTok, tokOf, tok0, tok1]

/-- side conditions on delimiter and comment token for the matrix format -/
structure MatDelimOK (d : Char) (cm : Option Char) : Prop where
  notTok : d ∉ tokChars
  notNl : d ≠ '\n'
  notComment : cm ≠ some d
  commentNotTok : ∀ c, cm = some c → c ∉ tokChars

theorem chomp_line (l : Text) : chomp (l ++ ['\n']) = l := by
  unfold chomp; simp

theorem intercalate_ne_nil {d : Char} {a : Text} {t : List Text} (ha : a ≠ []) : [d].intercalate (a :: t) ≠ [] := by
  intro hb
  have := head?_intercalate_singleton (d := d) (a := a) (t := t) ha
  rw [hb] at this
  cases a with
  | nil => exact ha rfl
  | cons c a => simp at this

theorem matrixLine_gen (d : Char) (cm : Option Char) (hd : MatDelimOK d cm) (row : List Bool) (hne : row ≠ []) :
    matrixLine cm (some d) ([d].intercalate (row.map tokOf) ++ ['\n']) = some (.ok row) := by
  unfold matrixLine
  rw [chomp_line]
  have hcut : cutComment cm ([d].intercalate (row.map tokOf)) = [d].intercalate (row.map tokOf) := by
    cases cm with
    | none => rfl
    | some c =>
      simp only [cutComment]
      apply takeWhile_eq_self
      intro x hx
      simp only [bne_iff_ne, ne_eq]
      intro hxc; subst hxc
      rcases mem_intercalate_singleton hx with hx | ⟨l, hl, hx⟩
      · exact hd.notComment (by rw [hx])
      · simp only [List.mem_map] at hl
        obtain ⟨b, _, rfl⟩ := hl
        exact hd.commentNotTok x rfl (mem_tokOf hx)
  simp only [hcut]
  obtain ⟨b, t, rfl⟩ := List.exists_cons_of_ne_nil hne
  have hL : ([d].intercalate ((b :: t).map tokOf)).isEmpty = false := by
    simp only [List.map_cons, List.isEmpty_eq_false_iff]
    exact intercalate_ne_nil (tokOf_ne_nil b)
  have hsplit : splitLine (some d) ([d].intercalate ((b :: t).map tokOf)) = (b :: t).map tokOf := by
    simp only [splitLine]
    apply List.splitOn_intercalate d _ (by simp)
    intro l hl
    simp only [List.mem_map] at hl
    obtain ⟨x, _, rfl⟩ := hl
    intro hm; exact hd.notTok (mem_tokOf hm)
  have h2 : mapRes parseTok ((b :: t).map tokOf) = .ok (b :: t) := by
    generalize (b :: t) = r
    induction r with
    | nil => rfl
    | cons x r ih => simp only [List.map_cons, mapRes, parseTok_tokOf, Res.bind_ok, ih]
  simp only [hL, Bool.false_eq_true, if_false, hsplit, h2]
  simp

theorem nl_not_mem_matrix_line {d : Char} {cm : Option Char} (hd : MatDelimOK d cm) (row : List Bool) :
    '\n' ∉ [d].intercalate (row.map tokOf) := by
  intro hx
  rcases mem_intercalate_singleton hx with hx | ⟨l, hl, hx⟩
  · exact hd.notNl hx.symm
  · simp only [List.mem_map] at hl
    obtain ⟨b, _, rfl⟩ := hl
    have := mem_tokOf hx
    simp [tokChars] at this

theorem rows_of_generated_matrix (d : Char) (cm : Option Char) (hd : MatDelimOK d cm) (m : List (List Bool))
    (hne : ∀ r ∈ m, r ≠ []) :
    (readLines (fileText (genMatrix d m))).filterMap (matrixLine cm (some d)) = m.map Res.ok := by
  unfold genMatrix
  rw [readLines_fileText]
  · induction m with
    | nil => rfl
    | cons r rest ih =>
      simp only [List.map_cons, List.filterMap_cons]
      rw [matrixLine_gen d cm hd r (hne r (by simp))]
      simp only []
      rw [ih (fun x hx => hne x (by simp [hx]))]
  · intro l hl
    simp only [List.mem_map] at hl
    obtain ⟨r, _, rfl⟩ := hl
    exact nl_not_mem_matrix_line hd r

theorem mapRes_id_ok {α} (l : List α) : mapRes id (l.map Res.ok) = .ok l := by
  induction l with
  | nil => rfl
  | cons a t ih => simp only [List.map_cons, mapRes, id, Res.bind_ok, ih]

/-- the incidences `from_incidence_matrix` adds: `(i, j)` exactly for the entries that are 1 -/
theorem mem_pairsOfMatrix (m : List (List Bool)) (q : Atom × Atom) :
    q ∈ pairsOfMatrix m ↔
      ∃ (i j : Nat) (row : List Bool), m[i]? = some row ∧ row[j]? = some true ∧ q = (Atom.int i, Atom.int j) := by
  unfold pairsOfMatrix
  simp only [List.mem_flatMap, List.mem_filterMap]
  constructor
  · rintro ⟨⟨row, i⟩, hr, ⟨b, j⟩, hc, hq⟩
    rw [List.mem_zipIdx_iff_getElem?] at hr hc
    simp only at hr hc hq
    cases b with
    | false => simp at hq
    | true =>
      simp only [if_true, Option.some.injEq] at hq
      exact ⟨i, j, row, hr, hc, hq.symm⟩
  · rintro ⟨i, j, row, hr, hc, rfl⟩
    refine ⟨(row, i), ?_, (true, j), ?_, ?_⟩
    · rw [List.mem_zipIdx_iff_getElem?]; exact hr
    · rw [List.mem_zipIdx_iff_getElem?]; exact hc
    · simp

theorem mem_inc_netOfMatrix (m : List (List Bool)) (i j : Nat) :
    (Atom.int i, Atom.int j) ∈ (netOfMatrix m).inc ↔ ∃ row, m[i]? = some row ∧ row[j]? = some true := by
  unfold netOfMatrix
  rw [mem_inc_netOfPairs, mem_pairsOfMatrix]
  constructor
  · rintro ⟨i', j', row, hr, hc, hq⟩
    simp only [Prod.mk.injEq, Atom.int.injEq, Int.natCast_inj] at hq
    obtain ⟨rfl, rfl⟩ := hq
    exact ⟨row, hr, hc⟩
  · rintro ⟨row, hr, hc⟩; exact ⟨i, j, row, hr, hc, rfl⟩

/-- entry `(i, j)` of the matrix that is written: node `i` (in view order) belongs to edge `j` -/
theorem incMatrix_entry (h : TNet) (hn : h.nodes ≠ []) (he : h.edges ≠ []) (i j : Nat) :
    (∃ row, (incMatrix h)[i]? = some row ∧ row[j]? = some true) ↔
      ∃ n e, h.nodes[i]? = some n ∧ h.edges[j]? = some e ∧ n ∈ e.2 := by
  have h1 : h.nodes.isEmpty = false := by simpa using hn
  have h2 : h.edges.isEmpty = false := by simpa using he
  simp only [incMatrix, h1, h2, Bool.or_self, Bool.false_eq_true, if_false, List.getElem?_map]
  constructor
  · rintro ⟨row, hr, hc⟩
    cases hn' : h.nodes[i]? with
    | none => simp [hn'] at hr
    | some n =>
      simp only [hn', Option.map_some, Option.some.injEq] at hr
      subst hr
      simp only [List.getElem?_map] at hc
      cases he' : h.edges[j]? with
      | none => simp [he'] at hc
      | some e =>
        simp only [he', Option.map_some, Option.some.injEq, decide_eq_true_eq] at hc
        exact ⟨n, e, rfl, rfl, hc⟩
  · rintro ⟨n, e, hn', he', hm⟩
    refine ⟨_, by rw [hn']; rfl, ?_⟩
    simp [he', hm]

/-! ### JSON object keys -/

/-- a cast that undoes `str` on two labels separates their renderings -/
theorem render_inj_of_cast {ty : Ty} {a b : Atom} (ha : cast ty (renderAtom a) = .ok a)
    (hb : cast ty (renderAtom b) = .ok b) (h : renderAtom a = renderAtom b) : a = b := by
  rw [h, hb] at ha; injection ha with ha; exact ha.symm

theorem nodup_map_render {ty : Ty} {l : List Atom} (hl : l.Nodup)
    (hc : ∀ a ∈ l, cast ty (renderAtom a) = .ok a) : (l.map renderAtom).Nodup := by
  induction l with
  | nil => simp
  | cons a t ih =>
    rw [List.nodup_cons] at hl
    simp only [List.map_cons, List.nodup_cons, List.mem_map, not_exists, not_and]
    refine ⟨?_, ih hl.2 (fun x hx => hc x (by simp [hx]))⟩
    intro b hb hr
    have := render_inj_of_cast (hc b (by simp [hb])) (hc a (by simp)) hr
    subst this; exact hl.1 hb

theorem foldl_addEdge (es acc : List (Atom × List Atom)) (ns : List Atom)
    (hids : ((acc ++ es).map (·.1)).Nodup) (hm : ∀ e ∈ es, e.2.Nodup ∧ ∀ n ∈ e.2, n ∈ ns) :
    es.foldl addEdge ⟨ns, acc⟩ = ⟨ns, acc ++ es⟩ := by
  induction es generalizing acc with
  | nil => simp
  | cons e t ih =>
    have hnot : acc.any (fun q => decide (q.1 = e.1)) = false := by
      rw [List.any_eq_false]; intro q hq
      simp only [decide_eq_true_eq]
      intro hqe
      simp only [List.map_append, List.map_cons, List.nodup_append] at hids
      exact hids.2.2 q.1 (List.mem_map.2 ⟨q, hq, rfl⟩) e.1 (by simp) hqe
    have hstep : addEdge ⟨ns, acc⟩ e = ⟨ns, acc ++ [e]⟩ := by
      simp only [addEdge, hnot, Bool.false_eq_true, if_false]
      rw [foldl_ins_of_subset _ _ (hm e (by simp)).2, dedup_of_nodup (hm e (by simp)).1]
    simp only [List.foldl_cons, hstep]
    rw [ih (acc ++ [e]) (by simpa using hids) (fun x hx => hm x (by simp [hx]))]
    simp

theorem length_foldl_ins_le {α : Type} [DecidableEq α] (l acc : List α) :
    (l.foldl (fun acc x => ins x acc) acc).length ≤ acc.length + l.length := by
  induction l generalizing acc with
  | nil => simp
  | cons a t ih =>
    simp only [List.foldl_cons, List.length_cons]
    have := ih (ins a acc)
    have h2 : (ins a acc).length ≤ acc.length + 1 := by unfold ins; split <;> simp
    omega

theorem nodup_of_length_foldl_ins {α : Type} [DecidableEq α] (l acc : List α) (hacc : acc.Nodup)
    (h : (l.foldl (fun acc x => ins x acc) acc).length = acc.length + l.length) : (acc ++ l).Nodup := by
  induction l generalizing acc with
  | nil => simpa using hacc
  | cons a t ih =>
    simp only [List.foldl_cons, List.length_cons] at h
    by_cases ha : a ∈ acc
    · have : ins a acc = acc := by unfold ins; simp [ha]
      rw [this] at h
      have := length_foldl_ins_le t acc
      omega
    · have hi : ins a acc = acc ++ [a] := by unfold ins; simp [ha]
      rw [hi] at h
      have := ih (acc ++ [a]) (by rw [← hi]; exact nodup_ins hacc) (by simp; omega)
      simpa using this

/-- `len(dict) == len(ids)` holds only if no two keys collide -/
theorem nodup_of_length_dedup {α : Type} [DecidableEq α] {l : List α} (h : (dedup l).length = l.length) : l.Nodup := by
  have := nodup_of_length_foldl_ins l [] List.nodup_nil (by simpa [dedup] using h)
  simpa using this

/-- an int label contains no whitespace at all -/
theorem tokWs_int (cm : Option Char) (i : Int) (hc : ∀ c, cm = some c → c.isDigit = false ∧ c ≠ '-') :
    TokWs cm (renderAtom (.int i)) where
  ne := render_int_ne_nil i
  nospace := by
    intro c h
    rcases mem_render_int h with h | h
    · exact isDigit_not_space h
    · rw [h]; exact minus_not_space
  nocomment := by intro c hcm h; have := hc c hcm; rcases mem_render_int h with h | h <;> simp_all

/-! ### the two readers on a written file, given that the line loop recovers the token lists -/

theorem edgelist_core (d : Char) (cm rd : Option Char) (ty : Ty) (edges : List (List Atom))
    (htok : (readLines (fileText ((edges.map (fun e => e.map renderAtom)).map (fun ts => [d].intercalate ts)))).filterMap
              (lineTokens cm rd) = edges.map (fun e => e.map renderAtom))
    (hc : ∀ e ∈ edges, ∀ a ∈ e, cast ty (renderAtom a) = .ok a) :
    readEdgelist cm rd ty (writeEdgelist d edges) = .ok (netOfEdgeList edges) := by
  unfold readEdgelist writeEdgelist parseEdgelistLines genEdgelist
  have hmm : edges.map (fun e => [d].intercalate (e.map renderAtom)) =
      (edges.map (fun e => e.map renderAtom)).map (fun ts => [d].intercalate ts) := by
    simp [List.map_map]
  rw [hmm, htok, mapRes_mapRes_cast_render ty edges hc]; rfl

theorem bipartite_core (d : Char) (cm rd : Option Char) (nty ety : Ty) (dual : Bool) (edges : List (Atom × List Atom))
    (htok : (readLines (fileText (((incOf edges).map (fun p => [renderAtom p.1, renderAtom p.2])).map
              (fun ts => [d].intercalate ts)))).filterMap (lineTokens cm rd)
            = (incOf edges).map (fun p => [renderAtom p.1, renderAtom p.2]))
    (hc : ∀ p ∈ incOf edges, cast (if dual then ety else nty) (renderAtom p.1) = .ok p.1 ∧
                             cast (if dual then nty else ety) (renderAtom p.2) = .ok p.2) :
    readBipartite cm rd nty ety dual (writeBipartite d edges) =
      .ok (netOfPairs (if dual then (incOf edges).map Prod.swap else incOf edges)) := by
  unfold readBipartite writeBipartite parseBipartiteLines
  rw [genBipartite_eq, htok, mapRes_bipartiteLine nty ety dual (incOf edges) hc]; rfl

/-! ### definitional facts (kept as lemmas, not counted as property theorems) -/

/-- colliding string forms (e.g. node IDs `2` and `"2"`) are refused by the writer with the library's error -/
theorem json_write_collision (h : TNet)
    (hc : ¬ (h.nodes.map renderAtom).Nodup ∨ ¬ (h.edges.map (fun e => renderAtom e.1)).Nodup) :
    jsonWrite h = .err .lib := by
  unfold jsonWrite
  by_cases h1 : (dedup (h.nodes.map renderAtom)).length = h.nodes.length
  · have hn : (h.nodes.map renderAtom).Nodup := nodup_of_length_dedup (by simpa using h1)
    have h2 : (dedup (h.edges.map (fun e => renderAtom e.1))).length ≠ h.edges.length := by
      intro h2
      have : (h.edges.map (fun e => renderAtom e.1)).Nodup := nodup_of_length_dedup (by simpa using h2)
      rcases hc with hc | hc <;> contradiction
    simp [h1, h2]
  · simp [h1]

/-- HIF stores IDs as JSON *values*: int and str IDs come back unchanged with no `nodetype`/`edgetype` at all -/
theorem hif_ids_need_no_cast (a : Atom) : idOfJVal .none (idToJVal a) = .ok a := by
  cases a <;> rfl

/-- … and an explicit cast that matches the ID's type is harmless -/
theorem hif_ids_cast (i : Int) (s : String) :
    idOfJVal .int (idToJVal (.int i)) = .ok (.int i) ∧ idOfJVal .str (idToJVal (.str s)) = .ok (.str s) :=
  ⟨rfl, rfl⟩

end Xgi.C11
