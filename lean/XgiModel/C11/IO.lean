/-
  C11 — the text-level logic of xgi's file formats (xgi/readwrite/{edgelist,bipartite,incidence,json,hif}.py).

  What is modelled (loop for loop): how a network becomes lines of text and how lines of text become a
  network again — `delimiter.join(map(str, …))`, the line loop of `parse_edgelist` /
  `parse_bipartite_edgelist` (comment cut, `strip`, `split`, casts, `add_edge` / `add_node_to_edge`),
  the dense 0/1 matrix written by `np.savetxt` and re-read by `np.loadtxt` + `from_incidence_matrix`, and
  the ID handling of `to_hypergraph_dict` / `from_hypergraph_dict` (IDs become JSON object keys, i.e. strings)
  versus `to_hif_dict` / `from_hif_dict` (IDs are JSON values).

  What is *not* modelled, and appears as an identity / oracle: the file system, the utf-8 codec
  (`encode`/`decode`), `json.dumps`/`json.loads` (identity on the documents used here), the float formatting
  of `np.savetxt` (the two tokens it writes for the entries 0 and 1 are constants of the model) and the float
  parser of `np.loadtxt` (only these two tokens are recognised; anything else answers `unmodelled`),
  Python `int(str)` outside plain decimal literals (`unmodelled`), set iteration order (the writer is given the
  members in the order the implementation iterates them).

  Text is `List Char`; the delimiter and the comment token are single characters.  No Mathlib.
-/
import XgiModel.Base

namespace Xgi.C11

abbrev Text := List Char

/-- error kinds the readers/writers raise: the library's own (`XGIError`), `TypeError`, `ValueError` -/
inductive Err where
  | lib | typeError | valueError
  deriving DecidableEq, Repr

/-- result of a modelled call: a value, a raised error, or "outside the model" -/
inductive Res (α : Type) where
  | ok (a : α)
  | err (e : Err)
  | unmodelled
  deriving Repr, DecidableEq

namespace Res
def bind {α β} (r : Res α) (f : α → Res β) : Res β :=
  match r with
  | ok a => f a
  | err e => err e
  | unmodelled => unmodelled
def map {α β} (f : α → β) (r : Res α) : Res β := r.bind (fun a => ok (f a))
@[simp] theorem bind_ok {α β} (a : α) (f : α → Res β) : (ok a).bind f = f a := rfl
@[simp] theorem map_ok {α β} (a : α) (f : α → β) : (ok a).map f = ok (f a) := rfl
end Res

/-- sequential map that stops at the first raise (a Python comprehension / loop body) -/
def mapRes {α β} (f : α → Res β) : List α → Res (List β)
  | [] => .ok []
  | a :: l => (f a).bind fun b => (mapRes f l).bind fun bs => .ok (b :: bs)

/-! ### Python `str` pieces -/

/-- `str.isspace` for one character (the set `str.strip()` and `str.split()` use) -/
def pySpace (c : Char) : Bool :=
  let n := c.toNat
  (9 ≤ n && n ≤ 13) || (28 ≤ n && n ≤ 32) || n = 0x85 || n = 0xa0 || n = 0x1680 ||
  (0x2000 ≤ n && n ≤ 0x200a) || n = 0x2028 || n = 0x2029 || n = 0x202f || n = 0x205f || n = 0x3000

/-- `line.strip()` -/
def strip (l : Text) : Text := ((l.dropWhile pySpace).reverse.dropWhile pySpace).reverse

/-- `p = line.find(c); line[:p] if p >= 0` for a one-character comment token (`comments=None` ⇒ untouched) -/
def cutComment (cm : Option Char) (l : Text) : Text :=
  match cm with
  | none => l
  | some c => l.takeWhile (fun x => x != c)

/-- `s.split(delimiter)`: on one character, or (`None`) on runs of whitespace dropping empty pieces -/
def splitLine (d : Option Char) (l : Text) : List Text :=
  match d with
  | some c => l.splitOn c
  | none => (l.splitOnP pySpace).filter (fun t => !t.isEmpty)

/-- the common head of the two line loops: cut the comment, skip the line if nothing is left
    (`if not line: continue` sits inside `if comments is not None`), strip, split -/
def lineTokens (cm d : Option Char) (line : Text) : Option (List Text) :=
  let l := cutComment cm line
  if cm.isSome && l.isEmpty then none else some (splitLine d (strip l))

/-! ### files as text: `file.write((line + "\n").encode())` / `for line in file` (codec = identity) -/

def fileText (lines : List Text) : Text := (lines.map (fun l => l ++ ['\n'])).flatten

def readLinesAux : Text → Text → List Text
  | [], acc => if acc.isEmpty then [] else [acc.reverse]
  | c :: cs, acc => if c = '\n' then (c :: acc).reverse :: readLinesAux cs [] else readLinesAux cs (c :: acc)
/-- iteration over a file opened in binary mode: lines keep their terminating `\n` -/
def readLines (t : Text) : List Text := readLinesAux t []

/-! ### labels: `str(x)` and the casts `nodetype(s)` / `edgetype(s)` -/

/-- `str(x)` for an int or str label -/
def renderAtom : Atom → Text
  | .int i => (toString i).toList
  | .str s => s.toList

/-- the documented casts: `None` (keep the token), `int`, `str` -/
inductive Ty where
  | none | int | str
  deriving DecidableEq, Repr

/-- characters that can never be part of an argument `int()` accepts -/
def badIntChar (c : Char) : Bool :=
  c.toNat < 128 && !(c.isDigit || c == '_' || c == '+' || c == '-' || pySpace c)

/-- `int(token)`: plain decimal literals `-?[0-9]+` are evaluated, tokens that are empty or contain an
    ASCII character no integer literal may contain raise `ValueError`, the rest (`+5`, `1_0`, padded or
    non-ASCII digits) is outside the model -/
def castInt (t : Text) : Res Int :=
  match (String.ofList t).toInt? with
  | some i => if t.all (fun c => c.isDigit || c == '-') then .ok i else .unmodelled
  | none => if t.isEmpty || t.any badIntChar then .err .valueError else .unmodelled

/-- `nodetype(token)` as the readers use it: a `ValueError` of the cast is re-raised as `TypeError` -/
def cast (ty : Ty) (t : Text) : Res Atom :=
  match ty with
  | .none => .ok (.str (String.ofList t))
  | .str => .ok (.str (String.ofList t))
  | .int => match castInt t with
    | .ok i => .ok (.int i)
    | .err _ => .err .typeError
    | .unmodelled => .unmodelled

/-! ### networks with atomic labels, as the readers build them -/

structure TNet where
  nodes : List Atom
  edges : List (Atom × List Atom)
  deriving Repr, Inhabited, DecidableEq

def TNet.empty : TNet := ⟨[], []⟩

/-- incidences `(node, edge)` of a list of `(edge ID, members)`, in edge order -/
def incOf (edges : List (Atom × List Atom)) : List (Atom × Atom) := edges.flatMap (fun e => e.2.map (fun n => (n, e.1)))
def TNet.inc (h : TNet) : List (Atom × Atom) := incOf h.edges

/-- `H.add_node_to_edge(edge, node)` with `p = (node, edge)` -/
def addPair (h : TNet) (p : Atom × Atom) : TNet :=
  { nodes := ins p.1 h.nodes,
    edges := if h.edges.any (fun q => q.1 = p.2)
             then h.edges.map (fun q => if q.1 = p.2 then (q.1, ins p.1 q.2) else q)
             else h.edges ++ [(p.2, [p.1])] }

def netOfPairs (ps : List (Atom × Atom)) : TNet := ps.foldl addPair TNet.empty

/-- `H.add_edge(members, idx)` on a hypergraph: an existing ID is skipped with a warning -/
def addEdge (h : TNet) (e : Atom × List Atom) : TNet :=
  if h.edges.any (fun q => q.1 = e.1) then h
  else { nodes := e.2.foldl (fun acc n => ins n acc) h.nodes, edges := h.edges ++ [(e.1, dedup e.2)] }

/-- `H.add_edge(members)` for each member list, automatic IDs 0,1,2,… on a fresh hypergraph -/
def netOfEdgeList (es : List (List Atom)) : TNet :=
  { nodes := dedup es.flatten,
    edges := es.zipIdx.map (fun p => (Atom.int p.2, dedup p.1)) }

/-! ### (a) edge-list format -/

/-- `generate_edgelist`: one line per edge, `delimiter.join(map(str, members))` -/
def genEdgelist (d : Char) (edges : List (List Atom)) : List Text :=
  edges.map (fun e => [d].intercalate (e.map renderAtom))

/-- the member lists `parse_edgelist` hands to `add_edge`, line by line -/
def parseEdgelistLines (cm d : Option Char) (ty : Ty) (lines : List Text) : Res (List (List Atom)) :=
  mapRes (fun toks => mapRes (cast ty) toks) (lines.filterMap (lineTokens cm d))

def writeEdgelist (d : Char) (edges : List (List Atom)) : Text := fileText (genEdgelist d edges)

def readEdgelist (cm d : Option Char) (ty : Ty) (file : Text) : Res TNet :=
  (parseEdgelistLines cm d ty (readLines file)).map netOfEdgeList

/-! ### (b) bipartite edge-list format -/

/-- `generate_bipartite_edgelist`: one line `str(node) delim str(edge)` per incidence -/
def genBipartite (d : Char) (edges : List (Atom × List Atom)) : List Text :=
  edges.flatMap (fun e => e.2.map (fun n => [d].intercalate [renderAtom n, renderAtom e.1]))

/-- one line of `parse_bipartite_edgelist`: the `(node, edge)` pair handed to `add_node_to_edge` -/
def bipartiteLine (nty ety : Ty) (dual : Bool) (s : List Text) : Res (Atom × Atom) :=
  if s.length < 2 then .err .lib else
  let ntok := s.getD (if dual then 1 else 0) []
  let etok := s.getD (if dual then 0 else 1) []
  (cast nty ntok).bind fun n => (cast ety etok).bind fun e => .ok (n, e)

def parseBipartiteLines (cm d : Option Char) (nty ety : Ty) (dual : Bool) (lines : List Text) : Res (List (Atom × Atom)) :=
  mapRes (bipartiteLine nty ety dual) (lines.filterMap (lineTokens cm d))

def writeBipartite (d : Char) (edges : List (Atom × List Atom)) : Text := fileText (genBipartite d edges)

def readBipartite (cm d : Option Char) (nty ety : Ty) (dual : Bool) (file : Text) : Res TNet :=
  (parseBipartiteLines cm d nty ety dual (readLines file)).map netOfPairs

/-! ### (c) incidence-matrix text format -/

def zeros18 : Text := List.replicate 18 '0'
/-- what `np.savetxt` (default `fmt="%.18e"`) writes for the entries 1 and 0 -/
def tok1 : Text := '1' :: '.' :: (zeros18 ++ ['e', '+', '0', '0'])
def tok0 : Text := '0' :: '.' :: (zeros18 ++ ['e', '+', '0', '0'])
def tokOf (b : Bool) : Text := if b then tok1 else tok0

/-- `incidence_matrix(H, sparse=False)`: rows = nodes, columns = edges, in view order; the library returns
    the 0×0 matrix when there is no node or no edge -/
def incMatrix (h : TNet) : List (List Bool) :=
  if h.nodes.isEmpty || h.edges.isEmpty then []
  else h.nodes.map (fun n => h.edges.map (fun e => decide (n ∈ e.2)))

/-- `np.savetxt(path, M, delimiter=d, newline="\n")` -/
def genMatrix (d : Char) (m : List (List Bool)) : List Text :=
  m.map (fun row => [d].intercalate (row.map tokOf))

def parseTok (t : Text) : Res Bool :=
  if t = tok1 then .ok true else if t = tok0 then .ok false else .unmodelled

/-- drop the line terminator -/
def chomp (l : Text) : Text := if l.getLast? = some '\n' then l.dropLast else l

/-- one line of `np.loadtxt`: comment cut, empty lines skipped, split, every field converted -/
def matrixLine (cm d : Option Char) (line : Text) : Option (Res (List Bool)) :=
  let l := cutComment cm (chomp line)
  if l.isEmpty then none
  else
    let toks := splitLine d l
    if toks.isEmpty then some .unmodelled else some (mapRes parseTok toks)

/-- `np.loadtxt(path, comments, delimiter, ndmin=2)`: the rows in order; a change in the number of columns
    raises `ValueError`; the *shape is preserved* (n×m stays n×m also for n = 1 or m = 1 — this is the
    repaired behaviour, DESIGN §9 F9); a file without data is outside the model -/
def parseMatrixLines (cm d : Option Char) (lines : List Text) : Res (List (List Bool)) :=
  (mapRes id (lines.filterMap (matrixLine cm d))).bind fun rows =>
    match rows with
    | [] => .unmodelled
    | r :: rs => if rs.all (fun r' => r'.length = r.length) then .ok (r :: rs) else .err .valueError

/-- `from_incidence_matrix`: the non-zero entries in row-major order (what `coo_array(dense)` lists),
    each added with `add_node_to_edge(col, row)` -/
def pairsOfMatrix (m : List (List Bool)) : List (Atom × Atom) :=
  m.zipIdx.flatMap (fun r => r.1.zipIdx.filterMap (fun c =>
    if c.1 then some (Atom.int r.2, Atom.int c.2) else none))

def netOfMatrix (m : List (List Bool)) : TNet := netOfPairs (pairsOfMatrix m)

def writeIncidence (d : Char) (h : TNet) : Text := fileText (genMatrix d (incMatrix h))

def readIncidence (cm d : Option Char) (file : Text) : Res TNet :=
  (parseMatrixLines cm d (readLines file)).map netOfMatrix

/-! ### (d) IDs as JSON object keys (`write_json`/`read_json`) versus IDs as JSON values (HIF) -/

/-- the ID part of the document `to_hypergraph_dict` builds: node keys, and per edge its key and members,
    all cast to `str` (object keys of JSON are strings; `json.dumps`/`loads` is the identity on this) -/
structure JDoc where
  nodeKeys : List Text
  edgeDict : List (Text × List Text)
  deriving Repr, DecidableEq

/-- `to_hypergraph_dict`: a dict comprehension over `str(idx)` collapses colliding keys; the library
    detects that by comparing lengths and raises `XGIError` -/
def jsonWrite (h : TNet) : Res JDoc :=
  if (dedup (h.nodes.map renderAtom)).length ≠ h.nodes.length then .err .lib
  else if (dedup (h.edges.map (fun e => renderAtom e.1))).length ≠ h.edges.length then .err .lib
  else .ok { nodeKeys := h.nodes.map renderAtom,
             edgeDict := h.edges.map (fun e => (renderAtom e.1, e.2.map renderAtom)) }

/-- `from_hypergraph_dict`: `add_node(nodetype(key))` per node key, then per edge
    `add_edge({nodetype(n) …}, edgetype(key))` -/
def jsonRead (nty ety : Ty) (doc : JDoc) : Res TNet :=
  (mapRes (cast nty) doc.nodeKeys).bind fun ns =>
  (mapRes (fun e => (cast ety e.1).bind fun idx => (mapRes (cast nty) e.2).bind fun ms => .ok (idx, ms)) doc.edgeDict).bind fun es =>
  .ok (es.foldl addEdge { nodes := dedup ns, edges := [] })

/-- a JSON scalar value -/
inductive JVal where
  | num (i : Int)
  | str (s : String)
  deriving DecidableEq, Repr

/-- HIF stores an ID as the *value* of the field `"node"` / `"edge"` -/
def idToJVal : Atom → JVal
  | .int i => .num i
  | .str s => .str s

/-- `_convert_id(record["node"], nodetype)` of `from_hif_dict` -/
def idOfJVal (ty : Ty) (v : JVal) : Res Atom :=
  match ty, v with
  | .none, .num i => .ok (.int i)
  | .none, .str s => .ok (.str s)
  | .int, .num i => .ok (.int i)
  | .int, .str s => cast .int s.toList
  | .str, .num i => .ok (.str (toString i))
  | .str, .str s => .ok (.str s)

end Xgi.C11
