/-
  C11 driver: JSON request → the functions of IO.lean → JSON.

  requests (one per line):
    {"f":"edgelist",  "delim":c, "rdelim":c|null, "comments":c|null, "nodetype":null|"int"|"str",
                      "edges":[[id…]…] (optional), "text":file}
    {"f":"bipartite", "delim", "rdelim", "comments", "nodetype", "edgetype", "dual":bool,
                      "edges":[[eid,[id…]]…] (optional), "text"}
    {"f":"incidence", "delim", "rdelim", "comments", "net":{"nodes":[…],"edges":[[eid,[…]]…]} (optional), "text"}
    {"f":"json",      "net":{…}, "nodetype", "edgetype"}
    {"f":"hifid",     "id":id, "type":null|"int"|"str"}
  responses: {"out":"ok","gen":text|null,"read":R}; R = {"out":"ok","nodes":[…],"edges":[[id,{"$set":[…]}]…]}
  | {"out":"err:lib"|"err:type"|"err:value"} | {"out":"unmodelled"}.
  Labels that are not int/str, delimiters or comment tokens of more than one character: {"out":"unmodelled"}.

  whole-file requests for the two JSON formats (C11/Hif.lean: `json.dumps`/`json.loads` = `idLayer` around the
  C10 dict converters).  They take EXACTLY the request shape of the C10 driver's "hif_dict" / "hypergraph_dict"
  requests and answer EXACTLY what the C10 driver answers for them:
    {"f":"hif",      "net":{"cls":"hg"|"dhg"|"sc","nodes":[…],"edges":[[eid,[…]]…] | [[eid,[tail…],[head…]]…],
                            "nattr":[[id,attrs]…],"eattr":[[id,attrs]…],"gattr":attrs}}
        computed as readHif (idLayer Hif) (writeHif (idLayer Hif) net)
        → {"out":"ok","rep":<the HIF document>,"rt":<network read back; with "kept" for cls "sc">}
    {"f":"jsonfull", "net":{… cls "hg"|"sc" …}, "nodetype":"int"|"none"|"mixed", "edgetype":"int"|"none"|"mixed"}
        computed as readJson (idLayer HDict) nodetype edgetype (writeJson (idLayer HDict) str net)
        → {"out":"ok","rep":<the hypergraph dict>,"rt":<network read back>} | {"out":"err:lib"|"err:type"}
  both: {"out":"unmodelled"} for non-atomic IDs or a "using" option, bad-op for an ill-typed request
  (and for "jsonfull" on a directed network).
-/
import XgiModel.Proto
import XgiModel.C11.IO
import XgiModel.C11.Hif
import XgiModel.C10.Drive
open Lean Xgi.Proto

namespace Xgi.C11.Drive

def unmodelled : Json := Json.mkObj [("out", Json.str "unmodelled")]

def errJson : Err → Json
  | .lib => Json.mkObj [("out", Json.str "err:lib")]
  | .typeError => Json.mkObj [("out", Json.str "err:type")]
  | .valueError => Json.mkObj [("out", Json.str "err:value")]

def atomsJ (l : List Atom) : Json := Json.arr (l.map atomToJson).toArray

def netJ (h : TNet) : Json :=
  Json.mkObj [("out", Json.str "ok"), ("nodes", atomsJ h.nodes),
    ("edges", Json.arr (h.edges.map (fun e => Json.arr #[atomToJson e.1, Json.mkObj [("$set", atomsJ e.2)]])).toArray)]

def resJ {α} (f : α → Json) : Res α → Json
  | .ok a => f a
  | .err e => errJson e
  | .unmodelled => unmodelled

/-- an optional one-character argument: `none` = ill-typed request, `some none` = JSON null,
    `some (some (some c))` = the character, `some (some none)` = a longer string (outside the model) -/
def charArg? (j : Json) (k : String) : Option (Option (Option Char)) :=
  match getField? j k with
  | some .null => some none
  | some (.str s) => match s.toList with
    | [c] => some (some (some c))
    | _ => some (some none)
  | _ => none

def tyArg? (j : Json) (k : String) : Option Ty :=
  match getField? j k with
  | some .null => some .none
  | some (.str "int") => some .int
  | some (.str "str") => some .str
  | _ => none

def atomsOfJson? (j : Json) : Option (Option (List Atom)) :=
  match j with
  | .arr a => if a.toList.all (fun x => (atomOfJson? x).isSome) then some (a.toList.mapM atomOfJson?)
              else if a.toList.all (fun x => (idOfJson? x).isSome) then some none else none
  | _ => none

/-- `none` = ill-typed; `some none` = has a tuple/None label (outside the model) -/
def edgeLists? (j : Json) : Option (Option (List (List Atom))) :=
  match j with
  | .arr a => do
    let es ← a.toList.mapM atomsOfJson?
    pure (es.mapM id)
  | _ => none

def idEdges? (j : Json) : Option (Option (List (Atom × List Atom))) :=
  match j with
  | .arr a => do
    let es ← a.toList.mapM (fun p => match p with
      | .arr #[i, ms] => do
        let ms ← atomsOfJson? ms
        let i ← idOfJson? i
        pure (match i, ms with
          | .atom a, some ms => some (a, ms)
          | _, _ => none)
      | _ => none)
    pure (es.mapM id)
  | _ => none

def tnet? (j : Json) : Option (Option TNet) := do
  let ns ← atomsOfJson? (← getField? j "nodes")
  let es ← idEdges? (← getField? j "edges")
  pure (match ns, es with
    | some ns, some es => some ⟨ns, es⟩
    | _, _ => none)

def textJ (t : Text) : Json := Json.str (String.ofList t)

def okResp (gen : Json) (read : Json) : Json :=
  Json.mkObj [("out", Json.str "ok"), ("gen", gen), ("read", read)]

/-- the request's network, exactly as the C10 driver reads it: `none` = ill-typed (bad-op),
    `some none` = outside the model (`using` option, non-atomic IDs) -/
def fileSrc? (j : Json) : Option (Option (C10.ANet ⊕ C10.ADiNet)) :=
  if (getField? j "using").isSome && (getField? j "using") != some Json.null then some none else
  match (getField? j "net").bind C10.Drive.src? with
  | none => none
  | some src => if !C10.Drive.atomsOnly src then some none else some (some src)

/-- "hif": `read_hif(write_hif(N))` through the identity JSON layer; same answer as C10's "hif_dict" -/
def hifFile (src : C10.ANet ⊕ C10.ADiNet) : Json :=
  let J := idLayer C10.Hif
  let doc := writeHif J src
  let rt := match (J.loads doc).ntype, readHif J doc with
    | .sc, .inl r => C10.Drive.aNetJson r [("kept", natJson (C10.keptCount (C10.fromHifU (J.loads doc))))]
    | _, r => C10.Drive.resultJson r
  C10.Drive.ok (C10.Drive.hifJson (J.loads doc)) rt

/-- "jsonfull": `read_json(write_json(N), nodetype, edgetype)` through the identity JSON layer; same answer as
    C10's "hypergraph_dict" -/
def jsonFile (j : Json) (src : C10.ANet ⊕ C10.ADiNet) : Json :=
  match src with
  | .inr _ => badOp
  | .inl a =>
    match (getStr? j "nodetype").bind C10.Drive.uncast?, (getStr? j "edgetype").bind C10.Drive.uncast? with
    | some un, some ue =>
      let J := idLayer C10.HDict
      match writeJson J C10.Drive.cast a with
      | .error e => C10.Drive.errJson e
      | .ok doc => match readJson J un ue doc with
        | .error e => C10.Drive.errJson e
        | .ok r => C10.Drive.ok (C10.Drive.hdictJson (J.loads doc)) (C10.Drive.aNetJson r)
    | _, _ => badOp

def handleReq (j : Json) : Option Json := do
  let f ← getStr? j "f"
  match f with
  | "hif" =>
    match ← fileSrc? j with
    | none => pure unmodelled
    | some src => pure (hifFile src)
  | "jsonfull" =>
    match ← fileSrc? j with
    | none => pure unmodelled
    | some src => pure (jsonFile j src)
  | "edgelist" =>
    let text ← getStr? j "text"
    let ty ← tyArg? j "nodetype"
    let cm ← charArg? j "comments"
    let rd ← charArg? j "rdelim"
    let gen ← match getField? j "edges" with
      | none => pure (some Json.null)
      | some ej => do
        let es ← edgeLists? ej
        let d ← charArg? j "delim"
        pure (match es, d with
          | some es, some (some d) => some (textJ (writeEdgelist d es))
          | _, _ => none)
    let rd' : Option (Option Char) := match rd with | none => some none | some (some c) => some (some c) | some none => none
    let cm' : Option (Option Char) := match cm with | none => some none | some (some c) => some (some c) | some none => none
    match gen, rd', cm' with
    | some g, some rd, some cm => pure (okResp g (resJ netJ (readEdgelist cm rd ty text.toList)))
    | _, _, _ => pure unmodelled
  | "bipartite" =>
    let text ← getStr? j "text"
    let nty ← tyArg? j "nodetype"
    let ety ← tyArg? j "edgetype"
    let dual ← getBool? j "dual"
    let cm ← charArg? j "comments"
    let rd ← charArg? j "rdelim"
    let gen ← match getField? j "edges" with
      | none => pure (some Json.null)
      | some ej => do
        let es ← idEdges? ej
        let d ← charArg? j "delim"
        pure (match es, d with
          | some es, some (some d) => some (textJ (writeBipartite d es))
          | _, _ => none)
    let rd' : Option (Option Char) := match rd with | none => some none | some (some c) => some (some c) | some none => none
    let cm' : Option (Option Char) := match cm with | none => some none | some (some c) => some (some c) | some none => none
    match gen, rd', cm' with
    | some g, some rd, some cm => pure (okResp g (resJ netJ (readBipartite cm rd nty ety dual text.toList)))
    | _, _, _ => pure unmodelled
  | "incidence" =>
    let text ← getStr? j "text"
    let cm ← charArg? j "comments"
    let rd ← charArg? j "rdelim"
    let gen ← match getField? j "net" with
      | none => pure (some Json.null)
      | some nj => do
        let h ← tnet? nj
        let d ← charArg? j "delim"
        pure (match h, d with
          | some h, some (some d) => some (textJ (writeIncidence d h))
          | _, _ => none)
    let rd' : Option (Option Char) := match rd with | none => some none | some (some c) => some (some c) | some none => none
    let cm' : Option (Option Char) := match cm with | none => some none | some (some c) => some (some c) | some none => none
    match gen, rd', cm' with
    | some g, some rd, some cm => pure (okResp g (resJ netJ (readIncidence cm rd text.toList)))
    | _, _, _ => pure unmodelled
  | "json" =>
    let h ← tnet? (← getField? j "net")
    let nty ← tyArg? j "nodetype"
    let ety ← tyArg? j "edgetype"
    match h with
    | none => pure unmodelled
    | some h =>
      match jsonWrite h with
      | .ok doc => pure (Json.mkObj [("out", Json.str "ok"), ("write", Json.str "ok"),
          ("keys", Json.arr (doc.nodeKeys.map textJ).toArray),
          ("read", resJ netJ (jsonRead nty ety doc))])
      | .err e => pure (Json.mkObj [("out", Json.str "ok"), ("write", errJson e), ("keys", Json.null), ("read", Json.null)])
      | .unmodelled => pure unmodelled
  | "hifid" =>
    let i ← getId? j "id"
    let ty ← tyArg? j "type"
    match i with
    | .atom a => pure (Json.mkObj [("out", Json.str "ok"),
        ("read", resJ (fun a => Json.mkObj [("out", Json.str "ok"), ("id", atomToJson a)]) (idOfJVal ty (idToJVal a)))])
    | _ => pure unmodelled
  | _ => none

def handle (st : Unit) (j : Json) : Unit × Json :=
  match handleReq j with
  | some r => (st, r)
  | none => (st, badOp)

end Xgi.C11.Drive
