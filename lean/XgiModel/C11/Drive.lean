/-
  C11 driver: JSON request → the functions of IO.lean → JSON.

  requests (one per line):
    {"f":"edgelist",  "delim":c, "rdelim":c|null, "comments":c|null, "nodetype":null|"int"|"str",
                      "edges":[[id…]…] (optional), "text":file}
    {"f":"bipartite", "delim", "rdelim", "comments", "nodetype", "edgetype", "dual":bool,
                      "edges":[[eid,[id…]]…] (optional), "text"}
    {"f":"incidence", "delim", "rdelim", "comments", "net":{"nodes":[…],"edges":[[eid,[…]]…]} (optional), "text"}
    {"f":"json",      "net":{…}, "nodetype", "edgetype"}
    {"f":"hifid",     "id":id, "type":null|"int"|"str"}
  responses: {"out":"ok","gen":text|null,"read":R}; R = {"out":"ok","nodes":[…],"edges":[[id,{"$set":[…]}]…]}
  | {"out":"err:lib"|"err:type"|"err:value"} | {"out":"unmodelled"}.
  Labels that are not int/str, delimiters or comment tokens of more than one character: {"out":"unmodelled"}.
-/
import XgiModel.Proto
import XgiModel.C11.IO
open Lean Xgi.Proto

namespace Xgi.C11.Drive

def unmodelled : Json := Json.mkObj [("out", Json.str "unmodelled")]

def errJson : Err → Json
  | .lib => Json.mkObj [("out", Json.str "err:lib")]
  | .typeError => Json.mkObj [("out", Json.str "err:type")]
  | .valueError => Json.mkObj [("out", Json.str "err:value")]

def atomsJ (l : List Atom) : Json := Json.arr (l.map atomToJson).toArray

def netJ (h : TNet) : Json :=
  Json.mkObj [("out", Json.str "ok"), ("nodes", atomsJ h.nodes),
    ("edges", Json.arr (h.edges.map (fun e => Json.arr #[atomToJson e.1, Json.mkObj [("$set", atomsJ e.2)]])).toArray)]

def resJ {α} (f : α → Json) : Res α → Json
  | .ok a => f a
  | .err e => errJson e
  | .unmodelled => unmodelled

/-- an optional one-character argument: `none` = ill-typed request, `some none` = JSON null,
    `some (some (some c))` = the character, `some (some none)` = a longer string (outside the model) -/
def charArg? (j : Json) (k : String) : Option (Option (Option Char)) :=
  match getField? j k with
  | some .null => some none
  | some (.str s) => match s.toList with
    | [c] => some (some (some c))
    | _ => some (some none)
  | _ => none

def tyArg? (j : Json) (k : String) : Option Ty :=
  match getField? j k with
  | some .null => some .none
  | some (.str "int") => some .int
  | some (.str "str") => some .str
  | _ => none

def atomsOfJson? (j : Json) : Option (Option (List Atom)) :=
  match j with
  | .arr a => if a.toList.all (fun x => (atomOfJson? x).isSome) then some (a.toList.mapM atomOfJson?)
              else if a.toList.all (fun x => (idOfJson? x).isSome) then some none else none
  | _ => none

/-- `none` = ill-typed; `some none` = has a tuple/None label (outside the model) -/
def edgeLists? (j : Json) : Option (Option (List (List Atom))) :=
  match j with
  | .arr a => do
    let es ← a.toList.mapM atomsOfJson?
    pure (es.mapM id)
  | _ => none

def idEdges? (j : Json) : Option (Option (List (Atom × List Atom))) :=
  match j with
  | .arr a => do
    let es ← a.toList.mapM (fun p => match p with
      | .arr #[i, ms] => do
        let ms ← atomsOfJson? ms
        let i ← idOfJson? i
        pure (match i, ms with
          | .atom a, some ms => some (a, ms)
          | _, _ => none)
      | _ => none)
    pure (es.mapM id)
  | _ => none

def tnet? (j : Json) : Option (Option TNet) := do
  let ns ← atomsOfJson? (← getField? j "nodes")
  let es ← idEdges? (← getField? j "edges")
  pure (match ns, es with
    | some ns, some es => some ⟨ns, es⟩
    | _, _ => none)

def textJ (t : Text) : Json := Json.str (String.ofList t)

def okResp (gen : Json) (read : Json) : Json :=
  Json.mkObj [("out", Json.str "ok"), ("gen", gen), ("read", read)]

def handleReq (j : Json) : Option Json := do
  let f ← getStr? j "f"
  match f with
  | "edgelist" =>
    let text ← getStr? j "text"
    let ty ← tyArg? j "nodetype"
    let cm ← charArg? j "comments"
    let rd ← charArg? j "rdelim"
    let gen ← match getField? j "edges" with
      | none => pure (some Json.null)
      | some ej => do
        let es ← edgeLists? ej
        let d ← charArg? j "delim"
        pure (match es, d with
          | some es, some (some d) => some (textJ (writeEdgelist d es))
          | _, _ => none)
    let rd' : Option (Option Char) := match rd with | none => some none | some (some c) => some (some c) | some none => none
    let cm' : Option (Option Char) := match cm with | none => some none | some (some c) => some (some c) | some none => none
    match gen, rd', cm' with
    | some g, some rd, some cm => pure (okResp g (resJ netJ (readEdgelist cm rd ty text.toList)))
    | _, _, _ => pure unmodelled
  | "bipartite" =>
    let text ← getStr? j "text"
    let nty ← tyArg? j "nodetype"
    let ety ← tyArg? j "edgetype"
    let dual ← getBool? j "dual"
    let cm ← charArg? j "comments"
    let rd ← charArg? j "rdelim"
    let gen ← match getField? j "edges" with
      | none => pure (some Json.null)
      | some ej => do
        let es ← idEdges? ej
        let d ← charArg? j "delim"
        pure (match es, d with
          | some es, some (some d) => some (textJ (writeBipartite d es))
          | _, _ => none)
    let rd' : Option (Option Char) := match rd with | none => some none | some (some c) => some (some c) | some none => none
    let cm' : Option (Option Char) := match cm with | none => some none | some (some c) => some (some c) | some none => none
    match gen, rd', cm' with
    | some g, some rd, some cm => pure (okResp g (resJ netJ (readBipartite cm rd nty ety dual text.toList)))
    | _, _, _ => pure unmodelled
  | "incidence" =>
    let text ← getStr? j "text"
    let cm ← charArg? j "comments"
    let rd ← charArg? j "rdelim"
    let gen ← match getField? j "net" with
      | none => pure (some Json.null)
      | some nj => do
        let h ← tnet? nj
        let d ← charArg? j "delim"
        pure (match h, d with
          | some h, some (some d) => some (textJ (writeIncidence d h))
          | _, _ => none)
    let rd' : Option (Option Char) := match rd with | none => some none | some (some c) => some (some c) | some none => none
    let cm' : Option (Option Char) := match cm with | none => some none | some (some c) => some (some c) | some none => none
    match gen, rd', cm' with
    | some g, some rd, some cm => pure (okResp g (resJ netJ (readIncidence cm rd text.toList)))
    | _, _, _ => pure unmodelled
  | "json" =>
    let h ← tnet? (← getField? j "net")
    let nty ← tyArg? j "nodetype"
    let ety ← tyArg? j "edgetype"
    match h with
    | none => pure unmodelled
    | some h =>
      match jsonWrite h with
      | .ok doc => pure (Json.mkObj [("out", Json.str "ok"), ("write", Json.str "ok"),
          ("keys", Json.arr (doc.nodeKeys.map textJ).toArray),
          ("read", resJ netJ (jsonRead nty ety doc))])
      | .err e => pure (Json.mkObj [("out", Json.str "ok"), ("write", errJson e), ("keys", Json.null), ("read", Json.null)])
      | .unmodelled => pure unmodelled
  | "hifid" =>
    let i ← getId? j "id"
    let ty ← tyArg? j "type"
    match i with
    | .atom a => pure (Json.mkObj [("out", Json.str "ok"),
        ("read", resJ (fun a => Json.mkObj [("out", Json.str "ok"), ("id", atomToJson a)]) (idOfJVal ty (idToJVal a)))])
    | _ => pure unmodelled
  | _ => none

def handle (st : Unit) (j : Json) : Unit × Json :=
  match handleReq j with
  | some r => (st, r)
  | none => (st, badOp)

end Xgi.C11.Drive
