/-
  C14 driver: JSON request {"f": <function>, "net": {...}, args…} → model call → JSON.
  Lists standing for Python sets are {"$set": […]}; rationals are "p/q"; `np.inf` is "inf".
-/
import XgiModel.Proto
import XgiModel.Net
import XgiModel.C14.Algo
open Lean Xgi.Proto

namespace Xgi.C14.Drive

def ratJson (q : Rat) : Json := Json.str s!"{q.num}/{q.den}"
def fvalJson : FVal → Json
  | .val q => ratJson q
  | .inf => Json.str "inf"
def distJson : Option Nat → Json
  | some d => natJson d
  | none => Json.str "inf"
def okV (v : Json) : Json := Json.mkObj [("out", Json.str "ok"), ("v", v)]
def errJ (k : String) : Json := Json.mkObj [("out", Json.str ("err:" ++ k))]
def unmodelled : Json := Json.mkObj [("out", Json.str "unmodelled")]
def pairJ (a b : Json) : Json := Json.arr #[a, b]
def listJ {α} (l : List α) (f : α → Json) : Json := Json.arr (l.map f).toArray

/-- decidable form of `Net.WF` (requests outside it are not modelled) -/
def wfB (h : Net) : Bool :=
  decide h.nodes.Nodup && decide (h.edges.map (·.1)).Nodup &&
  h.edges.all (fun p => decide p.2.Nodup && p.2.all (· ∈ h.nodes))

def tableJ (h : Net) (d : PyId → Option Nat) : Json :=
  listJ (ssspTable h d) (fun p => pairJ (idToJson p.1) (distJson p.2))

def ssspJ (h : Net) (src : PyId) : Json :=
  match sssp h src with
  | .notFound => errJ "IDNotFound"
  | .fuel => Json.mkObj [("out", Json.str "fuel-exhausted")]
  | .ok d => okV (tableJ h d)

def splJ (h : Net) : Json :=
  match spl h with
  | some rows => okV (listJ rows (fun r => pairJ (idToJson r.1) (listJ r.2 (fun p => pairJ (idToJson p.1) (distJson p.2)))))
  | none => Json.mkObj [("out", Json.str "fuel-exhausted")]

/-- decidable form of `DiWF` -/
def diWfB (h : DiNet) : Bool :=
  decide h.nodes.Nodup && decide (h.edges.map (·.1)).Nodup &&
  h.edges.all (fun p => decide p.2.1.Nodup && decide p.2.2.Nodup && p.2.1.all (· ∈ h.nodes) && p.2.2.all (· ∈ h.nodes))

/-- `to_bipartite_graph(DH, index=True)` for a DiHypergraph: links are (source, target) -/
def dibipJ (h : DiNet) : Json :=
  okV (Json.mkObj [
    ("nodes", listJ (dibipNodes h) (fun p => pairJ (natJson p.1) (natJson p.2))),
    ("edges", listJ (dibipEdges h) (fun p => pairJ (natJson p.1) (natJson p.2))),
    ("nidx", listJ (dibipNodeIndex h) (fun p => pairJ (natJson p.1) (idToJson p.2))),
    ("eidx", listJ (dibipEdgeIndex h) (fun p => pairJ (natJson p.1) (idToJson p.2)))])

def weightJ : Option Rat → LW → Json
  | none, _ => Json.null
  | some q, .absolute => intJson q.num
  | some q, _ => ratJson q

def handleFn (h : Net) (f : String) (j : Json) : Json :=
  match f with
  | "components" => okV (listJ (components h) setToJson)
  | "number_cc" => okV (natJson (numberCC h))
  | "is_connected" => match isConnected h with
    | some b => okV (Json.bool b)
    | none => errJ "IndexError"
  | "largest_cc" => match largestCC h with
    | some c => okV (setToJson c)
    | none => errJ "ValueError"
  | "node_cc" => match getId? j "n" with
    | none => badOp
    | some n => match nodeCC h n with
      | some c => okV (setToJson c)
      | none => errJ "XGIError"
  | "sssp" => match getId? j "src" with
    | none => badOp
    | some s => ssspJ h s
  | "spl" => splJ h
  | "clustering" => okV (listJ (clustering h) (fun p => pairJ (idToJson p.1) (fvalJson p.2)))
  | "to_graph" => okV (Json.mkObj [("nodes", idsToJson h.nodes),
      ("edges", listJ (projEdges h) (fun p => Json.arr #[idToJson p.1, idToJson p.2, natJson 1]))])
  | "to_line_graph" =>
    match getInt? j "s", getField? j "weights" with
    | some s, some wj =>
      let w? : Option (Option LW) := match wj with
        | .null => some (some .unweighted)
        | .str "absolute" => some (some .absolute)
        | .str "normalized" => some (some .normalized)
        | .str _ => some none
        | _ => none
      match w? with
      | none => badOp
      | some none => errJ "XGIError"
      | some (some w) =>
        -- any Python int `s`: `|a ∩ b| >= s` is `|a ∩ b| >= s.toNat`; s ≤ 0 links every pair
        if lineZeroDiv h s w then errJ "ZeroDivisionError" else
        okV (Json.mkObj [
          ("nodes", listJ (lineNodes h) (fun p => pairJ (idToJson p.1) (setToJson p.2))),
          ("edges", listJ (lineLinks h s.toNat w) (fun l => Json.arr #[idToJson l.1, idToJson l.2.1, weightJ l.2.2 w]))])
    | _, _ => badOp
  | "to_bipartite_graph" => okV (Json.mkObj [
      ("nodes", listJ (bipNodes h) (fun p => pairJ (natJson p.1) (natJson p.2))),
      ("edges", listJ (bipEdges h) (fun p => pairJ (natJson p.1) (natJson p.2))),
      ("nidx", listJ (bipNodeIndex h) (fun p => pairJ (natJson p.1) (idToJson p.2))),
      ("eidx", listJ (bipEdgeIndex h) (fun p => pairJ (natJson p.1) (idToJson p.2)))])
  | "to_encapsulation_dag" =>
    match getStr? j "subset_types" with
    | none => badOp
    | some t =>
      let t? : Option SubT := match t with
        | "all" => some .all | "immediate" => some .immediate | "empirical" => some .empirical | _ => none
      match t? with
      | none => errJ "XGIError"
      | some t => okV (Json.mkObj [("nodes", idsToJson (h.edges.map (·.1))),
          ("edges", listJ (encDag h t) (fun p => pairJ (idToJson p.1) (idToJson p.2)))])
  | _ => badOp

def handle (st : Unit) (j : Json) : Unit × Json :=
  match getStr? j "f", getField? j "dinet" with
  | some "to_bipartite_graph", some dj =>
    match diNetOfJson? dj with
    | some h => (st, if diWfB h then dibipJ h else unmodelled)
    | none => (st, badOp)
  | _, _ =>
  match getStr? j "f", (getField? j "net").bind netOfJson? with
  | some f, some h => (st, if wfB h then handleFn h f j else unmodelled)
  | _, _ => (st, badOp)

end Xgi.C14.Drive
