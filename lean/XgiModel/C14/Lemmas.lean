/-
  C14 helper lemmas: adjacency, reachability, the BFS invariant and the fuel argument, the component fold.
-/
import XgiModel.C14.Algo
import Mathlib.Logic.Relation
import Batteries.Data.List.Perm

namespace Xgi.C14
open Xgi

/-! ### adjacency in the clique expansion and reachability -/

/-- `u` and `v` are distinct and share a hyperedge -/
def Adj (h : Net) (u v : PyId) : Prop := u ≠ v ∧ ∃ p ∈ h.edges, u ∈ p.2 ∧ v ∈ p.2

/-- connected by a walk in the clique expansion -/
abbrev Reach (h : Net) : PyId → PyId → Prop := Relation.ReflTransGen (Adj h)

theorem mem_incident {h : Net} {v : PyId} {p : Entry} : p ∈ incident h v ↔ p ∈ h.edges ∧ v ∈ p.2 := by
  unfold incident; simp

theorem mem_nbrs {h : Net} {u v : PyId} : v ∈ nbrs h u ↔ Adj h u v := by
  unfold nbrs Adj
  simp only [mem_rm, mem_dedup, List.mem_flatMap, mem_incident]
  constructor
  · rintro ⟨hne, p, ⟨hp, hu⟩, hv⟩; exact ⟨fun e => hne e.symm, p, hp, hu, hv⟩
  · rintro ⟨hne, p, hp, hu, hv⟩; exact ⟨fun e => hne e.symm, p, ⟨hp, hu⟩, hv⟩

theorem Adj.symm {h : Net} {u v : PyId} (a : Adj h u v) : Adj h v u := by
  obtain ⟨hne, p, hp, hu, hv⟩ := a; exact ⟨fun e => hne e.symm, p, hp, hv, hu⟩

theorem Adj.right_mem {h : Net} (wf : h.WF) {u v : PyId} (a : Adj h u v) : v ∈ h.nodes := by
  obtain ⟨_, p, hp, _, hv⟩ := a; exact (wf.2.2 p hp).2 v hv

theorem Adj.left_mem {h : Net} (wf : h.WF) {u v : PyId} (a : Adj h u v) : u ∈ h.nodes := a.symm.right_mem wf

theorem Reach.symm {h : Net} {u v : PyId} (r : Reach h u v) : Reach h v u := by
  induction r with
  | refl => exact .refl
  | tail _ a ih => exact Relation.ReflTransGen.head a.symm ih

theorem Reach.mem {h : Net} (wf : h.WF) {u v : PyId} (r : Reach h u v) (hu : u ∈ h.nodes) : v ∈ h.nodes := by
  induction r with
  | refl => exact hu
  | tail _ a _ => exact a.right_mem wf

theorem nodup_nbrs (h : Net) (u : PyId) : (nbrs h u).Nodup := nodup_rm (nodup_dedup _)

/-! ### pigeonhole on duplicate-free lists -/

theorem subset_of_nodup_length_le {l m : List PyId} (hl : l.Nodup) (hs : ∀ x ∈ l, x ∈ m) (hlen : m.length ≤ l.length) :
    ∀ x ∈ m, x ∈ l := by
  have sp : l.Subperm m := List.subperm_of_subset hl hs
  have p := sp.perm_of_length_le hlen
  intro x hx; exact p.symm.subset hx

theorem length_le_of_nodup_subset {l m : List PyId} (hl : l.Nodup) (hs : ∀ x ∈ l, x ∈ m) : l.length ≤ m.length :=
  (List.subperm_of_subset hl hs).length_le

/-! ### `_plain_bfs`: invariant of the level loop -/

structure BfsInv (h : Net) (src : PyId) (seen level : List PyId) : Prop where
  seenNodup : seen.Nodup
  seenSub : ∀ x ∈ seen, x ∈ h.nodes
  levelNodup : level.Nodup
  levelSub : ∀ x ∈ level, x ∈ h.nodes
  closed : ∀ u ∈ seen, ∀ v, Adj h u v → v ∈ seen ∨ v ∈ level
  hasSrc : src ∈ seen ∨ src ∈ level
  sound : ∀ x, x ∈ seen ∨ x ∈ level → Reach h src x

/-- what is wanted of the BFS result -/
structure BfsPost (h : Net) (src : PyId) (r : List PyId) : Prop where
  nodup : r.Nodup
  sub : ∀ x ∈ r, x ∈ h.nodes
  hasSrc : src ∈ r
  closed : ∀ u ∈ r, ∀ v, Adj h u v → v ∈ r
  sound : ∀ x ∈ r, Reach h src x

theorem BfsInv.step {h : Net} (wf : h.WF) {src : PyId} {seen level : List PyId} (inv : BfsInv h src seen level) :
    BfsInv h src (seen ++ level.filter (· ∉ seen)) (dedup ((level.filter (· ∉ seen)).flatMap (nbrs h))) := by
  obtain ⟨sn, ss, ln, ls, cl, hs, so⟩ := inv
  refine ⟨?_, ?_, nodup_dedup _, ?_, ?_, ?_, ?_⟩
  · rw [List.nodup_append]
    refine ⟨sn, ln.sublist List.filter_sublist, ?_⟩
    intro a ha b hb; simp at hb; intro e; subst e; exact hb.2 ha
  · intro x hx; simp at hx; rcases hx with hx | hx
    · exact ss x hx
    · exact ls x hx.1
  · intro x hx; simp only [mem_dedup, List.mem_flatMap] at hx
    obtain ⟨u, _, hx⟩ := hx
    exact (mem_nbrs.1 hx).right_mem wf
  · intro u hu v a
    simp only [List.mem_append, List.mem_filter, decide_eq_true_eq, mem_dedup, List.mem_flatMap] at hu ⊢
    rcases hu with hu | hu
    · rcases cl u hu v a with hv | hv
      · exact .inl (.inl hv)
      · by_cases hvs : v ∈ seen
        · exact .inl (.inl hvs)
        · exact .inl (.inr ⟨hv, hvs⟩)
    · exact .inr ⟨u, hu, mem_nbrs.2 a⟩
  · simp only [List.mem_append, List.mem_filter, decide_eq_true_eq]
    rcases hs with hs | hs
    · exact .inl (.inl hs)
    · by_cases hss : src ∈ seen
      · exact .inl (.inl hss)
      · exact .inl (.inr ⟨hs, hss⟩)
  · intro x hx
    simp only [List.mem_append, List.mem_filter, decide_eq_true_eq, mem_dedup, List.mem_flatMap] at hx
    rcases hx with (hx | hx) | ⟨u, hu, hx⟩
    · exact so x (.inl hx)
    · exact so x (.inr hx.1)
    · exact Relation.ReflTransGen.tail (so u (.inr hu.1)) (mem_nbrs.1 hx)

theorem BfsInv.done {h : Net} {src : PyId} {seen level : List PyId} (inv : BfsInv h src seen level)
    (hl : ∀ x ∈ level, x ∈ seen) : BfsPost h src seen := by
  obtain ⟨sn, ss, _, _, cl, hs, so⟩ := inv
  refine ⟨sn, ss, ?_, ?_, fun x hx => so x (.inl hx)⟩
  · rcases hs with hs | hs
    · exact hs
    · exact hl _ hs
  · intro u hu v a
    rcases cl u hu v a with hv | hv
    · exact hv
    · exact hl _ hv

/-- the fuel argument: every productive level adds a node, so `|nodes| − |seen|` units of fuel are enough -/
theorem bfsLevels_post {h : Net} (wf : h.WF) {src : PyId} :
    ∀ (fuel : Nat) (seen level : List PyId), BfsInv h src seen level →
      ((∀ x ∈ level, x ∈ seen) ∨ h.nodes.length - seen.length ≤ fuel) →
      BfsPost h src (bfsLevels h fuel seen level) := by
  intro fuel
  induction fuel with
  | zero =>
    intro seen level inv hf
    unfold bfsLevels
    refine inv.done ?_
    rcases hf with hf | hf
    · exact hf
    · intro x hx
      exact subset_of_nodup_length_le inv.seenNodup inv.seenSub (by omega) x (inv.levelSub x hx)
  | succ fuel ih =>
    intro seen level inv hf
    unfold bfsLevels
    by_cases hl : level.isEmpty
    · simp only [hl, if_true]
      refine inv.done ?_
      intro x hx; simp [List.isEmpty_iff.1 hl] at hx
    · simp only [hl]
      refine ih _ _ (inv.step wf) ?_
      by_cases hfresh : level.filter (· ∉ seen) = []
      · left
        intro x hx
        rw [hfresh] at hx
        simp [dedup] at hx
      · right
        have hpos : 0 < (level.filter (· ∉ seen)).length := List.length_pos_iff.2 hfresh
        rcases hf with hf | hf
        · exfalso; apply hfresh
          rw [List.filter_eq_nil_iff]; intro x hx; simpa using hf x hx
        · rw [List.length_append]; omega

theorem bfsInv_init {h : Net} {src : PyId} (hs : src ∈ h.nodes) : BfsInv h src [] [src] := by
  refine ⟨List.nodup_nil, by simp, by simp, by simpa using hs, by simp, by simp, ?_⟩
  intro x hx; simp at hx; subst hx; exact .refl

theorem plainBfs_post {h : Net} (wf : h.WF) {src : PyId} (hs : src ∈ h.nodes) : BfsPost h src (plainBfs h src) := by
  unfold plainBfs
  exact bfsLevels_post wf _ _ _ (bfsInv_init hs) (.inr (by simp))

theorem BfsPost.mem_iff {h : Net} {src : PyId} {r : List PyId} (p : BfsPost h src r) (n : PyId) :
    n ∈ r ↔ Reach h src n := by
  constructor
  · exact p.sound n
  · intro hr
    induction hr with
    | refl => exact p.hasSrc
    | tail _ a ih => exact p.closed _ ih _ a

theorem mem_plainBfs {h : Net} (wf : h.WF) {src : PyId} (hs : src ∈ h.nodes) (n : PyId) :
    n ∈ plainBfs h src ↔ Reach h src n := (plainBfs_post wf hs).mem_iff n

/-! ### the component fold -/

/-- invariant of `for v in H` in `connected_components`, after the nodes `pre` -/
structure CompInv (h : Net) (pre : List PyId) (acc : List (List PyId) × List PyId) : Prop where
  cover : ∀ v ∈ pre, v ∈ acc.2
  seenIff : ∀ x, x ∈ acc.2 ↔ ∃ c ∈ acc.1, x ∈ c
  isBfs : ∀ c ∈ acc.1, ∃ v ∈ pre, c = plainBfs h v
  disj : acc.1.Pairwise (fun a b => ∀ x, x ∈ a → x ∉ b)

theorem CompInv.step {h : Net} (wf : h.WF) {pre : List PyId} {acc : List (List PyId) × List PyId} {v : PyId}
    (hpre : ∀ x ∈ pre, x ∈ h.nodes) (hv : v ∈ h.nodes) (inv : CompInv h pre acc) :
    CompInv h (pre ++ [v]) (compStep h acc v) := by
  obtain ⟨cov, si, ib, dj⟩ := inv
  unfold compStep
  by_cases hm : v ∈ acc.2
  · simp only [hm, if_true]
    refine ⟨?_, si, ?_, dj⟩
    · intro x hx; simp at hx; rcases hx with hx | hx
      · exact cov x hx
      · subst hx; exact hm
    · intro c hc; obtain ⟨w, hw, e⟩ := ib c hc; exact ⟨w, by simp [hw], e⟩
  · simp only [hm, if_false]
    have post := plainBfs_post wf hv
    refine ⟨?_, ?_, ?_, ?_⟩
    · intro x hx; simp at hx ⊢; rcases hx with hx | hx
      · exact .inl (cov x hx)
      · subst hx; exact .inr post.hasSrc
    · intro x; simp only [List.mem_append, si x, List.mem_singleton]
      constructor
      · rintro (⟨c, hc, hx⟩ | hx)
        · exact ⟨c, .inl hc, hx⟩
        · exact ⟨_, .inr rfl, hx⟩
      · rintro ⟨c, hc | hc, hx⟩
        · exact .inl ⟨c, hc, hx⟩
        · subst hc; exact .inr hx
    · intro c hc; simp at hc; rcases hc with hc | hc
      · obtain ⟨w, hw, e⟩ := ib c hc; exact ⟨w, by simp [hw], e⟩
      · exact ⟨v, by simp, hc⟩
    · rw [List.pairwise_append]
      refine ⟨dj, by simp, ?_⟩
      intro a ha b hb x hxa hxb
      simp at hb; subst hb
      obtain ⟨w, hw, e⟩ := ib a ha
      subst e
      have hwn := hpre w hw
      have r1 : Reach h w x := (mem_plainBfs wf hwn x).1 hxa
      have r2 : Reach h v x := (mem_plainBfs wf hv x).1 hxb
      have r3 : Reach h w v := r1.trans r2.symm
      exact hm ((si v).2 ⟨_, ha, (mem_plainBfs wf hwn v).2 r3⟩)

theorem compInv_foldl {h : Net} (wf : h.WF) :
    ∀ (l pre : List PyId) (acc : List (List PyId) × List PyId), (∀ x ∈ pre, x ∈ h.nodes) → (∀ x ∈ l, x ∈ h.nodes) →
      CompInv h pre acc → CompInv h (pre ++ l) (l.foldl (compStep h) acc) := by
  intro l
  induction l with
  | nil => intro pre acc _ _ inv; simpa using inv
  | cons v t ih =>
    intro pre acc hp hl inv
    have hv : v ∈ h.nodes := hl v (by simp)
    have := ih (pre ++ [v]) (compStep h acc v)
      (by intro x hx; simp at hx; rcases hx with hx | hx; exact hp x hx; subst hx; exact hv)
      (fun x hx => hl x (by simp [hx])) (inv.step wf hp hv)
    simpa using this

theorem compInv_components {h : Net} (wf : h.WF) : CompInv h h.nodes (h.nodes.foldl (compStep h) ([], [])) := by
  have := compInv_foldl wf h.nodes [] ([], []) (by simp) (fun x hx => hx)
    ⟨by simp, by simp, by simp, by simp⟩
  simpa using this

/-- `number_connected_components` runs the same loop as `connected_components` -/
theorem countStep_foldl (h : Net) : ∀ (l : List PyId) (acc : List (List PyId) × List PyId),
    l.foldl (countStep h) (acc.1.length, acc.2) =
      ((l.foldl (compStep h) acc).1.length, (l.foldl (compStep h) acc).2) := by
  intro l
  induction l with
  | nil => intro acc; rfl
  | cons v t ih =>
    intro acc
    simp only [List.foldl_cons]
    have : countStep h (acc.1.length, acc.2) v = ((compStep h acc v).1.length, (compStep h acc v).2) := by
      unfold countStep compStep; by_cases hm : v ∈ acc.2 <;> simp [hm]
    rw [this, ih]

/-! ### `max(…, key=len)` -/

theorem largestOf_foldl_spec : ∀ (cs : List (List PyId)) (b : List PyId) (pre : List (List PyId)),
    b ∈ pre → (∀ c ∈ pre, c.length ≤ b.length) →
    ∃ m, cs.foldl (fun best c => match best with
        | none => some c
        | some b => if c.length > b.length then some c else some b) (some b) = some m ∧
      m ∈ pre ++ cs ∧ ∀ c ∈ pre ++ cs, c.length ≤ m.length := by
  intro cs
  induction cs with
  | nil => intro b pre hb hm; exact ⟨b, rfl, by simpa using hb, by simpa using hm⟩
  | cons c t ih =>
    intro b pre hb hm
    simp only [List.foldl_cons]
    by_cases hc : c.length > b.length
    · simp only [hc, if_true]
      obtain ⟨m, e, hmem, hmax⟩ := ih c (pre ++ [c]) (by simp)
        (by intro x hx; simp at hx; rcases hx with hx | hx; exact Nat.le_of_lt (Nat.lt_of_le_of_lt (hm x hx) hc); subst hx; exact Nat.le_refl _)
      exact ⟨m, e, by simpa using hmem, by simpa using hmax⟩
    · simp only [hc, if_false]
      obtain ⟨m, e, hmem, hmax⟩ := ih b (pre ++ [c]) (by simp [hb])
        (by intro x hx; simp at hx; rcases hx with hx | hx; exact hm x hx; subst hx; omega)
      exact ⟨m, e, by simpa using hmem, by simpa using hmax⟩

theorem largestOf_spec (cs : List (List PyId)) (hne : cs ≠ []) :
    ∃ m, largestOf cs = some m ∧ m ∈ cs ∧ ∀ c ∈ cs, c.length ≤ m.length := by
  cases cs with
  | nil => exact absurd rfl hne
  | cons c t =>
    unfold largestOf
    simp only [List.foldl_cons]
    obtain ⟨m, e, hmem, hmax⟩ := largestOf_foldl_spec t c [c] (by simp) (by simp)
    exact ⟨m, e, by simpa using hmem, by simpa using hmax⟩

/-- `max(cs, key=len)` returns the FIRST element of maximal length -/
theorem largestOf_first_aux : ∀ (cs : List (List PyId)) (b : List PyId) (p1 p2 : List (List PyId)),
    (∀ c ∈ p1, c.length < b.length) → (∀ c ∈ p2, c.length ≤ b.length) →
    ∃ m q1 q2, cs.foldl (fun best c => match best with
        | none => some c
        | some b => if c.length > b.length then some c else some b) (some b) = some m ∧
      p1 ++ b :: p2 ++ cs = q1 ++ m :: q2 ∧ (∀ c ∈ q1, c.length < m.length) ∧ (∀ c ∈ q2, c.length ≤ m.length) := by
  intro cs
  induction cs with
  | nil => intro b p1 p2 h1 h2; exact ⟨b, p1, p2, rfl, by simp, h1, h2⟩
  | cons c t ih =>
    intro b p1 p2 h1 h2
    simp only [List.foldl_cons]
    by_cases hc : c.length > b.length
    · simp only [hc, if_true]
      obtain ⟨m, q1, q2, e, hsplit, hq1, hq2⟩ := ih c (p1 ++ b :: p2) []
        (by intro x hx; simp at hx; rcases hx with hx | hx | hx
            · exact Nat.lt_trans (h1 x hx) hc
            · subst hx; exact hc
            · exact Nat.lt_of_le_of_lt (h2 x hx) hc)
        (by simp)
      exact ⟨m, q1, q2, e, by simpa using hsplit, hq1, hq2⟩
    · simp only [hc, if_false]
      obtain ⟨m, q1, q2, e, hsplit, hq1, hq2⟩ := ih b p1 (p2 ++ [c]) h1
        (by intro x hx; simp at hx; rcases hx with hx | hx
            · exact h2 x hx
            · subst hx; omega)
      exact ⟨m, q1, q2, e, by simpa using hsplit, hq1, hq2⟩

theorem largestOf_first (cs : List (List PyId)) (m : List PyId) (hm : largestOf cs = some m) :
    ∃ q1 q2, cs = q1 ++ m :: q2 ∧ (∀ c ∈ q1, c.length < m.length) ∧ (∀ c ∈ q2, c.length ≤ m.length) := by
  cases cs with
  | nil => simp [largestOf] at hm
  | cons c t =>
    unfold largestOf at hm
    simp only [List.foldl_cons] at hm
    obtain ⟨m', q1, q2, e, hsplit, hq1, hq2⟩ := largestOf_first_aux t c [] [] (by simp) (by simp)
    have e2 : some m = some m' := hm.symm.trans e
    cases e2
    exact ⟨q1, q2, by simpa using hsplit, hq1, hq2⟩

/-! ### the node–edge bipartite graph -/

/-- vertices of the node–edge bipartite graph: a node ID or an edge ID -/
inductive BV where
  | node (n : PyId)
  | edge (e : PyId)

/-- incidence: node `n` is linked with edge `e` iff `n` is a member of `e` -/
def BAdj (h : Net) : BV → BV → Prop
  | .node n, .edge e => ∃ ms, (e, ms) ∈ h.edges ∧ n ∈ ms
  | .edge e, .node n => ∃ ms, (e, ms) ∈ h.edges ∧ n ∈ ms
  | _, _ => False

theorem entry_unique {l : List Entry} (hn : (l.map (·.1)).Nodup) {e : PyId} {a b : List PyId}
    (ha : (e, a) ∈ l) (hb : (e, b) ∈ l) : a = b := by
  induction l with
  | nil => simp at ha
  | cons p t ih =>
    simp only [List.map_cons, List.nodup_cons, List.mem_map, not_exists, not_and] at hn
    simp only [List.mem_cons] at ha hb
    rcases ha with ha | ha <;> rcases hb with hb | hb
    · rw [← ha] at hb; exact (Prod.mk.inj hb).2.symm
    · exact absurd (by rw [← ha]) (hn.1 _ hb)
    · exact absurd (by rw [← hb]) (hn.1 _ ha)
    · exact ih hn.2 ha hb

theorem bip_of_reach {h : Net} {u v : PyId} (r : Reach h u v) :
    Relation.ReflTransGen (BAdj h) (.node u) (.node v) := by
  induction r with
  | refl => exact .refl
  | tail _ a ih =>
    obtain ⟨_, p, hp, hb, hc⟩ := a
    have s1 : BAdj h (.node _) (.edge p.1) := ⟨p.2, hp, hb⟩
    have s2 : BAdj h (.edge p.1) (.node _) := ⟨p.2, hp, hc⟩
    exact (ih.tail s1).tail s2

theorem reach_of_bip_aux {h : Net} (wf : h.WF) {u : PyId} {x : BV}
    (r : Relation.ReflTransGen (BAdj h) (.node u) x) :
    match x with
    | .node v => Reach h u v
    | .edge e => ∀ ms, (e, ms) ∈ h.edges → ∀ w ∈ ms, Reach h u w := by
  induction r with
  | refl => exact .refl
  | @tail b c _ a ih =>
    cases b with
    | node a' =>
      cases c with
      | node _ => exact absurd a (by simp [BAdj])
      | edge e =>
        obtain ⟨ms, hms, ha⟩ := a
        intro ms' hms' w hw
        have e' := entry_unique wf.2.1 hms hms'
        subst e'
        by_cases hw' : a' = w
        · subst hw'; exact ih
        · exact Relation.ReflTransGen.tail ih ⟨hw', _, hms, ha, hw⟩
    | edge e =>
      cases c with
      | edge _ => exact absurd a (by simp [BAdj])
      | node b' =>
        obtain ⟨ms, hms, hb⟩ := a
        exact ih ms hms b' hb

/-! ### `combinations(l, 2)` -/

theorem mem_pairs {α} {l : List α} {x y : α} : (x, y) ∈ pairs l ↔ List.Sublist [x, y] l := by
  induction l with
  | nil => simp [pairs]
  | cons a t ih =>
    simp only [pairs, List.mem_append, List.mem_map, ih, List.sublist_cons_iff (l := [x, y])]
    constructor
    · rintro (⟨z, hz, e⟩ | hs)
      · obtain ⟨e1, e2⟩ := Prod.mk.inj e
        subst e1 e2
        exact .inr ⟨[z], rfl, List.singleton_sublist.2 hz⟩
      · exact .inl hs
    · rintro (hs | ⟨r, e, hr⟩)
      · exact .inr hs
      · simp only [List.cons.injEq] at e
        obtain ⟨e1, e2⟩ := e
        subst e1 e2
        exact .inl ⟨y, List.singleton_sublist.1 hr, rfl⟩

theorem pair_sublist_or {α} {l : List α} {x y : α} (hx : x ∈ l) (hy : y ∈ l) (hne : x ≠ y) :
    List.Sublist [x, y] l ∨ List.Sublist [y, x] l := by
  induction l with
  | nil => simp at hx
  | cons a t ih =>
    simp only [List.mem_cons] at hx hy
    rcases hx with hx | hx <;> rcases hy with hy | hy
    · exact absurd (hx.trans hy.symm) hne
    · subst hx; exact .inl (List.Sublist.cons_cons _ (List.singleton_sublist.2 hy))
    · subst hy; exact .inr (List.Sublist.cons_cons _ (List.singleton_sublist.2 hx))
    · rcases ih hx hy with s | s
      · exact .inl (s.cons _)
      · exact .inr (s.cons _)

theorem not_both_orders {α} {l : List α} (hn : l.Nodup) {x y : α} (h1 : List.Sublist [x, y] l)
    (h2 : List.Sublist [y, x] l) : False := by
  induction l with
  | nil => simp at h1
  | cons a t ih =>
    rw [List.nodup_cons] at hn
    rw [List.sublist_cons_iff] at h1 h2
    rcases h1 with h1 | ⟨r1, e1, s1⟩ <;> rcases h2 with h2 | ⟨r2, e2, s2⟩
    · exact ih hn.2 h1 h2
    · simp only [List.cons.injEq] at e2
      obtain ⟨e2, e3⟩ := e2; subst e2 e3
      exact hn.1 (h1.subset (by simp))
    · simp only [List.cons.injEq] at e1
      obtain ⟨e1, e3⟩ := e1; subst e1 e3
      exact hn.1 (h2.subset (by simp))
    · simp only [List.cons.injEq] at e1 e2
      obtain ⟨e1, e3⟩ := e1; obtain ⟨e2, e4⟩ := e2; subst e1 e3 e4
      exact hn.1 (s1.subset (by simp [e2]))

theorem mem_inter {a b : List PyId} {x : PyId} : x ∈ inter a b ↔ x ∈ a ∧ x ∈ b := by
  unfold inter; simp

end Xgi.C14
