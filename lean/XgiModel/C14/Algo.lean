/-
  C14 — model of the graph-reducible algorithms and converters of xgi over the shared static
  network `Xgi.Net` (what `H.nodes` / `H.edges.members(dtype=dict)` show, in view order).

  Transcribed from
    xgi/algorithms/connected.py      `_plain_bfs`, `connected_components`, `is_connected`,
                                     `number_connected_components`, `largest_connected_component`,
                                     `node_connected_component`
    xgi/algorithms/shortest_path.py  `single_source_shortest_path_length` (array Dijkstra, unit increments,
                                     doubly decremented `n_unseen`), `shortest_path_length`
    xgi/algorithms/clustering.py     `clustering_coefficient` (0.5·diag(A³)/(k(k−1)/2), nan → 0)
    xgi/convert/graph.py             `to_graph`
    xgi/convert/line_graph.py        `to_line_graph(s, weights)`
    xgi/convert/bipartite_graph.py   `to_bipartite_graph(H, index)` for a Hypergraph and, over `Xgi.DiNet`, the
                                     directed branch for a DiHypergraph (node → edge for tail members,
                                     edge → node for head members)
    xgi/convert/encapsulation_dag.py `to_encapsulation_dag(subset_types)`; the "empirical" filter is the
                                     order-independent one (fix 8dab08f in /repo = proposed_fixes/C14-empirical-filter-order.diff)
  Python sets are duplicate-free lists; numpy/scipy/networkx appear as the pure functions they are
  documented to be (A = [I·Iᵀ ≥ 1] off the diagonal, graphs = vertex list + link list).  No Mathlib.

  Empty hyperedges are ordinary inputs (`Net.WF` allows an empty member list): they are vertices of the line
  graph, of the bipartite graph and of the encapsulation DAG, never linked to anything for s ≥ 1, and invisible
  to neighbours / components / distances / projection (`dropEmpty`, theorems in Props/C14.lean).
-/
import XgiModel.Net

namespace Xgi.C14
open Xgi

abbrev Entry := PyId × List PyId

/-! ### neighbours -/

/-- the edges `v` belongs to (`H.nodes.memberships(v)`, as entries) -/
def incident (h : Net) (v : PyId) : List Entry := h.edges.filter (fun p => v ∈ p.2)

/-- `H.nodes.neighbors(v)`: `{i for e in memberships(v) for i in members(e)} − {v}` -/
def nbrs (h : Net) (v : PyId) : List PyId := rm v (dedup ((incident h v).flatMap (·.2)))

/-! ### `_plain_bfs` -/

/-- one iteration of the `while nextlevel:` loop per unit of fuel; `level` is a set (duplicate-free) -/
def bfsLevels (h : Net) : Nat → List PyId → List PyId → List PyId
  | 0, seen, _ => seen
  | fuel + 1, seen, level =>
    if level.isEmpty then seen else
    let fresh := level.filter (· ∉ seen)
    bfsLevels h fuel (seen ++ fresh) (dedup (fresh.flatMap (nbrs h)))

/-- `_plain_bfs(H, src)`; the fuel `|nodes| + 1` is shown to suffice in `Props/C14.lean` -/
def plainBfs (h : Net) (src : PyId) : List PyId := bfsLevels h (h.nodes.length + 1) [] [src]

/-! ### components -/

/-- body of `for v in H: if v not in seen: c = _plain_bfs(H, v); seen.update(c); yield c` -/
def compStep (h : Net) (acc : List (List PyId) × List PyId) (v : PyId) : List (List PyId) × List PyId :=
  if v ∈ acc.2 then acc else (acc.1 ++ [plainBfs h v], acc.2 ++ plainBfs h v)

/-- `list(connected_components(H))`, in the order they are yielded -/
def components (h : Net) : List (List PyId) := (h.nodes.foldl (compStep h) ([], [])).1

def countStep (h : Net) (acc : Nat × List PyId) (v : PyId) : Nat × List PyId :=
  if v ∈ acc.2 then acc else (acc.1 + 1, acc.2 ++ plainBfs h v)

/-- `number_connected_components(H)` (its own loop in the code) -/
def numberCC (h : Net) : Nat := (h.nodes.foldl (countStep h) (0, [])).1

/-- `is_connected(H)`: `none` = `IndexError` on the empty node set -/
def isConnected (h : Net) : Option Bool :=
  match h.nodes with
  | [] => none
  | v :: _ => some ((plainBfs h v).length == h.nodes.length)

/-- `max(cs, key=len)`: the first of maximal length; `none` = `ValueError` on an empty iterable -/
def largestOf (cs : List (List PyId)) : Option (List PyId) :=
  cs.foldl (fun best c => match best with
    | none => some c
    | some b => if c.length > b.length then some c else some b) none

def largestCC (h : Net) : Option (List PyId) := largestOf (components h)

/-- `node_connected_component(H, n)`: `none` = `XGIError` -/
def nodeCC (h : Net) (n : PyId) : Option (List PyId) := if n ∈ h.nodes then some (plainBfs h n) else none

/-! ### shortest paths: the array Dijkstra of `single_source_shortest_path_length` -/

/-- `a < b` on distances, `none` = `np.inf` -/
def distLt : Option Nat → Option Nat → Bool
  | some x, some y => x < y
  | some _, none => true
  | none, _ => false

/-- the `dists` dict as a total lookup; wrapped in a structure so that the compiled code builds each updated
    table once instead of re-running the update on every lookup -/
structure DTab where
  get : PyId → Option Nat

structure SP where
  dist : DTab
  unseen : PyId → Bool
  nUnseen : Int
  current : PyId

/-- body of `for ngb in H.nodes.neighbors(current)` -/
def relaxOne (unseen : PyId → Bool) (cur : PyId) (d : DTab) (ngb : PyId) : DTab :=
  if unseen ngb then
    let new := (d.get cur).map (· + 1)
    if distLt new (d.get ngb) then ⟨upd d.get ngb new⟩ else d
  else d

def relax (h : Net) (st : SP) : DTab :=
  (nbrs h st.current).foldl (relaxOne st.unseen st.current) st.dist

/-- `utilities.min_where(dists, is_unseen)` over the dict keys in order -/
def minWhere (keys : List PyId) (d : PyId → Option Nat) (w : PyId → Bool) : Option Nat :=
  keys.foldl (fun m k => if w k then (if distLt (d k) m then d k else m) else m) none

/-- step 6: first unseen key with the strictly smallest tentative distance, default `current` -/
def argMin (keys : List PyId) (d : PyId → Option Nat) (w : PyId → Bool) (cur : PyId) : PyId :=
  (keys.foldl (fun (acc : Option Nat × PyId) k =>
    if w k then (if distLt (d k) acc.1 then (d k, k) else acc) else acc) (none, cur)).2

/-- the `while not stop_condition` loop; `none` = fuel exhausted -/
def spLoop (h : Net) : Nat → SP → Option SP
  | 0, _ => none
  | fuel + 1, st =>
    let d := relax h st
    let u := upd st.unseen st.current false
    let n := st.nUnseen - 1
    let stop := n == 0 || (minWhere h.nodes d.get u).isNone
    let st' : SP := { dist := d, unseen := u, nUnseen := n, current := argMin h.nodes d.get u st.current }
    if stop then some st' else spLoop h fuel st'

def spInit (h : Net) (src : PyId) : SP :=
  { dist := ⟨fun n => if n = src then some 0 else none⟩
    unseen := fun n => n != src
    nUnseen := (h.nodes.length : Int) - 1
    current := src }

inductive SPOut where
  | notFound                                   -- `IDNotFound` from `H.nodes.neighbors(source)`
  | fuel                                       -- loop did not stop within the fuel (never happens: theorem)
  | ok (d : PyId → Option Nat)

/-- `single_source_shortest_path_length(H, src)` as a total lookup on the node set -/
def sssp (h : Net) (src : PyId) : SPOut :=
  if src ∈ h.nodes then
    match spLoop h (h.nodes.length + 1) (spInit h src) with
    | some st => .ok st.dist.get
    | none => .fuel
  else .notFound

/-- the dict the function returns, keys in node order -/
def ssspTable (h : Net) (d : PyId → Option Nat) : List (PyId × Option Nat) := h.nodes.map (fun n => (n, d n))

/-- one `(source, dict)` item of the generator `shortest_path_length(H)` -/
def splRow (h : Net) (s : PyId) : Option (PyId × List (PyId × Option Nat)) :=
  match sssp h s with
  | .ok d => some (s, ssspTable h d)
  | _ => none

/-- `list(shortest_path_length(H))`: `for n in H.nodes: yield (n, single_source_shortest_path_length(H, n))`;
    `none` = some source did not finish (never happens on a well-formed network: theorem `spl_spec`) -/
def spl (h : Net) : Option (List (PyId × List (PyId × Option Nat))) :=
  let rows := h.nodes.map (splRow h)
  if rows.all Option.isSome then some (rows.filterMap id) else none

/-- the network without its empty hyperedges -/
def dropEmpty (h : Net) : Net := { h with edges := h.edges.filter (fun p => !p.2.isEmpty) }

/-! ### clustering coefficient -/

/-- entry of the unweighted adjacency matrix `[(I·Iᵀ) ≥ 1]` with zero diagonal -/
def adjB (h : Net) (u v : PyId) : Nat := if v ∈ nbrs h u then 1 else 0

/-- `diag(A·A·A)[n]` -/
def a3 (h : Net) (n : PyId) : Nat :=
  (h.nodes.map (fun j => (h.nodes.map (fun l => adjB h n j * adjB h j l * adjB h l n)).sum)).sum

/-- `k = adj.sum(axis=1)[n]` -/
def pdeg (h : Net) (n : PyId) : Nat := (h.nodes.map (adjB h n)).sum

/-- a float result: a rational or `inf` (what `x/0`, x > 0, gives before `nan_to_num`) -/
inductive FVal where
  | val (q : Rat)
  | inf
  deriving DecidableEq, Repr

/-- `np.nan_to_num(0.5 * mat.diagonal() / denom)[n]` with `denom = k(k−1)/2`: 0/0 = nan → 0 -/
def clusteringAt (h : Net) (n : PyId) : FVal :=
  let k : Rat := (pdeg h n : Nat)
  let denom : Rat := k * (k - 1) / 2
  let num : Rat := (1 / 2 : Rat) * ((a3 h n : Nat) : Rat)
  if denom = 0 then (if num = 0 then .val 0 else .inf) else .val (num / denom)

/-- `clustering_coefficient(H)`: the adjacency index is empty when there are no nodes or no edges, then
    every node gets 0 -/
def clustering (h : Net) : List (PyId × FVal) :=
  if h.edges.isEmpty || h.nodes.isEmpty then h.nodes.map (fun n => (n, .val 0))
  else h.nodes.map (fun n => (n, clusteringAt h n))

/-! ### converters -/

/-- `itertools.combinations(l, 2)` -/
def pairs {α} : List α → List (α × α)
  | [] => []
  | x :: t => t.map (fun y => (x, y)) ++ pairs t

/-- links of `to_graph(H)` (each with attribute `weight = 1`), vertices are `h.nodes` -/
def projEdges (h : Net) : List (PyId × PyId) := (pairs h.nodes).filter (fun p => p.2 ∈ nbrs h p.1)

/-- `a.intersection(b)` -/
def inter (a b : List PyId) : List PyId := a.filter (· ∈ b)

inductive LW where
  | unweighted | absolute | normalized
  deriving DecidableEq, Repr

/-- weight attribute of a line-graph link -/
def lineWeight (w : LW) (a b : List PyId) : Option Rat :=
  match w with
  | .unweighted => none
  | .absolute => some ((inter a b).length : Nat)
  | .normalized => some (((inter a b).length : Nat) / ((min a.length b.length : Nat) : Rat))

/-- links of `to_line_graph(H, s, weights)`; vertices are the edge IDs with `original_hyperedge` = members -/
def lineLinks (h : Net) (s : Nat) (w : LW) : List (PyId × PyId × Option Rat) :=
  (pairs h.edges).filterMap (fun p =>
    if (inter p.1.2 p.2.2).length ≥ s then some (p.1.1, p.2.1, lineWeight w p.1.2 p.2.2) else none)

/-- vertices of `to_line_graph`: every hyperedge (empty ones included) with `original_hyperedge` = its members -/
def lineNodes (h : Net) : List Entry := h.edges

/-- `to_line_graph(H, s, "normalized")` raises `ZeroDivisionError` iff some pair that gets linked contains an
    empty hyperedge (`weight /= min(len, len)` with min = 0); `s` is any Python int.  Only possible for s ≤ 0
    (theorem `line_graph_no_zero_division`). -/
def lineZeroDiv (h : Net) (s : Int) (w : LW) : Bool :=
  w == .normalized &&
  (pairs h.edges).any (fun p => decide (s ≤ ((inter p.1.2 p.2.2).length : Int)) && (min p.1.2.length p.2.2.length == 0))

/-- vertices of `to_bipartite_graph(H)`: (index, `bipartite` flag) -/
def bipNodes (h : Net) : List (Nat × Nat) :=
  (List.range h.nodes.length).map (fun i => (i, 0)) ++
  (List.range h.edges.length).map (fun j => (h.nodes.length + j, 1))

/-- links of `to_bipartite_graph(H)`: (node index, edge index) -/
def bipEdges (h : Net) : List (Nat × Nat) :=
  h.edges.zipIdx.flatMap (fun pj => pj.1.2.map (fun v => (h.nodes.idxOf v, h.nodes.length + pj.2)))

/-- the index → node and index → edge dicts returned with `index=True` -/
def bipNodeIndex (h : Net) : List (Nat × PyId) := h.nodes.zipIdx.map (fun p => (p.2, p.1))
def bipEdgeIndex (h : Net) : List (Nat × PyId) := h.edges.zipIdx.map (fun p => (h.nodes.length + p.2, p.1.1))

/-! `to_bipartite_graph(DH)` for a DiHypergraph: same vertices and index dicts, a `DiGraph` with
    `node → edge` for every tail member and `edge → node` for every head member -/

def dibipNodes (h : DiNet) : List (Nat × Nat) :=
  (List.range h.nodes.length).map (fun i => (i, 0)) ++
  (List.range h.edges.length).map (fun j => (h.nodes.length + j, 1))

/-- directed links (source index, target index) in the order the code adds them -/
def dibipEdges (h : DiNet) : List (Nat × Nat) :=
  h.edges.zipIdx.flatMap (fun pj =>
    pj.1.2.1.map (fun v => (h.nodes.idxOf v, h.nodes.length + pj.2)) ++
    pj.1.2.2.map (fun v => (h.nodes.length + pj.2, h.nodes.idxOf v)))

def dibipNodeIndex (h : DiNet) : List (Nat × PyId) := h.nodes.zipIdx.map (fun p => (p.2, p.1))
def dibipEdgeIndex (h : DiNet) : List (Nat × PyId) := h.edges.zipIdx.map (fun p => (h.nodes.length + p.2, p.1.1))

/-- well-formed directed network: IDs distinct, tails and heads duplicate-free lists of nodes -/
def DiWF (h : DiNet) : Prop :=
  h.nodes.Nodup ∧ (h.edges.map (·.1)).Nodup ∧
  ∀ p ∈ h.edges, p.2.1.Nodup ∧ p.2.2.Nodup ∧ (∀ n ∈ p.2.1, n ∈ h.nodes) ∧ (∀ n ∈ p.2.2, n ∈ h.nodes)

inductive SubT where
  | all | immediate | empirical
  deriving DecidableEq, Repr

/-- `_check_candidate` -/
def checkCand (t : SubT) (he cand : List PyId) : Bool :=
  match t with
  | .immediate => he.length + 1 == cand.length || he.length == cand.length + 1
  | _ => he.length != cand.length

/-- `_get_candidates`: the edges that share a node with `he` and pass `_check_candidate` -/
def candidates (h : Net) (t : SubT) (he : List PyId) : List Entry :=
  h.edges.filter (fun c => he.any (· ∈ c.2) && checkCand t he c.2)

/-- `_encapsulated`: `len(set(larger) ∩ set(smaller)) == len(smaller)` -/
def encapsulated (larger smaller : List PyId) : Bool := (smaller.filter (· ∈ larger)).length == smaller.length

/-- links added while visiting hyperedge `he` -/
def encStep (h : Net) (t : SubT) (he : Entry) : List (Entry × Entry) :=
  (candidates h t he.2).filterMap (fun c =>
    if he.2.length > c.2.length then (if encapsulated he.2 c.2 then some (he, c) else none)
    else if c.2.length > he.2.length then (if encapsulated c.2 he.2 then some (c, he) else none)
    else none)

/-- the DAG before the empirical filter (a `DiGraph` keeps one copy of a link) -/
def encRaw (h : Net) (t : SubT) : List (Entry × Entry) := dedup (h.edges.flatMap (encStep h t))

/-- `empirical_subsets_filter`, every removal decided on the unfiltered DAG: keep `a → b` iff `a` has the
    minimum size among the predecessors of `b` and `b` the maximum size among the successors of `a` -/
def empiricalKeep (raw : List (Entry × Entry)) (l : Entry × Entry) : Bool :=
  raw.all (fun q => q.2.1 != l.2.1 || l.1.2.length ≤ q.1.2.length) &&
  raw.all (fun q => q.1.1 != l.1.1 || q.2.2.length ≤ l.2.2.length)

def encLinks (h : Net) (t : SubT) : List (Entry × Entry) :=
  match t with
  | .empirical => (encRaw h .all).filter (empiricalKeep (encRaw h .all))
  | t => encRaw h t

/-- links of `to_encapsulation_dag(H, subset_types)` as ID pairs; vertices are all edge IDs -/
def encDag (h : Net) (t : SubT) : List (PyId × PyId) := (encLinks h t).map (fun l => (l.1.1, l.2.1))

end Xgi.C14
