import XgiModel.C14.Lemmas
namespace Xgi.C14
end Xgi.C14
