/-
  C14 helper lemmas for `single_source_shortest_path_length`: closed form of the relaxation loop, `min_where`
  and the arg-min scan, the loop invariant of the array Dijkstra with unit increments, the counting argument
  for the doubly decremented `n_unseen`, and the fuel bound.
-/
import XgiModel.C14.Lemmas

namespace Xgi.C14
open Xgi

/-! ### `distLt` -/

@[simp] theorem distLt_none_right (a : Nat) : distLt (some a) none = true := rfl
@[simp] theorem distLt_none_left (b : Option Nat) : distLt none b = false := by cases b <;> rfl
@[simp] theorem distLt_some (a b : Nat) : distLt (some a) (some b) = decide (a < b) := rfl

/-! ### the relaxation loop in closed form -/

theorem relaxOne_get (unseen : PyId → Bool) (cur : PyId) (d : DTab) (a : PyId) (m : Nat)
    (hc : d.get cur = some m) (y : PyId) :
    (relaxOne unseen cur d a).get y =
      if y = a ∧ unseen a = true ∧ distLt (some (m + 1)) (d.get a) = true then some (m + 1) else d.get y := by
  unfold relaxOne
  simp only [hc, Option.map_some]
  by_cases hu : unseen a = true
  · by_cases hl : distLt (some (m + 1)) (d.get a) = true
    · simp only [hu, hl, if_true, upd_apply, and_true]
    · simp [hu, hl]
  · simp [hu]

theorem relax_fold (unseen : PyId → Bool) (cur : PyId) (m : Nat) :
    ∀ (l : List PyId) (d : DTab), cur ∉ l → d.get cur = some m → ∀ x,
      (l.foldl (relaxOne unseen cur) d).get x =
        if x ∈ l ∧ unseen x = true ∧ distLt (some (m + 1)) (d.get x) = true then some (m + 1) else d.get x := by
  intro l
  induction l with
  | nil => intro d _ _ x; simp
  | cons a t ih =>
    intro d hcur hc x
    simp only [List.mem_cons, not_or] at hcur
    have hne : cur ≠ a := hcur.1
    have h1 : ∀ y, (relaxOne unseen cur d a).get y =
        if y = a ∧ unseen a = true ∧ distLt (some (m + 1)) (d.get a) = true then some (m + 1) else d.get y :=
      relaxOne_get unseen cur d a m hc
    have hc1 : (relaxOne unseen cur d a).get cur = some m := by
      rw [h1 cur]; simp [hne, hc]
    simp only [List.foldl_cons]
    rw [ih _ hcur.2 hc1 x, h1 x]
    by_cases hxa : x = a
    · subst hxa
      by_cases hu : unseen x = true <;> by_cases hl : distLt (some (m + 1)) (d.get x) = true <;>
        simp [hu, hl]
    · simp [hxa]

theorem not_mem_nbrs_self (h : Net) (v : PyId) : v ∉ nbrs h v := by
  rw [mem_nbrs]; exact fun a => a.1 rfl

theorem relax_get (h : Net) (st : SP) (m : Nat) (hc : st.dist.get st.current = some m) (x : PyId) :
    (relax h st).get x =
      if x ∈ nbrs h st.current ∧ st.unseen x = true ∧ distLt (some (m + 1)) (st.dist.get x) = true
      then some (m + 1) else st.dist.get x := by
  unfold relax
  exact relax_fold st.unseen st.current m _ _ (not_mem_nbrs_self h _) hc x

/-! ### `min_where` and the arg-min scan -/

/-- the scan of step 6, both components -/
def scan (keys : List PyId) (d : PyId → Option Nat) (w : PyId → Bool) (init : Option Nat × PyId) : Option Nat × PyId :=
  keys.foldl (fun (acc : Option Nat × PyId) k =>
    if w k then (if distLt (d k) acc.1 then (d k, k) else acc) else acc) init

theorem argMin_eq_scan (keys : List PyId) (d : PyId → Option Nat) (w : PyId → Bool) (cur : PyId) :
    argMin keys d w cur = (scan keys d w (none, cur)).2 := rfl

theorem minWhere_eq_scan (keys : List PyId) (d : PyId → Option Nat) (w : PyId → Bool) (cur : PyId) :
    minWhere keys d w = (scan keys d w (none, cur)).1 := by
  unfold minWhere scan
  suffices hgen : ∀ (l : List PyId) (m : Option Nat) (c : PyId),
      l.foldl (fun m k => if w k then (if distLt (d k) m then d k else m) else m) m =
      (l.foldl (fun (acc : Option Nat × PyId) k =>
        if w k then (if distLt (d k) acc.1 then (d k, k) else acc) else acc) (m, c)).1 from hgen keys none cur
  intro l
  induction l with
  | nil => intro m c; rfl
  | cons a t ih =>
    intro m c
    simp only [List.foldl_cons]
    by_cases hw : w a = true
    · by_cases hl : distLt (d a) m = true
      · simp only [hw, hl, if_true]; exact ih _ _
      · simp only [hw, hl, if_true]; exact ih _ _
    · simp only [hw]; exact ih _ _

/-- invariant of the scan after the keys `pre` -/
structure ScanInv (d : PyId → Option Nat) (w : PyId → Bool) (cur : PyId) (pre : List PyId)
    (acc : Option Nat × PyId) : Prop where
  noneCase : acc.1 = none → acc.2 = cur ∧ ∀ x ∈ pre, w x = true → d x = none
  someCase : ∀ m, acc.1 = some m → acc.2 ∈ pre ∧ w acc.2 = true ∧ d acc.2 = some m ∧
    ∀ x ∈ pre, w x = true → ∀ k, d x = some k → m ≤ k

theorem scanInv_foldl (d : PyId → Option Nat) (w : PyId → Bool) (cur : PyId) :
    ∀ (l pre : List PyId) (acc : Option Nat × PyId), ScanInv d w cur pre acc →
      ScanInv d w cur (pre ++ l) (scan l d w acc) := by
  intro l
  induction l with
  | nil => intro pre acc inv; simpa [scan] using inv
  | cons a t ih =>
    intro pre acc inv
    have key : ScanInv d w cur (pre ++ [a])
        (if w a then (if distLt (d a) acc.1 then (d a, a) else acc) else acc) := by
      obtain ⟨hn, hs⟩ := inv
      by_cases hw : w a = true
      · simp only [hw, if_true]
        cases hda : d a with
        | none =>
          simp only [distLt_none_left]
          refine ⟨fun e => ⟨(hn e).1, ?_⟩, fun m e => ?_⟩
          · intro x hx hwx; simp at hx; rcases hx with hx | hx
            · exact (hn e).2 x hx hwx
            · subst hx; exact hda
          · obtain ⟨h1, h2, h3, h4⟩ := hs m e
            refine ⟨by simp [h1], h2, h3, ?_⟩
            intro x hx hwx k hk; simp at hx; rcases hx with hx | hx
            · exact h4 x hx hwx k hk
            · subst hx; rw [hda] at hk; cases hk
        | some da =>
          cases hb : acc.1 with
          | none =>
            simp only [distLt_none_right, if_true]
            refine ⟨fun e => (by simp at e), fun m e => ?_⟩
            simp only [Option.some.injEq] at e; subst e
            refine ⟨by simp, hw, hda, ?_⟩
            intro x hx hwx k hk; simp at hx; rcases hx with hx | hx
            · have := (hn hb).2 x hx hwx; rw [this] at hk; cases hk
            · subst hx; rw [hda] at hk; cases hk; exact Nat.le_refl _
          | some b =>
            obtain ⟨h1, h2, h3, h4⟩ := hs b hb
            simp only [distLt_some]
            by_cases hlt : da < b
            · simp only [hlt, decide_true, if_true]
              refine ⟨fun e => (by simp at e), fun m e => ?_⟩
              simp only [Option.some.injEq] at e; subst e
              refine ⟨by simp, hw, hda, ?_⟩
              intro x hx hwx k hk; simp at hx; rcases hx with hx | hx
              · have := h4 x hx hwx k hk; omega
              · subst hx; rw [hda] at hk; cases hk; exact Nat.le_refl _
            · simp only [hlt, decide_false, Bool.false_eq_true, if_false]
              refine ⟨fun e => (by rw [hb] at e; cases e), fun m e => ?_⟩
              rw [hb] at e; simp only [Option.some.injEq] at e; subst e
              refine ⟨by simp [h1], h2, h3, ?_⟩
              intro x hx hwx k hk; simp at hx; rcases hx with hx | hx
              · exact h4 x hx hwx k hk
              · subst hx; rw [hda] at hk; cases hk; omega
      · simp only [hw]
        refine ⟨fun e => ⟨(hn e).1, ?_⟩, fun m e => ?_⟩
        · intro x hx hwx; simp at hx; rcases hx with hx | hx
          · exact (hn e).2 x hx hwx
          · subst hx; exact absurd hwx hw
        · obtain ⟨h1, h2, h3, h4⟩ := hs m e
          refine ⟨by simp [h1], h2, h3, ?_⟩
          intro x hx hwx k hk; simp at hx; rcases hx with hx | hx
          · exact h4 x hx hwx k hk
          · subst hx; exact absurd hwx hw
    have := ih (pre ++ [a]) _ key
    simpa [scan] using this

theorem scan_spec (keys : List PyId) (d : PyId → Option Nat) (w : PyId → Bool) (cur : PyId) :
    ScanInv d w cur keys (scan keys d w (none, cur)) := by
  have := scanInv_foldl d w cur keys [] (none, cur) ⟨fun _ => ⟨rfl, by simp⟩, fun m e => by simp at e⟩
  simpa using this

/-! ### counting -/

theorem filter_erase_count {l : List PyId} (hn : l.Nodup) (p : PyId → Bool) {a : PyId} (ha : a ∈ l) (hp : p a = true) :
    (l.filter (fun x => p x && x != a)).length + 1 = (l.filter p).length := by
  induction l with
  | nil => simp at ha
  | cons b t ih =>
    rw [List.nodup_cons] at hn
    simp only [List.mem_cons] at ha
    by_cases hba : b = a
    · subst hba
      have hnot : ∀ x ∈ t, (p x && x != b) = p x := by
        intro x hx
        have : x ≠ b := fun e => hn.1 (e ▸ hx)
        simp [this]
      rw [List.filter_cons, List.filter_cons]
      simp only [hp, bne_self_eq_false, Bool.and_false, Bool.false_eq_true, if_false, if_true, List.length_cons]
      rw [List.filter_congr hnot]
    · have hat : a ∈ t := by rcases ha with ha | ha; exact absurd ha.symm hba; exact ha
      have := ih hn.2 hat
      rw [List.filter_cons, List.filter_cons]
      have hb : (b != a) = true := by simp [hba]
      by_cases hpb : p b = true
      · simp only [hpb, hb, Bool.and_self, if_true, List.length_cons]; omega
      · simp only [hpb, Bool.false_and, Bool.false_eq_true, if_false]; exact this

theorem filter_length_one_unique {l : List PyId} (p : PyId → Bool) (hlen : (l.filter p).length = 1)
    {a b : PyId} (ha : a ∈ l) (hpa : p a = true) (hb : b ∈ l) (hpb : p b = true) : a = b := by
  have ha' : a ∈ l.filter p := List.mem_filter.2 ⟨ha, hpa⟩
  have hb' : b ∈ l.filter p := List.mem_filter.2 ⟨hb, hpb⟩
  match hf : l.filter p, hlen with
  | [c], _ =>
    rw [hf] at ha' hb'
    simp at ha' hb'
    rw [ha', hb']

/-! ### the Dijkstra invariant (unit increments make it a BFS) -/

/-- facts after an iteration has marked its current node: `u` = still unvisited, `c` = distance of the node
    just processed -/
structure PF (h : Net) (src : PyId) (d : PyId → Option Nat) (u : PyId → Bool) (c : Nat) : Prop where
  inNodes : ∀ x k, d x = some k → x ∈ h.nodes
  src0 : d src = some 0
  zero : ∀ x, d x = some 0 → x = src
  done : ∀ x, u x = false → ∃ k, d x = some k ∧ k ≤ c
  front : ∀ x k, u x = true → d x = some k → c ≤ k ∧ k ≤ c + 1
  relaxed : ∀ p v kp, u p = false → Adj h p v → d p = some kp → ∃ k, d v = some k ∧ k ≤ kp + 1
  parent : ∀ x k, d x = some (k + 1) → ∃ p, u p = false ∧ Adj h p x ∧ d p = some k

/-- the unvisited set at the loop head, with the current node counted in (it is not for the source) -/
def headU (st : SP) : PyId → Bool := fun x => st.unseen x || x == st.current

/-- number of unvisited nodes other than the current one: the value `n_unseen` really holds -/
def restCount (h : Net) (st : SP) : Nat := (h.nodes.filter (fun x => st.unseen x && x != st.current)).length

/-- loop-head invariant: `c` = distance of the previously processed node, `m` = distance of the current one -/
structure HI (h : Net) (src : PyId) (st : SP) (c m : Nat) : Prop where
  pf : PF h src st.dist.get (headU st) c
  cur : st.dist.get st.current = some m
  minimal : ∀ x ∈ h.nodes, headU st x = true → ∀ k, st.dist.get x = some k → m ≤ k
  count : st.nUnseen = (restCount h st : Int)

/-- what is claimed of the returned table -/
structure SPFinal (h : Net) (src : PyId) (d : PyId → Option Nat) : Prop where
  src0 : d src = some 0
  zero : ∀ x, d x = some 0 → x = src
  lipschitz : ∀ a v ka, Adj h a v → d a = some ka → ∃ k, d v = some k ∧ k ≤ ka + 1
  parent : ∀ x k, d x = some (k + 1) → ∃ p, Adj h p x ∧ d p = some k

theorem HI.curNode {h : Net} {src : PyId} {st : SP} {c m : Nat} (hi : HI h src st c m) : st.current ∈ h.nodes :=
  hi.pf.inNodes _ _ hi.cur

theorem HI.c_le_m {h : Net} {src : PyId} {st : SP} {c m : Nat} (hi : HI h src st c m) : c ≤ m :=
  (hi.pf.front st.current m (by simp [headU]) hi.cur).1

/-- one pass of the loop body up to the marking of the current node -/
theorem HI.afterMark {h : Net} (wf : h.WF) {src : PyId} {st : SP} {c m : Nat} (hi : HI h src st c m) :
    PF h src (relax h st).get (upd st.unseen st.current false) m := by
  have hcm := hi.c_le_m
  obtain ⟨⟨pin, psrc, pzero, pdone, pfront, prelax, pparent⟩, hcur, hmin, _⟩ := hi
  have rg := relax_get h st m hcur
  -- a finite entry is never overwritten
  have keep : ∀ x k, st.dist.get x = some k → (relax h st).get x = some k := by
    intro x k hk
    rw [rg x, hk]
    by_cases hu : st.unseen x = true
    · have := (pfront x k (by simp [headU, hu]) hk).2
      have hlt : ¬ (m + 1 < k) := by omega
      simp [hlt]
    · simp [hu]
  -- a new finite entry is `m + 1`, written at an unvisited neighbour of the current node that had none
  have fresh : ∀ x k, (relax h st).get x = some k → st.dist.get x = some k ∨
      (st.dist.get x = none ∧ k = m + 1 ∧ x ∈ nbrs h st.current ∧ st.unseen x = true) := by
    intro x k hk
    rw [rg x] at hk
    by_cases hcond : x ∈ nbrs h st.current ∧ st.unseen x = true ∧ distLt (some (m + 1)) (st.dist.get x) = true
    · rw [if_pos hcond] at hk
      cases hd : st.dist.get x with
      | none => simp only [Option.some.injEq] at hk; exact .inr ⟨rfl, hk.symm, hcond.1, hcond.2.1⟩
      | some k' =>
        have := (pfront x k' (by simp [headU, hcond.2.1]) hd).2
        have h3 := hcond.2.2
        rw [hd] at h3; simp at h3; omega
    · rw [if_neg hcond] at hk; exact .inl hk
  have umark : ∀ x, upd st.unseen st.current false x = false ↔ x = st.current ∨ headU st x = false := by
    intro x
    by_cases hx : x = st.current
    · simp [hx]
    · simp [headU, hx]
  have umark' : ∀ x, upd st.unseen st.current false x = true ↔ x ≠ st.current ∧ st.unseen x = true := by
    intro x
    by_cases hx : x = st.current
    · simp [hx]
    · simp [hx]
  refine ⟨?_, ?_, ?_, ?_, ?_, ?_, ?_⟩
  · intro x k hk
    rcases fresh x k hk with hd | ⟨_, _, hnb, _⟩
    · exact pin x k hd
    · exact (mem_nbrs.1 hnb).right_mem wf
  · exact keep _ _ psrc
  · intro x hk
    rcases fresh x 0 hk with hd | ⟨_, e, _, _⟩
    · exact pzero x hd
    · omega
  · intro x hx
    rcases (umark x).1 hx with e | hu
    · subst e; exact ⟨m, keep _ _ hcur, Nat.le_refl _⟩
    · obtain ⟨k, hk, hle⟩ := pdone x hu
      exact ⟨k, keep _ _ hk, by omega⟩
  · intro x k hx hk
    obtain ⟨hne, hu⟩ := (umark' x).1 hx
    rcases fresh x k hk with hd | ⟨_, e, _, _⟩
    · have hxn := pin x k hd
      have h1 := hmin x hxn (by simp [headU, hu]) k hd
      have h2 := (pfront x k (by simp [headU, hu]) hd).2
      omega
    · omega
  · intro p v kp hp a hkp
    rcases (umark p).1 hp with e | hu
    · subst e
      have hkpm : kp = m := by
        have := keep _ _ hcur; rw [this] at hkp; simp at hkp; exact hkp.symm
      subst hkpm
      have hvn : v ∈ nbrs h st.current := mem_nbrs.2 a
      by_cases huv : st.unseen v = true
      · cases hd : st.dist.get v with
        | none =>
          refine ⟨kp + 1, ?_, Nat.le_refl _⟩
          rw [rg v, hd]; simp [hvn, huv]
        | some k =>
          have := (pfront v k (by simp [headU, huv]) hd).2
          exact ⟨k, keep _ _ hd, by omega⟩
      · have hvc : v ≠ st.current := fun e => a.1 e.symm
        have : headU st v = false := by simp [headU, huv, hvc]
        obtain ⟨k, hk, hle⟩ := pdone v this
        exact ⟨k, keep _ _ hk, by omega⟩
    · obtain ⟨kp', hkp', _⟩ := pdone p hu
      have : kp' = kp := by have := keep _ _ hkp'; rw [this] at hkp; simpa using hkp
      subst this
      obtain ⟨k, hk, hle⟩ := prelax p v kp' hu a hkp'
      exact ⟨k, keep _ _ hk, hle⟩
  · intro x k hk
    rcases fresh x (k + 1) hk with hd | ⟨_, e, hnb, _⟩
    · obtain ⟨p, hp, a, hdp⟩ := pparent x k hd
      exact ⟨p, (umark p).2 (.inr hp), a, keep _ _ hdp⟩
    · have : k = m := by omega
      subst this
      exact ⟨st.current, (umark _).2 (.inl rfl), mem_nbrs.1 hnb, keep _ _ hcur⟩

/-- the table is final once no unvisited node is finite, or exactly one unvisited node is left -/
theorem PF.final {h : Net} (wf : h.WF) {src : PyId} {d : PyId → Option Nat} {u : PyId → Bool} {c : Nat}
    (pf : PF h src d u c)
    (hstop : (∀ x ∈ h.nodes, u x = true → d x = none) ∨ (h.nodes.filter u).length = 1) :
    SPFinal h src d := by
  obtain ⟨pin, psrc, pzero, pdone, pfront, prelax, pparent⟩ := pf
  refine ⟨psrc, pzero, ?_, ?_⟩
  · intro a v ka adj hka
    by_cases hua : u a = false
    · exact prelax a v ka hua adj hka
    · have hua : u a = true := by simpa using hua
      have han := pin a ka hka
      rcases hstop with hnone | hone
      · have := hnone a han hua; rw [this] at hka; cases hka
      · have hvn : v ∈ h.nodes := adj.right_mem wf
        have huv : u v = false := by
          cases hv : u v with
          | false => rfl
          | true => exact absurd (filter_length_one_unique u hone han hua hvn hv) adj.1
        obtain ⟨k, hk, hle⟩ := pdone v huv
        have := (pfront a ka hua hka).1
        exact ⟨k, hk, by omega⟩
  · intro x k hk
    obtain ⟨p, _, a, hp⟩ := pparent x k hk
    exact ⟨p, a, hp⟩

theorem filter_upd_eq (h : Net) (st : SP) :
    h.nodes.filter (upd st.unseen st.current false) = h.nodes.filter (fun x => st.unseen x && x != st.current) := by
  apply List.filter_congr
  intro x _
  by_cases hx : x = st.current <;> simp [hx]

/-- the loop stops within `restCount + 1` iterations and returns a final table -/
theorem spLoop_final {h : Net} (wf : h.WF) {src : PyId} :
    ∀ (fuel : Nat) (st : SP) (c m : Nat), HI h src st c m → restCount h st + 1 ≤ fuel →
      ∃ st', spLoop h fuel st = some st' ∧ SPFinal h src st'.dist.get := by
  intro fuel
  induction fuel with
  | zero => intro st c m _ hf; omega
  | succ fuel ih =>
    intro st c m hi hf
    have pf := hi.afterMark wf
    have hcount := hi.count
    unfold spLoop
    simp only []
    generalize hd : relax h st = d at pf
    generalize hu : upd st.unseen st.current false = u at pf
    have hfilt : (h.nodes.filter u).length = restCount h st := by
      unfold restCount; rw [← hu, filter_upd_eq]
    have hscan := scan_spec h.nodes d.get u st.current
    rw [minWhere_eq_scan h.nodes d.get u st.current, argMin_eq_scan]
    by_cases hstop : (st.nUnseen - 1 == 0 || (scan h.nodes d.get u (none, st.current)).1.isNone) = true
    · rw [if_pos hstop]
      refine ⟨_, rfl, ?_⟩
      simp only []
      apply pf.final wf
      simp only [Bool.or_eq_true, beq_iff_eq, Option.isNone_iff_eq_none] at hstop
      rcases hstop with h0 | hnone
      · right; rw [hfilt]; omega
      · left; exact (hscan.noneCase hnone).2
    · rw [if_neg hstop]
      simp only [Bool.or_eq_true, beq_iff_eq, Option.isNone_iff_eq_none, not_or] at hstop
      obtain ⟨hn0, hsome⟩ := hstop
      obtain ⟨m', hm'⟩ := Option.ne_none_iff_exists'.1 hsome
      obtain ⟨hmem, hw, hdm, hminimal⟩ := hscan.someCase m' hm'
      generalize hcur' : (scan h.nodes d.get u (none, st.current)).2 = cur' at hmem hw hdm
      -- the new current node is unvisited, hence different from the old one
      have hne : cur' ≠ st.current := by
        intro e; rw [e, ← hu] at hw; simp at hw
      have hpos : 1 ≤ restCount h st := by
        rw [← hfilt]
        exact List.length_pos_of_mem (List.mem_filter.2 ⟨hmem, hw⟩)
      have hUeq : ∀ x, (u x || x == cur') = u x := by
        intro x
        by_cases hx : x = cur'
        · subst hx; simp [hw]
        · simp [hx]
      have hrest : restCount h ⟨d, u, st.nUnseen - 1, cur'⟩ + 1 = restCount h st := by
        have hh := filter_erase_count wf.1 u hmem hw
        rw [hfilt] at hh
        exact hh
      apply ih ⟨d, u, st.nUnseen - 1, cur'⟩ m m'
      · refine ⟨?_, hdm, ?_, ?_⟩
        · have : headU ⟨d, u, st.nUnseen - 1, cur'⟩ = u := by funext x; exact hUeq x
          rw [this]; exact pf
        · intro x hx hux k hk
          have : headU ⟨d, u, st.nUnseen - 1, cur'⟩ x = u x := hUeq x
          rw [this] at hux
          exact hminimal x hx hux k hk
        · simp only []
          omega
      · omega

/-! ### the initial state -/

theorem hi_init {h : Net} (wf : h.WF) {src : PyId} (hs : src ∈ h.nodes) : HI h src (spInit h src) 0 0 := by
  have hU : ∀ x, headU (spInit h src) x = true := by
    intro x; by_cases hx : x = src <;> simp [headU, spInit, hx]
  refine ⟨⟨?_, ?_, ?_, ?_, ?_, ?_, ?_⟩, ?_, ?_, ?_⟩
  · intro x k hk
    by_cases hx : x = src
    · subst hx; exact hs
    · simp [spInit, hx] at hk
  · simp [spInit]
  · intro x hk
    by_cases hx : x = src
    · exact hx
    · simp [spInit, hx] at hk
  · intro x hx; rw [hU x] at hx; cases hx
  · intro x k _ hk
    by_cases hx : x = src
    · simp [spInit, hx] at hk; omega
    · simp [spInit, hx] at hk
  · intro p v kp hp; rw [hU p] at hp; cases hp
  · intro x k hk
    by_cases hx : x = src
    · simp [spInit, hx] at hk
    · simp [spInit, hx] at hk
  · simp [spInit]
  · intro x _ _ k _; exact Nat.zero_le _
  · have hc := filter_erase_count wf.1 (fun _ => true) hs rfl
    have h1 : (h.nodes.filter (fun _ => true)).length = h.nodes.length := by
      rw [List.filter_eq_self.2 (fun _ _ => rfl)]
    have h2 : restCount h (spInit h src) = (h.nodes.filter (fun x => true && x != src)).length := by
      unfold restCount spInit
      simp only []
      congr 1
      apply List.filter_congr
      intro x _; simp
    have h3 : (spInit h src).nUnseen = (h.nodes.length : Int) - 1 := rfl
    rw [h3, h2]; omega

theorem restCount_le (h : Net) (st : SP) : restCount h st ≤ h.nodes.length := List.length_filter_le _ _

theorem sssp_ok {h : Net} (wf : h.WF) {src : PyId} (hs : src ∈ h.nodes) :
    ∃ d, sssp h src = .ok d ∧ SPFinal h src d := by
  unfold sssp
  simp only [hs, if_true]
  obtain ⟨st', e, fin⟩ := spLoop_final wf (h.nodes.length + 1) (spInit h src) 0 0 (hi_init wf hs)
    (by have := restCount_le h (spInit h src); omega)
  rw [e]
  exact ⟨_, rfl, fin⟩

/-! ### walks and distance -/

/-- a walk of length `k` in the clique expansion -/
inductive Walk (h : Net) : PyId → PyId → Nat → Prop where
  | refl (u : PyId) : Walk h u u 0
  | tail {u v w : PyId} {k : Nat} : Walk h u v k → Adj h v w → Walk h u w (k + 1)

/-- `k` is the graph distance from `u` to `v` -/
def IsDist (h : Net) (u v : PyId) (k : Nat) : Prop := Walk h u v k ∧ ∀ j, Walk h u v j → k ≤ j

theorem Walk.head {h : Net} {u v w : PyId} {k : Nat} (a : Adj h u v) (p : Walk h v w k) : Walk h u w (k + 1) := by
  induction p with
  | refl => exact .tail (.refl _) a
  | tail _ b ih => exact .tail ih b

theorem Walk.symm {h : Net} {u v : PyId} {k : Nat} (p : Walk h u v k) : Walk h v u k := by
  induction p with
  | refl => exact .refl _
  | tail _ b ih => exact Walk.head b.symm ih

theorem reach_iff_walk {h : Net} {u v : PyId} : Reach h u v ↔ ∃ k, Walk h u v k := by
  constructor
  · intro r
    induction r with
    | refl => exact ⟨0, .refl _⟩
    | tail _ a ih => obtain ⟨k, p⟩ := ih; exact ⟨k + 1, .tail p a⟩
  · rintro ⟨k, p⟩
    induction p with
    | refl => exact .refl
    | tail _ a ih => exact ih.tail a

theorem IsDist.symm {h : Net} {u v : PyId} {k : Nat} (d : IsDist h u v k) : IsDist h v u k :=
  ⟨d.1.symm, fun j p => d.2 j p.symm⟩

theorem IsDist.unique {h : Net} {u v : PyId} {k k' : Nat} (d : IsDist h u v k) (d' : IsDist h u v k') : k = k' :=
  Nat.le_antisymm (d.2 _ d'.1) (d'.2 _ d.1)

theorem SPFinal.upper {h : Net} {src : PyId} {d : PyId → Option Nat} (f : SPFinal h src d) {v : PyId} {j : Nat}
    (p : Walk h src v j) : ∃ k, k ≤ j ∧ d v = some k := by
  induction p with
  | refl => exact ⟨0, Nat.le_refl _, f.src0⟩
  | tail _ a ih =>
    obtain ⟨k, hk, hd⟩ := ih
    obtain ⟨k', hd', hle⟩ := f.lipschitz _ _ k a hd
    exact ⟨k', by omega, hd'⟩

theorem SPFinal.lower {h : Net} {src : PyId} {d : PyId → Option Nat} (f : SPFinal h src d) :
    ∀ (k : Nat) (v : PyId), d v = some k → Walk h src v k := by
  intro k
  induction k with
  | zero => intro v hv; rw [f.zero v hv]; exact .refl _
  | succ k ih =>
    intro v hv
    obtain ⟨p, a, hp⟩ := f.parent v k hv
    exact .tail (ih p hp) a

theorem SPFinal.isDist {h : Net} {src : PyId} {d : PyId → Option Nat} (f : SPFinal h src d) (v : PyId) (k : Nat) :
    d v = some k ↔ IsDist h src v k := by
  constructor
  · intro hv
    refine ⟨f.lower k v hv, fun j p => ?_⟩
    obtain ⟨k', hle, hd⟩ := f.upper p
    rw [hv] at hd; cases hd; exact hle
  · rintro ⟨p, hmin⟩
    obtain ⟨k', hle, hd⟩ := f.upper p
    have := hmin k' (f.lower k' v hd)
    have : k' = k := by omega
    rw [← this]; exact hd

theorem SPFinal.none_iff {h : Net} {src : PyId} {d : PyId → Option Nat} (f : SPFinal h src d) (v : PyId) :
    d v = none ↔ ¬ Reach h src v := by
  rw [reach_iff_walk]
  constructor
  · rintro hn ⟨j, p⟩
    obtain ⟨k, _, hd⟩ := f.upper p
    rw [hn] at hd; cases hd
  · intro hnr
    cases hd : d v with
    | none => rfl
    | some k => exact absurd ⟨k, f.lower k v hd⟩ hnr

end Xgi.C14
