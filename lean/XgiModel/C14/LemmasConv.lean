/-
  C14 helper lemmas: membership characterisations of the converters and the clustering coefficient.
-/
import XgiModel.C14.Lemmas
import Mathlib.Tactic.Ring
import Mathlib.Tactic.FieldSimp
import Mathlib.Tactic.Linarith
import Mathlib.Data.Rat.Cast.CharZero
import Mathlib.Algebra.Order.Field.Rat

namespace Xgi.C14
open Xgi

/-! ### projection graph, line graph -/

theorem mem_projEdges {h : Net} {u v : PyId} :
    (u, v) ∈ projEdges h ↔ List.Sublist [u, v] h.nodes ∧ Adj h u v := by
  unfold projEdges
  simp only [List.mem_filter, mem_pairs, decide_eq_true_eq, mem_nbrs]

theorem mem_lineLinks {h : Net} {s : Nat} {w : LW} {a b : PyId} {x : Option Rat} :
    (a, b, x) ∈ lineLinks h s w ↔
      ∃ ma mb, List.Sublist [(a, ma), (b, mb)] h.edges ∧ s ≤ (inter ma mb).length ∧ x = lineWeight w ma mb := by
  unfold lineLinks
  simp only [List.mem_filterMap]
  constructor
  · rintro ⟨⟨⟨a', ma⟩, ⟨b', mb⟩⟩, hp, hf⟩
    by_cases hs : (inter ma mb).length ≥ s
    · simp only [hs, if_true, Option.some.injEq, Prod.mk.injEq] at hf
      obtain ⟨e1, e2, e3⟩ := hf
      subst e1 e2 e3
      exact ⟨ma, mb, mem_pairs.1 hp, hs, rfl⟩
    · simp [hs] at hf
  · rintro ⟨ma, mb, hsub, hs, e⟩
    refine ⟨((a, ma), (b, mb)), mem_pairs.2 hsub, ?_⟩
    simp [hs, e]

/-! ### bipartite graph -/

theorem mem_bipNodes {h : Net} {i b : Nat} :
    (i, b) ∈ bipNodes h ↔ (i < h.nodes.length ∧ b = 0) ∨
      (h.nodes.length ≤ i ∧ i < h.nodes.length + h.edges.length ∧ b = 1) := by
  unfold bipNodes
  simp only [List.mem_append, List.mem_map, List.mem_range, Prod.mk.injEq]
  constructor
  · rintro (⟨j, hj, e1, e2⟩ | ⟨j, hj, e1, e2⟩)
    · subst e1 e2; exact .inl ⟨hj, rfl⟩
    · subst e1 e2; exact .inr ⟨by omega, by omega, rfl⟩
  · rintro (⟨hi, e⟩ | ⟨h1, h2, e⟩)
    · exact .inl ⟨i, hi, rfl, e.symm⟩
    · exact .inr ⟨i - h.nodes.length, by omega, by omega, e.symm⟩

theorem idxOf_eq_of_getElem? {l : List PyId} (hn : l.Nodup) {i : Nat} {n : PyId} (hi : l[i]? = some n) :
    l.idxOf n = i := by
  induction l generalizing i with
  | nil => simp at hi
  | cons a t ih =>
    rw [List.nodup_cons] at hn
    cases i with
    | zero => simp at hi; subst hi; simp
    | succ i =>
      simp only [List.getElem?_cons_succ] at hi
      have hmem : n ∈ t := List.mem_of_getElem? hi
      have hne : a ≠ n := fun e => hn.1 (e ▸ hmem)
      rw [List.idxOf_cons_ne _ hne, ih hn.2 hi]

theorem getElem?_idxOf_of_mem {l : List PyId} {n : PyId} (hm : n ∈ l) : l[l.idxOf n]? = some n := by
  have hlt : l.idxOf n < l.length := List.idxOf_lt_length_iff.2 hm
  rw [List.getElem?_eq_getElem hlt, List.getElem_idxOf hlt]

theorem mem_bipEdges {h : Net} (wf : h.WF) {i k : Nat} :
    (i, k) ∈ bipEdges h ↔
      ∃ j e ms n, h.edges[j]? = some (e, ms) ∧ n ∈ ms ∧ h.nodes[i]? = some n ∧ k = h.nodes.length + j := by
  unfold bipEdges
  simp only [List.mem_flatMap, List.mem_map, Prod.mk.injEq, List.mem_zipIdx_iff_getElem?]
  constructor
  · rintro ⟨⟨⟨e, ms⟩, j⟩, hj, n, hn, e1, e2⟩
    simp only at hj hn e1 e2
    have hnode : n ∈ h.nodes := (wf.2.2 _ (List.mem_of_getElem? hj)).2 n hn
    exact ⟨j, e, ms, n, hj, hn, e1 ▸ getElem?_idxOf_of_mem hnode, e2.symm⟩
  · rintro ⟨j, e, ms, n, hj, hn, hi, hk⟩
    exact ⟨((e, ms), j), hj, n, hn, idxOf_eq_of_getElem? wf.1 hi, hk.symm⟩

theorem mem_bipNodeIndex {h : Net} {i : Nat} {n : PyId} : (i, n) ∈ bipNodeIndex h ↔ h.nodes[i]? = some n := by
  unfold bipNodeIndex
  simp only [List.mem_map, Prod.mk.injEq]
  constructor
  · rintro ⟨⟨n', i'⟩, hm, e1, e2⟩
    simp only at e1 e2; subst e1 e2
    exact List.mem_zipIdx_iff_getElem?.1 hm
  · intro hi
    exact ⟨(n, i), List.mem_zipIdx_iff_getElem?.2 hi, rfl, rfl⟩

theorem mem_bipEdgeIndex {h : Net} {k : Nat} {e : PyId} :
    (k, e) ∈ bipEdgeIndex h ↔ ∃ j ms, h.edges[j]? = some (e, ms) ∧ k = h.nodes.length + j := by
  unfold bipEdgeIndex
  simp only [List.mem_map, Prod.mk.injEq]
  constructor
  · rintro ⟨⟨⟨e', ms⟩, j⟩, hm, e1, e2⟩
    simp only at e1 e2; subst e1 e2
    exact ⟨j, ms, List.mem_zipIdx_iff_getElem?.1 hm, rfl⟩
  · rintro ⟨j, ms, hj, hk⟩
    exact ⟨((e, ms), j), List.mem_zipIdx_iff_getElem?.2 hj, hk.symm, rfl⟩

/-! ### encapsulation DAG -/

/-- `b` is strictly smaller than `a`, a subset of it, and they share a node (so `b` is non-empty) -/
def Enc (h : Net) (a b : Entry) : Prop :=
  a ∈ h.edges ∧ b ∈ h.edges ∧ b.2.length < a.2.length ∧ (∀ x ∈ b.2, x ∈ a.2) ∧ ∃ x ∈ a.2, x ∈ b.2

/-- the size relation demanded by `subset_types` before any filtering -/
def sizeRel : SubT → Entry → Entry → Prop
  | .immediate, a, b => a.2.length = b.2.length + 1
  | _, _, _ => True

theorem encapsulated_iff {l s : List PyId} : encapsulated l s = true ↔ ∀ x ∈ s, x ∈ l := by
  unfold encapsulated
  simp [List.length_filter_eq_length_iff]

theorem checkCand_of {t : SubT} {a b : Entry} (hlt : b.2.length < a.2.length) (hr : sizeRel t a b) :
    checkCand t a.2 b.2 = true := by
  cases t <;> simp [checkCand, sizeRel] at hr ⊢ <;> omega

theorem sizeRel_of_checkCand {t : SubT} {a b : Entry} (hlt : b.2.length < a.2.length)
    (hc : checkCand t a.2 b.2 = true ∨ checkCand t b.2 a.2 = true) : sizeRel t a b := by
  cases t <;> simp [checkCand, sizeRel] at hc ⊢
  omega

theorem mem_encStep {h : Net} {t : SubT} {he a b : Entry} :
    (a, b) ∈ encStep h t he ↔
      ∃ c ∈ h.edges, (∃ x ∈ he.2, x ∈ c.2) ∧ checkCand t he.2 c.2 = true ∧
        ((c.2.length < he.2.length ∧ (∀ x ∈ c.2, x ∈ he.2) ∧ a = he ∧ b = c) ∨
         (he.2.length < c.2.length ∧ (∀ x ∈ he.2, x ∈ c.2) ∧ a = c ∧ b = he)) := by
  unfold encStep candidates
  simp only [List.mem_filterMap, List.mem_filter, Bool.and_eq_true, List.any_eq_true, decide_eq_true_eq]
  constructor
  · rintro ⟨c, ⟨hc, hsh, hck⟩, hf⟩
    refine ⟨c, hc, hsh, hck, ?_⟩
    by_cases h1 : he.2.length > c.2.length
    · simp only [h1, if_true] at hf
      by_cases h2 : encapsulated he.2 c.2 = true
      · simp only [h2, if_true, Option.some.injEq, Prod.mk.injEq] at hf
        exact .inl ⟨h1, encapsulated_iff.1 h2, hf.1.symm, hf.2.symm⟩
      · simp [h2] at hf
    · simp only [h1, if_false] at hf
      by_cases h3 : c.2.length > he.2.length
      · simp only [h3, if_true] at hf
        by_cases h2 : encapsulated c.2 he.2 = true
        · simp only [h2, if_true, Option.some.injEq, Prod.mk.injEq] at hf
          exact .inr ⟨h3, encapsulated_iff.1 h2, hf.1.symm, hf.2.symm⟩
        · simp [h2] at hf
      · simp [h3] at hf
  · rintro ⟨c, hc, hsh, hck, hcase⟩
    refine ⟨c, ⟨hc, hsh, hck⟩, ?_⟩
    rcases hcase with ⟨h1, hsub, ea, eb⟩ | ⟨h1, hsub, ea, eb⟩
    · have : he.2.length > c.2.length := h1
      simp [this, encapsulated_iff.2 hsub, ea, eb]
    · have h0 : ¬ he.2.length > c.2.length := by omega
      have : c.2.length > he.2.length := h1
      simp [h0, this, encapsulated_iff.2 hsub, ea, eb]

theorem mem_encRaw {h : Net} {t : SubT} {a b : Entry} :
    (a, b) ∈ encRaw h t ↔ Enc h a b ∧ sizeRel t a b := by
  unfold encRaw Enc
  simp only [mem_dedup, List.mem_flatMap, mem_encStep]
  constructor
  · rintro ⟨he, hhe, c, hc, ⟨x, hx1, hx2⟩, hck, (⟨h1, hsub, ea, eb⟩ | ⟨h1, hsub, ea, eb⟩)⟩
    · subst ea eb
      exact ⟨⟨hhe, hc, h1, hsub, x, hx1, hx2⟩, sizeRel_of_checkCand h1 (.inl hck)⟩
    · subst ea eb
      exact ⟨⟨hc, hhe, h1, hsub, x, hx2, hx1⟩, sizeRel_of_checkCand h1 (.inr hck)⟩
  · rintro ⟨⟨ha, hb, hlt, hsub, x, hx1, hx2⟩, hr⟩
    exact ⟨a, ha, b, hb, ⟨x, hx1, hx2⟩, checkCand_of hlt hr, .inl ⟨hlt, hsub, rfl, rfl⟩⟩

theorem mem_encLinks_empirical {h : Net} {l : Entry × Entry} :
    l ∈ encLinks h .empirical ↔ l ∈ encRaw h .all ∧
      (∀ q ∈ encRaw h .all, q.2.1 = l.2.1 → l.1.2.length ≤ q.1.2.length) ∧
      (∀ q ∈ encRaw h .all, q.1.1 = l.1.1 → q.2.2.length ≤ l.2.2.length) := by
  unfold encLinks empiricalKeep
  simp only [List.mem_filter, Bool.and_eq_true, List.all_eq_true, Bool.or_eq_true, bne_iff_ne, ne_eq,
    decide_eq_true_eq]
  constructor
  · rintro ⟨hl, h1, h2⟩
    refine ⟨hl, fun q hq e => ?_, fun q hq e => ?_⟩
    · rcases h1 q hq with hne | hle
      · exact absurd e hne
      · exact hle
    · rcases h2 q hq with hne | hle
      · exact absurd e hne
      · exact hle
  · rintro ⟨hl, h1, h2⟩
    refine ⟨hl, fun q hq => ?_, fun q hq => ?_⟩
    · by_cases e : q.2.1 = l.2.1
      · exact .inr (h1 q hq e)
      · exact .inl e
    · by_cases e : q.1.1 = l.1.1
      · exact .inr (h2 q hq e)
      · exact .inl e

/-- with distinct edge IDs an entry of the edge list is determined by its ID -/
theorem entry_eq_of_id {h : Net} (wf : h.WF) {a b : Entry} (ha : a ∈ h.edges) (hb : b ∈ h.edges) (e : a.1 = b.1) :
    a = b := by
  obtain ⟨i, ma⟩ := a
  obtain ⟨j, mb⟩ := b
  simp only at e; subst e
  rw [entry_unique wf.2.1 ha hb]

/-! ### clustering coefficient -/

/-- triangles at `n` in the projection: pairs of nodes (in node order) both adjacent to `n` and to each other -/
def triangles (h : Net) (n : PyId) : Nat :=
  ((pairs h.nodes).filter (fun p => decide (p.1 ∈ nbrs h n) && decide (p.2 ∈ nbrs h n) && decide (p.2 ∈ nbrs h p.1))).length

/-- degree of `n` in the projection -/
def projDeg (h : Net) (n : PyId) : Nat := (h.nodes.filter (fun j => j ∈ nbrs h n)).length

theorem sum_map_add_nat {α} (l : List α) (f g : α → Nat) :
    (l.map (fun x => f x + g x)).sum = (l.map f).sum + (l.map g).sum := by
  induction l with
  | nil => rfl
  | cons a t ih => simp only [List.map_cons, List.sum_cons, ih]; omega

theorem sum_indicator {α} (l : List α) (p : α → Bool) :
    (l.map (fun x => if p x then 1 else 0)).sum = (l.filter p).length := by
  induction l with
  | nil => rfl
  | cons a t ih =>
    simp only [List.map_cons, List.sum_cons, ih, List.filter_cons]
    cases p a <;> (simp; try omega)

/-- a symmetric function vanishing on the diagonal sums over `l × l` to twice its sum over `pairs l` -/
theorem sum_sum_symm {α} (l : List α) (g : α → α → Nat) (hs : ∀ a b, g a b = g b a) (hd : ∀ a, g a a = 0) :
    (l.map (fun j => (l.map (fun k => g j k)).sum)).sum = 2 * ((pairs l).map (fun p => g p.1 p.2)).sum := by
  induction l with
  | nil => rfl
  | cons a t ih =>
    simp only [List.map_cons, List.sum_cons, pairs, List.map_append, List.map_map, List.sum_append, hd a]
    rw [sum_map_add_nat t (fun j => g j a) (fun j => (t.map (fun k => g j k)).sum), ih]
    have : (t.map (fun j => g j a)).sum = (t.map (fun k => g a k)).sum :=
      congrArg List.sum (List.map_congr_left (fun j _ => hs j a))
    rw [this]
    have h2 : (List.map ((fun p => g p.1 p.2) ∘ fun y => (a, y)) t) = t.map (fun k => g a k) := rfl
    rw [h2]
    omega

theorem adjB_symm (h : Net) (u v : PyId) : adjB h u v = adjB h v u := by
  unfold adjB
  have : v ∈ nbrs h u ↔ u ∈ nbrs h v := by rw [mem_nbrs, mem_nbrs]; exact ⟨Adj.symm, Adj.symm⟩
  by_cases hv : v ∈ nbrs h u
  · simp [hv, this.1 hv]
  · have hu : u ∉ nbrs h v := fun x => hv (this.2 x)
    simp [hv, hu]

theorem adjB_self (h : Net) (u : PyId) : adjB h u u = 0 := by
  unfold adjB
  have : u ∉ nbrs h u := by rw [mem_nbrs]; exact fun a => a.1 rfl
  simp [this]

theorem a3_eq (h : Net) (n : PyId) : a3 h n = 2 * triangles h n := by
  unfold a3 triangles
  have hg := sum_sum_symm h.nodes (fun j l => adjB h n j * adjB h j l * adjB h l n)
    (by intro a b; simp only [adjB_symm h b a, adjB_symm h a n, adjB_symm h b n]; ring)
    (by intro a; simp [adjB_self])
  rw [hg, ← sum_indicator]
  congr 2
  apply List.map_congr_left
  intro p _
  simp only [adjB]
  have e : n ∈ nbrs h p.2 ↔ p.2 ∈ nbrs h n := by rw [mem_nbrs, mem_nbrs]; exact ⟨Adj.symm, Adj.symm⟩
  by_cases h1 : p.1 ∈ nbrs h n <;> by_cases h2 : p.2 ∈ nbrs h n <;> by_cases h3 : p.2 ∈ nbrs h p.1 <;>
    simp [h1, h2, h3, e]

theorem pdeg_eq (h : Net) (n : PyId) : pdeg h n = projDeg h n := by
  unfold pdeg projDeg
  have := sum_indicator h.nodes (fun j => decide (j ∈ nbrs h n))
  simp only [decide_eq_true_eq] at this
  rw [← this]
  rfl

theorem triangles_pos_deg {h : Net} {n : PyId} (ht : 0 < triangles h n) : 2 ≤ projDeg h n := by
  unfold triangles at ht
  obtain ⟨⟨j, l⟩, hp⟩ := List.exists_mem_of_length_pos ht
  simp only [List.mem_filter, Bool.and_eq_true, decide_eq_true_eq, mem_pairs] at hp
  obtain ⟨hsub, ⟨hj, hl⟩, _⟩ := hp
  have hf := hsub.filter (fun j => decide (j ∈ nbrs h n))
  have e : List.filter (fun j => decide (j ∈ nbrs h n)) [j, l] = [j, l] := by simp [hj, hl]
  rw [e] at hf
  unfold projDeg
  exact hf.length_le

theorem clusteringAt_eq (h : Net) (n : PyId) :
    clusteringAt h n = .val (if projDeg h n < 2 then 0
      else (triangles h n : Rat) / ((projDeg h n : Rat) * ((projDeg h n : Rat) - 1) / 2)) := by
  unfold clusteringAt
  rw [a3_eq, pdeg_eq]
  have hnum : (1 / 2 : Rat) * ((2 * triangles h n : Nat) : Rat) = (triangles h n : Rat) := by
    push_cast; ring
  simp only [hnum]
  by_cases hk : projDeg h n < 2
  · have ht : triangles h n = 0 := by
      by_contra hne
      have := triangles_pos_deg (Nat.pos_of_ne_zero hne)
      omega
    have hden : (projDeg h n : Rat) * ((projDeg h n : Rat) - 1) / 2 = 0 := by
      have : projDeg h n = 0 ∨ projDeg h n = 1 := by omega
      rcases this with e | e <;> rw [e] <;> norm_num
    simp [hk, ht, hden]
  · have hk2 : (2 : Rat) ≤ (projDeg h n : Rat) := by exact_mod_cast Nat.le_of_not_lt hk
    have hden : (projDeg h n : Rat) * ((projDeg h n : Rat) - 1) / 2 ≠ 0 := by
      have h1 : (0 : Rat) < (projDeg h n : Rat) := by linarith
      have h2 : (0 : Rat) < (projDeg h n : Rat) - 1 := by linarith
      have hp := mul_pos h1 h2
      have : (0 : Rat) < (projDeg h n : Rat) * ((projDeg h n : Rat) - 1) / 2 := by linarith
      exact ne_of_gt this
    simp [hk, hden]

end Xgi.C14
