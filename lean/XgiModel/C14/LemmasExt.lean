/-
  C14 helper lemmas (second batch): empty hyperedges are invisible to neighbours / components / distances /
  projection / clustering (`dropEmpty`), never linked in the line graph (s ≥ 1) or the encapsulation DAG;
  the all-pairs table `spl`; the directed bipartite graph over `DiNet`.
-/
import XgiModel.C14.LemmasConv
import XgiModel.C14.LemmasSP

namespace Xgi.C14
open Xgi

/-! ### `dropEmpty` -/

theorem incident_dropEmpty (h : Net) (v : PyId) : incident (dropEmpty h) v = incident h v := by
  unfold incident dropEmpty
  simp only [List.filter_filter]
  apply List.filter_congr
  intro p _
  by_cases hv : v ∈ p.2
  · have : p.2.isEmpty = false := by
      cases hp : p.2 with
      | nil => rw [hp] at hv; cases hv
      | cons a t => rfl
    simp [hv, this]
  · simp [hv]

theorem nbrs_dropEmpty (h : Net) : nbrs (dropEmpty h) = nbrs h := by
  funext v; unfold nbrs; rw [incident_dropEmpty]

theorem nodes_dropEmpty (h : Net) : (dropEmpty h).nodes = h.nodes := rfl

theorem bfsLevels_dropEmpty (h : Net) : ∀ (fuel : Nat) (seen level : List PyId),
    bfsLevels (dropEmpty h) fuel seen level = bfsLevels h fuel seen level := by
  intro fuel
  induction fuel with
  | zero => intro seen level; rfl
  | succ f ih =>
    intro seen level
    simp only [bfsLevels, nbrs_dropEmpty, ih]

theorem plainBfs_dropEmpty (h : Net) : plainBfs (dropEmpty h) = plainBfs h := by
  funext s; unfold plainBfs; rw [bfsLevels_dropEmpty, nodes_dropEmpty]

theorem components_dropEmpty (h : Net) : components (dropEmpty h) = components h := by
  have : compStep (dropEmpty h) = compStep h := by
    funext acc v; unfold compStep; rw [plainBfs_dropEmpty]
  unfold components; rw [this, nodes_dropEmpty]

theorem numberCC_dropEmpty (h : Net) : numberCC (dropEmpty h) = numberCC h := by
  have : countStep (dropEmpty h) = countStep h := by
    funext acc v; unfold countStep; rw [plainBfs_dropEmpty]
  unfold numberCC; rw [this, nodes_dropEmpty]

theorem isConnected_dropEmpty (h : Net) : isConnected (dropEmpty h) = isConnected h := by
  unfold isConnected; rw [plainBfs_dropEmpty, nodes_dropEmpty]

theorem largestCC_dropEmpty (h : Net) : largestCC (dropEmpty h) = largestCC h := by
  unfold largestCC; rw [components_dropEmpty]

theorem nodeCC_dropEmpty (h : Net) (n : PyId) : nodeCC (dropEmpty h) n = nodeCC h n := by
  unfold nodeCC; rw [plainBfs_dropEmpty, nodes_dropEmpty]

theorem relax_dropEmpty (h : Net) (st : SP) : relax (dropEmpty h) st = relax h st := by
  unfold relax; rw [nbrs_dropEmpty]

theorem spLoop_dropEmpty (h : Net) : ∀ (fuel : Nat) (st : SP), spLoop (dropEmpty h) fuel st = spLoop h fuel st := by
  intro fuel
  induction fuel with
  | zero => intro st; rfl
  | succ f ih =>
    intro st
    simp only [spLoop, relax_dropEmpty, nodes_dropEmpty, ih]

theorem sssp_dropEmpty (h : Net) (src : PyId) : sssp (dropEmpty h) src = sssp h src := by
  unfold sssp
  rw [spLoop_dropEmpty, nodes_dropEmpty]
  rfl

theorem projEdges_dropEmpty (h : Net) : projEdges (dropEmpty h) = projEdges h := by
  unfold projEdges; rw [nbrs_dropEmpty, nodes_dropEmpty]

theorem clusteringAt_dropEmpty (h : Net) (n : PyId) : clusteringAt (dropEmpty h) n = clusteringAt h n := by
  have hadj : adjB (dropEmpty h) = adjB h := by
    funext u v; unfold adjB; rw [nbrs_dropEmpty]
  unfold clusteringAt a3 pdeg
  rw [hadj, nodes_dropEmpty]

theorem clusteringAt_no_edges {h : Net} (he : h.edges = []) (n : PyId) : clusteringAt h n = .val 0 := by
  rw [clusteringAt_eq]
  have : projDeg h n = 0 := by
    unfold projDeg nbrs incident
    simp [he, dedup, rm]
  simp [this]

theorem clustering_dropEmpty (h : Net) : clustering (dropEmpty h) = clustering h := by
  unfold clustering
  rw [nodes_dropEmpty]
  by_cases hn : h.nodes.isEmpty
  · simp [hn]
  · by_cases he : h.edges.isEmpty
    · have : (dropEmpty h).edges.isEmpty := by
        unfold dropEmpty; simp [List.isEmpty_iff.1 he]
      simp [he, this]
    · by_cases hd : (dropEmpty h).edges.isEmpty
      · simp only [hd, he, hn, Bool.true_or, Bool.or_self, if_true]
        simp only [Bool.false_eq_true, if_false]
        apply List.map_congr_left
        intro n _
        rw [← clusteringAt_dropEmpty, clusteringAt_no_edges (List.isEmpty_iff.1 hd)]
      · simp only [hd, he, hn, Bool.or_self, Bool.false_eq_true, if_false]
        apply List.map_congr_left
        intro n _
        rw [clusteringAt_dropEmpty]

/-! ### line graph and empty hyperedges -/

theorem inter_length_pos {a b : List PyId} (hp : 0 < (inter a b).length) : a ≠ [] ∧ b ≠ [] := by
  obtain ⟨x, hx⟩ := List.exists_mem_of_length_pos hp
  rw [mem_inter] at hx
  exact ⟨List.ne_nil_of_mem hx.1, List.ne_nil_of_mem hx.2⟩

theorem lineLinks_members_nonempty {h : Net} {s : Nat} (hs : 1 ≤ s) {w : LW} {a b : PyId} {x : Option Rat}
    (hl : (a, b, x) ∈ lineLinks h s w) :
    ∃ ma mb, (a, ma) ∈ h.edges ∧ (b, mb) ∈ h.edges ∧ ma ≠ [] ∧ mb ≠ [] := by
  obtain ⟨ma, mb, hsub, hlen, _⟩ := mem_lineLinks.1 hl
  have hp := inter_length_pos (a := ma) (b := mb) (by omega)
  exact ⟨ma, mb, hsub.subset (by simp), hsub.subset (by simp), hp.1, hp.2⟩

theorem lineZeroDiv_false (h : Net) {s : Int} (hs : 1 ≤ s) (w : LW) : lineZeroDiv h s w = false := by
  unfold lineZeroDiv
  rw [Bool.and_eq_false_iff]
  right
  rw [List.any_eq_false]
  intro p _
  simp only [Bool.and_eq_true, decide_eq_true_eq, beq_iff_eq, not_and]
  intro hle
  have hp := inter_length_pos (a := p.1.2) (b := p.2.2) (by omega)
  have h1 : 0 < p.1.2.length := List.length_pos_iff.2 hp.1
  have h2 : 0 < p.2.2.length := List.length_pos_iff.2 hp.2
  omega

/-! ### encapsulation DAG and empty hyperedges -/

theorem Enc.nonempty {h : Net} {a b : Entry} (e : Enc h a b) : a.2 ≠ [] ∧ b.2 ≠ [] := by
  obtain ⟨_, _, _, _, x, hx1, hx2⟩ := e
  exact ⟨List.ne_nil_of_mem hx1, List.ne_nil_of_mem hx2⟩

theorem encLinks_enc {h : Net} {t : SubT} {a b : Entry} (hl : (a, b) ∈ encLinks h t) : Enc h a b := by
  cases t with
  | all => exact (mem_encRaw.1 hl).1
  | immediate => exact (mem_encRaw.1 hl).1
  | empirical => exact (mem_encRaw.1 (mem_encLinks_empirical.1 hl).1).1

/-! ### all-pairs table -/

theorem filterMap_id_map_some {α} (l : List α) : (l.map some).filterMap id = l := by
  simp

theorem spl_eq {h : Net} (wf : h.WF) :
    ∃ rows : List (PyId × List (PyId × Option Nat)), spl h = some rows ∧ rows.map (·.1) = h.nodes ∧
      ∀ s t, (s, t) ∈ rows → ∃ d, sssp h s = .ok d ∧ t = ssspTable h d := by
  -- every source is a node, so every row is `some`
  have hrow : ∀ s ∈ h.nodes, ∃ d, sssp h s = .ok d ∧ splRow h s = some (s, ssspTable h d) := by
    intro s hs
    obtain ⟨d, e, _⟩ := sssp_ok wf hs
    exact ⟨d, e, by unfold splRow; rw [e]⟩
  have hall : ∀ l : List PyId, (∀ s ∈ l, s ∈ h.nodes) →
      ∃ rows : List (PyId × List (PyId × Option Nat)), l.map (splRow h) = rows.map some ∧ rows.map (·.1) = l ∧
        ∀ s t, (s, t) ∈ rows → ∃ d, sssp h s = .ok d ∧ t = ssspTable h d := by
    intro l
    induction l with
    | nil => intro _; exact ⟨[], rfl, rfl, by simp⟩
    | cons a t ih =>
      intro hsub
      obtain ⟨rows, e1, e2, e3⟩ := ih (fun s hs => hsub s (List.mem_cons_of_mem _ hs))
      obtain ⟨d, hd, hr⟩ := hrow a (hsub a (by simp))
      refine ⟨(a, ssspTable h d) :: rows, by simp [hr, e1], by simp [e2], ?_⟩
      intro s t' hm
      rcases List.mem_cons.1 hm with e | hm'
      · cases e; exact ⟨d, hd, rfl⟩
      · exact e3 s t' hm'
  obtain ⟨rows, e1, e2, e3⟩ := hall h.nodes (fun _ hs => hs)
  refine ⟨rows, ?_, e2, e3⟩
  unfold spl
  simp only [e1, filterMap_id_map_some]
  simp

/-! ### directed bipartite graph -/

theorem mem_dibipNodes {h : DiNet} {i b : Nat} :
    (i, b) ∈ dibipNodes h ↔ (i < h.nodes.length ∧ b = 0) ∨
      (h.nodes.length ≤ i ∧ i < h.nodes.length + h.edges.length ∧ b = 1) := by
  unfold dibipNodes
  simp only [List.mem_append, List.mem_map, List.mem_range, Prod.mk.injEq]
  constructor
  · rintro (⟨j, hj, e1, e2⟩ | ⟨j, hj, e1, e2⟩)
    · subst e1 e2; exact .inl ⟨hj, rfl⟩
    · subst e1 e2; exact .inr ⟨by omega, by omega, rfl⟩
  · rintro (⟨hi, e⟩ | ⟨h1, h2, e⟩)
    · exact .inl ⟨i, hi, rfl, e.symm⟩
    · exact .inr ⟨i - h.nodes.length, by omega, by omega, e.symm⟩

theorem mem_dibipEdges {h : DiNet} (wf : DiWF h) {a b : Nat} :
    (a, b) ∈ dibipEdges h ↔
      ∃ j e tl hd n, h.edges[j]? = some (e, tl, hd) ∧
        ((n ∈ tl ∧ h.nodes[a]? = some n ∧ b = h.nodes.length + j) ∨
         (n ∈ hd ∧ a = h.nodes.length + j ∧ h.nodes[b]? = some n)) := by
  unfold dibipEdges
  simp only [List.mem_flatMap, List.mem_append, List.mem_map, Prod.mk.injEq, List.mem_zipIdx_iff_getElem?]
  constructor
  · rintro ⟨⟨⟨e, tl, hd⟩, j⟩, hj, (⟨n, hn, e1, e2⟩ | ⟨n, hn, e1, e2⟩)⟩
    · simp only at hj hn e1 e2
      have hnode : n ∈ h.nodes := (wf.2.2 _ (List.mem_of_getElem? hj)).2.2.1 n hn
      exact ⟨j, e, tl, hd, n, hj, .inl ⟨hn, e1 ▸ getElem?_idxOf_of_mem hnode, e2.symm⟩⟩
    · simp only at hj hn e1 e2
      have hnode : n ∈ h.nodes := (wf.2.2 _ (List.mem_of_getElem? hj)).2.2.2 n hn
      exact ⟨j, e, tl, hd, n, hj, .inr ⟨hn, e1.symm, e2 ▸ getElem?_idxOf_of_mem hnode⟩⟩
  · rintro ⟨j, e, tl, hd, n, hj, (⟨hn, hi, hk⟩ | ⟨hn, hk, hi⟩)⟩
    · exact ⟨((e, tl, hd), j), hj, .inl ⟨n, hn, idxOf_eq_of_getElem? wf.1 hi, hk.symm⟩⟩
    · exact ⟨((e, tl, hd), j), hj, .inr ⟨n, hn, hk.symm, idxOf_eq_of_getElem? wf.1 hi⟩⟩

theorem mem_dibipNodeIndex {h : DiNet} {i : Nat} {n : PyId} : (i, n) ∈ dibipNodeIndex h ↔ h.nodes[i]? = some n := by
  unfold dibipNodeIndex
  simp only [List.mem_map, Prod.mk.injEq]
  constructor
  · rintro ⟨⟨n', i'⟩, hm, e1, e2⟩
    simp only at e1 e2; subst e1 e2
    exact List.mem_zipIdx_iff_getElem?.1 hm
  · intro hi
    exact ⟨(n, i), List.mem_zipIdx_iff_getElem?.2 hi, rfl, rfl⟩

theorem mem_dibipEdgeIndex {h : DiNet} {k : Nat} {e : PyId} :
    (k, e) ∈ dibipEdgeIndex h ↔ ∃ j tl hd, h.edges[j]? = some (e, tl, hd) ∧ k = h.nodes.length + j := by
  unfold dibipEdgeIndex
  simp only [List.mem_map, Prod.mk.injEq]
  constructor
  · rintro ⟨⟨⟨e', tl, hd⟩, j⟩, hm, e1, e2⟩
    simp only at e1 e2; subst e1 e2
    exact ⟨j, tl, hd, List.mem_zipIdx_iff_getElem?.1 hm, rfl⟩
  · rintro ⟨j, tl, hd, hj, hk⟩
    exact ⟨((e, tl, hd), j), List.mem_zipIdx_iff_getElem?.2 hj, hk.symm, rfl⟩

end Xgi.C14
