/-
  C05 (directed class) — declarative effect theorems about the validated model of xgi.DiHypergraph
  (lean/XgiModel/C02/DHG.lean): weak / strong node removal, edge removal, removal of a node from a tail or head,
  and the error kind of rejected edits.
-/
import XgiModel.C02.Lemmas
import Mathlib.Tactic.Tauto

namespace Xgi.C05D
open Xgi Xgi.DHG

theorem rm_isEmpty_iff (n : PyId) (l : List PyId) : (rm n l).isEmpty = true ↔ ∀ m ∈ l, m = n := by
  rw [List.isEmpty_iff]; constructor
  · intro hemp m hmm
    by_cases hne : m = n
    · exact hne
    · have : m ∈ rm n l := by simp [hmm, hne]
      rw [hemp] at this; cases this
  · intro hall; apply List.eq_nil_iff_forall_not_mem.mpr; intro a ha; simp at ha; exact ha.1 (hall a ha.2)

/-- weak removal of an existing node: the call returns; the node goes; it disappears from every tail and every head;
    an edge disappears iff the node was in it, tail and head became empty and `remove_empty` is set; memberships of the
    other nodes, all attributes and the counter are untouched -/
theorem weak_removal {s : DHG} (h : WFd s) (n : PyId) (re : Bool) (hn : n ∈ s.nodes) :
    removeNode s n false re = (removeNodeWeak s n re, .ok) ∧
    (∀ m, m ∈ (removeNodeWeak s n re).nodes ↔ m ∈ s.nodes ∧ m ≠ n) ∧
    (∀ e ∈ s.edges, ∀ m, m ∈ (removeNodeWeak s n re).tail e ↔ m ∈ s.tail e ∧ m ≠ n) ∧
    (∀ e ∈ s.edges, ∀ m, m ∈ (removeNodeWeak s n re).head e ↔ m ∈ s.head e ∧ m ≠ n) ∧
    (∀ e, e ∈ (removeNodeWeak s n re).edges ↔
          e ∈ s.edges ∧ ¬ ((n ∈ s.tail e ∨ n ∈ s.head e) ∧ (∀ m ∈ s.tail e, m = n) ∧ (∀ m ∈ s.head e, m = n) ∧ re = true)) ∧
    (removeNodeWeak s n re).membIn = s.membIn ∧ (removeNodeWeak s n re).membOut = s.membOut ∧
    (removeNodeWeak s n re).nattr = s.nattr ∧ (removeNodeWeak s n re).eattr = s.eattr ∧
    (removeNodeWeak s n re).uid = s.uid := by
  obtain ⟨h1, h2, h3, h4, h5, h6, h7, h8, h9, h10, h11, h12, h13, h14, h15, h16⟩ := h
  refine ⟨by simp [removeNode, hn], ?_, ?_, ?_, ?_, rfl, rfl, rfl, rfl, rfl⟩
  · intro m; simp [removeNodeWeak]; tauto
  · intro e he m; simp only [removeNodeWeak]; split
    · simp; tauto
    · rename_i hnot
      have : n ∉ s.tail e := fun hin => hnot (h7 e he n hin).2
      constructor
      · intro hm; exact ⟨hm, fun hmn => this (hmn ▸ hm)⟩
      · exact fun hm => hm.1
  · intro e he m; simp only [removeNodeWeak]; split
    · simp; tauto
    · rename_i hnot
      have : n ∉ s.head e := fun hin => hnot (h8 e he n hin).2
      constructor
      · intro hm; exact ⟨hm, fun hmn => this (hmn ▸ hm)⟩
      · exact fun hm => hm.1
  · intro e
    simp only [removeNodeWeak, List.mem_filter, Bool.not_eq_true', Bool.and_eq_false_iff, Bool.or_eq_false_iff,
      decide_eq_false_iff_not]
    constructor
    · rintro ⟨he, hg⟩
      refine ⟨he, ?_⟩
      rintro ⟨hinc, ht, hh, hre⟩
      have hin : e ∈ s.membIn n ∨ e ∈ s.membOut n := by
        rcases hinc with hx | hx
        · exact Or.inr (h7 e he n hx).2
        · exact Or.inl (h8 e he n hx).2
      have t1 : (if e ∈ s.membOut n then rm n (s.tail e) else s.tail e).isEmpty = true := by
        split
        · exact (rm_isEmpty_iff n _).mpr ht
        · rename_i hno
          rw [List.isEmpty_iff]; apply List.eq_nil_iff_forall_not_mem.mpr
          intro a ha; have := ht a ha; subst this; exact hno (h7 e he _ ha).2
      have t2 : (if e ∈ s.membIn n then rm n (s.head e) else s.head e).isEmpty = true := by
        split
        · exact (rm_isEmpty_iff n _).mpr hh
        · rename_i hno
          rw [List.isEmpty_iff]; apply List.eq_nil_iff_forall_not_mem.mpr
          intro a ha; have := hh a ha; subst this; exact hno (h8 e he _ ha).2
      rcases hg with ((hg | hg) | hg) | hg
      · rcases hin with hx | hx
        · exact hg.1 hx
        · exact hg.2 hx
      · rw [t1] at hg; cases hg
      · rw [t2] at hg; cases hg
      · rw [hre] at hg; cases hg
    · rintro ⟨he, hg⟩
      refine ⟨he, ?_⟩
      by_cases hre : re = true
      · by_cases hin : e ∈ s.membIn n ∨ e ∈ s.membOut n
        · by_cases t1 : (if e ∈ s.membOut n then rm n (s.tail e) else s.tail e).isEmpty = true
          · by_cases t2 : (if e ∈ s.membIn n then rm n (s.head e) else s.head e).isEmpty = true
            · exfalso; apply hg
              have ht : ∀ m ∈ s.tail e, m = n := by
                split at t1
                · exact (rm_isEmpty_iff n _).mp t1
                · intro m hm; rw [List.isEmpty_iff] at t1; rw [t1] at hm; cases hm
              have hh : ∀ m ∈ s.head e, m = n := by
                split at t2
                · exact (rm_isEmpty_iff n _).mp t2
                · intro m hm; rw [List.isEmpty_iff] at t2; rw [t2] at hm; cases hm
              refine ⟨?_, ht, hh, hre⟩
              rcases hin with hx | hx
              · exact Or.inr (h6 n hn e hx).2
              · exact Or.inl (h5 n hn e hx).2
            · left; right; simpa using t2
          · left; left; right; simpa using t1
        · left; left; left; exact ⟨fun hx => hin (Or.inl hx), fun hx => hin (Or.inr hx)⟩
      · right; simpa using hre

/-- strong removal: exactly the edges with the node in their tail or head disappear, tails and heads of the others are
    untouched, and no surviving node keeps a removed edge among its in/out memberships -/
theorem strong_removal {s : DHG} (h : WFd s) (n : PyId) (re : Bool) (hn : n ∈ s.nodes) :
    removeNode s n true re = (removeNodeStrong s n, .ok) ∧
    (∀ m, m ∈ (removeNodeStrong s n).nodes ↔ m ∈ s.nodes ∧ m ≠ n) ∧
    (∀ e, e ∈ (removeNodeStrong s n).edges ↔ e ∈ s.edges ∧ n ∉ s.tail e ∧ n ∉ s.head e) ∧
    (removeNodeStrong s n).tail = s.tail ∧ (removeNodeStrong s n).head = s.head ∧
    (∀ m ∈ (removeNodeStrong s n).nodes, ∀ e, e ∈ (removeNodeStrong s n).membOut m ↔
          e ∈ s.membOut m ∧ n ∉ s.tail e ∧ n ∉ s.head e) ∧
    (∀ m ∈ (removeNodeStrong s n).nodes, ∀ e, e ∈ (removeNodeStrong s n).membIn m ↔
          e ∈ s.membIn m ∧ n ∉ s.tail e ∧ n ∉ s.head e) := by
  obtain ⟨h1, h2, h3, h4, h5, h6, h7, h8, h9, h10, h11, h12, h13, h14, h15, h16⟩ := h
  refine ⟨by simp [removeNode, hn], ?_, ?_, rfl, rfl, ?_, ?_⟩
  · intro m; simp [removeNodeStrong]; tauto
  · intro e; simp only [removeNodeStrong, List.mem_filter, decide_eq_true_eq]; grind
  · intro m hm e; simp only [removeNodeStrong, List.mem_filter, decide_eq_true_eq, mem_rm] at hm ⊢; grind
  · intro m hm e; simp only [removeNodeStrong, List.mem_filter, decide_eq_true_eq, mem_rm] at hm ⊢; grind

/-- `remove_edge`: the edge goes, its tail members forget it among their out-memberships and its head members among
    their in-memberships; nothing else changes -/
theorem remove_edge_effect {s : DHG} (h : WFd s) (e : PyId) (he : e ∈ s.edges) :
    removeEdge s e = (dropEdge s e, .ok) ∧ (∀ f, f ∈ (dropEdge s e).edges ↔ f ∈ s.edges ∧ f ≠ e) ∧
    (dropEdge s e).nodes = s.nodes ∧ (dropEdge s e).tail = s.tail ∧ (dropEdge s e).head = s.head ∧
    (∀ m ∈ s.nodes, ∀ f, f ∈ (dropEdge s e).membOut m ↔ f ∈ s.membOut m ∧ f ≠ e) ∧
    (∀ m ∈ s.nodes, ∀ f, f ∈ (dropEdge s e).membIn m ↔ f ∈ s.membIn m ∧ f ≠ e) := by
  obtain ⟨h1, h2, h3, h4, h5, h6, h7, h8, h9, h10, h11, h12, h13, h14, h15, h16⟩ := h
  refine ⟨by simp [removeEdge, he], ?_, rfl, rfl, rfl, ?_, ?_⟩
  · intro f; simp [dropEdge]; tauto
  · intro m hm f; simp only [dropEdge]; split
    · simp; tauto
    · rename_i hnot
      have : e ∉ s.membOut m := fun hin => hnot (h5 m hm e hin).2
      constructor
      · intro hf; exact ⟨hf, fun hfe => this (hfe ▸ hf)⟩
      · exact fun hf => hf.1
  · intro m hm f; simp only [dropEdge]; split
    · simp; tauto
    · rename_i hnot
      have : e ∉ s.membIn m := fun hin => hnot (h6 m hm e hin).2
      constructor
      · intro hf; exact ⟨hf, fun hfe => this (hfe ▸ hf)⟩
      · exact fun hf => hf.1

/-- edits naming an absent node or edge raise the library's own error and change nothing -/
theorem missing_id_lib (s : DHG) :
    (∀ n st re, n ∉ s.nodes → removeNode s n st re = (s, .err .lib)) ∧
    (∀ e, e ∉ s.edges → removeEdge s e = (s, .err .lib)) ∧
    (∀ e n d re, (e ∉ s.edges ∨ n ∉ s.nodes) → removeNodeFromEdge s e n d re = (s, .err .lib)) := by
  refine ⟨?_, ?_, ?_⟩
  · intro n st re h; simp [removeNode, h]
  · intro e h; simp [removeEdge, h]
  · intro e n d re h; unfold removeNodeFromEdge
    by_cases hd : d = .invalid
    · simp [hd]
    · by_cases h1 : e ∈ s.edges
      · have h2 : n ∉ s.nodes := by rcases h with h | h; exact absurd h1 h; exact h
        simp [hd, h1, h2]
      · simp [hd, h1]

end Xgi.C05D
