/-
  C08 — Read-only API never mutates the network it is given.

  In the functional model every query is a function `HG → Value`, so "does not mutate" holds by construction; what
  is proved here is what makes the *differential* decision on the real code trustworthy:
    * the snapshot the harness compares before/after determines every observer of the model (iteration orders and
      the next automatic edge ID included), also when sets are compared as sets;
    * conversely each snapshot component is itself observable (the comparison raises no unobservable alarm);
    * the public probe of the counter (adding an edge to a copy) shows exactly `uid`;
    * over the regenerated API table: the static scan finds no writer outside the documented in-place list.
  Property theorems only; helpers in C08/Lemmas.lean.
-/
import XgiModel.C08.Lemmas
import XgiModel.Generated.ApiTable

namespace Xgi.C08
open Xgi HG Xgi.Generated

/-- every observer reads a (well-formed) state only through what the snapshot records -/
theorem C08_observers_factor (s : HG) (hs : WF s) (o : Observer) : obs o (ofSnapshot (snapshot s)) = obs o s :=
  obs_factor s (membClosed_of_wf hs) o

/-- **the before/after comparison misses nothing**: equal snapshots ⇒ every observer answers the same
    (`HG` stores total functions: only their restriction to the key lists is compared, and that suffices) -/
theorem C08_snapshot_complete {s s' : HG} (hs : WF s) (h : snapshot s = snapshot s') (o : Observer) :
    obs o s = obs o s' := by
  have hc := membClosed_of_wf hs
  rw [← obs_factor s hc o, ← obs_factor s' (membClosed_of_snapshot_eq hc h) o, h]

/-- the same when member / membership sets are compared as sets (what the harness does): snapshots equal up to the
    order inside sets ⇒ every observer answers the same up to the order inside sets -/
theorem C08_snapshot_complete_sets {s s' : HG} (hs : WF s) (h : (snapshot s).Equiv (snapshot s')) (o : Observer) :
    (obs o s).Equiv (obs o s') := by
  obtain ⟨hn, he, hm, hmb, hna, hea, hnet, huid, hfz⟩ := h
  simp only [snapshot] at hn he hm hmb hna hea hnet huid hfz
  have hm' : ∀ e ∈ s.edges, (s.mem e).Perm (s'.mem e) := by
    rw [← he] at hm; exact (dictEquiv_map _ _ _).mp hm
  have hmb' : ∀ n ∈ s.nodes, (s.memb n).Perm (s'.memb n) := by
    rw [← hn] at hmb; exact (dictEquiv_map _ _ _).mp hmb
  have hnK : s.nattrK = s'.nattrK := by
    have := congrArg (List.map Prod.fst) hna
    simpa [List.map_map, Function.comp_def] using this
  have heK : s.eattrK = s'.eattrK := by
    have := congrArg (List.map Prod.fst) hea
    simpa [List.map_map, Function.comp_def] using this
  have hnA : ∀ n ∈ s.nattrK, s.nattr n = s'.nattr n := fun n hk => by
    rw [← lookup_map s.nattr [] s.nattrK n hk, ← lookup_map s'.nattr [] s'.nattrK n (hnK ▸ hk), hna]
  have heA : ∀ e ∈ s.eattrK, s.eattr e = s'.eattr e := fun e hk => by
    rw [← lookup_map s.eattr [] s.eattrK e hk, ← lookup_map s'.eattr [] s'.eattrK e (heK ▸ hk), hea]
  have inN : ∀ n, n ∈ s.nodes ↔ n ∈ s'.nodes := fun n => by rw [hn]
  have inE : ∀ e, e ∈ s.edges ↔ e ∈ s'.edges := fun e => by rw [he]
  cases o with
  | nodeList => simp [obs, Value.Equiv, hn]
  | edgeList => simp [obs, Value.Equiv, he]
  | numNodes => simp [obs, Value.Equiv, hn]
  | numEdges => simp [obs, Value.Equiv, he]
  | hasNode n => simp [obs, Value.Equiv, hn]
  | hasEdge e => simp [obs, Value.Equiv, he]
  | members e => exact equiv_ite (inE e) (fun h => hm' e h)
  | memberships n => exact equiv_ite (inN n) (fun h => hmb' n h)
  | membersDict =>
    simp only [obs, Value.Equiv]; rw [← he]; exact (dictEquiv_map _ _ _).mpr hm'
  | membershipsDict =>
    simp only [obs, Value.Equiv]; rw [← hn]; exact (dictEquiv_map _ _ _).mpr hmb'
  | degree n =>
    exact equiv_ite (inN n) (fun h => by simp [Value.Equiv, (hmb' n h).length_eq])
  | size e =>
    exact equiv_ite (inE e) (fun h => by simp [Value.Equiv, (hm' e h).length_eq])
  | isMember n e =>
    exact equiv_ite (inE e) (fun h => by simp [Value.Equiv, (hm' e h).mem_iff])
  | neighbors n => exact equiv_ite (inN n) (fun h => nbrs_perm (membClosed_of_wf hs) hm' hmb' h)
  | isolates =>
    simp only [obs, Value.Equiv, isolates]; rw [← hn]
    rw [List.filter_congr (fun n h => by rw [(hmb' n h).length_eq])]
  | singletons =>
    simp only [obs, Value.Equiv, singletons]; rw [← he]
    rw [List.filter_congr (fun e h => by rw [(hm' e h).length_eq])]
  | emptyEdges =>
    simp only [obs, Value.Equiv, emptyEdges]; rw [← he]
    rw [List.filter_congr (fun e h => by rw [(hm' e h).length_eq])]
  | nodeAttrs n =>
    refine equiv_ite (by rw [hn, hnK]) (fun h => ?_)
    simp [Value.Equiv, hnA n h.2]
  | edgeAttrs e =>
    refine equiv_ite (by rw [he, heK]) (fun h => ?_)
    simp [Value.Equiv, heA e h.2]
  | nodeAttrDict => simp only [obs, Value.Equiv]; rw [hna]
  | edgeAttrDict => simp only [obs, Value.Equiv]; rw [hea]
  | netAttrs => simp [obs, Value.Equiv, hnet]
  | netAttr k => simp only [obs, hnet]; exact Value.equiv_refl _
  | nextAutoId => simp [obs, Value.Equiv, huid]
  | isFrozen => simp [obs, Value.Equiv, hfz]

/-- **no unobservable alarm**: every component of the snapshot is the answer of some observer, so two states that
    no observer distinguishes have equal snapshots -/
theorem C08_snapshot_sound {s s' : HG} (h : ∀ o, obs o s = obs o s') : snapshot s = snapshot s' := by
  have h1 := h .nodeList; have h2 := h .edgeList; have h3 := h .membersDict; have h4 := h .membershipsDict
  have h5 := h .nodeAttrDict; have h6 := h .edgeAttrDict; have h7 := h .netAttrs; have h8 := h .nextAutoId
  have h9 := h .isFrozen
  simp only [obs, Value.ids.injEq, Value.dictOfSets.injEq, Value.attrDict.injEq, Value.attrs.injEq,
    Value.bool.injEq, List.cons.injEq, and_true, PyId.atom.injEq, Atom.int.injEq, Int.natCast_inj] at h1 h2 h3 h4 h5 h6 h7 h8 h9
  simp only [snapshot]
  rw [h3, h4, h5, h6, h7, h8, h9, h1, h2]

/-- the public reading of the counter: adding an edge without `idx` (here: to the copy the harness makes) appends
    exactly the ID `uid`, whatever the members and attributes -/
theorem C08_public_uid_probe (s : HG) (ms : List PyId) (a : Attrs) (hms : PyId.none ∉ ms) :
    (addEdge s ms none a).1.edges = s.edges ++ [PyId.int s.uid] ∧ (addEdge s ms none a).2 = .ok := by
  have h0 : ¬ (PyId.none ∈ ms ∨ (none : Option PyId) = some PyId.none) := by simp [hms]
  constructor
  · unfold addEdge; rw [if_neg h0]
    simp only [addEdgeAt]
    rw [foldl_link_edges]
    rfl
  · unfold addEdge; rw [if_neg h0]

/-! ### the regenerated API table (fails ⇒ the API surface changed in a way the check must look at) -/

/-- no function or method outside the documented in-place list is classified as a writer by the static scan:
    whenever the body scan sees a write through the network argument / `self`, the entry has an `in_place`
    parameter or is documented as a mutator (then the harness calls it with `in_place=False`, resp. not at all) -/
theorem C08_table_static_mutators_declared :
    ∀ e ∈ ApiTable.functions ++ ApiTable.methods, e.astWrites = true → (e.hasInPlace = true ∨ e.docMutator = true) := by
  have h : (ApiTable.functions ++ ApiTable.methods).all (fun e => !e.astWrites || e.hasInPlace || e.docMutator) = true := by
    decide +kernel
  intro e he hw
  have := List.all_eq_true.mp h e he
  simpa [hw] using this

/-- a recorded default `in_place=True` belongs to an entry that has the parameter; so the harness knows exactly
    which calls need an explicit `in_place=False` -/
theorem C08_table_in_place_defaults :
    ∀ e ∈ ApiTable.functions ++ ApiTable.methods, e.defaultInPlace = true → e.hasInPlace = true := by
  have h : (ApiTable.functions ++ ApiTable.methods).all (fun e => !e.defaultInPlace || e.hasInPlace) = true := by
    decide +kernel
  intro e he hw
  have := List.all_eq_true.mp h e he
  simpa [hw] using this

/-- module-level functions that take a network and are not flagged in-place are never documented mutators with a
    hidden default: every flagged function defaults to `in_place=False` (methods `cleanup` default to `True`) -/
theorem C08_table_function_defaults :
    ∀ e ∈ ApiTable.functions, e.hasInPlace = true → e.defaultInPlace = false := by
  have h : ApiTable.functions.all (fun e => !e.hasInPlace || !e.defaultInPlace) = true := by
    decide +kernel
  intro e he hw
  have := List.all_eq_true.mp h e he
  simpa [hw] using this

/-! ### non-vacuity -/

private def ex1 : HG := ((stepCore ((stepCore HG.empty (.addEdge [.int 1, .int 2] (some (.int 0)) [("w", .sc (.int 1))])).map (·.1)
  |>.getD HG.empty) (.addNode (.str "iso") [])).map (·.1)).getD HG.empty
/-- same network, member set of edge 0 stored in the other order -/
private def ex1' : HG := { ex1 with mem := fun e => if e = .int 0 then [.int 2, .int 1] else ex1.mem e }

example : ex1.nodes = [.int 1, .int 2, .str "iso"] ∧ ex1.edges = [.int 0] ∧ ex1.uid = 1 := by decide
example : obs (.neighbors (.int 1)) ex1 = .set [.int 2] := by decide
example : obs .isolates ex1 = .set [.str "iso"] := by decide
example : obs (.members (.int 7)) ex1 = .notFound := by decide
example : obs .nextAutoId ex1 = .ids [.int 1] := by decide
example : snapshot ex1 ≠ snapshot ex1' := by decide
example : (snapshot ex1).Equiv (snapshot ex1') :=
  ⟨rfl, rfl, ⟨rfl, List.Perm.swap _ _ _, trivial⟩, ⟨rfl, .refl _, rfl, .refl _, rfl, .refl _, trivial⟩, rfl, rfl, rfl, rfl, rfl⟩
example : ApiTable.functions.length > 100 ∧ (ApiTable.functions.filter (·.hasInPlace)).length ≥ 2 := by decide +kernel
example : (ApiTable.methods.filter (fun e => e.astWrites && e.docMutator)).length > 50 := by decide +kernel

end Xgi.C08
