/-
  C12 — Matrix representations encode the network exactly.
  Property theorems only, about the functions of XgiModel/C12/Linalg.lean that the driver runs, for every
  network satisfying `Net.WF` (distinct node IDs, distinct edge IDs, members duplicate-free nodes).
  Vocabulary (XgiModel/C12/Lemmas*.lean): `ent M i k` = entry (i, k) of a list-of-rows matrix;
  `quadQ M x` = xᵀ M x; `pairs l` = the unordered pairs of a list; `edgesOf h o` = the (edge ID, members)
  pairs of the requested order in `H.edges` order.  Index maps: `rowdict = {i: rows[i]}`.

  Which theorems carry content and which are structural look-ups (the model's `incidence`, `tensorVal` already are
  closed forms) is listed in harness/props/c12.manifest.json.  Helper lemmas live in XgiModel/C12/Lemmas*.lean.
  The multi-order Laplacian is stated against `specMulti`, a textbook definition written from the counting
  functions `degOf` / `shared` only (not from the model's loop).

  NOT proved here (reported, not weakened silently):
  * sparse = dense (a fact about scipy; exhibited by the correspondence runs only);
  * the normalised Laplacian is modelled through its rational pieces M = H W De⁻¹ Hᵀ and Dv; the real matrix
    `realLap r` = δ_ik − M_ik / sqrt(Dv_i·Dv_k) (what the harness compares the implementation with) is defined in
    Lemmas/…Real from those pieces.  Proved: symmetry of M and of `realLap`, M·1 = Dv for unit weights, the
    sum-of-squares identity for D − M with the *weighted* degree D and all non-negative weights
    (`C12_normalized_textbook_psd`), and positive semidefiniteness over ℝ of `realLap` for unit weights
    (`C12_normalized_psd_real_partial`, via the congruence x = D^{1/2} y).
    FULL-STRENGTH STATEMENT (property text): "for non-negative edge weights the matrix returned by
    normalized_hypergraph_laplacian(weighted=True) is the textbook matrix and positive semidefinite".  It is
    FALSE for the code (and hence for the model, which describes the code as it is): the code normalises with
    the unweighted degree also when weighted=True (known finding C12 / normalized_hypergraph_laplacian, classes
    `normalized-not-psd@weighted-nonunit`, `normalized-not-textbook@weighted-nonunit` in known_findings/C12.json, not
    repaired because the repair contradicts the pinned test test_fix_647).  Hence the `_partial` theorems are
    restricted to unit weights; the negation of the full statement on the witness ({1,2} with weight 3) is
    the `example` block at the end.
-/
import XgiModel.C12.LemmasEntries

set_option linter.unnecessarySeqFocus false

namespace Xgi.C12
open Xgi

/-- number of edges of the requested order containing both n and m -/
def shared (h : Net) (o : Option Nat) (n m : PyId) : Nat :=
  ((edgesOf h o).filter (fun p => decide (n ∈ p.2 ∧ m ∈ p.2))).length
/-- number of edges of the requested order containing n -/
def degOf (h : Net) (o : Option Nat) (n : PyId) : Nat :=
  ((edgesOf h o).filter (fun p => decide (n ∈ p.2))).length
/-- yᵀ (Dv − M) y for the pieces of the normalised Laplacian; xᵀ L x = congQuad r (x_i / sqrt(Dv_i)) -/
def congQuad (r : Norm) (y : List ℚ) : ℚ := qdot r.dv (y.map (fun v => v * v)) - quadQ r.m y

/-! ### incidence matrix -/

/-- the index maps: nodes in `H.nodes` order and the edges of the requested order in `H.edges` order;
    the (0, 0) matrix with empty maps when there are no nodes or no such edges -/
theorem C12_incidence_index_maps (h : Net) (o : Option Nat) :
    (edgesOf h o ≠ [] ∧ h.nodes ≠ [] → (incidence h o).rows = h.nodes ∧
        (incidence h o).cols = (edgesOf h o).map (·.1) ∧ (incidence h o).mat.length = h.nodes.length ∧
        ∀ r ∈ (incidence h o).mat, r.length = (edgesOf h o).length) ∧
    (edgesOf h o = [] ∨ h.nodes = [] → incidence h o = ⟨[], [], []⟩) := by
  refine ⟨fun hd => ?_, incidence_deg h o⟩
  rw [incidence_nondeg h o hd.1 hd.2]
  refine ⟨rfl, rfl, by simp, ?_⟩
  intro r hr
  simp only [List.mem_map] at hr
  obtain ⟨n, _, rfl⟩ := hr
  simp

/-- with the returned index maps: entry (i, j) is 1 exactly when node rows[i] is a member of edge cols[j],
    and cols[j] is an edge of the requested order -/
theorem C12_incidence_spec (h : Net) (hwf : h.WF) (o : Option Nat) (i j : Nat) (n e : PyId)
    (hn : (incidence h o).rows[i]? = some n) (he : (incidence h o).cols[j]? = some e) :
    ent (incidence h o).mat i j = (if n ∈ h.members e then 1 else 0) ∧ e ∈ h.edgeIds ∧
      orderOK o (h.members e).length := by
  by_cases hd : edgesOf h o = [] ∨ h.nodes = []
  · rw [incidence_deg h o hd] at hn; simp at hn
  · push Not at hd
    rw [incidence_nondeg h o hd.1 hd.2] at hn he ⊢
    simp only at hn he ⊢
    obtain ⟨hi, hni⟩ := List.getElem?_eq_some_iff.mp hn
    rw [List.getElem?_map] at he
    cases hej : (edgesOf h o)[j]? with
    | none => simp [hej] at he
    | some p =>
      simp only [hej, Option.map_some, Option.some.injEq] at he
      obtain ⟨hj, hpj⟩ := List.getElem?_eq_some_iff.mp hej
      have hp : p ∈ edgesOf h o := hpj ▸ List.getElem_mem hj
      have hp' := (edgesOf_mem h o p).mp hp
      have hmem : h.members e = p.2 := he ▸ members_of_mem h hwf p hp'.1
      rw [ent_map_map _ _ _ i j hi hj, hni, hpj, hmem]
      exact ⟨rfl, List.mem_map.mpr ⟨p, hp'.1, he⟩, hp'.2⟩

/-- with a `weight` callback (`weight(node, edge, H)`, integer-valued; `w n e` below): same index maps, and entry
    (i, j) is the callback's value at (rows[i], cols[j]) when the node is a member of the edge, 0 otherwise -/
theorem C12_incidence_weighted_spec (h : Net) (hwf : h.WF) (o : Option Nat) (w : PyId → PyId → Int) (i j : Nat)
    (n e : PyId) (hn : (incidenceW h o w).rows[i]? = some n) (he : (incidenceW h o w).cols[j]? = some e) :
    ent (incidenceW h o w).mat i j = (if n ∈ h.members e then w n e else 0) ∧
      (incidenceW h o w).rows = (incidence h o).rows ∧ (incidenceW h o w).cols = (incidence h o).cols := by
  by_cases hd : edgesOf h o = [] ∨ h.nodes = []
  · rw [incidenceW_deg h o w hd] at hn; simp at hn
  · push Not at hd
    rw [incidence_nondeg h o hd.1 hd.2]
    rw [incidenceW_nondeg h o w hd.1 hd.2] at hn he ⊢
    refine ⟨?_, rfl, rfl⟩
    simp only at hn he ⊢
    obtain ⟨hi, hni⟩ := List.getElem?_eq_some_iff.mp hn
    rw [List.getElem?_map] at he
    cases hej : (edgesOf h o)[j]? with
    | none => simp [hej] at he
    | some p =>
      simp only [hej, Option.map_some, Option.some.injEq] at he
      obtain ⟨hj, hpj⟩ := List.getElem?_eq_some_iff.mp hej
      have hp : p ∈ edgesOf h o := hpj ▸ List.getElem_mem hj
      have hp' := (edgesOf_mem h o p).mp hp
      have hmem : h.members e = p.2 := he ▸ members_of_mem h hwf p hp'.1
      rw [ent_map_map _ _ _ i j hi hj, hni, hpj, hmem, ← he]
      rfl

/-- the default callback (constant 1) gives the unweighted incidence matrix -/
theorem C12_incidence_default_weight (h : Net) (o : Option Nat) : incidenceW h o (fun _ _ => 1) = incidence h o := rfl

/-! ### adjacency matrix (s ≥ 1) -/

theorem C12_adjacency_shape (h : Net) (hwf : h.WF) (o : Option Nat) (s : Int) (w : Bool) (hs : 1 ≤ s) :
    (adjacency h o s w).1.length = h.nodes.length ∧ ∀ r ∈ (adjacency h o s w).1, r.length = h.nodes.length := by
  rw [adjacency_eq h hwf.1 o s w hs]
  refine ⟨by simp, ?_⟩
  intro r hr
  simp only [List.mem_map] at hr
  obtain ⟨n, _, rfl⟩ := hr
  simp

/-- the index map is `H.nodes` in order (empty in the degenerate branch, where the matrix is all zero) -/
theorem C12_adjacency_index_map (h : Net) (o : Option Nat) (s : Int) (w : Bool) :
    (adjacency h o s w).2 = if edgesOf h o = [] ∨ h.nodes = [] then [] else h.nodes :=
  adjacency_labels h o s w

theorem C12_adjacency_symm (h : Net) (hwf : h.WF) (o : Option Nat) (s : Int) (w : Bool) (hs : 1 ≤ s) (i k : Nat) :
    ent (adjacency h o s w).1 i k = ent (adjacency h o s w).1 k i := by
  rw [adjacency_eq h hwf.1 o s w hs]
  by_cases hik : i < h.nodes.length ∧ k < h.nodes.length
  · rw [ent_map_map _ _ _ i k hik.1 hik.2, ent_map_map _ _ _ k i hik.2 hik.1]
    unfold adjF
    by_cases e : h.nodes[i] = h.nodes[k]
    · simp [e]
    · have e' : ¬ h.nodes[k] = h.nodes[i] := fun x => e x.symm
      simp [e, e', cnt_comm]
  · rw [ent_map_map_oob _ _ _ i k hik, ent_map_map_oob _ _ _ k i (fun hc => hik ⟨hc.2, hc.1⟩)]

theorem C12_adjacency_diag_zero (h : Net) (hwf : h.WF) (o : Option Nat) (s : Int) (w : Bool) (hs : 1 ≤ s) (i : Nat) :
    ent (adjacency h o s w).1 i i = 0 := by
  rw [adjacency_eq h hwf.1 o s w hs]
  by_cases hi : i < h.nodes.length
  · rw [ent_map_map _ _ _ i i hi hi]; simp [adjF, phi_zero s w hs]
  · rw [ent_map_map_oob _ _ _ i i (fun hc => hi hc.1)]

/-- off the diagonal: weighted entry = c·[c ≥ s], unweighted entry = [c ≥ s], where c is the number of
    edges of the requested order that contain both nodes -/
theorem C12_adjacency_count (h : Net) (hwf : h.WF) (o : Option Nat) (s : Int) (w : Bool) (hs : 1 ≤ s) (i k : Nat)
    (hi : i < h.nodes.length) (hk : k < h.nodes.length) (hik : i ≠ k) :
    ent (adjacency h o s w).1 i k =
      if s ≤ (shared h o h.nodes[i] h.nodes[k] : Int) then (if w then (shared h o h.nodes[i] h.nodes[k] : Int) else 1) else 0 := by
  rw [adjacency_eq h hwf.1 o s w hs, ent_map_map _ _ _ i k hi hk]
  have hne : h.nodes[i] ≠ h.nodes[k] := fun e => hik ((List.Nodup.getElem_inj_iff hwf.1).mp e)
  simp only [adjF, hne, if_false, phi, cnt_eq_length_filter]
  rfl

/-! ### degree vector, intersection profile, clique motif matrix -/

/-- entry i of the degree vector = number of edges of the requested order containing node i -/
theorem C12_degree_spec (h : Net) (o : Option Nat) :
    (degreeVec h o).1 = h.nodes.map (fun n => (degOf h o n : Int)) := by
  rw [degreeVec_eq]
  apply List.map_congr_left; intro n _
  rw [deg_eq_length_filter]; rfl

theorem C12_degree_index_map (h : Net) (o : Option Nat) :
    (degreeVec h o).2 = if edgesOf h o = [] ∨ h.nodes = [] then [] else h.nodes := by
  unfold degreeVec
  by_cases hd : edgesOf h o = [] ∨ h.nodes = []
  · rw [incidence_deg h o hd]; simp [hd]
  · have hd' := hd
    push Not at hd'
    rw [incidence_nondeg h o hd'.1 hd'.2]
    have : (h.nodes.map (fun n => (edgesOf h o).map (ind n))).isEmpty = false := by simp [hd'.2]
    simp [this, hd]

/-- entry (j, l) of the intersection profile = |e_j ∩ e_l| over the edges of the requested order -/
theorem C12_profile_spec (h : Net) (hwf : h.WF) (o : Option Nat) (j l : Nat)
    (hj : j < (edgesOf h o).length) (hl : l < (edgesOf h o).length) :
    ent (profile h o).1 j l
      = (((edgesOf h o)[j].2.filter (fun a => decide (a ∈ (edgesOf h o)[l].2))).length : Int) ∧
    (profile h o).2 = (incidence h o).cols := by
  refine ⟨?_, rfl⟩
  have hpj := edgesOf_good h hwf o _ (List.getElem_mem hj)
  have key : ∀ (mem : List PyId) (q : PyId × List PyId),
      (mem.map (fun a => ind a q)).sum = ((mem.filter (fun a => decide (a ∈ q.2))).length : Int) := by
    intro mem q
    induction mem with
    | nil => simp
    | cons a t ih =>
      simp only [List.map_cons, List.sum_cons, List.filter_cons, ih]
      by_cases ha : a ∈ q.2 <;> simp [ha, ind] <;> ring
  by_cases hn : h.nodes = []
  · have hempty : (edgesOf h o)[j].2 = [] := by
      cases hm : (edgesOf h o)[j].2 with
      | nil => rfl
      | cons a t => exact absurd (hpj.2.2 a (by simp [hm])) (by simp [hn])
    unfold profile
    rw [incidence_deg h o (Or.inr hn)]
    simp [transpose, mulT, ent, hempty]
  · rw [profile_eq h o hn, ent_map_map _ _ _ j l hj hl]
    have := sum_ind_mem (R := Int) h.nodes hwf.1 (edgesOf h o)[j].2 hpj.2.1 hpj.2.2
      (fun a => ind a (edgesOf h o)[l])
    rw [← key, ← this]
    congr 1

/-- the clique motif matrix is the weighted adjacency matrix over all orders: off the diagonal it counts the
    shared edges -/
theorem C12_clique_motif_spec (h : Net) (hwf : h.WF) (i k : Nat)
    (hi : i < h.nodes.length) (hk : k < h.nodes.length) (hik : i ≠ k) :
    ent (cliqueMotif h).1 i k = (shared h none h.nodes[i] h.nodes[k] : Int) := by
  unfold cliqueMotif
  rw [C12_adjacency_count h hwf none 1 true (le_refl 1) i k hi hk hik]
  simp only [if_true]
  split
  · rfl
  · omega

/-! ### order-d Laplacian  L = d·K − A -/

/-- entries of the integer Laplacian: d·(degree in order d) on the diagonal, −(shared order-d edges) off it -/
theorem C12_laplacian_entries (h : Net) (hwf : h.WF) (d : Nat) (i k : Nat)
    (hi : i < h.nodes.length) (hk : k < h.nodes.length) :
    ent (laplacianInt h d).1 i k =
      if i = k then (d : Int) * (degOf h (some d) h.nodes[i] : Int) else - (shared h (some d) h.nodes[i] h.nodes[k] : Int) := by
  rw [laplacianInt_eq h hwf.1, ent_map_map _ _ _ i k hi hk]
  unfold lapF
  by_cases e : i = k
  · subst e
    simp only [if_true, cnt_self, deg_eq_length_filter, degOf]; ring
  · have hne : h.nodes[i] ≠ h.nodes[k] := fun x => e ((List.Nodup.getElem_inj_iff hwf.1).mp x)
    simp only [hne, e, if_false, cnt_eq_length_filter, shared]; ring

/-- the matrix `laplacian` returns: the integer entries above, divided by d when `rescale_per_node` -/
theorem C12_laplacian_entries_rescaled (h : Net) (hwf : h.WF) (d : Nat) (rescale : Bool) (L : QMat × List PyId)
    (hL : laplacian h d rescale = some L) (i k : Nat) (hi : i < h.nodes.length) (hk : k < h.nodes.length) :
    ent L.1 i k = ((ent (laplacianInt h d).1 i k : Int) : ℚ) * (if rescale then ((d : ℚ))⁻¹ else 1) ∧
    L.2 = if edgesOf h (some d) = [] ∨ h.nodes = [] then [] else h.nodes := by
  obtain ⟨hform, _⟩ := laplacian_eq h hwf.1 d rescale L hL
  constructor
  · rw [hform, laplacianInt_eq h hwf.1, ent_map_map _ _ _ i k hi hk, ent_map_map _ _ _ i k hi hk]
  · have hne : h.nodes ≠ [] := fun e => by simp [e] at hi
    have he : (laplacianInt h d).1.isEmpty = false := by
      cases hc : (laplacianInt h d).1.isEmpty
      · rfl
      · exact absurd ((laplacianInt_isEmpty h hwf.1 d).mp hc) hne
    unfold laplacian at hL
    simp only [he, Bool.false_eq_true, if_false] at hL
    rw [← laplacianInt_labels h hwf.1 d]
    cases rescale with
    | false => simp at hL; rw [← hL]
    | true =>
      by_cases hd : d = 0
      · simp [hd] at hL
      · simp [hd] at hL; rw [← hL]

/-- `laplacian` is undefined exactly for rescale_per_node with order 0 on a non-empty network -/
theorem C12_laplacian_defined (h : Net) (hwf : h.WF) (d : Nat) (rescale : Bool) :
    laplacian h d rescale = none ↔ (rescale = true ∧ d = 0 ∧ h.nodes ≠ []) := by
  unfold laplacian
  dsimp only
  by_cases hn : h.nodes = []
  · have := (laplacianInt_isEmpty h hwf.1 d).mpr hn
    simp [this, hn]
  · have he : (laplacianInt h d).1.isEmpty = false := by
      cases hc : (laplacianInt h d).1.isEmpty
      · rfl
      · exact absurd ((laplacianInt_isEmpty h hwf.1 d).mp hc) hn
    have he' : (laplacianInt h d).1 ≠ [] := by
      intro hc; rw [hc] at he; simp at he
    by_cases hd : d = 0
    · subst hd; cases rescale <;> simp [he', hn]
    · cases rescale <;> simp [he', hn, hd]

theorem C12_laplacian_row_sums_zero (h : Net) (hwf : h.WF) (d : Nat) (rescale : Bool) (L : QMat × List PyId)
    (hL : laplacian h d rescale = some L) : ∀ r ∈ L.1, r.sum = 0 :=
  good_rows true h.nodes L.1 (laplacian_good h hwf d rescale L hL)

theorem C12_laplacian_symm (h : Net) (hwf : h.WF) (d : Nat) (rescale : Bool) (L : QMat × List PyId)
    (hL : laplacian h d rescale = some L) (i k : Nat) : ent L.1 i k = ent L.1 k i :=
  good_symm true h.nodes L.1 (laplacian_good h hwf d rescale L hL) i k

/-- xᵀ L x = Σ_e Σ_{a<b ∈ e} (x_a − x_b)² over the edges of order d (x any rational vector indexed by nodes) -/
theorem C12_laplacian_sum_of_squares (h : Net) (hwf : h.WF) (d : Nat) (L : QMat × List PyId)
    (hL : laplacian h d false = some L) (x : PyId → ℚ) :
    quadQ L.1 (h.nodes.map x)
      = ((edgesOf h (some d)).map (fun p => ((pairs p.2).map (fun ab => (x ab.1 - x ab.2) ^ 2)).sum)).sum := by
  obtain ⟨hform, _⟩ := laplacian_eq h hwf.1 d false L hL
  rw [hform, quadQ_map_map]
  simp only [Bool.false_eq_true, if_false, mul_one]
  exact lapF_quad h.nodes hwf.1 _ d (edgesOf_some_good h hwf d) x

/-- positive semidefinite (also when rescaled by 1/d) -/
theorem C12_laplacian_psd (h : Net) (hwf : h.WF) (d : Nat) (rescale : Bool) (L : QMat × List PyId)
    (hL : laplacian h d rescale = some L) (xs : List ℚ) (hx : xs.length = h.nodes.length) : 0 ≤ quadQ L.1 xs :=
  good_psd h.nodes hwf.1 L.1 (laplacian_good h hwf d rescale L hL) xs hx

/-! ### multi-order Laplacian -/

theorem C12_multiorder_length_mismatch (h : Net) (orders : List Nat) (weights : List ℚ) (rescale : Bool)
    (hne : orders.length ≠ weights.length) : multiorder h orders weights rescale = .errValue := by
  unfold multiorder; simp [hne]

theorem C12_multiorder_shape_index (h : Net) (hwf : h.WF) (orders : List Nat) (weights : List ℚ) (rescale : Bool)
    (L : QMat × List PyId) (hL : multiorder h orders weights rescale = .ok L) :
    L.2 = h.nodes ∧ L.1.length = h.nodes.length ∧ ∀ r ∈ L.1, r.length = h.nodes.length :=
  ⟨(multiorder_good false h hwf orders weights rescale (by simp) L hL).2,
   good_shape false h.nodes L.1 (multiorder_good false h hwf orders weights rescale (by simp) L hL).1⟩

theorem C12_multiorder_row_sums_zero (h : Net) (hwf : h.WF) (orders : List Nat) (weights : List ℚ) (rescale : Bool)
    (L : QMat × List PyId) (hL : multiorder h orders weights rescale = .ok L) : ∀ r ∈ L.1, r.sum = 0 :=
  good_rows false h.nodes L.1 (multiorder_good false h hwf orders weights rescale (by simp) L hL).1

theorem C12_multiorder_symm (h : Net) (hwf : h.WF) (orders : List Nat) (weights : List ℚ) (rescale : Bool)
    (L : QMat × List PyId) (hL : multiorder h orders weights rescale = .ok L) (i k : Nat) :
    ent L.1 i k = ent L.1 k i :=
  good_symm false h.nodes L.1 (multiorder_good false h hwf orders weights rescale (by simp) L hL).1 i k

/-- positive semidefinite for non-negative weights -/
theorem C12_multiorder_psd (h : Net) (hwf : h.WF) (orders : List Nat) (weights : List ℚ) (rescale : Bool)
    (hw : ∀ w ∈ weights, 0 ≤ w) (L : QMat × List PyId) (hL : multiorder h orders weights rescale = .ok L)
    (xs : List ℚ) (hx : xs.length = h.nodes.length) : 0 ≤ quadQ L.1 xs :=
  good_psd h.nodes hwf.1 L.1 (multiorder_good true h hwf orders weights rescale (fun _ => hw) L hL).1 xs hx

/-! #### the textbook definition (Lucas, Cencetti, Battiston 2020), written independently of the model's loop

  L^(multi) = Σ_d  γ_d / ⟨K^(d)⟩ · L^(d),   L^(d)_nm = d·K^(d)_n·δ_nm − A^(d)_nm   (each L^(d) divided by d when
  `rescale_per_node`), the sum running over the (order, weight) pairs that have at least one edge of that order;
  K^(d)_n = number of order-d edges containing n, A^(d)_nm = number of order-d edges containing both, ⟨K^(d)⟩ the mean
  of K^(d) over all nodes.  `specMulti` is built from the counting functions `degOf` / `shared` only. -/

/-- L^(d)_nm -/
def specLap (h : Net) (d : Nat) (n m : PyId) : ℚ :=
  if n = m then (d : ℚ) * (degOf h (some d) n : ℚ) else - (shared h (some d) n m : ℚ)
/-- ⟨K^(d)⟩ -/
def specMeanDeg (h : Net) (d : Nat) : ℚ :=
  (h.nodes.map (fun n => (degOf h (some d) n : ℚ))).sum / (h.nodes.length : ℚ)
/-- L^(multi)_nm -/
def specMulti (h : Net) (orders : List Nat) (weights : List ℚ) (rescale : Bool) (n m : PyId) : ℚ :=
  ((orders.zip weights).map (fun dw =>
    if edgesOf h (some dw.1) = [] then 0
    else dw.2 / specMeanDeg h dw.1 * (specLap h dw.1 n m * (if rescale then ((dw.1 : ℚ))⁻¹ else 1)))).sum

/-- the multi-order Laplacian equals its textbook definition, entry by entry -/
theorem C12_multiorder_entries (h : Net) (hwf : h.WF) (orders : List Nat) (weights : List ℚ) (rescale : Bool)
    (L : QMat × List PyId) (hL : multiorder h orders weights rescale = .ok L) (i k : Nat)
    (hi : i < h.nodes.length) (hk : k < h.nodes.length) :
    ent L.1 i k = specMulti h orders weights rescale h.nodes[i] h.nodes[k] := by
  rw [multiorder_entries h hwf.1 orders weights rescale L hL, ent_map_map _ _ _ i k hi hk]
  unfold specMulti
  congr 1
  apply List.map_congr_left; intro dw _
  unfold termF
  by_cases he : edgesOf h (some dw.1) = []
  · simp [(degreeVec_all_zero_iff h hwf dw.1).mpr he, he]
  · have hz : ¬ (degreeVec h (some dw.1)).1.all (· == 0) = true := fun hc => he ((degreeVec_all_zero_iff h hwf dw.1).mp hc)
    rw [if_neg hz, if_neg he]
    have hmean : mean (degreeVec h (some dw.1)).1 = specMeanDeg h dw.1 := by
      unfold mean specMeanDeg
      rw [C12_degree_spec, cast_sum_map]
      simp
    have hlap : ((lapF (edgesOf h (some dw.1)) dw.1 h.nodes[i] h.nodes[k] : Int) : ℚ) = specLap h dw.1 h.nodes[i] h.nodes[k] := by
      unfold lapF specLap
      by_cases e : h.nodes[i] = h.nodes[k]
      · simp only [e, if_true, cnt_self, deg_eq_length_filter, degOf]; push_cast; ring
      · simp only [e, if_false, cnt_eq_length_filter, shared]; push_cast; ring
    rw [hmean, hlap]
    ring

/-! ### normalised Laplacian: the rational pieces M = H W De⁻¹ Hᵀ and Dv -/

/-- entries of the pieces: M_ik = Σ_e [n_i ∈ e][n_k ∈ e] · w(e)/|e| over the edges with the weights the code uses
    (`weight` attribute, default 1, when `weighted`; 1 otherwise), and Dv_i = the (unweighted) degree of n_i —
    the returned matrix is δ_ik − M_ik / sqrt(Dv_i·Dv_k) -/
theorem C12_normalized_entries (h : Net) (hwf : h.WF) (weighted : Bool) (ws : List (Option ℚ)) (r : Norm)
    (hr : normalized h weighted ws = .ok r) (i k : Nat) (hi : i < h.nodes.length) (hk : k < h.nodes.length) :
    ent r.m i k = ((h.edges.zip (weightsOf h weighted ws)).map (fun pw =>
        if h.nodes[i] ∈ pw.1.2 ∧ h.nodes[k] ∈ pw.1.2 then pw.2 / (pw.1.2.length : ℚ) else 0)).sum ∧
    r.dv[i]? = some ((degOf h none h.nodes[i] : Nat) : ℚ) := by
  obtain ⟨hm, hdv, _, _, _⟩ := normalized_eq h hwf weighted ws r hr
  constructor
  · rw [hm, ent_map_map _ _ _ i k hi hk]
    unfold normF
    congr 1
    apply List.map_congr_left; intro pw _
    unfold iq
    by_cases h1 : h.nodes[i] ∈ pw.1.2 <;> by_cases h2 : h.nodes[k] ∈ pw.1.2 <;> simp [h1, h2]
  · rw [hdv, List.getElem?_map, List.getElem?_eq_getElem hi]
    simp only [Option.map_some, Option.some.injEq]
    rw [deg_eq_length_filter]; simp [degOf, edgesOf]


/-- M is symmetric (hence so is I − Dv^{-1/2} M Dv^{-1/2}); the index map is `H.nodes`; Dv is the degree -/
theorem C12_normalized_symm (h : Net) (hwf : h.WF) (weighted : Bool) (ws : List (Option ℚ)) (r : Norm)
    (hr : normalized h weighted ws = .ok r) (i k : Nat) :
    ent r.m i k = ent r.m k i ∧ r.rows = h.nodes ∧ r.dv = h.nodes.map (fun n => ((degOf h none n : Nat) : ℚ)) := by
  obtain ⟨hm, hdv, hrows, _, _⟩ := normalized_eq h hwf weighted ws r hr
  refine ⟨?_, hrows, ?_⟩
  · rw [hm]
    by_cases hik : i < h.nodes.length ∧ k < h.nodes.length
    · rw [ent_map_map _ _ _ i k hik.1 hik.2, ent_map_map _ _ _ k i hik.2 hik.1, normF_symm]
    · rw [ent_map_map_oob _ _ _ i k hik, ent_map_map_oob _ _ _ k i (fun hc => hik ⟨hc.2, hc.1⟩)]
  · rw [hdv]
    apply List.map_congr_left; intro n _
    rw [deg_eq_length_filter]; simp [degOf, edgesOf]

/-- with every weight 1 (in particular `weighted = False`), each row of M sums to the node's degree:
    M·1 = Dv, i.e. sqrt(Dv) is in the kernel of I − Dv^{-1/2} M Dv^{-1/2} -/
theorem C12_normalized_kernel_partial (h : Net) (hwf : h.WF) (weighted : Bool) (ws : List (Option ℚ)) (r : Norm)
    (hr : normalized h weighted ws = .ok r)
    (hone : ∀ x ∈ weightsOf h weighted ws, x = 1) (hlen : (weightsOf h weighted ws).length = h.edges.length) :
    r.m.map List.sum = r.dv := by
  obtain ⟨hm, hdv, _, _, hnz⟩ := normalized_eq h hwf weighted ws r hr
  rw [hm, hdv, List.map_map]
  apply List.map_congr_left; intro n hn
  simp only [Function.comp_apply]
  rw [normF_rowsum h.nodes hwf.1 _ (zw_good h hwf _ (hnz (List.ne_nil_of_mem hn))), degW_ones _ _ hone hlen]

/-- the textbook form: with the *weighted* degree D(n) = Σ_e w(e) h(n, e), D − M is positive semidefinite for
    all non-negative weights: Σ_n D(n) y_n² − yᵀ M y = Σ_e (w_e/|e|) Σ_{a<b ∈ e} (y_a − y_b)² ≥ 0 -/
theorem C12_normalized_textbook_psd (h : Net) (hwf : h.WF) (weighted : Bool) (ws : List (Option ℚ)) (r : Norm)
    (hr : normalized h weighted ws = .ok r) (hw : ∀ x ∈ weightsOf h weighted ws, 0 ≤ x) (y : PyId → ℚ) :
    (h.nodes.map (fun n => degW (h.edges.zip (weightsOf h weighted ws)) n * (y n * y n))).sum
        - quadQ r.m (h.nodes.map y)
      = ((h.edges.zip (weightsOf h weighted ws)).map (fun pw => pw.2 / (pw.1.2.length : ℚ) *
          ((pairs pw.1.2).map (fun ab => (y ab.1 - y ab.2) ^ 2)).sum)).sum ∧
    0 ≤ (h.nodes.map (fun n => degW (h.edges.zip (weightsOf h weighted ws)) n * (y n * y n))).sum
        - quadQ r.m (h.nodes.map y) := by
  obtain ⟨hm, _, _, _, hnz⟩ := normalized_eq h hwf weighted ws r hr
  by_cases hn : h.nodes = []
  · have hall : ∀ p ∈ h.edges, p.2 = [] := by
      intro p hp
      cases hm' : p.2 with
      | nil => rfl
      | cons a t => exact absurd ((hwf.2.2 p hp).2 a (by simp [hm'])) (by simp [hn])
    have hz : ((h.edges.zip (weightsOf h weighted ws)).map (fun pw => pw.2 / (pw.1.2.length : ℚ) *
          ((pairs pw.1.2).map (fun ab => (y ab.1 - y ab.2) ^ 2)).sum)) =
        (h.edges.zip (weightsOf h weighted ws)).map (fun _ => (0 : ℚ)) := by
      apply List.map_congr_left; intro pw hpw
      rw [hall pw.1 (List.of_mem_zip hpw).1]; simp [pairs]
    rw [hm, hz]
    simp [hn, quadQ, qdot]
  · have hz := zw_good h hwf (weightsOf h weighted ws) (hnz hn)
    have hq := normF_quad h.nodes hwf.1 _ hz y
    have hsplit : quadF h.nodes (fun n m => (if n = m then degW (h.edges.zip (weightsOf h weighted ws)) n else 0)
          - normF (h.edges.zip (weightsOf h weighted ws)) n m) y
        = (h.nodes.map (fun n => degW (h.edges.zip (weightsOf h weighted ws)) n * (y n * y n))).sum
          - quadQ r.m (h.nodes.map y) := by
      rw [hm, quadQ_map_map]
      unfold quadF
      rw [← sum_map_sub']
      congr 1
      apply List.map_congr_left; intro n hn'
      simp only [sub_mul]
      rw [sum_map_sub']
      have e1 : (h.nodes.map (fun m => (if n = m then degW (h.edges.zip (weightsOf h weighted ws)) n else 0) * y m))
          = h.nodes.map (fun m => if n = m then degW (h.edges.zip (weightsOf h weighted ws)) n * y m else 0) := by
        apply List.map_congr_left; intro m _; split <;> simp
      rw [e1, sum_map_ite_eq h.nodes hwf.1 n hn' (fun m => degW (h.edges.zip (weightsOf h weighted ws)) n * y m)]
      ring
    rw [← hsplit]
    refine ⟨hq, ?_⟩
    exact normF_quad_nonneg h.nodes hwf.1 _ hz (fun pw hpw => hw pw.2 (List.of_mem_zip hpw).2) y

/-- PARTIAL (see header): with every weight 1 the code's pieces satisfy yᵀ (Dv − M) y ≥ 0 for every vector,
    i.e. I − Dv^{-1/2} M Dv^{-1/2} is positive semidefinite (substitute y_i = x_i / sqrt(Dv_i)).
    Not true of the code for other weights: see the last example. -/
theorem C12_normalized_psd_partial (h : Net) (hwf : h.WF) (weighted : Bool) (ws : List (Option ℚ)) (r : Norm)
    (hr : normalized h weighted ws = .ok r)
    (hone : ∀ x ∈ weightsOf h weighted ws, x = 1) (hlen : (weightsOf h weighted ws).length = h.edges.length)
    (ys : List ℚ) (hy : ys.length = h.nodes.length) : 0 ≤ congQuad r ys := by
  obtain ⟨y, rfl⟩ := exists_fun_of_list h.nodes hwf.1 ys hy
  obtain ⟨_, hdv, _, _, _⟩ := normalized_eq h hwf weighted ws r hr
  have hpsd := (C12_normalized_textbook_psd h hwf weighted ws r hr (fun x hx => by rw [hone x hx]; norm_num) y).2
  unfold congQuad
  rw [hdv, List.map_map, qdot_map_map]
  have : (h.nodes.map (fun n => ((deg h.edges n : Int) : ℚ) * (fun v => v * v) (y n)))
      = h.nodes.map (fun n => degW (h.edges.zip (weightsOf h weighted ws)) n * (y n * y n)) := by
    apply List.map_congr_left; intro n _
    rw [degW_ones _ _ hone hlen]
  simp only [Function.comp_apply] at this ⊢
  rw [this]
  exact hpsd

theorem C12_normalized_real_symm (h : Net) (hwf : h.WF) (weighted : Bool) (ws : List (Option ℚ)) (r : Norm)
    (hr : normalized h weighted ws = .ok r) (i k : Nat) : ent (realLap r) i k = ent (realLap r) k i := by
  obtain ⟨hm, hdv, _, _, _⟩ := normalized_eq h hwf weighted ws r hr
  rw [realLap_eq h.nodes hwf.1 r _ _ hm hdv]
  by_cases hik : i < h.nodes.length ∧ k < h.nodes.length
  · rw [ent_map_map _ _ _ i k hik.1 hik.2, ent_map_map _ _ _ k i hik.2 hik.1, normF_symm, mul_comm]
    by_cases e : h.nodes[i] = h.nodes[k]
    · simp [e]
    · have e' : ¬ h.nodes[k] = h.nodes[i] := fun x => e x.symm
      simp [e, e']
  · rw [ent_map_map_oob _ _ _ i k hik, ent_map_map_oob _ _ _ k i (fun hc => hik ⟨hc.2, hc.1⟩)]

/-- PARTIAL, over ℝ, the matrix the harness compares the implementation with
    (`realLap r` = δ_ik − M_ik / sqrt(Dv_i·Dv_k)): with every weight 1 the normalised Laplacian is positive
    semidefinite.  (Restricted to unit weights because it is false of the code otherwise, see header.) -/
theorem C12_normalized_psd_real_partial (h : Net) (hwf : h.WF) (weighted : Bool) (ws : List (Option ℚ)) (r : Norm)
    (hr : normalized h weighted ws = .ok r)
    (hone : ∀ x ∈ weightsOf h weighted ws, x = 1) (hlen : (weightsOf h weighted ws).length = h.edges.length)
    (xs : List ℝ) (hx : xs.length = h.nodes.length) : 0 ≤ quadR (realLap r) xs := by
  obtain ⟨x, rfl⟩ := exists_fun_of_list h.nodes hwf.1 xs hx
  obtain ⟨hm, hdv, _, hcov, hnz⟩ := normalized_eq h hwf weighted ws r hr
  rw [realLap_eq h.nodes hwf.1 r _ _ hm hdv, quadR_map_map]
  by_cases hn : h.nodes = []
  · simp [hn, quadF]
  have hz := zw_good h hwf (weightsOf h weighted ws) (hnz hn)
  have hw : ∀ pw ∈ h.edges.zip (weightsOf h weighted ws), 0 ≤ pw.2 := by
    intro pw hpw; rw [hone pw.2 (List.of_mem_zip hpw).2]; norm_num
  obtain ⟨hz', hw'⟩ := castW_good h.nodes _ hz hw
  have hD : ∀ n ∈ h.nodes, (1 : ℝ) ≤ (((deg h.edges n : Int) : ℚ) : ℝ) := by
    intro n hn'
    obtain ⟨p, hp, hnp⟩ := hcov n hn'
    exact_mod_cast deg_pos_of_mem h.edges n p hp hnp
  rw [quadF_congr h.nodes _ (fun n m => (if n = m then (1 : ℝ) else 0)
      - ((normF (h.edges.zip (weightsOf h weighted ws)) n m : ℚ) : ℝ)
        / (Real.sqrt (((deg h.edges n : Int) : ℚ) : ℝ) * Real.sqrt (((deg h.edges m : Int) : ℚ) : ℝ))) x
    (by
      intro n hn' m _
      have h0 : (0 : ℝ) ≤ ((deg h.edges n : Int) : ℝ) := by
        have := le_trans zero_le_one (hD n hn'); exact_mod_cast this
      push_cast
      rw [Real.sqrt_mul h0])]
  rw [quadF_congruence h.nodes (fun n => (((deg h.edges n : Int) : ℚ) : ℝ))
    (fun n => Real.sqrt (((deg h.edges n : Int) : ℚ) : ℝ)) _
    (by
      intro n hn'
      have h1 := hD n hn'
      exact ⟨Real.sqrt_pos.mpr (by linarith), Real.mul_self_sqrt (by linarith)⟩) x]
  rw [quadF_congr h.nodes _ (fun n m => (if n = m then degW (castW (h.edges.zip (weightsOf h weighted ws))) n else 0)
      - normF (castW (h.edges.zip (weightsOf h weighted ws))) n m) _
    (by
      intro n _ m _
      rw [← cast_normF, ← cast_degW, degW_ones _ _ hone hlen])]
  exact normF_quad_nonneg h.nodes hwf.1 _ hz' hw' _

/-! ### adjacency tensor -/

/-- every index tuple over the nodes occurs in the tensor, and only those -/
theorem C12_tensor_indices (h : Net) (d : Nat) (nm : Bool) (t : List Nat) :
    t ∈ (tensor h d nm).1.map (·.1) ↔ t.length = d + 1 ∧ ∀ i ∈ t, i < h.nodes.length := by
  unfold tensor
  dsimp only
  split <;> simp [List.map_map, Function.comp_def, tuples_mem]

/-- layout of the flattened array: it has N^(d+1) entries and the entry listed with index tuple `t` sits at the
    row-major (C order) position Σ_j t_j·N^(d−j) — so `T[t_0, …, t_d]` of the numpy array of shape (N,)*(d+1) that the
    harness flattens is the value the model lists with `t` -/
theorem C12_tensor_position (h : Net) (d : Nat) (nm : Bool) (t : List Nat) (ht : t.length = d + 1)
    (hlt : ∀ i ∈ t, i < h.nodes.length) :
    ((tensor h d nm).1[flatIndex h.nodes.length t]?).map (·.1) = some t ∧
      (tensor h d nm).1.length = h.nodes.length ^ (d + 1) := by
  have key : (tensor h d nm).1.map (·.1) = tuples h.nodes.length (d + 1) := by
    unfold tensor
    dsimp only
    split <;> simp [List.map_map, Function.comp_def]
  constructor
  · rw [← List.getElem?_map, key, ← ht]
    exact tuples_getElem h.nodes.length t hlt
  · rw [← List.length_map (f := (·.1)), key, tuples_length]

/-- the index map is `H.nodes` in order (empty when there is no edge of order d or no node, where the tensor is all zero) -/
theorem C12_tensor_index_map (h : Net) (d : Nat) (nm : Bool) :
    (tensor h d nm).2 = if edgesOf h (some d) = [] ∨ h.nodes = [] then [] else h.nodes := by
  unfold tensor
  dsimp only
  by_cases hd : edgesOf h (some d) = [] ∨ h.nodes = []
  · have := (incidence_mat_isEmpty h (some d)).mpr hd
    simp [this, hd]
  · have hne : (incidence h (some d)).mat.isEmpty = false := by
      cases hc : (incidence h (some d)).mat.isEmpty
      · rfl
      · exact absurd ((incidence_mat_isEmpty h (some d)).mp hc) hd
    have hd' := hd
    push Not at hd'
    simp only [hne, Bool.false_eq_true, if_false, hd]
    rw [incidence_nondeg h (some d) hd'.1 hd'.2]

/-- an entry is non-zero exactly when its index tuple is a permutation of the members of an order-d edge;
    non-zero entries are 1 (1/d! when normalised) -/
theorem C12_tensor_spec (h : Net) (d : Nat) (nm : Bool) (t : List Nat) (v : ℚ) (hm : (t, v) ∈ (tensor h d nm).1) :
    (v ≠ 0 ↔ ∃ p ∈ edgesOf h (some d), (t.map (fun i => h.nodes.getD i PyId.none)).Perm p.2) ∧
    (v = 0 ∨ v = if nm then 1 / (fact d : ℚ) else 1) := by
  unfold tensor at hm
  dsimp only at hm
  split at hm
  · rename_i hdeg
    simp only [List.mem_map, Prod.mk.injEq] at hm
    obtain ⟨t', ht', rfl, rfl⟩ := hm
    refine ⟨?_, Or.inl rfl⟩
    simp only [ne_eq, not_true_eq_false, false_iff, not_exists, not_and]
    intro p hp
    rcases (incidence_mat_isEmpty h (some d)).mp hdeg with he | hn
    · rw [he] at hp; simp at hp
    · have := ((tuples_mem _ _ _).mp ht')
      rw [hn] at this
      cases t' with
      | nil => simp at this
      | cons i s => exact absurd (this.2 i (by simp)) (by simp)
  · simp only [List.mem_map, Prod.mk.injEq] at hm
    obtain ⟨t', _, rfl, rfl⟩ := hm
    refine ⟨tensorVal_ne_zero h d nm t', ?_⟩
    unfold tensorVal
    split
    · exact Or.inr rfl
    · exact Or.inl rfl

/-! ### non-vacuity and concrete evaluations -/

private def demo : Net :=
  { nodes := [.str "a", .str "b", .str "c", .str "d"],
    edges := [(.int 0, [.str "a"]), (.int 1, [.str "a", .str "b"]), (.int 2, [.str "a", .str "b"]),
              (.int 3, [.str "a", .str "b", .str "c"])] }

example : demo.WF := by
  refine ⟨by decide, by decide, ?_⟩
  intro p hp
  simp only [demo, List.mem_cons, List.not_mem_nil, or_false] at hp
  rcases hp with rfl | rfl | rfl | rfl <;> exact ⟨by decide, by decide⟩

example : (incidence demo (some 1)).mat = [[1, 1], [1, 1], [0, 0], [0, 0]] := by decide
example : (incidence demo (some 1)).cols = [.int 1, .int 2] := by decide
example : (incidence demo (some 3)).mat = [] := by decide
example : (adjacency demo none 2 true).1 = [[0, 3, 0, 0], [3, 0, 0, 0], [0, 0, 0, 0], [0, 0, 0, 0]] := by decide
example : (adjacency demo none 2 false).1 = [[0, 1, 0, 0], [1, 0, 0, 0], [0, 0, 0, 0], [0, 0, 0, 0]] := by decide
example : (adjacency demo (some 3) 1 true) = ([[0, 0, 0, 0], [0, 0, 0, 0], [0, 0, 0, 0], [0, 0, 0, 0]], []) := by decide
example : (degreeVec demo (some 1)).1 = [2, 2, 0, 0] := by decide
example : (profile demo none).1 = [[1, 1, 1, 1], [1, 2, 2, 2], [1, 2, 2, 2], [1, 2, 2, 3]] := by decide
example : (laplacianInt demo 2).1 = [[2, -1, -1, 0], [-1, 2, -1, 0], [-1, -1, 2, 0], [0, 0, 0, 0]] := by decide
example : shared demo none (.str "a") (.str "b") = 3 := by decide
example : pairs [1, 2, 3] = [(1, 2), (1, 3), (2, 3)] := by decide

/-- the witness of the known finding: one edge {1, 2} with weight 3 -/
private def wit : Net := { nodes := [.int 1, .int 2], edges := [(.int 0, [.int 1, .int 2])] }
private def witR : Norm := ⟨[[3/2, 3/2], [3/2, 3/2]], [1, 1], [.int 1, .int 2]⟩

example : wit.WF := by
  refine ⟨by decide, by decide, ?_⟩
  intro p hp
  simp only [wit, List.mem_cons, List.not_mem_nil, or_false] at hp
  subst hp; exact ⟨by decide, by decide⟩

/-- the model (= the code) on the witness … -/
example : normalized wit true [some 3] = .ok witR := by
  simp [normalized, wit, witR, incidence, edgesOf, transpose, ind, dot3]
/-- … violates the full-strength statement: yᵀ (Dv − M) y = −4 < 0 for y = (1, 1), i.e. xᵀ L x = −4 for
    x = (1, 1) (Dv = (1, 1)): the matrix returned for non-negative weights is not positive semidefinite -/
example : congQuad witR [1, 1] = -4 := by norm_num [congQuad, witR, qdot, quadQ]
/-- while with weight 1 the same network satisfies the partial theorem's conclusion with equality at (1, 1) -/
example : normalized wit true [some 1] = .ok ⟨[[1/2, 1/2], [1/2, 1/2]], [1, 1], [.int 1, .int 2]⟩ := by
  simp [normalized, wit, incidence, edgesOf, transpose, ind, dot3]

example : laplacian demo 0 true = none := by
  rw [C12_laplacian_defined demo (by
    refine ⟨by decide, by decide, ?_⟩
    intro p hp
    simp only [demo, List.mem_cons, List.not_mem_nil, or_false] at hp
    rcases hp with rfl | rfl | rfl | rfl <;> exact ⟨by decide, by decide⟩)]
  exact ⟨rfl, rfl, by decide⟩
example : (incidenceW demo (some 1) (fun n e => if n = .str "a" ∧ e = .int 2 then 7 else -2)).mat
    = [[-2, 7], [-2, -2], [0, 0], [0, 0]] := by decide
/-- order 1: two edges {a,b}, K = (2,2,0,0), ⟨K⟩ = 1; order 2: one edge {a,b,c}, K = (1,1,1,0), ⟨K⟩ = 3/4 -/
example : specMulti demo [1, 2] [1, 1/2] false (.str "a") (.str "b") = -2 - 2/3 := by
  simp [specMulti, specLap, specMeanDeg, degOf, shared, demo, edgesOf]; norm_num
example : flatIndex 4 [1, 0, 2] = 18 := by decide
example : ((tensor demo 2 false).1[flatIndex 4 [1, 0, 2]]?) = some ([1, 0, 2], 1) := by decide
example : (multiorder demo [1, 2] [1] false matches .errValue) = true := by decide
example : (multiorder demo [1, 2] [1, 1/2] true matches .ok _) = true := by decide

end Xgi.C12
