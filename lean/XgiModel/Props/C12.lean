import XgiModel.C12.Linalg
namespace Xgi.C12
theorem C12_stub : True := trivial
end Xgi.C12
