import XgiModel.C02.DHG
namespace Xgi.C02
theorem placeholder : True := trivial
end Xgi.C02
