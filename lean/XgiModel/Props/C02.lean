/-
  C02 — Directed incidence integrity (tail/head vs out/in) under every edit history.
  Property theorems only; the model is C02/DHG.lean (the functions the driver `DHG` runs), helper lemmas
  live in C02/Lemmas.lean.

  Reading of the model's fields (checked against xgi/core/dihypergraph.py and views.py):
    tail e    = `DH.edges.tail(e)`  = `_edge[e]["in"]`      head e   = `DH.edges.head(e)` = `_edge[e]["out"]`
    membOut n = `DH.nodes.dimemberships(n)[1]` = `_node[n]["out"]`  (edges with n in the tail)
    membIn n  = `DH.nodes.dimemberships(n)[0]` = `_node[n]["in"]`   (edges with n in the head)
-/
import XgiModel.C02.Lemmas

namespace Xgi.C02
open Xgi Xgi.DHG

/-- run a history of public calls; `none` only when an op falls outside the model
    (tuple edge IDs / non-sequence members in the first element of a bulk addition) -/
def run : DHG → List Op → Option DHG
  | s, [] => some s
  | s, op :: ops => match step s op with
    | none => none
    | some r => run r.1 ops

/-- the states reachable from the empty dihypergraph by public calls (returning or raising) -/
inductive Reachable : DHG → Prop
  | empty : Reachable DHG.empty
  | step {s : DHG} {op : Op} {r : DHG × Outcome} : Reachable s → step s op = some r → Reachable r.1

/-- one call — whether it returns (`ok`/`warned`) or raises (`err _`) — preserves the invariant
    (directed two-way incidence + one attribute record per ID + counter above all integer edge IDs) -/
theorem C02_step {s : DHG} (h : Inv s) (op : Op) (r : DHG × Outcome) (hr : step s op = some r) : Inv r.1 :=
  step_inv h op r hr

/-- every reachable state satisfies the invariant -/
theorem C02_reachable {s : DHG} (h : Reachable s) : Inv s := by
  induction h with
  | empty => exact empty_inv
  | step _ hr ih => exact C02_step ih _ _ hr

/-- after any finite history -/
theorem C02_history (ops : List Op) (s s' : DHG) (h : Inv s) (hr : run s ops = some s') : Inv s' := by
  induction ops generalizing s with
  | nil => simp [run] at hr; subst hr; exact h
  | cons op ops ih =>
    simp only [run] at hr
    split at hr
    · cases hr
    · rename_i r hs; exact ih r.1 (C02_step h op r hs) hr

/-- … and after every prefix of it -/
theorem C02_prefix (ops : List Op) (s' : DHG) (hr : run DHG.empty ops = some s') (k : Nat) :
    ∃ t, run DHG.empty (ops.take k) = some t ∧ WFd t := by
  have key : ∀ (ops : List Op) (s s' : DHG), Inv s → run s ops = some s' → ∀ k, ∃ t, run s (ops.take k) = some t ∧ WFd t := by
    intro ops
    induction ops with
    | nil => intro s s' h _ k; exact ⟨s, by simp [run], h.1⟩
    | cons op ops ih =>
      intro s s' h hr k
      cases k with
      | zero => exact ⟨s, by simp [run], h.1⟩
      | succ k =>
        simp only [run] at hr
        split at hr
        · cases hr
        · rename_i r hs
          obtain ⟨t, ht, hw⟩ := ih r.1 s' (C02_step h op r hs) hr k
          exact ⟨t, by simp [run, hs, ht], hw⟩
  exact key ops DHG.empty s' empty_inv hr k

/-- a node is reported in the tail of an edge exactly when that edge is among its out-memberships -/
theorem C02_iff_tail {s : DHG} (h : Reachable s) {n e : PyId} (hn : n ∈ s.nodes) (he : e ∈ s.edges) :
    n ∈ s.tail e ↔ e ∈ s.membOut n :=
  ⟨fun hm => ((C02_reachable h).1.tail2out e he n hm).2, fun hm => ((C02_reachable h).1.out2tail n hn e hm).2⟩

/-- a node is reported in the head of an edge exactly when that edge is among its in-memberships -/
theorem C02_iff_head {s : DHG} (h : Reachable s) {n e : PyId} (hn : n ∈ s.nodes) (he : e ∈ s.edges) :
    n ∈ s.head e ↔ e ∈ s.membIn n :=
  ⟨fun hm => ((C02_reachable h).1.head2in e he n hm).2, fun hm => ((C02_reachable h).1.in2head n hn e hm).2⟩

/-- no node refers to an absent edge: every edge listed in a node's in- or out-memberships exists
    (in particular after strong node removal, which is an op like any other) -/
theorem C02_no_dangling {s : DHG} (h : Reachable s) {n : PyId} (hn : n ∈ s.nodes) :
    ∀ e ∈ s.membIn n ++ s.membOut n, e ∈ s.edges := by
  intro e he
  rcases List.mem_append.mp he with he | he
  · exact ((C02_reachable h).1.in2head n hn e he).1
  · exact ((C02_reachable h).1.out2tail n hn e he).1

/-- no edge refers to an absent node: every node listed in an edge's tail or head exists -/
theorem C02_members_are_nodes {s : DHG} (h : Reachable s) {e : PyId} (he : e ∈ s.edges) :
    ∀ n ∈ s.tail e ++ s.head e, n ∈ s.nodes := by
  intro n hn
  rcases List.mem_append.mp hn with hn | hn
  · exact ((C02_reachable h).1.tail2out e he n hn).1
  · exact ((C02_reachable h).1.head2in e he n hn).1

/-- the state right after a strong node removal (whatever it returned) has no dangling membership and no
    edge that still lists the removed node -/
theorem C02_strong_removal {s : DHG} (h : Reachable s) (n : PyId) (re : Bool) (r : DHG × Outcome)
    (hr : step s (.removeNode n true re) = some r) :
    (∀ m ∈ r.1.nodes, ∀ e ∈ r.1.membIn m ++ r.1.membOut m, e ∈ r.1.edges) ∧
    (∀ e ∈ r.1.edges, ∀ m ∈ r.1.tail e ++ r.1.head e, m ∈ r.1.nodes) :=
  have h' : Reachable r.1 := Reachable.step h hr
  ⟨fun _ hm => C02_no_dangling h' hm, fun _ he => C02_members_are_nodes h' he⟩

/-- every node and every edge has exactly one attribute record (and nothing else has one) -/
theorem C02_one_attr_record {s : DHG} (h : Reachable s) :
    (∀ n, n ∈ s.nattrK ↔ n ∈ s.nodes) ∧ s.nattrK.Nodup ∧ (∀ e, e ∈ s.eattrK ↔ e ∈ s.edges) ∧ s.eattrK.Nodup :=
  let w := (C02_reachable h).1
  ⟨w.attrN, w.nodupNK, w.attrE, w.nodupEK⟩

/-- `None` is never a node or an edge; IDs and set entries are never listed twice -/
theorem C02_ids_wellformed {s : DHG} (h : Reachable s) :
    PyId.none ∉ s.nodes ∧ PyId.none ∉ s.edges ∧ s.nodes.Nodup ∧ s.edges.Nodup ∧
    (∀ n ∈ s.nodes, (s.membIn n).Nodup ∧ (s.membOut n).Nodup) ∧
    (∀ e ∈ s.edges, (s.tail e).Nodup ∧ (s.head e).Nodup) :=
  let w := (C02_reachable h).1
  ⟨w.noNoneN, w.noNoneE, w.nodupN, w.nodupE, fun n hn => ⟨w.setIn n hn, w.setOut n hn⟩,
   fun e he => ⟨w.setTail e he, w.setHead e he⟩⟩

/-- automatic edge IDs never collide with an existing edge (what keeps `add_edge` from overwriting) -/
theorem C02_auto_id_fresh {s : DHG} (h : Reachable s) : PyId.int (s.uid : Int) ∉ s.edges :=
  uid_not_mem (C02_reachable h).2

/-! ### non-vacuity: concrete non-trivial histories run inside the model and meet the hypotheses -/

private def pair (t h : List Int) : DiMembers := .pair (t.map PyId.int) (h.map PyId.int)

private def demoOps : List Op :=
  [ .addEdge (pair [1, 2] [2, 3]) none [],                       -- edge 0; node 2 in tail and head
    .addEdgesFrom .f2 [{ members := pair [3] [4], idx := some (.int 0), attr := [] },      -- id exists: warned
                       { members := pair [3] [4, 4], idx := some (.int 7), attr := [] }] [],
    .addEdge (.pair [.int 1, .none] [.int 2]) none [],             -- raises before any write
    .addEdge .short (some (.int 9)) [],                            -- IndexError
    .addNodeToEdge (.int 9) (.int 1) .head,                        -- creates edge 9, counter moves to 10
    .addNodeToEdge (.int 9) (.str "a") .tail,
    .removeNodeFromEdge (.int 0) (.int 2) .tail true,              -- 2 stays in the head of 0
    .removeNode (.int 3) true true ]                               -- strong: deletes edges 0 and 7

example : (run DHG.empty demoOps).isSome = true := by decide
example : ((run DHG.empty demoOps).map (·.edges)) = some [.int 9] := by decide
example : ((run DHG.empty demoOps).map (·.nodes)) = some [.int 1, .int 2, .int 4, .str "a"] := by decide
example : ((run DHG.empty demoOps).map (fun s => (s.tail (.int 9), s.head (.int 9)))) = some ([.str "a"], [.int 1]) := by decide
-- after the strong removal of 3 the survivors 1, 2, 4 no longer list the deleted edges 0 and 7
example : ((run DHG.empty demoOps).map (fun s => (s.membIn (.int 1), s.membOut (.int 1), s.membIn (.int 2),
    s.membOut (.int 2), s.membIn (.int 4)))) = some ([.int 9], [], [], [], []) := by decide
example : ((run DHG.empty demoOps).map (·.uid)) = some 10 := by decide

/-- a node that is in both the head and the tail of one edge is an ordinary reachable state -/
private def bothOps : List Op := [ .addEdge (pair [1, 2] [2, 3]) none [] ]
example : ((run DHG.empty bothOps).map (fun s =>
    (decide (PyId.int 2 ∈ s.tail (.int 0)), decide (PyId.int 2 ∈ s.head (.int 0)),
     s.membOut (.int 2), s.membIn (.int 2)))) = some (true, true, [.int 0], [.int 0]) := by decide
example : Reachable ((run DHG.empty bothOps).getD DHG.empty) :=
  Reachable.step (op := .addEdge (pair [1, 2] [2, 3]) none []) Reachable.empty rfl

/-- weak removal of a node that is on both sides; the emptied edge goes only with `remove_empty` -/
private def weakOps (re : Bool) : List Op :=
  [ .addEdge (pair [5] [5]) none [], .addEdge (pair [5, 6] []) none [], .removeNode (.int 5) false re ]
example : ((run DHG.empty (weakOps true)).map (fun s => (s.edges, s.tail (.int 1)))) = some ([.int 1], [.int 6]) := by decide
example : ((run DHG.empty (weakOps false)).map (fun s => (s.edges, s.tail (.int 0), s.head (.int 0)))) =
    some ([.int 0, .int 1], [], []) := by decide

end Xgi.C02
