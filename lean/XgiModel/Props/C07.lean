import XgiModel.C07.Copy
import XgiModel.C07.Heap
import XgiModel.Lemmas.HGAdd
namespace Xgi.C07
theorem placeholder : True := trivial
end Xgi.C07
